import FluteModel.Drv.Util
import FluteModel.Alc
import FluteModel.Spec.Wire
/-
  Line protocol of engine `wire` (first token `wire` already dropped by `runDriver`):

    lct <psi> <cci> <tsi> <toi> <cp> <co> <cs>        push_lct_header                → ok <hex>
    plct <hex>                                       parse_lct_header               → ok <len>,<cci>,<tsi>,<toi>,<cp>,<co>,<cs>,<extoff> | ERR | PANIC
    ext <hex> <het>                                  parse_lct_header + get_ext     → ok none | ok <hex> | ERR | PANIC
    pkt <oti:7> <cci> <tsi> <toi> <fdtid|-> <cenc> <inbandcenc> <co> <sbl> <sct µs|-> <rfc3926> <tl> <sbn> <esi> <payload hex>
                                                     new_alc_pkt                    → ok <hex> | unspecified (builder precondition violated)
    close <cci> <tsi>                                new_alc_pkt_close_session      → ok <hex> | PANIC
    parse <hex>                                      parse_alc_pkt, get_sender_current_time, parse_payload_id
         → ok L=<lct> F=<oti|-> T=<tl|-> C=<cenc|-> D=<v>:<id>|- O=<alcoff>,<payoff> S=<µs|-|ERR|PANIC> P=<sbn>,<esi>,<sbl|->|ERR|PANIC
         | ERR | PANIC
    pid <hex> <m>                                    parse_alc_pkt + parse_payload_id with an RS GF(2^m) oti of the given m
                                                                                    → ok <sbn>,<esi>,<sbl|-> | ERR | PANIC
    ipid <hex>                                       parse_alc_pkt + get_fec_inline_payload_id (codec of the codepoint;
                                                     RS GF(2^m): "not supported")   → ok <sbn>,<esi>,<sbl|-> | ERR | PANIC
    ntp <µs>                                         system_time_to_ntp             → ok <ntp> | PANIC
    untp <ntp>                                       ntp_to_system_time             → ok <µs> | ERR | PANIC
    rfc <hex>                                        independent RFC decoder (Spec) → ok <canonical fields> | ERR
    session <family> <params...>                     oracle-only: one real Sender -> Receiver session of the generator families
                                                     `rewidth` / `sender-range`, executed inside the op (watchdog) → ok
    rewidth <hex> <c> <s> <o> <h>                    independent RFC decoder + encoder (Spec): the same packet with its
                                                     LCT header re-serialised at other width flags → ok <hex> | ERR
  oti = <fec> <inst> <B> <E> <parity> <ss> <inband>,  ss = - | rs:<m>:<g> | rq:<z>:<n>:<al> | r:<z>:<n>:<al>
-/
namespace Flute.Drv.Wire
open Flute Flute.Bytes Flute.Lct Flute.Fti Flute.Alc Flute.Ntp

def bool? (s : String) : Option Bool := if s = "1" then some true else if s = "0" then some false else none
def showB (b : Bool) : String := if b then "1" else "0"

def optNat? (s : String) : Option (Option Nat) := if s = "-" then some none else (nat? s).map some

def ss? (s : String) : Option SchemeSpecific :=
  match s.splitOn ":" with
  | ["-"] => some .none
  | ["rs", m, g] => do pure (.rs (← nat? m) (← nat? g))
  | ["rq", z, n, al] => do pure (.raptorq (← nat? z) (← nat? n) (← nat? al))
  | ["r", z, n, al] => do pure (.raptor (← nat? z) (← nat? n) (← nat? al))
  | _ => none

def showSs : SchemeSpecific → String
  | .none => "-"
  | .rs m g => s!"rs:{m}:{g}"
  | .raptorq z n al => s!"rq:{z}:{n}:{al}"
  | .raptor z n al => s!"r:{z}:{n}:{al}"

def oti? (xs : List String) : Option Oti :=
  match xs with
  | [fec, inst, b, e, p, ss, inb] => do
    pure { fecId := ← nat? fec, inst := ← nat? inst, maxSbl := ← nat? b, esl := ← nat? e, parity := ← nat? p,
           ss := ← ss? ss, inbandFti := ← bool? inb }
  | _ => none

def showOti (o : Oti) : String :=
  s!"{o.fecId},{o.inst},{o.maxSbl},{o.esl},{o.parity},{showSs o.ss},{showB o.inbandFti}"

def showLct (l : LctHeader) : String :=
  s!"{l.len},{l.cci},{l.tsi},{l.toi},{l.cp},{showB l.closeObject},{showB l.closeSession},{l.headerExtOffset}"

def showOut {α} (f : α → String) : Out α → String
  | .ok v => "ok " ++ f v
  | .err => "ERR"
  | .panic _ => "PANIC"

/-- sub-observation inside a `parse` line -/
def showSub {α} (f : α → String) : Out α → String
  | .ok v => f v
  | .err => "ERR"
  | .panic _ => "PANIC"

def showOptNat : Option Nat → String
  | some v => toString v
  | none => "-"

def showPid (p : PayloadId) : String := s!"{p.sbn},{p.esi},{showOptNat p.sbl}"

/-- the oti used for `parse_payload_id` when the packet carries no EXT_FTI -/
def defaultOti (cp : Nat) : Oti :=
  { fecId := cp, inst := 0, maxSbl := 0, esl := 0, parity := 0,
    ss := if cp = RS2M then .rs 8 1 else .none, inbandFti := true }

def showParse (d : List Nat) : String :=
  match parseAlcPkt d with
  | .err => "ERR"
  | .panic _ => "PANIC"
  | .ok p =>
    let oti := match p.oti with | some o => o | none => defaultOti p.lct.cp
    let f := match p.oti with | some o => showOti o | none => "-"
    let dd := match p.fdtInfo with | some (v, i) => s!"{v}:{i}" | none => "-"
    s!"ok L={showLct p.lct} F={f} T={showOptNat p.transferLength} C={showOptNat p.cenc} D={dd} " ++
    s!"O={p.alcHeaderOffset},{p.payloadOffset} S={showSub showOptNat (getSenderCurrentTime d p)} " ++
    s!"P={showSub showPid (parsePayloadId d p oti)}"

def step (args : List String) : String :=
  match args with
  | ["lct", psi, cci, tsi, toi, cp, co, cs] =>
    match nats? [psi, cci, tsi, toi, cp], bool? co, bool? cs with
    | some [psi, cci, tsi, toi, cp], some co, some cs =>
      if psi < 256 ∧ cp < 256 ∧ cci < 2^128 ∧ tsi < 2^64 ∧ toi < 2^128 then
        "ok " ++ hex (pushLctHeader psi cci tsi toi cp co cs)
      else "bad-op"
    | _, _, _ => "bad-op"
  | ["plct", h] =>
    match unhex h with
    | some d => showOut showLct (parseLctHeader d)
    | none => "bad-op"
  | ["ext", h, het] =>
    match unhex h, nat? het with
    | some d, some het =>
      if het < 256 then
        showOut (fun r => match r with | some b => hex b | none => "none")
          ((parseLctHeader d).bind fun l => getExt d l het)
      else "bad-op"
    | _, _ => "bad-op"
  | "pkt" :: f :: i :: b :: e :: p :: ss :: inb :: rest =>
    match oti? [f, i, b, e, p, ss, inb], rest with
    | some oti, [cci, tsi, toi, fdtid, cenc, ibc, co, sbl, sct, r3926, tl, sbn, esi, pay] =>
      match nats? [cci, tsi, toi, cenc, sbl, tl, sbn, esi], optNat? fdtid, optNat? sct,
            bool? ibc, bool? co, bool? r3926, unhex pay with
      | some [cci, tsi, toi, cenc, sbl, tl, sbn, esi], some fdtid, some sct, some ibc, some co, some r3926, some pay =>
        if cci < 2^128 ∧ tsi < 2^64 ∧ toi < 2^128 ∧ cenc ≤ 3 ∧ sbl < 2^32 ∧ tl < 2^64 ∧ sbn < 2^32 ∧ esi < 2^32
           ∧ knownFec oti.fecId then
          let pkt : Pkt := { payload := pay, transferLength := tl, esi := esi, sbn := sbn, toi := toi, fdtId := fdtid,
                             cenc := cenc, inbandCenc := ibc, closeObject := co, sourceBlockLength := sbl,
                             senderCurrentTime := sct.isSome }
          -- builder preconditions (`debug_assert!` / `unwrap` / checked u32 add / shift by m ≥ 32) are outside C06's
          -- range and profile dependent: where the model's builder panics the compared token is `unspecified`
          -- (the engine prints the same token from the same precondition, whatever the implementation does)
          match newAlcPkt oti cci tsi pkt r3926 (sct.getD 0) with
          | .ok b => "ok " ++ hex b
          | .error _ => "unspecified"
        else "bad-op"
      | _, _, _, _, _, _, _ => "bad-op"
    | _, _ => "bad-op"
  | ["close", cci, tsi] =>
    match nats? [cci, tsi] with
    | some [cci, tsi] => if cci < 2^128 ∧ tsi < 2^64 then showRs hex (newAlcPktCloseSession cci tsi) else "bad-op"
    | _ => "bad-op"
  | ["parse", h] =>
    match unhex h with
    | some d => showParse d
    | none => "bad-op"
  | ["pid", h, m] =>
    match unhex h, nat? m with
    | some d, some m =>
      if m < 256 then
        showOut showPid ((parseAlcPkt d).bind fun p =>
          parsePayloadId d p { defaultOti p.lct.cp with ss := .rs m 1 })
      else "bad-op"
    | _, _ => "bad-op"
  | ["ipid", h] =>
    match unhex h with
    | some d => showOut showPid ((parseAlcPkt d).bind fun p => getFecInlinePayloadId d p)
    | none => "bad-op"
  | ["ntp", us] =>
    match nat? us with
    | some us => showRs toString (systemTimeToNtp us)
    | none => "bad-op"
  | ["untp", n] =>
    match nat? n with
    | some n => if n < 2^64 then showOut toString (ntpToSystemTime n) else "bad-op"
    | none => "bad-op"
  | ["rewidth", hx, c, s, o, h] =>
    match unhex hx, nats? [c, s, o, h] with
    | some d, some [c, s, o, h] =>
      match Flute.Spec.Wire.rewidth d c s o h with
      | some r => "ok " ++ hex r
      | none => "ERR"
    | _, _ => "bad-op"
  | "session" :: _fam :: _ =>
    -- oracle-only op: a whole real Sender -> Receiver session (families rewidth / sender-range) runs inside this op on
    -- the implementation side so that the harness watchdog covers it; the session level is not modelled here
    -- (engines recv / e2e own it): the expected observation is `ok` (a panic shows as `PANIC`, a hang as `.hang`)
    "ok"
  | ["rfc", h] =>
    match unhex h with
    | some d => Flute.Spec.Wire.showDecode d
    | none => "bad-op"
  | _ => "bad-op"

end Flute.Drv.Wire
