import FluteModel.Drv.Util
import FluteModel.BlockEnc
import FluteModel.BlockEncWire
/-
  Line-protocol driver of engine `benc` (see harness/engines/benc/src/main.rs for the operations).
  `benc newlegacy …` runs the model of the code BEFORE the repairs of D3/D8/D18/D21 (used once, to
  validate the negation witnesses against the unrepaired tree); `benc new …` is the current code.
-/
namespace Flute.Drv.Benc
open Flute Flute.Fec Flute.BlockEnc

/-- what the datagram needs beside the encoder's packet: the file's OTI (as admitted: Z set), transfer length, cenc -/
structure WireCfg where
  scheme : String
  oti : Flute.Fti.Oti
  tlen : Nat
  cenc : Nat

structure St where
  sess : Session
  w : WireCfg
  dead : Bool := false
  /-- (unused since /repo 0805b7e: `Sender::new` treats `interleave_blocks = 0` as 1 - the driver clamps the window
      accordingly in `opNew`; before that commit the FDT's own encoder reached the `debug_assert` at the first read) -/
  fdtPanics : Bool := false

def lcgNext (x : Nat) : Nat := (x * 6364136223846793005 + 1442695040888963407) % 2^64

/-- `g:<seed>:<len>` (machine words: same values as the `Nat` formula `lcgNext`, wrapping = mod 2^64) -/
def genBytesU : UInt64 → Nat → List Nat → List Nat
  | _, 0, acc => acc.reverse
  | x, n + 1, acc =>
    let x' := x * 6364136223846793005 + 1442695040888963407
    genBytesU x' n (((x' >>> 33) % 256).toNat :: acc)

def genBytes (seed len : Nat) : List Nat := genBytesU (UInt64.ofNat seed) len []

/-- FNV-1a 64, continued from state `h` -/
def fnvFrom (h : UInt64) (bs : List Nat) : UInt64 :=
  bs.foldl (fun h b => (h ^^^ UInt64.ofNat b) * 0x100000001b3) h

def fnv64 (bs : List Nat) : Nat := (fnvFrom 0xcbf29ce484222325 bs).toNat

def hexN (digits n : Nat) : String :=
  String.ofList ((List.range digits).reverse.map fun i => hexNib ((n >>> (4 * i)) % 16))

def genRand (max : Nat) : Nat → Nat → List Nat
  | _, 0 => []
  | x, n + 1 => let x' := lcgNext x; (1 + ((x' >>> 33) % (Nat.max max 1))) :: genRand max x' n

def parseObj (s : String) : Option (List Nat) :=
  if s.startsWith "h:" then unhex (s.drop 2).toString
  else if s.startsWith "g:" then
    match (s.drop 2).toString.splitOn ":" with
    | [a, b] => do let seed ← a.toNat?; let len ← b.toNat?; pure (genBytes seed len)
    | _ => none
  else none

/-- expand a schedule spec to an explicit list long enough for `calls` read calls -/
def parseSched (s : String) (l e : Nat) (transfers : Nat) : Option (List Nat) :=
  let body := (s.drop 1).toString
  if s.startsWith "f" then do
    let n ← body.toNat?
    pure (List.replicate ((l / Nat.max n 1 + 2 * (l / Nat.max e 1 + 2) + 32) * transfers) n)
  else if s.startsWith "l" then (body.splitOn ".").mapM (·.toNat?)
  else if s.startsWith "r" then
    match body.splitOn "." with
    | [a, b] => do
      let seed ← a.toNat?; let max ← b.toNat?
      pure (genRand max seed ((3 * l + 32) * transfers))
    | _ => none
  else none

def opaqueRepair : Nat → Nat → List Bytes → Nat → Bytes := fun _ _ _ _ => []

/-- (codec, the `Oti` the harness builds with flute's constructors, do the constructors accept) -/
def schemeOf (name : String) (e b p : Nat) : Option (Codec × Flute.Admission.Oti × Bool) :=
  let mk (fec : Flute.Admission.Fec) (sc : Option Flute.Admission.SchemeSpecific) : Flute.Admission.Oti :=
    { fec := fec, inst := 0, maxSbl := b, esl := e, parity := p, scheme := sc }
  match name with
  | "nocode" => some (noCode, mk .noCode none, decide (e ≤ 65535 ∧ b ≤ 65535))
  | "rs28" => some (reedSolomon opaqueRepair, mk .rs28 none, decide (e ≤ 65535 ∧ b ≤ 255 ∧ p ≤ 255 ∧ b + p ≤ 255))
  | "rs28us" => some (reedSolomon opaqueRepair, mk .rs28us none, decide (e ≤ 65535 ∧ b ≤ 65535 ∧ p ≤ 65535 ∧ b + p ≤ 65535))
  | "raptorq" => some (raptorQ opaqueRepair, mk .raptorq (some (.raptorq 0 1 1)), decide (e ≤ 65535 ∧ b ≤ 65535 ∧ p ≤ 65535))
  | "raptor" => some (raptorLegacy opaqueRepair, mk .raptor (some (.raptor 0 1 1)), decide (e ≤ 65535 ∧ b ≤ 65535 ∧ p ≤ 65535))
  | _ => none

/-- the sender of every case: one priority queue (0), FDT not complete, the library's default OTI (No-Code 1424 × 64) -/
def senderCfg : Flute.Admission.Cfg :=
  { queues := [0], complete := false,
    oti := { fec := .noCode, inst := 0, maxSbl := 64, esl := 1424, parity := 0, scheme := none } }

def opNew (legacy : Bool) (a : List String) : Option St × String :=
  match a with
  | [scheme, e, b, p, win, maxtc, allow, car, cenc, src, obj, te] =>
    match nats? [e, b, p, win, maxtc, allow, car], parseObj obj with
    | some [e, b, p, win, maxtc, allow, car], some obj =>
      if !(cenc == "null" || cenc == "zlib" || cenc == "deflate" || cenc == "gzip") then (none, "bad-op") else
      match schemeOf scheme e b p with
      | none => (none, "bad-op")
      | some (codec, admOti, otiOk) =>
        if !otiOk then (none, "bad-oti") else
        if win > 255 ∨ maxtc ≥ 2^32 then (none, "bad-op") else
        let te? : Option (List Nat) := if te == "=" then some obj else unhex te
        match te? with
        | none => (none, "bad-op")
        | some te =>
        -- source spec <base>[@pre<N>|@post<N>]: the stream's position when the first transfer starts (the model's
        -- `Enc.new` rewinds, `Source.len` ignores the position: nothing may depend on N)
        let (src, pos0?) : String × Option Nat :=
          match src.splitOn "@" with
          | [b] => (b, some 0)
          | [b, sfx] =>
            if sfx.startsWith "pre" then (b, (sfx.drop 3).toString.toNat?)
            else if sfx.startsWith "post" then (b, (sfx.drop 4).toString.toNat?)
            else (b, none)
          | _ => (src, none)
        match pos0? with
        | none => (none, "bad-op")
        | some pos0 =>
        -- `create_from_file(cache_in_ram = true)` reads the file into a buffer, `false` hands the `File` over as a stream
        let isBuf := src == "buf" || src == "ffile-ram"
        if isBuf && pos0 != 0 then (none, "bad-op") else
        -- what the application supplies
        let supplied? : Option Supplied :=
          if isBuf then some (.buffer obj)
          else if src == "cur" || src == "file" || src == "bufrd" || src == "ffile-stream" then
            some (.stream { bytes := obj, pos := pos0, sched := [] })
          else if src.startsWith "chk:" then
            -- `chk:<sched>!<k>`: fault-injecting stream, see `faultK?` below
            match parseSched (((src.drop 4).toString.splitOn "!").headD "") obj.length e (maxtc + 4) with
            | some sc => some (.stream { bytes := obj, pos := pos0, sched := sc })
            | none => none
          else none
        -- source fault: every `read` after `k` successful ones returns `Err`
        -- `!<k>` permanent, `!<k>t` transient (that call only); `!<k>i` / `!<k>j` = `Err(Interrupted)` once / three times at that
        -- call: retried transparently by `read_block_stream`, invisible in the model
        let faultK? : Option (Option (Nat × Bool)) :=
          match src.splitOn "!" with
          | [_] => some none
          | [_, k] =>
            if k.endsWith "i" || k.endsWith "j" then ((k.dropEnd 1).toString.toNat?).map (fun _ => none)
            else if k.endsWith "t" then ((k.dropEnd 1).toString.toNat?).map (fun n => some (n, true))
            else (k.toNat?).map (fun n => some (n, false))
          | _ => none
        match faultK? with
        | none => (none, "bad-op")
        | some faultK =>
        match supplied? with
        | none => (none, "bad-op")
        | some supplied =>
        let cencN := if cenc == "null" then 0 else if cenc == "zlib" then 1 else if cenc == "deflate" then 2 else 3
        -- `ObjectDesc::create_*`; flate2's output is the op's `te` argument (legacy = before D18: streams were accepted
        -- with a content encoding and sent as they are)
        let source? : Option Source :=
          match supplied with
          | .stream st => if legacy then some (.stream st) else objectSource (fun _ _ => te) cencN supplied
          | _ => objectSource (fun _ _ => te) cencN supplied
        let source? : Option Source :=
          match source?, faultK with
          | some (.stream st), some (k, once) => some (.faulty st k once)
          | x, _ => x
        match source? with
        | none => (none, "ERR create")
        | some source =>
          let l := source.len
          -- `Sender::add_object`: agent toi's reference admission predicate (Admission.lean, tied to the real add_object by
          -- engine `toi`, linked to `Accepts` by Props/AdmissionLink.lean `admitted_block_limits`).  legacy = the tree before
          -- D21 / D25 / K_max: only the transfer-length check existed
          let obj : Flute.Admission.Obj :=
            { transferLength := l, oti := some admOti, location := [], contentType := [], md5 := none, etag := none,
              groups := none, toi := .none }
          let adm : Rs (Except Flute.Admission.Refuse Flute.Admission.Oti) :=
            if legacy then
              match Flute.Admission.maxTransferLength admOti with
              | .error w => .error w
              | .ok mtl => if l > mtl then .ok (.error .tooLong) else .ok (.ok admOti)
            else
              match Flute.Admission.accepts senderCfg 0 obj with
              | .error w => .error w
              | .ok (.error r) => .ok (.error r)
              | .ok (.ok a) => .ok (.ok a.oti)
          match adm with
          | .error _ => (none, "PANIC")
          | .ok (.error _) => (none, "ERR add")
          | .ok (.ok fileOti) =>
          let P : Params := { codec := codec, e := e, b := b, p := p, window := (if win = 0 then 1 else win), len := l, legacy := legacy }
          (some { sess := { P := P, src := source, maxtc := maxtc, carousel := car == 1, allowStop := allow == 1 },
                  w := { scheme := scheme, oti := Flute.BlockEncWire.ftiOti fileOti true, tlen := l, cenc := cencN },
                  fdtPanics := false },
           s!"ok {l}")
    | _, _ => (none, "bad-op")
  | _ => (none, "bad-op")

/-- what an RFC decoder reads out of EXT_FTI for the file's OTI (`Admission`'s result) and transfer length: each value
    in the width its field has in the FEC scheme's layout (RFC 5445 §4/§5, 5510 §5.2, 6330 §3.3, 5053 §3.2) -/
def ftiFields (o : Flute.Fti.Oti) (tlen : Nat) : String :=
  let j (xs : List Nat) : String := ":".intercalate (xs.map toString)
  match o.fecId, o.ss with
  | 0, _ => j [tlen % 2^48, o.esl % 2^16, o.maxSbl % 2^32]
  | 5, _ => j [tlen % 2^48, o.esl % 2^16, o.maxSbl % 2^8, (o.parity + o.maxSbl) % 2^8]
  | 129, _ => j [tlen % 2^48, o.inst % 2^16, o.esl % 2^16, o.maxSbl % 2^16, (o.parity + o.maxSbl) % 2^16]
  | 6, .raptorq z n al => j [tlen % 2^40, o.esl % 2^16, z % 2^8, n % 2^16, al % 2^8]
  | 1, .raptor z n al => j [tlen % 2^48, o.esl % 2^16, z % 2^16, n % 2^8, al % 2^8]
  | _, _ => "?"

/-- one packet: (SBN, ESI, length and FNV-64 of a source payload, source block length for FEC ID 129, A, B) and what an
    RFC decoder reads in the header besides the payload ID: TOI (1), codepoint (= FEC encoding ID), the EXT_FTI fields
    of `file.oti` (object packets carry EXT_FTI: `inband_fti`).  The header's BYTE layout is C06's (engine wire), not
    compared here; `ERRPKT` = the model's builder `Alc.newAlcPkt file.oti 0 tsi (toAlc p)` overflows (a Rust panic) -/
def showPkt (w : WireCfg) (p : Pkt) : String :=
  let len := if p.isSource then toString p.payload.length else "-"
  let h := if p.isSource then hexN 16 (fnv64 p.payload) else "r"
  let sbl := if w.scheme == "rs28us" then toString p.sbl else "-"
  let (a, b) := alcFlags p
  let hdr := match Flute.BlockEncWire.datagramHead w.oti 1 1 w.tlen w.cenc false p with
    | .ok _ => s!"t1/c{w.oti.fecId}/{ftiFields w.oti w.tlen}"
    | .error _ => "ERRPKT"
  s!"{p.sbn},{p.esi},{len},{h},{sbl},{if a then 1 else 0},{if b then 1 else 0},{hdr}"

/-- read until something that is not a packet; returns the joined observation -/
def readAll (w : WireCfg) : Nat → Session → List String → Bool × Session × List String
  | 0, x, acc => (true, x, "TOO-MANY" :: acc)
  | n + 1, x, acc =>
    match x.read with
    | (.pkt p, x') => readAll w n x' (showPkt w p :: acc)
    | (.none, x') => (false, x', "none" :: acc)
    | (.panic, x') => (true, x', "PANIC" :: acc)
    | (.hang, x') => (true, x', "HANG" :: acc)

def step (st : Option St) (args : List String) : Option St × String :=
  match args with
  | "new" :: a => opNew false a
  | "newlegacy" :: a => opNew true a
  | ["read"] =>
    match st with
    | none => (none, "no-session")
    | some s =>
      if s.dead then (st, "dead") else
      if s.fdtPanics then (some { s with dead := true }, "PANIC") else
      match s.sess.read with
      | (.pkt p, x') => (some { s with sess := x' }, showPkt s.w p)
      | (.none, x') => (some { s with sess := x' }, "none")
      | (.panic, x') => (some { s with sess := x', dead := true }, "PANIC")
      | (.hang, x') => (some { s with sess := x', dead := true }, "HANG")
  | ["readall"] =>
    match st with
    | none => (none, "no-session")
    | some s =>
      if s.dead then (st, "dead") else
      if s.fdtPanics then (some { s with dead := true }, "PANIC") else
      let (dead, x', acc) := readAll s.w 200001 s.sess []
      (some { s with sess := x', dead := dead }, joinSp acc.reverse)
  | ["remove"] =>
    match st with
    | none => (none, "no-session")
    | some s =>
      let (r, x') := s.sess.remove
      (some { s with sess := x' }, if r then "true" else "false")
  | ["tick"] =>
    match st with
    | none => (none, "no-session")
    | some s => (some { s with sess := s.sess.tick 10 }, "ok")
  | ["close"] =>
    match st with
    | none => (none, "no-session")
    | some _ =>
      let (a, b) := closeSessionFlags
      (st, s!"close 0 {if a then 1 else 0} {if b then 1 else 0} 0")
  | _ => (st, "bad-op")

end Flute.Drv.Benc
