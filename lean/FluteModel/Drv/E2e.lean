import FluteModel.Drv.Util
import FluteModel.Partition
import FluteModel.Session
import FluteModel.Sched
/-
  Line-protocol driver of the session model (engine `e2e`).

    e2e session <k=v ...> | o <k=v ...> ... | f <id>:<len>:<toi,..> ... | s <F|O><id>x<n> ...
        -> ok n=<packets> h=<digest of (toi, fdt id, sbn, esi, B) of every packet> refused=<object indices>
    e2e full | mask <bits> | dup <digits> | join <offset>
        -> fdt=<instances completed> <toi>:o<opens>c<completes>e<errors>i<interrupted> ...
    e2e probe | jprobe <offset> | mprobe <bits> -> done      (run judged by the implementation-side oracle only)
-/
namespace Flute.Drv.E2e
open Flute Flute.Session

structure OtiP where
  sch : Scheme
  e : Nat
  b : Nat
  p : Nat
  ifti : Bool

def parseScheme : String → Option Scheme
  | "nc" => some .nocode
  | "rs" => some .rs
  | "rsu" => some .rsus
  | "rq" => some .raptorq
  | "rp" => some .raptor
  | _ => none

def parseBool : String → Option Bool
  | "0" => some false
  | "1" => some true
  | _ => none

def parseOti (s : String) : Option OtiP :=
  match s.splitOn ":" with
  | [a, e, b, p, i] => do
    let sch ← parseScheme a
    let e ← e.toNat?; let b ← b.toNat?; let p ← p.toNat?; let i ← parseBool i
    pure { sch := sch, e := e, b := b, p := p, ifti := i }
  | _ => none

def kvOf (toks : List String) : List (String × String) :=
  toks.filterMap (fun t => match t.splitOn "=" with
    | [k, v] => some (k, v)
    | _ => none)

def look (kv : List (String × String)) (k : String) : Option String := (kv.find? (·.1 == k)).map (·.2)

/-- split a token list at the "|" tokens -/
def sections (toks : List String) : List (List String) :=
  let rec go : List String → List String → List (List String) → List (List String)
    | [], cur, acc => (cur.reverse :: acc).reverse
    | t :: ts, cur, acc => if t == "|" then go ts [] (cur.reverse :: acc) else go ts (t :: cur) acc
  go toks [] []

/-- RFC 5052 partition through the model of partition.rs: source symbols per block, and the
    byte length the receiver accounts for each block.  Objects of more than 200000 blocks (only
    the never-transmitted boundary objects of the refusal clause) are cut to their first 64 blocks. -/
def blocksOf (sch : Scheme) (tl e b : Nat) : Option (Array Nat × Array Nat × Nat × Nat × Nat × Nat) :=
  match Partition.blockPartitioning b tl e with
  | .error _ => none
  | .ok (aL, aS, nL, n) =>
    let n' := if n > 200000 then 64 else n
    let ks := (List.range n').map (fun s => if s < nL then aL else aS)
    let first (s : Nat) : Nat := if s ≤ nL then s * aL else nL * aL + (s - nL) * aS
    let blen := (List.range n').map (fun s =>
      let k := if s < nL then aL else aS
      if sch == .rsus then k * e else min (k * e) (tl - first s * e))
    some (ks.toArray, blen.toArray, aL, aS, nL, n)

structure Loaded where
  cfg : SessCfg
  rc : RxCfg
  stream : List Pkt
  /-- accepted objects in `add_object` order, with the decoder of their scheme -/
  objs : List ObjCfg

structure St where
  cur : Option Loaded := none

def absorb (h v : Nat) : Nat := (h * 1000003 + v % (2^61 - 1) + 1) % (2^61 - 1)

def digest (ps : List Pkt) : Nat :=
  ps.foldl (fun h p =>
    absorb (absorb (absorb (absorb (absorb h p.toi) p.fdtId) p.sbn) p.esi) (if p.close then 1 else 0)) 0

def parseSched (toks : List String) : Option (List Slot) :=
  let rec go : List String → List Slot → Option (List Slot)
    | [], acc => some acc.reverse
    | t :: ts, acc =>
      match t.toList with
      | c :: r =>
        match (String.ofList r).splitOn "x" with
        | [id, n] =>
          match id.toNat?, n.toNat? with
          | some id, some n =>
            let sl? : Option Slot := if c == 'F' then some (Slot.fdt id) else if c == 'O' then some (Slot.obj id) else none
            match sl? with
            | some sl => go ts (List.replicate n sl ++ acc)
            | none => none
          | _, _ => none
        | _ => none
      | [] => none
  go toks []

def parseCar (s : String) : Option (Option Sched.Carousel) :=
  if s == "-" then some none else
  match s.toList with
  | 'd' :: r => (String.ofList r).toNat?.map (fun v => some (Sched.Carousel.delay v))
  | 'i' :: r => (String.ofList r).toNat?.map (fun v => some (Sched.Carousel.interval v))
  | _ => none

/-- **Differential against the scheduler model** (`FluteModel/Sched.lean`, properties C11-C14, engine `sched`).
    The session model takes the interleaving of the sources from the implementation (`s` section).  Here the
    scheduler model is run on the session's configuration - queues and multiplex, publish mode, FDT carousel, each
    object's queue / transfer count / carousel mode / packets per transfer (from the model's own block encoder),
    the engine's clock (a read every `dt` µs after a packet, every `idle` µs after nothing) - and must name, packet
    by packet, the same source.  `none` = agreement. -/
def schedDiverge (full : Bool) (fcar : Sched.Carousel) (mux : List Nat) (dt idle fid0 : Nat)
    (adds : List (Nat × Sched.AddArgs)) (fdtPk : List Nat) (sched : List Slot) : Option String :=
  let cfg : Sched.Cfg :=
    { mode := if full then .full else .being, fdtCarousel := fcar, fdtDuration := 3600000000, fdtStartId := fid0,
      queues := (List.range mux.length).zip mux }
  let st0 := Sched.init cfg fdtPk
  let st1 := adds.foldl (fun st (toi, a) => (Sched.addObject { st with nextToi := toi } a).1) st0
  let now0 := 1750000000000000
  let st2 := if full then Sched.publishOp st1 now0 else st1
  let rec go : Nat → Sched.State → Nat → Nat → List Slot → Nat → Option String
    | 0, _, _, _, _, i => some s!"fuel@{i}"
    | _, _, _, _, [], _ => none
    | fuel + 1, st, now, idles, k :: rest, i =>
      match Sched.read { st with log := [] } now [] with
      | (st', .pkt _ toi _ _) =>
        if k == Slot.obj toi then go fuel st' (now + dt) 0 rest (i + 1) else some s!"{i}:O{toi}"
      | (st', .fdt _ id _) =>
        if k == Slot.fdt id then go fuel st' (now + dt) 0 rest (i + 1) else some s!"{i}:F{id}"
      | (st', .none) =>
        if idles > 400 then some s!"{i}:idle" else go fuel st' (now + (if idle = 0 then 1 else idle)) (idles + 1) (k :: rest) i
      | (_, .hang) => some s!"{i}:hang"
  go (sched.length * 402 + 402) st2 now0 0 sched 0

inductive SessRes where
  | bad
  | out (line : String) (l : Option Loaded)

def loadSession (toks : List String) : SessRes :=
  match sections toks with
  | [] => .bad
  | g :: secs =>
    let kv := kvOf g
    match (look kv "oti").bind parseOti, (look kv "w").bind (·.toNat?), (look kv "ro").bind parseBool,
          (look kv "maxc").bind (·.toNat?) with
    | some doti, some w, some ro, some maxc =>
      -- object_max_cache_size bounds the bytes of the allocated blocks and of the packet cache alike
      let cap := if maxc = 0 then 10 * 1024 * 1024 else maxc
      let rc : RxCfg := { receiveOnce := ro, maxSize := cap, pktCap := some cap }
      -- objects
      let osecs := secs.filter (fun s => s.head? == some "o")
      let fsec := (secs.find? (fun s => s.head? == some "f")).map (·.drop 1)
      let ssec := (secs.find? (fun s => s.head? == some "s")).map (·.drop 1)
      let objRes : Option (List (Option ObjCfg × Bool × Bool)) := osecs.mapM (fun sec =>
        let kv := kvOf (sec.drop 1)
        match look kv "oti", look kv "m", look kv "car", look kv "cc", look kv "toi", look kv "tl", look kv "src" with
        | some otiS, some m, some car, some cc, some toiS, some tlS, some src =>
          let oti? : Option OtiP := if otiS == "-" then some doti else parseOti otiS
          match oti?, m.toNat? with
          | some oti, some m =>
            if tlS == "-" then some (none, false, false)        -- the ObjectDesc could not be created
            else match tlS.toNat? with
              | none => none
              | some tl =>
                match blocksOf oti.sch tl oti.e oti.b with
                | none => none
                | some (ks, blen, aL, aS, nL, n) =>
                  let ref := refusedFull oti.sch oti.e oti.b oti.p tl aL aS nL n
                  if toiS == "-" then some (none, true, ref) else
                  match toiS.toNat? with
                  | none => none
                  | some toi =>
                    some (some { toi := toi, scheme := oti.sch, ks := ks, blen := blen, p := oti.p,
                                 inbandFti := oti.ifti, transfers := m, carousel := car != "-",
                                 noCache := cc == "nocache",
                                 streamSrc := src == "stream" || src == "streamoff" || src == "file" || src == "sparse",
                                 -- datagram lengths (input: header sizes are not modelled)
                                 pktLen := ((look kv "pl").bind (·.toNat?)).getD 0,
                                 lastPktLen := ((look kv "pll").bind (·.toNat?)).getD 0 }, true, ref)
          | _, _ => none
        | _, _, _, _, _, _, _ => none)
      let fdtRes : Option (List FdtCfg) := (fsec.getD []).mapM (fun t =>
        match t.splitOn ":" with
        | [id, len, tois] =>
          match id.toNat?, len.toNat? with
          | some id, some len =>
            let files? : Option (List Nat) := if tois == "-" then some [] else (tois.splitOn ",").mapM (·.toNat?)
            match files?, blocksOf doti.sch len doti.e doti.b with
            | some files, some (ks, _, _, _, _, _) => some { id := id, ks := ks, files := files }
            | _, _ => none
          | _, _ => none
        | _ => none)
      match objRes, fdtRes, parseSched (ssec.getD []) with
      | some objR, some fdts, some sched =>
        -- the model's own answer on refusal must agree with what the line says happened
        let refusedIdx := (List.range objR.length).filter (fun i =>
          match objR[i]? with
          | some (_, true, true) => true
          | _ => false)
        let mismatch := objR.any (fun (o, created, ref) => created && (o.isSome == ref))
        let objs := objR.filterMap (·.1)
        -- `Sender::new` treats interleave_blocks = 0 as 1 (/repo 0805b7e)
        let cfg : SessCfg := { fdtScheme := doti.sch, fdtP := doti.p, w := max 1 w, objs := objs, fdts := fdts }
        if mismatch then .out "refusal-mismatch" none else
        -- (block creation failing on the first block of a non-empty object: the source emits nothing,
        --  /repo 6808824 - `emitLoop`; it used to be a debug_assert panic of Sender::read)
        match mkSrcs cfg with
        | none => .out "hang" none
        | some srcs =>
          match buildStream srcs sched with
          | none => .out "sched-mismatch" none
          | some stream =>
            let r := if refusedIdx.isEmpty then "-" else ",".intercalate (refusedIdx.map toString)
            -- the scheduler model must produce the same interleaving (sessions of up to 6000 packets)
            let trLen (k : Slot) : Nat := match srcs.find? (fun x => x.slot == k) with | some x => x.tr.length | none => 0
            let addsRaw : Option (List (Option (Nat × Sched.AddArgs))) := osecs.mapM (fun (sec : List String) =>
              let kv := kvOf (sec.drop 1)
              match look kv "toi", (look kv "q").bind (·.toNat?), (look kv "m").bind (·.toNat?), (look kv "car").bind parseCar with
              | some "-", _, _, _ => some none
              | some t, some q, some m, some car =>
                t.toNat?.map (fun toi =>
                  let a : Sched.AddArgs := { prio := q, nSym := trLen (Slot.obj toi), maxCount := m, carousel := car, start := none, target := none, allowStop := false }
                  some (toi, a))
              | _, _, _, _ => none)
            let adds : Option (List (Nat × Sched.AddArgs)) := addsRaw.map (fun l => l.filterMap id)
            -- the k-th publication carries the instance id (fdt_start_id + k) mod 2^20
            let fid0 := ((look kv "fid0").bind (·.toNat?)).getD 1
            let nPub := fdts.foldl (fun a f => max a ((f.id + 2^20 - fid0 % 2^20) % 2^20 + 1)) 0
            let fdtPk := (List.range nPub).map (fun k => match fdts.find? (fun f => f.id == (fid0 + k) % 2^20) with
              | some f => trLen (Slot.fdt f.id) | none => 1)
            let mux? := (look kv "mux").bind (fun m => (m.splitOn ",").mapM (·.toNat?))
            -- (a source that emits nothing is outside the scheduler model's "n packets per transfer" abstraction)
            let silent := srcs.any (fun x => x.tr.isEmpty)
            let sd : String :=
              if stream.length > 6000 || silent then "" else
              match adds, (look kv "mode"), (look kv "fcar").bind parseCar, mux?, (look kv "dt").bind (·.toNat?),
                    (look kv "idle").bind (·.toNat?) with
              | some adds, some mode, some (some fcar), some mux, some dt, some idle =>
                match schedDiverge (mode == "full") fcar mux dt idle fid0 adds fdtPk sched with
                | none => ""
                | some m => " SCHED-DIVERGE " ++ m
              | _, _, _, _, _, _ => " SCHED-DIVERGE parse"
            .out (s!"ok n={stream.length} h={digest stream} refused={r}" ++ sd)
              (some { cfg := cfg, rc := rc, stream := stream, objs := objs })
      | _, _, _ => .bad
    | _, _, _, _ => .bad

def showObs (l : Loaded) (ps : List Pkt) : String :=
  let decF := canDecodeOf l.cfg.fdtScheme
  let nf := countFdt decF l.rc l.cfg fdtRx0 ps
  let parts := l.objs.map (fun o =>
    let st := observe decF (canDecodeOf o.scheme) l.rc l.cfg o ps
    s!" {o.toi}:o{st.opens}c{st.completes}e{st.errors}i{st.interrupts}")
  s!"fdt={nf}" ++ String.join parts

/-- end (exclusive) of the first full cycle starting at position `i` (`Session.cycleEnd`, the function the
    C16 theorem `late_join_within_two_cycles` is about): sources = the FDT and every carouselled object -/
def cycleEnd (l : Loaded) (i : Nat) : Option Nat :=
  Flute.Session.cycleEnd (0 :: (l.objs.filter (·.carousel)).map (·.toi)) l.stream i

def step (st : St) (args : List String) : St × String :=
  match args with
  | "session" :: rest =>
    match loadSession rest with
    | .bad => ({ cur := none }, "bad-op")
    | .out line l => ({ cur := l }, line)
  | ["probe"] => (st, "done")
  | ["jprobe", _] => (st, "done")
  | ["mprobe", _] => (st, "done")
  | ["fprobe", _] => (st, "done")
  | ["full"] =>
    match st.cur with
    | none => (st, "no-session")
    | some l => (st, showObs l l.stream)
  | ["mask", bits] =>
    match st.cur with
    | none => (st, "no-session")
    | some l =>
      let cs := bits.toList
      if cs.length != l.stream.length || cs.any (fun c => c != '0' && c != '1') then (st, "bad-op") else
      (st, showObs l (applyMults l.stream (cs.map (fun c => if c == '1' then 1 else 0))))
  | ["dup", digits] =>
    match st.cur with
    | none => (st, "no-session")
    | some l =>
      let cs := digits.toList
      if cs.length != l.stream.length || cs.any (fun c => !c.isDigit) then (st, "bad-op") else
      (st, showObs l (applyMults l.stream (cs.map (fun c => c.toNat - '0'.toNat))))
  | ["join", off] =>
    match st.cur, off.toNat? with
    | some l, some off =>
      if off > l.stream.length then (st, "bad-op") else
      match (cycleEnd l off).bind (cycleEnd l) with
      | none => (st, "short")
      | some d => (st, showObs l ((l.stream.drop off).take (d - off)))
    | none, some _ => (st, "no-session")
    | _, none => (st, "bad-op")
  | _ => (st, "bad-op")

end Flute.Drv.E2e
