import FluteModel.Drv.Util
import FluteModel.Admission
/-
  `admission <prio> <complete 0|1> <default oti> <override oti|-> <transfer length> <none|own|foreign>
         <content type> <md5|-> <etag|-> <groups|->`
     oti     = <fec id>:<E>:<B>:<parity>:<n | q.<z>.<n>.<al> | r.<z>.<n>.<al> | s.<m>.<g>>
     strings = code points, decimal, '.'-separated ("e" = empty); groups = strings separated by '/'
  -> ok z=<Z|-> | ERR | PANIC
  (which check refuses - `reason` below - and whether the call consumes a TOI value - `Admission.consumesToi` - are
   NOT part of the compared line: the harness keeps them as samples; the refusal ORDER and the allocation policy are
   not demanded by any property)
  (sender of the harness: priority queue 0 only, TOI start value 1)
-/
namespace Flute.Drv.Admit
open Flute Flute.Admission

def scheme? (tok : String) : Option (Option SchemeSpecific) :=
  match tok.splitOn "." with
  | ["n"] => some none
  | ["s", m, g] => match nats? [m, g] with
    | some [m, g] => if m < 256 ∧ g < 256 then some (some (.reedSolomon m g)) else none
    | _ => none
  | ["q", z, n, al] => match nats? [z, n, al] with
    | some [z, n, al] => if z < 256 ∧ n < 65536 ∧ al < 256 then some (some (.raptorq z n al)) else none
    | _ => none
  | ["r", z, n, al] => match nats? [z, n, al] with
    | some [z, n, al] => if z < 65536 ∧ n < 256 ∧ al < 256 then some (some (.raptor z n al)) else none
    | _ => none
  | _ => none

def oti? (tok : String) : Option Oti :=
  match tok.splitOn ":" with
  | [f, e, b, p, sc] =>
    match nats? [f, e, b, p], scheme? sc with
    | some [f, e, b, p], some sc =>
      match Fec.ofId? f with
      | some fec =>
        if e < 2 ^ 16 ∧ b < 2 ^ 32 ∧ p < 2 ^ 32 then
          some { fec := fec, inst := 0, maxSbl := b, esl := e, parity := p, scheme := sc }
        else none
      | none => none
    | _, _ => none
  | _ => none

/-- a Rust `char`: a Unicode scalar value -/
def scalar (c : Nat) : Bool := c < 0xD800 || (0xE000 ≤ c && c < 0x110000)

def str? (tok : String) : Option (List Nat) :=
  if tok = "e" then some [] else
  match nats? (tok.splitOn ".") with
  | some cs => if cs.all scalar then some cs else none
  | none => none

def optStr? (tok : String) : Option (Option (List Nat)) :=
  if tok = "-" then some none else (str? tok).map some

def groups? (tok : String) : Option (Option (List (List Nat))) :=
  if tok = "-" then some none else ((tok.splitOn "/").mapM str?).map some

def toiArg? : String → Option ToiArg
  | "none" => some .none | "own" => some .own | "foreign" => some .foreign | _ => none

def reason : Refuse → String
  | .noPriorityQueue => "noq" | .fdtComplete => "complete" | .xmlMetadata => "xml" | .foreignToi => "foreign"
  | .notImplemented => "notimpl" | .tooLong => "toolong" | .rsNoParity => "rsnoparity" | .rsFtiFields => "rsfields" | .rsBlockOver255 => "rs255" | .blockOverKmax => "kmax" | .raptorBlockLt4 => "raptorlt4"
  | .noSchemeSpecific => "noscheme" | .tooManyBlocks => "toomanyblocks"

/-- Z as the FDT File entry announces it (`scheme_specific_info`): only for the variant of the encoding id -/
def zOf (o : Oti) : String :=
  match o.fec, o.scheme with
  | .raptorq, some (.raptorq z _ _) => toString z
  | .raptor, some (.raptor z _ _) => toString z
  | _, _ => "-"

def step (args : List String) : String :=
  match args with
  | [prio, complete, dflt, ovr, len, toi, ct, md5, etag, groups] =>
    match nat? prio, oti? dflt, nat? len, toiArg? toi, str? ct, optStr? md5, optStr? etag, groups? groups with
    | some prio, some dflt, some len, some toi, some ct, some md5, some etag, some groups =>
      let ovr? : Option (Option Oti) := if ovr = "-" then some none else (oti? ovr).map some
      match ovr? with
      | none => "bad-op"
      | some ovr =>
        if (complete ≠ "0" ∧ complete ≠ "1") ∨ ¬ prio < 2 ^ 32 ∨ ¬ len < 2 ^ 64 then "bad-op" else
        let cfg : Cfg := { queues := [0], complete := complete = "1", oti := dflt }
        let obj : Obj := { transferLength := len, oti := ovr, location := [], contentType := ct, md5 := md5,
                           etag := etag, groups := groups, toi := toi }
        match accepts cfg prio obj with
        | .error _ => "PANIC"
        | .ok (.error _) => "ERR"
        | .ok (.ok a) => s!"ok z={zOf a.oti}"
    | _, _, _, _, _, _, _, _ => "bad-op"
  | _ => "bad-op"

/-- `admissionc <oti> <cenc> <r|z> <plain length> <transfer length>`: a real content-encoded object with `oti` as
    override; the encoder is a library, so the TRANSFER length the implementation produced is an input of the model;
    `FileDesc::new` must judge that length (not the plain one).  Sender of the harness: default OTI No-Code 1024/64. -/
def stepCenc (args : List String) : String :=
  match args with
  | [oti, cenc, kind, plain, tl] =>
    match oti? oti, nat? plain, nat? tl with
    | some oti, some _, some tl =>
      if (cenc ≠ "1" ∧ cenc ≠ "2" ∧ cenc ≠ "3") ∨ (kind ≠ "r" ∧ kind ≠ "z") ∨ ¬ tl < 2 ^ 64 then "bad-op" else
      let cfg : Cfg := { queues := [0], complete := false,
                         oti := { fec := .noCode, inst := 0, maxSbl := 64, esl := 1024, parity := 0, scheme := none } }
      let obj : Obj := { transferLength := tl, oti := some oti, location := [], contentType := [], md5 := none,
                         etag := none, groups := none, toi := .none }
      match accepts cfg 0 obj with
      | .error _ => "PANIC"
      | .ok (.error _) => "ERR"
      | .ok (.ok a) => s!"ok z={zOf a.oti}"
    | _, _, _ => "bad-op"
  | _ => "bad-op"

end Flute.Drv.Admit
