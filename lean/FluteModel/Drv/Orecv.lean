import FluteModel.Drv.Util
import FluteModel.Drv.Md5
import FluteModel.Drv.Rs
import FluteModel.ObjSess
import FluteModel.ObjRecvIdeal
/-
  Line-protocol driver of engine `orecv` (see harness/engines/orecv/src/main.rs for the op grammar).
  The driver instantiates the model's parameters:
    * MD5/base64: concrete (Drv/Md5.lean);
    * writer environment: the `plan` lines of the case (default: StoreObject, open ok, no write failure);
    * FEC codecs other than No-Code: a decode table given by `ct` lines (computed by the harness with the REAL codec
      objects for the symbol sets that can occur), key = kind/k/param/sorted (esi:fnv(payload)) list;
    * decompressor: an ideal streaming decompressor over the `zmap <compressed> <content>` table of the case
      (consumes whatever is in the ring, emits the content once the whole stream was seen).
-/
namespace Flute.Drv.Orecv
open Flute Flute.FecDec Flute.ObjRecv Flute.ObjSess Flute.Drv

structure PlanSpec where
  ans : BuilderAns := .store
  md5Check : Bool := true
  openOk : Bool := true
  failAt : Option Nat := none

structure DState where
  S : Sess := {}
  plans : List ((Nat × Nat) × PlanSpec) := []
  defMd5 : Bool := true
  ctab : List (String × Option Bytes) := []
  ztab : List (Bytes × Bytes × Bool) := []
  dead : Bool := false

/-! ### parameter instances -/

def symKey (l : List (Nat × Bytes)) : String :=
  ",".intercalate (l.map fun (i, b) => s!"{i}:{Md5.hex64 (Md5.fnv64 b)}")

def insertByEsi (x : Nat × Bytes) : List (Nat × Bytes) → List (Nat × Bytes)
  | [] => [x]
  | y :: r => if x.1 < y.1 then x :: y :: r else if x.1 = y.1 then y :: r else y :: insertByEsi x r

/-- sorted by ESI, first copy of an ESI wins -/
def canonPushes (l : List (Nat × Bytes)) : List (Nat × Bytes) := l.foldl (fun acc x => insertByEsi x acc) []

def presentShards (l : List (Option Bytes)) : List (Nat × Bytes) :=
  (l.zipIdx).filterMap fun (s, i) => s.map fun b => (i, b)

def chunks (n : Nat) (l : Bytes) : Nat → List Bytes
  | 0 => []
  | k + 1 => l.take n :: chunks n (l.drop n) k

def lookupCt (tab : List (String × Option Bytes)) (key : String) : Option Bytes :=
  match tab.find? (·.1 == key) with
  | some (_, v) => v
  | none => none

def mkCodec (tab : List (String × Option Bytes)) : Codec where
  rsNewOk k p := decide (1 ≤ k) && decide (1 ≤ p) && decide (k + p ≤ 256)
  rsReconstruct k p shards := Rs.reconstruct k p shards
  rqData _ k e _ pushes := lookupCt tab s!"rq/{k}/{e}/{symKey (canonPushes pushes)}"
  rFull k bs pushes := (lookupCt tab s!"r/{k}/{bs}/{symKey (canonPushes pushes)}").isSome
  rDecode k bs pushes := lookupCt tab s!"r/{k}/{bs}/{symKey (canonPushes pushes)}"

def PlanSpec.toPlan (p : PlanSpec) : Plan :=
  { ans := p.ans, md5Check := p.md5Check, openOk := p.openOk, writeOk := fun k => p.failAt != some k }

def DState.params (d : DState) : SParams where
  codec := mkCodec d.ctab
  dzRead := tableDz d.ztab
  -- the fuel of one `decoder_read`: what the table decompressor can still hand out, plus one (`DzOK` holds literally:
  -- Lemmas/DrvOrecvDzOK.lean `drv_params_dzOK`, from path's `idealContract`)
  dzFuel := tableFuel d.ztab
  md5 := Md5.md5b64
  planOf toi k :=
    match d.plans.find? (·.1 == (toi, k)) with
    | some (_, p) => p.toPlan
    | none => ({ md5Check := d.defMd5 } : PlanSpec).toPlan

/-! ### printing -/

def schemeNum : Scheme → Nat
  | .noCode => 0 | .raptor => 1 | .rs2m => 2 | .rs28 => 5 | .raptorQ => 6 | .rs28us => 129

def schemeOf? : Nat → Option Scheme
  | 0 => some .noCode | 1 => some .raptor | 2 => some .rs2m | 5 => some .rs28 | 6 => some .raptorQ | 129 => some .rs28us
  | _ => none

def cencNum : Cenc → Nat
  | .null => 0 | .zlib => 1 | .deflate => 2 | .gzip => 3

def cencOf? : Nat → Option Cenc
  | 0 => some .null | 1 => some .zlib | 2 => some .deflate | 3 => some .gzip
  | _ => none

def showSS : Option SS → String
  | none => "-"
  | some (.rs m g) => s!"rs.{m}.{g}"
  | some (.rq z n al) => s!"rq.{z}.{n}.{al}"
  | some (.r z n al) => s!"r.{z}.{n}.{al}"

def showOti : Option Oti → String
  | none => "-"
  | some o => s!"{schemeNum o.scheme}/{o.e}/{o.b}/{o.parity}/{showSS o.ss}"

def showOptNat : Option Nat → String
  | none => "-"
  | some n => toString n

def showMeta (m : Meta) : String :=
  s!"tl={showOptNat m.tl},cl={showOptNat m.cl},cenc={showOptNat (m.cenc.map cencNum)},md5={m.md5.getD "-"},oti={showOti m.oti}"

def showAns : BuilderAns → String
  | .store => "store" | .already => "already" | .abort => "abort"

def okStr (b : Bool) : String := if b then "ok" else "err"

/-- content accepted by the writer so far -/
def written (all : List WCall) : Bytes :=
  all.foldl (fun acc c => match c with
    | .write _ d true => acc ++ d
    | _ => acc) []

/-- cenc announced to the writer (`new(meta)`) is Null -/
def cencNull (all : List WCall) : Bool :=
  all.any fun c => match c with
    | .new m _ => m.cenc == some Cenc.null
    | _ => false

def showCall (all : List WCall) (c : WCall) : Option String :=
  let tot := Md5.summary (written all)
  match c with
  | .new m a => some s!"N[{showMeta m}]={showAns a}"
  | .open ok => some s!"O={okStr ok}"
  | .write sbn d ok => if cencNull all then some s!"W{sbn}:{Md5.summary d}={okStr ok}" else none
  | .complete => some s!"C{tot}"
  | .error => some (if cencNull all then s!"E{tot}" else "E")
  | .interrupted => some (if cencNull all then s!"I{tot}" else "I")

def showChunk (c : Chunk) : Option String :=
  -- writers whose calls of this op are all suppressed (writes with cenc ≠ null) are not shown
  match c.calls.filterMap (showCall c.all) with
  | [] => none
  | l => some (s!"{c.toi}.{c.idx}:" ++ ",".intercalate l)

def chunkLt (a b : Chunk) : Bool := a.toi < b.toi || (a.toi == b.toi && a.idx < b.idx)

def insertChunk (x : Chunk) : List Chunk → List Chunk
  | [] => [x]
  | y :: r => if chunkLt x y then x :: y :: r else y :: insertChunk x r

def showSess (S : Sess) : String :=
  -- S.log holds the chunks most recent first; stable sort by (toi, idx) keeping call order
  let sorted := S.log.foldl (fun acc c => insertChunk c acc) []
  let body := ";".intercalate (sorted.filterMap showChunk)
  s!"{body} | objs={S.objects.length} errs={S.errors.length}"

/-! ### parsing -/

def kv (args : List String) (key : String) : Option String :=
  args.findSome? fun a =>
    match a.splitOn "=" with
    | k :: rest => if k == key then some ("=".intercalate rest) else none
    | [] => none

def kvNat (args : List String) (key : String) : Option Nat := (kv args key).bind nat?

def optTok (s : String) : Option String := if s == "-" then none else some s

def parseSS (s : String) : Option (Option SS) :=
  if s == "-" then some none else
  match s.splitOn "." with
  | ["rs", m, g] => do let m ← nat? m; let g ← nat? g; pure (some (.rs m g))
  | ["rq", z, n, al] => do let z ← nat? z; let n ← nat? n; let al ← nat? al; pure (some (.rq z n al))
  | ["r", z, n, al] => do let z ← nat? z; let n ← nat? n; let al ← nat? al; pure (some (.r z n al))
  | _ => none

/-- `scheme/e/b/parity/ss` -/
def parseOtiToks : List String → Option Oti
  | [s, e, b, p, ss] => do
    let s ← (nat? s).bind schemeOf?
    let e ← nat? e; let b ← nat? b; let p ← nat? p
    let ss ← parseSS ss
    pure { scheme := s, e := e, b := b, parity := p, ss := ss }
  | _ => none

def parseOti (s : String) : Option (Option Oti) :=
  if s == "-" then some none else (parseOtiToks (s.splitOn "/")).map some

/-- `scheme/e/b/parity/ss/tl` -/
def parseFti (s : String) : Option (Option (Oti × Nat)) :=
  if s == "-" then some none else
  match (s.splitOn "/").reverse with
  | tl :: rest => do
    let tl ← nat? tl
    let o ← parseOtiToks rest.reverse
    pure (some (o, tl))
  | [] => none

def parseOptNat (s : String) : Option (Option Nat) :=
  if s == "-" then some none else (nat? s).map some

def parsePkt (args : List String) : Option Pkt := do
  let toi ← kvNat args "toi"
  let cp ← (kvNat args "cp").bind schemeOf?
  let b ← kvNat args "b"
  let fti ← (kv args "fti").bind parseFti
  let cencN ← (kv args "cenc").bind parseOptNat
  let cenc ← match cencN with
    | none => some none
    | some n => (cencOf? n).map some
  let hoff ← kvNat args "hoff"
  let poff ← kvNat args "poff"
  let raw ← (kv args "raw").bind unhex
  if hoff ≤ poff ∧ poff ≤ raw.length then
    pure { toi := toi, cp := cp, close := b != 0, fti := fti, cenc := cenc,
           pid := (raw.take poff).drop hoff, payload := raw.drop poff, dataLen := raw.length }
  else none

/-- `toi,tl,cl,cenc,md5,nocache,oti` -/
def parseEntry (s : String) : Option (Nat × FileEntry) :=
  match s.splitOn "," with
  | [toi, tl, cl, cenc, md5, nc, oti] => do
    let toi ← nat? toi; let tl ← nat? tl
    let cl ← parseOptNat cl
    let cenc ← (nat? cenc).bind cencOf?
    let nc ← nat? nc
    let oti ← parseOti oti
    pure (toi, { oti := oti, tl := tl, cl := cl, cenc := cenc, md5 := optTok md5, noCache := nc != 0 })
  | _ => none

def parseFiles (s : String) : Option (List (Nat × FileEntry)) :=
  if s == "-" then some [] else (s.splitOn ";").mapM parseEntry

def parseAns : String → Option BuilderAns
  | "store" => some .store | "already" => some .already | "abort" => some .abort
  | _ => none

/-! ### step -/

def finish (d : DState) (r : Rx Sess) : DState × String :=
  match r with
  | .ok S => ({ d with S := { S with log := [] } }, showSess S)
  | .error (.panic _) => ({ d with dead := true }, "PANIC")
  | .error .hang => ({ d with dead := true }, "TIMEOUT")

def step (d : DState) (args : List String) : DState × String :=
  match args with
  | "cfg" :: rest =>
    match kvNat rest "max", kvNat rest "once", kvNat rest "maxerr", kvNat rest "md5" with
    | some mx, some once, some me, some md5 =>
      ({ d with S := { d.S with cfg := { maxSize := mx, receiveOnce := once != 0, maxErr := me } }, defMd5 := md5 != 0 }, "ok")
    | _, _, _, _ => (d, "bad-op")
  | ["plan", toi, idx, ans, md5, opn, fail] =>
    match nat? toi, nat? idx, parseAns ans, nat? md5, nat? opn, parseOptNat fail with
    | some toi, some idx, some ans, some md5, some opn, some fail =>
      ({ d with plans := ((toi, idx), { ans := ans, md5Check := md5 != 0, openOk := opn != 0, failAt := fail }) :: d.plans }, "ok")
    | _, _, _, _, _, _ => (d, "bad-op")
  | ["ct", key, val] =>
    if val == "fail" then ({ d with ctab := (key, none) :: d.ctab }, "ok") else
    match unhex val with
    | some b => ({ d with ctab := (key, some b) :: d.ctab }, "ok")
    | none => (d, "bad-op")
  | ["zmap", t, c] =>
    match unhex t, unhex c with
    | some t, some c => ({ d with ztab := (t, c, false) :: d.ztab }, "ok")
    | _, _ => (d, "bad-op")
  | ["zmap", t, c, "bad"] =>
    match unhex t, unhex c with
    | some t, some c => ({ d with ztab := (t, c, true) :: d.ztab }, "ok")
    | _, _ => (d, "bad-op")
  | "pkt" :: rest =>
    if d.dead then (d, "dead") else
    match parsePkt rest with
    | none => (d, "bad-op")
    | some p => finish d (d.S.pushObj d.params p)
  | "nop" :: _ =>
    if d.dead then (d, "dead") else finish d (.ok d.S)
  | "fdt" :: rest =>
    if d.dead then (d, "dead") else
    match kvNat rest "id", (kv rest "files").bind parseFiles with
    | some id, some files => finish d (d.S.fdtComplete d.params { id := id, files := files })
    | _, _ => (d, "bad-op")
  | ["expect", _, _, _] => (d, "ok")
  -- oracle-only op: the datagrams go to a fresh real Receiver with one of the crate's own writer builders (engine side only)
  | ["realwriter", _, _, _] => (d, "ok")
  | ["drop"] =>
    if d.dead then (d, "dead") else
    -- the Receiver is dropped; the next packet goes to a fresh Receiver (the monitor's call counters persist)
    let S := { d.S.dropAll with errors := [] }
    let (d, out) := finish d (.ok S)
    ({ d with S := { cfg := S.cfg, calls := S.calls } }, out)
  | ["cleanup"] =>
    if d.dead then (d, "dead") else finish d (.ok d.S.cleanupAll)
  | ["probe"] =>
    if d.dead then (d, "dead") else
    let objs := d.S.objects.map (·.st)
    let sum (f : St → Nat) : Nat := objs.foldl (fun a st => a + f st) 0
    (d, s!"cache={sum fun st => st.cache.foldl (fun a p => a + p.dataLen) 0} csize={sum (·.cacheSize)} nballoc={sum (·.nbAlloc)} alloc={sum (·.totalAlloc)}")
  | _ => (d, "bad-op")

end Flute.Drv.Orecv
