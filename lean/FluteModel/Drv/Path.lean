import FluteModel.Drv.Util
import FluteModel.PathMap
/-
  Model driver of engine `path` (C05).

    path run  <root> <destform> <loc-hex> <ans> <outcome>      the writer as it is now (`PathMap.open`)
    path sess <root> <destform> <loc-hex> <ans> <outcome>      the same (the harness delivers it through a FLUTE session)
    path run0 <root> <destform> <loc-hex> <ans> <outcome>      the writer before the repair of D9 (`PathMap.openV0`)
    path seq  <root> <destform> <tok,tok,...>                  a history: several writers of one builder, calls in any order

  <root>      absolute path of the sandbox (plain ASCII, no space); the sandbox layout is fixed (see `initFs`)
  <destform>  abs | slash | dots | rel | reldot | dot | dotdot | dotsdot | subup | emptyrel | symdest     how `dest` is spelled (and the cwd)
  <ans>       ok:<hex of url.path()> | rwb | rcb | other      what the real `url::Url::parse` answered
  <outcome>   complete | error | interrupted

  answer:  `ok <diff after open> ; <diff at the end>`  |  `ERR <diff>`  (diff = sorted entries +d: +f: ~f: -f:,
  paths relative to <root> when below it, absolute otherwise, bytes other than letters, digits, '.', '_', '-' as %XX)
-/
namespace Flute.Drv.Path
open Flute Flute.PathMap

def strBytes (s : String) : List Nat := s.toList.map Char.toNat

def segsOf (s : String) : RPath := ((s.splitOn "/").filter (· ≠ "")).map strBytes

/-- the fixed sandbox: every ancestor of <root> is a directory; below <root>:
    dirs outer, outer/sub, dest, dest/sub, solo, solo/deep, solo/deep/dest2 (empty; + harness-side symlink link); files top.txt, outer/canary.txt, outer/sub/deep.txt, dest/old.txt,
    dest/sub/in.txt -/
def initFs (root : RPath) : FS := fun q =>
  if q.isPrefixOf root then some .dir
  else
    let d (xs : List String) : RPath := root ++ xs.map strBytes
    if q = d ["outer"] ∨ q = d ["outer", "sub"] ∨ q = d ["dest"] ∨ q = d ["dest", "sub"] ∨
        q = d ["solo"] ∨ q = d ["solo", "deep"] ∨ q = d ["solo", "deep", "dest2"] then some .dir
    else if q = d ["top.txt"] ∨ q = d ["outer", "canary.txt"] ∨ q = d ["outer", "sub", "deep.txt"] ∨
        q = d ["dest", "old.txt"] ∨ q = d ["dest", "sub", "in.txt"] then some .file
    else none

def plainByte (b : Nat) : Bool :=
  (48 ≤ b ∧ b ≤ 57) ∨ (65 ≤ b ∧ b ≤ 90) ∨ (97 ≤ b ∧ b ≤ 122) ∨ b = 46 ∨ b = 95 ∨ b = 45

def upNib (n : Nat) : Char := if n < 10 then Char.ofNat (48 + n) else Char.ofNat (55 + n)

def escSeg (s : Seg) : String :=
  String.ofList (s.foldr (fun b acc =>
    if plainByte b then Char.ofNat b :: acc else '%' :: upNib (b / 16 % 16) :: upNib (b % 16) :: acc) [])

def showPath (root p : RPath) : String :=
  if root.isPrefixOf p ∧ p ≠ root then "/".intercalate ((p.drop root.length).map escSeg)
  else "/" ++ "/".intercalate (p.map escSeg)

/-- net status per path after a list of effects -/
def applyEffects (acc : List (RPath × String)) : List Effect → List (RPath × String)
  | [] => acc
  | e :: r =>
    let set (p : RPath) (v : Option String) (a : List (RPath × String)) : List (RPath × String) :=
      let a' := a.filter (fun x => x.1 ≠ p)
      match v with
      | none => a'
      | some s => (p, s) :: a'
    let cur (p : RPath) : Option String := (acc.find? (fun x => x.1 = p)).map (·.2)
    match e with
    | .mkdir p => applyEffects (set p (some "+d") acc) r
    | .create p => applyEffects (set p (some "+f") acc) r
    | .truncate p => applyEffects (set p (some "~f") acc) r
    | .remove p =>
      if cur p = some "+f" then applyEffects (set p none acc) r
      else applyEffects (set p (some "-f") acc) r

def insertSorted (s : String) : List String → List String
  | [] => [s]
  | x :: r => if s < x then s :: x :: r else x :: insertSorted s r

def showDiff (root : RPath) (st : List (RPath × String)) : String :=
  let es := st.map (fun (p, k) => k ++ ":" ++ showPath root p)
  let sorted := es.foldr insertSorted []
  if sorted.isEmpty then "-" else " ".intercalate sorted

def parseAns (s : String) : Option UrlAns :=
  if s = "rwb" then some .relativeUrlWithoutBase
  else if s = "rcb" then some .relativeUrlWithCannotBeABaseBase
  else if s = "other" then some .other
  else if s.startsWith "ok:" then (unhex (s.drop 3).toString).map .ok
  else none

def parseOutcome : String → Option Outcome
  | "complete" => some .complete
  | "error" => some .error
  | "interrupted" => some .interrupted
  | _ => none

/-- (cwd, dest) for a dest spelling -/
def destOf (rootS : String) (root : RPath) : String → Option (RPath × Str)
  | "abs" => some ([], strBytes (rootS ++ "/dest"))
  | "slash" => some ([], strBytes (rootS ++ "/dest/"))
  | "dots" => some ([], strBytes (rootS ++ "/outer/../dest/."))
  | "rel" => some (root, strBytes "dest")
  | "reldot" => some (root ++ [strBytes "outer"], strBytes "../dest")
  -- dest spelled with nothing but dots (cwd = the dest directory, resp. a child of it)
  | "dot" => some (root ++ [strBytes "dest"], strBytes ".")
  | "dotdot" => some (root ++ [strBytes "dest", strBytes "sub"], strBytes "..")
  | "dotsdot" => some (root ++ [strBytes "dest"], strBytes "./.")
  | "subup" => some (root ++ [strBytes "dest"], strBytes "sub/..")
  -- an EMPTY destination directory whose ancestors solo/deep hold nothing else: relative spelling, and (harness side) spelled
  -- through the symbolic link <root>/link -> solo/deep/dest2; symlinks are outside the model, which is given the resolved name
  | "emptyrel" => some (root, strBytes "solo/deep/dest2")
  | "symdest" => some ([], strBytes (rootS ++ "/solo/deep/dest2"))
  | _ => none

def okRoot (s : String) : Bool :=
  s.startsWith "/" ∧ s.toList.all (fun c => c = '/' ∨ plainByte c.toNat) ∧ ¬ (s.splitOn "/").any (fun x => x = "." ∨ x = "..")

def runOp (v0 : Bool) (rootS form locH ansS ocS : String) : String :=
  if ¬ okRoot rootS then "bad-op" else
  let root := segsOf rootS
  match destOf rootS root form, unhex locH, parseAns ansS, parseOutcome ocS with
  | some (cwd, dest), some loc, some ans, some oc =>
    let fs := initFs root
    if ¬ builderNew fs cwd dest then "BUILDER-ERR" else
    let (ok, e1, e2, _) := run v0 fs cwd dest loc ans oc
    let d1 := applyEffects [] e1
    if ok then "ok " ++ showDiff root d1 ++ " ; " ++ showDiff root (applyEffects d1 e2)
    else "ERR " ++ showDiff root d1
  | _, _, _, _ => "bad-op"

/-! ### histories: `path seq <root> <destform> <tok,tok,...>`
      tok = n=<loc-hex>=<ans>   new_object_writer (writers are numbered 0,1,.. in order of creation)
          | <i>o | <i>w | <i>c | <i>e | <i>i    open / write(empty slice) / complete / error / interrupted on writer i
    answer: one item per token joined by ';' :  n  |  ok[<diff>] / ERR[<diff>] for open  |  -[<diff>] otherwise,
    <diff> = what that call changed in the tree.  No file ever gets content in a history (writes are empty), so a
    truncation is visible (`~f`) only for a file of the initial tree that was not truncated or removed before:
    `nonEmpty` tracks those. -/

def initNonEmpty (root : RPath) : List RPath :=
  let d (xs : List String) : RPath := root ++ xs.map strBytes
  [d ["top.txt"], d ["outer", "canary.txt"], d ["outer", "sub", "deep.txt"], d ["dest", "old.txt"], d ["dest", "sub", "in.txt"]]

/-- diff entries of one call and the new set of non-empty files -/
def stepDiff (root : RPath) (ne : List RPath) : List Effect → List String → List RPath × List String
  | [], acc => (ne, acc)
  | e :: r, acc =>
    match e with
    | .mkdir p => stepDiff root ne r (("+d:" ++ showPath root p) :: acc)
    | .create p => stepDiff root ne r (("+f:" ++ showPath root p) :: acc)
    | .truncate p =>
      if ne.contains p then stepDiff root (ne.filter (· ≠ p)) r (("~f:" ++ showPath root p) :: acc)
      else stepDiff root ne r acc
    | .remove p => stepDiff root (ne.filter (· ≠ p)) r (("-f:" ++ showPath root p) :: acc)

def showEntries (es : List String) : String :=
  let sorted := es.foldr insertSorted []
  if sorted.isEmpty then "-" else " ".intercalate sorted

def parseCall : Char → Option Call
  | 'o' => some .open
  | 'w' => some .write
  | 'c' => some .complete
  | 'e' => some .error
  | 'i' => some .interrupted
  | _ => none

def seqRun (root cwd : RPath) (dest : Str) : Sys → List RPath → List String → List String → String
  | _, _, [], acc => ";".intercalate acc.reverse
  | s, ne, tok :: rest, acc =>
    if tok.startsWith "n=" then
      match (tok.drop 2).toString.splitOn "=" with
      | [locH, ansS] =>
        match unhex locH, parseAns ansS with
        | some loc, some ans => seqRun root cwd dest (hstep cwd dest s (.new loc ans)).1 ne rest ("n" :: acc)
        | _, _ => "bad-op"
      | _ => "bad-op"
    else
      match tok.toList.reverse with
      | cch :: idxRev =>
        match parseCall cch, (String.ofList idxRev.reverse).toNat? with
        | some c, some i =>
          match s.writers[i]? with
          | none => "bad-op"
          | some w =>
            let r := callWriter s.fs cwd dest w c
            let (ne', es) := stepDiff root ne r.2.2.1 []
            let tag := if c = .open then (if r.2.2.2 then "ok" else "ERR") else "-"
            seqRun root cwd dest ⟨r.1, s.writers.set i r.2.1⟩ ne' rest ((tag ++ "[" ++ showEntries es ++ "]") :: acc)
        | _, _ => "bad-op"
      | [] => "bad-op"

def seqOp (rootS form toks : String) : String :=
  if ¬ okRoot rootS then "bad-op" else
  let root := segsOf rootS
  match destOf rootS root form with
  | some (cwd, dest) =>
    let fs := initFs root
    if ¬ builderNew fs cwd dest then "BUILDER-ERR" else
    seqRun root cwd dest ⟨fs, []⟩ (initNonEmpty root) (toks.splitOn ",") []
  | none => "bad-op"

/-- which model `run` stands for: the code as it is in /repo now -/
def currentIsV0 : Bool := false

def step (args : List String) : String :=
  match args with
  | ["run", root, form, loc, ans, oc] => runOp currentIsV0 root form loc ans oc
  | ["sess", root, form, loc, ans, oc] => runOp currentIsV0 root form loc ans oc
  | ["run0", root, form, loc, ans, oc] => runOp true root form loc ans oc
  | ["seq", root, form, toks] => seqOp root form toks
  | _ => "bad-op"

end Flute.Drv.Path
