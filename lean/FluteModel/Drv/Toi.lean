import FluteModel.Drv.Util
import FluteModel.Toi
import FluteModel.ToiWire
import FluteModel.Drv.Admit
/-
  Line protocol of engine `toi` (first token `toi` already dropped):
    new <16|32|48|64|80|112> <init|none> <tsi>   -> ok
    first <v>          (only after `new … none …`: the first allocated value observed on the real code,
                        that handle was dropped again)                      -> ok
    alloc <h> | alloct <h>                       -> toi <v> | HANG | PANIC
    drop <h> | dropt <h>                         -> ok
    dropmany <h1> <h2> …  (concurrent drops)     -> ok
    add <k> | addfail <k>                        -> toi <v> | ERR
    probe <v>          (after a refused addfail: the next value of the real allocator, INPUT) -> ok | bad-refinement
    addc <k>           (object with carousel_mode: survives its transfers until removed) -> toi <v>
    addx <k> <h> | addxfail <k> <h>              -> toi <v> | ERR
    addforeign <k> <v> (object carrying a handle reserved on ANOTHER sender started at v) -> ERR
    addnoq <k>         (add_object on a priority queue that does not exist)                -> ERR
    remove <k>                                   -> true | false
    start <k>                                    -> wire <toi read back> <O> <H> <field hex>
    drain                                        -> done <tois…> | done -
    fdt                                          -> fdt <sorted tois…> | fdt -
    admission …        (stateless: admission of an object, see Drv/Admit.lean)
    wire <toi> <tsi>   (stateless: header builder + parser on any u128)   -> wire <toi read back> <O> <H> <field hex>
    freerun <n>        (n objects without TOI added, published, all transferred to the end) -> sent <sorted tois…>
    churn <n>          (n times: allocate a handle, drop it)              -> ok <last value>
    allocn <n>         (n handles h=1000000+i, all kept)                  -> ok <first> <last> | HANG
-/
namespace Flute.Drv.Toi
open Flute Flute.Toi

structure St where
  sys : Option Sys := none
  w : Width := .w16
  tsi : Nat := 0
  random : Bool := false
  dead : Bool := false
  /-- name of a refused `addfail` whose effect on the allocator is still to be told by `probe <v>` -/
  pending : Option Nat := none

def width? : String → Option Width
  | "16" => some .w16 | "32" => some .w32 | "48" => some .w48
  | "64" => some .w64 | "80" => some .w80 | "112" => some .w112
  | _ => none

def insertSorted (x : Nat) : List Nat → List Nat
  | [] => [x]
  | y :: r => if x ≤ y then x :: y :: r else y :: insertSorted x r

def sortNat (l : List Nat) : List Nat := l.foldr insertSorted []

def showList (tag : String) (l : List Nat) : String :=
  if l.isEmpty then tag ++ " -" else tag ++ " " ++ joinSp (l.map toString)

def showWire (toi tsi : Nat) : String :=
  let f := ToiWire.encode toi tsi
  s!"wire {ToiWire.decode f} {f.o} {f.h} {hex f.bytes}"

def showObs : Obs → String
  | .toi v => s!"toi {v}"
  | .unit => "ok"
  | .err => "ERR"
  | .bool b => if b then "true" else "false"
  | .done l => showList "done" l
  | .bad => "bad-op"

def runOp (st : St) (op : Op) (wire : Bool := false) : St × String :=
  match st.sys with
  | none => (st, "bad-op")
  | some s =>
    match s.step op with
    | .hang => ({ st with dead := true }, "HANG")
    | .panic _ => ({ st with dead := true }, "PANIC")
    | .ok (s', obs, _) =>
      let out := match wire, obs with
        | true, .toi v => showWire v st.tsi
        -- TOIs seen while draining are read from the packets: through the header builder and parser
        | _, .done l => showList "done" (l.map fun v => ToiWire.decode (ToiWire.encode v st.tsi))
        | _, o => showObs o
      ({ st with sys := some s' }, out)

def runOps (st : St) : List Op → St × String
  | [] => (st, "ok")
  | op :: ops =>
    match runOp st op with
    | (st', "ok") => runOps st' ops
    | (st', out) => (st', out)

/-- `allocn n`: n allocations, handles kept under names 1000000+i -/
def allocN (s : Sys) : (n i first last : Nat) → Sys × String
  | 0, _, first, last => (s, s!"ok {first} {last}")
  | n + 1, i, first, _ =>
    match s.step (.alloc (1000000 + i)) with
    | .ok (s', .toi v, _) => allocN s' n (i + 1) (if i = 0 then v else first) v
    | .ok (s', _, _) => (s', "bad-op")
    | .hang => (s, "HANG")
    | .panic _ => (s, "PANIC")

/-- `churn n`: n times allocate a handle and drop it at once -/
def churn (s : Sys) : (n last : Nat) → Sys × String
  | 0, last => (s, s!"ok {last}")
  | n + 1, _ =>
    match s.step (.alloc 2000000) with
    | .ok (s', .toi v, _) =>
      match s'.step (.drop 2000000) with
      | .ok (s'', .unit, _) => churn s'' n v
      | .ok _ => (s', "bad-op")
      | .hang => (s', "HANG")
      | .panic _ => (s', "PANIC")
    | .ok (s', _, _) => (s', "bad-op")
    | .hang => (s, "HANG")
    | .panic _ => (s, "PANIC")

/-- `freerun n`: n objects without TOI are added, all are transferred (multiplexed) to completion -/
def freerun (s : Sys) (tsi n : Nat) : Option (Sys × String) :=
  let names := (List.range n).map (· + 3000001)
  let rec adds (s : Sys) (acc : List Nat) : List Nat → Option (Sys × List Nat)
    | [] => some (s, acc)
    | k :: r =>
      match s.step (.add k true false) with
      | .ok (s', .toi v, _) => adds s' (v :: acc) r
      | _ => none
  let rec fins (s : Sys) : List Nat → Option Sys
    | [] => some s
    | k :: r =>
      match s.step (.start k) with
      | .ok (s', .toi _, _) =>
        match s'.step .drain with
        | .ok (s'', .done _, _) => fins s'' r
        | _ => none
      | _ => none
  match adds s [] names with
  | none => none
  | some (s1, tois) =>
    match fins s1 names with
    | none => none
    | some s2 =>
      some (s2, showList "sent" (sortNat (tois.map fun v => ToiWire.decode (ToiWire.encode v tsi))))

def step (st : St) (args : List String) : St × String :=
  if st.dead then (st, "DEAD") else
  if st.pending.isSome ∧ args.head? ≠ some "probe" then (st, "bad-op") else
  match args with
  | ["new", w, ini, tsi] =>
    match width? w, nat? tsi with
    | some w, some tsi =>
      if ini = "none" then
        ({ sys := none, w := w, tsi := tsi, random := true }, "ok")
      else match nat? ini with
        | some n =>
          if n < 2 ^ 128 then
            ({ sys := some (Sys.init w (initValue (some n) 0)), w := w, tsi := tsi }, "ok")
          else (st, "bad-op")
        | none => (st, "bad-op")
    | _, _ => (st, "bad-op")
  | ["first", v] =>
    match st.random, st.sys, nat? v with
    | true, none, some v =>
      if v < 2 ^ 128 then
        -- `None`: the implementation drew `rnd`; what was observed is the first allocation `v`
        -- (then released).  `new w rnd` and `new w v` are the same state (masking is idempotent).
        let st := { st with sys := some (Sys.init st.w (initValue none v)) }
        match runOp st (.alloc 0) with
        | (st', out) =>
          if out = s!"toi {v}" then runOp st' (.drop 0)
          else if out = "HANG" ∨ out = "PANIC" then (st', out)
          else (st', "bad-op")
      else (st, "bad-op")
    | _, _, _ => (st, "bad-op")
  | ["alloc", h] | ["alloct", h] =>
    match nat? h with
    | some h => runOp st (.alloc h)
    | none => (st, "bad-op")
  | ["drop", h] | ["dropt", h] =>
    match nat? h with
    | some h => runOp st (.drop h)
    | none => (st, "bad-op")
  | "dropmany" :: hs =>
    match nats? hs with
    | some hs =>
      -- all names must be distinct live handles, otherwise nothing is done
      match st.sys with
      | some s =>
        if hs.all (fun h => (s.handles.find? h).isSome) ∧ hs.eraseDups.length = hs.length then
          runOps st (hs.map .drop)
        else (st, "bad-op")
      | none => (st, "bad-op")
    | none => (st, "bad-op")
  | ["add", k] => match nat? k with
    | some k => runOp st (.add k true false)
    | none => (st, "bad-op")
  | ["addc", k] => match nat? k with
    | some k => runOp st (.add k true true)
    | none => (st, "bad-op")
  | ["addfail", k] =>
    -- `add_object` refuses the object (after the TOI could have been allocated).  Whether the refused call consumed
    -- a TOI value is an allocation POLICY that C15 does not constrain (the code of today allocates, then releases):
    -- the model waits for `probe <v>` = the value the real allocator hands out next, and follows it.
    match st.sys, nat? k with
    | some s, some k =>
      if (s.objs.find? k).isSome ∨ st.pending.isSome then (st, "bad-op") else ({ st with pending := some k }, "ERR")
    | _, _ => (st, "bad-op")
  | ["probe", v] =>
    match st.sys, st.pending, nat? v with
    | some s, some k, some v =>
      let st0 := { st with pending := none }
      -- policy A: allocate + release (`Op.add k false`), policy B: nothing (`Op.addEarlyErr`); then the probe itself
      -- (allocate a handle, drop it) must return `v`
      let tryFrom (s0 : Sys) : Option Sys :=
        match s0.step (.alloc 2000001) with
        | .ok (s1, .toi v', _) =>
          if v' = v then
            match s1.step (.drop 2000001) with
            | .ok (s2, _, _) => some s2
            | _ => none
          else none
        | _ => none
      let afterA : Option Sys :=
        match s.step (.add k false false) with
        | .ok (sA, _, _) => tryFrom sA
        | _ => none
      match afterA with
      | some s2 => ({ st0 with sys := some s2 }, "ok")
      | none =>
        match tryFrom s with
        | some s2 => ({ st0 with sys := some s2 }, "ok")
        | none => (st0, "bad-refinement")
    | _, _, _ => (st, "bad-op")
  | ["addx", k, h] => match nat? k, nat? h with
    | some k, some h => runOp st (.addWith k h true)
    | _, _ => (st, "bad-op")
  | ["addxfail", k, h] => match nat? k, nat? h with
    | some k, some h => runOp st (.addWith k h false)
    | _, _ => (st, "bad-op")
  | ["addforeign", k, v] => match st.sys, nat? k, nat? v with
    | some s, some k, some v =>
      if v < 2 ^ 128 ∧ (s.objs.find? k).isNone then runOp st (.addEarlyErr k) else (st, "bad-op")
    | _, _, _ => (st, "bad-op")
  | ["addnoq", k] => match st.sys, nat? k with
    | some s, some k => if (s.objs.find? k).isNone then runOp st (.addEarlyErr k) else (st, "bad-op")
    | _, _ => (st, "bad-op")
  | ["remove", k] => match nat? k with
    | some k => runOp st (.remove k)
    | none => (st, "bad-op")
  | ["start", k] => match nat? k with
    | some k => runOp st (.start k) (wire := true)
    | none => (st, "bad-op")
  | ["drain"] => runOp st .drain
  | ["fdt"] =>
    match st.sys with
    | some s => (st, showList "fdt" (sortNat s.fdtTois))
    | none => (st, "bad-op")
  | "admission" :: rest => (st, Admit.step rest)
  | "admissionc" :: rest => (st, Admit.stepCenc rest)
  | ["wire", toi, tsi] =>
    match nat? toi, nat? tsi with
    | some toi, some tsi =>
      if toi < 2 ^ 128 ∧ tsi < 2 ^ 64 then (st, showWire toi tsi) else (st, "bad-op")
    | _, _ => (st, "bad-op")
  | ["freerun", n] =>
    match st.sys, nat? n with
    | some s, some n =>
      if 1 ≤ n ∧ n ≤ 16 ∧ s.cur.isNone then
        match freerun s st.tsi n with
        | some (s', out) => ({ st with sys := some s' }, out)
        | none => (st, "bad-op")
      else (st, "bad-op")
    | _, _ => (st, "bad-op")
  | ["churn", n] =>
    match st.sys, nat? n with
    | some s, some n =>
      let (s', out) := churn s n 0
      ({ st with sys := some s', dead := out = "HANG" || out = "PANIC" }, out)
    | _, _ => (st, "bad-op")
  | ["allocn", n] =>
    match st.sys, nat? n with
    | some s, some n =>
      let (s', out) := allocN s n 0 0 0
      ({ st with sys := some s', dead := out.startsWith "HANG" || out = "PANIC" }, out)
    | _, _ => (st, "bad-op")
  | _ => (st, "bad-op")

end Flute.Drv.Toi
