import FluteModel.Drv.Util
import FluteModel.Recv
import FluteModel.RecvMini
import FluteModel.RecvFull
import FluteModel.RecvWire
import FluteModel.MultiRecvWire
/-
  Line-protocol driver of engine `recv` (model side).  `Recv` instantiated with the `Mini` object.

    recv cfg <maxErr> <sessTo> <objTo> <maxCache> <once> <check> [harness-only: skew sct fast]  -> ok
    recv rej <now> <hex>                                             datagram rejected by the parser
    recv tsi <now> <hex>                                             datagram of another TSI
    recv expect ...                                                  -> ok  (oracle annotation, implementation side only)
    recv pkt <now> <hex> <toi> <co> <cs> <fdtid|-> <sct|-> <fec:esl:msbl:len|-> <sbn:esi|-> <plen> <ans..>
         ans = X                                  (XML parser error)
             | A <utf8> <expiresHex> <files>      files = - (no File list) | = (empty) | f,f,..
               f = <toiHex>/<cc>/<tlen>/<oti>/<cl|->/<cenc>   cc = n|nc|ms|e<ntpSecs>
                   oti = -|fec:esl:msbl:parity:<ss>   ss = -|kind.a.b.c   (4-field f / 3-field oti still read)
         the packet the model runs on is `Recv.ofAlc` of <hex> parsed by the parser model; the printed fields must
         agree with it (answer marked ` ABS:fields` / ` ABS:classify` otherwise); same check for rej / tsi lines
    recv cleanup <now> <stale>
    recv isexp <elapsed>                                             -> exp 0|1
    recv mcfg <me> <mc> <once> <chk> | recv mpkt <now> <hex> <ans..> | recv mcleanup <now>
         a MultiReceiver (no TSI filtering, no time-outs): answered by agent tsi's `MultiRecv.pushBytes` / `step` over
         `recvMachine (Full.iface params0)`: <OK|ERR> <nb_objects> <nb_objects_error> s<opened>/<closed> T<tsi>.<event>..
    recv fz ... | recv fzc ... | recv iso <now> <hex,hex..>           -> fz   (opaque robustness ops, not modelled; iso = in a child process)
  answers:  <OK|ERR|PANIC> <nb_objects> <nb_objects_error> <events sorted stably by TOI>
-/
namespace Flute.Drv.Recv
open Flute Flute.Recv

structure DState where
  st : Option (State Mini.Obj) := none
  /-- the same receiver with the full object model `ObjRecv` (`RecvFull.lean`): must print the same -/
  st2 : Option (State (Full.Any Full.params0)) := none
  dead : Bool := false
  /-- `mcfg`: a MultiReceiver = agent tsi's `MultiRecv` over `recvMachine` with the full object model -/
  mst : Option (MultiRecv.State (MultiRecv.RSess (Full.Any Full.params0)) MultiRecv.ROut) := none
  mcfg : Config := { maxObjectsError := 0, sessionTimeout := false, objectTimeout := false, maxCache := 0,
                     receiveOnce := true, expCheck := true }

def init : DState := {}

def bool? (s : String) : Option Bool :=
  if s = "1" then some true else if s = "0" then some false else none

def int? (s : String) : Option Int :=
  if s.startsWith "-" then (s.drop 1).toNat?.map (fun n => -(n : Int)) else s.toNat?.map (fun n => (n : Int))

def optNat? (s : String) : Option (Option Nat) :=
  if s = "-" then some none else s.toNat?.map some

def optInt? (s : String) : Option (Option Int) :=
  if s = "-" then some none else (int? s).map some

def hexStr? (s : String) : Option String :=
  (unhex s).map fun bs => String.ofList (bs.map Char.ofNat)

def ss? (s : String) : Option (Option (Nat × Nat × Nat × Nat)) :=
  if s = "-" then some none else
  match (s.splitOn ".").mapM nat? with
  | some [k, a, b, c] => some (some (k, a, b, c))
  | _ => none

def oti? (s : String) : Option (Option Oti) :=
  if s = "-" then some none else
  match s.splitOn ":" with
  | [fec, esl, msbl] =>
    match nat? fec, nat? esl, nat? msbl with
    | some fec, some esl, some msbl => some (some { fec, esl, msbl })
    | _, _, _ => none
  | [fec, esl, msbl, par, ss] =>
    match nat? fec, nat? esl, nat? msbl, nat? par, ss? ss with
    | some fec, some esl, some msbl, some parity, some ss => some (some { fec, esl, msbl, parity, ss })
    | _, _, _, _, _ => none
  | _ => none

def fti? (s : String) : Option (Option Fti) :=
  if s = "-" then some none else
  match (s.splitOn ":").mapM nat? with
  | some [fec, esl, msbl, len] => some (some { oti := { fec, esl, msbl }, len })
  | _ => none

def pid? (s : String) : Option (Option (Nat × Nat)) :=
  if s = "-" then some none else
  match (s.splitOn ":").mapM nat? with
  | some [sbn, esi] => some (some (sbn, esi))
  | _ => none

def cc? (s : String) : Option (Option CcChoice) :=
  if s = "n" then some none
  else if s = "nc" then some (some .noCache)
  else if s = "ms" then some (some .maxStale)
  else if s.startsWith "e" then (s.drop 1).toNat?.map (fun n => some (.expires n))
  else none

def file? (s : String) : Option FileAbs :=
  match s.splitOn "/" with
  | [t, c, l, o] => do
    let toi ← hexStr? t
    let cc ← cc? c
    let tlen ← nat? l
    let oti ← oti? o
    pure { toi, cc, tlen, oti }
  | [t, c, l, o, cl, ce] => do
    let toi ← hexStr? t
    let cc ← cc? c
    let tlen ← nat? l
    let oti ← oti? o
    let contentLength ← optNat? cl
    let cenc ← nat? ce
    pure { toi, cc, tlen, oti, contentLength, cenc }
  | _ => none

def files? (s : String) : Option (Option (List FileAbs)) :=
  if s = "-" then some none
  else if s = "=" then some (some [])
  else ((s.splitOn ",").mapM file?).map some

def ans? : List String → Option FdtAns
  | ["X"] => some .err
  | ["A", u, e, fs] => do
    let utf8 ← bool? u
    let expires ← hexStr? e
    let files ← files? fs
    pure (.ok { expires, files } utf8)
  | _ => none

def showCc : CacheControl → String
  | .noCache => "nc"
  | .maxStale => "ms"
  | .expiresAt t => s!"ea{t}"
  | .expiresAtHint t => s!"eh{t}"

/-- observable events (the ghost `attach` is not observable) with their sort key -/
def showEv : Ev → Option (Nat × String)
  | .w toi (.new cc) => some (toi, s!"n{toi}:{showCc cc}")
  | .w toi .opened => some (toi, s!"o{toi}")
  | .w toi (.write sbn len) => some (toi, s!"w{toi}:{sbn}:{len}")
  | .w toi .complete => some (toi, s!"c{toi}")
  | .w toi .error => some (toi, s!"e{toi}")
  | .w toi .interrupted => some (toi, s!"i{toi}")
  | .attach _ _ => none
  | .fdtReceived id => some (0, s!"f{id}")
  | .updateCc toi cc => some (toi, s!"u{toi}:{showCc cc}")

def insertStable (x : Nat × String) : List (Nat × String) → List (Nat × String)
  | [] => [x]
  | y :: r => if x.1 < y.1 then x :: y :: r else y :: insertStable x r

def sortStable (l : List (Nat × String)) : List (Nat × String) :=
  l.foldl (fun acc x => insertStable x acc) []

def showOut {σ : Type} (s : State σ) (r : String) (evs : List Ev) : String :=
  let es := (sortStable (evs.filterMap showEv)).map (·.2)
  joinSp ([r, toString s.objects.length, toString s.errors.length] ++ es)

def showRes : Res → String
  | .ok => "OK"
  | .err => "ERR"

def commaNat (l : List Nat) : String := if l.isEmpty then "-" else ",".intercalate (l.map toString)

def insertNat (x : Nat × String) : List (Nat × String) → List (Nat × String)
  | [] => [x]
  | y :: r => if x.1 < y.1 then x :: y :: r else y :: insertNat x r

/-- registries that the per-call line does not show: `fdt_current` (ids, newest first),
    `|fdt_receivers|`, `|objects_completed|`, bytes held by FDT writers, and for every live object the
    FDT instance it is attached to (the state-level trace of the ghost `attach` events) -/
def showProbe {σ : Type} (s : State σ) (fdtIdOf : σ → Option Nat) : String :=
  let fb := (s.fdtCurrent.map (·.bytes)).foldl (· + ·) 0 + (s.fdtReceivers.map (·.2.bytes)).foldl (· + ·) 0
  let att := (s.objects.foldl (fun acc kv => insertNat (kv.1, s!"{kv.1}:{match fdtIdOf kv.2 with | some i => toString i | none => "-"}") acc) []).map (·.2)
  s!"fc={s.fdtCurrent.length}:{commaNat (s.fdtCurrent.map (·.fdtId))} fr={s.fdtReceivers.length} cp={s.completed.length} fb={fb} att={if att.isEmpty then "-" else ",".intercalate att}"

def fdtIdMini (o : Mini.Obj) : Option Nat := o.fdtId
def fdtIdFull : (Full.Any Full.params0) → Option Nat
  | .inl m => m.fdtId
  | .inr f => f.st.fdtId

def runOp (d : DState) (s : State Mini.Obj) (op : Op) : DState × String :=
  match Recv.step Mini.iface s op with
  | .error _ => ({ d with dead := true }, "PANIC")
  | .ok (s', r, evs) =>
    let line := showOut s' (showRes r) evs
    -- second instantiation: the full object model
    match d.st2 with
    | none => ({ d with st := some s' }, line)
    | some t =>
      match Recv.step (Full.iface Full.params0) t op with
      | .error _ => ({ d with st := some s', st2 := none }, line ++ " XMODEL:PANIC")
      | .ok (t', r2, evs2) =>
        let line2 := showOut t' (showRes r2) evs2
        ({ d with st := some s', st2 := some t' }, if line2 = line then line else line ++ " XMODEL:" ++ line2)

/-- `0` | `1` | `T<tois|->/F<ids|->`: which time-outs have elapsed -/
def stale? (s : String) : Option Stale :=
  if s = "0" then some ⟨fun _ => false, fun _ => false⟩
  else if s = "1" then some ⟨fun _ => true, fun _ => true⟩
  else
    match s.splitOn "/" with
    | [t, f] =>
      if t.startsWith "T" ∧ f.startsWith "F" then
        let lst (x : String) : Option (List Nat) := if x = "-" then some [] else (x.splitOn ",").mapM nat?
        match lst (t.drop 1).toString, lst (f.drop 1).toString with
        | some tl, some fl => some ⟨fun k => tl.contains k, fun k => fl.contains k⟩
        | _, _ => none
      else none
    | _ => none

/-! ### MultiReceiver ops: answered by `MultiRecv.step (recvMachine (Full.iface params0) cfg 0)` -/

def mMachine (cfg : Config) := MultiRecv.recvMachine (Full.iface Full.params0) cfg 0

/-- the endpoint every `mpkt` arrives on -/
def mEp : Flute.Endpoint := ⟨none, 0, 5000⟩

def mCount (s : MultiRecv.State (MultiRecv.RSess (Full.Any Full.params0)) MultiRecv.ROut) : Nat × Nat × Nat × Nat :=
  ((s.table.map (fun e => e.2.st.objects.length)).foldl (· + ·) 0,
   (s.table.map (fun e => e.2.st.errors.length)).foldl (· + ·) 0,
   (s.events.filter (fun e => match e with | .opened _ => true | .closed _ => false)).length,
   (s.events.filter (fun e => match e with | .closed _ => true | .opened _ => false)).length)

/-- result of the call as `MultiReceiver::push` returns it, counters, listener totals, the writer callbacks of
    the call tagged with the TSI they carry -/
def mShow (before after : MultiRecv.State (MultiRecv.RSess (Full.Any Full.params0)) MultiRecv.ROut)
    (r : MultiRecv.Res) : String :=
  let outs := MultiRecv.newOuts before after
  if outs.any (fun o => o.2.res.isNone) then "PANIC" else
  let res := match r with
    | .parseErr => "ERR"
    | .panic => "PANIC"
    | .done => (match outs.head? with
                | some o => (match o.2.res with | some .err => "ERR" | _ => "OK")
                | none => "OK")
    | _ => "OK"
  let evs : List (Nat × String) := outs.flatMap (fun o =>
    o.2.calls.filterMap (fun ke => (showEv ke.2).map (fun x => (x.1, s!"T{ke.1.tsi}.{x.2}"))))
  let c := mCount after
  joinSp ([res, toString c.1, toString c.2.1, s!"s{c.2.2.1}/{c.2.2.2}"] ++ (sortStable evs).map (·.2))

/-- the TSI of the engine's receiver -/
def engineTsi : Nat := 1

/-- The packet the model runs on is `Recv.ofAlc` of the datagram bytes parsed by the parser model
    (`classify`, RecvWire.lean) - EXT_CENC, parity and scheme-specific info come from there; the fields
    the engine printed (taken from the REAL parser) must be the same, otherwise the line is marked. -/
def absPkt (p : Pkt) : Pkt × String :=
  match classify engineTsi p.raw with
  | .ok (.pkt q) =>
    if q.toi = p.toi ∧ q.closeObject = p.closeObject ∧ q.closeSession = p.closeSession ∧ q.fdtId = p.fdtId ∧
       q.sct = p.sct ∧ q.pid = p.pid ∧ q.plen = p.plen ∧ q.dlen = p.dlen ∧
       q.fti.map (fun f => (f.oti.fec, f.oti.esl, f.oti.msbl, f.len)) =
         p.fti.map (fun f => (f.oti.fec, f.oti.esl, f.oti.msbl, f.len)) then (q, "")
    else (p, " ABS:fields")
  | _ => (p, " ABS:classify")

/-- a datagram the engine saw rejected / of another TSI: the parser model must say the same -/
def absOther (hx : String) (want : Parsed → Bool) : String :=
  match classify engineTsi ((unhex hx).getD []) with
  | .ok pd => if want pd then "" else " ABS:classify"
  | .error _ => " ABS:parser-panic"

def step (d : DState) (args : List String) : DState × String :=
  match args with
  | "fz" :: _ => (d, "fz")
  | "fzc" :: _ => (d, "fz")
  | "iso" :: _ => (d, "fz")
  | "expect" :: _ => (d, "ok")
  | "sleep" :: _ => (d, "ok")
  | "mr" :: _ => (d, "ok")
  | "mr2" :: _ => (d, "ok")
  | ["mcfg", me, mc, once, chk] =>
    match nat? me, nat? mc, bool? once, bool? chk with
    | some me, some mc, some once, some chk =>
      ({ d with mst := some (MultiRecv.State.new false), dead := false,
                mcfg := { maxObjectsError := me, sessionTimeout := false, objectTimeout := false, maxCache := mc,
                          receiveOnce := once, expCheck := chk } }, "ok")
    | _, _, _, _ => (d, "bad-op")
  | "mpkt" :: now :: hx :: ans =>
    match d.mst, int? now, ans? ans with
    | some s, some now, some ans =>
      if d.dead then (d, "dead") else
      match MultiRecv.pushBytes (mMachine d.mcfg) (MultiRecv.recvEnv now ans) s mEp ((unhex hx).getD []) with
      | .error _ => ({ d with dead := true }, "PANIC")
      | .ok (s', r) =>
        let line := mShow s s' r
        ({ d with mst := some s', dead := line = "PANIC" }, line)
    | _, _, _ => (d, "bad-op")
  | ["mcleanup", now] =>
    match d.mst, int? now with
    | some s, some now =>
      if d.dead then (d, "dead") else
      let r := MultiRecv.step (mMachine d.mcfg) s
        (.cleanup (MultiRecv.envNoPkt now (fun _ => ⟨fun _ => false, fun _ => false⟩)))
      let line := mShow s r.1 r.2
      ({ d with mst := some r.1, dead := line = "PANIC" }, line)
    | _, _ => (d, "bad-op")
  | "cfg" :: me :: st :: ot :: mc :: once :: chk :: _ =>
    match nat? me, bool? st, bool? ot, nat? mc, bool? once, bool? chk with
    | some me, some st, some ot, some mc, some once, some chk =>
      let cfg : Config := { maxObjectsError := me, sessionTimeout := st, objectTimeout := ot,
                            maxCache := mc, receiveOnce := once, expCheck := chk }
      ({ st := some (State.init cfg), st2 := some (State.init cfg), dead := false }, "ok")
    | _, _, _, _, _, _ => (d, "bad-op")
  | _ =>
  if d.dead then (d, "dead") else
  match d.st with
  | none => (d, "bad-op")
  | some s =>
    match args with
    | ["rej", now, hx] =>
      match int? now with
      | some now =>
        let r := runOp d s (.data .reject now .err)
        -- A datagram the REAL parser rejected is run as `.reject` whatever the parser model says: a real parser that
        -- is stricter than the model on a datagram (RFC-invalid ones, e.g. a broken extension after all looked-up
        -- extensions) preserves the property - the state is untouched, which is what `.reject` is.  Exact
        -- accept / reject agreement of parser and parser model is engine wire's comparison, not this one's; only a
        -- PANIC of the parser model is marked here.
        (r.1, r.2 ++ absOther hx (fun _ => true))
      | none => (d, "bad-op")
    | ["tsi", now, hx] =>
      match int? now with
      | some now =>
        let r := runOp d s (.data .otherTsi now .err)
        (r.1, r.2 ++ absOther hx (fun pd => match pd with | .otherTsi => true | _ => false))
      | none => (d, "bad-op")
    | "pkt" :: now :: hx :: toi :: co :: cs :: fid :: sct :: fti :: pid :: plen :: ans =>
      match int? now, nat? toi, bool? co, bool? cs, optNat? fid, optInt? sct, fti? fti, pid? pid, nat? plen, ans? ans with
      | some now, some toi, some co, some cs, some fid, some sct, some fti, some pid, some plen, some ans =>
        let a := absPkt { toi, closeObject := co, closeSession := cs, fdtId := fid, sct, fti, pid, plen,
                          dlen := hx.length / 2, raw := (unhex hx).getD [] }
        let r := runOp d s (.data (.pkt a.1) now ans)
        (r.1, r.2 ++ a.2)
      | _, _, _, _, _, _, _, _, _, _ => (d, "bad-op")
    | ["cleanup", now, stale] =>
      match int? now, stale? stale with
      | some now, some stale => runOp d s (.cleanup now stale)
      | _, _ => (d, "bad-op")
    | ["probe"] =>
      let line := showProbe s fdtIdMini
      match d.st2 with
      | none => (d, line)
      | some t =>
        let line2 := showProbe t fdtIdFull
        (d, if line2 = line then line else line ++ " XMODEL:" ++ line2)
    | ["isexp", el] =>
      match bool? el with
      | some el => (d, if isExpired s el then "exp 1" else "exp 0")
      | none => (d, "bad-op")
    | _ => (d, "bad-op")

end Flute.Drv.Recv
