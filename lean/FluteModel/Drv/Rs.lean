/-
  Reed-Solomon erasure decoding over GF(2^8) as the crate `reed-solomon-erasure` 6.0 (galois_8) does it:
  field polynomial 0x11D, generator 2; coding matrix = vandermonde(total, k) * inverse(top k x k);
  `reconstruct` takes the first k present shards, inverts the corresponding rows and recomputes the missing DATA
  shards.  Used ONLY by the model driver as the instance of `Codec.rsReconstruct` (the theorems take the codec as a
  parameter with a contract); the correspondence run checks it against the real crate.
-/
namespace Flute.Drv.Rs

def expTable : Array Nat := Id.run do
  let mut t : Array Nat := Array.mkEmpty 255
  let mut x := 1
  for _ in [0:255] do
    t := t.push x
    x := x * 2
    if x ≥ 256 then x := (x - 256) ^^^ 29
  return t

def logTable : Array Nat := Id.run do
  let mut t : Array Nat := Array.replicate 256 0
  for i in [0:255] do
    t := t.set! (expTable[i]!) i
  return t

def gmul (a b : Nat) : Nat :=
  if a = 0 ∨ b = 0 then 0 else expTable[(logTable[a]! + logTable[b]!) % 255]!

def gdiv (a b : Nat) : Nat :=
  if a = 0 then 0 else expTable[(logTable[a]! + 255 - logTable[b]!) % 255]!

def gexp (a n : Nat) : Nat :=
  if n = 0 then 1 else if a = 0 then 0 else expTable[(logTable[a]! * n) % 255]!

abbrev Mat := Array (Array Nat)

def Mat.get (m : Mat) (r c : Nat) : Nat := (m[r]!)[c]!

def vandermonde (rows cols : Nat) : Mat :=
  (Array.range rows).map fun r => (Array.range cols).map fun c => gexp r c

def mmul (a b : Mat) (n k m : Nat) : Mat :=
  (Array.range n).map fun r => (Array.range m).map fun c =>
    (List.range k).foldl (fun acc i => acc ^^^ gmul (a.get r i) (b.get i c)) 0

/-- Gauss-Jordan inversion of an n x n matrix; `none` if singular -/
def invert (m : Mat) (n : Nat) : Option Mat := Id.run do
  -- augmented matrix
  let mut a : Mat := (Array.range n).map fun r => (m[r]!) ++ ((Array.range n).map fun c => if c = r then 1 else 0)
  for col in [0:n] do
    -- find pivot
    let mut piv := col
    while piv < n ∧ a.get piv col = 0 do
      piv := piv + 1
    if piv ≥ n then return none
    if piv ≠ col then
      let tmp := a[col]!
      a := a.set! col (a[piv]!)
      a := a.set! piv tmp
    let d := a.get col col
    if d ≠ 1 then
      a := a.set! col ((a[col]!).map fun x => gdiv x d)
    for r in [0:n] do
      if r ≠ col then
        let f := a.get r col
        if f ≠ 0 then
          let rowc := a[col]!
          a := a.set! r ((a[r]!).zipWith (fun x y => x ^^^ gmul f y) rowc)
  return some (a.map fun row => row.extract n (2 * n))

def codingMatrix (k total : Nat) : Option Mat :=
  let v := vandermonde total k
  match invert (v.extract 0 k) k with
  | none => none
  | some inv => some (mmul v inv total k k)

/-- `ReedSolomon::reconstruct(&mut shards)`: missing data shards from any k present shards, then the missing PARITY shards recomputed
    from the k data shards with the rows of the coding matrix (as the crate does; an earlier version zero-filled them - flute never
    reads them - which made the RS contract `CodecOK.rs` false for this codec: reviewer batch 3) -/
def reconstruct (k p : Nat) (shards : List (Option (List Nat))) : Option (List (Option (List Nat))) :=
  let total := k + p
  if shards.length ≠ total then none else
  let present := shards.filterMap id
  if present.any (·.isEmpty) then none else
  match present with
  | [] => none
  | s0 :: _ =>
    let len := s0.length
    if present.any (·.length ≠ len) then none else
    if present.length = total then some shards else
    if present.length < k then none else
    let idx : List (Nat × List Nat) := ((shards.zipIdx).filterMap fun (s, i) => s.map fun b => (i, b)).take k
    match codingMatrix k total with
    | none => none
    | some cm =>
      let sub : Mat := (idx.map fun (i, _) => cm[i]!).toArray
      match invert sub k with
      | none => none
      | some dec =>
        let subShards : Array (Array Nat) := (idx.map fun (_, b) => b.toArray).toArray
        -- the k data shards (present or reconstructed)
        let data : Array (Array Nat) := ((shards.take k).zipIdx.map fun (s, i) =>
          match s with
          | some b => b.toArray
          | none =>
            ((List.range len).map fun byte =>
              (List.range k).foldl (fun acc j => acc ^^^ gmul (dec.get i j) ((subShards[j]!)[byte]!)) 0).toArray).toArray
        let out : List (Option (List Nat)) := (shards.zipIdx).map fun (s, i) =>
          match s with
          | some b => some b
          | none =>
            if i < k then some (data[i]!).toList
            else
              some ((List.range len).map fun byte =>
                (List.range k).foldl (fun acc j => acc ^^^ gmul (cm.get i j) ((data[j]!)[byte]!)) 0)
        some out

end Flute.Drv.Rs
