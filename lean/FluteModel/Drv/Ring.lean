import FluteModel.Drv.Util
import FluteModel.Ring
import FluteModel.Drain
/-
  Model driver of engine `ring` (RingBuffer + BlockWriter drain loops).

  stateful ops (state = one ring, reset by `case`):
    ring new <size>                 -> ok
    ring w <len> <seed>             -> ok <k>            write <len> pseudo-random bytes (LCG from <seed>)
    ring wh <hex>                   -> ok <k>            write literal bytes
    ring r <n>                      -> ok <n'> <fnv>  |  WB        read into a buffer of <n> bytes
    ring dr <n>                     -> ok <total> <fnv> <eof|WB>   read into <n> bytes until Ok(0) / WouldBlock
    ring f                          -> ok
  stateless ops:
    ring seq <size> <op,op,...>     -> <obs,obs,...>
         op = w<k> (k counter bytes) | r<n> | f ;  obs = <k> | <hex> | - (Ok(0)) | WB | f
    ring bw <cenc> <cl|-> <kind> <L> <orig-hex> <chunk-hex>...     -> verdict (see `verdict`)
         the BlockWriter path over the chunks with the IDEAL decompressor (stream of L bytes, output <orig>)
    ring dc <cenc> <chunk-hex>...   -> contract-ok     ORACLE-ONLY (registered as such in ./check): the fields of
                                                         `Drain.Contract` are measured by the harness on the real
                                                         decompressors; the model ASSUMES them, its answer is a constant
  panics -> PANIC, out of fuel -> HANG

  WHAT IS COMPARED, AND WHY THAT MUCH.
  * `seq` / `w` / `wh` / `r` / `dr`: the exact answer of every call - bytes accepted, bytes delivered, WouldBlock vs
    Ok(0).  These are precisely the observations (`Ring.Obs`) that `Props.Ring.ring_refines_fifo` / `ring_stream` /
    `write_progress` speak about, and the object model relies on them (`ObjRecv.dwLoop`: `free := cap - 1 - ring.length`).
    The model is a transcription of TODAY's ring: another FIFO-correct ring (capacity `size`, power-of-two rounding,
    short read at the wrap) makes these lines differ WITHOUT violating C04 - the engine's oracle (relational, see
    harness/engines/ring/src/main.rs) stays silent and ./check reports `model/implementation disagree …
    no-failing-input-found`: the model (Ring.lean, and `free` in ObjRecv.dwLoop) has to follow the new policy.
    NOT compared: producer / consumer / finish (private indices; no observable theorem is about them).
  * `bw`: status and output relation predicted by `Drain.decodeWritePkt` / `Drain.flush` (the ring-level model of the
    BlockWriter loops that `Props.Ring.drain_terminates` is about - NOT `ObjRecv.decodeWritePkt`, which engine `orecv`
    validates) run with the private decompressor `ideal` below.
-/
namespace Flute.Drv.Ring
open Flute Flute.Ring Flute.Drain

def lcgNext (x : Nat) : Nat := (x * 1103515245 + 12345) % 2147483648

def lcgBytes : Nat → Nat → List Nat → List Nat
  | 0, _, acc => acc.reverse
  | n + 1, x, acc => let y := lcgNext x; lcgBytes n y ((y / 65536 % 256) :: acc)

def fnv (bs : List Nat) : Nat :=
  bs.foldl (fun h b => ((h ^^^ b) * 1099511628211) % 18446744073709551616) 14695981039346656037

def showRead : ReadRes → String
  | .ok b => s!"ok {b.length} {fnv b}"
  | .wouldBlock => "WB"

/-- one op of a `seq` line: (new ring, counter, observation) -/
def seqOp (r : Ring) (ctr : Nat) (tok : String) : Option (Rs (Ring × Nat × String)) :=
  if tok = "f" then some (.ok (finishOp r, ctr, "f"))
  else if tok.startsWith "w" then
    match (tok.drop 1).toString.toNat? with
    | none => none
    | some k =>
      let data := (List.range k).map (fun i => (ctr + i) % 251 + 1)
      some (match write r data with
        | .error e => .error e
        | .ok (r', n) => .ok (r', ctr + k, toString n))
  else if tok.startsWith "r" then
    match (tok.drop 1).toString.toNat? with
    | none => none
    | some n =>
      some (match read r n with
        | .error e => .error e
        | .ok (r', .ok b) => .ok (r', ctr, hex b)
        | .ok (r', .wouldBlock) => .ok (r', ctr, "WB"))
  else none

def seqRun : Ring → Nat → List String → List String → String
  | _, _, [], acc => ",".intercalate acc.reverse
  | r, ctr, t :: rest, acc =>
    match seqOp r ctr t with
    | none => "bad-op"
    | some (.error _) => "PANIC"
    | some (.ok (r', ctr', o)) => seqRun r' ctr' rest (o :: acc)

/-- `dr <n>`: read into `n` bytes until `Ok(0)` (`eof`) or WouldBlock (`WB`); fuel = bytes held + 2 (every other read
    delivers at least one byte: `write_progress`), `more` if it runs out -/
def drainAll (n : Nat) : Nat → Ring → List Nat → Option (Ring × List Nat × String)
  | 0, r, acc => some (r, acc.reverse, "more")
  | f + 1, r, acc =>                                   -- `acc`: the bytes delivered so far, newest first
    match read r n with
    | .error _ => none
    | .ok (r', .wouldBlock) => some (r', acc.reverse, "WB")
    | .ok (r', .ok []) => some (r', acc.reverse, "eof")
    | .ok (r', .ok (b :: bs)) => drainAll n f r' ((b :: bs).reverse ++ acc)

/-! ### the ideal decompressor -/

structure Ideal where
  consumed : Nat
  ended : Bool
  pending : List Nat
  /-- the reader's input buffer holds bytes from beyond the end of the stream: it never asks the ring again -/
  held : Bool

/-- The IDEAL decompressor, a layer PRIVATE to this driver (no theorem is about it; `drain_terminates` holds for every
    decompressor meeting `Drain.Contract`): a stream of `len` compressed bytes whose decompression is `orig`.
    * it pulls everything the ring holds whenever it needs input (as the `BufReader` inside flate2's readers does) and
      hands the output out once the whole stream has been consumed;
    * end of input inside the stream is an error (flate2 `zio::read`: "incomplete deflate stream"; gzip: UnexpectedEof);
    * after the end of the stream it answers `Ok(0)`; `readAhead` (zlib / deflate, not gzip): a reader whose input
      buffer is empty at that point refills it once more from the ring before answering - those bytes are never
      consumed, but they have left the ring.  This is what decides between `ok` and `ERR` (stalled decoder) for a stream
      followed by a few bytes of garbage. -/
def ideal (len : Nat) (orig : List Nat) (readAhead : Bool) : Decomp Ideal where
  read := fun s r n =>
    let emit (s : Ideal) (r : Ring) : Ideal × Ring × DRead :=
      ({ s with pending := s.pending.drop n }, r, .ok (s.pending.take n))
    if n = 0 then (s, r, .ok [])
    else if s.pending ≠ [] then emit s r
    else if s.ended then
      if readAhead ∧ s.held = false then
        match Ring.read r (r.buffer.length + 1) with
        | .error _ => (s, r, .err)
        | .ok (r', .wouldBlock) => (s, r', .wouldBlock)
        | .ok (r', .ok []) => (s, r', .ok [])
        | .ok (r', .ok (_ :: _)) => ({ s with held := true }, r', .ok [])
      else (s, r, .ok [])
    else
      match Ring.read r (r.buffer.length + 1) with
      | .error _ => (s, r, .err)
      | .ok (r', .wouldBlock) => (s, r', .wouldBlock)
      | .ok (r', .ok []) => (s, r', .err)
      | .ok (r', .ok bytes) =>
        let c := s.consumed + bytes.length
        if c ≥ len then emit { consumed := c, ended := true, pending := orig, held := decide (c > len) } r'
        else if r'.finish then ({ s with consumed := c }, r', .err)
        else ({ s with consumed := c }, r', .wouldBlock)

inductive Status where
  | ok | err | panic | hang
  deriving DecidableEq

/-- `BlockWriter::write` for every chunk (cenc ≠ Null, transfer length = total size), then the flush -/
def runChunks (D : Decomp Ideal) (fi : BW Ideal → Nat) (cl : Option Nat) :
    Option (BW Ideal) → List (List Nat) → Status × List Nat
  | none, [] => (.ok, [])
  | some st, [] =>
    match flush D fi st with
    | .done st' => (.ok, st'.out)
    | .err st' => (.err, st'.out)
    | .panic => (.panic, st.out)
    | .hang => (.hang, st.out)
  | st, c :: rest =>
    match decodeWritePkt D fi (2 * c.length + 2) ⟨0, false, [], false⟩ st cl c with
    | .done st' => runChunks D fi cl (some st') rest
    | .err st' => (.err, st'.out)
    | .panic => (.panic, (st.map (·.out)).getD [])
    | .hang => (.hang, (st.map (·.out)).getD [])

def isPrefix : List Nat → List Nat → Bool
  | [], _ => true
  | _ :: _, [] => false
  | a :: x, b :: y => a = b && isPrefix x y

/-- canonical verdict (the same rule is applied by the harness to the real run): `<ok|ERR> <full|pfx|trunc|other>`,
    un-collapsed for `valid` and `trailing`.  `truncated`: `ideal` knows when an inflater stops, not how much of a cut
    stream it can already decode (it hands out nothing before the end of the stream), so `full` is printed as `pfx` on
    both sides.  `garbage`: there is no inflate algorithm in the model, nothing but termination is predicted: `done`. -/
def verdict (kind : String) (cl : Option Nat) (orig : List Nat) (st : Status) (out : List Nat) : String :=
  match st with
  | .panic => "PANIC"
  | .hang => "HANG"
  | _ =>
    let s := if st = .ok then "ok" else "ERR"
    let rel := if out = orig then "full" else if isPrefix out orig then "pfx" else "other"
    if kind = "garbage" then "done"
    else if kind = "truncated" then s ++ (if rel = "other" then " other" else " pfx")
    else
      let short : Bool := match cl with
        | some c => decide (c < orig.length)
        | none => false
      let rel' := if short && (rel == "full" || (rel == "pfx" && decide ((cl.getD 0) ≤ out.length))) then "trunc" else rel
      s ++ " " ++ rel'

def bwOp (cenc clS kind lenS origH : String) (chunksH : List String) : String :=
  let cl? : Option (Option Nat) := if clS = "-" then some none else (clS.toNat?).map some
  match cl?, lenS.toNat?, unhex origH, chunksH.mapM unhex with
  | some cl, some len, some orig, some chunks =>
    if ¬ (cenc = "zlib" ∨ cenc = "deflate" ∨ cenc = "gzip") then "bad-op"
    else if ¬ (kind = "valid" ∨ kind = "trailing" ∨ kind = "truncated" ∨ kind = "garbage") then "bad-op"
    else if chunks.any (·.isEmpty) ∨ chunks.isEmpty then "bad-op"
    else
      let D := ideal len orig (cenc ≠ "gzip")
      let (st, out) := runChunks D (fun _ => orig.length + 4) cl none chunks
      verdict kind cl orig st out
  | _, _, _, _ => "bad-op"

def step (st : Option Ring) (args : List String) : Option Ring × String :=
  match args with
  | ["new", size] =>
    match size.toNat? with
    | some n => (some (Ring.new n), "ok")
    | none => (st, "bad-op")
  | ["w", len, seed] =>
    match st, len.toNat?, seed.toNat? with
    | some r, some n, some s =>
      match write r (lcgBytes n s []) with
      | .error _ => (st, "PANIC")
      | .ok (r', k) => (some r', s!"ok {k}")
    | _, _, _ => (st, "bad-op")
  | ["wh", h] =>
    match st, unhex h with
    | some r, some d =>
      match write r d with
      | .error _ => (st, "PANIC")
      | .ok (r', k) => (some r', s!"ok {k}")
    | _, _ => (st, "bad-op")
  | ["r", n] =>
    match st, n.toNat? with
    | some r, some n =>
      match read r n with
      | .error _ => (st, "PANIC")
      | .ok (r', res) => (some r', showRead res)
    | _, _ => (st, "bad-op")
  | ["f"] =>
    match st with
    | some r => (some (finishOp r), "ok")
    | none => (st, "bad-op")
  | ["dr", n] =>
    match st, n.toNat? with
    | some r, some n =>
      match drainAll n ((content r).length + 2) r [] with
      | none => (st, "PANIC")
      | some (r', bs, fin) => (some r', s!"ok {bs.length} {fnv bs} {fin}")
    | _, _ => (st, "bad-op")
  | ["seq", size, ops] =>
    match size.toNat? with
    | some n => (st, seqRun (Ring.new n) 0 (ops.splitOn ",") [])
    | none => (st, "bad-op")
  | "bw" :: cenc :: cl :: kind :: len :: orig :: chunks => (st, bwOp cenc cl kind len orig chunks)
  | "dc" :: cenc :: chunks =>
    -- the contract of `Drain.Contract` is an ASSUMPTION of the model: the harness measures it on the real decoders
    if (cenc = "zlib" ∨ cenc = "deflate" ∨ cenc = "gzip") ∧ ¬ chunks.isEmpty ∧ (chunks.all fun c => (unhex c).isSome ∧ c ≠ "-")
    then (st, "contract-ok") else (st, "bad-op")
  | _ => (st, "bad-op")

end Flute.Drv.Ring
