import FluteModel.Drv.Util
import FluteModel.Partition
namespace Flute.Drv.Part
open Flute Flute.Partition

/-- sum of the bytes `(7·i + 3) mod 256` for `s ≤ i < en` (the harness's synthetic object content) -/
def byteSum (s en : Nat) : Nat := ((List.range (en - s)).map fun i => (7 * (s + i) + 3) % 256).sum

def showQuad (q : Quad) : String := s!"{q.1} {q.2.1} {q.2.2.1} {q.2.2.2}"

/-- `part bp b l e` | `part bl aL aS nL l e sbn` | `part sb b l e` (sender slicing) |
    `part rcv scheme inband b l e` (clean session: receiver block sizing) | `part sbl b l e` | `part fti …` | `part rq|rp|snd b l e` -/
def step (args : List String) : String :=
  match args with
  | ["bp", b, l, e] =>
    match nats? [b, l, e] with
    | some [b, l, e] => showRs showQuad (blockPartitioning b l e)
    | _ => "bad-op"
  | ["bl", aL, aS, nL, l, e, sbn] =>
    match nats? [aL, aS, nL, l, e, sbn] with
    | some [aL, aS, nL, l, e, sbn] => showRs toString (blockLength aL aS nL l e sbn)
    | _ => "bad-op"
  | ["fti", _scheme, l, e, z] =>
    match nats? [l, e, z] with
    | some [l, e, z] =>
      -- e = 0 / z = 0 are rejected by the parsers before the reconstruction
      if e = 0 ∨ z = 0 then "ERR" else s!"ok {reconstructB32 l e z}"
    | _ => "bad-op"
  | ["rcv", scheme, _inband, b, l, e] =>
    -- receiver side of a clean session: the object completes exactly when, for every block, the receiver's source
    -- block length (`receiverBlockSymbols`, or the wire-borne one for RS under-specified = the sender's count) equals the
    -- number of source symbols the sender cut for it; then one write per block, of `blockLength` bytes
    match nats? [scheme, b, l, e] with
    | some [scheme, b, l, e] =>
      -- RaptorQ / Raptor: the receiver partitions with the B it reconstructs from Z
      match blockPartitioning b l e with
      | .error _ => "PANIC"
      | .ok qs =>
        let bRx := if scheme = 3 ∨ scheme = 4 then reconstructB32 l e qs.2.2.2 else b
        match blockPartitioning bRx l e with
        | .error _ => "PANIC"
        | .ok (aL, aS, nL, n) =>
          let snd := senderBlocks qs l e (l + 1) 0 0
          let agree := snd.length = n ∧ (List.range n).all fun sbn =>
            let kTx := (snd.getD sbn (0, 0, 0)).1
            let kRx := if scheme = 2 then kTx else receiverBlockSymbols (aL, aS, nL, n) sbn
            kTx = kRx
          if ¬ agree then "ok c0 e1" else
          let lens := (List.range n).map fun sbn =>
            match blockLength aL aS nL l e sbn with
            | .ok v => toString v
            | .error _ => "PANIC"
          "ok c1 e0" ++ String.join (lens.map fun x => " " ++ x)
    | _ => "bad-op"
  | ["sbl", b, l, e] =>
    -- RS under-specified: the source block length the sender writes into every payload id of block sbn
    match nats? [b, l, e] with
    | some [b, l, e] =>
      match blockPartitioning b l e with
      | .error _ => "PANIC"
      | .ok q =>
        let bl := senderBlocks q l e (l + 1) 0 0
        "ok" ++ String.join (bl.map fun (_, s, en) => s!" {divCeil (en - s) e}")
    | _ => "bad-op"
  | [rqp, b, l, e] =>
    if rqp = "rq" ∨ rqp = "rp" then
      match nats? [b, l, e] with
      | some [b, l, e] =>
        match blockPartitioning b l e with
        | .error _ => "PANIC"
        | .ok (aL, _, _, n) =>
          -- FileDesc::new: the block count must fit the Z field (u8 RaptorQ / u16 Raptor) and a block the code's K_max
          if (rqp = "rq" ∧ (n > 255 ∨ aL > 56403)) ∨ (rqp = "rp" ∧ (n > 65535 ∨ aL > 8192)) then "ERR"
          else s!"ok {reconstructB l e n} {max n 1}"
      | _ => "bad-op"
    else if rqp = "snd" then
      match nats? [b, l, e] with
      | some [b, l, e] =>
        match blockPartitioning b l e with
        | .error _ => "PANIC"
        | .ok q =>
          if l = 0 then "ok" else
          let bl := senderBlocks q l e (l + 1) 0 0
          "ok" ++ String.join (bl.map fun (k, s, en) => s!" {k}:{en - s}:{byteSum s en}")
      | _ => "bad-op"
    else "bad-op"
  | _ => "bad-op"

end Flute.Drv.Part
