import FluteModel.Drv.Util
import FluteModel.Partition
namespace Flute.Drv.Part
open Flute Flute.Partition

/-- sum of the bytes `(7·i + 3) mod 256` for `s ≤ i < en` (the harness's synthetic object content) -/
def byteSum (s en : Nat) : Nat := ((List.range (en - s)).map fun i => (7 * (s + i) + 3) % 256).sum

def showQuad (q : Quad) : String := s!"{q.1} {q.2.1} {q.2.2.1} {q.2.2.2}"

/-- `part bp b l e` | `part bl aL aS nL l e sbn` | `part sb b l e` (sender slicing) |
    `part rb b l e sbn` (receiver block symbols) -/
def step (args : List String) : String :=
  match args with
  | ["bp", b, l, e] =>
    match nats? [b, l, e] with
    | some [b, l, e] => showRs showQuad (blockPartitioning b l e)
    | _ => "bad-op"
  | ["bl", aL, aS, nL, l, e, sbn] =>
    match nats? [aL, aS, nL, l, e, sbn] with
    | some [aL, aS, nL, l, e, sbn] => showRs toString (blockLength aL aS nL l e sbn)
    | _ => "bad-op"
  | ["fti", _scheme, l, e, z] =>
    match nats? [l, e, z] with
    | some [l, e, z] =>
      -- e = 0 / z = 0 are rejected by the parsers before the reconstruction
      if e = 0 ∨ z = 0 then "ERR" else s!"ok {reconstructB l e z % 2^32}"
    | _ => "bad-op"
  | ["rcv", _scheme, _inband, b, l, e] =>
    -- receiver side: one write per block, of the RFC byte length; completed once, no error
    match nats? [b, l, e] with
    | some [b, l, e] =>
      match blockPartitioning b l e with
      | .error _ => "PANIC"
      | .ok (aL, aS, nL, n) =>
        let lens := (List.range n).map fun sbn =>
          match blockLength aL aS nL l e sbn with
          | .ok v => toString v
          | .error _ => "PANIC"
        "ok c1 e0" ++ String.join (lens.map fun x => " " ++ x)
    | _ => "bad-op"
  | [rqp, b, l, e] =>
    if rqp = "rq" ∨ rqp = "rp" then
      match nats? [b, l, e] with
      | some [b, l, e] =>
        match blockPartitioning b l e with
        | .error _ => "PANIC"
        | .ok (_, _, _, n) => s!"ok {reconstructB l e n} {n}"
      | _ => "bad-op"
    else if rqp = "snd" then
      match nats? [b, l, e] with
      | some [b, l, e] =>
        match blockPartitioning b l e with
        | .error _ => "PANIC"
        | .ok q =>
          if l = 0 then "ok" else
          let bl := senderBlocks q l e (l + 1) 0 0
          "ok" ++ String.join (bl.map fun (k, s, en) => s!" {k}:{en - s}:{byteSum s en}")
      | _ => "bad-op"
    else "bad-op"
  | _ => "bad-op"

end Flute.Drv.Part
