import FluteModel.Drv.Util
import FluteModel.Partition
import FluteModel.Admission
namespace Flute.Drv.Part
open Flute Flute.Partition

/-- sum of the bytes `(7·i + 3) mod 256` for `s ≤ i < en` (the harness's synthetic object content) -/
def byteSum (s en : Nat) : Nat := ((List.range (en - s)).map fun i => (7 * (s + i) + 3) % 256).sum

def showQuad (q : Quad) : String := s!"{q.1} {q.2.1} {q.2.2.1} {q.2.2.2}"

/-- `part bp b l e` | `part bl aL aS nL l e sbn` | `part sb b l e` (sender slicing) |
    `part rcv scheme inband b l e` (clean session: receiver block sizing) | `part sbl b l e` | `part fti …` | `part rq|rp|snd b l e` -/
def step (args : List String) : String :=
  match args with
  | ["bp", b, l, e] =>
    match nats? [b, l, e] with
    | some [b, l, e] => showRs showQuad (blockPartitioning b l e)
    | _ => "bad-op"
  | ["bl", aL, aS, nL, l, e, sbn] =>
    match nats? [aL, aS, nL, l, e, sbn] with
    | some [aL, aS, nL, l, e, sbn] => showRs toString (blockLength aL aS nL l e sbn)
    | _ => "bad-op"
  | ["blh", aL, aS, nL, l, e, sbn] =>
    -- hostile call (no partition of anything / out-of-range SBN): PANIC or not, the value is unspecified
    match nats? [aL, aS, nL, l, e, sbn] with
    | some [aL, aS, nL, l, e, sbn] =>
      match blockLength aL aS nL l e sbn with
      | .ok _ => "ok"
      | .error _ => "PANIC"
    | _ => "bad-op"
  | ["fti", _scheme, l, e, z] =>
    match nats? [l, e, z] with
    | some [l, e, z] =>
      match ftiMaxSbl l e z with
      | none => "ERR"
      | some b' => s!"ok {b'}"
    | _ => "bad-op"
  | ["rcv", scheme, _inband, b, l, e] =>
    -- receiver side of a clean session: `Partition.cleanSession` (theorem `Props.C07.clean_session_completes`)
    match nats? [scheme, b, l, e] with
    | some [scheme, b, l, e] =>
      match cleanSession scheme b l e with
      | .error _ => "PANIC"
      | .ok none => "ok c0 e1"
      | .ok (some lens) =>
        "ok c1 e0" ++ String.join (lens.map fun x => " " ++ (match x with | .ok v => toString v | .error _ => "PANIC"))
    | _ => "bad-op"
  | ["sbl", b, l, e] =>
    -- RS under-specified: the source block length the sender writes into every payload id of block sbn
    match nats? [b, l, e] with
    | some [b, l, e] =>
      match blockPartitioning b l e with
      | .error _ => "PANIC"
      | .ok q =>
        let bl := senderBlocks q l e (l + 1) 0 0
        "ok" ++ String.join (bl.map fun (_, s, en) => s!" {divCeil (en - s) e}")
    | _ => "bad-op"
  | [rqpc, b, _l, e, tl] =>
    -- gzip-coded object of `_l` content bytes and `tl` transfer bytes (an input: the model has no deflate): admission,
    -- Z and B' are about the transfer length
    if rqpc = "rqc" ∨ rqpc = "rpc" then
      match nats? [b, e, tl] with
      | some [b, e, tl] =>
        let oti : Flute.Admission.Oti :=
          { fec := if rqpc = "rqc" then .raptorq else .raptor, inst := 0, maxSbl := b, esl := e, parity := 1,
            scheme := some (if rqpc = "rqc" then .raptorq 0 1 4 else .raptor 0 1 4) }
        match Flute.Admission.fileDescNew oti none tl with
        | .error _ => "PANIC"
        | .ok (.error _) => "ERR"
        | .ok (.ok o) =>
          match o.scheme with
          | some (.raptorq z _ _) => s!"ok {reconstructB tl e z} {z}"
          | some (.raptor z _ _) => s!"ok {reconstructB tl e z} {z}"
          | _ => "bad-op"
      | _ => "bad-op"
    else "bad-op"
  | [rqp, b, l, e] =>
    if rqp = "rq" ∨ rqp = "rp" then
      match nats? [b, l, e] with
      | some [b, l, e] =>
        -- `Sender::add_object` → `FileDesc::new` on `Oti::new_raptorq(e, b, 1, 1, 4)` / `Oti::new_raptor(e, b, 1, 1, 4)`:
        -- the admission model (`Admission.fileDescNew`, tied to the real add_object by engine `toi`, linked by
        -- Props/AdmissionLink*) decides refusal and the Z written into the scheme-specific info
        let oti : Flute.Admission.Oti :=
          { fec := if rqp = "rq" then .raptorq else .raptor, inst := 0, maxSbl := b, esl := e, parity := 1,
            scheme := some (if rqp = "rq" then .raptorq 0 1 4 else .raptor 0 1 4) }
        match Flute.Admission.fileDescNew oti none l with
        | .error _ => "PANIC"
        | .ok (.error _) => "ERR"
        | .ok (.ok o) =>
          match o.scheme with
          | some (.raptorq z _ _) => s!"ok {reconstructB l e z} {z}"
          | some (.raptor z _ _) => s!"ok {reconstructB l e z} {z}"
          | _ => "bad-op"
      | _ => "bad-op"
    else if rqp = "snd" then
      match nats? [b, l, e] with
      | some [b, l, e] =>
        match blockPartitioning b l e with
        | .error _ => "PANIC"
        | .ok q =>
          "ok" ++ String.join ((senderBlocksOf q l e).map fun (k, s, en) => s!" {k}:{en - s}:{byteSum s en}")
      | _ => "bad-op"
    else "bad-op"
  | _ => "bad-op"

end Flute.Drv.Part
