import FluteModel.Bytes
/-
  Model of src/tools/mod.rs: `system_time_to_ntp` / `ntp_to_system_time`.
  A `SystemTime` at or after the UNIX epoch is a `Nat` number of microseconds since the epoch
  (the Rust code only looks at `as_secs()` and `subsec_micros()`).
-/
namespace Flute.Ntp
open Flute

/- 2208988800 = seconds from 1900-01-01 (NTP era 0) to 1970-01-01 (UNIX epoch); written as a literal
   everywhere, as in the Rust source -/

/-- `system_time_to_ntp(time)`; `Err` is impossible for `time ≥ UNIX_EPOCH`.  The only partial
    operation is the u64 addition of the offset. -/
def systemTimeToNtp (us : Nat) : Rs Nat :=
  let secondsUtc := us / 1000000
  let submicro := us % 1000000
  if secondsUtc + 2208988800 < 2^64 then
    let secondsNtp := secondsUtc + 2208988800
    let fraction := ((submicro * 2^32 + 999999) / 1000000) % 2^32    -- `as u32`; rounded up: repair of D13 (was floor)
    .ok ((secondsNtp * 2^32) % 2^64 + fraction)                 -- `(seconds_ntp << 32) | fraction`
  else .error "attempt to add with overflow"

/-- `ntp_to_system_time(ntp)` (result in microseconds since the UNIX epoch); `ntp : u64` -/
def ntpToSystemTime (ntp : Nat) : Out Nat :=
  let secondsNtp := ntp / 2^32
  if secondsNtp < 2208988800 then .err else
  let secondsUtc := secondsNtp - 2208988800
  let fraction := ntp % 2^32
  let submicro := fraction * 1000000 / 2^32
  if secondsUtc * 1000000 < 2^64 ∧ secondsUtc * 1000000 + submicro < 2^64 then
    .ok (secondsUtc * 1000000 + submicro)
  else .panic "attempt to multiply/add with overflow"

end Flute.Ntp
