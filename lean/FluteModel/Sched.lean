import FluteModel.Prim
/-
  Model of the sender's scheduler: src/sender/{sender.rs, sendersession.rs, fdt.rs, filedesc.rs}
  (the whole `Sender` bookkeeping), over virtual time (`Nat` nanoseconds supplied by the caller).

  ABSTRACTIONS (stated explicitly, everything else is line by line):
  * One transfer of an object (`BlockEncoder`, modelled in detail by `FluteModel/BlockEnc.lean`) is a
    finite sequence of `nPk` packets, `nPk = nSym` encoding symbols (FEC No-Code: all of them source
    symbols), an empty object (`nSym = 0`) = 1 packet carrying B.  The number of packets of one transfer is an
    INPUT (`AddArgs.nSym`): where it is not the number of source symbols - an EMPTY object sent with RaptorQ / Raptor
    from a buffer sends the `parity` repair packets of its empty block and is never paced - the caller passes
    `nSym = parity` and no target (engine family `emptyrateless-*`, fdtabs' driver).  The last packet carries B iff the
    encoder was created with `is_last_transfer`.  Forced stop (`read(true)`): the encoder is marked
    stopped and yields at most one more packet, carrying B.  (`encRead`)
  * The FDT instance published as k-th publication has `fdtPkts k` packets (`fdtPkts` is an input
    table: the XML length is library determined); its content is the list of TOIs it announces.
  * `packet_transmission_tick`: the tick to be used by a transfer of object `toi` starting during a `read` is a
    parameter of that `read` (`ticks`) and every theorem quantifies over all tick tables; the driver computes it
    (`tickOf` / `modelTicks`: `target / n`, exact integer division of the nanoseconds - /repo 9d73d78, repair of
    sched-4; before it was `Duration::div_f64` and the value was read off the real code).
  * TOIs are handed out by `allocate_toi` right before `add_object` (start value 1, no wrap-around
    inside a history: C15 owns the allocator), so the n-th `add` carries TOI n.
  * `Arc<FileDesc>` sharing is a store of descriptors addressed by key (TOI for objects, publication
    index for FDT instances); u32/u64 counters (`transfer_count`, `total_nb_transfer`) and
    `SystemTime::checked_add` are unbounded `Nat`.
  * Sources: a buffer never fails.  A STREAM source is modelled by its fault schedule (`AddArgs.faults`: code of
    the n-th transfer attempt, 0 = the rewind fails -> `BlockEncoder::new` fails -> `get_next` releases the file at
    once (`openFailed`); >= 1 = the first read fails -> the encoder yields nothing, the file is released and the
    call gives the hand back, `new_encoder`, /repo a00f689): transfer attempts that fail to START.  A read error
    in the MIDDLE of a transfer (truncated transfer, finding sched-8) is not modelled (engine-only probe).
    Input domain: a code >= 1 is only given to a NON-EMPTY object (the lone packet of an empty object needs no
    data, so a read failure is unobservable there and the real attempt succeeds; driver and engine answer `bad-op`).
  * Rust panics: `State.panic` would be set (and the driver reports `PANIC`).  After the repairs of D4
    (`div_f64(0.0)` for an empty object with a target acquisition) and of the `fdtid + 1` overflow
    (`fdt_start_id = u32::MAX`; now `wrapping_add(1) & 0xFFFFF` = `(fdtid + 1) % 2^20`) no transition of the
    model sets it any more: the scheduler's remaining arithmetic is `checked_add`, `unwrap_or_default`,
    guarded `Duration` subtractions and counter increments (see above).
-/
namespace Flute.Sched

inductive Carousel where
  | delay (d : Nat)
  | interval (d : Nat)
  deriving Repr, DecidableEq

inductive Target where
  | fast
  | dur (d : Nat)
  | time (t : Nat)
  deriving Repr, DecidableEq

inductive Mode where
  | full
  | being
  deriving Repr, DecidableEq

/-- `TransferInfo` -/
structure TInfo where
  transferring : Bool := false
  count : Nat := 0
  total : Nat := 0
  lastEnd : Option Nat := none
  lastStart : Option Nat := none
  nextTs : Option Nat := none
  tick : Option Nat := none
  startTime : Option Nat := none
  /-- fault code of the transfer attempt in progress (stream sources): `none` = the source works; `some 0` =
      `BlockEncoder::new` fails (the source cannot be rewound); `some (k+1)` = the encoder is created but its first
      read fails.  In both cases the attempt yields no packet. -/
  attempt : Option Nat := none
  deriving Repr, DecidableEq

/-- `FileDesc` (+ the fields of `ObjectDesc.config` the scheduler reads) -/
structure FileDesc where
  key : Nat
  isFdt : Bool
  fdtId : Nat
  content : List Nat
  prio : Nat
  nSym : Nat
  maxCount : Nat
  carousel : Option Carousel
  target : Option Target
  allowStop : Bool
  published : Bool
  info : TInfo
  /-- fault schedule of a stream source: code of the n-th transfer attempt (n = completed transfers so far); beyond
      the list, and for buffer sources (`[]`), the source works -/
  faults : List Nat := []
  deriving Repr, DecidableEq

/-- abstraction of `BlockEncoder` -/
structure Enc where
  sent : Nat
  stopped : Bool
  closable : Bool
  deriving Repr, DecidableEq

/-- `SenderSession.{file, encoder}` (both `Some` or both `None`) -/
structure Cur where
  key : Nat
  enc : Enc
  /-- `BlockEncoder::new` failed: `SenderSession::get_next` releases the file at once -/
  openFail : Bool := false
  deriving Repr, DecidableEq

/-- `SenderSessionList` of one priority queue -/
structure QSess where
  prio : Nat
  index : Nat
  slots : List (Option Cur)
  deriving Repr, DecidableEq

structure Cfg where
  mode : Mode
  fdtCarousel : Carousel
  fdtDuration : Nat
  fdtStartId : Nat
  /-- `(priority, multiplex_files)`, ascending priority (BTreeMap order) -/
  queues : List (Nat × Nat)
  /-- does a serialised FDT instance fit the session's default OTI?  `Fdt::publish` is fallible: `FileDesc::new`
      refuses an FDT whose transfer length exceeds `Oti::max_transfer_length()` (e.g. Reed-Solomon GF(2^8) with
      E = B = 1: 255 bytes, smaller than any FDT) and returns the error BEFORE anything is changed; the two
      automatic publications swallow it (`self.publish(now).ok()`).  Abstraction: admission is a constant of the
      session (the generated class is "no FDT ever fits"); sizes in between are not modelled. -/
  fdtFits : Bool := true
  deriving Repr, DecidableEq

/-- arguments of `add_object` the scheduler reads (`ObjectDesc` + `TransferConfig`) -/
structure AddArgs where
  prio : Nat
  nSym : Nat
  maxCount : Nat
  carousel : Option Carousel
  start : Option Nat
  target : Option Target
  allowStop : Bool
  /-- fault schedule of the (stream) source, see `FileDesc.faults` -/
  faults : List Nat := []
  deriving Repr, DecidableEq

/-- everything that happens, newest first -/
inductive Ev where
  | opAdd (toi : Nat) (a : AddArgs) (ok : Bool)
  | opRemove (toi : Nat) (ok : Bool)
  | opPublish (now : Nat)
  /-- `applied`: the object was found and not in transfer, so the reset took place -/
  | opTrigger (toi : Nat) (ts : Option Nat) (applied : Bool)
  | opRead (now : Nat)
  | pub (now k : Nat) (files : List Nat)
  /-- `StartTransfer`; `st` = transfer start time in effect, `tick` = pacing tick of this transfer -/
  | start (now toi : Nat) (st : Option Nat) (tick : Option Nat)
  | stop (now toi : Nat)
  | fdtStart (now k : Nat)
  | fdtStop (now k : Nat)
  | pkt (now prio toi idx : Nat) (b : Bool)
  | fdt (now k id idx : Nat)
  | idle (now : Nat)
  deriving Repr, DecidableEq

structure State where
  cfg : Cfg
  fdtPkts : List Nat
  objs : List FileDesc
  fdts : List FileDesc
  files : List Nat
  queue : List Nat
  fdtQueue : List Nat
  curFdt : Option Nat
  fdtid : Nat
  lastPublish : Option Nat
  complete : Bool
  fdtSess : Option Cur
  sessions : List QSess
  nextToi : Nat
  log : List Ev
  panic : Option String
  /-- ghost (no influence on behaviour): inside `Sender::read`, after the first poll of the FDT session
      returned nothing and before the queues have been visited -/
  quiet : Bool := false

/-! ### descriptor store -/

def getF (l : List FileDesc) (k : Nat) : Option FileDesc := l.find? (fun f => f.key == k)

def updF (l : List FileDesc) (k : Nat) (g : FileDesc → FileDesc) : List FileDesc :=
  l.map (fun f => if f.key == k then g f else f)

def FileDesc.updInfo (f : FileDesc) (g : TInfo → TInfo) : FileDesc := { f with info := g f.info }

/-! ### filedesc.rs -/

/-- number of packets of one complete transfer -/
def FileDesc.nPk (f : FileDesc) : Nat := if f.nSym = 0 then 1 else f.nSym

/-- `if let Some(start_time) = info.transfer_start_time { if now < start_time { return false } }` -/
def beforeStart (f : FileDesc) (now : Nat) : Bool :=
  match f.info.startTime with
  | some st => decide (now < st)
  | none => false

/-- the carousel test at the end of `should_transfer_now` (`last_transfer_interval > interval`) -/
def gapElapsed (f : FileDesc) (now : Nat) : Bool :=
  match f.carousel, f.info.lastEnd, f.info.lastStart with
  | some (.delay d), some le, some _ => decide (now - le > d)
  | some (.interval d), some _, some ls => decide (now - ls > d)
  | _, _, _ => true

/-- `FileDesc::should_transfer_now` -/
def shouldTransferNow (f : FileDesc) (prio : Nat) (mode : Mode) (now : Nat) : Bool :=
  if f.prio != prio then false else
  if mode == .full && !f.published then false else
  if beforeStart f now then false else
  if f.info.transferring then false else
  if f.maxCount > f.info.count then true else
  gapElapsed f now

/-- `FileDesc::is_expired` -/
def isExpired (f : FileDesc) : Bool :=
  if f.maxCount > f.info.count then false else f.carousel.isNone

/-- `FileDesc::is_last_transfer` -/
def isLastTransfer (f : FileDesc) : Bool :=
  if f.carousel.isSome then false else f.maxCount == f.info.count + 1

/-- `FileDesc::can_transfer_be_stopped` -/
def canStop (f : FileDesc) : Bool := f.allowStop || decide (f.info.total > 0)

/-- does `TransferInfo::init` compute a tick (`WithinDuration` / `WithinTime`)?
    After the repair of D4 (`fix: no pacing for an object without packets`) an object with 0 symbols
    is not paced; before it `div_f64(0.0)` panicked. -/
def wantsTick (f : FileDesc) : Bool :=
  match f.target with
  | some (.dur _) => decide (f.nSym ≠ 0)
  | some (.time _) => decide (f.nSym ≠ 0)
  | _ => false

/-- `TransferInfo::init` (`tk` = the f64 quotient supplied by the caller) -/
def transferInit (f : FileDesc) (now tk : Nat) : FileDesc :=
  let tick : Option Nat := if wantsTick f then some tk else none
  f.updInfo fun i =>
    { i with
      transferring := true
      lastStart := some now
      tick := tick
      nextTs := if tick.isSome then some now else i.nextTs
      count := if i.count == f.maxCount && f.carousel.isSome then 0 else i.count
      attempt := f.faults[i.total]? }

/-- `TransferInfo::done` -/
def transferDoneInfo (f : FileDesc) (now : Nat) : FileDesc :=
  f.updInfo fun i =>
    { i with transferring := false, count := i.count + 1, total := i.total + 1, lastEnd := some now }

/-- `TransferInfo::tick` -/
def tickInfo (f : FileDesc) : FileDesc :=
  f.updInfo fun i =>
    match i.tick, i.nextTs with
    | some t, some n => { i with nextTs := some (n + t) }
    | _, _ => i

/-- `FileDesc::reset_last_transfer` -/
def resetLastTransfer (f : FileDesc) (ts : Option Nat) : FileDesc :=
  f.updInfo fun i =>
    { i with lastEnd := none, lastStart := none,
             startTime := if ts.isSome then ts else i.startTime }

/-! ### blockencoder.rs (abstracted) -/

/-- `BlockEncoder::read(force_close_object)`: `(idx, B)` of the packet, new encoder -/
def encRead (nSym : Nat) (e : Enc) (force : Bool) : Option (Nat × Bool) × Enc :=
  if e.stopped then (none, e) else
  let e := if force then { e with stopped := true } else e
  if nSym = 0 then
    if e.sent = 0 then (some (0, true), { e with sent := 1 }) else (none, e)
  else if e.sent < nSym then
    (some (e.sent, force || (e.closable && e.sent + 1 == nSym)), { e with sent := e.sent + 1 })
  else (none, e)

/-! ### fdt.rs -/

def tblGet (t : List Nat) (k : Nat) : Nat := match t[k]? with | some n => n | none => 1

def emit (s : State) (e : Ev) : State := { s with log := e :: s.log }

def isTransferring (s : State) (toi : Nat) : Bool :=
  match getF s.objs toi with
  | some f => f.info.transferring
  | none => false

/-- `Fdt::publish`.  `fdtId` is the id as carried by EXT_FDT (`push_fdt` masks it to its 20 bits; matters only
    for the first instance when `fdt_start_id ≥ 2^20`). -/
def publish (s : State) (now : Nat) : State :=
  let k := s.fdts.length
  let content := match s.cfg.mode with
    | .full => s.files
    | .being => s.files.filter (isTransferring s)
  let fd : FileDesc :=
    { key := k, isFdt := true, fdtId := s.fdtid % 1048576, content := content, prio := 0,
      nSym := tblGet s.fdtPkts k, maxCount := 1, carousel := some s.cfg.fdtCarousel,
      target := none, allowStop := false, published := true, info := {} }
  { s with
    fdts := s.fdts ++ [fd]
    fdtQueue := s.fdtQueue ++ [k]
    fdtid := (s.fdtid + 1) % 1048576
    lastPublish := some now
    objs := s.objs.map (fun f => if s.files.contains f.key then { f with published := true } else f)
    log := Ev.pub now k content :: s.log }

/-- `Fdt::current_fdt_will_expire` -/
def currentFdtWillExpire (s : State) (now : Nat) : Bool :=
  if !s.fdtQueue.isEmpty then false else
  match s.curFdt, s.lastPublish with
  | some _, some lp =>
    -- a successor has already been published at this very instant (repair of F24)
    if lp = now then false else
    let d := now - lp
    if s.cfg.fdtDuration > 30000000000 then decide (s.cfg.fdtDuration - 5000000000 < d)
    else if s.cfg.fdtDuration > 10000000000 then decide (s.cfg.fdtDuration - 1000000000 < d)
    else decide (s.cfg.fdtDuration ≤ d)
  | _, _ => true

/-- is the current FDT instance in transfer? (first test of `get_next_fdt_transfer`) -/
def fdtBusy (s : State) : Bool :=
  match s.curFdt with
  | some k => (match getF s.fdts k with | some f => f.info.transferring | none => false)
  | none => false

/-- `Fdt::publish` including its error path: a refused FDT changes nothing (`Err`) -/
def publishTry (s : State) (now : Nat) : State := if s.cfg.fdtFits then publish s now else s

/-- `if self.current_fdt_will_expire(now) { self.publish(now).ok() }` -/
def fdtMaybePublish (s : State) (now : Nat) : State :=
  if currentFdtWillExpire s now then publishTry s now else s

/-- `if !fdt_transfer_queue.is_empty() { current_fdt_transfer = fdt_transfer_queue.pop_front() }` -/
def fdtPop (s : State) : State :=
  match s.fdtQueue with
  | k :: rest => { s with curFdt := some k, fdtQueue := rest }
  | [] => s

/-- `current_fdt_transfer.transfer_started(now)` -/
def fdtStartStep (s : State) (k now : Nat) : State :=
  emit { s with fdts := updF s.fdts k (fun f => transferInit f now 0) } (.fdtStart now k)

/-- tail of `Fdt::get_next_fdt_transfer` (its head: `fdtBusy`, `fdtMaybePublish`, `fdtPop`) -/
def fdtTryStart (s : State) (now : Nat) : State × Option Nat :=
  match s.curFdt with
  | none => (s, none)
  | some k =>
    match getF s.fdts k with
    | none => (s, none)
    | some f =>
      if shouldTransferNow f 0 s.cfg.mode now then (fdtStartStep s k now, some k) else (s, none)

/-- first element of the waiting queue that should transfer now -/
def findNext (s : State) (prio now : Nat) : List Nat → Option Nat
  | [] => none
  | t :: rest =>
    match getF s.objs t with
    | some f => if shouldTransferNow f prio s.cfg.mode now then some t else findNext s prio now rest
    | none => findNext s prio now rest

/-- the pacing tick `TransferInfo::init` computes for a transfer starting at `now`: the exact integer quotient of the
    nanoseconds (`target / nb_packets`, floor; since the repair of sched-4 no f64 is involved) -/
def tickOf (f : FileDesc) (now : Nat) : Nat :=
  match f.target with
  | some (.dur d) => d / f.nSym
  | some (.time T) => (T - now) / f.nSym
  | _ => 0

/-- the tick table of a `read(now)`: the driver computes it from the state (it used to be an input read off the real
    `Duration::div_f64`); the theorems keep quantifying over EVERY tick table -/
def modelTicks (s : State) (now : Nat) : List (Nat × Nat) :=
  s.files.filterMap fun t => (getF s.objs t).map fun f => (t, tickOf f now)

def tkGet (ticks : List (Nat × Nat)) (toi : Nat) : Nat :=
  match ticks.find? (fun p => p.1 == toi) with
  | some p => p.2
  | none => 0

/-- removal from the waiting queue, `StartTransfer` event, `transfer_started` -/
def fileStartStep (s : State) (t now tk : Nat) : State :=
  let st : Option Nat := match getF s.objs t with | some f => f.info.startTime | none => none
  let tick : Option Nat := match getF s.objs t with | some f => (if wantsTick f then some tk else none) | none => none
  { emit { s with queue := s.queue.erase t } (.start now t st tick) with
    objs := updF s.objs t (fun f => transferInit f now tk) }

/-- automatic publication at transfer start (`ObjectsBeingTransferred`) -/
def autoPublish (s : State) (now : Nat) : State :=
  match s.cfg.mode with
  | .being => publishTry s now
  | .full => s

/-- `Fdt::get_next_file_transfer` -/
def getNextFile (s : State) (prio now : Nat) (ticks : List (Nat × Nat)) : State × Option Nat :=
  match findNext s prio now s.queue with
  | none => (s, none)
  | some t => (autoPublish (fileStartStep s t now (tkGet ticks t)) now, some t)

/-- `Fdt::transfer_done` for the FDT -/
def transferDoneFdt (s : State) (k now : Nat) : State :=
  let s := { s with fdts := updF s.fdts k (fun f => transferDoneInfo f now) }
  let s := emit s (.fdtStop now k)
  match getF s.fdts k with
  | some f => if isExpired f then { s with curFdt := none } else s
  | none => s

/-- `Fdt::transfer_done` for an object -/
def transferDoneFile (s : State) (t now : Nat) : State :=
  let s := { s with objs := updF s.objs t (fun f => transferDoneInfo f now) }
  let s := emit s (.stop now t)
  if !s.files.contains t then s else
  match getF s.objs t with
  | some f =>
    if !isExpired f then { s with queue := s.queue ++ [t] }
    else { s with files := s.files.erase t }
  | none => s

/-! ### sendersession.rs -/

inductive Out where
  | none
  | hang
  | pkt (prio toi idx : Nat) (b : Bool)
  | fdt (k id idx : Nat)
  deriving Repr, DecidableEq

/-- the pacing gate of `SenderSession::run` -/
def gateBlocked (f : FileDesc) (now : Nat) : Bool :=
  match f.info.nextTs with
  | some ts => decide (ts > now)
  | none => false

/-- `BlockEncoder::new(file, interleave, is_last_transfer)` in `SenderSession::get_next`
    (`is_last_transfer` is evaluated AFTER `transfer_started`, as in the code) -/
def startCur (s : State) (t : Nat) : Cur :=
  { key := t, enc := { sent := 0,
                       -- a faulty attempt yields no packet: its encoder is "stopped" from the start
                       stopped := match getF s.objs t with | some f => f.info.attempt.isSome | none => false,
                       closable := match getF s.objs t with | some f => isLastTransfer f | none => false },
    openFail := match getF s.objs t with | some f => f.info.attempt == some 0 | none => false }

def startFdtCur (k : Nat) : Cur := { key := k, enc := { sent := 0, stopped := false, closable := false } }

/-- a packet of object `key` leaves: `inc_next_transfer_timestamp`, packet appended to the log -/
def pktStep (s : State) (prio key now idx : Nat) (b : Bool) : State :=
  emit { s with objs := updF s.objs key tickInfo } (.pkt now prio key idx b)

/-- a packet of the FDT instance held by the FDT session leaves -/
def fdtStep (s : State) (c : Cur) (e : Enc) (id now idx : Nat) : State :=
  emit { s with fdts := updF s.fdts c.key tickInfo, fdtSess := some { c with enc := e } } (.fdt now c.key id idx)

/-- `release_file` of the FDT session -/
def fdtRelease (s : State) (k now : Nat) : State :=
  { transferDoneFdt s k now with fdtSess := none }

/-- pop the next queued instance (if any), try to start the current one, create its encoder -/
def fdtAdvance (s : State) (now : Nat) : State :=
  match fdtTryStart (fdtPop s) now with
  | (s', some k) => { s' with fdtSess := some (startFdtCur k) }
  | (s', none) => s'

/-- `get_next` of the FDT session (`get_next_fdt_transfer` + `BlockEncoder::new`) -/
def fdtGetNext (s : State) (now : Nat) : State :=
  if fdtBusy s then s else fdtAdvance (fdtMaybePublish s now) now

/-- `SenderSession::run` for the FDT session (`transfer_fdt_only = true`) -/
def runFdt : Nat → State → Nat → State × Out
  | 0, s, _ => (s, .hang)
  | fuel + 1, s, now =>
    let s := match s.fdtSess with
      | some _ => s
      | none => fdtGetNext s now
    match s.fdtSess with
    | none => (s, .none)
    | some c =>
      match getF s.fdts c.key with
      | none => (s, .none)
      | some f =>
        if gateBlocked f now then (s, .none) else
        match encRead f.nSym c.enc false with
        | (none, _) => runFdt fuel (fdtRelease s c.key now) now
        | (some (idx, _), e) => (fdtStep s c e f.fdtId now idx, .fdt c.key f.fdtId idx)

/-- the file whose `BlockEncoder::new` failed in the `get_next` of this call (`fresh`): `get_next` releases it at once
    (`release_file` -> `Fdt::transfer_done`), before the pending-FDT test and the pacing gate -/
def openFailed (fresh : Bool) (s : State) (cur : Option Cur) : Option (Nat × FileDesc) :=
  match cur with
  | some c => if fresh && c.openFail then (getF s.objs c.key).map (fun f => (c.key, f)) else none
  | none => none

/-- `SenderSession::run` for a file session; returns the new slot content -/
def runFile : Nat → State → Nat → Option Cur → Nat → List (Nat × Nat) → State × Option Cur × Out
  | 0, s, _, cur, _, _ => (s, cur, .hang)
  | fuel + 1, s, prio, cur, now, ticks =>
    let sc : State × Option Cur := match cur with
      | some c => (s, some c)
      | none =>
        match getNextFile s prio now ticks with
        | (s, some t) => (s, some (startCur s t))
        | (s, none) => (s, none)
    -- `new_encoder`: the encoder has been created by this iteration
    let fresh : Bool := match cur with | some _ => false | none => true
    let s := sc.1
    let cur := sc.2
    match openFailed fresh s cur with
    | some (k, _) => (transferDoneFile s k now, none, .none)
    | none =>
    if !s.fdtQueue.isEmpty then (s, cur, .none) else
    match cur with
    | none => (s, none, .none)
    | some c =>
      match getF s.objs c.key with
      | none => (s, cur, .none)
      | some f =>
        if gateBlocked f now then (s, cur, .none) else
        match encRead f.nSym c.enc (canStop f && !s.files.contains c.key) with
        | (none, _) =>
          -- a transfer that ends without any packet right after its encoder was created (the source fails at the
          -- first read): release and give the hand back (`if new_encoder { return None }`), otherwise next file
          if fresh then (transferDoneFile s c.key now, none, .none)
          else runFile fuel (transferDoneFile s c.key now) prio none now ticks
        | (some (idx, b), e) => (pktStep s prio c.key now idx b, some { c with enc := e }, .pkt prio c.key idx b)

/-- fuel of the `loop` in `SenderSession::run` (`Props.C12.run_no_hang`: never exhausted) -/
def runFuel : Nat := 4

/-! ### sender.rs -/

/-- `Sender::read_priority_queue`: `k` = slots still to visit -/
def readQueue : Nat → State → QSess → Nat → List (Nat × Nat) → State × QSess × Out
  | 0, s, q, _, _ => (s, q, .none)
  | k + 1, s, q, now, ticks =>
    match q.slots[q.index]? with
    | none => (s, q, .none)
    | some cur =>
      let (s, cur', out) := runFile runFuel s q.prio cur now ticks
      let idx := if q.index + 1 = q.slots.length then 0 else q.index + 1
      let q := { q with slots := q.slots.set q.index cur', index := idx }
      match out with
      | .none => readQueue k s q now ticks
      | o => (s, q, o)

/-- the `for session in &mut self.sessions` loop of `Sender::read` -/
def readQueues : State → List QSess → Nat → List (Nat × Nat) → State × List QSess × Out
  | s, [], _, _ => (s, [], .none)
  | s, q :: rest, now, ticks =>
    let (s, q', out) := readQueue q.slots.length s q now ticks
    match out with
    | .none =>
      let (s, rest', out) := readQueues s rest now ticks
      (s, q' :: rest', out)
    | o => (s, q' :: rest, o)

/-- last stage of `Sender::read`: the FDT session once more -/
def readTail (s : State) (now : Nat) : State × Out :=
  match runFdt runFuel s now with
  | (s, .none) => (emit s (.idle now), .none)
  | r => r

/-- middle stage of `Sender::read`: the priority queues in ascending order -/
def readMid (s : State) (now : Nat) (ticks : List (Nat × Nat)) : State × Out :=
  let r := readQueues s s.sessions now ticks
  let s2 : State := { r.1 with sessions := r.2.1, quiet := false }
  match r.2.2 with
  | .none => readTail s2 now
  | o => (s2, o)

/-- `Sender::read` -/
def read (s : State) (now : Nat) (ticks : List (Nat × Nat)) : State × Out :=
  match runFdt runFuel (emit s (.opRead now)) now with
  | (s1, .none) => readMid { s1 with quiet := true } now ticks
  | r => r

/-- `Sender::new` -/
def init (cfg : Cfg) (fdtPkts : List Nat) : State :=
  { cfg := cfg, fdtPkts := fdtPkts, objs := [], fdts := [], files := [], queue := [], fdtQueue := [],
    curFdt := none, fdtid := cfg.fdtStartId, lastPublish := none, complete := false, fdtSess := none,
    sessions := cfg.queues.map (fun (p, m) =>
      { prio := p, index := 0, slots := List.replicate (if m = 0 then 1 else m) none }),
    nextToi := 1, log := [], panic := none }

/-- `allocate_toi` + `Sender::add_object`; `none` = `Err` -/
def addObject (s : State) (a : AddArgs) : State × Option Nat :=
  let toi := s.nextToi
  let s := { s with nextToi := s.nextToi + 1 }
  if !(s.sessions.any (fun q => q.prio == a.prio)) then (emit s (.opAdd toi a false), none) else
  if s.complete then (emit s (.opAdd toi a false), none) else
  let fd : FileDesc :=
    { key := toi, isFdt := false, fdtId := 0, content := [], prio := a.prio, nSym := a.nSym,
      maxCount := a.maxCount, carousel := a.carousel, target := a.target, allowStop := a.allowStop,
      published := false, info := { startTime := a.start }, faults := a.faults }
  let s := { s with objs := s.objs ++ [fd], files := s.files ++ [toi], queue := s.queue ++ [toi] }
  (emit s (.opAdd toi a true), some toi)

/-- `Sender::remove_object` -/
def removeObject (s : State) (toi : Nat) : State × Bool :=
  if !s.files.contains toi then (emit s (.opRemove toi false), false) else
  let s := { s with files := s.files.erase toi, queue := s.queue.filter (fun t => t != toi) }
  (emit s (.opRemove toi true), true)

/-- `Sender::trigger_transfer_at` -/
def triggerTransferAt (s : State) (toi : Nat) (ts : Option Nat) : State × Bool :=
  if !s.files.contains toi then (emit s (.opTrigger toi ts false), false) else
  if isTransferring s toi then (emit s (.opTrigger toi ts false), true) else
  let s := { s with objs := updF s.objs toi (fun f => resetLastTransfer f ts) }
  (emit s (.opTrigger toi ts true), true)

/-- `Sender::publish` -/
def publishOp (s : State) (now : Nat) : State := publishTry (emit s (.opPublish now)) now

def nbObjects (s : State) : Nat := s.files.length
def isAdded (s : State) (toi : Nat) : Bool := s.files.contains toi
def nbTransfers (s : State) (toi : Nat) : Option Nat :=
  if s.files.contains toi then (getF s.objs toi).map (fun f => f.info.total) else none

/-! ### operation histories -/

inductive Op where
  | add (a : AddArgs)
  | publish (now : Nat)
  | remove (toi : Nat)
  | trigger (toi : Nat) (ts : Option Nat)
  | read (now : Nat) (ticks : List (Nat × Nat))
  | setComplete
  deriving Repr, DecidableEq

def step (s : State) : Op → State
  | .add a => (addObject s a).1
  | .publish now => publishOp s now
  | .remove toi => (removeObject s toi).1
  | .trigger toi ts => (triggerTransferAt s toi ts).1
  | .read now ticks => (read s now ticks).1
  | .setComplete => { s with complete := true }

def run (s : State) (ops : List Op) : State := ops.foldl step s

end Flute.Sched
