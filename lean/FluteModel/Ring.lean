import FluteModel.Prim
/-
  Model of src/tools/ringbuffer.rs (RingBuffer: new / finish / write_size / read_size / Read::read / Write::write),
  statement by statement, with Rust's checked `usize` arithmetic, slice indexing, `copy_from_slice` length checks and
  `debug_assert!`s made explicit in `Rs` (`.error` = panic).  `buffer.len()` slots hold at most `buffer.len() - 1` bytes.
  Code modelled: /repo at commit 975bbd8 (write_size saturating for a zero-sized ring).
-/
namespace Flute.Ring

structure Ring where
  buffer : List Nat
  producer : Nat
  consumer : Nat
  finish : Bool
  deriving Repr, DecidableEq

/-- `RingBuffer::new(size)` -/
def new (size : Nat) : Ring := ⟨List.replicate size 0, 0, 0, false⟩

/-- `RingBuffer::finish` -/
def finishOp (r : Ring) : Ring := { r with finish := true }

/-- checked `usize` subtraction -/
def usub (a b : Nat) : Rs Nat := if b ≤ a then .ok (a - b) else .error "usize sub overflow"
/-- checked `usize` addition -/
def uadd (a b : Nat) : Rs Nat := if a + b < 2^64 then .ok (a + b) else .error "usize add overflow"

/-- `&l[a..b]` -/
def slice (l : List Nat) (a b : Nat) : Rs (List Nat) :=
  if a ≤ b ∧ b ≤ l.length then .ok ((l.drop a).take (b - a)) else .error "slice index out of range"

/-- `l[a..b].copy_from_slice(src)` -/
def copyInto (l : List Nat) (a b : Nat) (src : List Nat) : Rs (List Nat) :=
  if a ≤ b ∧ b ≤ l.length then
    if src.length = b - a then .ok (l.take a ++ src ++ l.drop b) else .error "copy_from_slice: length mismatch"
  else .error "slice index out of range"

/-- `write_size` -/
def writeSize (r : Ring) : Rs Nat :=
  if r.producer < r.consumer then
    match usub r.consumer r.producer with
    | .error e => .error e
    | .ok a => usub a 1
  else
    match usub r.buffer.length r.producer with
    | .error e => .error e
    | .ok a =>
      match uadd a r.consumer with
      | .error e => .error e
      | .ok b => .ok (b - 1)                       -- saturating_sub(1)

/-- `read_size` -/
def readSize (r : Ring) : Rs Nat :=
  if r.consumer ≤ r.producer then usub r.producer r.consumer
  else
    match usub r.buffer.length r.consumer with
    | .error e => .error e
    | .ok a => uadd a r.producer

/-- result of `Read::read` -/
inductive ReadRes where
  | ok (bytes : List Nat)        -- `Ok(bytes.len())`, the bytes copied to the front of `buf`
  | wouldBlock                   -- `Err(ErrorKind::WouldBlock)`
  deriving Repr, DecidableEq

/-- `Read::read(&mut self, buf)` with `n = buf.len()` -/
def read (r : Ring) (n : Nat) : Rs (Ring × ReadRes) :=
  match readSize r with
  | .error e => .error e
  | .ok rs =>
    let maxSize := if rs > n then n else rs
    if maxSize = 0 then
      .ok (r, if r.finish then .ok [] else .wouldBlock)
    else if n < maxSize then .error "buf[..max_size] out of range"
    else if r.consumer < r.producer then
      match slice r.buffer r.consumer (r.consumer + maxSize) with
      | .error e => .error e
      | .ok bs => .ok ({ r with consumer := r.consumer + maxSize }, .ok bs)
    else
      match usub r.buffer.length r.consumer with
      | .error e => .error e
      | .ok endSize =>
        if endSize ≥ maxSize then
          match slice r.buffer r.consumer (r.consumer + maxSize) with
          | .error e => .error e
          | .ok bs =>
            let c := r.consumer + maxSize
            if ¬ c ≤ r.buffer.length then .error "debug_assert consumer <= len"
            else .ok ({ r with consumer := if c = r.buffer.length then 0 else c }, .ok bs)
        else
          match slice r.buffer r.consumer (r.consumer + endSize) with
          | .error e => .error e
          | .ok b1 =>
            match usub maxSize endSize with
            | .error e => .error e
            | .ok left =>
              match slice r.buffer 0 left with
              | .error e => .error e
              | .ok b2 =>
                if ¬ left ≤ r.producer then .error "debug_assert consumer <= producer"
                else if left = r.buffer.length then .error "debug_assert consumer != len"
                else .ok ({ r with consumer := left }, .ok (b1 ++ b2))

/-- `Write::write(&mut self, buf)` with `data = buf`: new ring and the number of bytes accepted -/
def write (r : Ring) (data : List Nat) : Rs (Ring × Nat) :=
  match writeSize r with
  | .error e => .error e
  | .ok ws =>
    if ws = 0 then .ok (r, 0) else
    let maxSize := if ws > data.length then data.length else ws
    if r.consumer > r.producer then
      match copyInto r.buffer r.producer (r.producer + maxSize) (data.take maxSize) with
      | .error e => .error e
      | .ok b =>
        let p := r.producer + maxSize
        if ¬ r.consumer > p then .error "debug_assert consumer > producer"
        else if p = r.buffer.length then .error "debug_assert producer != len"
        else .ok ({ r with buffer := b, producer := p }, maxSize)
    else
      match usub r.buffer.length r.producer with
      | .error e => .error e
      | .ok endSize =>
        if endSize ≥ maxSize then
          match copyInto r.buffer r.producer (r.producer + maxSize) (data.take maxSize) with
          | .error e => .error e
          | .ok b =>
            let p := r.producer + maxSize
            .ok ({ r with buffer := b, producer := if p = r.buffer.length then 0 else p }, maxSize)
        else
          match copyInto r.buffer r.producer (r.producer + endSize) (data.take endSize) with
          | .error e => .error e
          | .ok b1 =>
            match usub maxSize endSize with
            | .error e => .error e
            | .ok left =>
              if data.length < endSize + left then .error "buf[end_size..end_size+left_size] out of range"
              else
              match copyInto b1 0 left ((data.drop endSize).take left) with
              | .error e => .error e
              | .ok b2 =>
                if ¬ left < r.consumer then .error "debug_assert producer < consumer"
                else .ok ({ r with buffer := b2, producer := left }, maxSize)

/-- the bytes held by the ring, oldest first -/
def content (r : Ring) : List Nat :=
  if r.consumer ≤ r.producer then (r.buffer.drop r.consumer).take (r.producer - r.consumer)
  else r.buffer.drop r.consumer ++ r.buffer.take r.producer

/-- representation invariant (`Vec::len() <= isize::MAX` always holds in Rust) -/
def Inv (r : Ring) : Prop :=
  r.buffer.length < 2^63 ∧
  ((r.buffer.length = 0 ∧ r.producer = 0 ∧ r.consumer = 0) ∨
   (r.producer < r.buffer.length ∧ r.consumer < r.buffer.length))


/-! ### operation sequences (any interleaving of producer and consumer calls) -/

inductive Op where
  | write (data : List Nat)
  | read (n : Nat)               -- `read(&mut buf)` with `buf.len() = n`
  | finish
  deriving Repr, DecidableEq

inductive Obs where
  | wrote (k : Nat)              -- `Ok(k)` from `write`
  | readOk (bytes : List Nat)    -- `Ok(bytes.len())` from `read` and the bytes delivered
  | wouldBlock
  | done                         -- `finish()`
  deriving Repr, DecidableEq

def step (r : Ring) : Op → Rs (Ring × Obs)
  | .write d =>
    match write r d with
    | .error e => .error e
    | .ok (r', k) => .ok (r', .wrote k)
  | .read n =>
    match read r n with
    | .error e => .error e
    | .ok (r', .ok b) => .ok (r', .readOk b)
    | .ok (r', .wouldBlock) => .ok (r', .wouldBlock)
  | .finish => .ok (finishOp r, .done)

def run : Ring → List Op → Rs (Ring × List Obs)
  | r, [] => .ok (r, [])
  | r, op :: rest =>
    match step r op with
    | .error e => .error e
    | .ok (r', o) =>
      match run r' rest with
      | .error e => .error e
      | .ok (r'', os) => .ok (r'', o :: os)

end Flute.Ring
