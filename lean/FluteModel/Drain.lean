import FluteModel.Ring
/-
  Model of the decompression path of src/receiver/blockwriter.rs (`decode_write_pkt`, `decoder_read`, `init_decoder`,
  the flush at the end of `write`) on top of the ring buffer, as the code is NOW (after commit 5b2a894), and of the
  same two loops BEFORE that commit (`…V0`, kept for the negation witness of D15).

  The decompressor (`flate2::read::{Zlib,Deflate,Gz}Decoder<RingBuffer>` behind `uncompress::Decompress`) is an
  abstract parameter: a state `σ` and a `read` that may consume from the ring (which it owns) and produce output.
  Loops without a decreasing measure in the Rust code take fuel; running out of fuel is the observable `hang`.
  The object writer never fails in this model (a failing `writer.write` leaves every loop at once through `?`).
-/
namespace Flute.Drain
open Flute Flute.Ring

/-- what `Decompress::read(&mut buf)` answers -/
inductive DRead where
  | ok (bytes : List Nat)        -- `Ok(bytes.len())`
  | wouldBlock                   -- `Err(WouldBlock)` : needs more input
  | err                          -- any other `Err`
  deriving Repr, DecidableEq

/-- abstract decompressor owning the ring: `read s ring n` with `n = buf.len()` -/
structure Decomp (σ : Type) where
  read : σ → Ring → Nat → σ × Ring × DRead

/-- outcome of a loop -/
inductive Res (α : Type) where
  | done (a : α)                 -- `Ok(())`
  | err (a : α)                  -- `Err(FluteError)`
  | panic
  | hang                         -- out of fuel: the Rust loop does not terminate
  deriving Repr

/-- the part of `BlockWriter` the decompression path touches -/
structure BW (σ : Type) where
  dec : σ
  ring : Ring
  buflen : Nat                   -- `self.buffer.len()` (= length of the first packet)
  contentLeft : Option Nat       -- `content_length_left`
  out : List Nat                 -- bytes handed to `writer.write`, concatenated

/-- `decoder_read` (lines 172-203) -/
def decoderRead {σ} (D : Decomp σ) : Nat → BW σ → Res (BW σ)
  | 0, _ => .hang
  | f + 1, st =>
    match D.read st.dec st.ring st.buflen with
    | (s', r', .wouldBlock) => .done { st with dec := s', ring := r' }
    | (s', r', .err) => .err { st with dec := s', ring := r' }
    | (s', r', .ok b) =>
      if b = [] then .done { st with dec := s', ring := r' }                           -- size == 0
      else if st.contentLeft = some 0 then decoderRead D f { st with dec := s', ring := r' }   -- continue (drain)
      else decoderRead D f { st with dec := s', ring := r', out := st.out ++ b,
                                     contentLeft := st.contentLeft.map (· - b.length) }   -- saturating_sub

/-- the loop of `decode_write_pkt` (lines 151-169); `fi` gives the fuel of each inner `decoder_read` -/
def writeLoop {σ} (D : Decomp σ) (fi : BW σ → Nat) : Nat → BW σ → List Nat → Nat → Bool → Res (BW σ)
  | 0, _, _, _, _ => .hang
  | fo + 1, st, pkt, offset, stalled =>
    if pkt.length < offset then .panic else                                  -- `&pkt[offset..]`
    match Ring.write st.ring (pkt.drop offset) with
    | .error _ => .panic
    | .ok (r', size) =>
      match decoderRead D (fi { st with ring := r' }) { st with ring := r' } with
      | .hang => .hang
      | .panic => .panic
      | .err st' => .err st'
      | .done st' =>
        if offset + size = pkt.length then .done st'
        else if size = 0 ∧ stalled = true then .err st'                         -- stalled decoder
        else writeLoop D fi fo st' pkt (offset + size) (size == 0)

/-! ### the same loops before commit 5b2a894 (D15) -/

def decoderReadV0 {σ} (D : Decomp σ) : Nat → BW σ → Res (BW σ)
  | 0, _ => .hang
  | f + 1, st =>
    match D.read st.dec st.ring st.buflen with
    | (s', r', .wouldBlock) => .done { st with dec := s', ring := r' }
    | (s', r', .err) => .err { st with dec := s', ring := r' }
    | (s', r', .ok b) =>
      if b = [] then .done { st with dec := s', ring := r' }
      else
        let cl := st.contentLeft.map (· - b.length)
        let st' : BW σ := { st with dec := s', ring := r', out := st.out ++ b, contentLeft := cl }
        if cl = some 0 then .done st' else decoderReadV0 D f st'

/-- `decoder_read` before the repair: returns at once when `content_length_left == Some(0)` -/
def decoderReadV0Top {σ} (D : Decomp σ) (f : Nat) (st : BW σ) : Res (BW σ) :=
  if st.contentLeft = some 0 then .done st else decoderReadV0 D f st

def writeLoopV0 {σ} (D : Decomp σ) (fi : BW σ → Nat) : Nat → BW σ → List Nat → Nat → Res (BW σ)
  | 0, _, _, _ => .hang
  | fo + 1, st, pkt, offset =>
    if pkt.length < offset then .panic else
    match Ring.write st.ring (pkt.drop offset) with
    | .error _ => .panic
    | .ok (r', size) =>
      match decoderReadV0Top D (fi { st with ring := r' }) { st with ring := r' } with
      | .hang => .hang
      | .panic => .panic
      | .err st' => .err st'
      | .done st' =>
        if offset + size = pkt.length then .done st'
        else writeLoopV0 D fi fo st' pkt (offset + size)

/-! ### the contract under which the loops terminate -/

/-- What is assumed of a decompressor.
    * `mu` : a bound on how many more non-empty reads it can answer WITHOUT being given new input (for a
      prefix-monotone transducer: the output determined by the input it holds plus the ring content, not yet
      handed out - finite because that input is finite);
    * `read_decreases` : every non-empty read uses some of it up;
    * `read_inv` : it touches the ring only through the ring's own API (representation invariant, same buffer). -/
structure Contract {σ} (D : Decomp σ) where
  mu : σ → Ring → Nat
  read_decreases : ∀ s r n s' r' b, Ring.Inv r → D.read s r n = (s', r', .ok b) → b ≠ [] → mu s' r' < mu s r
  read_inv : ∀ s r n s' r' res, Ring.Inv r → D.read s r n = (s', r', res) →
    Ring.Inv r' ∧ r'.buffer.length = r.buffer.length

/-! ### whole packets, as `BlockWriter::write` drives them (cenc ≠ Null) -/

/-- `decode_write_pkt(pkt)`; `started = false` : first packet (`init_decoder` then `decoder_read`) -/
def decodeWritePkt {σ} (D : Decomp σ) (fi : BW σ → Nat) (fo : Nat) (init : σ) (st : Option (BW σ))
    (contentLength : Option Nat) (pkt : List Nat) : Res (BW σ) :=
  match st with
  | none =>
    -- `RingBuffer::new(pkt.len() * 2)`, `ring.write(pkt).unwrap()`, `debug_assert!(result == pkt.len())`,
    -- `self.buffer.resize(pkt.len(), 0)`
    match Ring.write (Ring.new (pkt.length * 2)) pkt with
    | .error _ => .panic
    | .ok (r, k) =>
      if k ≠ pkt.length then .panic
      else
        let st0 : BW σ := ⟨init, r, pkt.length, contentLength, []⟩
        decoderRead D (fi st0) st0
  | some st => writeLoop D fi fo st pkt 0 false

/-- the flush once all blocks are written: `decoder.finish()` then `decoder_read` -/
def flush {σ} (D : Decomp σ) (fi : BW σ → Nat) (st : BW σ) : Res (BW σ) :=
  let st' := { st with ring := finishOp st.ring }
  decoderRead D (fi st') st'

end Flute.Drain
