import FluteModel.Lct
import FluteModel.Fti
import FluteModel.Ntp
/-
  Model of src/common/alc.rs: EXT_FDT / EXT_CENC / EXT_TIME push + parse, `new_alc_pkt`,
  `new_alc_pkt_close_session`, `parse_alc_pkt`, `get_sender_current_time`, `parse_payload_id`.
-/
namespace Flute.Alc
open Flute Flute.Bytes Flute.Lct Flute.Fti Flute.Ntp

/-- `pkt::Pkt` -/
structure Pkt where
  payload : List Nat
  transferLength : Nat          -- u64
  esi : Nat                     -- u32
  sbn : Nat                     -- u32
  toi : Nat                     -- u128
  fdtId : Option Nat            -- Option<u32>
  cenc : Nat                    -- lct::Cenc as u8 (0..3)
  inbandCenc : Bool
  closeObject : Bool
  sourceBlockLength : Nat       -- u32
  senderCurrentTime : Bool
deriving Repr, DecidableEq

/-- `alc::AlcPkt` without the borrowed data (`server_time` is always `None` after parsing) -/
structure AlcPkt where
  lct : LctHeader
  oti : Option Oti
  transferLength : Option Nat
  cenc : Option Nat
  fdtInfo : Option (Nat × Nat)          -- (version, fdt_instance_id)
  alcHeaderOffset : Nat
  payloadOffset : Nat
deriving Repr, DecidableEq

/-! ### extension builders (`data` = the packet built so far) -/

/-- `data.extend(bytes); lct::inc_hdr_len(data, n)` -/
def extendInc (data bytes : List Nat) (n : Nat) : Rs (List Nat) := incHdrLen (data ++ bytes) n

/-- `push_fdt(data, version, fdt_id)`: `192 << 24 | version << 20 | (fdt_id & 0xFFFFF)`
    (the mask is the repair of D37: an id ≥ 2^20 overwrote the version and HET bits) -/
def pushFdt (data : List Nat) (version fdtId : Nat) : Rs (List Nat) :=
  extendInc data (beBytes 4 ((192 <<< 24) ||| (version <<< 20) ||| (fdtId % 2^20))) 1

/-- `push_cenc(data, cenc)` -/
def pushCenc (data : List Nat) (cenc : Nat) : Rs (List Nat) :=
  extendInc data (beBytes 4 (193 * 2^24 + cenc * 2^16)) 1

/-- `push_sct(data, time)`; header = `2 << 24 | 3 << 16 | 1 << 15 | 1 << 14` -/
def pushSct (data : List Nat) (nowUs : Nat) : Rs (List Nat) :=
  rsBind (systemTimeToNtp nowUs) fun ntp =>
    extendInc data (beBytes 4 (2 * 2^24 + 3 * 2^16 + 2^15 + 2^14) ++ beBytes 8 ntp) 3

/-- `if pkt.toi == TOI_FDT { debug_assert!(pkt.fdt_id.is_some()); push_fdt(data, version, pkt.fdt_id.unwrap()) }` -/
def stepFdt (d : List Nat) (pkt : Pkt) (rfc3926 : Bool) : Rs (List Nat) :=
  if pkt.toi = 0 then
    match pkt.fdtId with
    | none => .error "debug_assert!(pkt.fdt_id.is_some())"
    | some id => pushFdt d (if rfc3926 then 1 else 2) id
  else .ok d

/-- `if (pkt.toi == TOI_FDT && pkt.cenc != Cenc::Null) || pkt.inband_cenc { push_cenc(data, pkt.cenc as u8) }` -/
def stepCenc (d : List Nat) (pkt : Pkt) : Rs (List Nat) :=
  if (pkt.toi = 0 ∧ pkt.cenc ≠ 0) ∨ pkt.inbandCenc = true then pushCenc d pkt.cenc else .ok d

/-- `if pkt.sender_current_time { push_sct(data, now) }` (both profiles) -/
def stepSct (d : List Nat) (pkt : Pkt) (nowUs : Nat) : Rs (List Nat) :=
  if pkt.senderCurrentTime = true then pushSct d nowUs else .ok d

/-- `if pkt.toi == TOI_FDT || oti.inband_fti { codec.add_fti(data, oti, pkt.transfer_length) }` -/
def stepFti (d : List Nat) (oti : Oti) (pkt : Pkt) : Rs (List Nat) :=
  if pkt.toi = 0 ∨ oti.inbandFti = true then
    match addFti oti pkt.transferLength with
    | .error w => .error w
    | .ok (bytes, n) => extendInc d bytes n
  else .ok d

/-- `new_alc_pkt(oti, cci, tsi, pkt, profile, now)` -/
def newAlcPkt (oti : Oti) (cci tsi : Nat) (pkt : Pkt) (rfc3926 : Bool) (nowUs : Nat) : Rs (List Nat) :=
  let d0 := pushLctHeader 0 cci tsi pkt.toi oti.fecId pkt.closeObject false
  rsBind (stepFdt d0 pkt rfc3926) fun d1 =>
  rsBind (stepCenc d1 pkt) fun d2 =>
  rsBind (stepSct d2 pkt nowUs) fun d3 =>
  rsBind (stepFti d3 oti pkt) fun d4 =>
  -- codec.add_fec_payload_id(data, oti, pkt); push_payload(data, pkt)
  rsBind (addPayloadId oti pkt.sbn pkt.esi pkt.sourceBlockLength) fun pid =>
  .ok (d4 ++ pid ++ pkt.payload)

/-- `new_alc_pkt_close_session(cci, tsi)` -/
def newAlcPktCloseSession (cci tsi : Nat) : Rs (List Nat) :=
  let oti : Oti := { fecId := NOCODE, inst := 0, maxSbl := 0, esl := 0, parity := 0, ss := .none, inbandFti := true }
  let d0 := pushLctHeader 0 cci tsi 0 oti.fecId false true
  match addFti oti 0 with
  | .error w => .error w
  | .ok (bytes, n) =>
    match extendInc d0 bytes n with
    | .error w => .error w
    | .ok d1 => .ok (d1 ++ beBytes 4 0)

/-! ### extension parsers -/

/-- `parse_ext_fdt(ext)` -/
def parseExtFdt (ext : List Nat) : Out (Option (Nat × Nat)) :=
  if ext.length ≠ 4 then .err else
  let v := beVal ext
  .ok (some (v / 2^20 % 16, v % 2^20))

/-- `parse_cenc(ext)` (`Cenc::try_from(ext[1])`) -/
def parseCenc (ext : List Nat) : Out Nat :=
  if ext.length ≠ 4 then .err else
  (idx ext 1).bind fun c => if c ≤ 3 then .ok c else .err

/-- `parse_sct(ext)` → microseconds since the UNIX epoch -/
def parseSct (ext : List Nat) : Out (Option Nat) :=
  if ext.length < 4 then .panic "debug_assert!(ext.len() >= 4)" else
  (idx ext 2).bind fun u =>
  let sctHi := u / 128 % 2
  let sctLow := u / 64 % 2
  let ert := u / 32 % 2
  let slc := u / 16 % 2
  let expectedLen := (sctHi + sctLow + ert + slc + 1) * 4
  if ext.length ≠ expectedLen then .err else
  if sctHi = 0 then .ok none else
  (fld ext 4 8).bind fun secs =>
  (if sctLow = 1 then fld ext 8 12 else .ok 0).bind fun frac =>
  (ntpToSystemTime (secs * 2^32 + frac)).bind fun t => .ok (some t)

/-- `match cenc { Some(ext) => parse_cenc(ext).ok(), None => None }` -/
def cencOf (cencExt : Option (List Nat)) : Out (Option Nat) :=
  match cencExt with
  | none => .ok none
  | some ext =>
    match parseCenc ext with
    | .ok c => .ok (some c)
    | .err => .ok none
    | .panic w => .panic w

/-- the EXT_FDT part of `parse_alc_pkt` -/
def fdtInfoOf (d : List Nat) (lct : LctHeader) : Out (Option (Nat × Nat)) :=
  if lct.toi = 0 then
    (getExt d lct EXT_FDT).bind fun fdt =>
    match fdt with
    | some ext => parseExtFdt ext
    | none => .ok none
  else .ok none

/-- `parse_alc_pkt(data)` -/
def parseAlcPkt (d : List Nat) : Out AlcPkt :=
  (parseLctHeader d).bind fun lct =>
  if ¬ knownFec lct.cp then .err else
  let idLen := payloadIdLen lct.cp
  if idLen + lct.len > d.length then .err else
  (getFti lct.cp d lct).bind fun fti =>
  (getExt d lct EXT_CENC).bind fun cencExt =>
  (cencOf cencExt).bind fun cenc =>
  (fdtInfoOf d lct).bind fun fdtInfo =>
  .ok { lct := lct, oti := fti.map (fun p => p.1), transferLength := fti.map (fun p => p.2), cenc := cenc,
        fdtInfo := fdtInfo, alcHeaderOffset := lct.len, payloadOffset := idLen + lct.len }

/-- `get_sender_current_time(pkt)` (`d` = `pkt.data`) -/
def getSenderCurrentTime (d : List Nat) (pkt : AlcPkt) : Out (Option Nat) :=
  (getExt d pkt.lct EXT_TIME).bind fun r =>
  match r with
  | some ext => parseSct ext
  | none => .ok none

/-- `parse_payload_id(pkt, oti)` -/
def parsePayloadId (d : List Nat) (pkt : AlcPkt) (oti : Oti) : Out PayloadId :=
  getPayloadId oti d pkt.alcHeaderOffset pkt.payloadOffset

/-- `alc::get_fec_inline_payload_id(pkt)`: the codec is chosen by the packet's codepoint; Reed-Solomon GF(2^m)
    answers `Err("not supported")` -/
def getFecInlinePayloadId (d : List Nat) (pkt : AlcPkt) : Out PayloadId :=
  if ¬ knownFec pkt.lct.cp then .err else
  if pkt.lct.cp = RS2M then .err else
  getPayloadId { fecId := pkt.lct.cp, inst := 0, maxSbl := 0, esl := 0, parity := 0, ss := .none, inbandFti := true }
    d pkt.alcHeaderOffset pkt.payloadOffset

end Flute.Alc
