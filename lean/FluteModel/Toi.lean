/-
  Model of `src/sender/toiallocator.rs` (ToiAllocator / Toi handle) and of the places where the
  sender creates and drops TOI handles (`Sender::allocate_toi`, `Fdt::add_object`, `Fdt::remove_object`,
  `Fdt::transfer_done` + `SenderSession::release_file`: the `Box<Toi>` lives inside the `ObjectDesc` owned
  by the `FileDesc`; it is dropped - and `ToiAllocator::release` runs - when the last `Arc<FileDesc>` goes).

  `HashSet<u128>`  → duplicate-free `List Nat` (insert = cons, guarded by the `assert!` of `allocate`)
  `u128` arithmetic → `Nat` with an explicit overflow check (dev profile)
  the `loop { .. }` of `allocate` has no bound in the source → fuel `2^bits`, out of fuel = `hang`
  No imports outside FluteModel (linked into the driver).
-/
import FluteModel.Prim
namespace Flute.Toi

/-- `TOIMaxLength` -/
inductive Width
  | w16 | w32 | w48 | w64 | w80 | w112
  deriving DecidableEq, Repr

def Width.bits : Width → Nat
  | .w16 => 16 | .w32 => 32 | .w48 => 48 | .w64 => 64 | .w80 => 80 | .w112 => 112

/-- number of values of the configured width (`mask + 1`) -/
def Width.modulus (w : Width) : Nat := 2 ^ w.bits

/-- `ToiAllocatorInternal::to_max_length`: `toi & mask(w)` for every width
    (since the repair of D5 also for `ToiMax112`: `toi & 0xFFFF_FFFF_FFFF_FFFF_FFFF_FFFF_FFFF`). -/
def toMaxLength (toi : Nat) (w : Width) : Nat := toi % w.modulus

/-- The pre-repair function (D5): `ToiMax112 => toi` (no mask).  Kept only to state the witnesses
    `Props.C15.d5_*`; no other definition uses it. -/
def toMaxLengthUnmasked112 (toi : Nat) (w : Width) : Nat :=
  match w with
  | .w112 => toi
  | w => toi % w.modulus

/-- outcome of a call that contains the unbounded skip loop -/
inductive Res (α : Type)
  | ok (a : α)
  | hang                    -- the loop never exits (model: out of fuel)
  | panic (why : String)    -- `assert!` / `debug_assert!` / checked-arithmetic panic

/-- `ToiAllocatorInternal` -/
structure State where
  reserved : List Nat
  next : Nat
  w : Width

/-- `HashSet::contains` (own recursion instead of `List.contains`: compiles to a tight loop) -/
def mem (x : Nat) : List Nat → Bool
  | [] => false
  | y :: r => if x = y then true else mem x r

/-- the `match toi_initial_value` of `new`; `rnd` is the `u128` drawn from `rand::rng()` for `None` -/
def initValue (cfg : Option Nat) (rnd : Nat) : Nat :=
  match cfg with
  | some 0 => 1
  | some n => n
  | none => rnd

/-- `ToiAllocatorInternal::new` (after the `match`): mask, then `if toi == TOI_FDT { toi += 1 }` -/
def new (w : Width) (init : Nat) : State :=
  let toi := toMaxLength init w
  let toi := if toi = 0 then toi + 1 else toi
  { reserved := [], next := toi, w := w }

/-- one iteration of the loop body up to the `contains` test:
    `self.toi = to_max_length(self.toi + 1); if self.toi == TOI_FDT { self.toi = 1 }`
    (`+` on `u128` is checked in the dev profile) -/
def nextCand (w : Width) (t : Nat) : Rs Nat :=
  if t + 1 < 2 ^ 128 then
    let t' := toMaxLength (t + 1) w
    .ok (if t' = 0 then 1 else t')
  else .error "attempt to add with overflow"

/-- the `loop` of `allocate`: advance until a value that is not reserved is found -/
def skip (w : Width) (res : List Nat) : (fuel : Nat) → (t : Nat) → Res Nat
  | 0, _ => .hang
  | fuel + 1, t =>
    match nextCand w t with
    | .error e => .panic e
    | .ok t' => if mem t' res then skip w res fuel t' else .ok t'

/-- `ToiAllocatorInternal::allocate` -/
def allocate (s : State) : Res (Nat × State) :=
  let ret := s.next
  if mem ret s.reserved then .panic "assert !toi_reserved.contains(ret)" else
  let res := ret :: s.reserved
  match skip s.w res s.w.modulus ret with
  | .ok t => .ok (ret, { s with reserved := res, next := t })
  | .hang => .hang
  | .panic e => .panic e

/-- `ToiAllocator::release` (called by `Drop for Toi`): TOI 0 (FDT) is ignored, otherwise
    `ToiAllocatorInternal::release` with its `debug_assert!(success)` -/
def release (s : State) (toi : Nat) : Rs State :=
  if toi = 0 then .ok s
  else if mem toi s.reserved then .ok { s with reserved := s.reserved.erase toi }
  else .error "debug_assert success"

/-! ## Sender glue: who holds a `Toi` handle -/

/-- association list `name ↦ TOI` -/
abbrev Tab := List (Nat × Nat)

def Tab.find? (k : Nat) : Tab → Option Nat
  | [] => none
  | (k', v) :: r => if k' = k then some v else Tab.find? k r

def Tab.del (k : Nat) : Tab → Tab
  | [] => []
  | (k', v) :: r => if k' = k then r else (k', v) :: Tab.del k r

def Tab.tois (t : Tab) : List Nat := t.map (·.2)

/-- The sender as far as TOIs are concerned.
    `handles`: `Box<Toi>` values returned by `Sender::allocate_toi` and still held by the caller.
    `objs`: objects whose `FileDesc` is alive (in `Fdt.files`, in the transfer queue and/or held by a
            `SenderSession` + `BlockEncoder`).
    `cur`: the object a `SenderSession` is transferring (the harness drives one transfer at a time),
    `curInFdt`: whether that object is still in `Fdt.files` (false after `remove_object` during transfer). -/
structure Sys where
  alloc : State
  handles : Tab
  objs : Tab
  cur : Option Nat
  curInFdt : Bool
  /-- objects added with `carousel_mode: Some(..)`: they are never "expired" (`FileDesc::is_expired`),
      `Fdt::transfer_done` re-queues them and their TOI stays reserved until `remove_object` -/
  carousel : List Nat := []

inductive Op
  /-- `let h = sender.allocate_toi()` -/
  | alloc (h : Nat)
  /-- `drop(h)` (on any thread) -/
  | drop (h : Nat)
  /-- `sender.add_object(prio, obj)` with `obj.config.toi == None`; `ok = false`: `FileDesc::new` refuses
      the object (too long for the OTI) after the TOI was allocated, the `ObjectDesc` is dropped;
      `carousel`: the object's `TransferConfig.carousel_mode` is `Some(..)` -/
  | add (k : Nat) (ok : Bool) (carousel : Bool)
  /-- `obj.set_toi(h); sender.add_object(prio, obj)` -/
  | addWith (k h : Nat) (ok : Bool)
  /-- `sender.add_object(..)` refused BEFORE any allocation: unknown priority queue (sender.rs), FDT
      complete, or - since the repair of finding toi-1 - an object carrying a `Toi` handle that was
      allocated by another sender (`!toi.is_allocated_by(&self.toi_allocator)`, fdt.rs).  The object is
      dropped; a foreign handle is released in ITS sender's allocator, nothing changes here. -/
  | addEarlyErr (k : Nat)
  /-- `sender.remove_object(toi_of k)` -/
  | remove (k : Nat)
  /-- publish + trigger + `read` until the first packet of object `k` (a session now holds the FileDesc) -/
  | start (k : Nat)
  /-- `read` until `None`: the transfer in progress completes, `transfer_done`, session lets go -/
  | drain
  deriving Repr

/-- what the allocator did, in order (the trace the uniqueness / reuse theorems speak about) -/
inductive Ev
  | allocated (v : Nat)
  | released (v : Nat)
  deriving DecidableEq, Repr

inductive Obs
  | toi (v : Nat)          -- TOI returned by allocate_toi / add_object, TOI of the first packet for `start`
  | unit
  | err                    -- add_object returned Err
  | bool (b : Bool)        -- remove_object
  | done (l : List Nat)    -- TOIs of the object packets seen while draining
  | bad                    -- the harness asked for something that is not an API behaviour (unknown name …)
  deriving DecidableEq, Repr

def Sys.init (w : Width) (init : Nat) : Sys :=
  { alloc := new w init, handles := [], objs := [], cur := none, curInFdt := false }

/-- all TOIs that are live: reserved handles and objects with a live FileDesc -/
def Sys.live (s : Sys) : List Nat := s.handles.tois ++ s.objs.tois

/-- TOIs listed by the FDT (`Fdt.files`, FullFDT mode) -/
def Sys.fdtTois (s : Sys) : List Nat :=
  match s.cur with
  | some k => if s.curInFdt then s.objs.tois else (s.objs.del k).tois
  | none => s.objs.tois

/-- drop a `Toi` value: `ToiAllocator::release` -/
def Sys.releaseToi (s : Sys) (v : Nat) : Res Sys :=
  match release s.alloc v with
  | .ok a => .ok { s with alloc := a }
  | .error e => .panic e

def Sys.step (s : Sys) : Op → Res (Sys × Obs × List Ev)
  | .alloc h =>
    match s.handles.find? h with
    | some _ => .ok (s, .bad, [])
    | none =>
      match allocate s.alloc with
      | .hang => .hang
      | .panic e => .panic e
      | .ok (v, a) => .ok ({ s with alloc := a, handles := (h, v) :: s.handles }, .toi v, [.allocated v])
  | .drop h =>
    match s.handles.find? h with
    | none => .ok (s, .bad, [])
    | some v =>
      match Sys.releaseToi { s with handles := s.handles.del h } v with
      | .ok s' => .ok (s', .unit, [.released v])
      | .hang => .hang
      | .panic e => .panic e
  | .add k ok car =>
    match s.objs.find? k with
    | some _ => .ok (s, .bad, [])
    | none =>
      match allocate s.alloc with
      | .hang => .hang
      | .panic e => .panic e
      | .ok (v, a) =>
        if ok then
          .ok ({ s with alloc := a, objs := (k, v) :: s.objs,
                        carousel := if car then k :: s.carousel else s.carousel }, .toi v, [.allocated v])
        else
          match Sys.releaseToi { s with alloc := a } v with
          | .ok s' => .ok (s', .err, [.allocated v, .released v])
          | .hang => .hang
          | .panic e => .panic e
  | .addWith k h ok =>
    match s.objs.find? k, s.handles.find? h with
    | none, some v =>
      if ok then
        .ok ({ s with handles := s.handles.del h, objs := (k, v) :: s.objs }, .toi v, [])
      else
        match Sys.releaseToi { s with handles := s.handles.del h } v with
        | .ok s' => .ok (s', .err, [.released v])
        | .hang => .hang
        | .panic e => .panic e
    | _, _ => .ok (s, .bad, [])
  | .addEarlyErr _ => .ok (s, .err, [])
  | .remove k =>
    match s.objs.find? k with
    | none => .ok (s, .bad, [])
    | some v =>
      if s.cur = some k then
        -- a session still holds the FileDesc: only `files.remove`
        if s.curInFdt then .ok ({ s with curInFdt := false }, .bool true, [])
        else .ok (s, .bool false, [])
      else
        -- `files.remove` + `files_transfer_queue.retain`: last Arc gone, ObjectDesc and its Toi dropped
        match Sys.releaseToi { s with objs := s.objs.del k, carousel := s.carousel.erase k } v with
        | .ok s' => .ok (s', .bool true, [.released v])
        | .hang => .hang
        | .panic e => .panic e
  | .start k =>
    match s.cur, s.objs.find? k with
    | none, some v => .ok ({ s with cur := some k, curInFdt := true }, .toi v, [])
    | _, _ => .ok (s, .bad, [])
  | .drain =>
    match s.cur with
    | none => .ok (s, .done [], [])
    | some k =>
      match s.objs.find? k with
      | none => .ok (s, .bad, [])
      | some v =>
        if s.curInFdt ∧ k ∈ s.carousel then
          -- `transfer_done`: still in `files` and `!is_expired()`: pushed back to the transfer queue
          .ok ({ s with cur := none, curInFdt := false }, .done [v], [])
        else
        match Sys.releaseToi { s with objs := s.objs.del k, cur := none, curInFdt := false,
                                      carousel := s.carousel.erase k } v with
        | .ok s' => .ok (s', .done [v], [.released v])
        | .hang => .hang
        | .panic e => .panic e

/-- What `add_object` did BEFORE the repair of finding toi-1 with an object carrying a handle of
    another sender (value `v`): accepted, the object is live with TOI `v`, this sender's allocator is
    not touched.  Kept only to state the witness `Props.C15.foreign_unchecked_breaks_uniqueness`. -/
def Sys.addForeignUnchecked (s : Sys) (k v : Nat) : Sys :=
  { s with objs := (k, v) :: s.objs }

/-- run a history; the event trace is accumulated in order -/
def Sys.exec (s : Sys) : List Op → Res (Sys × List Ev)
  | [] => .ok (s, [])
  | op :: ops =>
    match s.step op with
    | .hang => .hang
    | .panic e => .panic e
    | .ok (s', _, evs) =>
      match Sys.exec s' ops with
      | .hang => .hang
      | .panic e => .panic e
      | .ok (s'', evs') => .ok (s'', evs ++ evs')

end Flute.Toi
