import FluteModel.ObjRecv
/-
  How src/receiver/receiver.rs drives the per-object receivers of ONE session, as far as the `orecv` engine needs it:
  `push_obj` (objects_completed / objects_error filters, re-download on (SBN 0, ESI 0)), `create_obj` (attach to the
  first FDT of `fdt_current` listing the TOI), `check_object_state` (remove + Drop of objects that left `Receiving`,
  `gc_object_error`), completion of an FDT instance (`attach_latest_fdt_to_objects`, `gc_object_completed`,
  `fdt_current` ≤ 10) and Drop of the receiver.  FDT reception itself, expiry and time-outs belong to `Recv` (agent recv).
  `HashMap` iteration order is irrelevant: objects do not interact, and `gc_object_error` keeps the largest TOIs.
-/
namespace Flute.ObjSess
open Flute Flute.FecDec Flute.ObjRecv

structure Fdt where
  id : Nat
  files : List (Nat × FileEntry)

structure SCfg where
  maxSize : Nat := 10 * 1024 * 1024
  receiveOnce : Bool := true
  maxErr : Nat := 0

/-- parameters shared by all objects of the session; `planOf toi k` answers the k-th `new_object_writer` call
    made for `toi` in this session -/
structure SParams where
  codec : Codec
  dzRead : Cenc → List DzCall → DzCall → DzOut
  dzFuel : BW → Nat
  md5 : Bytes → String
  planOf : Nat → Nat → Plan

structure Obj where
  toi : Nat
  /-- number of builder calls made for this TOI before this object was created -/
  base : Nat
  st : St
  /-- number of writer calls of `st.out` already reported -/
  printed : Nat := 0

/-- writer calls reported for one op: `(toi, builder call index, calls in order, all calls of that object so far in order)` -/
structure Chunk where
  toi : Nat
  idx : Nat
  calls : List WCall
  all : List WCall

structure Sess where
  cfg : SCfg := {}
  objects : List Obj := []
  completed : List Nat := []
  errors : List Nat := []
  fdts : List Fdt := []
  /-- builder calls per TOI -/
  calls : List (Nat × Nat) := []
  log : List Chunk := []

def SParams.forObj (PP : SParams) (toi base : Nat) : Params :=
  { codec := PP.codec, dzRead := PP.dzRead, dzFuel := PP.dzFuel, md5 := PP.md5,
    env := { plan := fun k => PP.planOf toi (base + k) } }

def callsOf (S : Sess) (toi : Nat) : Nat :=
  match S.calls.find? (·.1 == toi) with
  | some (_, n) => n
  | none => 0

def Sess.findObj (S : Sess) (toi : Nat) : Option Obj := S.objects.find? (·.toi == toi)

def Sess.putObj (S : Sess) (o : Obj) : Sess :=
  { S with objects := o :: S.objects.filter (·.toi != o.toi) }

/-- report the calls of `o` not reported yet -/
def Sess.flush (S : Sess) (o : Obj) : Sess × Obj :=
  let tr := o.st.out.reverse
  if tr.length ≤ o.printed then (S, o) else
  let S := { S with log := { toi := o.toi, idx := o.base + o.st.wIdx, calls := tr.drop o.printed, all := tr } :: S.log,
                    calls := (o.toi, o.base + o.st.nBuilder) :: S.calls.filter (·.1 != o.toi) }
  (S, { o with printed := tr.length })

/-- `self.objects.remove(&toi)`: Drop of the ObjectReceiver -/
def Sess.removeObj (S : Sess) (toi : Nat) : Sess :=
  match S.findObj toi with
  | none => S
  | some o =>
    let S := (S.flush { o with st := drop o.st }).1
    { S with objects := S.objects.filter (·.toi != toi) }

def insertSorted (x : Nat) : List Nat → List Nat
  | [] => [x]
  | y :: r => if x < y then x :: y :: r else if x = y then y :: r else y :: insertSorted x r

/-- `check_object_state(toi)` -/
def Sess.checkObjectState (S : Sess) (toi : Nat) : Sess :=
  match S.findObj toi with
  | none => S
  | some o =>
    match o.st.state with
    | .receiving => S
    | .completed =>
      let S := if o.st.noCache == some true then S
               else { S with completed := if S.completed.contains toi then S.completed else toi :: S.completed }
      S.removeObj toi
    | _ =>
      -- objects_error.insert(toi); gc_object_error (pop_first while len > max); objects.remove(toi)
      let errs := insertSorted toi S.errors
      let errs := errs.drop (errs.length - S.cfg.maxErr)
      ({ S with errors := errs }).removeObj toi

/-- the attach loop of `create_obj` over `fdt_current` -/
def attachFirst (P : Params) : List Fdt → St → Rx St
  | [], st => .ok st
  | f :: r, st =>
    match attachFdt P st f.id ((f.files.find? (·.1 == st.toi)).map (·.2)) with
    | .error e => .error e
    | .ok (st, true) => .ok st
    | .ok (st, false) => attachFirst P r st

/-- `objects.get_mut(&toi)` or `create_obj(toi)` -/
def Sess.mkObj (PP : SParams) (S : Sess) (toi : Nat) : Rx Obj :=
  match S.findObj toi with
  | some o => .ok o
  | none =>
    let base := callsOf S toi
    match attachFirst (PP.forObj toi base) S.fdts (St.new toi S.cfg.maxSize) with
    | .error e => .error e
    | .ok st => .ok { toi := toi, base := base, st := st }

/-- `push_obj` past the completed / error filters: find or create the object, `push`, `check_object_state` -/
def Sess.pushCore (PP : SParams) (S : Sess) (p : Pkt) : Rx Sess :=
  match S.mkObj PP p.toi with
  | .error e => .error e
  | .ok o =>
    match push (PP.forObj o.toi o.base) o.st p with
    | .error e => .error e
    | .ok st =>
      ((S.flush { o with st := st }).1.putObj (S.flush { o with st := st }).2).checkObjectState p.toi |> .ok

/-- the `objects_completed` / `objects_error` filter of `push_obj`: a TOI in the set is let through (and taken out of the set)
    only by the packet (SBN 0, ESI 0) -/
def gate (p : Pkt) (inSet : Bool) (S : Sess) (rm : Sess → Sess) (k : Sess → Rx Sess) : Rx Sess :=
  if !inSet then k S else
  match inlinePayloadId p.cp p.pid with
  | none => .ok S                           -- `?` : push_data returns Err
  | some pid => if pid.sbn = 0 ∧ pid.esi = 0 then k (rm S) else .ok S

/-- `push_obj(pkt)` -/
def Sess.pushObj (PP : SParams) (S : Sess) (p : Pkt) : Rx Sess :=
  if S.completed.contains p.toi ∧ S.cfg.receiveOnce then .ok S else
  gate p (S.completed.contains p.toi) S (fun S => { S with completed := S.completed.filter (· != p.toi) }) fun S =>
  gate p (S.errors.contains p.toi) S (fun S => { S with errors := S.errors.filter (· != p.toi) }) fun S =>
  S.pushCore PP p

/-- an FDT instance has been completely received -/
def Sess.fdtComplete (PP : SParams) (S : Sess) (f : Fdt) : Rx Sess :=
  let S := { S with fdts := f :: S.fdts }
  let rec go : List Obj → Sess → Rx Sess
    | [], S => .ok S
    | o :: r, S =>
      match attachFdt (PP.forObj o.toi o.base) o.st f.id ((f.files.find? (·.1 == o.toi)).map (·.2)) with
      | .error e => .error e
      | .ok (st, ok) =>
        let S := (S.flush { o with st := st }).1.putObj (S.flush { o with st := st }).2
        go r (if ok then S.checkObjectState o.toi else S)
  match go S.objects S with
  | .error e => .error e
  | .ok S =>
    -- gc_object_completed (only when the instance has File elements), then fdt_current ≤ 10
    let S := if f.files.isEmpty then S
             else { S with completed := S.completed.filter fun t => f.files.any (·.1 == t) }
    .ok { S with fdts := S.fdts.take 10 }

/-- Drop of the `Receiver` -/
def Sess.dropAll (S : Sess) : Sess :=
  S.objects.foldl (fun S o => S.removeObj o.toi) S

/-- `cleanup_objects` when every object timed out: `objects_error.remove(toi); objects.remove(toi)` for each of them -/
def Sess.cleanupAll (S : Sess) : Sess :=
  S.objects.foldl (fun S o => ({ S with errors := S.errors.filter (· != o.toi) }).removeObj o.toi) S

/-- what the session sees: a data packet, a completely received FDT instance, the time-out sweep, Drop of the receiver -/
inductive SOp
  | pkt (p : Pkt)
  | fdt (f : Fdt)
  | cleanup
  | dropAll

def Sess.step (PP : SParams) (S : Sess) : SOp → Rx Sess
  | .pkt p => S.pushObj PP p
  | .fdt f => S.fdtComplete PP f
  | .cleanup => .ok S.cleanupAll
  | .dropAll => .ok S.dropAll

def Sess.run (PP : SParams) : Sess → List SOp → Rx Sess
  | S, [] => .ok S
  | S, op :: ops =>
    match S.step PP op with
    | .error e => .error e
    | .ok S => Sess.run PP S ops

end Flute.ObjSess
