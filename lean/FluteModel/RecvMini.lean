import FluteModel.Recv
import FluteModel.Partition
/-
  A small concrete object machine used to instantiate `ObjIface` in the executable driver of
  engine `recv` (the theorems about `Recv` never mention it; they hold for every `ObjIface`).

  It follows src/receiver/objectreceiver.rs for the sessions the `recv` engine generates:
  No-Code FEC (codepoint 0), content encoding null, MD5 check off, Content-Length check of e19fa2b
  (`finish`), a writer builder that always
  answers `StoreObject` and whose `open`/`write` succeed, block-allocation and look-ahead limits
  not reached, payload IDs with SBN < number of blocks.  Outside that scope (other FEC schemes,
  out-of-range SBN - defect D6 -, compression, failing writers) it is NOT claimed faithful; the full
  object model is `FluteModel/ObjRecv.lean` (engine `orecv`).
-/
namespace Flute.Recv.Mini
open Flute Flute.Recv

structure Blk where
  completed : Bool := false
  initialized : Bool := false
  k : Nat := 0                          -- number of source symbols
  got : List (Nat × Nat) := []          -- (esi, payload length), ascending esi not required
  deriving Repr, Inhabited

inductive WSess where
  | none | idle | opened | closed | error
  deriving DecidableEq, Repr, Inhabited

structure Obj where
  toi : Nat
  maxCache : Nat
  st : ObjState := .receiving
  oti : Option Oti := none
  tlen : Option Nat := none
  fdtId : Option Nat := none
  cc : Option CacheControl := none
  cache : List Pkt := []                -- `Vec` used as a stack: head = most recently cached
  cacheSize : Nat := 0
  nbBlocks : Nat := 0
  wsess : WSess := .none
  hasBw : Bool := false                 -- `block_writer.is_some()`
  bwSbn : Nat := 0                      -- `BlockWriter::sbn`
  bytesLeft : Nat := 0                  -- `BlockWriter::bytes_left`
  blocksOffset : Nat := 0
  blocks : List Blk := []
  aLarge : Nat := 0
  aSmall : Nat := 0
  nbALarge : Nat := 0
  /-- `content_length` (from the FDT File entry; stays `None` for TOI 0) -/
  cl : Option Nat := none
  /-- transfer length the `BlockWriter` was created with = bytes written when it is completed
      (content encoding null) -/
  bwTotal : Nat := 0
  deriving Repr, Inhabited

def new (toi maxCache : Nat) : Obj := { toi, maxCache }

def nbBlock (o : Obj) : Nat := o.blocksOffset + o.blocks.length

/-- `complete` -/
def complete (o : Obj) : Obj × List WEv :=
  let o := { o with st := .completed, blocks := [], cache := [], cacheSize := 0 }
  if o.wsess ≠ .none then ({ o with wsess := .closed }, [.complete]) else (o, [])

/-- `error(.., interrupted)` -/
def error (o : Obj) (interrupted : Bool) : Obj × List WEv :=
  let o := { o with st := if interrupted then .interrupted else .error, blocks := [], cache := [], cacheSize := 0 }
  if o.wsess ≠ .none then
    ({ o with wsess := .error }, [if interrupted then .interrupted else .error])
  else (o, [])

/-- the block writer is completed: `check_content_length` (repair e19fa2b) decides between
    `complete` and `error("Content-Length does not match the number of bytes written")` -/
def finish (o : Obj) : Obj × List WEv :=
  if o.cl.isNone ∨ o.cl = some o.bwTotal then complete o else error o false

/-- `init_blocks_partitioning` -/
def initBlocksPartitioning (o : Obj) : Obj :=
  if nbBlock o > 0 then o else
  match o.oti, o.tlen with
  | some oti, some l =>
    match Partition.blockPartitioning oti.msbl l oti.esl with
    | .error _ => o
    | .ok (aL, aS, nL, n) =>
      { o with aLarge := aL, aSmall := aS, nbALarge := nL, nbBlocks := n, blocks := List.replicate (min n 2048) {} }
  | _, _ => o

/-- `init_object_writer` (builder answers `StoreObject`, `open` succeeds) -/
def initObjectWriter (o : Obj) : Obj × List WEv :=
  if o.wsess ≠ .none then (o, []) else
  match o.fdtId, o.tlen, o.oti with
  | some _, some l, some _ =>
    ({ o with wsess := .opened, hasBw := decide (l ≠ 0), bwSbn := 0, bytesLeft := l, bwTotal := l }, [.new (o.cc.getD .noCache), .opened])
  | _, _, _ => (o, [])

def setBlk (l : List Blk) (i : Nat) (b : Blk) : List Blk := l.set i b

/-- bookkeeping of one written block (`BlockWriter::write` + the tail of the `write_blocks` loop
    body): (object after, bytes handed to the writer) -/
def wbAdvance (o : Obj) (off : Nat) (b : Blk) : Obj × Nat :=
  let dlen := (b.got.map (·.2)).foldl (· + ·) 0
  let len := if o.bytesLeft > dlen then dlen else o.bytesLeft
  let o := { o with bytesLeft := o.bytesLeft - len, bwSbn := o.bwSbn + 1 }
  let o := if off = 0 then { o with blocksOffset := o.blocksOffset + 1, blocks := o.blocks.drop 1 }
           else { o with blocks := setBlk o.blocks off { b with got := [] } }
  (o, len)

/-- `write_blocks(sbn_start)`; the loop writes one block per iteration -/
def writeBlocks : Nat → Obj → Nat → Obj × List WEv
  | 0, o, _ => (o, [])
  | fuel + 1, o, sbn =>
    if o.wsess ≠ .opened ∨ ¬ o.hasBw then (o, []) else
    if sbn < o.blocksOffset ∨ sbn - o.blocksOffset ≥ o.blocks.length then (o, []) else
    match o.blocks[sbn - o.blocksOffset]? with
    | none => (o, [])
    | some b =>
      if ¬ b.completed then (o, []) else
      if o.bwSbn ≠ sbn then (o, []) else
      let a := wbAdvance o (sbn - o.blocksOffset) b
      if a.1.bytesLeft = 0 then
        ((finish a.1).1, WEv.write sbn a.2 :: (finish a.1).2)
      else
        ((writeBlocks fuel a.1 (sbn + 1)).1, WEv.write sbn a.2 :: (writeBlocks fuel a.1 (sbn + 1)).2)

/-- enough iterations for the `write_blocks` loop: it writes one block per iteration -/
def wbFuel (o : Obj) : Nat := o.blocks.length + 1

/-- `blocks.resize_with(block_offset + 1, ..)` when the block is not there yet -/
def growBlocks (o : Obj) (off : Nat) : Obj :=
  if off ≥ o.blocks.length then
    { o with blocks := o.blocks ++ List.replicate (off + 1 - o.blocks.length) {} } else o

/-- `BlockDecoder::init` (first symbol) + `NoCodeDecoder::push_symbol` / `can_decode` -/
def blkPush (o : Obj) (b : Blk) (sbn esi plen : Nat) : Blk :=
  let b := if b.initialized then b else
    { b with initialized := true, k := if sbn < o.nbALarge then o.aLarge else o.aSmall }
  let b := if esi < b.k ∧ ¬ (b.got.any (·.1 = esi)) then { b with got := b.got ++ [(esi, plen)] } else b
  if b.got.length = b.k then { b with completed := true } else b

/-- `push_to_block2`; `Except.error o` = returned `Err` with the object state left as `o` -/
def pushToBlock2 (o : Obj) (p : Pkt) : Except Obj (Obj × List WEv) :=
  match p.pid, o.oti, o.tlen with
  | some (sbn, esi), some _oti, some l =>
    -- D14 repaired (/repo 7ec1ac7): an empty object is completed only once its writer exists
    if l = 0 then .ok (if o.wsess ≠ .none then complete o else (o, [])) else
    if sbn ≥ o.nbBlocks then .ok (o, []) else
    if sbn < o.blocksOffset then .ok (o, []) else
    if sbn - o.blocksOffset ≥ o.blocks.length ∧ sbn - o.blocksOffset > 2 * 2048 then .error { o with st := .error } else
    match (growBlocks o (sbn - o.blocksOffset)).blocks[sbn - o.blocksOffset]? with
    | none => .ok (growBlocks o (sbn - o.blocksOffset), [])
    | some b =>
      if b.completed then .ok (growBlocks o (sbn - o.blocksOffset), []) else
      let b' := blkPush o b sbn esi p.plen
      let o' := { growBlocks o (sbn - o.blocksOffset) with
                  blocks := setBlk (growBlocks o (sbn - o.blocksOffset)).blocks (sbn - o.blocksOffset) b' }
      if b'.completed then .ok (writeBlocks (wbFuel o') o' sbn) else .ok (o', [])
  | _, _, _ => .error o

/-- `push_to_block` -/
def pushToBlock (o : Obj) (p : Pkt) : Except Obj (Obj × List WEv) :=
  match pushToBlock2 o p with
  | .error o' => .error o'
  | .ok (o, e) =>
    if p.closeObject ∧ o.st = .receiving then
      let (o, e') := error o true
      .ok (o, e ++ e')
    else .ok (o, e)

/-- the `while let Some(item) = self.cache.pop()` loop of `push_from_cache` -/
def replayCache : List Pkt → Obj → Obj × List WEv
  | [], o => (o, [])
  | p :: rest, o =>
    match pushToBlock { o with cache := rest } p with
    | .error o' =>
      -- `self.error("Fail to push block", now, false); break` (error() clears the cache)
      error o' false
    | .ok (o', e) =>
      -- `complete`/`error` clear the cache: the loop then ends
      if o'.cache.isEmpty then (o', e) else
      let (o'', e') := replayCache rest o'
      (o'', e ++ e')

/-- `push_from_cache` -/
def pushFromCache (o : Obj) : Obj × List WEv :=
  if nbBlock o = 0 then (o, []) else
  let (o, e) := replayCache o.cache o
  ({ o with cacheSize := 0 }, e)

/-- `set_fdt_id_from_pkt` -/
def setFdtId (o : Obj) (p : Pkt) : Obj :=
  if o.fdtId.isNone ∧ p.toi = 0 then { o with fdtId := p.fdtId } else o

/-- `set_oti_from_pkt` (a parsed packet with OTI always has a transfer length) -/
def setOti (o : Obj) (p : Pkt) : Obj :=
  match o.oti, p.fti with
  | none, some fti => { o with oti := some fti.oti, tlen := if o.tlen.isNone then some fti.len else o.tlen }
  | _, _ => o

/-- the end of `push`, after `push_from_cache`: cache the packet or push it to its block -/
def pushTail (o : Obj) (p : Pkt) : Obj × List WEv :=
  -- the writer refused the object / the object ended while the cache was replayed
  if o.st ≠ .receiving then (o, []) else
  if o.oti.isNone then
    -- `cache(pkt)`: refuse when the cache already holds `max_size_allocated` bytes or more
    if o.cacheSize ≥ o.maxCache then error o false
    else ({ o with cache := p :: o.cache, cacheSize := o.cacheSize + p.dlen }, [])
  else
    match pushToBlock o p with
    | .error o' => error o' false
    | .ok r => r

/-- `push` -/
def push (o : Obj) (p : Pkt) : Obj × List WEv :=
  if o.st ≠ .receiving then (o, []) else
  let a := initObjectWriter (initBlocksPartitioning (setOti (setFdtId o p) p))
  let b := pushFromCache a.1
  let c := pushTail b.1 p
  (c.1, a.2 ++ b.2 ++ c.2)

/-- repair 432b305 (head of `attach_fdt`): the FDT is the authority - an OTI / transfer length learned in
    band that the File entry contradicts is discarded with everything decoded under its partition
    (nothing has been written yet: the writer only exists once the FDT is attached) -/
def fdtConflictReset (o : Obj) (file : FileAbs) : Obj :=
  if o.wsess ≠ .none then o else
  match o.oti, file.oti with
  | some oti, some fo =>
    let partDiffers : Bool :=
      match Partition.blockPartitioning fo.msbl file.tlen fo.esl with
      | .ok q => decide (q ≠ (o.aLarge, o.aSmall, o.nbALarge, o.nbBlocks))
      | .error _ => false
    if oti.fec ≠ fo.fec ∨ oti.esl ≠ fo.esl ∨ o.tlen ≠ some file.tlen ∨ partDiffers = true then
      { o with oti := none, tlen := none, blocks := [], blocksOffset := 0, aLarge := 0, aSmall := 0,
               nbALarge := 0, nbBlocks := 0 }
    else o
  | _, _ => o

/-- `attach_fdt` -/
def attachFdt (o : Obj) (id : Nat) (fdt : FdtAbs) : Obj × Bool × List WEv :=
  if o.fdtId.isSome then (o, false, []) else
  match fdt.getFile o.toi with
  | none => (o, false, [])
  | some file =>
    let o := fdtConflictReset o file
    let o := match o.oti with
      | none => (match file.oti with
                 | some oti => { o with oti := some oti, tlen := some file.tlen }
                 | none => o)
      | some _ => o
    let o := if o.tlen.isNone then { o with tlen := some file.tlen } else o
    let o := { o with fdtId := some id, cc := some (file.cacheControl fdt.expirationDate), cl := file.contentLength }
    let o := initBlocksPartitioning o
    let (o, e1) := initObjectWriter o
    let (o, e2) := pushFromCache o
    let (o, e3) := writeBlocks (wbFuel o) o 0
    let (o, e4) := pushFromCache o
    (o, true, e1 ++ e2 ++ e3 ++ e4)

/-- `Drop for ObjectReceiver` -/
def drop (o : Obj) : List WEv :=
  if o.wsess = .opened ∨ o.wsess = .idle then [.error] else []

def iface : ObjIface Obj :=
  { new := new, push := push, attachFdt := attachFdt, state := (·.st), cacheControl := (·.cc), drop := drop }

end Flute.Recv.Mini
