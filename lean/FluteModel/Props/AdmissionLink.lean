/-
  The admission of an object by the sender is modelled once as a reference (`FluteModel/Admission.lean`,
  line by line from `Sender::add_object` / `Fdt::add_object` / `FileDesc::new`, tied to the code by the
  `admission` operation of engine `toi`) and, in part, by three other components.  This file relates each
  of them to the reference, on the domain it covers.
-/
import FluteModel.Admission
import FluteModel.FdtAbs
import FluteModel.Session
import FluteModel.Toi
namespace Flute.Props.C01.Admission
open Flute Flute.Admission

/-! ## 0. facts about the reference itself -/

private theorem divCeil_le_of_le_mul (a b c : Nat) (hb : 0 < b) (h : a ≤ b * c) : divCeil a b ≤ c := by
  unfold divCeil
  split
  · exact Nat.div_le_of_le_mul h
  · rename_i hm
    have hlt : a < b * c := by
      refine Nat.lt_of_le_of_ne h fun e => hm ?_
      rw [e]; exact Nat.mul_mod_right b c
    have := Nat.div_lt_of_lt_mul hlt
    omega

/-- translate both outcomes of two `Rs` computations -/
def relRs {α β : Type} (R : α → β → Prop) : Rs α → Rs β → Prop
  | .ok a, .ok b => R a b
  | .error _, .error _ => True
  | _, _ => False

/-! ## 1. `FdtAbs` (agent fdtabs): `maxTransferLength`, `rsRefused`, `effectiveOti`, `setZ`, `add` -/

def toFScheme : SchemeSpecific → FdtAbs.Scheme
  | .reedSolomon m g => .rs2m m g
  | .raptorq z n al => .raptorq z n al
  | .raptor z n al => .raptor z n al

/-- the same OTI in `FdtAbs`' representation (encoding id as a number) -/
def toF (o : Oti) : FdtAbs.Oti :=
  { enc := o.fec.id, inst := o.inst, maxSbl := o.maxSbl, esl := o.esl, parity := o.parity,
    scheme := o.scheme.map toFScheme }

private theorem relRs_refl {α : Type} (x : Rs α) : relRs (fun a b => a = b) x x := by
  cases x <;> simp [relRs]

theorem maxTransferLength_link (o : Oti) :
    relRs (fun a b => a = b) (maxTransferLength o) (FdtAbs.maxTransferLength (toF o)) := by
  unfold maxTransferLength FdtAbs.maxTransferLength toF
  cases hf : o.fec <;>
    simp only [Fec.id, maxSourceBlocksNumber, lengthCap, Nat.reduceEqDiff, ↓reduceIte, reduceCtorEq,
      gt_iff_lt] <;>
    first
    | exact relRs_refl _
    | trivial

/-- forget the panic message -/
def toOpt {α : Type} : Rs α → Option α
  | .ok a => some a
  | .error _ => none

/-- `FileDesc::new`'s answer in `FdtAbs.effectiveOti`'s encoding: `none` = `Err` -/
def outF : Except Refuse Oti → Option FdtAbs.Oti
  | .error _ => none
  | .ok o => some (toF o)

theorem setZ_link (o : Oti) (nb : Nat) : toF (setZ o nb) = FdtAbs.setZ (toF o) (max nb 1) := by
  obtain ⟨fec, inst, maxSbl, esl, parity, scheme⟩ := o
  cases fec <;> cases scheme with
  | none => simp [setZ, FdtAbs.setZ, toF, Fec.id]
  | some sc => cases sc <;> simp [setZ, FdtAbs.setZ, toF, Fec.id, toFScheme]

/-- everything of `FileDesc::new` after the transfer-length check, in both models -/
def tailA (oti : Oti) (L : Nat) : Rs (Except Refuse Oti) :=
  if (oti.fec = Fec.rs28 ∨ oti.fec = Fec.rs28us) ∧ oti.parity = 0 then Except.ok (Except.error Refuse.rsNoParity)
  else
    match
      (if oti.fec = Fec.rs28 ∨ oti.fec = Fec.rs28us then
        match Partition.blockPartitioning oti.maxSbl L oti.esl with
        | Except.error w => Except.error w
        | Except.ok q => Except.ok (if q.fst + oti.parity > 256 then some Refuse.rsBlockOver256 else none)
      else Except.ok none : Rs (Option Refuse)) with
    | Except.error w => Except.error w
    | Except.ok (some r) => Except.ok (Except.error r)
    | Except.ok none =>
      if oti.fec = Fec.raptorq ∨ oti.fec = Fec.raptor then
        match Partition.blockPartitioning oti.maxSbl L oti.esl with
        | Except.error w => Except.error w
        | Except.ok q =>
          if q.fst > maxBlockSymbols oti.fec then Except.ok (Except.error Refuse.blockOverKmax)
          else
            if oti.scheme.isNone = true then Except.ok (Except.error Refuse.noSchemeSpecific)
            else
              if q.snd.snd.snd > (if oti.fec = Fec.raptorq then 255 else 65535) then
                Except.ok (Except.error Refuse.tooManyBlocks)
              else Except.ok (Except.ok (setZ oti q.snd.snd.snd))
      else Except.ok (Except.ok oti)

def tailF (o : FdtAbs.Oti) (L : Nat) : Rs (Option FdtAbs.Oti) :=
  match FdtAbs.rsRefused o L with
  | Except.error w => Except.error w
  | Except.ok true => Except.ok none
  | Except.ok false =>
    if o.enc = 6 ∨ o.enc = 1 then
      match Partition.blockPartitioning o.maxSbl L o.esl with
      | Except.error w => Except.error w
      | Except.ok q =>
        if q.fst > FdtAbs.kMax o.enc then Except.ok none
        else
          if o.scheme.isNone = true then Except.ok none
          else
            if o.enc = 6 ∧ q.snd.snd.snd > 255 ∨ o.enc = 1 ∧ q.snd.snd.snd > 65535 then
              Except.ok none
            else Except.ok (some (FdtAbs.setZ o (max q.snd.snd.snd 1)))
    else Except.ok (some o)

private theorem setZ_link_raptor (inst maxSbl esl parity : Nat) (scheme : Option SchemeSpecific) (nb : Nat) :
    FdtAbs.setZ { enc := 1, inst := inst, maxSbl := maxSbl, esl := esl, parity := parity,
                  scheme := Option.map toFScheme scheme } (max nb 1) =
      toF (setZ ⟨.raptor, inst, maxSbl, esl, parity, scheme⟩ nb) :=
  (setZ_link ⟨.raptor, inst, maxSbl, esl, parity, scheme⟩ nb).symm

private theorem setZ_link_raptorq (inst maxSbl esl parity : Nat) (scheme : Option SchemeSpecific) (nb : Nat) :
    FdtAbs.setZ { enc := 6, inst := inst, maxSbl := maxSbl, esl := esl, parity := parity,
                  scheme := Option.map toFScheme scheme } (max nb 1) =
      toF (setZ ⟨.raptorq, inst, maxSbl, esl, parity, scheme⟩ nb) :=
  (setZ_link ⟨.raptorq, inst, maxSbl, esl, parity, scheme⟩ nb).symm

private theorem tail_link (oti : Oti) (L : Nat) : toOpt (tailF (toF oti) L) = (toOpt (tailA oti L)).map outF := by
  obtain ⟨fec, inst, maxSbl, esl, parity, scheme⟩ := oti
  cases fec <;>
    simp only [tailA, tailF, FdtAbs.rsRefused, toF, Fec.id, FdtAbs.kMax, maxBlockSymbols, reduceCtorEq, or_self,
      false_or, or_false, or_true, false_and, true_and, ↓reduceIte, Nat.reduceEqDiff]
  all_goals
    cases Partition.blockPartitioning maxSbl L esl with
    | error w =>
      (try simp only [apply_ite toOpt, apply_ite (Option.map outF)])
      (repeat' split) <;> simp_all [toOpt, outF, toF, Fec.id]
    | ok q =>
      (try simp only [setZ_link_raptor, setZ_link_raptorq])
      (try simp only [apply_ite toOpt, apply_ite (Option.map outF)])
      (repeat' split) <;> simp_all [toOpt, outF, toF, Fec.id] <;> omega

/-- the OTI `FileDesc::new` works with -/
def chosen (dflt : Oti) (ovr : Option Oti) : Oti := match ovr with | some o => o | none => dflt

private theorem fileDescNew_eq (dflt : Oti) (ovr : Option Oti) (L : Nat) :
    fileDescNew dflt ovr L =
      (match maxTransferLength (chosen dflt ovr) with
       | .error w => .error w
       | .ok mtl => if L > mtl then .ok (.error .tooLong) else tailA (chosen dflt ovr) L) := by
  cases ovr <;> rfl

/-- **`FdtAbs.effectiveOti` = `Admission.fileDescNew`** for every default OTI, override, transfer length:
    same panics (message forgotten), `Err` where the reference refuses (whatever the reason), and the
    same effective OTI (Z included) where it accepts. -/
theorem effectiveOti_link (dflt : Oti) (ovr : Option Oti) (a : FdtAbs.ObjAttrs) (ha : a.oti = ovr.map toF) :
    toOpt (FdtAbs.effectiveOti (toF dflt) a) =
      (toOpt (fileDescNew dflt ovr a.transferLength)).map outF := by
  have hget : a.oti.getD (toF dflt) = toF (chosen dflt ovr) := by
    rw [ha]; cases ovr <;> rfl
  have hm := maxTransferLength_link (chosen dflt ovr)
  rw [fileDescNew_eq]
  unfold FdtAbs.effectiveOti
  simp only [hget]
  generalize chosen dflt ovr = oti at *
  cases h1 : maxTransferLength oti with
  | error w =>
    rw [h1] at hm
    cases h2 : FdtAbs.maxTransferLength (toF oti) with
    | error w2 => simp [toOpt]
    | ok v => rw [h2] at hm; simp [relRs] at hm
  | ok mtl =>
    rw [h1] at hm
    cases h2 : FdtAbs.maxTransferLength (toF oti) with
    | error w2 => rw [h2] at hm; simp [relRs] at hm
    | ok v =>
      rw [h2] at hm
      simp only [relRs] at hm
      subst hm
      simp only []
      by_cases hL : a.transferLength > mtl
      · simp [hL, toOpt, outF]
      · simp only [hL, ↓reduceIte]
        exact tail_link oti a.transferLength

/-! ### the `u8` / `u16` conversion of Z can never fail -/

private theorem bp_nb (b l e : Nat) (q : Partition.Quad) (h : Partition.blockPartitioning b l e = .ok q) :
    q.2.2.2 = 0 ∨ (0 < b ∧ 0 < e ∧ q.2.2.2 = divCeil (divCeil l e) b) := by
  unfold Partition.blockPartitioning at h
  by_cases hb : b = 0
  · simp [hb] at h; subst h; exact .inl rfl
  by_cases he : e = 0
  · simp [hb, he] at h; subst h; exact .inl rfl
  simp only [hb, he, ↓reduceIte] at h
  by_cases hn : divCeil (divCeil l e) b = 0
  · simp [hn] at h; subst h; exact .inl rfl
  simp only [hn, ↓reduceIte] at h
  split at h
  · cases h
  · split at h
    · cases h
    · injection h with h; subst h; exact .inr ⟨by omega, by omega, rfl⟩

private theorem mtl_bound (o : Oti) (mtl : Nat) (h : maxTransferLength o = .ok mtl) :
    ∃ k, maxSourceBlocksNumber o.fec = .ok k ∧ mtl ≤ o.esl * o.maxSbl * k := by
  unfold maxTransferLength at h
  cases hk : maxSourceBlocksNumber o.fec with
  | error w => simp [hk] at h
  | ok k =>
    refine ⟨k, rfl, ?_⟩
    simp only [hk, u64mul] at h
    split at h
    · cases h
    · rename_i bs hbs
      split at hbs
      · injection hbs with hbs; subst hbs
        split at h
        · cases h
        · rename_i sz hsz
          split at hsz
          · injection hsz with hsz; subst hsz
            injection h with h; subst h
            split <;> omega
          · cases hsz
      · cases hbs

/-- **Z always fits**: after the transfer-length check the number of source blocks is at most 255
    (RaptorQ) / 65535 (Raptor), so the `try_into()` of `FileDesc::new` never fails and the refusal
    "requires the transmission of N source blocks" is dead code.  (Observed: 0 of 18948 generated cases.) -/
theorem tooManyBlocks_unreachable (dflt : Oti) (ovr : Option Oti) (L : Nat) :
    fileDescNew dflt ovr L ≠ .ok (.error .tooManyBlocks) := by
  rw [fileDescNew_eq]
  generalize chosen dflt ovr = oti
  intro h
  cases h1 : maxTransferLength oti with
  | error w => simp [h1] at h
  | ok mtl =>
    obtain ⟨k, hk, hle⟩ := mtl_bound oti mtl h1
    simp only [h1] at h
    by_cases hL : L > mtl
    · simp [hL] at h
    simp only [hL, ↓reduceIte] at h
    have hnbk : ∀ q, Partition.blockPartitioning oti.maxSbl L oti.esl = .ok q → q.2.2.2 ≤ k := by
      intro q hq
      rcases bp_nb _ _ _ q hq with h0 | ⟨hbp, hep, hnb⟩
      · omega
      · have ht : divCeil L oti.esl ≤ oti.maxSbl * k := divCeil_le_of_le_mul L oti.esl _ hep (by
          rw [← Nat.mul_assoc]; omega)
        have := divCeil_le_of_le_mul _ oti.maxSbl _ hbp ht
        omega
    obtain ⟨fec, inst, maxSbl, esl, parity, scheme⟩ := oti
    cases fec <;>
      simp only [tailA, reduceCtorEq, or_self, or_false, or_true, false_and, true_and, ↓reduceIte,
        maxBlockSymbols, maxSourceBlocksNumber, Except.ok.injEq] at h hk hnbk
    all_goals (try (subst hk))
    all_goals
      cases hq : Partition.blockPartitioning maxSbl L esl with
      | error w => simp [hq] at h <;> (repeat' split at h) <;> simp_all
      | ok q =>
        have hbq := hnbk q hq
        simp only [hq] at h
        (repeat' split at h) <;> (try simp_all) <;> (try cases h) <;> (try omega)

/-- every refusal of `FileDesc::new` comes after the TOI allocation of `Fdt::add_object` -/
theorem fileDescNew_refusal_late (dflt : Oti) (ovr : Option Oti) (L : Nat) (r : Refuse)
    (h : fileDescNew dflt ovr L = .ok (.error r)) : r.afterAllocation = true := by
  rw [fileDescNew_eq] at h
  generalize chosen dflt ovr = oti at h
  cases r <;> first
  | rfl
  | (exfalso
     cases h1 : maxTransferLength oti with
     | error w => simp [h1] at h
     | ok mtl =>
       simp only [h1] at h
       by_cases hL : L > mtl
       · simp [hL] at h
       simp only [hL, ↓reduceIte] at h
       obtain ⟨fec, inst, maxSbl, esl, parity, scheme⟩ := oti
       cases fec <;>
         simp only [tailA, reduceCtorEq, or_self, or_false, or_true, false_and, true_and, ↓reduceIte,
           maxBlockSymbols] at h
       all_goals
         cases hq : Partition.blockPartitioning maxSbl L esl with
         | error w => simp [hq] at h <;> (repeat' split at h) <;> simp_all
         | ok q =>
           (try simp only [hq] at h)
           (repeat' split at h) <;> (try simp_all) <;> (try cases h))

/-! ### `FdtAbs.add` = `Admission.accepts` (for a configured queue, an object without TOI handle) -/

/-- the object `FdtAbs` describes, in the reference's terms (`cp` = the code points of a string token) -/
def objOf (cp : String → List Nat) (a : FdtAbs.ObjAttrs) (ovr : Option Oti) : Obj :=
  { transferLength := a.transferLength, oti := ovr, location := cp a.location, contentType := cp a.contentType,
    md5 := a.md5.map cp, etag := a.etag.map cp, groups := a.groups.map (fun gs => gs.map cp), toi := .none }

theorem attrsXmlOk_link (ok : String → Bool) (cp : String → List Nat) (hx : ∀ str, ok str = isXmlStr (cp str))
    (a : FdtAbs.ObjAttrs) (ovr : Option Oti) : FdtAbs.attrsXmlOk ok a = metaOk (objOf cp a ovr) := by
  have hok : ok = fun x => isXmlStr (cp x) := funext hx
  unfold FdtAbs.attrsXmlOk metaOk objOf
  cases a.md5 <;> cases a.etag <;> cases a.groups <;>
    simp [hok, Option.all, List.all_map, Function.comp_def]

/-- **`FdtAbs.add` agrees with the reference** on its domain (existing priority queue, object without TOI
    handle; `xmlOk` = `is_xml_str` on the token's code points): it panics iff the reference panics, answers
    `err` iff the reference refuses - and then lists nothing new -, and where the reference accepts the new
    file carries the reference's OTI.  It takes a TOI exactly when the reference says one is consumed. -/
theorem fdtabs_add_link (s : FdtAbs.State) (a : FdtAbs.ObjAttrs) (cp : String → List Nat)
    (hx : ∀ str, s.cfg.xmlOk str = isXmlStr (cp str))
    (dflt : Oti) (hd : s.cfg.oti = toF dflt) (ovr : Option Oti) (ha : a.oti = ovr.map toF)
    (prio : Nat) (queues : List Nat) (hq : prio ∈ queues) :
    let cfg : Cfg := { queues := queues, complete := decide (s.complete = some true), oti := dflt }
    let obj := objOf cp a ovr
    (match accepts cfg prio obj with
     | .error _ => (FdtAbs.add s a).2 = .panic
     | .ok (.error _) => (FdtAbs.add s a).2 = .err ∧ (FdtAbs.add s a).1.files = s.files
     | .ok (.ok adm) => (FdtAbs.add s a).2 = .ok s.nextToi ∧
         (FdtAbs.add s a).1.files = s.files ++ [(⟨s.nextToi, a, toF adm.oti, false, 0⟩ : FdtAbs.FileDesc)]) ∧
    ((FdtAbs.add s a).1.nextToi ≠ s.nextToi → consumesToi cfg prio obj = true) ∧
    (consumesToi cfg prio obj = false → (FdtAbs.add s a).1.nextToi = s.nextToi) := by
  intro cfg obj
  have hxml := attrsXmlOk_link s.cfg.xmlOk cp hx a ovr
  have hlink := effectiveOti_link dflt ovr a ha
  rw [← hd] at hlink
  unfold FdtAbs.add consumesToi accepts
  simp only [cfg, hq, not_true_eq_false, ↓reduceIte, decide_eq_true_eq]
  by_cases hc : s.complete = some true
  · simp [hc]
  by_cases hm : metaOk obj = false
  · have : FdtAbs.attrsXmlOk s.cfg.xmlOk a = false := by rw [hxml]; exact hm
    simp [hc, hm, this, Refuse.afterAllocation]
  have hm' : FdtAbs.attrsXmlOk s.cfg.xmlOk a = true := by
    rw [hxml]; cases h : metaOk obj <;> simp_all
  have hobj : obj.toi = .none := rfl
  have hobj2 : obj.oti = ovr := rfl
  have hobj3 : obj.transferLength = a.transferLength := rfl
  simp only [hc, hm, hm', hobj, hobj2, hobj3, reduceCtorEq, or_self, ↓reduceIte, Bool.true_eq_false, decide_true,
    Bool.true_and]
  cases h1 : fileDescNew dflt ovr a.transferLength with
  | error w =>
    rw [h1] at hlink
    cases h2 : FdtAbs.effectiveOti s.cfg.oti a with
    | error w2 => simp
    | ok v => rw [h2] at hlink; simp [toOpt] at hlink
  | ok r =>
    rw [h1] at hlink
    cases h2 : FdtAbs.effectiveOti s.cfg.oti a with
    | error w2 => rw [h2] at hlink; simp [toOpt] at hlink
    | ok v =>
      rw [h2] at hlink
      simp only [toOpt, Option.map_some, Option.some.injEq] at hlink
      subst hlink
      cases r with
      | error why =>
        have hlate := fileDescNew_refusal_late dflt ovr a.transferLength why h1
        simp [outF, hlate]
      | ok o => simp [outF]

/-- **refused ⇒ never listed** (C01 "refused when it is added, never transmitted corrupted", FDT half): if
    the reference refuses the object, `FdtAbs.add` leaves `files` untouched; by `Props.C10.fdt_lists_exactly`
    (every instance lists exactly the tracked added-not-removed-not-finished objects) and
    `publication_lists_exactly` no FDT instance ever mentions it. -/
theorem refused_never_listed (s : FdtAbs.State) (a : FdtAbs.ObjAttrs) (h : (FdtAbs.add s a).2 = .err) :
    (FdtAbs.add s a).1.files = s.files := by
  unfold FdtAbs.add at h ⊢
  split
  · rfl
  · rename_i hne
    simp only [hne, ↓reduceIte] at h
    split <;> simp_all

/-! ## 2. `Session.refused` (agent e2e): coarser by design - no panics, no refusal reasons, no Z -/

def fecOf : Session.Scheme → Fec
  | .nocode => .noCode | .rs => .rs28 | .rsus => .rs28us | .raptorq => .raptorq | .raptor => .raptor

/-- **`Session.refused` ⇔ the reference refuses**, on the domain of e2e's model: one of its five schemes, no
    `usize` overflow in `max_transfer_length` (`hm`: the two `usize` products of `max_transfer_length` do not overflow, then both
    models compute min(cap, E*B*max_sbn); where they overflow the real code panics - `PANIC` in the correspondence -
    and e2e's model, on unbounded naturals, has no such outcome),
    scheme-specific parameters present for Raptor / RaptorQ, `aLarge` = the partition's `a_large`. -/
theorem session_refused_link (sch : Session.Scheme) (e b p tl : Nat) (sc : Option SchemeSpecific)
    (q : Partition.Quad) (hbp : Partition.blockPartitioning b tl e = .ok q)
    (hm : maxTransferLength ⟨fecOf sch, 0, b, e, p, sc⟩ = .ok (Session.maxTransferLength sch e b))
    (hsc : (sch = .raptorq ∨ sch = .raptor) → sc.isSome = true) :
    ∃ r, fileDescNew ⟨fecOf sch, 0, b, e, p, sc⟩ none tl = .ok r ∧
      (Session.refused sch e b p tl q.1 = true ↔ ∃ why, r = .error why) := by
  have hu := tooManyBlocks_unreachable ⟨fecOf sch, 0, b, e, p, sc⟩ none tl
  rw [fileDescNew_eq] at hu ⊢
  simp only [chosen, hm] at hu ⊢
  by_cases hL : tl > Session.maxTransferLength sch e b
  · simp only [hL, ↓reduceIte]
    exact ⟨_, rfl, by simp [Session.refused, hL]⟩
  simp only [hL, ↓reduceIte] at hu ⊢
  cases sch <;>
    simp only [tailA, fecOf, reduceCtorEq, or_self, or_false, or_true, false_or, false_and, true_and, ↓reduceIte, hbp,
      maxBlockSymbols, Session.refused, Session.kMax, hL, decide_false, Bool.false_or, Bool.or_false, beq_self_eq_true,
      Bool.true_and, Bool.false_and, Bool.and_false, Bool.or_self] at hu hsc ⊢
  · exact ⟨_, rfl, by simp⟩
  · by_cases hp : p = 0
    · simp only [hp, ↓reduceIte]; exact ⟨_, rfl, by simp⟩
    · by_cases hk : q.1 + p > 256
      · simp only [hp, hk, ↓reduceIte]; exact ⟨_, rfl, by simp [hp, hk]⟩
      · simp only [hp, hk, ↓reduceIte]; exact ⟨_, rfl, by simp [hp, hk]⟩
  · by_cases hp : p = 0
    · simp only [hp, ↓reduceIte]; exact ⟨_, rfl, by simp⟩
    · by_cases hk : q.1 + p > 256
      · simp only [hp, hk, ↓reduceIte]; exact ⟨_, rfl, by simp [hp, hk]⟩
      · simp only [hp, hk, ↓reduceIte]; exact ⟨_, rfl, by simp [hp, hk]⟩
  · have hs : sc.isNone = false := by cases sc <;> simp_all
    by_cases hk : q.1 > 56403
    · simp only [hk, ↓reduceIte]; exact ⟨_, rfl, by simp [hk]⟩
    · by_cases hz : q.2.2.2 > 255
      · simp [hk, hs, hz] at hu
      · simp only [hk, hs, hz, ↓reduceIte, Bool.false_eq_true]; exact ⟨_, rfl, by simp [hk]⟩
  · have hs : sc.isNone = false := by cases sc <;> simp_all
    by_cases hk : q.1 > 8192
    · simp only [hk, ↓reduceIte]; exact ⟨_, rfl, by simp [hk]⟩
    · by_cases hz : q.2.2.2 > 65535
      · simp [hk, hs, hz] at hu
      · simp only [hk, hs, hz, ↓reduceIte, Bool.false_eq_true]; exact ⟨_, rfl, by simp [hk]⟩

/-- `hm` is met wherever nothing overflows, e.g. -/
example : maxTransferLength ⟨fecOf .rs, 0, 64, 1024, 2, none⟩ = .ok (Session.maxTransferLength .rs 1024 64) := rfl

/-! ## 3. block encoder proofs (agent benc): `Accepts` / `Link.noFail` follow from admission -/

/-- An admitted Reed-Solomon object satisfies exactly the two hypotheses under which
    `BencShape.rs_accepts` / `Props.C08.accepts_discharged` prove `Accepts` (every block can be encoded):
    at least one parity symbol, `a_large + parity ≤ 256`; an admitted Raptor / RaptorQ object has
    `a_large ≤ K_max`.  With `k ≤ a_large` for every block these give `Session.blockFails = false` (the
    `noFail` field of `BencSessionBridge.Link`) for RS and RaptorQ; for Raptor they do NOT exclude blocks of 2
    or 3 symbols, which the `raptor-code` crate cannot encode: admission is deliberately silent there. -/
theorem admitted_block_limits (dflt : Oti) (ovr : Option Oti) (L : Nat) (o : Oti)
    (h : fileDescNew dflt ovr L = .ok (.ok o)) (q : Partition.Quad)
    (hq : Partition.blockPartitioning (chosen dflt ovr).maxSbl L (chosen dflt ovr).esl = .ok q) :
    (((chosen dflt ovr).fec = .rs28 ∨ (chosen dflt ovr).fec = .rs28us) →
        1 ≤ (chosen dflt ovr).parity ∧ q.1 + (chosen dflt ovr).parity ≤ 256) ∧
    (((chosen dflt ovr).fec = .raptorq ∨ (chosen dflt ovr).fec = .raptor) →
        q.1 ≤ maxBlockSymbols (chosen dflt ovr).fec ∧ (chosen dflt ovr).scheme.isSome = true) := by
  rw [fileDescNew_eq] at h
  generalize chosen dflt ovr = oti at h hq ⊢
  cases h1 : maxTransferLength oti with
  | error w => simp [h1] at h
  | ok mtl =>
    simp only [h1] at h
    by_cases hL : L > mtl
    · simp [hL] at h
    simp only [hL, ↓reduceIte] at h
    obtain ⟨fec, inst, maxSbl, esl, parity, scheme⟩ := oti
    simp only at hq
    cases fec <;>
      simp only [tailA, reduceCtorEq, or_self, or_false, or_true, false_and, true_and, ↓reduceIte,
        maxBlockSymbols, hq, false_imp_iff, true_imp_iff, and_true, true_and] at h ⊢
    all_goals (repeat' split at h) <;> (try simp_all) <;> (try omega)
    all_goals (cases scheme <;> simp_all)

/-- consequence in e2e's vocabulary: no block of an admitted RS / RaptorQ / No-Code object "fails" -/
theorem admitted_blocks_never_fail (sch : Session.Scheme) (p aLarge k : Nat) (hk1 : 1 ≤ k) (hk2 : k ≤ aLarge)
    (hrs : (sch = .rs ∨ sch = .rsus) → 1 ≤ p ∧ aLarge + p ≤ 256)
    (hrq : sch = .raptorq → aLarge ≤ 56403) (hnot : sch ≠ .raptor) :
    Session.blockFails sch k p = false := by
  cases sch <;> simp_all [Session.blockFails, Session.kMax] <;> omega

/-! ## 4. `Toi` (C15): which allocator operation an `add_object` call is -/

/-- the `Toi.Op` a call is, given the reference's answer (`k`, `h`: harness names of object / handle) -/
def toiOp (cfg : Cfg) (prio : Nat) (obj : Obj) (k h : Nat) (carousel : Bool) : Option Toi.Op :=
  match accepts cfg prio obj with
  | .error _ => none
  | .ok (.ok _) => some (if obj.toi = .none then .add k true carousel else .addWith k h true)
  | .ok (.error r) =>
    some (if r.afterAllocation then (if obj.toi = .none then .add k false carousel else .addWith k h false)
          else .addEarlyErr k)

/-- the four early refusals (unknown queue, FDT complete, XML-unsafe metadata, foreign TOI handle) are
    `Op.addEarlyErr`: nothing is allocated, the state is unchanged; every refusal of `FileDesc::new` is
    `add k false` / `addWith k h false`: an implicit TOI is allocated and released (`consumesToi`). -/
theorem toi_link (cfg : Cfg) (prio : Nat) (obj : Obj) (k h : Nat) (car : Bool) (r : Refuse)
    (hr : accepts cfg prio obj = .ok (.error r)) :
    (r.afterAllocation = false → toiOp cfg prio obj k h car = some (.addEarlyErr k) ∧
        consumesToi cfg prio obj = false ∧ ∀ s : Toi.Sys, s.step (.addEarlyErr k) = .ok (s, .err, [])) ∧
    (r.afterAllocation = true → obj.toi = .none → toiOp cfg prio obj k h car = some (.add k false car) ∧
        consumesToi cfg prio obj = true) := by
  constructor
  · intro ha
    refine ⟨by simp [toiOp, hr, ha], by simp [consumesToi, hr, ha], fun s => rfl⟩
  · intro ha ht
    exact ⟨by simp [toiOp, hr, ha, ht], by simp [consumesToi, hr, ha, ht]⟩

/-- **C01, "refused when it is added, never transmitted corrupted" - one statement.**  If the reference
    refuses (`accepts = Err`), then in the allocator model nothing stays live for the object
    (`toi_link`: `addEarlyErr` changes nothing, `add k false` releases what it allocated - `Props.C15`
    `reuse_only_after_release` / `invariant` hold over such histories), in the FDT model nothing is listed
    (`fdtabs_add_link`: `files` unchanged, hence by `Props.C10.fdt_lists_exactly` /
    `publication_lists_exactly` no instance mentions it), and the scheduler / block encoder models are
    only ever given objects of `files` (`Props.C12.only_fdt_when_empty_ever`: no object packet without an
    added object).  The refusal reasons are exactly these ten, `tooManyBlocks` being unreachable. -/
theorem refused_object_leaves_no_trace (s : FdtAbs.State) (a : FdtAbs.ObjAttrs) (cp : String → List Nat)
    (hx : ∀ str, s.cfg.xmlOk str = isXmlStr (cp str))
    (dflt : Oti) (hd : s.cfg.oti = toF dflt) (ovr : Option Oti) (ha : a.oti = ovr.map toF)
    (prio : Nat) (queues : List Nat) (hq : prio ∈ queues) (r : Refuse)
    (hr : accepts { queues := queues, complete := decide (s.complete = some true), oti := dflt } prio
            (objOf cp a ovr) = .ok (.error r)) :
    (FdtAbs.add s a).2 = .err ∧ (FdtAbs.add s a).1.files = s.files ∧ r ≠ .tooManyBlocks := by
  have h := (fdtabs_add_link s a cp hx dflt hd ovr ha prio queues hq).1
  simp only [hr] at h
  refine ⟨h.1, h.2, ?_⟩
  intro e
  subst e
  unfold accepts at hr
  simp only [hq, not_true_eq_false, ↓reduceIte] at hr
  (repeat' split at hr) <;> (try cases hr)
  rename_i h1
  exact tooManyBlocks_unreachable _ _ _ h1

end Flute.Props.C01.Admission
