/-
  The admission of an object by the sender is modelled once as a reference (`FluteModel/Admission.lean`,
  line by line from `Sender::add_object` / `Fdt::add_object` / `FileDesc::new`, tied to the code by the
  `admission` operation of engine `toi`) and, in part, by three other components.  This file relates each
  of them to the reference, on the domain it covers.
-/
import FluteModel.Admission
import FluteModel.Toi
namespace Flute.Props.C01.Admission
open Flute Flute.Admission

/-! ## 0. facts about the reference itself -/

private theorem divCeil_le_of_le_mul (a b c : Nat) (hb : 0 < b) (h : a ≤ b * c) : divCeil a b ≤ c := by
  unfold divCeil
  split
  · exact Nat.div_le_of_le_mul h
  · rename_i hm
    have hlt : a < b * c := by
      refine Nat.lt_of_le_of_ne h fun e => hm ?_
      rw [e]; exact Nat.mul_mod_right b c
    have := Nat.div_lt_of_lt_mul hlt
    omega

/-- translate both outcomes of two `Rs` computations -/
def relRs {α β : Type} (R : α → β → Prop) : Rs α → Rs β → Prop
  | .ok a, .ok b => R a b
  | .error _, .error _ => True
  | _, _ => False


/-- forget the panic message -/
def toOpt {α : Type} : Rs α → Option α
  | .ok a => some a
  | .error _ => none

/-- everything of `FileDesc::new` after the transfer-length check -/
abbrev tailA := @fileDescTail

/-- the OTI `FileDesc::new` works with -/
def chosen (dflt : Oti) (ovr : Option Oti) : Oti := match ovr with | some o => o | none => dflt

theorem _root_.Flute.Admission.fileDescNew_eq (dflt : Oti) (ovr : Option Oti) (L : Nat) :
    fileDescNew dflt ovr L =
      (if (chosen dflt ovr).fec = .rs2m then .ok (.error .notImplemented) else
       match maxTransferLength (chosen dflt ovr) with
       | .error w => .error w
       | .ok mtl => if L > mtl then .ok (.error .tooLong) else fileDescTail (chosen dflt ovr) L) := by
  cases ovr <;> rfl

/-! ### shape of the tail of `FileDesc::new` -/

private theorem rsChecks_some (oti : Oti) (L : Nat) (r : Refuse) (h : rsChecks oti L = .ok (some r)) :
    r = .rsFtiFields ∨ r = .rsBlockOver255 := by
  unfold rsChecks at h
  (repeat' split at h) <;> simp_all

private theorem rsChecks_none (oti : Oti) (L : Nat) (h : rsChecks oti L = .ok none)
    (hf : oti.fec = .rs28 ∨ oti.fec = .rs28us) :
    (oti.fec = .rs28 → oti.maxSbl + oti.parity ≤ 255) ∧
    (oti.fec = .rs28us → oti.maxSbl + oti.parity ≤ 65535) ∧
    ∃ q, Partition.blockPartitioning oti.maxSbl L oti.esl = .ok q ∧ q.1 + oti.parity ≤ 255 := by
  unfold rsChecks at h
  simp only [hf, ↓reduceIte] at h
  split at h
  · cases h
  · rename_i hfield
    split at h
    · cases h
    · rename_i hfield2
      split at h
      · cases h
      · rename_i q hq
        refine ⟨fun hf5 => ?_, fun hf129 => ?_, q, hq, ?_⟩
        · simp only [hf5, true_and] at hfield; omega
        · simp only [hf129, true_and] at hfield2; omega
        · split at h
          · cases h
          · omega

theorem fileDescTail_eq (oti : Oti) (L : Nat) :
    fileDescTail oti L =
      (if (oti.fec = .rs28 ∨ oti.fec = .rs28us) ∧ oti.parity = 0 then .ok (.error .rsNoParity) else
       match rsChecks oti L with
       | .error w => .error w
       | .ok (some r) => .ok (.error r)
       | .ok none => raptorTail oti L) := rfl

/-- every way the tail can refuse -/
private theorem tail_refusals (oti : Oti) (L : Nat) (r : Refuse) (h : fileDescTail oti L = .ok (.error r)) :
    r = .rsNoParity ∨ r = .rsFtiFields ∨ r = .rsBlockOver255 ∨
    (rsChecks oti L = .ok none ∧ raptorTail oti L = .ok (.error r) ∧
      (r = .blockOverKmax ∨ r = .raptorBlockLt4 ∨ r = .noSchemeSpecific ∨ r = .tooManyBlocks)) := by
  rw [fileDescTail_eq] at h
  split at h
  · injection h with h; injection h with h; exact .inl h.symm
  · split at h
    · cases h
    · rename_i r' hr'
      injection h with h; injection h with h; subst h
      rcases rsChecks_some oti L _ hr' with h | h
      · exact .inr (.inl h)
      · exact .inr (.inr (.inl h))
    · rename_i hnone
      refine .inr (.inr (.inr ⟨hnone, h, ?_⟩))
      unfold raptorTail at h
      split at h
      · split at h
        · cases h
        · rename_i q _
          simp only [] at h
          by_cases c1 : q.1 > maxBlockSymbols oti.fec
          · rw [if_pos c1] at h; injection h with h; injection h with h; subst h; simp
          rw [if_neg c1] at h
          by_cases c2 : oti.fec = .raptor ∧ ((q.2.2.1 > 0 ∧ (q.1 = 2 ∨ q.1 = 3)) ∨
              (q.2.2.2 > q.2.2.1 ∧ (q.2.1 = 2 ∨ q.2.1 = 3)))
          · rw [if_pos c2] at h; injection h with h; injection h with h; subst h; simp
          rw [if_neg c2] at h
          by_cases c3 : oti.scheme.isNone = true
          · rw [if_pos c3] at h; injection h with h; injection h with h; subst h; simp
          rw [if_neg c3] at h
          by_cases c4 : q.2.2.2 > (if oti.fec = .raptorq then 255 else 65535)
          · rw [if_pos c4] at h; injection h with h; injection h with h; subst h; simp
          · rw [if_neg c4] at h; injection h with h; cases h
      · simp at h

/-! ### the `u8` / `u16` conversion of Z can never fail -/

private theorem bp_nb (b l e : Nat) (q : Partition.Quad) (h : Partition.blockPartitioning b l e = .ok q) :
    q.2.2.2 = 0 ∨ (0 < b ∧ 0 < e ∧ q.2.2.2 = divCeil (divCeil l e) b) := by
  unfold Partition.blockPartitioning at h
  by_cases hb : b = 0
  · simp [hb] at h; subst h; exact .inl rfl
  by_cases he : e = 0
  · simp [hb, he] at h; subst h; exact .inl rfl
  simp only [hb, he, ↓reduceIte] at h
  by_cases hn : divCeil (divCeil l e) b = 0
  · simp [hn] at h; subst h; exact .inl rfl
  simp only [hn, ↓reduceIte] at h
  split at h
  · cases h
  · split at h
    · cases h
    · injection h with h; subst h; exact .inr ⟨by omega, by omega, rfl⟩

private theorem satMul64_le (a b : Nat) : satMul64 a b ≤ a * b := by
  unfold satMul64; split <;> omega

private theorem mtl_bound (o : Oti) (mtl : Nat) (h : maxTransferLength o = .ok mtl) :
    ∃ k, maxSourceBlocksNumber o.fec = .ok k ∧ mtl ≤ o.esl * o.maxSbl * k := by
  unfold maxTransferLength at h
  cases hk : maxSourceBlocksNumber o.fec with
  | error w => simp [hk] at h
  | ok k =>
    refine ⟨k, rfl, ?_⟩
    simp only [hk, Except.ok.injEq] at h
    have h1 := satMul64_le (satMul64 o.esl o.maxSbl) k
    have h2 := Nat.mul_le_mul_right k (satMul64_le o.esl o.maxSbl)
    subst h
    split <;> omega

/-- **Z always fits**: after the transfer-length check the number of source blocks is at most 255
    (RaptorQ) / 65535 (Raptor), so the `try_into()` of `FileDesc::new` never fails and the refusal
    "requires the transmission of N source blocks" is dead code.  (Observed: 0 of 18948 generated cases.) -/
theorem tooManyBlocks_unreachable (dflt : Oti) (ovr : Option Oti) (L : Nat) :
    fileDescNew dflt ovr L ≠ .ok (.error .tooManyBlocks) := by
  rw [fileDescNew_eq]
  generalize chosen dflt ovr = oti
  intro h
  by_cases h2m : oti.fec = .rs2m
  · simp [h2m] at h
  simp only [h2m, ↓reduceIte] at h
  cases h1 : maxTransferLength oti with
  | error w => simp [h1] at h
  | ok mtl =>
    obtain ⟨k, hk, hle⟩ := mtl_bound oti mtl h1
    simp only [h1] at h
    by_cases hL : L > mtl
    · simp [hL] at h
    simp only [hL, ↓reduceIte] at h
    have hnbk : ∀ q, Partition.blockPartitioning oti.maxSbl L oti.esl = .ok q → q.2.2.2 ≤ k := by
      intro q hq
      rcases bp_nb _ _ _ q hq with h0 | ⟨hbp, hep, hnb⟩
      · omega
      · have ht : divCeil L oti.esl ≤ oti.maxSbl * k := divCeil_le_of_le_mul L oti.esl _ hep (by
          rw [← Nat.mul_assoc]; omega)
        have := divCeil_le_of_le_mul _ oti.maxSbl _ hbp ht
        omega
    rcases tail_refusals oti L _ h with h' | h' | h' | ⟨_, hrt, _⟩
    · cases h'
    · cases h'
    · cases h'
    · unfold raptorTail at hrt
      split at hrt
      · rename_i hfec
        split at hrt
        · cases hrt
        · rename_i q hq
          have hbq := hnbk q hq
          by_cases hfq : oti.fec = .raptorq
          · have hk' : k = 255 := by simp [hfq, maxSourceBlocksNumber] at hk; omega
            simp only [hfq, ↓reduceIte] at hrt
            (repeat' split at hrt) <;> (try simp at hrt) <;> omega
          · have hfr : oti.fec = .raptor := by rcases hfec with hf | hf; exact absurd hf hfq; exact hf
            have hk' : k = 65535 := by simp [hfr, maxSourceBlocksNumber] at hk; omega
            simp only [hfr, reduceCtorEq, ↓reduceIte] at hrt
            (repeat' split at hrt) <;> (try simp at hrt) <;> omega
      · cases hrt

/-- every refusal of `FileDesc::new` comes after the TOI allocation of `Fdt::add_object` -/
theorem fileDescNew_refusal_late (dflt : Oti) (ovr : Option Oti) (L : Nat) (r : Refuse)
    (h : fileDescNew dflt ovr L = .ok (.error r)) : r.afterAllocation = true := by
  rw [fileDescNew_eq] at h
  generalize chosen dflt ovr = oti at h
  by_cases h2m : oti.fec = .rs2m
  · simp only [h2m, ↓reduceIte, Except.ok.injEq, Except.error.injEq] at h; subst h; rfl
  simp only [h2m, ↓reduceIte] at h
  cases h1 : maxTransferLength oti with
  | error w => simp [h1] at h
  | ok mtl =>
    simp only [h1] at h
    by_cases hL : L > mtl
    · simp only [hL, ↓reduceIte, Except.ok.injEq, Except.error.injEq] at h; subst h; rfl
    simp only [hL, ↓reduceIte] at h
    rcases tail_refusals oti L r h with h' | h' | h' | ⟨_, _, h' | h' | h' | h'⟩ <;> subst h' <;> rfl

/-! ## 3. block encoder proofs (agent benc): `Accepts` / `Link.noFail` follow from admission -/

/-- An admitted Reed-Solomon object satisfies exactly the two hypotheses under which
    `BencShape.rs_accepts` / `Props.C08.accepts_discharged` prove `Accepts` (every block can be encoded):
    at least one parity symbol, `a_large + parity ≤ 255` (and `B + parity ≤ 255` for FEC 5); an admitted Raptor / RaptorQ object has
    `a_large ≤ K_max`.  With `k ≤ a_large` for every block these give `Session.blockFails = false` (the
    `noFail` field of `BencSessionBridge.Link`) for RS and RaptorQ; for Raptor they do NOT exclude blocks of 2
    or 3 symbols, which the `raptor-code` crate cannot encode: admission is deliberately silent there. -/
theorem admitted_block_limits (dflt : Oti) (ovr : Option Oti) (L : Nat) (o : Oti)
    (h : fileDescNew dflt ovr L = .ok (.ok o)) (q : Partition.Quad)
    (hq : Partition.blockPartitioning (chosen dflt ovr).maxSbl L (chosen dflt ovr).esl = .ok q) :
    (((chosen dflt ovr).fec = .rs28 ∨ (chosen dflt ovr).fec = .rs28us) →
        1 ≤ (chosen dflt ovr).parity ∧ q.1 + (chosen dflt ovr).parity ≤ 255 ∧
        ((chosen dflt ovr).fec = .rs28 → (chosen dflt ovr).maxSbl + (chosen dflt ovr).parity ≤ 255)) ∧
    (((chosen dflt ovr).fec = .raptorq ∨ (chosen dflt ovr).fec = .raptor) →
        q.1 ≤ maxBlockSymbols (chosen dflt ovr).fec ∧ (chosen dflt ovr).scheme.isSome = true) := by
  rw [fileDescNew_eq] at h
  generalize chosen dflt ovr = oti at h hq ⊢
  by_cases h2m : oti.fec = .rs2m
  · simp [h2m] at h
  simp only [h2m, ↓reduceIte] at h
  cases h1 : maxTransferLength oti with
  | error w => simp [h1] at h
  | ok mtl =>
    simp only [h1] at h
    by_cases hL : L > mtl
    · simp [hL] at h
    simp only [hL, ↓reduceIte] at h
    rw [fileDescTail_eq] at h
    split at h
    · simp at h
    rename_i hpar
    cases hrs : rsChecks oti L with
    | error w => simp [hrs] at h
    | ok orr =>
      cases orr with
      | some r => simp [hrs] at h
      | none =>
        simp only [hrs] at h
        constructor
        · intro hf
          obtain ⟨hfield, _, q', hq', hsum⟩ := rsChecks_none oti L hrs hf
          rw [hq] at hq'; injection hq' with hq'; subst hq'
          have : oti.parity ≠ 0 := fun e => hpar ⟨hf, e⟩
          exact ⟨by omega, hsum, hfield⟩
        · intro hf
          unfold raptorTail at h
          simp only [hf, ↓reduceIte, hq] at h
          (repeat' split at h) <;> (try simp at h)
          all_goals exact ⟨by omega, by cases hsc : oti.scheme <;> simp_all⟩

/-- an admitted Raptor (FEC 1) object has no source block of 2 or 3 symbols (the sizes the `raptor-code` encoder
    cannot encode): neither the larger size, if some block has it, nor the smaller one -/
theorem admitted_raptor_blocks (dflt : Oti) (ovr : Option Oti) (L : Nat) (o : Oti)
    (h : fileDescNew dflt ovr L = .ok (.ok o)) (hf : (chosen dflt ovr).fec = .raptor) (q : Partition.Quad)
    (hq : Partition.blockPartitioning (chosen dflt ovr).maxSbl L (chosen dflt ovr).esl = .ok q) :
    (q.2.2.1 > 0 → q.1 ≠ 2 ∧ q.1 ≠ 3) ∧ (q.2.2.2 > q.2.2.1 → q.2.1 ≠ 2 ∧ q.2.1 ≠ 3) := by
  rw [fileDescNew_eq] at h
  generalize chosen dflt ovr = oti at h hq hf
  have h2m : ¬ oti.fec = .rs2m := by rw [hf]; simp
  simp only [h2m, ↓reduceIte] at h
  cases h1 : maxTransferLength oti with
  | error w => simp [h1] at h
  | ok mtl =>
    simp only [h1] at h
    by_cases hL : L > mtl
    · simp [hL] at h
    simp only [hL, ↓reduceIte] at h
    rw [fileDescTail_eq] at h
    have hrs : rsChecks oti L = .ok none := by simp [rsChecks, hf]
    simp only [hf, reduceCtorEq, or_self, false_and, ↓reduceIte, hrs] at h
    unfold raptorTail at h
    simp only [hf, reduceCtorEq, or_true, true_and, ↓reduceIte, hq] at h
    (repeat' split at h) <;> (try simp at h)
    all_goals (rename_i hsmall _ _; constructor <;> intro hh <;> constructor <;> intro he <;>
      exact hsmall (by simp_all))

/-- the statement before /repo d65a846 (bound 256, no field clause), kept for the proofs that use it
    (`Props.C08`); it follows from `admitted_block_limits` -/
theorem admitted_block_limits_256 (dflt : Oti) (ovr : Option Oti) (L : Nat) (o : Oti)
    (h : fileDescNew dflt ovr L = .ok (.ok o)) (q : Partition.Quad)
    (hq : Partition.blockPartitioning (chosen dflt ovr).maxSbl L (chosen dflt ovr).esl = .ok q) :
    (((chosen dflt ovr).fec = .rs28 ∨ (chosen dflt ovr).fec = .rs28us) →
        1 ≤ (chosen dflt ovr).parity ∧ q.1 + (chosen dflt ovr).parity ≤ 256) ∧
    (((chosen dflt ovr).fec = .raptorq ∨ (chosen dflt ovr).fec = .raptor) →
        q.1 ≤ maxBlockSymbols (chosen dflt ovr).fec ∧ (chosen dflt ovr).scheme.isSome = true) := by
  obtain ⟨h1, h2⟩ := admitted_block_limits dflt ovr L o h q hq
  exact ⟨fun hf => ⟨(h1 hf).1, by have := (h1 hf).2.1; omega⟩, h2⟩

/-! ## 4. `Toi` (C15): which allocator operation an `add_object` call is -/

/-- the `Toi.Op` a call is, given the reference's answer (`k`, `h`: harness names of object / handle) -/
def toiOp (cfg : Cfg) (prio : Nat) (obj : Obj) (k h : Nat) (carousel : Bool) : Option Toi.Op :=
  match accepts cfg prio obj with
  | .error _ => none
  | .ok (.ok _) => some (if obj.toi = .none then .add k true carousel else .addWith k h true)
  | .ok (.error r) =>
    some (if r.afterAllocation then (if obj.toi = .none then .add k false carousel else .addWith k h false)
          else .addEarlyErr k)

/-- the four early refusals (unknown queue, FDT complete, XML-unsafe metadata, foreign TOI handle) are
    `Op.addEarlyErr`: nothing is allocated, the state is unchanged; every refusal of `FileDesc::new` is
    `add k false` / `addWith k h false`: an implicit TOI is allocated and released (`consumesToi`). -/
theorem toi_link (cfg : Cfg) (prio : Nat) (obj : Obj) (k h : Nat) (car : Bool) (r : Refuse)
    (hr : accepts cfg prio obj = .ok (.error r)) :
    (r.afterAllocation = false → toiOp cfg prio obj k h car = some (.addEarlyErr k) ∧
        consumesToi cfg prio obj = false ∧ ∀ s : Toi.Sys, s.step (.addEarlyErr k) = .ok (s, .err, [])) ∧
    (r.afterAllocation = true → obj.toi = .none → toiOp cfg prio obj k h car = some (.add k false car) ∧
        consumesToi cfg prio obj = true) := by
  constructor
  · intro ha
    refine ⟨by simp [toiOp, hr, ha], by simp [consumesToi, hr, ha], fun s => rfl⟩
  · intro ha ht
    exact ⟨by simp [toiOp, hr, ha, ht], by simp [consumesToi, hr, ha, ht]⟩

end Flute.Props.C01.Admission
