import FluteModel.Lemmas.ObjRecvCache
import FluteModel.Lemmas.ObjRecvPanicFree
/-
  Object-level part of C17 (receiver memory bounded by configuration): the two limit checks of ObjectReceiver.
  Owner of C17 (props.d, session level): agent recv.

  Aimed at (DESIGN §5 C17): `cache_bounded` / `blocks_bounded` as invariants over ALL histories:
     Σ cached datagram bytes ≤ max_size + one datagram;   Σ allocated block bytes ≤ max_size + 2 blocks.
  Proved here: `cache_bounded` as an invariant over ALL histories (Lemmas/ObjRecvCache.lean: every model function leaves
  `(cache, cache_size)` unchanged or resets both, the replay loop only shrinks the cache and empties it); for the blocks the step
  lemmas `blocks_bounded_partial` / `blocks_over_limit_rejected` in the honest form the code supports (D31: the first two blocks
  are exempt from the limit) and `blocks_bounded` over ALL histories (bottom of the file; the induction `total_allocated_blocks_size = Σ block_size of the allocated blocks` is the `CountOK` clause of `TInv`, Lemmas/ObjRecvPanicFree.lean);
  both are validated by the `probe` observations of engine orecv (cache bytes, cache_size, nb_allocated_blocks,
  total_allocated_blocks_size of the real Receiver vs model after every datagram, families limits/mutate/random; oracle classes
  C17:cache-over-limit, C17:blocks-over-limit).  D11 (cache_size never updated) was found by that oracle and repaired (f28d140);
  the model below is the repaired code.
-/
namespace Flute.Props.C17.Obj
open Flute Flute.FecDec Flute.ObjRecv

/-- **cache_bounded, over ALL histories** of arbitrary parsed packets and FDT attachments, all environments: with `M` an upper
    bound of the datagram lengths pushed, the bytes held in the packet cache never exceed the accounted `cache_size`, and that is
    0 or below `max_size + M` - i.e. cached bytes ≤ configured size + one packet.  (A packet offered to a full cache makes
    `cache` return Err - `cache_full_rejects` - and `push` then calls `error()`: the object is abandoned and counted in error.) -/
theorem cache_bounded (P : Params) (toi maxSize M : Nat) (ops : List Op) (st' : St)
    (hops : OpsLe M ops) (h : run P (St.new toi maxSize) ops = .ok st') :
    cacheBytes st' ≤ st'.cacheSize ∧ (st'.cacheSize = 0 ∨ st'.cacheSize < maxSize + M) ∧
    (cacheBytes st' = 0 ∨ cacheBytes st' < maxSize + M) := by
  have h0 : CB M (St.new toi maxSize) := ⟨by simp [cacheBytes, St.new], .inl rfl⟩
  have := cb_run P M _ ops h0 hops h
  have hm : st'.maxSize = maxSize := this.2
  have hb := this.1.bound
  rw [hm] at hb
  refine ⟨this.1.acc, hb, ?_⟩
  have := this.1.acc
  cases hb with
  | inl z => left; omega
  | inr z => right; omega

/-- `cache(pkt)` accepts a datagram only while the accounted size is below the limit, and accounts it:
    if `cache_bytes ≤ cache_size` held before, it holds after, and the new total is below `max_size + datagram length`. -/
theorem cache_bounded_partial (st : St) (p : Pkt) (hacc : cacheBytes st ≤ st.cacheSize) :
    cacheBytes (cachePkt st p).1 ≤ (cachePkt st p).1.cacheSize ∧
    ((cachePkt st p).2 = true → (cachePkt st p).1.cacheSize < st.maxSize + p.dataLen ∧
                                 cacheBytes (cachePkt st p).1 = cacheBytes st + p.dataLen) ∧
    ((cachePkt st p).2 = false → (cachePkt st p).1 = st) := by
  unfold cachePkt
  split
  · exact ⟨hacc, by simp, by simp⟩
  · split
    · exact ⟨hacc, by simp, by simp⟩
    · rename_i h1 h2
      refine ⟨?_, fun _ => ⟨?_, ?_⟩, by simp⟩
      · simp only [cacheBytes, List.map_cons, List.sum_cons] at hacc ⊢; omega
      · simp only; omega
      · simp only [cacheBytes, List.map_cons, List.sum_cons]; omega

/-- a full cache makes the object fail: `cache` returns Err (then `push` calls `error()`, the object is counted in error) -/
theorem cache_full_rejects (st : St) (p : Pkt) (h : st.maxSize ≤ st.cacheSize) : (cachePkt st p).2 = false := by
  unfold cachePkt; simp [h]

/-- `complete()` and `error()` release the packet cache and the blocks -/
theorem terminal_releases (st : St) (i : Bool) :
    cacheBytes (complete st) = 0 ∧ (complete st).cacheSize = 0 ∧ (complete st).blocks = [] ∧
    cacheBytes (error st i) = 0 ∧ (error st i).cacheSize = 0 ∧ (error st i).blocks = [] := by
  unfold complete error cacheBytes
  cases st.writer <;> simp

/-- Block allocation limit: a further block is initialised only if fewer than two blocks are allocated or the total stays
    within `max_size`; the counters grow by exactly that block (so: total ≤ max_size + 2 blocks). -/
theorem blocks_bounded_partial (P : Params) (st : St) (o : Oti) (tl : Nat) (pid : PayloadId) (blk : Block)
    (st' : St) (b : Block) (hinit : blk.initialized = false)
    (h : allocBlock P st o tl pid blk = .ok (st', some b)) :
    ∃ len, st'.totalAlloc = st.totalAlloc + len ∧ st'.nbAlloc = st.nbAlloc + 1 ∧
           (st.nbAlloc < 2 ∨ st'.totalAlloc ≤ st.maxSize) ∧ st'.totalAlloc < U64 := by
  unfold allocBlock at h
  rw [if_neg (by simp [hinit])] at h
  dsimp only at h
  split at h
  · simp at h
  · rename_i len _
    split at h
    · simp at h
    · split at h
      · simp at h
      · split at h
        · simp at h
        · split at h
          · simp at h
          · rename_i h1 h2 _ _ _ h3
            simp at h
            obtain ⟨rfl, _⟩ := h
            refine ⟨len, rfl, rfl, ?_, ?_⟩
            · simp only
              by_cases hn : st.nbAlloc < 2
              · exact .inl hn
              · right
                have : 2 ≤ st.nbAlloc := by omega
                simp [this] at h2
                omega
            · simp only; omega

/-- a block beyond the limit is refused and the object goes to the error state -/
theorem blocks_over_limit_rejected (P : Params) (st : St) (o : Oti) (tl : Nat) (pid : PayloadId) (blk : Block)
    (st' : St) (r : Option Block) (hinit : blk.initialized = false) (hsbl : pid.sbl = some l)
    (hn : 2 ≤ st.nbAlloc) (hlt : st.totalAlloc + l * o.e < U64) (hover : st.maxSize < st.totalAlloc + l * o.e)
    (h : allocBlock P st o tl pid blk = .ok (st', r)) : r = none ∧ st'.state = .error := by
  unfold allocBlock at h
  rw [if_neg (by simp [hinit])] at h
  have hk : sblOf st pid = l := by unfold sblOf; rw [hsbl]
  simp only [hsbl, hk] at h
  rw [if_neg (by omega), if_pos ⟨hn, hover⟩] at h
  simp at h
  exact ⟨h.2.symm, by rw [← h.1]⟩

/-- **Allocated source blocks are bounded over ALL histories**: for every history of parsed packets / FDT attachments from `new`
    (input-side assumptions `Feasible` only; the run returns by `C04.Obj.run_total`) the `block_size` of all blocks of the deque sum to
    at most `max_size` + 2 blocks (a block is below 2^48 bytes: L < 2^48), and - unless a terminal call already cleared the deque -
    `total_allocated_blocks_size` / `nb_allocated_blocks` are EXACTLY that sum / the number of live blocks.  (The two exempt blocks are
    finding D31 `C17:heap-first-two-blocks`.) -/
theorem blocks_bounded (P : Params) (toi maxSize : Nat) (ops : List Op) (F : Feasible P maxSize ops) :
    ∃ st', run P (St.new toi maxSize) ops = .ok st' ∧
      wsum st'.blocks ≤ maxSize + 2 * 2^48 ∧
      (st'.state = .receiving → st'.totalAlloc = wsum st'.blocks ∧ st'.nbAlloc = wcnt st'.blocks) := by
  obtain ⟨D⟩ := F.dz
  obtain ⟨st', h, hT⟩ := tinv_run P D ops (tinv_new toi maxSize F.max) F.wf
  have hM : ∃ M, OpsLe M ops := by
    clear h hT F
    induction ops with
    | nil => exact ⟨0, fun p hp => by cases hp⟩
    | cons op r ih =>
      obtain ⟨M, hM⟩ := ih
      cases op with
      | push q =>
        refine ⟨max M q.dataLen, ?_⟩
        intro p hp
        simp only [List.mem_cons, Op.push.injEq] at hp
        rcases hp with rfl | hp
        · exact Nat.le_max_right _ _
        · exact Nat.le_trans (hM p hp) (Nat.le_max_left _ _)
      | attach id f =>
        refine ⟨M, ?_⟩
        intro p hp
        simp only [List.mem_cons, reduceCtorEq, false_or] at hp
        exact hM p hp
  obtain ⟨M, hM⟩ := hM
  have hm : st'.maxSize = maxSize :=
    (cb_run P M _ ops ⟨by simp [cacheBytes, St.new], .inl rfl⟩ hM h).2
  refine ⟨st', h, ?_, ?_⟩
  · have := hT.blocks_bounded; rw [hm] at this; exact this
  · intro hr
    cases hT.cnt with
    | inl c => exact ⟨c.sum, c.cnt⟩
    | inr d => exact absurd hr d.2.1

end Flute.Props.C17.Obj
