import FluteModel.Props.C04Whole
import FluteModel.Props.C04Multi
/-
  C04, the whole call AT THE MULTIRECEIVER: the object-fault invariant of `Props/C04Whole.lean`
  threaded through agent tsi's session table.  `multi_push_total_whole`: after ANY byte-level history
  of a `MultiReceiver` whose sessions are receivers with the full object model, for every datagram:
  the call returns, nothing panics at the demultiplexer or at the session level, AND in every session
  of the table no ObjectReceiver - of a registry or inside an FDT-instance receiver - has been frozen
  by a fault (`hasFault = false`), i.e. nothing panicked or hung at the object level either.

  Composition only: tsi's generic `multi_push_total_gen` (any machine with a `Total` contract), the
  invariant `WInv` of path's whole-call theorem, recv's `step_total` / `step_good`.
-/
namespace Flute.Props.C04.MultiWhole
open Flute Flute.Recv Flute.Recv.AllObj Flute.Recv.Whole Flute.Props.C04 Flute.Props.C04.Whole Flute.MultiRecv

variable {P : ObjRecv.Params}

/-- `WInv` is preserved by EVERY admissible call of the session model (path's `winv_step` is the case of
    a call that comes from bytes) -/
theorem winv_op (X : Interfaces P) (cfg : Config) (hc : cfg.maxCache < 2 ^ 63) (s s' : Recv.State (Full.Any P)) (op : Recv.Op)
    (r : Recv.Res) (evs : List Ev) (hop : OpOK op)
    (hpk : ∀ p now ans, op = .data (.pkt p) now ans → X.PktOK (Full.toPkt p))
    (hansq : ∀ d now ans, op = .data d now ans → ∀ fdt u, ans = .ok fdt u → FdtQ X fdt)
    (h : Recv.step (Full.iface P) s op = .ok (s', r, evs)) (hs : WInv X cfg s) : WInv X cfg s' := by
  refine ⟨step_good (Full.iface P) (Full.completeSound P) s s' _ r evs hop h hs.good, ?_, ?_, ?_,
    by rw [step_cfg (Full.iface P) s s' _ r evs h]; exact hs.cfg⟩
  · refine step_objsAll (Full.iface P) (ObjOK X) (FdtQ X) (fun o id f hq ho => attach_ok X o id f hq ho) s s' _ r evs
      (fun toi => new_ok X toi _ (by rw [hs.cfg]; exact hc)) ?_ hs.inst hansq h hs.objs
    intro p now ans hop' o ho
    exact push_ok X p (hpk p now ans hop') o ho
  · refine (step_all (Full.iface P) (InstQ (FdtQ X)) s s' _ r evs ?_ ?_ ?_ ?_ h hs.inst).1
    · intro f v hf
      unfold FdtRecv.noteFti
      split
      · intro inst hi; exact hf inst hi
      · exact hf
    · intro p now ans id _ _ inst hi; simp [FdtRecv.new] at hi
    · intro p now ans hop' _ id _ f hf
      exact push_instQ (Full.iface P) (FdtQ X) ans (hansq _ now ans hop') f p now hf
    · intro f f' hf hu inst hi
      rw [updateExpired_inst f f' _ hu] at hi; exact hf inst hi
  · refine step_fobj (Full.iface P) (ObjOK X) s s' _ r evs (new_ok X 0 _ (by decide)) ?_ h hs.fobjs
    intro p now ans hop' _ o ho
    exact push_ok X p (hpk p now ans hop') o ho

variable (P) (D : ObjRecv.DzOK P)

/-- what a call into a session is given, admissible for the whole-call invariant -/
def MEnvOK (i : REnv) : Prop :=
  TimeSane i.now ∧ i.pkt.WF ∧ ObjRecv.WfPkt (Full.toPkt i.pkt) ∧ AnsOK (interfaces P D) i.ans

/-- the session machine of the MultiReceiver, instantiated with the full object model, is total ON THE
    WHOLE-CALL INVARIANT: a call keeps `WInv` (hence: no object fault) and does not panic -/
theorem recvMachine_total_whole (cfg : Config) (hc : cfg.maxCache < 2 ^ 63) (timeout : Nat) :
    (recvMachine (Full.iface P) cfg timeout).Total (fun rs => WInv (interfaces P D) cfg rs.st) (MEnvOK P D) (fun o => o.res ≠ none) where
  init := by
    intro t k
    exact ⟨by constructor <;> (intro f hf; simp [recvMachine, State.init] at hf),
      by intro x hx; simp [recvMachine, State.init] at hx,
      by constructor <;> (intro f hf; simp [recvMachine, State.init] at hf),
      by constructor <;> (intro f hf; simp [recvMachine, State.init] at hf), rfl⟩
  push := by
    intro t s p hs henv
    obtain ⟨hn, hwf0, hpk0, hans⟩ := henv
    have hwf : ({ p.body.pkt with closeSession := p.close } : Recv.Pkt).WF := hwf0
    have hop : OpOK (.data (.pkt { p.body.pkt with closeSession := p.close }) p.body.now p.body.ans) :=
      ⟨hn, fun q hq => by injection hq with hq; subst hq; exact hwf⟩
    obtain ⟨x, hx⟩ := step_total (Full.iface P) (Full.completeSound P) s.st _ hop hs.good
    obtain ⟨s', r, evs⟩ := x
    have hw := winv_op (interfaces P D) cfg hc s.st s' _ r evs hop
      (fun q now ans hq => by
        simp only [Recv.Op.data.injEq, Parsed.pkt.injEq] at hq
        rw [← hq.1]; exact hpk0)
      (fun d now ans hq => by
        simp only [Recv.Op.data.injEq] at hq
        rw [← hq.2.2]; exact hans)
      hx hs
    have hx' : Recv.push (Full.iface P) s.st { p.body.pkt with closeSession := p.close } p.body.now p.body.ans =
        .ok (s', r, evs) := hx
    simp only [recvMachine, hx']
    exact ⟨hw, by simp⟩
  cleanup := by
    intro t i s hs henv
    have hop : OpOK (.cleanup i.now (i.stale s.key)) := henv.1
    obtain ⟨x, hx⟩ := cleanup_total (Full.iface P) s.st i.now (i.stale s.key) henv.1 hs.good
    obtain ⟨s', evs⟩ := x
    have hstep : Recv.step (Full.iface P) s.st (.cleanup i.now (i.stale s.key)) = .ok (s', .ok, evs) := by
      simp only [Recv.step, hx]
    have hw := winv_op (interfaces P D) cfg hc s.st s' _ .ok evs hop
      (fun q now ans hq => by cases hq) (fun d now ans hq => by cases hq) hstep hs
    simp only [recvMachine, hx]
    exact ⟨hw, by simp⟩
  fini := by
    intro t i s _ _
    simp [recvMachine]

/-- admissible byte-level call of the MultiReceiver: sane `now`, admissible XML-parser answer -/
def BOpOK : MultiRecv.BOp → Prop
  | .push _ _ now ans => TimeSane now ∧ AnsOK (interfaces P D) ans
  | .cleanup now _ => TimeSane now
  | .drop now => TimeSane now
  | _ => True

theorem default_env_ok (now : Int) (hn : TimeSane now) (stale : Key → Stale) : (MEnvOK P D) (envNoPkt now stale) := by
  have hdef : (default : Recv.Pkt).WF := by
    constructor <;> intro x hx <;> cases hx
  refine ⟨hn, hdef, ?_, ?_⟩
  · intro o l h; cases h
  · intro fdt u h; cases h

theorem parsed_env_ok (d : List UInt8) (p : Alc.AlcPkt) (hp : Alc.parseAlcPkt (d.map UInt8.toNat) = .ok p) (now : Int)
    (hn : TimeSane now) (ans : FdtAns) (hans : AnsOK (interfaces P D) ans) :
    (MEnvOK P D) (recvEnv now ans (d.map UInt8.toNat) p) :=
  ⟨hn, ofAlc_wf d p hp, (interfaces P D).parsed_pkt_ok d p hp, hans⟩

theorem bop_env_ok (b : MultiRecv.BOp) (h : (BOpOK P D) b) : OpEnvOK (MEnvOK P D) b.abs := by
  cases b with
  | push ep d now ans =>
    simp only [MultiRecv.BOp.abs, parsedOf]
    cases hp : Alc.parseAlcPkt (d.map UInt8.toNat) with
    | panic w => simp [OpEnvOK]
    | err => simp [OpEnvOK]
    | ok p =>
      simp only [OpEnvOK]
      exact parsed_env_ok P D d p hp now h.1 ans h.2
  | cleanup now st => exact default_env_ok P D now h st
  | drop now => exact default_env_ok P D now h _
  | _ => trivial

/-- **multi_push_total_whole.**  `MultiReceiver::push` on bytes, sessions = receivers with the full object
    model: after any admissible byte-level history, for every datagram from every endpoint the call returns,
    neither the demultiplexer nor a session-level call panics, and NO OBJECT of any session of the table -
    registry objects and FDT objects alike - has faulted (panic or hang inside `ObjectReceiver::push` /
    `attach_fdt`): the object-fault invariant holds in every session. -/
theorem multi_push_total_whole (cfg : Config) (hc : cfg.maxCache < 2 ^ 63) (timeout : Nat) (b : Bool)
    (hist : List MultiRecv.BOp) (hhist : ∀ o ∈ hist, (BOpOK P D) o) (hlen : hist.length + 1 < 2 ^ 64) (ep : Flute.Endpoint)
    (d : List UInt8) (now : Int) (hn : TimeSane now) (ans : FdtAns) (hans : AnsOK (interfaces P D) ans) :
    let M := recvMachine (Full.iface P) cfg timeout
    let s := MultiRecv.run M (MultiRecv.State.new b) (hist.map MultiRecv.BOp.abs)
    ∃ s' r, pushBytes M (recvEnv now ans) s ep (d.map UInt8.toNat) = .ok (s', r) ∧ r ≠ MultiRecv.Res.panic ∧
      (∀ o ∈ newOuts s s', o.2.res ≠ none) ∧
      (∀ e ∈ s'.table, hasFault e.2.st = false) ∧ (∀ e ∈ s.table, hasFault e.2.st = false) := by
  intro M s
  have hops : ∀ op ∈ hist.map MultiRecv.BOp.abs, OpEnvOK (MEnvOK P D) op := by
    intro op hop; obtain ⟨o, ho, rfl⟩ := List.mem_map.1 hop; exact bop_env_ok P D o (hhist o ho)
  obtain ⟨s', r, h1, h2, h3, h4⟩ := Flute.Props.C04.Multi.multi_push_total_gen M _ (MEnvOK P D) _
    (recvMachine_total_whole P D cfg hc timeout) b (hist.map MultiRecv.BOp.abs) hops (by simpa using hlen)
    (recvEnv now ans) ep d (by intro p hp; exact parsed_env_ok P D d p hp now hn ans hans)
  have hbefore : MultiRecv.TInv (fun rs : RSess (Full.Any P) => WInv (interfaces P D) cfg rs.st) (fun o : ROut => o.res ≠ none) s :=
    tinv_run M _ (MEnvOK P D) _ (recvMachine_total_whole P D cfg hc timeout) (hist.map MultiRecv.BOp.abs) _ hops
      (MultiRecv.tinv_new _ _ b)
  refine ⟨s', r, h1, h2, h3, ?_, ?_⟩
  · intro e he
    exact hasFault_false (interfaces P D) e.2.st (h4.1 e he).objs (h4.1 e he).fobjs
  · intro e he
    exact hasFault_false (interfaces P D) e.2.st (hbefore.1 e he).objs (hbefore.1 e he).fobjs


/-! ### a richer non-vacuity example (review batch 4): a reachable state WITH an object -/

/-- one real datagram of engine recv's stream: LCT header, TSI 1, TOI 10000, codepoint 0, in-band EXT_FTI
    (No-Code, E = 32, B = 8, L = 96), payload id (0, 0), 32 payload bytes -/
def exDatagram : List UInt8 := [16, 16, 7, 0, 0, 0, 0, 0, 0, 1, 39, 16, 64, 4, 0, 0, 0, 0, 0, 96, 0, 0, 0, 32, 0, 0, 0, 8, 0, 0, 0, 0, 148, 66, 139, 57, 136, 221, 153, 166, 115, 63, 203, 57, 187, 196, 251, 49, 53, 120, 187, 173, 48, 122, 140, 48, 166, 247, 19, 11, 213, 74, 56, 102]

def exCfg : Config := ⟨4, false, true, 1024, true, true⟩

/-- what the whole call makes of it from a fresh receiver (kernel evaluation of parser model, session model
    and the full object model): `Ok`, one ObjectReceiver in the registry, no fault -/
example :
    (match pushDataWhole (P := Full.params0) 1 (State.init exCfg) exDatagram 1790000000000000 .err with
     | .ok (s, r, _) => (s.objects.length, decide (r = .ok), hasFault s)
     | .error _ => (0, false, true)) = (1, true, false) := by rfl

/-- ... and that state is `Reachable`: the hypotheses of `push_data_total_closed` are met by a history
    that actually creates an object (the earlier example only reached `objects = []`) -/
example : ∃ s, Reachable (interfaces Full.params0 dzOK0) 1 exCfg s ∧ s.objects.length = 1 := by
  obtain ⟨s', r, evs, h, hr⟩ := push_data_total_closed Full.params0 dzOK0 1 exCfg (by decide) (State.init exCfg)
    Reachable.init exDatagram 1790000000000000 (by unfold TimeSane; omega) .err (by intro fdt u h; cases h)
  refine ⟨s', hr, ?_⟩
  have e : (match pushDataWhole (P := Full.params0) 1 (State.init exCfg) exDatagram 1790000000000000 .err with
     | .ok (s, _, _) => s.objects.length
     | .error _ => 0) = 1 := by rfl
  rw [h] at e
  exact e

end Flute.Props.C04.MultiWhole
