import FluteModel.Lemmas.MultiRecvFilter
import FluteModel.Lemmas.MultiRecvListeners
import FluteModel.MultiRecvRecv
/-
  C18 - multi-session demultiplexing, TSI filtering, session listener events.

  Model: `FluteModel/TsiFilter.lean` (tsifilter.rs), `FluteModel/MultiRecv.lean` (multireceiver.rs, generic in
  the per-session `Receiver` machine `M`).  Specs: `Spec/RefCount.lean` (saturating reference counts, accept rule),
  `Spec/SoloSession.lean` (one session alone; listener language `(open close)* open?`).
  All theorems quantify over ALL histories (lists of operations), all machines `M`, all keys.
-/
namespace Flute.Props.C18
open Flute Flute.TsiFilter Flute.MultiRecv Flute.Spec Flute.Spec.RefCount Flute.Spec.Solo

/-! ## 1. The filter refines the reference counts -/

/-- For every history of add/remove/bypass operations (shorter than 2^64, the range of the `u64` counters) the
    filter code never panics and `is_valid ep tsi` holds iff the endpoint is accepted for all TSIs, or
    `(ep, tsi)` has a positive saturating reference count, or `(ep with the source address cleared, tsi)` has. -/
theorem filter_refines_counts (ops : List FOp) (hlen : ops.length < 2 ^ 64) :
    ∃ f, TsiFilter.run Filter.new ops = .ok f ∧
      ∀ ep tsi, (isValid f ep tsi = true ↔ accepted ops ep tsi) := by
  obtain ⟨f, hf, hrep⟩ := run_frep ops Filter.new (fun _ => 0) (fun _ => 0) frep_new
    (by intro x; omega) (by intro x; omega)
  refine ⟨f, hf, ?_⟩
  intro ep tsi
  exact isValid_frep f _ _ hrep ep tsi

/-- The bound is sharp and is the code's, not the proof's: the 2^64-th `add` of the same target overflows the
    `u64` counter (`*a += 1`), which panics in the profile the tests run in. -/
theorem filter_counter_overflow (ep : Endpoint) (tsi : Nat) :
    TsiFilter.run Filter.new (List.replicate (2 ^ 64 - 1 + 1) (FOp.add ep tsi)) = .error "add overflow" :=
  run_replicate_add_overflow (2 ^ 64 - 1) rfl ep tsi

/-- non-vacuity + the wildcard rule on a concrete history: a listen entry WITHOUT source accepts packets from any
    source; a listen entry WITH source does not accept packets that carry no or another source; removing what was
    never added is a no-op -/
example :
    let e : Endpoint := ⟨none, 1, 5000⟩
    let es : Endpoint := ⟨some 7, 1, 5000⟩
    let et : Endpoint := ⟨some 8, 1, 5000⟩
    (∃ f, TsiFilter.run Filter.new [.remove es 1, .add e 1, .add es 2, .addAll et, .add e 1, .remove e 1] = .ok f ∧
      isValid f es 1 = true ∧ isValid f e 1 = true ∧ isValid f es 2 = true ∧ isValid f e 2 = false ∧
      isValid f et 2 = true ∧ isValid f et 9 = true ∧ isValid f ⟨some 8, 2, 5000⟩ 1 = false) := by
  exact ⟨_, rfl, by decide⟩

/-- The wildcard is one-directional (derived from the code, stated on the spec): an entry with a source address
    never accepts a packet without source address. -/
theorem wildcard_one_directional :
    ¬ accepted [.add ⟨some 7, 1, 5000⟩ 1] ⟨none, 1, 5000⟩ 1 ∧ accepted [.add ⟨none, 1, 5000⟩ 1] ⟨some 7, 1, 5000⟩ 1 := by
  constructor
  · simp [accepted, cnt, cntFrom, tsiOps, bypassOps, RefCount.step, Endpoint.noSrc]
  · simp [accepted, cnt, cntFrom, tsiOps, bypassOps, RefCount.step, Endpoint.noSrc]

/-- "Added more often than removed" read LITERALLY (number of adds > number of removes) is not what the code (nor
    the saturating spec) does: after `remove k; add k` the packet is accepted although adds = removes.  The
    API documents `remove` of an absent entry as a no-op, so the saturating reading is the specification. -/
theorem literal_reading_differs :
    ∃ (ops : List FOp) (ep : Endpoint) (tsi : Nat) (f : Filter),
      TsiFilter.run Filter.new ops = .ok f ∧ isValid f ep tsi = true ∧
      ¬ (adds (tsiOps ops) (ep, tsi) > removes (tsiOps ops) (ep, tsi)) ∧
      adds (tsiOps ops) (ep.noSrc, tsi) = removes (tsiOps ops) (ep.noSrc, tsi) ∧ adds (bypassOps ops) ep = 0 :=
  ⟨[.remove ⟨none, 1, 5000⟩ 1, .add ⟨none, 1, 5000⟩ 1], ⟨none, 1, 5000⟩, 1, _, rfl, by decide, by decide, by decide, by decide⟩

/-- ... and the two readings coincide on every history that never removes what is not there. -/
theorem saturating_eq_literal {κ : Type} [DecidableEq κ] (ops : List (RefCount.Op κ)) (c : κ → Nat) (k : κ)
    (hd : Disciplined c ops) : cntFrom c ops k + removes ops k = c k + adds ops k := by
  induction ops generalizing c with
  | nil => simp [cntFrom, removes, adds]
  | cons op r ih =>
    cases op with
    | add x =>
      have := ih (RefCount.step c (.add x)) hd
      simp only [cntFrom, removes, adds, List.filter_cons] at this ⊢
      by_cases hx : x = k
      · subst hx; simp [RefCount.step] at this ⊢; omega
      · have hx' : ¬ k = x := fun h => hx h.symm
        simp [RefCount.step, hx, hx'] at this ⊢; omega
    | remove x =>
      obtain ⟨hpos, hd⟩ := hd
      have := ih (RefCount.step c (.remove x)) hd
      simp only [cntFrom, removes, adds, List.filter_cons] at this ⊢
      by_cases hx : x = k
      · subst hx; simp [RefCount.step] at this ⊢; omega
      · have hx' : ¬ k = x := fun h => hx h.symm
        simp [RefCount.step, hx, hx'] at this ⊢; omega

example : Disciplined (fun _ => 0) [RefCount.Op.add 1, .add 1, .remove 1, .add 2, .remove 1] := by
  simp [Disciplined, RefCount.step]

/-- The property's filter clause END TO END on the receiver model: after ANY receiver history (pushes, cleanups,
    ticks, filter operations, in any order) a parsable packet pushed with filtering enabled is skipped iff it is
    NOT accepted by the reference-count rule applied to the history's listen operations; otherwise it reaches
    its session (or, for a close-session packet without session, is ignored). -/
theorem processed_iff_accepted {σ π Out : Type} (M : Machine σ π Out) (ops : List (MultiRecv.Op π))
    (hlen : ops.length < 2 ^ 64) (b : Bool) (ep : Endpoint) (pkt : Pkt π) :
    let s := MultiRecv.run M (State.new b) ops
    ((MultiRecv.push M s ep (some pkt)).2 = Res.skipped ↔ (s.filtering = true ∧ ¬ accepted (fops ops) ep pkt.tsi)) := by
  intro s
  have hl := fops_length_le ops
  have hrun : TsiFilter.run Filter.new (fops ops) = .ok s.filter :=
    run_filter M ops (State.new b) (fun _ => 0) (fun _ => 0) frep_new (by intro x; omega) (by intro x; omega)
  obtain ⟨f, hf, hacc⟩ := filter_refines_counts (fops ops) (by omega)
  rw [hrun] at hf
  have hfe : s.filter = f := by injection hf
  have hacc' := hacc ep pkt.tsi
  rw [← hfe] at hacc'
  simp only [MultiRecv.push]
  by_cases hv : isValid s.filter ep pkt.tsi = true
  · have : accepted (fops ops) ep pkt.tsi := hacc'.1 hv
    simp only [hv, Bool.not_true, Bool.and_false, Bool.false_eq_true, ↓reduceIte]
    constructor
    · intro h
      exfalso
      split at h
      · split at h <;> simp at h
      · split at h <;> simp at h
    · intro h; exact absurd this h.2
  · have hv' : isValid s.filter ep pkt.tsi = false := by simpa using hv
    have hna : ¬ accepted (fops ops) ep pkt.tsi := fun h => hv (hacc'.2 h)
    cases hfl : s.filtering
    · simp only [Bool.false_and, Bool.false_eq_true, ↓reduceIte, false_and, iff_false]
      intro h
      split at h
      · split at h <;> simp at h
      · split at h <;> simp at h
    · simp [hv', hna]

example : (3 : Nat) < 2 ^ 64 := by decide

/-! ## 2. Demultiplexing: isolation of sessions -/

/-- GENERIC KEYED FOLD, instantiated: for every session machine, every history and every key `k`, the session
    stored under `k`, the listener events about `k` and the receiver outputs filed under `k` are exactly those of
    ONE session alone fed `k`'s own sub-sequence (`trace`: its accepted packets, the cleanups, the drop). -/
theorem demux_solo {σ π Out : Type} (M : Machine σ π Out) (b : Bool) (ops : List (MultiRecv.Op π)) (k : Key) :
    localOf k (MultiRecv.run M (State.new b) ops) = solo M k Local.fresh (trace k ⟨Filter.new, b, 0⟩ ops) :=
  localOf_run M ops (State.new b) k (by simp [State.new, AL.keys])

/-- Interleaving never changes what a session does: deleting from ANY history all packets of other keys (and all
    unparsable datagrams) leaves the state, the listener events and the outputs at `k` unchanged. -/
theorem demux_isolation {σ π Out : Type} (M : Machine σ π Out) (b : Bool) (ops : List (MultiRecv.Op π)) (k : Key) :
    localOf k (MultiRecv.run M (State.new b) ops)
      = localOf k (MultiRecv.run M (State.new b) (ops.filter (fun op => !foreign k op))) := by
  rw [demux_solo, demux_solo, trace_filter_foreign]

/-- more generally any two histories in which `k` sees the same sub-sequence agree at `k` -/
theorem demux_same_trace {σ π Out : Type} (M : Machine σ π Out) (b b' : Bool) (ops ops' : List (MultiRecv.Op π)) (k : Key)
    (h : trace k ⟨Filter.new, b, 0⟩ ops = trace k ⟨Filter.new, b', 0⟩ ops') :
    localOf k (MultiRecv.run M (State.new b) ops) = localOf k (MultiRecv.run M (State.new b') ops') := by
  rw [demux_solo, demux_solo, h]

private def exK1 : Key := ⟨⟨none, 1, 5000⟩, 7⟩
private def exK2 : Key := ⟨⟨none, 2, 5000⟩, 7⟩
/-- environment input of the driver's machine: the number of writer callbacks the call makes, per key -/
private def exEnv : List (Key × Nat) := [(exK1, 2), (exK2, 1)]
private def exD : Pkt (List (Key × Nat)) := ⟨7, false, exEnv⟩
private def exC : Pkt (List (Key × Nat)) := ⟨7, true, exEnv⟩
private def exOps : List (MultiRecv.Op (List (Key × Nat))) :=
  [.push exK1.ep (some exD), .push exK2.ep (some exD), .push exK2.ep (some exD), .push exK1.ep (some exD), .push exK2.ep (some exD)]

/-- non-vacuity: two sessions with EQUAL TSI on distinct endpoints, interleaved; the session of the first key ends
    with exactly its own two packets counted, whatever the other one received -/
example :
    (localOf exK1 (MultiRecv.run (actMachine none) (State.new false) exOps)).sess.map (·.n) = some 2
      ∧ (localOf exK2 (MultiRecv.run (actMachine none) (State.new false) exOps)).sess.map (·.n) = some 3
      ∧ (exOps.filter (fun op => !foreign exK1 op)).length = 2 := by
  decide

/-! ## 3. Callbacks carry the session's own key -/

/-- For every session machine that forwards the endpoint / TSI it was constructed with (`Machine.Lawful`: the contract
    of `Receiver`, proved for the receiver model in `recvMachine_lawful`), in every reachable state: the receiver
    stored under `k` holds `k`, and EVERY writer callback of EVERY logged output - outputs of `push`, of `cleanup`, and
    of the destruction of a receiver at a close-session packet, at expiry and at drop - carries the key of the table
    entry that produced it. -/
theorem callbacks_carry_key {σ π Out : Type} (M : Machine σ π Out) (keyOf : σ → Key) (hl : M.Lawful keyOf)
    (b : Bool) (ops : List (MultiRecv.Op π)) :
    let s := MultiRecv.run M (State.new b) ops
    (∀ k st, AL.get s.table k = some st → keyOf st = k) ∧ (∀ o ∈ s.outs, ∀ k' ∈ M.keys o.2, k' = o.1) :=
  keyInv_run M keyOf hl ops (State.new b) (by simp [State.new, AL.keys]) (keyInv_new M keyOf b)

/-- ... and the outputs caused by pushing a packet are filed under exactly that packet's (endpoint, TSI), so (by
    the previous theorem applied to the state after the push) every callback the packet causes carries it. -/
theorem push_callbacks_carry_packet_key {σ π Out : Type} (M : Machine σ π Out) (keyOf : σ → Key) (hl : M.Lawful keyOf)
    (b : Bool) (ops : List (MultiRecv.Op π)) (ep : Endpoint) (pkt : Pkt π) :
    let s := MultiRecv.run M (State.new b) ops
    ∀ o ∈ newOuts s (MultiRecv.push M s ep (some pkt)).1, o.1 = ⟨ep, pkt.tsi⟩ ∧ ∀ k' ∈ M.keys o.2, k' = ⟨ep, pkt.tsi⟩ := by
  intro s o ho
  have hall := (callbacks_carry_key M keyOf hl b (ops ++ [.push ep (some pkt)])).2
  simp only [MultiRecv.run_append, MultiRecv.run, MultiRecv.step] at hall
  have hmem : o ∈ (MultiRecv.push M s ep (some pkt)).1.outs := by
    simp only [newOuts] at ho; exact List.mem_of_mem_drop ho
  have hfile : o.1 = ⟨ep, pkt.tsi⟩ := by
    simp only [newOuts, MultiRecv.push] at ho
    split at ho
    · simp at ho
    · split at ho
      · split at ho
        · simp only [List.drop_left', List.mem_cons, List.not_mem_nil, or_false] at ho
          rcases ho with ho | ho <;> (subst ho; rfl)
        · simp at ho
      · split at ho
        · simp only [List.drop_left', List.mem_singleton] at ho
          subst ho; rfl
        · simp only [List.drop_left', List.mem_singleton] at ho
          subst ho; rfl
  exact ⟨hfile, fun k' hk' => by rw [← hfile]; exact hall o hmem k' hk'⟩

/-- The logs the theorems speak about are what the driver prints: both logs are append-only and `newEvents` /
    `newOuts` (printed after each operation) are exactly the entries the operation appended. -/
theorem driver_prints_what_was_logged {σ π Out : Type} (M : Machine σ π Out) (s : State σ Out) (op : MultiRecv.Op π) :
    ∃ evs os, (MultiRecv.step M s op).1.events = s.events ++ evs ∧ (MultiRecv.step M s op).1.outs = s.outs ++ os ∧
      newEvents s (MultiRecv.step M s op).1 = evs ∧ newOuts s (MultiRecv.step M s op).1 = os :=
  step_logs_append M s op

/-! ### instantiated with the session-level receiver model `Flute.Recv` (receiver.rs), for every object machine `I` -/

/-- isolation is a statement about the modelled `Receiver`: state of the receiver (registries, FDT instances, objects),
    its writer callbacks incl. those made when it is destroyed, and the listener events at `k` do not depend on the
    packets of other sessions -/
theorem demux_isolation_recv {τ : Type} (I : Recv.ObjIface τ) (cfg : Recv.Config) (timeout : Nat) (b : Bool)
    (ops : List (MultiRecv.Op REnv)) (k : Key) :
    localOf k (MultiRecv.run (recvMachine I cfg timeout) (State.new b) ops)
      = localOf k (MultiRecv.run (recvMachine I cfg timeout) (State.new b) (ops.filter (fun op => !foreign k op))) :=
  demux_isolation (recvMachine I cfg timeout) b ops k

/-- every writer callback of the modelled receivers carries the (endpoint, TSI) of the session that made it -/
theorem callbacks_carry_key_recv {τ : Type} (I : Recv.ObjIface τ) (cfg : Recv.Config) (timeout : Nat) (b : Bool)
    (ops : List (MultiRecv.Op REnv)) :
    ∀ o ∈ (MultiRecv.run (recvMachine I cfg timeout) (State.new b) ops).outs, ∀ c ∈ o.2.calls, c.1 = o.1 := by
  intro o ho c hc
  exact (callbacks_carry_key (recvMachine I cfg timeout) RSess.key (recvMachine_lawful I cfg timeout) b ops).2 o ho c.1
    (by simp only [recvMachine]; exact List.mem_map_of_mem hc)

/-! ## 4. Listener events -/

/-- For every machine, history and key: the listener events about `k` form `(open close)* open?` - never a close
    without an open, never a second open without a close in between - and an open is pending exactly when `k`
    is in the session table. -/
theorem listener_alternation {σ π Out : Type} (M : Machine σ π Out) (b : Bool) (ops : List (MultiRecv.Op π)) (k : Key) :
    let s := MultiRecv.run M (State.new b) ops
    alt k s.events = some (AL.get s.table k).isSome := by
  intro s
  have h := demux_solo M b ops k
  have h2 := alt_solo M k (trace k ⟨Filter.new, b, 0⟩ ops) Local.fresh (by simp [Local.fresh, altFrom])
  rw [← h] at h2
  exact h2

/-- the same statement spelled out as a shape: the kinds (open = true) of the events about `k` are
    `(true false)^n`, followed by one more `true` iff `k` is in the table -/
theorem listener_shape {σ π Out : Type} (M : Machine σ π Out) (b : Bool) (ops : List (MultiRecv.Op π)) (k : Key) :
    let s := MultiRecv.run M (State.new b) ops
    ∃ n, kinds (s.events.filter (fun e => decide (e.key = k))) = ocPairs n ++ (if (AL.get s.table k).isSome then [true] else []) := by
  intro s
  have h := listener_alternation M b ops k
  obtain ⟨n, hn⟩ := altFrom_shape _ false _ h
  exact ⟨n, by simpa using hn⟩

/-- After the receiver is dropped every open has been closed, for every key. -/
theorem listener_all_closed_after_drop {σ π Out : Type} (M : Machine σ π Out) (b : Bool) (ops : List (MultiRecv.Op π)) (k : Key) :
    ∀ i, alt k (MultiRecv.run M (State.new b) (ops ++ [.drop i])).events = some false := by
  intro i
  have h := listener_alternation M b (ops ++ [.drop i]) k
  simp only at h
  rw [h, MultiRecv.run_append]
  simp [MultiRecv.run, MultiRecv.step, MultiRecv.drop]

/-- Every session end, on the model the driver runs: whenever an operation makes key `k` leave the session table
    (a close-session packet, an expiry at cleanup, the drop - there is no other way), it appends exactly one event
    about `k`, `closed k`, and the last output it files under `k` is the destruction of that receiver (`fini`: the
    `writer.error` callbacks of the objects still open). -/
theorem session_end_is_notified {σ π Out : Type} (M : Machine σ π Out) (b : Bool) (ops : List (MultiRecv.Op π))
    (op : MultiRecv.Op π) (k : Key) :
    let s := MultiRecv.run M (State.new b) ops
    let s' := (MultiRecv.step M s op).1
    (AL.get s.table k).isSome = true → (AL.get s'.table k).isSome = false →
      (localOf k s').events = (localOf k s).events ++ [.closed k] ∧
      ∃ pre t i st, (localOf k s').outs = (localOf k s).outs ++ pre ++ [(k, M.fini t i st)] := by
  intro s s' h1 h2
  have hn := nodup_run M ops (State.new b) (by simp [State.new, AL.keys])
  have hstep := localOf_step M s op k hn
  have hs1 : (localOf k s).sess.isSome = true := h1
  have hs2 : (localOf k s').sess.isSome = false := h2
  cases hv : view s.ctl op k with
  | none => rw [hv] at hstep; simp only at hstep; rw [hstep] at hs2; simp [hs1] at hs2
  | some ko =>
    rw [hv] at hstep; simp only at hstep
    cases hsess : (localOf k s).sess with
    | none => simp [hsess] at hs1
    | some st =>
      cases ko with
      | data t p => rw [hstep] at hs2; simp [localStep, hsess] at hs2
      | close t p =>
        rw [hstep]
        simp only [localStep, hsess]
        exact ⟨trivial, [(k, (M.push t st p).2)], t, p.body, (M.push t st p).1, by simp⟩
      | cleanup t i =>
        rw [hstep] at hs2 ⊢
        cases he : M.expired t st
        · simp [localStep, hsess, he] at hs2
        · simp only [localStep, hsess, he, ↓reduceIte]
          exact ⟨trivial, [], t, i, st, by simp⟩
      | drop t i =>
        rw [hstep]
        simp only [localStep, hsess]
        exact ⟨trivial, [], t, i, st, by simp⟩

/-- ... and every session creation: whenever an operation makes `k` enter the table it appends exactly one event about
    `k`, `opened k`. -/
theorem session_creation_is_notified {σ π Out : Type} (M : Machine σ π Out) (b : Bool) (ops : List (MultiRecv.Op π))
    (op : MultiRecv.Op π) (k : Key) :
    let s := MultiRecv.run M (State.new b) ops
    let s' := (MultiRecv.step M s op).1
    (AL.get s.table k).isSome = false → (AL.get s'.table k).isSome = true →
      (localOf k s').events = (localOf k s).events ++ [.opened k] := by
  intro s s' h1 h2
  have hn := nodup_run M ops (State.new b) (by simp [State.new, AL.keys])
  have hstep := localOf_step M s op k hn
  have hs1 : (localOf k s).sess.isSome = false := h1
  have hs2 : (localOf k s').sess.isSome = true := h2
  have hsess : (localOf k s).sess = none := by simpa using hs1
  cases hv : view s.ctl op k with
  | none => rw [hv] at hstep; simp only at hstep; rw [hstep] at hs2; simp [hs1] at hs2
  | some ko =>
    rw [hv] at hstep; simp only at hstep
    cases ko with
    | data t p => rw [hstep]; simp [localStep, hsess]
    | close t p => rw [hstep] at hs2; simp [localStep, hsess] at hs2
    | cleanup t i => rw [hstep] at hs2; simp [localStep, hsess] at hs2
    | drop t i => rw [hstep] at hs2; simp [localStep, hsess] at hs2

/-- The Close Session flag may sit on ANY packet of the session (RFC 5651), including data and FDT packets: such a
    packet is first handed to its session's receiver exactly like any other packet (same instant, same state, the
    whole packet - its output is logged), and only then the session ends: the receiver is destroyed (its output is
    logged) and exactly one `closed` is fired.  A close-flagged packet for a key WITHOUT session has no effect at all
    (`Res.noSession`): no session is created for it, so no `open`, no `close` and no delivery - consistent with
    "exactly one close per session end, never a close without an open". -/
theorem close_flagged_packet_is_processed_then_session_ends {σ π Out : Type} (M : Machine σ π Out) (s : State σ Out)
    (ep : Endpoint) (pkt : Pkt π) (st : σ)
    (hacc : (s.filtering && !(isValid s.filter ep pkt.tsi)) = false) (hc : pkt.close = true)
    (hg : AL.get s.table ⟨ep, pkt.tsi⟩ = some st) :
    let s' := (MultiRecv.push M s ep (some pkt)).1
    s'.outs = s.outs ++ [(⟨ep, pkt.tsi⟩, (M.push s.clock st pkt).2),
                         (⟨ep, pkt.tsi⟩, M.fini s.clock pkt.body (M.push s.clock st pkt).1)] ∧
    s'.events = s.events ++ [.closed ⟨ep, pkt.tsi⟩] ∧ AL.get s'.table ⟨ep, pkt.tsi⟩ = none := by
  simp [MultiRecv.push, hacc, hc, hg, AL.get_del]

theorem close_flagged_packet_without_session_is_ignored {σ π Out : Type} (M : Machine σ π Out) (s : State σ Out)
    (ep : Endpoint) (pkt : Pkt π) (hc : pkt.close = true) (hg : AL.get s.table ⟨ep, pkt.tsi⟩ = none) :
    (MultiRecv.push M s ep (some pkt)).1 = s := by
  simp only [MultiRecv.push]
  split
  · rfl
  · simp [hg]

/-- ... so for every session machine whose writer callbacks do not depend on the flag, the flagged packet delivers
    exactly what the same packet without the flag delivers.  (For the real `Receiver` the flag is recorded in
    `closed_is_imminent`, which nothing reads, and changes the RESULT of a TOI-0 packet without EXT_FDT from `Err` to
    `Ok`; the callbacks are unaffected - validated by the harness' reference runs, hence `cb` projects the callbacks
    out of an output.) -/
theorem close_flag_keeps_payload {σ π Out C : Type} (M : Machine σ π Out) (cb : Out → C) (s : State σ Out)
    (ep : Endpoint) (pkt : Pkt π) (st : σ)
    (hneutral : ∀ t st (p : Pkt π), cb (M.push t st { p with close := true }).2 = cb (M.push t st { p with close := false }).2)
    (hacc : (s.filtering && !(isValid s.filter ep pkt.tsi)) = false)
    (hg : AL.get s.table ⟨ep, pkt.tsi⟩ = some st) :
    ((newOuts s (MultiRecv.push M s ep (some { pkt with close := true })).1).head?.map (fun o => (o.1, cb o.2)))
      = ((newOuts s (MultiRecv.push M s ep (some { pkt with close := false })).1).head?.map (fun o => (o.1, cb o.2))) := by
  simp [MultiRecv.push, newOuts, hacc, hg, hneutral]

private def exLis : List (MultiRecv.Op (List (Key × Nat))) :=
  [.push exK1.ep (some exD), .tick 2, .cleanup exEnv, .push exK1.ep (some exD), .push exK1.ep (some exC),
   .push exK1.ep (some exC), .push exK1.ep (some exD), .drop exEnv]

/-- non-vacuity: open, expiry at cleanup, re-open by the next packet, close-session packet (a second one is
    ignored), open again, drop -/
example :
    (MultiRecv.run (actMachine (some 1)) (State.new false) exLis).events =
      [.opened exK1, .closed exK1, .opened exK1, .closed exK1, .opened exK1, .closed exK1]
    -- and the callback keys logged: 2 per call (annotation), incl. the three destructions
    ∧ ((MultiRecv.run (actMachine (some 1)) (State.new false) exLis).outs.map (fun o => o.2.length))
        = [2, 2, 2, 0, 2, 2, 2] := by
  decide

/-- WHICH listener sees what: after any history (including `add_listener` / `remove_listener` at any point) every
    registered listener has been told exactly the global event log from its registration on, and every removed
    listener was told a contiguous segment of it - no listener misses or gets an extra event while registered. -/
theorem listener_sees_segment {σ π Out : Type} (M : Machine σ π Out) (b : Bool) (ops : List (MultiRecv.Op π)) :
    let s := MultiRecv.run M (State.new b) ops
    (∀ x ∈ s.listeners, ∃ n, n ≤ s.events.length ∧ x.2 = s.events.drop n) ∧
    (∀ x ∈ s.retired, ∃ n m, n + m ≤ s.events.length ∧ x.2 = (s.events.drop n).take m) :=
  linv_run M ops (State.new b) (linv_new b)

/-- The step-wise form (rules out a model that would tell a listener only a late suffix): every operation other than
    `add_listener` / `remove_listener` appends one batch of events to the log and tells EXACTLY that batch to EVERY
    registered listener; `add_listener` registers an empty log under the next id and `remove_listener` only removes
    an entry - neither fires an event nor touches another listener's log. -/
theorem listeners_told_each_batch {σ π Out : Type} (M : Machine σ π Out) (s : State σ Out) (op : MultiRecv.Op π) :
    (∃ evs, (MultiRecv.step M s op).1.events = s.events ++ evs ∧
        (MultiRecv.step M s op).1.listeners = s.listeners.map (fun e => (e.1, e.2 ++ evs))) ∨
    (op = .addListener ∧ (MultiRecv.step M s op).1.events = s.events ∧
        (MultiRecv.step M s op).1.listeners = AL.set s.listeners s.listenersId []) ∨
    (∃ id, op = .removeListener id ∧ (MultiRecv.step M s op).1.events = s.events ∧
        (MultiRecv.step M s op).1.listeners = AL.del s.listeners id) := by
  rcases step_shape M s op with ⟨evs, he, hl, _, _⟩ | h | ⟨id, h⟩
  · exact Or.inl ⟨evs, he, hl⟩
  · subst h; exact Or.inr (Or.inl ⟨rfl, rfl, rfl⟩)
  · subst h; exact Or.inr (Or.inr ⟨id, rfl, rfl, rfl⟩)

/-- "Per listener registered throughout": a listener added before anything else (it gets id 0) and never removed
    has been told the complete log, so `listener_alternation`, `listener_shape` and
    `listener_all_closed_after_drop` are statements about what THAT listener saw. -/
theorem listener_registered_throughout {σ π Out : Type} (M : Machine σ π Out) (b : Bool) (ops : List (MultiRecv.Op π))
    (hops : ∀ op ∈ ops, op ≠ MultiRecv.Op.removeListener 0) :
    let s := MultiRecv.run M (State.new b) (.addListener :: ops)
    AL.get s.listeners 0 = some s.events :=
  (fromStart_run M ops _ (by simp [FromStart, MultiRecv.step, State.new, AL.set, AL.get]) hops).1

/-- non-vacuity: a second listener registered after the first session opened and removed before the drop sees the
    segment in between - a close without an open (the session it never saw opening), which is why the property is
    stated per listener registered throughout -/
example :
    let s := MultiRecv.run (actMachine none) (State.new false)
      [.addListener, .push exK1.ep (some exD), .addListener, .push exK2.ep (some exD), .push exK1.ep (some exC),
       .removeListener 1, .drop exEnv]
    AL.get s.listeners 0 = some [.opened exK1, .opened exK2, .closed exK1, .closed exK2]
      ∧ s.retired = [(1, [.opened exK2, .closed exK1])] := by
  decide

/-! ## 5. The defect found while proving `listener_alternation` (repaired in /repo, commit 69827fb)

  Before the fix `cleanup` evaluated `is_expired()` twice per session (collect keys to notify, then
  `retain(|_, v| !v.is_expired())`).  `is_expired` reads the clock; a session whose time-out elapses between the
  two evaluations was removed from the table without `on_session_closed`, and - being gone from the table - was not
  closed at drop either.  Witness on the pre-fix model (`PreFix.cleanup`, second evaluation `dt = 1` later): -/
private def preS0 : State Act (List Key) :=
  MultiRecv.run (actMachine (some 1)) (State.new false) [.push exK1.ep (some exD), .tick 1]
private def preS1 : State Act (List Key) := PreFix.cleanup (actMachine (some 1)) preS0 exEnv 1

theorem prefix_cleanup_breaks_alternation :
    -- the session is gone, its open is still pending, and even dropping the receiver does not close it
    (AL.get preS1.table exK1).isSome = false ∧ alt exK1 preS1.events = some true
      ∧ alt exK1 (MultiRecv.drop (actMachine (some 1)) preS1 exEnv).events = some true := by
  decide

/-- with `dt = 0` (both evaluations at the same instant) the pre-fix code and the repaired code coincide -/
theorem prefix_cleanup_eq_of_no_delay {σ π Out : Type} (M : Machine σ π Out) (s : State σ Out) (now : π) :
    PreFix.cleanup M s now 0 = MultiRecv.cleanup M s now := by
  simp [PreFix.cleanup, MultiRecv.cleanup]

end Flute.Props.C18
