import FluteModel.Lemmas.PathMap
import FluteModel.Spec.WriterProto
/-
  C05 — the filesystem object writer never creates, truncates, writes or deletes anything outside the destination
  directory it was built with, for EVERY Content-Location string and EVERY answer of `url::Url::parse`.

  Model: FluteModel/PathMap.lean (`open` = the code as it is now, `openV0` = the code before the repair of D9).
  Only property theorems, the negation witness and non-vacuity examples here; helpers are in Lemmas/PathMap.lean.
-/
namespace Flute.Props.C05
open Flute Flute.PathMap Flute.Lemmas.PathMap

/-- **C05, full strength.**  For every filesystem state `fs`, working directory, destination string `dest` accepted by
    `ObjectWriterFSBuilder::new`, every Content-Location `loc` and EVERY answer `ans` of the URL parser, with
    `d = resolve dest` (POSIX lexical resolution):
    * whatever `open` changes in the filesystem lies strictly below `d`, and every directory it creates does;
    * if `open` succeeds, the file it created/truncated is the lexical resolution of the destination path it stored,
      lies strictly below `d`, and `error` / `interrupted` remove exactly that file and touch nothing else
      (`complete` removes nothing);
    * if the location cannot be mapped (parser error other than the two relative-URL ones, empty path, or any
      component that is not a plain name: root, `.`, `..`) `open` fails and the filesystem is untouched. -/
theorem fs_confined (fs : FS) (cwd : RPath) (dest loc : Str) (ans : UrlAns)
    (hb : builderNew fs cwd dest = true) :
    let d := resolve cwd dest
    let o := PathMap.open fs cwd dest loc ans
    (∀ q, o.fs q ≠ fs q → Under d q) ∧ (∀ p ∈ o.dirs, Under d p) ∧
    (∀ dst f fresh, o.opened = some (dst, f, fresh) →
        f = resolve cwd dst ∧ Under d f ∧
        ∀ oc : Outcome,
          (finish o.fs cwd o oc).2 = (if oc = .complete then [] else [Effect.remove f]) ∧
          (∀ q, (finish o.fs cwd o oc).1 q ≠ o.fs q → q = f)) ∧
    (mapLoc loc ans = none → o.opened = none ∧ o.dirs = [] ∧ o.fs = fs) := by
  intro d o
  obtain ⟨hdne, hw⟩ := builder_dest fs cwd dest hb
  cases hm : mapLoc loc ans with
  | none =>
    have ho : o = ⟨fs, [], none⟩ := by simp only [o, PathMap.open, hm]
    rw [ho]
    refine ⟨?_, ?_, ?_, ?_⟩
    · intro q h; exact absurd rfl h
    · intro p hp; cases hp
    · intro _ _ _ h; cases h
    · intro _; exact ⟨rfl, rfl, rfl⟩
  | some rel =>
    have ho : o = openAt fs cwd dest rel := by simp only [o, PathMap.open, hm]
    have hrel : relOk rel = true := by
      unfold mapLoc at hm
      split at hm
      · cases hm
      · split at hm
        · injection hm with hm; rw [← hm]; assumption
        · cases hm
    have spec := openAt_conf fs cwd dest rel d hw hdne hrel
    rw [← ho] at spec
    refine ⟨spec.ext.1, spec.dirs, ?_, by intro h; cases h⟩
    intro dst f fresh hop
    obtain ⟨hdst, hu, hf, hfile, hlp⟩ := spec.opened dst f fresh hop
    refine ⟨?_, hu, ?_⟩
    · rw [hf, hdst, resolve, components_join dest rel hdne hrel, resolveC_append]
      rfl
    · intro oc
      cases oc with
      | complete => exact ⟨rfl, fun q h => absurd rfl h⟩
      | error =>
        simp only [finish, hop, unlink, hlp, hfile]
        refine ⟨by simp, ?_⟩
        intro q hq
        by_cases hqf : q = f
        · exact hqf
        · simp [FS.set, hqf] at hq
      | interrupted =>
        simp only [finish, hop, unlink, hlp, hfile]
        refine ⟨by simp, ?_⟩
        intro q hq
        by_cases hqf : q = f
        · exact hqf
        · simp [FS.set, hqf] at hq


/-- **C05 for the whole life of a writer** as the receiver drives it (`new_object_writer`, `open`, on failure `error`,
    `write`, then `complete` | `error` | `interrupted`): every filesystem effect (directory created, file created,
    file truncated, file removed) is on a path strictly below `resolve dest`, the final filesystem differs from the
    initial one only strictly below it, and an unmappable location gives a failed object with no effect at all. -/
theorem run_confined (fs : FS) (cwd : RPath) (dest loc : Str) (ans : UrlAns) (oc : Outcome)
    (hb : builderNew fs cwd dest = true) :
    let d := resolve cwd dest
    let r := run false fs cwd dest loc ans oc
    (∀ e ∈ r.2.1 ++ r.2.2.1, Under d e.path) ∧
    (∀ q, r.2.2.2 q ≠ fs q → Under d q) ∧
    (mapLoc loc ans = none → r = (false, [], [], fs)) := by
  intro d r
  obtain ⟨h1, h2, h3, h4⟩ := fs_confined fs cwd dest loc ans hb
  have hr : r = run false fs cwd dest loc ans oc := rfl
  unfold run at hr
  simp only [Bool.false_eq_true, if_false] at hr
  cases hop : (PathMap.open fs cwd dest loc ans).opened with
  | none =>
    simp only [hop] at hr
    rw [hr]
    refine ⟨?_, h1, ?_⟩
    · intro e he
      simp only [openEffects, hop, List.append_nil, List.mem_map] at he
      obtain ⟨p, hp, hpe⟩ := he
      rw [← hpe]; exact h2 p hp
    · intro hm
      obtain ⟨_, hd, hf⟩ := h4 hm
      simp [openEffects, hop, hd, hf]
  | some v =>
    obtain ⟨dst, f, fresh⟩ := v
    obtain ⟨_, hu, hfin⟩ := h3 dst f fresh hop
    obtain ⟨hfe, hfq⟩ := hfin oc
    simp only [hop] at hr
    rw [hr]
    refine ⟨?_, ?_, ?_⟩
    · intro e he
      simp only [List.mem_append] at he
      rcases he with he | he
      · simp only [openEffects, hop, List.mem_append, List.mem_map, List.mem_singleton] at he
        rcases he with ⟨p, hp, hpe⟩ | he
        · rw [← hpe]; exact h2 p hp
        · rw [he]; cases fresh <;> exact hu
      · rw [hfe] at he
        cases oc <;> simp at he <;> (rw [he]; exact hu)
    · intro q hq
      by_cases hqo : (PathMap.open fs cwd dest loc ans).fs q = fs q
      · have : q = f := hfq q (by rw [hqo]; exact hq)
        rw [this]; exact hu
      · exact h1 q hqo
    · intro hm
      have := (h4 hm).1
      rw [hop] at this; cases this

/-- **A failed `open` never creates, truncates or removes a file** - the honest form of "otherwise nothing is touched":
    `create_dir_all(parent)` runs before `File::create`, so when the latter fails (the name is an existing directory, the
    path ends in '/', a parent is a file ...) directories may already have been made.  Every difference between the
    filesystems is then a NEW DIRECTORY strictly below `resolve dest`; no existing entry is altered. -/
theorem failed_open_only_new_directories (fs : FS) (cwd : RPath) (dest loc : Str) (ans : UrlAns)
    (hb : builderNew fs cwd dest = true)
    (hfail : (PathMap.open fs cwd dest loc ans).opened = none) :
    ∀ q, (PathMap.open fs cwd dest loc ans).fs q ≠ fs q →
      Under (resolve cwd dest) q ∧ fs q = none ∧ (PathMap.open fs cwd dest loc ans).fs q = some .dir := by
  obtain ⟨hdne, hw⟩ := builder_dest fs cwd dest hb
  cases hm : mapLoc loc ans with
  | none => intro q hq; simp [PathMap.open, hm] at hq
  | some rel =>
    have hrel : relOk rel = true := by
      unfold mapLoc at hm
      split at hm
      · cases hm
      · split at hm
        · injection hm with hm; rw [← hm]; assumption
        · cases hm
    simp only [PathMap.open, hm] at hfail ⊢
    exact ((openAt_conf fs cwd dest rel _ hw hdne hrel).failed hfail).1

/-- **Re-opening is idempotent.**  A later object with the same Content-Location ("existing files will be
    overwritten"): after a successful `open`, opening the same location again in the resulting filesystem creates no
    directory, truncates the very same file and changes nothing else. -/
theorem reopen_idempotent (fs : FS) (cwd : RPath) (dest loc : Str) (ans : UrlAns)
    (hb : builderNew fs cwd dest = true) (dst : Str) (f : RPath) (fresh : Bool)
    (hop : (PathMap.open fs cwd dest loc ans).opened = some (dst, f, fresh)) :
    PathMap.open (PathMap.open fs cwd dest loc ans).fs cwd dest loc ans =
      ⟨(PathMap.open fs cwd dest loc ans).fs, [], some (dst, f, false)⟩ := by
  obtain ⟨hdne, hw⟩ := builder_dest fs cwd dest hb
  have hcne : components dest ≠ [] := by
    intro h; unfold builderNew isDirC at hb; simp [h] at hb
  cases hm : mapLoc loc ans with
  | none => simp [PathMap.open, hm] at hop
  | some rel =>
    have hrel : relOk rel = true := by
      unfold mapLoc at hm
      split at hm
      · cases hm
      · split at hm
        · injection hm with hm; rw [← hm]; assumption
        · cases hm
    simp only [PathMap.open, hm] at hop ⊢
    exact openAt_again fs cwd dest rel _ hw hdne hcne hrel dst f fresh hop

/-- **The repair changes nothing for accepted locations**: whenever the location is mappable, `open` behaves exactly
    as the code before the repair did (same filesystem, same directories, same file). -/
theorem accepted_unchanged (fs : FS) (cwd : RPath) (dest loc : Str) (ans : UrlAns)
    (h : mapLoc loc ans ≠ none) :
    PathMap.open fs cwd dest loc ans = openV0 fs cwd dest loc ans := by
  unfold PathMap.open openV0
  unfold mapLoc at h ⊢
  cases hc : contentLocationPath loc ans with
  | none => simp [hc] at h
  | some clp =>
    simp only [hc] at h ⊢
    by_cases hr : relOk (stripSlash clp) = true
    · simp [hr]
    · simp [hr] at h

/-- **Every plain file name is accepted**, whatever its bytes (percent signs, backslashes, non-ASCII ... are not
    interpreted): a URL path `/<name>` (e.g. `file:///hello`) or a bare relative reference `<name>` with a non-empty
    name other than `.` and `..` and without '/' maps to `<name>`. -/
theorem plain_name_accepted (name : Str) (h47 : 47 ∉ name) (hne : name ≠ []) (hd : name ≠ [46])
    (hdd : name ≠ [46, 46]) (loc : Str) :
    mapLoc loc (.ok (47 :: name)) = some name ∧ mapLoc name .relativeUrlWithoutBase = some name := by
  have hs : stripSlash name = name := by
    cases name with
    | nil => rfl
    | cons c r =>
      have : c ≠ 47 := fun hc => h47 (by simp [hc])
      simp [stripSlash, this]
  have hrel : relOk name = true := by
    have hroot : hasRoot name = false := by
      cases name with
      | nil => rfl
      | cons c r =>
        have : c ≠ 47 := fun hc => h47 (by simp [hc])
        simp [hasRoot, this]
    unfold relOk components
    simp [hroot, splitSlash_noslash name h47, hd, parseSingle, hne, hdd, Comp.isNormal]
  constructor
  · simp [mapLoc, contentLocationPath, stripSlash, hrel]
  · simp [mapLoc, contentLocationPath, hs, hrel]

/-- **Legitimate locations still work** (`file:///hello` and friends, for every name and every filesystem): with a
    URL path `/<name>` - `name` non-empty, not `.`/`..`, without '/' - `open` succeeds unless `<dest>/<name>` is an
    existing directory, creates no directory, and creates (or truncates, if it existed) exactly
    `resolve(dest)/<name>`, bytes of the name taken literally. -/
theorem plain_name_opens (fs : FS) (cwd : RPath) (dest loc name : Str)
    (hb : builderNew fs cwd dest = true)
    (h47 : 47 ∉ name) (hne : name ≠ []) (hd : name ≠ [46]) (hdd : name ≠ [46, 46])
    (hnd : fs (resolve cwd dest ++ [name]) ≠ some .dir) :
    (PathMap.open fs cwd dest loc (.ok (47 :: name))).dirs = [] ∧
    (PathMap.open fs cwd dest loc (.ok (47 :: name))).opened =
      some (join dest name, resolve cwd dest ++ [name], (fs (resolve cwd dest ++ [name])).isNone) := by
  obtain ⟨hdne, hw⟩ := builder_dest fs cwd dest hb
  have hcne : components dest ≠ [] := by
    intro h; unfold builderNew isDirC at hb; simp [h] at hb
  have hm := (plain_name_accepted name h47 hne hd hdd loc).1
  simp only [PathMap.open, hm]
  exact openAt_plain_name fs cwd dest name _ hw hdne hcne h47 hne hd hdd hnd

/-! ### histories: many objects, many writers, calls in any order -/

/-- **C05 over histories.**  One builder (`dest` accepted by `ObjectWriterFSBuilder::new` in the initial filesystem),
    ANY number of object writers obtained from it (any Content-Locations, any parser answers - colliding, nested,
    unmappable), and ANY sequence of calls `open` / `write` / `complete` / `error` / `interrupted` on them, in any
    order and interleaving - protocol-conforming or not (`open; open`, `complete; error`, `error` on a writer that was
    never opened or whose `open` failed, calls after a terminal call, ...).  Then
    * every path effect of the whole history (directory created, file created, truncated, removed) is strictly below
      `resolve dest`;
    * the final filesystem differs from the initial one only strictly below `resolve dest`;
    * `dest` is still accepted by the builder's check afterwards (so the statement composes with itself). -/
theorem history_confined (fs0 : FS) (cwd : RPath) (dest : Str) (hb : builderNew fs0 cwd dest = true)
    (ops : List HOp) :
    (∀ e ∈ (hrun cwd dest ⟨fs0, []⟩ ops).2, Under (resolve cwd dest) e.path) ∧
    (∀ q, (hrun cwd dest ⟨fs0, []⟩ ops).1.fs q ≠ fs0 q → Under (resolve cwd dest) q) ∧
    builderNew (hrun cwd dest ⟨fs0, []⟩ ops).1.fs cwd dest = true := by
  obtain ⟨hdne, hw⟩ := builder_dest fs0 cwd dest hb
  have hcne : components dest ≠ [] := by
    intro h; unfold builderNew isDirC at hb; simp [h] at hb
  have hi : SysInv cwd dest (resolve cwd dest) ⟨fs0, []⟩ := ⟨hw, by intro w h; cases h⟩
  obtain ⟨⟨g1, _⟩, g2, g3⟩ := hrun_conf cwd dest _ hdne ops _ hi
  exact ⟨g3, g2, isDirC_of_walk _ cwd _ _ hcne g1⟩

/-- **The writer's own state.**  In ANY filesystem: `error` / `interrupted` on a writer whose `inner.destination` is
    `None` - never opened (Drop of an Idle object), `open` failed, already completed (`complete; error`), already
    errored (`error; error`) - has no effect at all; `complete` and `write` never have a path effect; and both
    `complete` and `error` leave `inner.destination = None`. -/
theorem calls_without_destination_do_nothing (fs : FS) (cwd : RPath) (dest : Str) (w : Writer) :
    (w.destination = none →
      callWriter fs cwd dest w .error = (fs, w, [], true) ∧
      callWriter fs cwd dest w .interrupted = (fs, w, [], true)) ∧
    (callWriter fs cwd dest w .complete).1 = fs ∧ (callWriter fs cwd dest w .complete).2.2.1 = [] ∧
    (callWriter fs cwd dest w .write) = (fs, w, [], true) ∧
    (callWriter fs cwd dest w .complete).2.1.destination = none ∧
    (callWriter fs cwd dest w .error).2.1.destination = none ∧
    (callWriter fs cwd dest w .interrupted).2.1.destination = none := by
  refine ⟨?_, rfl, rfl, rfl, rfl, ?_, ?_⟩
  · intro h
    constructor <;> simp [callWriter, h]
  · simp only [callWriter]
    cases hd : w.destination with
    | none => exact hd
    | some dst => simp only []; cases unlink fs cwd dst <;> rfl
  · simp only [callWriter]
    cases hd : w.destination with
    | none => exact hd
    | some dst => simp only []; cases unlink fs cwd dst <;> rfl

/-- **What `error` removes, whenever it is called**: in any later filesystem in which `dest` is still the directory it
    was (other writers may have created and removed entries in between), the only path `error` / `interrupted` can
    remove is the lexical resolution of the destination this same writer stored at its last successful `open`. -/
theorem error_removes_only_own_destination (fs : FS) (cwd : RPath) (dest : Str) (w : Writer)
    (hb : builderNew fs cwd dest = true) (rel : Str) (hrel : relOk rel = true)
    (hd : w.destination = some (join dest rel)) (g : RPath) (c : Call) (hc : c = .error ∨ c = .interrupted)
    (hg : Effect.remove g ∈ (callWriter fs cwd dest w c).2.2.1) :
    g = resolve cwd (join dest rel) ∧ Under (resolve cwd dest) g ∧ (callWriter fs cwd dest w c).2.2.1 = [.remove g] := by
  obtain ⟨hdne, hw⟩ := builder_dest fs cwd dest hb
  have hcw : callWriter fs cwd dest w c =
      (match unlink fs cwd (join dest rel) with
        | .ok (fs', g) => (fs', { w with destination := none }, [.remove g], true)
        | .error _ => (fs, { w with destination := none }, [], true)) := by
    rcases hc with h | h <;> subst h <;> simp only [callWriter, hd] <;>
      (cases unlink fs cwd (join dest rel) <;> rfl)
  rw [hcw] at hg ⊢
  cases hu : unlink fs cwd (join dest rel) with
  | error e => simp [hu] at hg
  | ok v =>
    obtain ⟨fs', g'⟩ := v
    simp only [hu, List.mem_singleton, Effect.remove.injEq] at hg ⊢
    subst hg
    obtain ⟨hug, hres, _, _⟩ := unlink_conf fs cwd dest rel _ hw hdne hrel fs' g hu
    refine ⟨?_, hug, rfl⟩
    rw [hres]
    show resolveC (resolve cwd dest) (components rel) = resolveC cwd (components (join dest rel))
    rw [components_join dest rel hdne hrel, resolveC_append]
    rfl

/-! ### composition with the object-writer protocol of C09 (Spec/WriterProto.lean) -/

open Flute.Spec.WriterProto in
/-- the protocol event of a call and its result -/
def evOf : Call → Bool → Ev
  | .open, true => .openOk
  | .open, false => .openErr
  | .write, ok => .write ok
  | .complete, _ => .complete
  | .error, _ => .error
  | .interrupted, _ => .interrupted

/-- one writer driven through a list of calls (the filesystem threaded through): final filesystem, final writer,
    all effects, and the protocol trace -/
def wrun (cwd : RPath) (dest : Str) : FS → Writer → List Call → FS × Writer × List Effect × List Flute.Spec.WriterProto.Ev
  | fs, w, [] => (fs, w, [], [])
  | fs, w, c :: rest =>
    let r := callWriter fs cwd dest w c
    let r' := wrun cwd dest r.1 r.2.1 rest
    (r'.1, r'.2.1, r.2.2.1 ++ r'.2.2.1, evOf c r.2.2.2 :: r'.2.2.2)

/-- how many removals a writer in protocol state `s` may still perform -/
def budget : Flute.Spec.WriterProto.PState → Nat
  | .idle => 1
  | .opened => 1
  | _ => 0

def removals (es : List Effect) : Nat := (es.filter fun e => match e with | .remove _ => true | _ => false).length

open Flute.Spec.WriterProto in
/-- **With the call sequences the receiver can issue (C09: every writer trace is a word of the protocol
    `open (write)* (complete | error | interrupted)` / `open-failed error`)** a writer removes AT MOST ONE path in its
    whole life - by `history_confined` / `error_removes_only_own_destination` the file its one successful `open`
    created - and a writer whose trace is closed (`Done`) or that never opened holds no destination any more, so a
    later `Drop` cannot remove anything.  (Protocol-violating orders are covered by `history_confined`.) -/
theorem protocol_trace_removes_at_most_one (fs : FS) (cwd : RPath) (dest : Str) (w : Writer)
    (hw0 : w.destination = none) (calls : List Call) (st : PState)
    (hacc : Spec.WriterProto.run .idle (wrun cwd dest fs w calls).2.2.2 = some st) :
    removals (wrun cwd dest fs w calls).2.2.1 ≤ 1 ∧
    (st ≠ .opened → (wrun cwd dest fs w calls).2.1.destination = none) := by
  -- generalised over the protocol state: R relates it to `inner.destination`
  have key : ∀ (calls : List Call) (fs : FS) (w : Writer) (s st : PState),
      (s = .opened ↔ w.destination ≠ none) →
      Spec.WriterProto.run s (wrun cwd dest fs w calls).2.2.2 = some st →
      removals (wrun cwd dest fs w calls).2.2.1 ≤ budget s ∧
      (st = .opened ↔ (wrun cwd dest fs w calls).2.1.destination ≠ none) := by
    intro calls
    induction calls with
    | nil =>
      intro fs w s st hR h
      simp only [wrun, Spec.WriterProto.run, Option.some.injEq] at h
      subst h
      exact ⟨by simp [wrun, removals], by simpa [wrun] using hR⟩
    | cons c rest ih =>
      intro fs w s st hR h
      simp only [wrun, Spec.WriterProto.run] at h ⊢
      cases hs : step s (evOf c (callWriter fs cwd dest w c).2.2.2) with
      | none => simp [hs] at h
      | some s1 =>
        simp only [hs] at h
        -- one step: new relation, removals of this call
        have hstep : (s1 = .opened ↔ (callWriter fs cwd dest w c).2.1.destination ≠ none) ∧
            removals (callWriter fs cwd dest w c).2.2.1 + budget s1 ≤ budget s := by
          cases c with
          | write =>
            have : s = .opened ∧ s1 = .opened := by
              cases s <;> simp_all [step, evOf, callWriter]
            obtain ⟨h1, h2⟩ := this
            subst h1; subst h2
            exact ⟨by simpa [callWriter] using hR, by simp [callWriter, removals, budget]⟩
          | complete =>
            have : s = .opened ∧ s1 = .done := by
              cases s <;> simp_all [step, evOf, callWriter]
            obtain ⟨h1, h2⟩ := this
            subst h1; subst h2
            exact ⟨by simp [callWriter], by simp [callWriter, removals, budget]⟩
          | «open» =>
            -- accepted only from Idle, where destination = none
            have hsi : s = .idle := by
              cases s <;> cases hb : (callWriter fs cwd dest w .open).2.2.2 <;> simp_all [step, evOf]
            subst hsi
            have hwd : w.destination = none := by
              cases hd : w.destination with
              | none => rfl
              | some x => exact absurd (hR.mpr (by simp [hd])) (by decide)
            simp only [callWriter] at hs ⊢
            cases hop : (PathMap.open fs cwd dest w.loc w.ans).opened with
            | none =>
              simp only [hop, evOf, step, Option.some.injEq] at hs ⊢
              subst hs
              refine ⟨by simp [hwd], ?_⟩
              have : removals ((PathMap.open fs cwd dest w.loc w.ans).dirs.map Effect.mkdir) = 0 := by
                simp [removals, List.filter_map]
              simp [openEffects, hop, this, budget]
            | some v =>
              obtain ⟨dst, f, fresh⟩ := v
              simp only [hop, evOf, step, Option.some.injEq] at hs ⊢
              subst hs
              refine ⟨by simp, ?_⟩
              have h1 : removals ((PathMap.open fs cwd dest w.loc w.ans).dirs.map Effect.mkdir) = 0 := by
                simp [removals, List.filter_map]
              have h2 : removals (openEffects (PathMap.open fs cwd dest w.loc w.ans)) = 0 := by
                simp only [openEffects, hop]
                unfold removals at h1 ⊢
                rw [List.filter_append, List.length_append, h1]
                cases fresh <;> rfl
              rw [h2]; simp [budget]
          | error =>
            have hs1 : s1 = .done ∧ (s = .opened ∨ s = .failed) := by
              cases s <;> simp_all [step, evOf]
            obtain ⟨h1, h2⟩ := hs1
            subst h1
            refine ⟨by
              have := (calls_without_destination_do_nothing fs cwd dest w).2.2.2.2.2.1
              simp [this], ?_⟩
            rcases h2 with h2 | h2
            · subst h2
              simp only [callWriter]
              cases w.destination with
              | none => simp [removals, budget]
              | some dst => simp only []; cases unlink fs cwd dst <;> simp [removals, budget]
            · subst h2
              have hwd : w.destination = none := by
                cases hd : w.destination with
                | none => rfl
                | some x => exact absurd (hR.mpr (by simp [hd])) (by decide)
              simp [callWriter, hwd, removals, budget]
          | interrupted =>
            have hs1 : s1 = .done ∧ s = .opened := by
              cases s <;> simp_all [step, evOf]
            obtain ⟨h1, h2⟩ := hs1
            subst h1; subst h2
            refine ⟨by
              have := (calls_without_destination_do_nothing fs cwd dest w).2.2.2.2.2.2
              simp [this], ?_⟩
            simp only [callWriter]
            cases w.destination with
            | none => simp [removals, budget]
            | some dst => simp only []; cases unlink fs cwd dst <;> simp [removals, budget]
        obtain ⟨hR1, hcount⟩ := hstep
        obtain ⟨ih1, ih2⟩ := ih _ _ s1 st hR1 h
        refine ⟨?_, ih2⟩
        have : removals ((callWriter fs cwd dest w c).2.2.1 ++
            (wrun cwd dest (callWriter fs cwd dest w c).1 (callWriter fs cwd dest w c).2.1 rest).2.2.1) =
            removals (callWriter fs cwd dest w c).2.2.1 +
            removals (wrun cwd dest (callWriter fs cwd dest w c).1 (callWriter fs cwd dest w c).2.1 rest).2.2.1 := by
          simp [removals, List.filter_append]
        rw [this]
        omega
  obtain ⟨h1, h2⟩ := key calls fs w .idle st (by simp [hw0]) hacc
  refine ⟨by simpa [budget] using h1, ?_⟩
  intro hne
  cases hd : (wrun cwd dest fs w calls).2.1.destination with
  | none => rfl
  | some x => exact absurd (h2.mpr (by simp [hd])) hne

/-! ### the defect (D9) on the code before the repair -/

/-- a tiny filesystem: `/`, `/s`, `/s/dest` are directories -/
def wfs : FS := fun q =>
  if q = [] ∨ q = [[115]] ∨ q = [[115], [100, 101, 115, 116]] then some .dir else none

/-- `/s/dest` -/
def wdest : Str := [47, 115, 47, 100, 101, 115, 116]

/-- **Negation witness for the code before the repair (commit ca7fbd1 and earlier).**  With `dest = /s/dest`:
    * `a:../x` (the `url` crate answers `Ok`, path `../x`) creates `/s/x`;
    * `//abs`  (RelativeUrlWithoutBase; one '/' stripped, `join` with an absolute operand replaces `dest`) creates `/abs`;
    * `../x`   (RelativeUrlWithoutBase) creates `/s/x`;
    none of which lies below `/s/dest`.  Replayed on the real writer: replays/C05-path-D9-witness.json. -/
theorem fs_confined_false_before_repair :
    builderNew wfs [] wdest = true ∧
    ((openV0 wfs [] wdest [97, 58, 46, 46, 47, 120] (.ok [46, 46, 47, 120])).opened.map (·.2.1)
        = some [[115], [120]]) ∧
    ((openV0 wfs [] wdest [47, 47, 97, 98, 115] .relativeUrlWithoutBase).opened.map (·.2.1)
        = some [[97, 98, 115]]) ∧
    ((openV0 wfs [] wdest [46, 46, 47, 120] .relativeUrlWithoutBase).opened.map (·.2.1)
        = some [[115], [120]]) ∧
    ¬ Under (resolve [] wdest) [[115], [120]] ∧ ¬ Under (resolve [] wdest) [[97, 98, 115]] := by
  refine ⟨by decide, by decide, by decide, by decide, ?_, ?_⟩
  · rintro ⟨l, _, h⟩
    have hd : resolve [] wdest = [[115], [100, 101, 115, 116]] := by decide
    rw [hd] at h
    simp at h
  · rintro ⟨l, _, h⟩
    have hd : resolve [] wdest = [[115], [100, 101, 115, 116]] := by decide
    rw [hd] at h
    simp at h

/-- the same three locations on the code as it is now: rejected, nothing touched -/
theorem witness_locations_rejected_now :
    mapLoc [97, 58, 46, 46, 47, 120] (.ok [46, 46, 47, 120]) = none ∧
    mapLoc [47, 47, 97, 98, 115] .relativeUrlWithoutBase = none ∧
    mapLoc [46, 46, 47, 120] .relativeUrlWithoutBase = none := by decide

/-! ### non-vacuity -/

/-- the hypothesis of `fs_confined` is met and `open` does succeed: `file:///hello` (url path `/hello`) with
    `dest = /s/dest` creates `/s/dest/hello` -/
example : builderNew wfs [] wdest = true ∧
    (PathMap.open wfs [] wdest [102, 105, 108, 101, 58, 47, 47, 47, 104, 101, 108, 108, 111]
        (.ok [47, 104, 101, 108, 108, 111])).opened
      = some (wdest ++ [47, 104, 101, 108, 108, 111], [[115], [100, 101, 115, 116], [104, 101, 108, 108, 111]], true) := by
  decide

/-- `http://h/a/b.txt` : creates the directory `/s/dest/a` and the file `/s/dest/a/b.txt` -/
example :
    (PathMap.open wfs [] wdest [] (.ok [47, 97, 47, 98, 46, 116, 120, 116])).dirs = [[[115], [100, 101, 115, 116], [97]]] ∧
    ((PathMap.open wfs [] wdest [] (.ok [47, 97, 47, 98, 46, 116, 120, 116])).opened.map (·.2.1))
      = some [[115], [100, 101, 115, 116], [97], [98, 46, 116, 120, 116]] := by
  decide

/-- a failed `open` that nevertheless created a directory (hypothesis of `failed_open_only_new_directories` met
    non-trivially): URL path `/a/b/` - `create_dir_all(dest/a)` succeeds, `File::create("dest/a/b/")` fails -/
example :
    (PathMap.open wfs [] wdest [] (.ok [47, 97, 47, 98, 47])).opened = none ∧
    (PathMap.open wfs [] wdest [] (.ok [47, 97, 47, 98, 47])).dirs = [[[115], [100, 101, 115, 116], [97]]] := by
  decide

/-- re-opening (hypothesis of `reopen_idempotent`): the second `open` of `/hello` truncates the same file -/
example :
    (PathMap.open (PathMap.open wfs [] wdest [] (.ok [47, 104, 101, 108, 108, 111])).fs [] wdest []
        (.ok [47, 104, 101, 108, 108, 111])).opened.map (·.2)
      = some ([[115], [100, 101, 115, 116], [104, 101, 108, 108, 111]], false) := by
  decide

/-- non-vacuity of `history_confined` / a history the protocol forbids: object A at `x`, object B at `x/y`;
    A opens (creates `/s/dest/x`), B's open fails (`x` is a file), A completes, A errors (removes nothing),
    B errors (removes nothing), A opens again and is interrupted (removes `/s/dest/x`) -/
example :
    (hrun [] wdest ⟨wfs, []⟩
      [.new [] (.ok [47, 120]), .new [] (.ok [47, 120, 47, 121]), .call 0 .open, .call 1 .open, .call 0 .complete,
       .call 0 .error, .call 1 .error, .call 0 .open, .call 0 .interrupted]).2
      = [.create [[115], [100, 101, 115, 116], [120]], .truncate [[115], [100, 101, 115, 116], [120]],
         .remove [[115], [100, 101, 115, 116], [120]]] := by
  decide

/-- `mapLoc` is not constantly `none`, and not constantly `some` -/
example : mapLoc [] (.ok [47, 104]) = some [104] ∧ mapLoc [] (.ok [47]) = none ∧ mapLoc [] .other = none := by decide

end Flute.Props.C05
