import FluteModel.Lemmas.PathMap
/-
  C05 — the filesystem object writer never creates, truncates, writes or deletes anything outside the destination
  directory it was built with, for EVERY Content-Location string and EVERY answer of `url::Url::parse`.

  Model: FluteModel/PathMap.lean (`open` = the code as it is now, `openV0` = the code before the repair of D9).
  Only property theorems, the negation witness and non-vacuity examples here; helpers are in Lemmas/PathMap.lean.
-/
namespace Flute.Props.C05
open Flute Flute.PathMap Flute.Lemmas.PathMap

/-- the builder's own check (`dest.is_dir()`): the kernel resolves `dest`, to its lexical resolution -/
theorem builder_dest (fs : FS) (cwd : RPath) (dest : Str) (hb : builderNew fs cwd dest = true) :
    dest ≠ [] ∧ walk fs cwd (components dest) = .ok (resolve cwd dest) := by
  unfold builderNew isDirC at hb
  have hne : dest ≠ [] := by
    intro h; subst h; simp [components_nil] at hb
  refine ⟨hne, ?_⟩
  cases hc : components dest with
  | nil => simp [hc] at hb
  | cons c r =>
    simp only [hc] at hb
    cases hw : walk fs cwd (c :: r) with
    | error e => simp [hw] at hb
    | ok p =>
      have := walk_eq_resolveC fs _ _ _ hw
      rw [this, resolve, hc]

/-- **C05, full strength.**  For every filesystem state `fs`, working directory, destination string `dest` accepted by
    `ObjectWriterFSBuilder::new`, every Content-Location `loc` and EVERY answer `ans` of the URL parser, with
    `d = resolve dest` (POSIX lexical resolution):
    * whatever `open` changes in the filesystem lies strictly below `d`, and every directory it creates does;
    * if `open` succeeds, the file it created/truncated is the lexical resolution of the destination path it stored,
      lies strictly below `d`, and `error` / `interrupted` remove exactly that file and touch nothing else
      (`complete` removes nothing);
    * if the location cannot be mapped (parser error other than the two relative-URL ones, empty path, or any
      component that is not a plain name: root, `.`, `..`) `open` fails and the filesystem is untouched. -/
theorem fs_confined (fs : FS) (cwd : RPath) (dest loc : Str) (ans : UrlAns)
    (hb : builderNew fs cwd dest = true) :
    let d := resolve cwd dest
    let o := PathMap.open fs cwd dest loc ans
    (∀ q, o.fs q ≠ fs q → Under d q) ∧ (∀ p ∈ o.dirs, Under d p) ∧
    (∀ dst f fresh, o.opened = some (dst, f, fresh) →
        f = resolve cwd dst ∧ Under d f ∧
        ∀ oc : Outcome,
          (finish o.fs cwd o oc).2 = (if oc = .complete then [] else [Effect.remove f]) ∧
          (∀ q, (finish o.fs cwd o oc).1 q ≠ o.fs q → q = f)) ∧
    (mapLoc loc ans = none → o.opened = none ∧ o.dirs = [] ∧ o.fs = fs) := by
  intro d o
  obtain ⟨hdne, hw⟩ := builder_dest fs cwd dest hb
  cases hm : mapLoc loc ans with
  | none =>
    have ho : o = ⟨fs, [], none⟩ := by simp only [o, PathMap.open, hm]
    rw [ho]
    exact ⟨fun q h => absurd rfl h, by simp, by intro _ _ _ h; cases h, fun _ => ⟨rfl, rfl, rfl⟩⟩
  | some rel =>
    have ho : o = openAt fs cwd dest rel := by simp only [o, PathMap.open, hm]
    have hrel : relOk rel = true := by
      unfold mapLoc at hm
      split at hm
      · cases hm
      · split at hm
        · injection hm with hm; rw [← hm]; assumption
        · cases hm
    have spec := openAt_conf fs cwd dest rel d hw hdne hrel
    rw [← ho] at spec
    refine ⟨spec.ext.1, spec.dirs, ?_, by intro h; cases h⟩
    intro dst f fresh hop
    obtain ⟨hdst, hu, hf, hfile, hlp⟩ := spec.opened dst f fresh hop
    refine ⟨?_, hu, ?_⟩
    · rw [hf, hdst, resolve, components_join dest rel hdne hrel, resolveC_append]
      rfl
    · intro oc
      cases oc with
      | complete => exact ⟨rfl, fun q h => absurd rfl h⟩
      | error =>
        simp only [finish, hop, unlink, hlp, hfile]
        refine ⟨by simp, ?_⟩
        intro q hq
        by_cases hqf : q = f
        · exact hqf
        · simp [FS.set, hqf] at hq
      | interrupted =>
        simp only [finish, hop, unlink, hlp, hfile]
        refine ⟨by simp, ?_⟩
        intro q hq
        by_cases hqf : q = f
        · exact hqf
        · simp [FS.set, hqf] at hq

end Flute.Props.C05
