import FluteModel.Props.C09
import FluteModel.Lemmas.NoCodeDec
/-
  C03  No silent corruption: 'complete' always means the sender's exact bytes.

  Full statement aimed at (DESIGN §5 C03, `complete_implies_exact`): for every object content, every OTI and every history
  whose packets are genuine symbols of that object (any sub-multiset, any order, any duplication, from any transfer of the same
  content; No-Code concretely, other schemes under the codec contract): if the writer trace ends in `complete` then the
  concatenated writes are exactly the object's bytes.
  Proved here at full strength, for ALL histories of arbitrary (also non-genuine, also corrupted) packets, all environments:
    * `never_both`            - an object instance is never told both `complete` and a failure;
    * `md5_mismatch_errors`   - Content-MD5 announced + checking enabled + digest of the written bytes differs => no `complete`,
                                and by Drop the writer has been told `error`/`interrupted` (no collision-freeness assumed: the
                                statement is on digests);
    * `complete_implies_exact_partial` - `complete` => exactly transfer-length bytes were written (cenc null) and the digest
                                matched when checked.  MISSING for the full theorem: the invariant "every stored symbol at
                                (SBN, ESI) is the genuine one, a completed block decodes to the genuine block, blocks are written
                                strictly in SBN order" (R invariant (2),(3) of DESIGN §9) - its No-Code decoder part is
                                `nocode_block_exact` below (proved); the byte-exactness itself is checked on every run by the
                                oracle `C03:complete-wrong-bytes` of engine orecv (exhaustive permutations / sub-multisets of tiny
                                sessions, seeded reorder/dup/loss, all five schemes).
-/
namespace Flute.Props.C03
open Flute Flute.FecDec Flute.ObjRecv Flute.Spec Flute.Spec.WriterProto

/-- An object instance is never reported both complete and failed. -/
theorem never_both (P : Params) (toi maxSize : Nat) (ops : List Op) (st' : St)
    (h : run P (St.new toi maxSize) ops = .ok st') :
    ¬ (Ev.complete ∈ (drop st').wtrace ∧ (Ev.error ∈ (drop st').wtrace ∨ Ev.interrupted ∈ (drop st').wtrace)) := by
  have hn := (C09.terminal_at_most_once P toi maxSize ops st' h).2
  intro ⟨hc, hf⟩
  -- the failure call `e`
  have key : ∀ e : Ev, e.isTerminal = true → e ≠ .complete → e ∈ (drop st').wtrace → False := by
    intro e he hne hmem
    obtain ⟨a, b, hab⟩ := List.append_of_mem hc
    have hb := hn a .complete b hab rfl
    subst hb
    rw [hab] at hmem
    have hmem' : e ∈ a := by
      simp at hmem
      cases hmem with
      | inl x => exact x
      | inr x => exact absurd x hne
    obtain ⟨a1, b1, hab1⟩ := List.append_of_mem hmem'
    have := hn a1 e (b1 ++ [.complete]) (by rw [hab, hab1]; simp) he
    simp at this
  cases hf with
  | inl he => exact key .error rfl (by simp) he
  | inr hi => exact key .interrupted rfl (by simp) hi

/-- When a Content-MD5 `m` is announced, the writer enabled MD5 checking and the digest of the bytes handed to the writer
    differs from `m` (e.g. payload bytes were altered in transit), the object is not reported complete; once the object is
    dropped its writer has been told `error` or `interrupted` (trace closed, no `complete` in it). -/
theorem md5_mismatch_errors (P : Params) (toi maxSize : Nat) (ops : List Op) (st' : St) (m : String)
    (h : run P (St.new toi maxSize) ops = .ok st')
    (hm : (drop st').md5 = some m) (hchk : (drop st').md5Check = true) (htl : (drop st').tl ≠ some 0)
    (hne : P.md5 (drop st').written ≠ m) :
    noComplete (drop st').out ∧ Closed (drop st').wtrace := by
  refine ⟨?_, C09.terminal_by_drop P toi maxSize ops st' h⟩
  apply Classical.byContradiction
  intro hc
  exact hne ((C09.complete_only_when_all_written P toi maxSize ops st' h hc).2 m hm hchk htl)

/-- `complete` => exactly the announced number of bytes was written (cenc null) and the digest matched when checked.
    (See the header for what is missing for byte-exactness.) -/
theorem complete_implies_exact_partial (P : Params) (toi maxSize : Nat) (ops : List Op) (st' : St)
    (h : run P (St.new toi maxSize) ops = .ok st') (hc : ¬ noComplete (drop st').out) :
    ((drop st').cenc = some .null → ∃ T, (drop st').tl = some T ∧ (drop st').written.length = T) ∧
    (∀ m, (drop st').md5 = some m → (drop st').md5Check = true → (drop st').tl ≠ some 0 →
        P.md5 (drop st').written = m) :=
  C09.complete_only_when_all_written P toi maxSize ops st' h hc

/-- Block level, No-Code concretely ("symbols placed by (SBN, ESI), first copy wins"): for EVERY sequence of genuine symbols of a
    source block (`G esi` = the sender's symbol with that ESI) - any subset, any order, any duplication, ESIs out of range
    included - pushed into a fresh No-Code `BlockDecoder`, the source block it hands to the BlockWriter, if it hands one at all,
    is exactly the concatenation of the k genuine symbols. -/
theorem nocode_block_exact (c : Codec) (G : Nat → Bytes) (k : Nat) (esis : List Nat) (blk : Bytes)
    (h : (esis.foldl (fun d esi =>
            let d1 := d.pushSymbol c (G esi) esi
            if d1.canDecode c then (d1.decode c).1 else d1)
          (Dec.noCode (List.replicate k none) 0 none)).sourceBlock = some blk) :
    blk = genuineConcat G 0 k :=
  nocode_complete_is_concat c G k esis _ (noCodeOK_init G k) blk h

/-- non-vacuity: 2 symbols arriving as ESI 1, 1 (duplicate), 5 (out of range), 0 decode to `G 0 ++ G 1` -/
example :
    (([1, 1, 5, 0] : List Nat).foldl (fun d esi =>
        let d1 := d.pushSymbol C09.codec0 ([esi, esi + 10] : Bytes) esi
        if d1.canDecode C09.codec0 then (d1.decode C09.codec0).1 else d1)
      (Dec.noCode (List.replicate 2 none) 0 none)).sourceBlock = some [0, 10, 1, 11] := by decide

end Flute.Props.C03
