import FluteModel.Props.C09
import FluteModel.Lemmas.NoCodeDec
import FluteModel.Lemmas.NoCodeSession
import FluteModel.Lemmas.FecSession
import FluteModel.Lemmas.ObjSessExact
import FluteModel.Lemmas.ObjSessTotal
import FluteModel.Lemmas.DzExact
/-
  C03  No silent corruption: 'complete' always means the sender's exact bytes.

  `complete_implies_exact_nocode` - FULL STRENGTH, No-Code concretely: for every object `T` (transfer bytes, cenc null), every No-Code OTI
      (0 < E, 0 < B < 2^32, |T| < 2^32: beyond that the `as u32` casts of push_to_block2 truncate), EVERY codec value, EVERY writer
      environment, EVERY history made of genuine packets of that object - any sub-multiset, any order, any duplication, packets of any
      transfer of the same content, with or without in-band FTI / CENC, FDT attachments with or without OTI, ESIs out of range - and every
      drop point: if the writer was told `complete`, the bytes it accepted are exactly `T`.
  `complete_implies_exact_rs` - RS GF(2^8), both variants: session constructed from `T` (Lemmas/FecSession.lean: `rsSession_laws`), the only
      hypothesis about the crate is "reconstruct from genuine shards yields genuine shards".
  `complete_implies_exact_fec` - RaptorQ / Raptor: BY CONTRACT ONLY, with `D` tied to the sender's block (prefix, ≤ K·E bytes).
  `writes_are_prefix(_nocode)` - at every point of a genuine history where the writer was not told error/interrupted, the accepted
      bytes are a prefix of the object; `written_le_transfer_length` - history-independent part.
  `complete_implies_exact` - the general form for a session `S` satisfying `GSess.Laws`:
      the sender facts (RFC 5052 partition, block k = its K symbols, `pre` = concatenation of the trimmed blocks; C07/C08) and the explicit
      codec contract `CodecOK` (RS: reconstructing from genuine shards yields genuine shards; RaptorQ/Raptor: whatever is decoded from
      genuine symbols is the block) - hypotheses, not axioms.  Invariant carried through push / attach_fdt / push_from_cache / write_blocks
      (Lemmas/ObjRecvExact.lean): every decoder only ever saw genuine symbols, every written block is the genuine block, blocks are
      written strictly in SBN order, the last is trimmed to bytes_left.
  For ALL histories of arbitrary (also corrupted) packets:
  `never_both`, `md5_mismatch_errors`, `complete_length_and_digest` (complete => exactly transfer-length bytes written (cenc null), digest
      matched when checked), `nocode_block_exact` (block level).
  NOT covered (named): the session level `ObjSess` (completed / error gates, re-download on (SBN 0, ESI 0)) has no theorem of its own -
  every ObjectReceiver it creates is covered by the per-object theorems above for the packets it is handed (stale transfers of the
  same content are genuine packets), but that composition is not stated in Lean; all theorems assume `run = .ok` (no totality theorem);
  cenc != null exactness (needs the decompressor contract `decompress (compress x) = x` threaded through
  `decoder_read`; the length/digest theorem above covers every cenc); checked on every run by the oracle `C03:complete-wrong-bytes`.
-/
namespace Flute.Props.C03
open Flute Flute.FecDec Flute.ObjRecv Flute.Spec Flute.Spec.WriterProto

/-- An object instance is never reported both complete and failed. -/
theorem OfRun.never_both (P : Params) (toi maxSize : Nat) (ops : List Op) (st' : St)
    (h : run P (St.new toi maxSize) ops = .ok st') :
    ¬ (Ev.complete ∈ (drop st').wtrace ∧ (Ev.error ∈ (drop st').wtrace ∨ Ev.interrupted ∈ (drop st').wtrace)) := by
  have hn := (C09.OfRun.terminal_at_most_once P toi maxSize ops st' h).2
  intro ⟨hc, hf⟩
  -- the failure call `e`
  have key : ∀ e : Ev, e.isTerminal = true → e ≠ .complete → e ∈ (drop st').wtrace → False := by
    intro e he hne hmem
    obtain ⟨a, b, hab⟩ := List.append_of_mem hc
    have hb := hn a .complete b hab rfl
    subst hb
    rw [hab] at hmem
    have hmem' : e ∈ a := by
      simp at hmem
      cases hmem with
      | inl x => exact x
      | inr x => exact absurd x hne
    obtain ⟨a1, b1, hab1⟩ := List.append_of_mem hmem'
    have := hn a1 e (b1 ++ [.complete]) (by rw [hab, hab1]; simp) he
    simp at this
  cases hf with
  | inl he => exact key .error rfl (by simp) he
  | inr hi => exact key .interrupted rfl (by simp) hi

/-- When a Content-MD5 `m` is announced, the writer enabled MD5 checking and the digest of the bytes handed to the writer
    differs from `m` (e.g. payload bytes were altered in transit), the object is not reported complete; once the object is
    dropped its writer has been told `error` or `interrupted` (trace closed, no `complete` in it). -/
theorem OfRun.md5_mismatch_errors (P : Params) (toi maxSize : Nat) (ops : List Op) (st' : St) (m : String)
    (h : run P (St.new toi maxSize) ops = .ok st')
    (hm : (drop st').md5 = some m) (hchk : (drop st').md5Check = true)
    (hne : P.md5 (drop st').written ≠ m) :
    noComplete (drop st').out ∧ Closed (drop st').wtrace := by
  refine ⟨?_, C09.OfRun.terminal_by_drop P toi maxSize ops st' h⟩
  apply Classical.byContradiction
  intro hc
  exact hne ((C09.OfRun.complete_only_when_all_written P toi maxSize ops st' h hc).2.1 m hm hchk)

/-- `complete` => exactly the announced number of bytes was written (cenc null) and the digest matched when checked,
    for ALL histories (also corrupted packets) and every cenc. -/
theorem OfRun.complete_length_and_digest (P : Params) (toi maxSize : Nat) (ops : List Op) (st' : St)
    (h : run P (St.new toi maxSize) ops = .ok st') (hc : ¬ noComplete (drop st').out) :
    ((drop st').cenc = some .null → ∃ T, (drop st').tl = some T ∧ (drop st').written.length = T) ∧
    (∀ m, (drop st').md5 = some m → (drop st').md5Check = true → P.md5 (drop st').written = m) ∧
    (∀ n, (drop st').cl = some n → (drop st').tl ≠ some 0 → (drop st').written.length = n) :=
  C09.OfRun.complete_only_when_all_written P toi maxSize ops st' h hc

/-- **complete ⇒ exact**, any scheme, under the sender facts and the codec contract (`GSess.Laws`): for every history of genuine
    packets / FDT entries of the object (`GenOp`: any sub-multiset, order, duplication, transfer), every environment and drop point,
    a writer that was told `complete` was handed exactly the object's transfer bytes `S.T`. -/
theorem OfRun.complete_implies_exact (P : Params) (S : GSess) (L : S.Laws P.codec) (toi maxSize : Nat) (ops : List Op) (st' : St)
    (hops : ∀ op ∈ ops, GenOp S op) (h : run P (St.new toi maxSize) ops = .ok st')
    (hc : ¬ noComplete (drop st').out) : (drop st').written = S.T := by
  have hi := inv_run P _ ops (inv_new toi maxSize) h
  have hj0 := jinv_run P _ ops (inv_new toi maxSize) (jinv_new P toi maxSize) h
  have hg0 := ginv_run P S L _ ops (inv_new toi maxSize) (jinv_new P toi maxSize) (ginv_new S toi maxSize) hops h
  have hj := jinv_drop st' hi hj0
  have hg := ginv_drop st' hi hg0
  have hid := (inv_drop st' hi).1
  cases hw : (drop st').writer with
  | none => exact absurd (hj.none_ hw).2 hc
  | some ws =>
    cases ws with
    | idle => exact absurd hw hid.noIdle
    | opened => exact absurd (hj.opened hw).nc hc
    | error => exact absurd (hj.error hw) hc
    | closed => exact hg.closed hw

/-- **writes are a prefix of the object** (C09 clause "zero or more writes whose concatenation is a prefix of the object's
    content"), any scheme under `GSess.Laws`, for every genuine history, every environment, at EVERY point of the history
    (`ops` is any list: every prefix of a history is a history) where the writer has not been told `error`/`interrupted`:
    the bytes accepted so far are a prefix of the transfer bytes - more precisely the first `k` blocks for some `k`.
    NOT covered: the state after `error()` (the call itself writes nothing - `error_written` - but the invariant does not record
    what was written during the op that ended in the error). -/
theorem OfRun.writes_are_prefix (P : Params) (S : GSess) (L : S.Laws P.codec) (toi maxSize : Nat) (ops : List Op) (st' : St)
    (hops : ∀ op ∈ ops, GenOp S op) (h : run P (St.new toi maxSize) ops = .ok st')
    (hw : st'.writer ≠ some .error) : st'.written <+: S.T := by
  have hi := inv_run P _ ops (inv_new toi maxSize) h
  have hj := jinv_run P _ ops (inv_new toi maxSize) (jinv_new P toi maxSize) h
  have hg := ginv_run P S L _ ops (inv_new toi maxSize) (jinv_new P toi maxSize) (ginv_new S toi maxSize) hops h
  cases hws : st'.writer with
  | none => rw [(hj.none_ hws).1]; exact List.nil_prefix
  | some ws =>
    cases ws with
    | idle => exact absurd hws hi.noIdle
    | error => exact absurd hws hw
    | closed => rw [hg.closed hws]; exact List.prefix_refl _
    | opened =>
      obtain ⟨T, C, h1, h2, h3, h4⟩ := (hj.opened hws).ex
      by_cases hT : T = 0
      · rw [(h3 hT).2]; exact List.nil_prefix
      · obtain ⟨w, hbw, _⟩ := h4 hT
        have := hg.opened hws w hbw
        rw [this.1]; exact L.pre_prefix _ this.2

/-- No-Code concretely (no contract) -/
theorem OfRun.writes_are_prefix_nocode (P : Params) (T : Bytes) (o : Oti) (hs : o.scheme = .noCode)
    (he : 0 < o.e) (hb : 0 < o.b) (hb32 : o.b < 2 ^ 32) (hT : T.length < 2 ^ 32)
    (toi maxSize : Nat) (ops : List Op) (st' : St)
    (hops : ∀ op ∈ ops, GenOp (noCodeSession T o) op) (h : run P (St.new toi maxSize) ops = .ok st')
    (hw : st'.writer ≠ some .error) : st'.written <+: T :=
  OfRun.writes_are_prefix P (noCodeSession T o) (noCodeSession_laws P.codec T o hs he hb hb32 hT) toi maxSize ops st' hops h hw

/-- history-independent part, ALL histories (also corrupted packets): with cenc null an open or closed writer never got more
    than transfer-length bytes -/
theorem OfRun.written_le_transfer_length (P : Params) (toi maxSize : Nat) (ops : List Op) (st' : St)
    (h : run P (St.new toi maxSize) ops = .ok st') (hc : st'.cenc = some .null)
    (hw : st'.writer = some .opened ∨ st'.writer = some .closed) :
    ∃ T, st'.tl = some T ∧ st'.written.length ≤ T := by
  have hj := jinv_run P _ ops (inv_new toi maxSize) (jinv_new P toi maxSize) h
  cases hw with
  | inr hcl =>
    obtain ⟨T, h1, h2⟩ := (hj.closed hcl).len hc
    exact ⟨T, h1, by omega⟩
  | inl hop =>
    obtain ⟨T, C, h1, h2, h3, h4⟩ := (hj.opened hop).ex
    refine ⟨T, h1, ?_⟩
    by_cases hT : T = 0
    · rw [(h3 hT).2]; simp
    · obtain ⟨w, _, _, _, _, e, _⟩ := h4 hT
      have hC : C = .null := by rw [hc] at h2; simpa using h2.symm
      have := (e hC).2
      omega

/-- **complete ⇒ exact, No-Code concretely** (no contract, every codec value): see the header. -/
theorem OfRun.complete_implies_exact_nocode (P : Params) (T : Bytes) (o : Oti) (hs : o.scheme = .noCode)
    (he : 0 < o.e) (hb : 0 < o.b) (hb32 : o.b < 2 ^ 32) (hT : T.length < 2 ^ 32)
    (toi maxSize : Nat) (ops : List Op) (st' : St)
    (hops : ∀ op ∈ ops, GenOp (noCodeSession T o) op) (h : run P (St.new toi maxSize) ops = .ok st')
    (hc : ¬ noComplete (drop st').out) : (drop st').written = T :=
  OfRun.complete_implies_exact P (noCodeSession T o) (noCodeSession_laws P.codec T o hs he hb hb32 hT) toi maxSize ops st' hops h hc

/-- **complete ⇒ exact, Reed-Solomon GF(2^8) (both variants)**: the session is constructed from `T` (source symbols = the `E`-byte
    slices zero-padded to `E`, repair symbols `rep` = whatever the sender's encoder emits, decoded block = the padded sender block);
    the ONLY hypothesis about the external crate is `hrs`: reconstructing from genuine shards yields genuine shards
    ("never a wrong block from genuine symbols"; differentially tested by engine orecv family codec-contract). Non-empty object. -/
theorem OfRun.complete_implies_exact_rs (P : Params) (T : Bytes) (o : Oti) (rep : Nat → Nat → Bytes)
    (hs : o.scheme = .rs28 ∨ o.scheme = .rs28us)
    (he : 0 < o.e) (hb : 0 < o.b) (hb32 : o.b < 2 ^ 32) (hT : T.length < 2 ^ 32) (hT0 : 0 < T.length)
    (hrs : ∀ sbn, sbn < (rsSession T o rep).n → ∀ p shards shards',
        SlotsOK (rsSym T o rep sbn) 0 shards →
        P.codec.rsReconstruct (sessK T o sbn) p shards = some shards' →
        SlotsOK (rsSym T o rep sbn) 0 shards')
    (toi maxSize : Nat) (ops : List Op) (st' : St)
    (hops : ∀ op ∈ ops, GenOp (rsSession T o rep) op) (h : run P (St.new toi maxSize) ops = .ok st')
    (hc : ¬ noComplete (drop st').out) : (drop st').written = T :=
  OfRun.complete_implies_exact P (rsSession T o rep) (rsSession_laws P.codec T o rep hs he hb hb32 hT hT0 hrs)
    toi maxSize ops st' hops h hc

/-- **complete ⇒ exact, RaptorQ / Raptor (and any scheme)**: by contract only.  `D sbn` is tied to the SENDER's block
    (`senderBlock T o sbn <+: D sbn`, at most `K·E` bytes), and the codec contract says the decoder returns `D sbn` from genuine
    symbols - nothing is proved about the raptorq / raptor-code crates themselves. -/
theorem OfRun.complete_implies_exact_fec (P : Params) (T : Bytes) (o : Oti) (sym : Nat → Nat → Bytes) (D : Nat → Bytes)
    (he : 0 < o.e) (hb : 0 < o.b) (hb32 : o.b < 2 ^ 32) (hT : T.length < 2 ^ 32) (hT0 : 0 < T.length)
    (hD1 : ∀ sbn, sbn < (fecSession T o sym D).n → senderBlock T o sbn <+: D sbn)
    (hD2 : ∀ sbn, sbn < (fecSession T o sym D).n → (D sbn).length ≤ (fecSession T o sym D).K sbn * o.e)
    (hsrc : (o.scheme = .noCode ∨ o.scheme = .rs28 ∨ o.scheme = .rs28us) → ∀ sbn, sbn < (fecSession T o sym D).n →
        D sbn = genuineConcat (sym sbn) 0 ((fecSession T o sym D).K sbn))
    (hcodec : ∀ sbn, sbn < (fecSession T o sym D).n →
        CodecOK P.codec o.scheme (sym sbn) ((fecSession T o sym D).K sbn) o.e sbn (D sbn))
    (toi maxSize : Nat) (ops : List Op) (st' : St)
    (hops : ∀ op ∈ ops, GenOp (fecSession T o sym D) op) (h : run P (St.new toi maxSize) ops = .ok st')
    (hc : ¬ noComplete (drop st').out) : (drop st').written = T :=
  OfRun.complete_implies_exact P (fecSession T o sym D)
    (fecSession_laws P.codec T o sym D he hb hb32 hT hT0 hD1 hD2 hsrc hcodec) toi maxSize ops st' hops h hc

/-- non-vacuity: a concrete genuine history (FDT entry, then the single symbol, received twice) meets the hypotheses of
    `complete_implies_exact_nocode` and ends in `complete` -/
example :
    (∀ op ∈ [Op.attach 1 (some C09.e0), .push C09.p0, .push C09.p0],
        GenOp (noCodeSession [1, 2, 3] ⟨.noCode, 4, 2, 0, none⟩) op) ∧
    C09.traceAfterDrop (C09.P0 true) [.attach 1 (some C09.e0), .push C09.p0, .push C09.p0]
      = some [.openOk, .write true, .complete] := by
  refine ⟨?_, by decide⟩
  intro op hop
  simp at hop
  rcases hop with rfl | rfl
  · exact ⟨.inr rfl, rfl, rfl⟩
  · exact ⟨.inl rfl, .inl rfl, ⟨0, 0, none⟩, rfl, fun _ => ⟨by decide, by decide, .inl rfl⟩⟩

/-- Block level, No-Code concretely ("symbols placed by (SBN, ESI), first copy wins"): for EVERY sequence of genuine symbols of a
    source block (`G esi` = the sender's symbol with that ESI) - any subset, any order, any duplication, ESIs out of range
    included - pushed into a fresh No-Code `BlockDecoder`, the source block it hands to the BlockWriter, if it hands one at all,
    is exactly the concatenation of the k genuine symbols. -/
theorem nocode_block_exact (c : Codec) (G : Nat → Bytes) (k : Nat) (esis : List Nat) (blk : Bytes)
    (h : (esis.foldl (fun d esi =>
            let d1 := d.pushSymbol c (G esi) esi
            if d1.canDecode c then (d1.decode c).1 else d1)
          (Dec.noCode (List.replicate k none) 0 none)).sourceBlock = some blk) :
    blk = genuineConcat G 0 k :=
  nocode_complete_is_concat c G k esis _ (noCodeOK_init G k) blk h

/-- non-vacuity: 2 symbols arriving as ESI 1, 1 (duplicate), 5 (out of range), 0 decode to `G 0 ++ G 1` -/
example :
    (([1, 1, 5, 0] : List Nat).foldl (fun d esi =>
        let d1 := d.pushSymbol C09.codec0 ([esi, esi + 10] : Bytes) esi
        if d1.canDecode C09.codec0 then (d1.decode C09.codec0).1 else d1)
      (Dec.noCode (List.replicate 2 none) 0 none)).sourceBlock = some [0, 10, 1, 11] := by decide

/-! ### Session level

`ObjSess` is the model of how `receiver.rs` drives the per-object receivers (what the driver of engine `orecv` executes for every
`pkt` / `fdt` / `cleanup` / `drop` line): `objects_completed` / `objects_error` gates, re-download on the packet (SBN 0, ESI 0),
creation of an ObjectReceiver and attachment to the first FDT of `fdt_current` listing the TOI, attachment of a completed FDT instance to
all objects, `check_object_state` (remove + Drop), the time-out sweep, Drop of the receiver. -/

/-- **complete ⇒ exact, for the whole session**: `cont t` is what the sender holds for TOI `t` (`GSess.Laws`: partition, symbols,
    codec contract - instances: `noCodeSession_laws`, `rsSession_laws`, `fecSession_laws`).  For EVERY session history in which every
    data packet carries genuine symbols / EXT_FTI of the content of ITS TOI and every FDT File entry describes the content of ITS TOI
    (any interleaving of any number of objects, any order / duplication / loss, objects completed, failed, re-downloaded any number of
    times, removed by the time-out sweep, stale carousel transfers, several FDT instances), every writer environment, every
    configuration: each chunk of writer calls the session ever reports (`S'.log`: one per op and object, `all` = all calls made so far
    on that object's writer) whose writer was told `complete` carries exactly the content of its TOI; the same for the objects
    still alive.  Every ObjectReceiver the session ever creates - the first one for a TOI and every re-download - is covered.

    A TOI REUSED FOR DIFFERENT CONTENT is outside the hypothesis (`cont` is one content per TOI) and outside what the code guarantees:
    packets of the old content still in flight are pushed into the ObjectReceiver of the new content (the session keys objects by TOI
    only, an existing object ignores every later FDT instance, a new one attaches to the NEWEST instance listing the TOI); with a
    Content-MD5 the object then ends in `error` (`md5_mismatch_errors`), without one it can be completed from a mixture - engine family
    `toi-reuse` executes this, the byte-exactness oracle is switched off there (`expect <toi> x -`). -/
theorem OfRun.session_complete_implies_exact (PP : ObjSess.SParams) (cont : Nat → GSess) (L : ∀ t, (cont t).Laws PP.codec)
    (cfg : ObjSess.SCfg) (ops : List ObjSess.SOp) (S' : ObjSess.Sess)
    (hops : ∀ op ∈ ops, ObjSess.SGenOp cont op)
    (h : ObjSess.Sess.run PP { cfg := cfg } ops = .ok S') :
    (∀ c ∈ S'.log, ¬ noComplete c.all.reverse → writtenOf c.all.reverse = (cont c.toi).T) ∧
    (∀ o ∈ S'.objects, ¬ noComplete o.st.out → o.st.written = (cont o.toi).T) := by
  have h0 : ObjSess.SInv PP cont { cfg := cfg } := ⟨by simp, by simp, by simp⟩
  have h1 := ObjSess.sinv_run L ops hops h0 h
  exact ⟨fun c hc => h1.log c hc, fun o ho => (h1.objs o ho).exact⟩

/-- **the session model never panics / hangs** (session-level totality, Lemmas/ObjSessTotal.lean): every ObjectReceiver the session
    shell ever creates satisfies `TInv`, so `Sess.run` returns - input-side hypotheses only (the `Feasible` of the session: `DzOK` for
    the parameters of every object, allocation limit < 2^63, packets `WfPkt`, FDT entries `WfFile`) -/
theorem session_run_total (PP : ObjSess.SParams) (D : ∀ toi base, Nonempty (DzOK (PP.forObj toi base)))
    (cfg : ObjSess.SCfg) (hmax : cfg.maxSize < 2 ^ 63) (ops : List ObjSess.SOp) (hwf : ∀ op ∈ ops, ObjSess.SWfOp op) :
    ∃ S', ObjSess.Sess.run PP { cfg := cfg } ops = .ok S' := by
  obtain ⟨S', h, _⟩ := ObjSess.sess_run_total (fun t b => Classical.choice (D t b)) ops hwf
    (S := { cfg := cfg }) ⟨by simp, by simp, hmax⟩
  exact ⟨S', h⟩

/-- **complete ⇒ exact, for the whole session, WITHOUT a hypothesis on the outcome of the run**: the session run returns
    (`session_run_total`) and every reported chunk / live object whose writer was told `complete` carries exactly the content of its
    TOI (`OfRun.session_complete_implies_exact`) -/
theorem session_complete_implies_exact (PP : ObjSess.SParams) (cont : Nat → GSess) (L : ∀ t, (cont t).Laws PP.codec)
    (D : ∀ toi base, Nonempty (DzOK (PP.forObj toi base)))
    (cfg : ObjSess.SCfg) (hmax : cfg.maxSize < 2 ^ 63) (ops : List ObjSess.SOp)
    (hops : ∀ op ∈ ops, ObjSess.SGenOp cont op) (hwf : ∀ op ∈ ops, ObjSess.SWfOp op) :
    ∃ S', ObjSess.Sess.run PP { cfg := cfg } ops = .ok S' ∧
      (∀ c ∈ S'.log, ¬ noComplete c.all.reverse → writtenOf c.all.reverse = (cont c.toi).T) ∧
      (∀ o ∈ S'.objects, ¬ noComplete o.st.out → o.st.written = (cont o.toi).T) := by
  obtain ⟨S', h⟩ := session_run_total PP D cfg hmax ops hwf
  exact ⟨S', h, OfRun.session_complete_implies_exact PP cont L cfg ops S' hops h⟩

/-- non-vacuity of the session theorem: two interleaved objects (TOI 1 = [1,2,3], TOI 2 = [9]) announced by one FDT instance;
    the model session reports a chunk containing `complete` for each of them (and, before, the `new` + `open` of TOI 1) -/
example :
    let PP : ObjSess.SParams := { codec := C09.codec0, dzRead := fun _ _ _ => ⟨0, .err⟩, dzFuel := fun _ => 1, md5 := fun _ => "",
                                  planOf := fun _ _ => ⟨.store, false, true, fun _ => true⟩ }
    let o : Oti := ⟨.noCode, 2, 2, 0, none⟩
    let f : ObjSess.Fdt := ⟨1, [(1, ⟨some o, 3, none, .null, none, false⟩), (2, ⟨some o, 1, none, .null, none, false⟩)]⟩
    let pk (toi sbn esi : Nat) (d : Bytes) : Pkt := ⟨toi, .noCode, false, none, none, [0, sbn, 0, esi], d, 20⟩
    (match ObjSess.Sess.run PP {} [.fdt f, .pkt (pk 1 0 1 [3]), .pkt (pk 2 0 0 [9]), .pkt (pk 1 0 0 [1, 2])] with
     | .ok S => S.log.map (fun c => (c.toi, writtenOf c.all.reverse, c.all.any (fun w => match w with | .complete => true | _ => false)))
     | .error _ => []) = [(1, [1, 2, 3], true), (2, [9], true), (1, [], false)] := by decide

/-- WHAT HAPPENS WITH A TOI REUSED FOR DIFFERENT CONTENT (outside `SGenOp`; finding orecv-2): FDT instance 1 lists TOI 1 with content
    A = [1,2,3,4], instance 2 lists TOI 1 with content B = [5,6,7,8] (two blocks each, no Content-MD5); a stale packet of A (block 0)
    arrives after instance 2, then block 1 of B: the session attaches the new ObjectReceiver to the newest instance, decodes the stale
    block under it and tells the writer `complete` with [1,2,7,8] - neither A nor B.  With a Content-MD5 the object would end in `error`
    (`md5_mismatch_errors`). -/
example :
    let PP : ObjSess.SParams := { codec := C09.codec0, dzRead := fun _ _ _ => ⟨0, .err⟩, dzFuel := fun _ => 1, md5 := fun _ => "",
                                  planOf := fun _ _ => ⟨.store, false, true, fun _ => true⟩ }
    let o : Oti := ⟨.noCode, 2, 1, 0, none⟩
    let f (id : Nat) : ObjSess.Fdt := ⟨id, [(1, ⟨some o, 4, none, .null, none, false⟩)]⟩
    let pk (sbn : Nat) (d : Bytes) : Pkt := ⟨1, .noCode, false, none, none, [0, sbn, 0, 0], d, 20⟩
    (match ObjSess.Sess.run PP {} [.fdt (f 1), .fdt (f 2), .pkt (pk 0 [1, 2]), .pkt (pk 1 [7, 8])] with
     | .ok S => S.log.map (fun c => (c.toi, writtenOf c.all.reverse, c.all.any (fun w => match w with | .complete => true | _ => false)))
     | .error _ => []) = [(1, [1, 2, 7, 8], true), (1, [1, 2], false)] := by decide

/-! ### cenc != null: the decompressor contract through `decoder_read` (BlockWriter level)

`DzFun P c T X` (Lemmas/DzExact.lean) is the functional contract of the third-party decompressor for one object: `T` is the
compressed stream of `X`; whatever the chunking of the `read` calls, once all of `T` has been offered and the input declared finished,
the decompressor answers "nothing more" (`WouldBlock` / `Ok(0)`) only when it has handed out exactly `X`
(= decompress (compress x) = x, no early end of stream).  The theorem threads it through everything flute puts around the
decompressor: `init_decoder` (constructor reading the header), the ring buffer with partial writes, the `loop` of `decode_write_pkt`
with its stall detection, `decoder_read` with Content-Length accounting and refused writes, `finish`.
NOT DONE: the lift to `complete_implies_exact*` (object level).  It needs the invariant "bytes fed to the decompressor = the first
`sbn` genuine blocks" in place of `GInv.opened` (which speaks about written bytes and therefore fixes cenc = Null in `GenOp`); the
block-level part of `GInv` (every written block is the genuine block, in SBN order, last one trimmed) is encoding independent. -/

/-- **cenc != null, BlockWriter level: Ok to the end means exactly the content** (see `bw_stream_exact`): a fresh BlockWriter of
    encoding `c != Null`, non-empty chunks concatenating to the compressed stream `T`, every data call and the final
    `finish` + `decoder_read` Ok, nothing discarded because of Content-Length  =>  the writer accepted exactly `X`. -/
theorem cenc_stream_exact (P : Params) (T X : Bytes) (st st1 st2 : St) (w w1 w2 : BW) (ds : List Bytes)
    (hc : w.cenc ≠ .null) (F : DzFun P w.cenc T X) (hdz : w.dz = none) (hw : st.written = [])
    (hne : ∀ d ∈ ds, d ≠ []) (hds : ds ≠ []) (hT : ds.flatten = T)
    (hrun : FeedRun P st w ds st1 w1) (hfin : bwFinish P st1 w1 = .ok (st2, w2, true)) (hd : w2.discarded = false) :
    st2.written = X :=
  bw_stream_exact P T X st st1 st2 w w1 w2 ds hc F hdz hw hne hds hT hrun hfin hd

/-- non-vacuity of the contract: the "stored" decompressor (hands out the ring bytes unchanged, as many as fit the buffer) meets
    `DzFun` with `X = T`, for every encoding value and every stream -/
theorem dzFun_stored (P : Params) (hP : P.dzRead = fun _ _ call => ⟨min call.avail.length call.buflen, .data (call.avail.take call.buflen)⟩)
    (c : Cenc) (T : Bytes) : DzFun P c T T := by
  have haux : ∀ todo done, prodAux P c done todo = consAux P c done todo := by
    intro todo
    induction todo with
    | nil => intro done; rfl
    | cons x r ih =>
      intro done
      simp only [prodAux, consAux, ih, hP, outOf]
      congr 1
      simp [List.take_take, Nat.min_comm]
  intro hist call hT hfin hbuf hres
  have hpc : prodOf P c hist = consOf P c hist := haux hist []
  rw [hpc]
  rcases hres with h | ⟨out, h1, h2⟩
  · simp [hP] at h
  · simp only [hP] at h1
    have : out = call.avail.take call.buflen := by cases h1; rfl
    subst this
    have hemp : call.avail = [] := by
      cases ha : call.avail with
      | nil => rfl
      | cons a r =>
        rw [ha] at h2
        cases hb : call.buflen with
        | zero => exact absurd hb hbuf
        | succ k => simp [hb] at h2
    rw [hemp] at hT
    simpa using hT

/-! ### The theorems, with NO hypothesis on the outcome of the run

`OfRun.*` above are stated for a run that returned (`run = .ok st'`).  `C04.Obj.run_total` shows that every history returns - no Rust
panic, no hang - under input-side assumptions only (`Feasible`: the decompressor contract `DzOK`, `max_size_allocated < 2^63`, the
parser ranges `WfOp`: transfer length < 2^48, E < 2^16).  Hence, for EVERY such history the run returns some `st'` and the property
holds for it; nothing can be violated "inside an op that panics", because no op panics. -/

theorem never_both (P : Params) (toi maxSize : Nat) (ops : List Op)
    (F : Feasible P maxSize ops) :
    ∃ st', run P (St.new toi maxSize) ops = .ok st' ∧
     ((¬ (Ev.complete ∈ (drop st').wtrace ∧ (Ev.error ∈ (drop st').wtrace ∨ Ev.interrupted ∈ (drop st').wtrace)))) :=
  F.elim toi (fun st' h  => OfRun.never_both P toi maxSize ops st' h)

theorem md5_mismatch_errors (P : Params) (toi maxSize : Nat) (ops : List Op) (m : String)
    (F : Feasible P maxSize ops) :
    ∃ st', run P (St.new toi maxSize) ops = .ok st' ∧
     (((drop st').md5 = some m) →
      ((drop st').md5Check = true) →
      (P.md5 (drop st').written ≠ m) →
      (noComplete (drop st').out ∧ Closed (drop st').wtrace)) :=
  F.elim toi (fun st' h hm hchk hne => OfRun.md5_mismatch_errors P toi maxSize ops st' m h hm hchk hne)

theorem complete_length_and_digest (P : Params) (toi maxSize : Nat) (ops : List Op)
    (F : Feasible P maxSize ops) :
    ∃ st', run P (St.new toi maxSize) ops = .ok st' ∧
     ((¬ noComplete (drop st').out) →
      (((drop st').cenc = some .null → ∃ T, (drop st').tl = some T ∧ (drop st').written.length = T) ∧
    (∀ m, (drop st').md5 = some m → (drop st').md5Check = true → P.md5 (drop st').written = m) ∧
    (∀ n, (drop st').cl = some n → (drop st').tl ≠ some 0 → (drop st').written.length = n))) :=
  F.elim toi (fun st' h hc => OfRun.complete_length_and_digest P toi maxSize ops st' h hc)

theorem complete_implies_exact (P : Params) (S : GSess) (L : S.Laws P.codec) (toi maxSize : Nat) (ops : List Op) (hops : ∀ op ∈ ops, GenOp S op)
    (F : Feasible P maxSize ops) :
    ∃ st', run P (St.new toi maxSize) ops = .ok st' ∧
     ((¬ noComplete (drop st').out) →
      ((drop st').written = S.T)) :=
  F.elim toi (fun st' h hc => OfRun.complete_implies_exact P S L toi maxSize ops st' hops h hc)

theorem writes_are_prefix (P : Params) (S : GSess) (L : S.Laws P.codec) (toi maxSize : Nat) (ops : List Op) (hops : ∀ op ∈ ops, GenOp S op)
    (F : Feasible P maxSize ops) :
    ∃ st', run P (St.new toi maxSize) ops = .ok st' ∧
     ((st'.writer ≠ some .error) →
      (st'.written <+: S.T)) :=
  F.elim toi (fun st' h hw => OfRun.writes_are_prefix P S L toi maxSize ops st' hops h hw)

theorem writes_are_prefix_nocode (P : Params) (T : Bytes) (o : Oti) (hs : o.scheme = .noCode) (he : 0 < o.e) (hb : 0 < o.b) (hb32 : o.b < 2 ^ 32) (hT : T.length < 2 ^ 32) (toi maxSize : Nat) (ops : List Op) (hops : ∀ op ∈ ops, GenOp (noCodeSession T o) op)
    (F : Feasible P maxSize ops) :
    ∃ st', run P (St.new toi maxSize) ops = .ok st' ∧
     ((st'.writer ≠ some .error) →
      (st'.written <+: T)) :=
  F.elim toi (fun st' h hw => OfRun.writes_are_prefix_nocode P T o hs he hb hb32 hT toi maxSize ops st' hops h hw)

theorem written_le_transfer_length (P : Params) (toi maxSize : Nat) (ops : List Op)
    (F : Feasible P maxSize ops) :
    ∃ st', run P (St.new toi maxSize) ops = .ok st' ∧
     ((st'.cenc = some .null) →
      (st'.writer = some .opened ∨ st'.writer = some .closed) →
      (∃ T, st'.tl = some T ∧ st'.written.length ≤ T)) :=
  F.elim toi (fun st' h hc hw => OfRun.written_le_transfer_length P toi maxSize ops st' h hc hw)

theorem complete_implies_exact_nocode (P : Params) (T : Bytes) (o : Oti) (hs : o.scheme = .noCode) (he : 0 < o.e) (hb : 0 < o.b) (hb32 : o.b < 2 ^ 32) (hT : T.length < 2 ^ 32) (toi maxSize : Nat) (ops : List Op) (hops : ∀ op ∈ ops, GenOp (noCodeSession T o) op)
    (F : Feasible P maxSize ops) :
    ∃ st', run P (St.new toi maxSize) ops = .ok st' ∧
     ((¬ noComplete (drop st').out) →
      ((drop st').written = T)) :=
  F.elim toi (fun st' h hc => OfRun.complete_implies_exact_nocode P T o hs he hb hb32 hT toi maxSize ops st' hops h hc)

theorem complete_implies_exact_rs (P : Params) (T : Bytes) (o : Oti) (rep : Nat → Nat → Bytes) (hs : o.scheme = .rs28 ∨ o.scheme = .rs28us) (he : 0 < o.e) (hb : 0 < o.b) (hb32 : o.b < 2 ^ 32) (hT : T.length < 2 ^ 32) (hT0 : 0 < T.length) (hrs : ∀ sbn, sbn < (rsSession T o rep).n → ∀ p shards shards',
        SlotsOK (rsSym T o rep sbn) 0 shards →
        P.codec.rsReconstruct (sessK T o sbn) p shards = some shards' →
        SlotsOK (rsSym T o rep sbn) 0 shards') (toi maxSize : Nat) (ops : List Op) (hops : ∀ op ∈ ops, GenOp (rsSession T o rep) op)
    (F : Feasible P maxSize ops) :
    ∃ st', run P (St.new toi maxSize) ops = .ok st' ∧
     ((¬ noComplete (drop st').out) →
      ((drop st').written = T)) :=
  F.elim toi (fun st' h hc => OfRun.complete_implies_exact_rs P T o rep hs he hb hb32 hT hT0 hrs toi maxSize ops st' hops h hc)

theorem complete_implies_exact_fec (P : Params) (T : Bytes) (o : Oti) (sym : Nat → Nat → Bytes) (D : Nat → Bytes) (he : 0 < o.e) (hb : 0 < o.b) (hb32 : o.b < 2 ^ 32) (hT : T.length < 2 ^ 32) (hT0 : 0 < T.length) (hD1 : ∀ sbn, sbn < (fecSession T o sym D).n → senderBlock T o sbn <+: D sbn) (hD2 : ∀ sbn, sbn < (fecSession T o sym D).n → (D sbn).length ≤ (fecSession T o sym D).K sbn * o.e) (hsrc : (o.scheme = .noCode ∨ o.scheme = .rs28 ∨ o.scheme = .rs28us) → ∀ sbn, sbn < (fecSession T o sym D).n →
        D sbn = genuineConcat (sym sbn) 0 ((fecSession T o sym D).K sbn)) (hcodec : ∀ sbn, sbn < (fecSession T o sym D).n →
        CodecOK P.codec o.scheme (sym sbn) ((fecSession T o sym D).K sbn) o.e sbn (D sbn)) (toi maxSize : Nat) (ops : List Op) (hops : ∀ op ∈ ops, GenOp (fecSession T o sym D) op)
    (F : Feasible P maxSize ops) :
    ∃ st', run P (St.new toi maxSize) ops = .ok st' ∧
     ((¬ noComplete (drop st').out) →
      ((drop st').written = T)) :=
  F.elim toi (fun st' h hc => OfRun.complete_implies_exact_fec P T o sym D he hb hb32 hT hT0 hD1 hD2 hsrc hcodec toi maxSize ops st' hops h hc)

end Flute.Props.C03
