import FluteModel.Lemmas.MultiRecvTotal
import FluteModel.Props.C04Wire
/-
  C04 at its real entry point: `MultiReceiver::push(endpoint, data, now)` / `cleanup(now)` (model: `MultiRecv`,
  owner C18; bytes-level call `MultiRecv.pushBytes` = agent wire's parser model + the routing).

  General form: for ANY session machine satisfying the totality contract `Machine.Total` (its entry points `new`, `push`,
  `cleanup` and its destruction produce no panic from states satisfying an invariant they keep).  Instance: the
  session-level receiver model `Flute.Recv` (`recvMachine`, for every object machine `I` with `CompleteSound`; contract
  proved from agent recv's `step_total` / `step_good`).
  The only panic of the demultiplexer itself is the `u64` overflow of a filter reference counter
  (`Props.C18.filter_counter_overflow`): the bound "fewer than 2^64 operations" is a hypothesis.
-/
namespace Flute.Props.C04.Multi
open Flute Flute.TsiFilter Flute.MultiRecv Flute.Props.C04.Wire

/-- **multi_step_total** (any machine).  In every state reachable from `MultiReceiver::new` by any history of
    operations with admissible environment inputs, every further operation returns without panic: the
    demultiplexer's own result is not `panic`, no output of any session receiver it calls (push, cleanup, destruction)
    is a panic, and the invariant is kept. -/
theorem multi_step_total {σ π Out : Type} (M : Machine σ π Out) (Inv : σ → Prop) (EnvOK : π → Prop)
    (NoPanic : Out → Prop) (hT : M.Total Inv EnvOK NoPanic) (b : Bool) (ops : List (MultiRecv.Op π))
    (hops : ∀ op ∈ ops, OpEnvOK EnvOK op) (op : MultiRecv.Op π) (hop : OpEnvOK EnvOK op)
    (hlen : ops.length + 1 < 2 ^ 64) :
    let s := MultiRecv.run M (State.new b) ops
    (MultiRecv.step M s op).2 ≠ Res.panic ∧
    (∀ o ∈ newOuts s (MultiRecv.step M s op).1, NoPanic o.2) ∧
    TInv Inv NoPanic (MultiRecv.step M s op).1 := by
  intro s
  have hinv := tinv_run M Inv EnvOK NoPanic hT ops (State.new b) hops (tinv_new Inv NoPanic b)
  have hinv' := tinv_step M Inv EnvOK NoPanic hT s op hop hinv
  refine ⟨step_res_ne_panic M b ops op hlen, ?_, hinv'⟩
  intro o ho
  exact hinv'.2 o (List.mem_of_mem_drop ho)

/-- the bytes-level call is the model's `push` step on what the parser made of the datagram -/
theorem pushBytes_eq_step {σ π Out : Type} (M : Machine σ π Out) (env : List Nat → Alc.AlcPkt → π) (s : State σ Out)
    (ep : Endpoint) (d : List UInt8) :
    ∃ p, parsedOf env (bytes d) = .ok p ∧ pushBytes M env s ep (bytes d) = .ok (MultiRecv.step M s (.push ep p)) := by
  have ht := parse_total d
  simp only [pushBytes, parsedOf]
  cases hp : Alc.parseAlcPkt (bytes d) with
  | panic w => rw [hp] at ht; simp [_root_.Flute.Out.isPanic] at ht
  | err => exact ⟨none, rfl, rfl⟩
  | ok p => exact ⟨_, rfl, rfl⟩

/-- **multi_push_total** (any machine): every datagram - parsable or not - from every endpoint, in every reachable
    state: `MultiReceiver::push` returns (`Ok`/`Err`), nothing panics. -/
theorem multi_push_total_gen {σ π Out : Type} (M : Machine σ π Out) (Inv : σ → Prop) (EnvOK : π → Prop)
    (NoPanic : Out → Prop) (hT : M.Total Inv EnvOK NoPanic) (b : Bool) (ops : List (MultiRecv.Op π))
    (hops : ∀ op ∈ ops, OpEnvOK EnvOK op) (hlen : ops.length + 1 < 2 ^ 64)
    (env : List Nat → Alc.AlcPkt → π) (ep : Endpoint) (d : List UInt8)
    (henv : ∀ p, Alc.parseAlcPkt (bytes d) = .ok p → EnvOK (env (bytes d) p)) :
    let s := MultiRecv.run M (State.new b) ops
    ∃ s' r, pushBytes M env s ep (bytes d) = .ok (s', r) ∧ r ≠ Res.panic ∧
      (∀ o ∈ newOuts s s', NoPanic o.2) ∧ TInv Inv NoPanic s' := by
  intro s
  obtain ⟨p, hp, hpush⟩ := pushBytes_eq_step M env s ep d
  have hop : OpEnvOK EnvOK (MultiRecv.Op.push ep p) := by
    cases p with
    | none => trivial
    | some pkt =>
      simp only [parsedOf] at hp
      cases hq : Alc.parseAlcPkt (bytes d) with
      | panic w => rw [hq] at hp; cases hp
      | err => rw [hq] at hp; cases hp
      | ok q =>
        rw [hq] at hp
        injection hp with hp; injection hp with hp; subst hp
        exact henv q hq
  have h := multi_step_total M Inv EnvOK NoPanic hT b ops hops (.push ep p) hop hlen
  exact ⟨_, _, hpush, h.1, h.2.1, h.2.2⟩

/-- **multi_reject_preserves_state**: a datagram rejected by the parser makes `MultiReceiver::push` return `Err` and
    leaves the WHOLE receiver untouched - the session table with every session's state, the filter, what listeners
    and writers have been told. -/
theorem multi_reject_preserves_state {σ π Out : Type} (M : Machine σ π Out) (env : List Nat → Alc.AlcPkt → π)
    (s : State σ Out) (ep : Endpoint) (d : List Nat) (h : Alc.parseAlcPkt d = .err) :
    pushBytes M env s ep d = .ok (s, Res.parseErr) := by
  simp [pushBytes, parsedOf, h, MultiRecv.push]

/-- ... and so does every datagram that is not dispatched to a session: unparsable (`Err`), rejected by the TSI filter
    (`Ok`), or a close-session indication for a session that does not exist (`Ok`).  In particular every session of the
    table is exactly as it was. -/
theorem multi_undispatched_preserves_state {σ π Out : Type} (M : Machine σ π Out) (s : State σ Out) (ep : Endpoint)
    (p : Option (Pkt π)) (h : (MultiRecv.push M s ep p).2 ≠ Res.done) :
    (MultiRecv.push M s ep p).1 = s ∧ ∀ k, AL.get (MultiRecv.push M s ep p).1.table k = AL.get s.table k := by
  have : (MultiRecv.push M s ep p).1 = s := by
    cases p with
    | none => rfl
    | some pkt =>
      simp only [MultiRecv.push] at h ⊢
      split
      · rfl
      · rename_i hf
        simp only [hf] at h
        split
        · rename_i hc
          simp only [hc, ↓reduceIte] at h
          split
          · rename_i st hg; simp [hg] at h
          · rfl
        · rename_i hc
          simp only [hc] at h
          split
          · rename_i st hg; simp [hg] at h
          · rename_i hg; simp [hg] at h
  exact ⟨this, fun k => by rw [this]⟩

/-! ### the receiver model -/

/-- admissible byte-level call: its `now` argument is a sane time (`Recv.TimeSane`: between 1970 and year ~146000) -/
def BOpOK : BOp → Prop
  | .push _ _ now _ => Recv.TimeSane now
  | .cleanup now _ => Recv.TimeSane now
  | .drop now => Recv.TimeSane now
  | _ => True

theorem bop_env_ok (b : BOp) (h : BOpOK b) : OpEnvOK REnvOK b.abs :=
  benv_ok b (fun _ _ _ _ e => by subst e; exact h) (fun _ _ e => by subst e; exact h) (fun _ e => by subst e; exact h)

/-- **multi_push_total** for the modelled receivers: after ANY byte-level history (datagrams of any content from any
    endpoint, cleanups, filter operations, listener registrations, ticks; fewer than 2^64 calls, sane `now`s), for
    every datagram `d`, every endpoint, every parser answer for a completed FDT: `MultiReceiver::push` returns; the
    demultiplexer does not panic and no `Receiver::push` / destruction it triggers panics. -/
theorem multi_push_total {τ : Type} (I : Recv.ObjIface τ) (hI : I.CompleteSound) (cfg : Recv.Config) (timeout : Nat)
    (b : Bool) (hist : List BOp) (hhist : ∀ o ∈ hist, BOpOK o) (hlen : hist.length + 1 < 2 ^ 64)
    (ep : Endpoint) (d : List UInt8) (now : Int) (hn : Recv.TimeSane now) (ans : Recv.FdtAns) :
    let M := recvMachine I cfg timeout
    let s := MultiRecv.run M (State.new b) (hist.map BOp.abs)
    ∃ s' r, pushBytes M (recvEnv now ans) s ep (bytes d) = .ok (s', r) ∧ r ≠ Res.panic ∧
      (∀ o ∈ newOuts s s', o.2.res ≠ none) := by
  intro M s
  obtain ⟨s', r, h1, h2, h3, _⟩ := multi_push_total_gen M _ REnvOK _ (recvMachine_total I hI cfg timeout) b
    (hist.map BOp.abs)
    (by intro op hop; obtain ⟨o, ho, rfl⟩ := List.mem_map.1 hop; exact bop_env_ok o (hhist o ho))
    (by simpa using hlen) (recvEnv now ans) ep d
    (by intro p hp; exact ⟨hn, Recv.ofAlc_wf d p hp⟩)
  exact ⟨s', r, h1, h2, h3⟩

/-- **multi_history_total**: the same for EVERY call of every byte-level history (push, cleanup, drop, filter and
    listener operations): no call panics. -/
theorem multi_history_total {τ : Type} (I : Recv.ObjIface τ) (hI : I.CompleteSound) (cfg : Recv.Config) (timeout : Nat)
    (b : Bool) (hist : List BOp) (hhist : ∀ o ∈ hist, BOpOK o) (call : BOp) (hcall : BOpOK call)
    (hlen : hist.length + 1 < 2 ^ 64) :
    let M := recvMachine I cfg timeout
    let s := MultiRecv.run M (State.new b) (hist.map BOp.abs)
    (MultiRecv.step M s call.abs).2 ≠ Res.panic ∧ ∀ o ∈ newOuts s (MultiRecv.step M s call.abs).1, o.2.res ≠ none := by
  intro M s
  have h := multi_step_total M _ REnvOK _ (recvMachine_total I hI cfg timeout) b (hist.map BOp.abs)
    (by intro op hop; obtain ⟨o, ho, rfl⟩ := List.mem_map.1 hop; exact bop_env_ok o (hhist o ho))
    call.abs (bop_env_ok call hcall) (by simpa using hlen)
  exact ⟨h.1, h.2.1⟩

/-- non-vacuity: garbage, a filter operation and a cleanup form an admissible history -/
example : ∀ o ∈ [BOp.push ⟨none, 1, 5000⟩ [0, 0, 1, 0] 1700000000000000 .err, .addListen ⟨none, 1, 5000⟩ 1,
    .cleanup 1700000000000000 (fun _ => ⟨fun _ => false, fun _ => false⟩)], BOpOK o := by
  intro o ho
  simp only [List.mem_cons, List.not_mem_nil, or_false] at ho
  rcases ho with rfl | rfl | rfl <;> simp [BOpOK, Recv.TimeSane]

end Flute.Props.C04.Multi
