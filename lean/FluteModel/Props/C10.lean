import FluteModel.FdtAbs
import FluteModel.Spec.FdtSpec
import FluteModel.Lemmas.FdtAbs
import FluteModel.Lemmas.FdtSched
import FluteModel.Lemmas.FdtSchedPoll
/-
  Property C10 - FDT instances list exactly the announced objects, survive XML, fresh id / expiry.
  All theorems quantify over every configuration and every operation history
  (`add / remove / publish / set_complete / transfer started / transfer finished / FDT session polled`, any times).
  XML bytes are outside the model (validated by expat on every generated case in the correspondence).
-/
namespace Flute.Props.C10
open Flute Flute.FdtAbs Flute.Spec.Fdt Flute.Lemmas.FdtAbs

/-! ## which files an instance lists -/

/-- `fdt_lists_exactly`: after ANY history, an instance built at any time lists (in add order) exactly
    - FullFDT: the objects added, not removed, not finished;
    - ObjectsBeingTransferred: those of them in transmission,
    as determined from the API-visible trace alone (`Spec.Fdt.track`). -/
theorem fdt_lists_exactly (cfg : Cfg) (ops : List Op) (now : Nat) :
    (instanceAt (run (init cfg) ops).1 now).files.map (fun f => f.toi) =
      announced cfg.mode (track (trace (init cfg) ops)) := by
  have hsim := run_sim (init cfg) [] ops rfl
  have hcfg : (run (init cfg) ops).1.cfg = cfg := run_cfg (init cfg) ops
  simp only [instanceAt, List.map_map]
  have e1 : ((fun f : AFile => f.toi) ∘ fun f => toFileXml f now) = fun f : FileDesc => f.toi := rfl
  rw [e1]
  unfold listedFiles announced track
  rw [hcfg]
  cases cfg.mode with
  | fullFdt =>
    simp only
    have := congrArg (List.map (fun v : V => v.1)) hsim
    simp only [List.map_map] at this
    have e2 : ((fun v : V => v.1) ∘ viewF) = fun f : FileDesc => f.toi := rfl
    rw [e2] at this
    rw [this]
    unfold absFiles announcedFull
    simp only [List.map_map]
    rfl
  | beingTransferred =>
    simp only
    rw [filter_tr_F, hsim]
    unfold announcedBeingTransferred
    rw [filter_tr_G]

/-- the same for every instance actually published: the instance published by the last operation of a history lists
    exactly the objects announced at that point of the trace -/
theorem publication_lists_exactly (cfg : Cfg) (pre : List Op) (op : Op) (p : Pub)
    (hp : p ∈ (step (run (init cfg) pre).1 op).2.1) :
    p.inst.files.map (fun f => f.toi) = announced cfg.mode (track (trace (init cfg) (pre ++ [op]))) := by
  rw [step_pub_inst _ _ _ hp, ← fdt_lists_exactly cfg (pre ++ [op]) p.time, run_append]
  simp [run]

/-- being-transferred mode, the reading that is proved: "in transmission" ranges over the objects still in the FDT.  Witness
    of the difference to the literal text (finding fdtabs-5): object 1 is started, removed by the application while its
    transfer runs (the scheduler keeps sending it), object 2 starts - the instance published then lists only TOI 2. -/
theorem removed_in_transmission_not_listed :
    ((run (init { mode := .beingTransferred, startId := 1, durationUs := 3600000000, oti := ⟨0, 0, 64, 1400, 0, none⟩,
                  groups := none })
        [.add ⟨"61", "74", 6000, 6000, 0, none, none, none, none, none, 1, false⟩,
         .add ⟨"62", "74", 3, 3, 0, none, none, none, none, none, 1, false⟩,
         .tstart 1 5, .remove 1, .tstart 2 5]).2.map
      (fun p => p.inst.files.map (fun f => f.toi))) = [[1], [2]] := by
  decide

/-! ## attributes -/

/-- `file_attrs_unaltered`: every file entry of an instance built after ANY history stems from an `add` of the trace that
    returned its TOI, and carries exactly the values given there: location, lengths, type, encoding, MD5, ETag, groups,
    cache directive (relative expiry anchored at the instance time), and - resolving File-level over FDT-level
    attributes as a reader does - the FEC-OTI attributes of the OTI the object is sent with (per-object override or
    session default, Z = number of source blocks for RaptorQ / Raptor). -/
theorem file_attrs_unaltered (cfg : Cfg) (ops : List Op) (now : Nat) (f : AFile)
    (hf : f ∈ (instanceAt (run (init cfg) ops).1 now).files) :
    ∃ a o, (Op.add a, Res.added (.ok f.toi)) ∈ trace (init cfg) ops ∧
      effectiveOti cfg.oti a = .ok (some o) ∧
      f.location = a.location ∧ f.contentLength = some a.contentLength ∧
      f.transferLength = some a.transferLength ∧ f.contentType = some a.contentType ∧
      f.contentEncoding = (if a.cenc = 0 then none else some (cencStr a.cenc)) ∧
      f.md5 = a.md5 ∧ f.etag = a.etag ∧ f.groups = a.groups.getD [] ∧
      f.cache = a.cache.map (fun cc => fdtCache cc now) ∧
      resolveOti (instanceAt (run (init cfg) ops).1 now).oti f.oti = getAttributes o := by
  rcases file_origin cfg ops now f hf with ⟨fd, _, rfl, hev, hoti⟩
  refine ⟨fd.attrs, fd.oti, hev, hoti, rfl, rfl, rfl, rfl, rfl, rfl, rfl, rfl, rfl, ?_⟩
  have : (instanceAt (run (init cfg) ops).1 now).oti = fdtOtiAttrs cfg.oti := by
    simp only [instanceAt, run_cfg]; rfl
  rw [this]
  exact resolve_fileOti cfg.oti fd hoti

/-- the FDT-level groups are the configured ones -/
theorem fdt_groups_unaltered (cfg : Cfg) (ops : List Op) (now : Nat) :
    (instanceAt (run (init cfg) ops).1 now).groups = cfg.groups.getD [] := by
  simp only [instanceAt, run_cfg]; rfl

/-- the TOIs handed out by `add` are pairwise different, so "the `add` that returned this TOI" is unique - as long as the
    TOI counter does not wrap around its configured width (after a wrap the allocator's skipping of still-reserved
    TOIs keeps them apart: property C15, not modelled here) -/
theorem added_tois_fresh (cfg : Cfg) (pre post : List Op) (a b : ObjAttrs) (t : Nat)
    (hnw : (run (init cfg) pre).1.nextToi + (post.length + 1) < 2^cfg.toiBits)
    (h1 : (step (run (init cfg) pre).1 (.add a)).2.2 = .added (.ok t))
    (h2 : (Op.add b, Res.added (.ok t)) ∈ trace (step (run (init cfg) pre).1 (.add a)).1 post) : False := by
  have hcfg : (run (init cfg) pre).1.cfg = cfg := run_cfg (init cfg) pre
  simp only [step, Res.added.injEq] at h1 h2
  obtain ⟨ht, hn⟩ := add_ok_eq _ a t h1
  rw [hcfg, succToi_of_lt _ _ (by omega)] at hn
  have hc2 : (add (run (init cfg) pre).1 a).1.cfg = cfg := by
    have := step_cfg (run (init cfg) pre).1 (.add a)
    simp only [step] at this
    rw [this, hcfg]
  have := trace_toi_ge _ post b t h2 (by rw [hc2, hn]; omega)
  omega

/-! ## flute's receiver reads the same values back -/

/-- `receiver_reads_same`: for every file entry of an instance built after ANY history, the model of flute's receiver-side
    extraction (`get_oti_for_file`, `get_transfer_length`, `get_object_cache_control`, `attach_fdt`/`create_meta`) applied to
    the abstract instance returns the sender's values: location, lengths, type, content encoding, MD5, ETag, the OTI the
    object is sent with (all fields, scheme-specific info decoded), the cache directive (`Spec.Fdt.cacheRead`), and the
    FDT-level followed by the per-object groups as the XML library reads element text (`rd`, see D23).
    Hypotheses = the real field ranges of what was announced (`Oti.wf`/`coherent`, cenc in 0..3) and NTP era 0. -/
theorem receiver_reads_same (rd : String → String) (cfg : Cfg) (ops : List Op) (now : Nat) (f : AFile)
    (hf : f ∈ (instanceAt (run (init cfg) ops).1 now).files)
    (hera : now / 1000000 + 2208988800 + cfg.durationUs / 1000000 < 2^32)
    (hin : ∀ a t, (Op.add a, Res.added (.ok t)) ∈ trace (init cfg) ops →
        (a.oti.getD cfg.oti).wf ∧ (a.oti.getD cfg.oti).coherent ∧ a.cenc ≤ 3 ∧ cacheInEra now a.cache) :
    ∃ a o, (Op.add a, Res.added (.ok f.toi)) ∈ trace (init cfg) ops ∧
      effectiveOti cfg.oti a = .ok (some o) ∧
      recvMeta rd (instanceAt (run (init cfg) ops).1 now) f = .ok (some
        { location := a.location, contentLength := some a.contentLength, transferLength := a.transferLength,
          contentType := some a.contentType, cenc := a.cenc, md5 := a.md5, oti := o,
          cache := cacheRead cfg.durationUs now a.cache, etag := a.etag,
          groups := (cfg.groups.getD [] ++ a.groups.getD []).map rd }) := by
  rcases file_origin cfg ops now f hf with ⟨fd, _, rfl, hev, hoti⟩
  obtain ⟨hwf, hco, hce, hca⟩ := hin fd.attrs fd.toi hev
  have hcfg : (run (init cfg) ops).1.cfg = cfg := run_cfg (init cfg) ops
  refine ⟨fd.attrs, fd.oti, hev, hoti, ?_⟩
  unfold recvMeta
  rw [recvOtiForFile_eq _ now fd (by rw [hcfg]; exact hoti) (by rw [hcfg]; exact hwf) (by rw [hcfg]; exact hco)]
  simp only
  have hg : (instanceAt (run (init cfg) ops).1 now).groups = cfg.groups.getD [] := by
    simp only [instanceAt, hcfg]
  rw [recvCenc_eq fd now hce, recvCache_eq _ now fd (by rw [hcfg]; exact hera) hca, hcfg, hg]
  rfl

/-- with an XML reader that returns element text unaltered the groups arrive unaltered (for quick-xml this holds for
    strings without U+2028 / U+0085 / CR - finding D23) -/
theorem groups_read_unaltered (rd : String → String) (gs : List String) (h : ∀ g ∈ gs, rd g = g) : gs.map rd = gs := by
  induction gs with
  | nil => rfl
  | cons g gs ih =>
    simp only [List.map_cons]
    rw [h g (by simp), ih (fun x hx => h x (by simp [hx]))]

/-! ## the same for the instances that are actually PUBLISHED (queued for transmission) -/

/-- every published instance is - as a whole record: files, attributes, groups, FDT-level OTI, Complete, FullFDT, Expires -
    the instance built at its publish time in the state right after the operation that published it -/
theorem published_is_instanceAt (cfg : Cfg) (ops : List Op) (p : Pub) (hp : p ∈ (run (init cfg) ops).2) :
    ∃ pre op post, ops = pre ++ op :: post ∧ p.inst = instanceAt (run (init cfg) (pre ++ [op])).1 p.time := by
  rcases run_pub_whole (init cfg) ops p hp with ⟨pre, op, post, h1, _, h3⟩
  exact ⟨pre, op, post, h1, h3⟩

/-- `file_attrs_unaltered` for every published instance -/
theorem published_attrs_unaltered (cfg : Cfg) (ops : List Op) (p : Pub) (hp : p ∈ (run (init cfg) ops).2)
    (f : AFile) (hf : f ∈ p.inst.files) :
    ∃ pre op post, ops = pre ++ op :: post ∧
    ∃ a o, (Op.add a, Res.added (.ok f.toi)) ∈ trace (init cfg) (pre ++ [op]) ∧
      effectiveOti cfg.oti a = .ok (some o) ∧
      f.location = a.location ∧ f.contentLength = some a.contentLength ∧
      f.transferLength = some a.transferLength ∧ f.contentType = some a.contentType ∧
      f.contentEncoding = (if a.cenc = 0 then none else some (cencStr a.cenc)) ∧
      f.md5 = a.md5 ∧ f.etag = a.etag ∧ f.groups = a.groups.getD [] ∧
      f.cache = a.cache.map (fun cc => fdtCache cc p.time) ∧
      resolveOti p.inst.oti f.oti = getAttributes o ∧ p.inst.groups = cfg.groups.getD [] := by
  rcases published_is_instanceAt cfg ops p hp with ⟨pre, op, post, h1, h2⟩
  refine ⟨pre, op, post, h1, ?_⟩
  rw [h2] at hf ⊢
  rcases file_attrs_unaltered cfg (pre ++ [op]) p.time f hf with ⟨a, o, h⟩
  exact ⟨a, o, h.1, h.2.1, h.2.2.1, h.2.2.2.1, h.2.2.2.2.1, h.2.2.2.2.2.1, h.2.2.2.2.2.2.1, h.2.2.2.2.2.2.2.1,
    h.2.2.2.2.2.2.2.2.1, h.2.2.2.2.2.2.2.2.2.1, h.2.2.2.2.2.2.2.2.2.2.1, h.2.2.2.2.2.2.2.2.2.2.2,
    fdt_groups_unaltered cfg (pre ++ [op]) p.time⟩

/-- `receiver_reads_same` for every published instance -/
theorem published_receiver_reads_same (rd : String → String) (cfg : Cfg) (ops : List Op) (p : Pub)
    (hp : p ∈ (run (init cfg) ops).2) (f : AFile) (hf : f ∈ p.inst.files)
    (hera : p.time / 1000000 + 2208988800 + cfg.durationUs / 1000000 < 2^32)
    (hin : ∀ a t, (Op.add a, Res.added (.ok t)) ∈ trace (init cfg) ops →
        (a.oti.getD cfg.oti).wf ∧ (a.oti.getD cfg.oti).coherent ∧ a.cenc ≤ 3 ∧ cacheInEra p.time a.cache) :
    ∃ a o, (Op.add a, Res.added (.ok f.toi)) ∈ trace (init cfg) ops ∧
      effectiveOti cfg.oti a = .ok (some o) ∧
      recvMeta rd p.inst f = .ok (some
        { location := a.location, contentLength := some a.contentLength, transferLength := a.transferLength,
          contentType := some a.contentType, cenc := a.cenc, md5 := a.md5, oti := o,
          cache := cacheRead cfg.durationUs p.time a.cache, etag := a.etag,
          groups := (cfg.groups.getD [] ++ a.groups.getD []).map rd }) := by
  rcases published_is_instanceAt cfg ops p hp with ⟨pre, op, post, h1, h2⟩
  have hsub : ∀ e, e ∈ trace (init cfg) (pre ++ [op]) → e ∈ trace (init cfg) ops := by
    intro e he
    rw [h1, show pre ++ op :: post = (pre ++ [op]) ++ post by simp]
    exact trace_prefix _ _ _ e he
  rw [h2] at hf ⊢
  rcases receiver_reads_same rd cfg (pre ++ [op]) p.time f hf hera (fun a t h => hin a t (hsub _ h)) with ⟨a, o, h1', h2', h3'⟩
  exact ⟨a, o, hsub _ h1', h2', h3'⟩

/-- every string of every published instance is a string XML 1.0 can carry (no forbidden character reaches the
    serialiser): the model-level half of the well-formedness clause; the bytes themselves are quick-xml's (validated by expat).
    The content location is a `url::Url` (controls are percent-encoded by the URL library) and is checked like the others. -/
theorem published_strings_are_xml (cfg : Cfg) (ops : List Op) (p : Pub) (hp : p ∈ (run (init cfg) ops).2) :
    p.inst.groups.all cfg.xmlOk = true ∧
    ∀ f ∈ p.inst.files, cfg.xmlOk f.location = true ∧ f.contentType.all cfg.xmlOk = true ∧ f.md5.all cfg.xmlOk = true ∧
      f.etag.all cfg.xmlOk = true ∧ f.groups.all cfg.xmlOk = true := by
  rcases run_pub_whole (init cfg) ops p hp with ⟨pre, op, post, _, hstep, hinst⟩
  have hcfg : (run (init cfg) pre).1.cfg = cfg := run_cfg (init cfg) pre
  have hg := (step_pub_whole _ op p hstep).2
  rw [hcfg] at hg
  rw [hinst]
  refine ⟨by rw [fdt_groups_unaltered]; exact hg, ?_⟩
  intro f hf
  rcases file_origin cfg (pre ++ [op]) p.time f hf with ⟨fd, hmem, rfl, _, _⟩
  have hx := run_xmlInv (init cfg) (pre ++ [op]) (by intro f hf; simp [init] at hf) fd hmem
  rw [run_cfg] at hx
  have hic : (init cfg).cfg = cfg := rfl
  rw [hic] at hx
  unfold attrsXmlOk at hx
  simp only [Bool.and_eq_true] at hx
  obtain ⟨⟨⟨⟨h1, h2⟩, h3⟩, h4⟩, h5⟩ := hx
  exact ⟨h1, by simpa [toFileXml] using h2, h3, h4, h5⟩

/-! ## Expires -/

/-- `expires_eq`: every published instance carries `Expires = ntp seconds(publish time) + whole seconds of fdt_duration` -/
theorem expires_eq (cfg : Cfg) (ops : List Op) (p : Pub) (hp : p ∈ (run (init cfg) ops).2) :
    p.inst.expires = ntpSecs p.time + cfg.durationUs / 1000000 :=
  run_pub_expires (init cfg) ops p hp

/-- ... and so does an instance built at any time (`fdt_xml_data`) -/
theorem expires_eq_current (cfg : Cfg) (ops : List Op) (now : Nat) :
    (instanceAt (run (init cfg) ops).1 now).expires = ntpSecs now + cfg.durationUs / 1000000 := by
  simp only [instanceAt, run_cfg]
  rfl

/-- within NTP era 0 (until 2036) `ntpSecs` is the floor of the time in seconds since 1900 -/
theorem ntpSecs_eq_floor (t : Nat) (h : t / 1000000 + 2208988800 < 2^32) : ntpSecs t = ntpFloor t := by
  unfold ntpSecs ntpFloor
  exact Nat.mod_eq_of_lt h

example : ntpSecs 1700000000900000 = 3908988800 := by decide

/-- Expires against the spec, in one statement, for every PUBLISHED instance whose expiry lies in NTP era 0 (before
    2036-02-07T06:28:16Z): `Expires` = whole seconds since 1900 of the publish time + whole seconds of the duration, and
    flute's receiver reads the expiry instant back -/
theorem expires_spec_era0 (cfg : Cfg) (ops : List Op) (p : Pub) (hp : p ∈ (run (init cfg) ops).2)
    (hera : p.time / 1000000 + 2208988800 + cfg.durationUs / 1000000 < 2^32) :
    p.inst.expires = ntpFloor p.time + cfg.durationUs / 1000000 ∧
    recvExpiration p.inst = some (expiryUs cfg.durationUs p.time) := by
  refine ⟨?_, ?_⟩
  · rw [expires_eq cfg ops p hp, ntpSecs_eq_floor p.time (Nat.lt_of_le_of_lt (Nat.le_add_right _ _) hera)]
  · rcases published_is_instanceAt cfg ops p hp with ⟨pre, op, post, _, h2⟩
    rw [h2]
    have hc : (run (init cfg) (pre ++ [op])).1.cfg = cfg := run_cfg _ _
    have := recvExpiration_eq (run (init cfg) (pre ++ [op])).1 p.time (by rw [hc]; exact hera)
    rw [hc] at this
    exact this

/-- NTP era 1 (finding fdtabs-4): an instance published one second before the wrap with a duration of one hour carries
    `Expires = 4294970895` (seconds truncated to 32 bits, duration added afterwards) and flute's receiver cannot read an
    expiry from it; one second later `Expires = 3600` -/
theorem expires_era1_unreadable :
    let cfg : Cfg := { mode := .fullFdt, startId := 1, durationUs := 3600000000, oti := ⟨0, 0, 64, 1400, 0, none⟩, groups := none }
    (instanceAt (init cfg) 2085978495000000).expires = 4294970895 ∧
    recvExpiration (instanceAt (init cfg) 2085978495000000) = none ∧
    (instanceAt (init cfg) 2085978496000000).expires = 3600 ∧
    recvExpiration (instanceAt (init cfg) 2085978496000000) = none := by
  decide

/-! ## instance ids -/

/-- every instance id fits the 20-bit field of EXT_FDT (so the version nibble next to it is never disturbed) -/
theorem id_in_range (cfg : Cfg) (hstart : cfg.startId < 2^20) (ops : List Op) (p : Pub)
    (hp : p ∈ (run (init cfg) ops).2) : p.id < 2^20 := by
  rcases List.getElem?_of_mem hp with ⟨k, hk⟩
  rw [run_ids (init cfg) hstart ops k p hk]
  exact Nat.mod_lt _ (by decide)


/-- `id_sequence`: the k-th publication (explicit, automatic or on transfer start) carries `(fdt_start_id + k) mod 2^20` -/
theorem id_sequence (cfg : Cfg) (hstart : cfg.startId < 2^20) (ops : List Op) (k : Nat) (p : Pub)
    (hk : (run (init cfg) ops).2[k]? = some p) : p.id = (cfg.startId + k) % 2^20 :=
  run_ids (init cfg) hstart ops k p hk

/-- `id_content_unique_in_window`: two publications with the same id are at least 2^20 publications apart -/
theorem id_content_unique_in_window (cfg : Cfg) (hstart : cfg.startId < 2^20) (ops : List Op) (i j : Nat) (p q : Pub)
    (hij : i < j) (hi : (run (init cfg) ops).2[i]? = some p) (hj : (run (init cfg) ops).2[j]? = some q)
    (hid : p.id = q.id) : j - i ≥ 2^20 := by
  have h1 := id_sequence cfg hstart ops i p hi
  have h2 := id_sequence cfg hstart ops j q hj
  rw [h1, h2] at hid
  have : (2:Nat)^20 = 1048576 := by decide
  rw [this] at hid ⊢
  omega

example : (1048575 + 1) % 2^20 = 0 := by decide

/-! ## republication before expiry (D20) -/

/-- `last_publish` of the sender is the publish time of the latest instance -/
theorem lastPublish_is_latest (cfg : Cfg) (ops : List Op) (p : Pub)
    (h : (run (init cfg) ops).2.getLast? = some p) : (run (init cfg) ops).1.lastPublish = some p.time := by
  rw [run_lastPublish, h]

/- FULL statement (property text: "an instance is superseded before it expires as long as the sender is polled"):
     for every configuration, after any history `pre` whose latest instance was published at `T`, if from then on the idle
     FDT session is polled at least every δ, a successor is published at a time `< expiryUs duration T`.
   It is FALSE for `fdt_duration <= 30 s` (witnesses below, replayed on the real code: findings.d/D20.json) because the
   republish condition of `current_fdt_will_expire` has a lead of 0 s (duration <= 10 s) resp. 1 s (<= 30 s) on the exact
   publish time while `Expires` is floored to whole seconds.  What is proved, for every `fdt_duration > 30 s`: -/

/-- `superseded_before_expiry_partial` (duration > 30 s): after any history whose latest publication was at `T`, any
    continuation `ops` (any operations) all of whose time stamps lie before the expiry of that instance and that
    contains more polls of the idle FDT session later than `T + duration - 5 s` than there are instances still
    queued, publishes a successor - before the expiry (`hadm`: the FDT object fits the session default OTI, see below). -/
theorem superseded_before_expiry_partial (cfg : Cfg) (hd : cfg.durationUs > 30000000)
    (hadm : ∀ i, cfg.fdtFits i = true) (hgr : (cfg.groups.getD []).all cfg.xmlOk = true) (pre ops : List Op) (T : Nat)
    (hT : (run (init cfg) pre).1.lastPublish = some T)
    (hpolls : (run (init cfg) pre).1.queue.length < (ops.filter (isDuePoll cfg T)).length)
    (hbefore : ∀ op ∈ ops, ∀ t, opTime op = some t → t < expiryUs cfg.durationUs T) :
    ∃ p ∈ (run (run (init cfg) pre).1 ops).2, p.time < expiryUs cfg.durationUs T := by
  have hcfg : (run (init cfg) pre).1.cfg = cfg := run_cfg (init cfg) pre
  have hne := supersede_core (run (init cfg) pre).1 T (by rw [hcfg]; exact hd) hT
    (by intro s' hs' now; unfold admitted; rw [hs', hcfg, hgr, hadm]; rfl) ops
    (by rw [hcfg]; exact hpolls)
  cases hps : (run (run (init cfg) pre).1 ops).2 with
  | nil => exact absurd hps hne
  | cons p ps =>
    refine ⟨p, by simp, ?_⟩
    rcases run_pub_times (run (init cfg) pre).1 ops p (by rw [hps]; simp) with ⟨op, hop, ht⟩
    exact hbefore op hop p.time ht

/-- the window is never empty: with duration > 30 s every instant up to `T + duration - 2 s` lies before the expiry, so a
    sender polled at least every 3 s has a due poll before the expiry -/
theorem due_window (d T t : Nat) (h : t + 2000000 ≤ T + d) : t < expiryUs d T := by
  unfold expiryUs
  omega

/-- non-vacuity: duration 60 s, published at x.9 s, polled at +56 s: a successor is published there, 3.9 s before expiry -/
example :
    let cfg : Cfg := { mode := .fullFdt, startId := 7, durationUs := 60000000, oti := ⟨0, 0, 64, 1400, 0, none⟩, groups := none }
    ((run (init cfg) [.publish 1700000000900000, .poll 1700000000900000, .poll 1700000056900000]).2.map (fun p => (p.id, p.time)))
      = [(7, 1700000000900000), (8, 1700000056900000)] ∧ 1700000056900000 < expiryUs cfg.durationUs 1700000000900000 := by
  decide

/-- D20 witness 1: `fdt_duration = 1 s`, first instance published at x.9 s (Expires = x+1 s), FDT session polled every
    100 ms: the successor is only published at x+1.9 s, 0.9 s after the first instance expired. -/
theorem superseded_before_expiry_false_1s :
    let cfg : Cfg := { mode := .fullFdt, startId := 5, durationUs := 1000000, oti := ⟨0, 0, 64, 1400, 0, none⟩, groups := none }
    let ops : List Op := Op.publish 1700000000900000 ::
      (List.range 14).map (fun i => Op.poll (1700000000900000 + 100000 * i))
    (run (init cfg) ops).2.map (fun p => p.time) = [1700000000900000, 1700000001900000] ∧
    expiryUs cfg.durationUs 1700000000900000 = 1700000001000000 := by
  decide

/-- D20 witness 2: `fdt_duration = 11 s` (lead 1 s), published at x.999999 s (Expires = x+11 s), polled every second:
    the successor is published at x+11.999999 s, after the expiry. -/
theorem superseded_before_expiry_false_11s :
    let cfg : Cfg := { mode := .fullFdt, startId := 5, durationUs := 11000000, oti := ⟨0, 0, 64, 1400, 0, none⟩, groups := none }
    let ops : List Op := Op.publish 1700000000999999 ::
      (List.range 13).map (fun i => Op.poll (1700000000999999 + 1000000 * i))
    (run (init cfg) ops).2.map (fun p => p.time) = [1700000000999999, 1700000011999999] ∧
    expiryUs cfg.durationUs 1700000000999999 = 1700000011000000 := by
  decide

/-! ## an FDT that does not fit the session default OTI (`FileDesc::new` refuses the FDT object) -/

/-- an explicit `publish` that is refused returns the error and changes nothing: nothing is queued, the instance id is
    not consumed, `last_publish` is untouched, the files are as before -/
theorem refused_publish_changes_nothing (s : State) (now : Nat) (h : admitted s now = false) :
    step s (.publish now) = (s, [], .published false) := by
  simp [step, tryPublish, h]

/-- ... and the automatic publications (`self.publish(now).ok()` on expiry and on transfer start) swallow the error: when
    the FDT never fits, NO instance is ever published whatever the application does and however often it polls, no id is
    consumed and `last_publish` stays unset - the session is silently wedged (finding fdtabs-2) -/
theorem refused_fdt_never_published (cfg : Cfg) (hadm : ∀ i, cfg.fdtFits i = false) (ops : List Op) :
    (run (init cfg) ops).2 = [] ∧ (run (init cfg) ops).1.fdtid = cfg.startId ∧
    (run (init cfg) ops).1.lastPublish = none := by
  have h := run_never_admitted (init cfg)
    (by intro s' hs' now; unfold admitted; rw [hs']; simp [init, hadm]) ops
  refine ⟨h, run_fdtid_nopub _ ops h, ?_⟩
  rw [run_lastPublish, h]
  rfl

/-- ... while in ObjectsBeingTransferred mode the objects are started all the same (and sent without any FDT announcing
    them - property C11's concern) -/
theorem refused_fdt_objects_still_start (s : State) (t now : Nat) (h : s.files.any (fun f => f.toi = t) = true) :
    (tstart s t now).1.files = s.files.map (fStart t) := by
  rw [tstart_files, h]; rfl

/-! ## link to the scheduler model (`FluteModel.Sched`, properties C11-C14): the operations `tstart` / `tdone` / `poll`
      are not free inputs there - they are what the scheduler model does -/

/-- `sched_refines_fdtabs`: for EVERY operation history of the scheduler model (add / publish / remove / trigger / read /
    set_complete, any times, any pacing ticks) there is a history of the abstract FDT model - its transfer starts are the
    scheduler's `StartTransfer`s, its transfer ends the scheduler's `StopTransfer`s, its polls the scheduler's pops of
    the FDT queue, its publications the scheduler's (explicit, on transfer start, before expiry) - such that the abstract
    state is the projection of the scheduler state (`FdtSched.Link`: files in the FDT with their transferring flag and
    transfer count, next instance id, queue length, complete flag, TOI counter) and the instances the scheduler has
    published are, in order, the abstract publications (same instance id, same listed TOIs).  Hence every theorem above
    about `(run (init cfg) aops).2` speaks about the instances the scheduler model emits. -/
theorem sched_refines_fdtabs (A : FdtSched.Ann) (S : Sched.Cfg) (hc : FdtSched.CfgOk A S) (hA : A.ok)
    (tbl : List Nat) (ops : List Sched.Op)
    (hb : (Sched.run (Sched.init S tbl) ops).nextToi + 1 < 2^A.cfg.toiBits) :
    ∃ aops : List Op,
      FdtSched.Link A S (Sched.run (Sched.init S tbl) ops) (run (init A.cfg) aops).1 (run (init A.cfg) aops).2 :=
  FdtSched.refines A S hc hA tbl ops hb

/-- non-vacuity of the hypotheses of the link: a No-Code session in FullFDT mode announcing 100-byte objects -/
def exampleAnn : FdtSched.Ann :=
  { cfg := { mode := .fullFdt, startId := 5, durationUs := 3600000000, oti := ⟨0, 0, 64, 1400, 0, none⟩, groups := none },
    base := fun _ => ⟨"61", "74", 100, 100, 0, none, none, none, none, none, 1, false⟩,
    otiOf := fun _ => ⟨0, 0, 64, 1400, 0, none⟩ }

def exampleSchedCfg : Sched.Cfg :=
  { mode := .full, fdtCarousel := .delay 1000000000, fdtDuration := 3600000000000, fdtStartId := 5, queues := [(0, 3)] }

example : FdtSched.CfgOk exampleAnn exampleSchedCfg ∧ exampleAnn.ok := by
  refine ⟨⟨.inl ⟨rfl, rfl⟩, rfl, ⟨rfl, ?_⟩, ?_, ?_⟩, ?_⟩
  · show (5 : Nat) < 2^20
    decide
  · show firstToi 112 1 = 1
    decide
  · intro a now h
    unfold admitted
    rw [h]
    rfl
  · intro t
    refine ⟨?_, ?_⟩
    · show effectiveOti ⟨0, 0, 64, 1400, 0, none⟩ ⟨"61", "74", 100, 100, 0, none, none, none, none, none, 1, false⟩ = _
      simp [effectiveOti, maxTransferLength, satMul64, rsRefused, exampleAnn]
    · simp [attrsXmlOk, exampleAnn]

/-- the k-th FDT instance the scheduler model publishes is the k-th publication of that abstract history: it carries the id
    `(fdt_start_id + k) mod 2^20` (`id_sequence`) and lists exactly the TOIs of the abstract instance - which is
    `instanceAt` of the abstract state at that point (`published_is_instanceAt`), lists exactly the announced objects
    (`publication_lists_exactly`) with unaltered attributes (`published_attrs_unaltered`) -/
theorem sched_instances_are_abstract (A : FdtSched.Ann) (S : Sched.Cfg) (hc : FdtSched.CfgOk A S) (hA : A.ok)
    (tbl : List Nat) (ops : List Sched.Op)
    (hb : (Sched.run (Sched.init S tbl) ops).nextToi + 1 < 2^A.cfg.toiBits)
    (k : Nat) (f : Sched.FileDesc) (hk : (Sched.run (Sched.init S tbl) ops).fdts[k]? = some f) :
    ∃ (aops : List Op) (p : Pub), (run (init A.cfg) aops).2[k]? = some p ∧
      f.fdtId = p.id ∧ f.content = p.inst.files.map (fun x => x.toi) ∧
      f.fdtId = (S.fdtStartId + k) % 2^20 ∧
      ∃ pre op post, aops = pre ++ op :: post ∧ p.inst = instanceAt (run (init A.cfg) (pre ++ [op])).1 p.time := by
  rcases FdtSched.refines A S hc hA tbl ops hb with ⟨aops, hl⟩
  have hp := hl.pubs
  have h1 : ((Sched.run (Sched.init S tbl) ops).fdts.map FdtSched.sig)[k]? = some (FdtSched.sig f) := by
    rw [List.getElem?_map, hk]; rfl
  rw [hp, List.getElem?_map] at h1
  cases hpk : (run (init A.cfg) aops).2[k]? with
  | none => rw [hpk] at h1; cases h1
  | some p =>
    rw [hpk] at h1
    simp only [Option.map_some, Option.some.injEq, FdtSched.sig, FdtSched.psig, Prod.mk.injEq] at h1
    have hid := id_sequence A.cfg (by rw [hc.startId.1]; exact hc.startId.2) aops k p hpk
    refine ⟨aops, p, hpk, h1.1.symm, h1.2.symm, ?_, published_is_instanceAt A.cfg aops p (List.mem_of_getElem? hpk)⟩
    rw [← h1.1, hid, hc.startId.1]

/-! ### republication in terms of `read()` calls -/

/-- `read_supersedes`: what `superseded_before_expiry_partial` calls a "poll of the idle FDT session" is a `read()` call made
    while no FDT instance is being transmitted or waiting (`Sender::read` polls the FDT session first): after ANY history of
    the scheduler model, such a `read(now)` with `now > last publish + fdt_duration - 5 s` (duration > 30 s, FDT admitted)
    publishes the successor in that very call.  With `sched_instances_are_abstract` the new scheduler instance is the next
    abstract publication.  NOT proved: a bound on how many consecutive `read()` calls can be busy transmitting an FDT instance
    (one packet per call, so its packet count) - the remaining gap between "read every δ" and "polled every δ". -/
theorem read_supersedes (S : Sched.Cfg) (tbl : List Nat) (ops : List Sched.Op) (now lp : Nat) (ticks : List (Nat × Nat))
    (hd : S.fdtDuration > 30000000000) (hfit : S.fdtFits = true)
    (hidle : (Sched.run (Sched.init S tbl) ops).fdtSess = none)
    (hq : (Sched.run (Sched.init S tbl) ops).fdtQueue = [])
    (hlp : (Sched.run (Sched.init S tbl) ops).lastPublish = some lp)
    (hdue : lp + S.fdtDuration - 5000000000 < now) :
    (Sched.run (Sched.init S tbl) ops).fdts.length + 1 ≤
      (Sched.run (Sched.init S tbl) (ops ++ [.read now ticks])).fdts.length :=
  FdtSched.read_supersedes S tbl ops now lp ticks hd hfit hidle hq hlp hdue

/-- non-vacuity: duration 60 s, published and sent at time 0, `read` at 56 s -/
example :
    let S : Sched.Cfg := { mode := .full, fdtCarousel := .delay 100000000000, fdtDuration := 60000000000, fdtStartId := 5,
                           queues := [(0, 1)] }
    let ops : List Sched.Op := [.publish 0, .read 0 [], .read 0 []]
    (Sched.run (Sched.init S []) ops).fdtSess = none ∧ (Sched.run (Sched.init S []) ops).fdtQueue = [] ∧
    (Sched.run (Sched.init S []) ops).lastPublish = some 0 ∧
    (Sched.run (Sched.init S []) (ops ++ [.read 56000000000 []])).fdts.length = 2 := by
  decide

/-- `getFile` finds a listed file by its TOI whenever the listed TOIs are pairwise different ... -/
theorem find_toi_of_nodup (l : List AFile) (h : (l.map (fun f => f.toi)).Nodup) (f : AFile) (hf : f ∈ l) :
    l.find? (fun g => decide (g.toi = f.toi)) = some f := by
  induction l with
  | nil => cases hf
  | cons g r ih =>
    simp only [List.map_cons, List.nodup_cons] at h
    rcases List.mem_cons.mp hf with rfl | hf
    · simp [List.find?_cons]
    · have hne : g.toi ≠ f.toi := fun e => h.1 (e ▸ List.mem_map_of_mem hf)
      simp only [List.find?_cons, hne, decide_false]
      exact ih h.2 hf

theorem getFile_of_nodup (I : AbsFdt) (h : (I.files.map (fun f => f.toi)).Nodup) (f : AFile) (hf : f ∈ I.files) :
    getFile I f.toi = some f := find_toi_of_nodup I.files h f hf

/-- ... which they are in every state the scheduler model reaches (TOIs in the FDT are pairwise different: `Link.nodup`,
    from the TOI counter - the allocator-level statement is C15's `live_unique`): flute's receiver-side lookup
    `FdtInstance::get_file` of a listed TOI returns that file's entry -/
theorem getFile_listed (A : FdtSched.Ann) (S : Sched.Cfg) (s : Sched.State) (a : State) (ps : List Pub)
    (hl : FdtSched.Link A S s a ps) (now : Nat) (f : AFile) (hf : f ∈ (instanceAt a now).files) :
    getFile (instanceAt a now) f.toi = some f := by
  apply getFile_of_nodup _ _ f hf
  have htoi : (instanceAt a now).files.map (fun f => f.toi) = (listedFiles a).map (fun f => f.toi) := by
    simp only [instanceAt, List.map_map]; rfl
  rw [htoi]
  have hall : (a.files.map (fun f => f.toi)).Nodup := by
    rw [hl.files, FdtSched.projFiles_tois A s hl.known]; exact hl.nodup
  unfold listedFiles
  split
  · exact hall
  · exact List.Nodup.sublist (List.Sublist.map _ List.filter_sublist) hall

end Flute.Props.C10
