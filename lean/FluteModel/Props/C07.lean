import FluteModel.Partition
import FluteModel.Spec.Rfc5052
namespace Flute.Props.C07
open Flute Flute.Partition Flute.Spec

theorem divCeil_eq_ceilDiv (a b : Nat) (hb : 0 < b) : divCeil a b = ceilDiv a b := by
  unfold divCeil ceilDiv
  have h1 := Nat.div_add_mod a b
  have h2 := Nat.mod_lt a hb
  split
  · rename_i h
    have : a = b * (a / b) := by omega
    have h3 : a + b - 1 = b * (a / b) + (b - 1) := by omega
    rw [h3, Nat.mul_add_div hb]
    have : (b - 1) / b = 0 := Nat.div_eq_of_lt (by omega)
    omega
  · rename_i h
    have h3 : a + b - 1 = b * (a / b + 1) + (a % b - 1) := by
      rw [Nat.mul_add]; omega
    rw [h3, Nat.mul_add_div hb]
    have : (a % b - 1) / b = 0 := Nat.div_eq_of_lt (by omega)
    omega

end Flute.Props.C07
