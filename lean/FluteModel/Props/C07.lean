import FluteModel.Lemmas.Partition
/-
  C07 — Block partitioning equals RFC 5052 §9.1 for all (L, E, B); both ends agree.
  Only property theorems here; helpers are in FluteModel/Lemmas/Partition.lean.
-/
namespace Flute.Props.C07
open Flute Flute.Partition Flute.Spec Flute.Lemmas.Partition

/-- (1)+(2) For every B > 0, E > 0 and every transfer length L (any `Nat`, in particular every u64 and every
    L < 2^48) the Rust function returns — without overflow (`.ok`) — exactly the RFC 5052 quadruple
    `(A_large, A_small, I, N)`; for L = 0 (N = 0) it returns zeros. -/
theorem partition_eq_rfc (b l e : Nat) (hb : 0 < b) (he : 0 < e) (hl : l < 2^64) :
    blockPartitioning b l e =
      .ok (if (rfc5052 l e b).N = 0 then (0, 0, 0, 0)
           else ((rfc5052 l e b).aLarge, (rfc5052 l e b).aSmall, (rfc5052 l e b).I, (rfc5052 l e b).N)) := by
  unfold blockPartitioning rfc5052
  simp only [Nat.ne_of_gt hb, Nat.ne_of_gt he, if_false]
  rw [← divCeil_eq_ceilDiv l e he, ← divCeil_eq_ceilDiv (divCeil l e) b hb]
  by_cases hn : divCeil (divCeil l e) b = 0
  · simp [hn]
  · simp only [hn, if_false]
    have hnpos : 0 < divCeil (divCeil l e) b := Nat.pos_of_ne_zero hn
    rw [← divCeil_eq_ceilDiv (divCeil l e) _ hnpos]
    -- a_small * n ≤ t < 2^64, so neither the multiplication nor the subtraction overflows
    have hle : divCeil l e / divCeil (divCeil l e) b * divCeil (divCeil l e) b ≤ divCeil l e :=
      Nat.div_mul_le_self _ _
    have ⟨_, ht2⟩ := divCeil_spec l e he
    have htl : divCeil l e ≤ l := by
      rcases Nat.eq_zero_or_pos l with h0 | hpos
      · subst h0; simp [divCeil]
      · -- ⌈l/e⌉ ≤ l because e ≥ 1: (⌈l/e⌉ - 1)·e < l
        have h3 : (divCeil l e - 1) * e = divCeil l e * e - e := by rw [Nat.sub_mul]; simp
        have h4 : (divCeil l e - 1) * 1 ≤ (divCeil l e - 1) * e := Nat.mul_le_mul_left _ he
        omega
    unfold u64mul u64sub
    have h1 : divCeil l e / divCeil (divCeil l e) b * divCeil (divCeil l e) b < 2^64 := by omega
    simp [h1, hle]

/-- (7) degenerate inputs: `B = 0 ∨ E = 0 ∨ L = 0` give `(0,0,0,0)` (no panic, no division by zero). -/
theorem partition_degenerate (b l e : Nat) (h : b = 0 ∨ e = 0 ∨ l = 0) :
    blockPartitioning b l e = .ok (0, 0, 0, 0) := by
  unfold blockPartitioning
  by_cases hb : b = 0
  · simp [hb]
  by_cases he : e = 0
  · simp [hb, he]
  have hl : l = 0 := by rcases h with h | h | h <;> first | contradiction | exact h
  subst hl
  simp [hb, he, divCeil]

/-- the spec's per-block quantities coincide with the `(q, r)` form used in the lemmas -/
private theorem spec_fields (b l e : Nat) (hb : 0 < b) (he : 0 < e) (hl0 : 0 < l) :
    let T := divCeil l e
    let N := divCeil T b
    (rfc5052 l e b).T = T ∧ (rfc5052 l e b).N = N ∧
    (rfc5052 l e b).aLarge = (if T % N = 0 then T / N else T / N + 1) ∧
    (rfc5052 l e b).aSmall = T / N ∧ (rfc5052 l e b).I = T % N := by
  intro T N
  have hT : 0 < T := divCeil_pos l e he hl0
  have ⟨hN, hNT, _⟩ := nblocks_bounds T b hT hb
  have ⟨_, hI, hAL⟩ := quad_shape T N hN hNT
  unfold rfc5052
  simp only
  rw [← divCeil_eq_ceilDiv l e he, ← divCeil_eq_ceilDiv (divCeil l e) b hb,
    ← divCeil_eq_ceilDiv (divCeil l e) _ hN]
  exact ⟨rfl, rfl, hAL, rfl, hI⟩

/-- (3) For L > 0 the RFC partition covers exactly `T` symbols (`I·A_large + (N−I)·A_small = T`), no block
    exceeds `B`, the two block sizes differ by at most one, there is at least one block and every block
    has at least one symbol, and `I < N`. -/
theorem partition_covers (b l e : Nat) (hb : 0 < b) (he : 0 < e) (hl0 : 0 < l) :
    let p := rfc5052 l e b
    p.I * p.aLarge + (p.N - p.I) * p.aSmall = p.T ∧ p.aLarge ≤ b ∧ p.aSmall ≤ p.aLarge ∧
    p.aLarge ≤ p.aSmall + 1 ∧ 0 < p.N ∧ 1 ≤ p.aSmall ∧ p.I < p.N ∧
    l ≤ p.T * e ∧ p.T * e < l + e := by
  intro p
  have ⟨h1, h2, h3, h4, h5⟩ := spec_fields b l e hb he hl0
  have hT : 0 < divCeil l e := divCeil_pos l e he hl0
  have ⟨hN, hNT, _⟩ := nblocks_bounds (divCeil l e) b hT hb
  have ⟨hq, _, hAL⟩ := quad_shape (divCeil l e) (divCeil (divCeil l e) b) hN hNT
  have hcov := coverage (divCeil l e) (divCeil (divCeil l e) b) hN
  have hB := aLarge_le_B (divCeil l e) b hT hb
  have hr := Nat.mod_lt (divCeil l e) hN
  have ⟨s1, s2⟩ := divCeil_spec l e he
  show (rfc5052 l e b).I * (rfc5052 l e b).aLarge + ((rfc5052 l e b).N - (rfc5052 l e b).I) * (rfc5052 l e b).aSmall
        = (rfc5052 l e b).T ∧ _
  rw [h1, h2, h3, h4, h5]
  refine ⟨hcov, ?_, ?_, ?_, hN, hq, hr, s1, s2⟩
  · rw [← hAL]; exact hB
  · split <;> omega
  · split <;> omega

/-- (4a) For every block `sbn < N` of an object with `0 < L < 2^48`, `E < 2^16` the Rust `block_length`, applied to
    the quadruple returned by `block_partitioning`, returns — without overflow — the RFC byte length of that
    block: `min((first+k)·E, L) − min(first·E, L)`. -/
theorem block_length_eq_rfc (b l e sbn aL aS nL n : Nat) (hb : 0 < b) (he : 0 < e) (hl0 : 0 < l)
    (hl : l < 2^48) (he16 : e < 2^16)
    (hq : blockPartitioning b l e = .ok (aL, aS, nL, n)) (hs : sbn < n) :
    blockLength aL aS nL l e sbn = .ok ((rfc5052 l e b).byteLen l e sbn) := by
  rw [bp_shape b l e hb he hl0 (by omega)] at hq
  injection hq with hq
  simp only [Prod.mk.injEq] at hq
  obtain ⟨rfl, rfl, rfl, rfl⟩ := hq
  have ⟨h1, h2, h3, h4, h5⟩ := spec_fields b l e hb he hl0
  have hT : 0 < divCeil l e := divCeil_pos l e he hl0
  have ⟨hN, hNT, _⟩ := nblocks_bounds (divCeil l e) b hT hb
  have ⟨hq1, _, _⟩ := quad_shape (divCeil l e) (divCeil (divCeil l e) b) hN hNT
  have ⟨s1, s2⟩ := divCeil_spec l e he
  have hdm := Nat.div_add_mod (divCeil l e) (divCeil (divCeil l e) b)
  rw [blockLength_spec (divCeil l e) (divCeil (divCeil l e) b) _ _ l e sbn hq1
    (Nat.mod_lt _ hN) (by omega) s1 s2 (by omega) hs]
  unfold Rfc5052.byteLen Rfc5052.firstSymbol Rfc5052.symbolsOf
  rw [h3, h4, h5]
  rfl

/-- (4b) The byte lengths of the `N` blocks sum to `L`. -/
theorem block_lengths_sum (b l e : Nat) (hb : 0 < b) (he : 0 < e) (hl0 : 0 < l) :
    ((List.range (rfc5052 l e b).N).map ((rfc5052 l e b).byteLen l e)).sum = l := by
  have ⟨h1, h2, h3, h4, h5⟩ := spec_fields b l e hb he hl0
  have hT : 0 < divCeil l e := divCeil_pos l e he hl0
  have ⟨hN, hNT, _⟩ := nblocks_bounds (divCeil l e) b hT hb
  have hcov := coverage (divCeil l e) (divCeil (divCeil l e) b) hN
  have ⟨s1, s2⟩ := divCeil_spec l e he
  have hr := Nat.mod_lt (divCeil l e) hN
  have hfun : (rfc5052 l e b).byteLen l e =
      byteLen (if divCeil l e % divCeil (divCeil l e) b = 0 then divCeil l e / divCeil (divCeil l e) b
               else divCeil l e / divCeil (divCeil l e) b + 1)
        (divCeil l e / divCeil (divCeil l e) b) (divCeil l e % divCeil (divCeil l e) b) l e := by
    funext sbn
    unfold Rfc5052.byteLen Rfc5052.firstSymbol Rfc5052.symbolsOf byteLen firstSym symsOf
    rw [h3, h4, h5]
  rw [hfun, h2, byteLen_sum, firstSym_N _ _ _ _ (Nat.le_of_lt hr), hcov]
  omega

/-- (4c) Only the last block can be short: every block `sbn + 1 < N` is exactly `A_sbn · E` bytes. -/
theorem only_last_block_short (b l e sbn : Nat) (hb : 0 < b) (he : 0 < e) (hl0 : 0 < l)
    (hs : sbn + 1 < (rfc5052 l e b).N) :
    (rfc5052 l e b).byteLen l e sbn = (rfc5052 l e b).symbolsOf sbn * e := by
  have ⟨h1, h2, h3, h4, h5⟩ := spec_fields b l e hb he hl0
  have hT : 0 < divCeil l e := divCeil_pos l e he hl0
  have ⟨hN, hNT, _⟩ := nblocks_bounds (divCeil l e) b hT hb
  have ⟨hq1, _, _⟩ := quad_shape (divCeil l e) (divCeil (divCeil l e) b) hN hNT
  have hcov := coverage (divCeil l e) (divCeil (divCeil l e) b) hN
  have ⟨s1, s2⟩ := divCeil_spec l e he
  have hr := Nat.mod_lt (divCeil l e) hN
  rw [h2] at hs
  generalize haL : (if divCeil l e % divCeil (divCeil l e) b = 0 then divCeil l e / divCeil (divCeil l e) b
               else divCeil l e / divCeil (divCeil l e) b + 1) = aL at h3 hcov
  have haL1 : 1 ≤ aL := by rw [← haL]; split <;> omega
  have hroom := firstSym_room aL (divCeil l e / divCeil (divCeil l e) b)
    (divCeil l e % divCeil (divCeil l e) b) (divCeil (divCeil l e) b) haL1 hq1
    (divCeil (divCeil l e) b - (sbn + 1)) (by omega)
  rw [firstSym_N _ _ _ _ (Nat.le_of_lt hr), hcov,
    show divCeil (divCeil l e) b - (divCeil (divCeil l e) b - (sbn + 1)) = sbn + 1 by omega,
    firstSym_succ] at hroom
  have := bytes_mid (T := divCeil l e) (l := l) (e := e)
    (s := firstSym aL (divCeil l e / divCeil (divCeil l e) b) (divCeil l e % divCeil (divCeil l e) b) sbn)
    (k := symsOf aL (divCeil l e / divCeil (divCeil l e) b) (divCeil l e % divCeil (divCeil l e) b) sbn)
    s2 (by omega)
  unfold Rfc5052.byteLen Rfc5052.firstSymbol Rfc5052.symbolsOf
  rw [h3, h4, h5]
  exact this

/-- (5a) Sender side.  For an object of `0 < L` bytes the sender's slicing loop (one `read_block_buffer` per block,
    until `offset_end == len`) cuts exactly the `N` blocks of the RFC partition, in order: block `sbn` is announced
    with `symbolsOf sbn` source symbols and covers the byte range `[first·E, min((first+k)·E, L))`, whose length is the
    RFC byte length of the block. -/
theorem sender_blocks_eq_rfc (b l e aL aS nL n : Nat) (hb : 0 < b) (he : 0 < e) (hl0 : 0 < l) (hl : l < 2^64)
    (hq : blockPartitioning b l e = .ok (aL, aS, nL, n)) (fuel : Nat) (hf : n ≤ fuel) :
    senderBlocks (aL, aS, nL, n) l e fuel 0 0 =
      (List.range n).map (fun sbn =>
        ((rfc5052 l e b).symbolsOf sbn, (rfc5052 l e b).firstSymbol sbn * e,
         min (((rfc5052 l e b).firstSymbol sbn + (rfc5052 l e b).symbolsOf sbn) * e) l)) := by
  rw [bp_shape b l e hb he hl0 hl] at hq
  injection hq with hq
  simp only [Prod.mk.injEq] at hq
  obtain ⟨rfl, rfl, rfl, rfl⟩ := hq
  have ⟨h1, h2, h3, h4, h5⟩ := spec_fields b l e hb he hl0
  have hT : 0 < divCeil l e := divCeil_pos l e he hl0
  have ⟨hN, hNT, _⟩ := nblocks_bounds (divCeil l e) b hT hb
  have ⟨hq1, _, _⟩ := quad_shape (divCeil l e) (divCeil (divCeil l e) b) hN hNT
  have hcov := coverage (divCeil l e) (divCeil (divCeil l e) b) hN
  have ⟨s1, s2⟩ := divCeil_spec l e he
  have hr := Nat.mod_lt (divCeil l e) hN
  generalize haL : (if divCeil l e % divCeil (divCeil l e) b = 0 then divCeil l e / divCeil (divCeil l e) b
               else divCeil l e / divCeil (divCeil l e) b + 1) = aL at h3 hcov
  have haL1 : 1 ≤ aL := by rw [← haL]; split <;> omega
  have hmain := senderBlocks_eq aL (divCeil l e / divCeil (divCeil l e) b)
    (divCeil l e % divCeil (divCeil l e) b) (divCeil (divCeil l e) b) (divCeil l e) l e haL1 hq1
    (Nat.le_of_lt hr) hcov s1 s2 (divCeil (divCeil l e) b - 1) (by omega) (divCeil (divCeil l e) b) fuel (by omega)
  rw [show divCeil (divCeil l e) b - 1 - (divCeil (divCeil l e) b - 1) = 0 by omega,
    show divCeil (divCeil l e) b - 1 + 1 = divCeil (divCeil l e) b by omega, firstSym_zero, Nat.zero_mul] at hmain
  rw [hmain, List.range_eq_range']
  unfold Rfc5052.firstSymbol Rfc5052.symbolsOf firstSym symsOf
  rw [h3, h4, h5]

/-- (5b) Receiver side.  The source-block length the receiver uses for block `sbn` when the payload ID carries none
    (`sbn < nb_a_large as u32 ? a_large as u32 : a_small as u32`, casts included) is the RFC symbol count, i.e. what the
    sender announced - provided `B < 2^32` (it is a `u32` field of the OTI) and the object has at most `2^32` blocks
    (SBNs are at most 32 bits wide; `FileDesc::new` refuses longer objects).  Together with `block_length_eq_rfc` both
    ends derive the same `(symbols, bytes)` for every block.  The bound is needed: see `receiver_cast_witness`. -/
theorem receiver_symbols_eq_rfc (b l e sbn aL aS nL n : Nat) (hb : 0 < b) (he : 0 < e) (hl0 : 0 < l) (hl : l < 2^64)
    (hb32 : b < 2^32) (hn32 : n ≤ 2^32)
    (hq : blockPartitioning b l e = .ok (aL, aS, nL, n)) :
    receiverBlockSymbols (aL, aS, nL, n) sbn = (rfc5052 l e b).symbolsOf sbn := by
  have hcov := partition_covers b l e hb he hl0
  rw [partition_eq_rfc b l e hb he hl] at hq
  have hN : (rfc5052 l e b).N ≠ 0 := by have := hcov.2.2.2.2.1; omega
  simp only [hN, if_false] at hq
  injection hq with hq
  simp only [Prod.mk.injEq] at hq
  obtain ⟨rfl, rfl, rfl, rfl⟩ := hq
  obtain ⟨_, h2, h3, _, _, _, h7, _, _⟩ := hcov
  unfold receiverBlockSymbols Rfc5052.symbolsOf
  simp only
  rw [Nat.mod_eq_of_lt (by omega : (rfc5052 l e b).I < 2^32),
      Nat.mod_eq_of_lt (by omega : (rfc5052 l e b).aLarge < 2^32),
      Nat.mod_eq_of_lt (by omega : (rfc5052 l e b).aSmall < 2^32)]

/-- The `as u32` casts matter outside that range: for `(B, E, L) = (2, 1, 2^33 + 1)` the partition has `I = 2^32` large
    blocks, `nb_a_large as u32 = 0`, and the receiver would size block 0 with `a_small = 1` symbol instead of the RFC's 2.
    (Unreachable through a real sender: `FileDesc::new` refuses `L > E·B·max_sbn`, and SBNs have at most 32 bits.) -/
theorem receiver_cast_witness :
    blockPartitioning 2 (2^33 + 1) 1 = .ok (2, 1, 2^32, 2^32 + 1) ∧
    receiverBlockSymbols (2, 1, 2^32, 2^32 + 1) 0 = 1 ∧ (rfc5052 (2^33 + 1) 1 2).symbolsOf 0 = 2 := by
  refine ⟨by rfl, by decide, by decide⟩

/-- (5c) Payload-ID-borne block length (RS under-specified): the number of source symbols the sender puts on the wire
    for a block, `div_ceil(bytes of the block, E)`, equals the RFC symbol count of that block. -/
theorem sender_wire_sbl_eq_rfc (b l e sbn : Nat) (hb : 0 < b) (he : 0 < e) (hl0 : 0 < l)
    (hs : sbn < (rfc5052 l e b).N) :
    divCeil ((rfc5052 l e b).byteLen l e sbn) e = (rfc5052 l e b).symbolsOf sbn := by
  have ⟨h1, h2, h3, h4, h5⟩ := spec_fields b l e hb he hl0
  have hT : 0 < divCeil l e := divCeil_pos l e he hl0
  have ⟨hN, hNT, _⟩ := nblocks_bounds (divCeil l e) b hT hb
  have ⟨hq1, _, _⟩ := quad_shape (divCeil l e) (divCeil (divCeil l e) b) hN hNT
  have hcov := coverage (divCeil l e) (divCeil (divCeil l e) b) hN
  have ⟨s1, s2⟩ := divCeil_spec l e he
  have hr := Nat.mod_lt (divCeil l e) hN
  rw [h2] at hs
  generalize haL : (if divCeil l e % divCeil (divCeil l e) b = 0 then divCeil l e / divCeil (divCeil l e) b
               else divCeil l e / divCeil (divCeil l e) b + 1) = aL at h3 hcov
  have haL1 : 1 ≤ aL := by rw [← haL]; split <;> omega
  have hroom := firstSym_room aL (divCeil l e / divCeil (divCeil l e) b)
    (divCeil l e % divCeil (divCeil l e) b) (divCeil (divCeil l e) b) haL1 hq1
    (divCeil (divCeil l e) b - (sbn + 1)) (by omega)
  rw [firstSym_N _ _ _ _ (Nat.le_of_lt hr), hcov,
    show divCeil (divCeil l e) b - (divCeil (divCeil l e) b - (sbn + 1)) = sbn + 1 by omega,
    firstSym_succ] at hroom
  have hk := symsOf_pos aL (divCeil l e / divCeil (divCeil l e) b) (divCeil l e % divCeil (divCeil l e) b) sbn haL1 hq1
  unfold Rfc5052.byteLen Rfc5052.firstSymbol Rfc5052.symbolsOf
  rw [h3, h4, h5]
  show divCeil (min ((firstSym aL _ _ sbn + symsOf aL _ _ sbn) * e) l - min (firstSym aL _ _ sbn * e) l) e
      = symsOf aL _ _ sbn
  generalize hf : firstSym aL (divCeil l e / divCeil (divCeil l e) b) (divCeil l e % divCeil (divCeil l e) b) sbn = f at *
  generalize hkk : symsOf aL (divCeil l e / divCeil (divCeil l e) b) (divCeil l e % divCeil (divCeil l e) b) sbn = k at *
  have hadd : (f + k) * e = f * e + k * e := Nat.add_mul _ _ _
  have hflt : f * e < l := sym_lt s2 (by omega)
  apply divCeil_unique _ _ _ he
  · -- bytes ≤ k·e
    omega
  · -- k·e < bytes + e : the block reaches at least into its last symbol
    have hlast : (f + k - 1) * e < l := sym_lt s2 (by omega)
    have hsub : (f + k - 1) * e = (f + k) * e - e := by rw [Nat.sub_mul]; simp
    omega

/-- (6) RaptorQ / Raptor.  The sender transmits `Z = N(B, L, E)`; the receiver's reconstructed maximum source block
    length `B' = ⌈⌈L/Z⌉/E⌉` yields the same partition as the sender's `B`, for every `L > 0`. -/
theorem raptor_B_reconstruct (b l e aL aS nL n : Nat) (hb : 0 < b) (he : 0 < e) (hl0 : 0 < l) (hl : l < 2^64)
    (hq : blockPartitioning b l e = .ok (aL, aS, nL, n)) :
    blockPartitioning (reconstructB l e n) l e = .ok (aL, aS, nL, n) := by
  rw [bp_shape b l e hb he hl0 hl] at hq
  injection hq with hq
  simp only [Prod.mk.injEq] at hq
  obtain ⟨rfl, rfl, rfl, rfl⟩ := hq
  have hT : 0 < divCeil l e := divCeil_pos l e he hl0
  have ⟨hN, hNT, _⟩ := nblocks_bounds (divCeil l e) b hT hb
  have hB' : reconstructB l e (divCeil (divCeil l e) b) = divCeil (divCeil l e) (divCeil (divCeil l e) b) := by
    unfold reconstructB
    exact divCeil_divCeil_comm l _ e hN he
  have hpos : 0 < reconstructB l e (divCeil (divCeil l e) b) := by
    rw [hB']; exact divCeil_pos _ _ hN hT
  rw [bp_shape _ l e hpos he hl0 hl, hB', divCeil_reconstruct _ _ hT hb]

/-- (6b) The reconstructed `B'` never exceeds the sender's `B`, hence fits the `u32` the parser stores it in
    (`maximum_source_block_length as u32` truncates nothing) whenever `B < 2^32`. -/
theorem raptor_B_fits_u32 (b l e aL aS nL n : Nat) (hb : 0 < b) (he : 0 < e) (hl0 : 0 < l) (hl : l < 2^64)
    (hb32 : b < 2^32) (hq : blockPartitioning b l e = .ok (aL, aS, nL, n)) :
    reconstructB l e n ≤ b ∧ reconstructB32 l e n = reconstructB l e n := by
  rw [bp_shape b l e hb he hl0 hl] at hq
  injection hq with hq
  simp only [Prod.mk.injEq] at hq
  obtain ⟨rfl, rfl, rfl, rfl⟩ := hq
  have hT : 0 < divCeil l e := divCeil_pos l e he hl0
  have ⟨hN, _, _⟩ := nblocks_bounds (divCeil l e) b hT hb
  have hB' : reconstructB l e (divCeil (divCeil l e) b) = divCeil (divCeil l e) (divCeil (divCeil l e) b) := by
    unfold reconstructB
    exact divCeil_divCeil_comm l _ e hN he
  have hle := aLarge_le_B (divCeil l e) b hT hb
  refine ⟨by rw [hB']; exact hle, ?_⟩
  unfold reconstructB32
  rw [hB']
  exact Nat.mod_eq_of_lt (by omega)

/-- (6c) Degenerate case `L = 0`: the sender transmits `Z = max(N, 1) = 1`; the reconstructed `B' = 0` gives the
    same (empty) partition as the sender's `B`. -/
theorem raptor_B_reconstruct_empty (b e : Nat) :
    reconstructB 0 e 1 = 0 ∧ blockPartitioning (reconstructB 0 e 1) 0 e = blockPartitioning b 0 e := by
  have h0 : reconstructB 0 e 1 = 0 := by
    unfold reconstructB divCeil; simp
  refine ⟨h0, ?_⟩
  rw [h0, partition_degenerate 0 0 e (Or.inl rfl), partition_degenerate b 0 e (Or.inr (Or.inr rfl))]

/-- (4d) The byte-length clauses stated on the MODEL OF THE CODE (not on the spec record): for `0 < L < 2^48`,
    `0 < E < 2^16`, `B > 0`, with the quadruple returned by `block_partitioning`, `block_length` succeeds (no overflow)
    on every block `sbn < N`, the results sum to `L`, and every block but the last is exactly `A_sbn · E` bytes. -/
theorem block_lengths_model (b l e aL aS nL n : Nat) (hb : 0 < b) (he : 0 < e) (hl0 : 0 < l)
    (hl : l < 2^48) (he16 : e < 2^16) (hq : blockPartitioning b l e = .ok (aL, aS, nL, n)) :
    ∃ ls : List Nat,
      (List.range n).map (blockLength aL aS nL l e) = ls.map Except.ok ∧ ls.length = n ∧ ls.sum = l ∧
      ∀ sbn, sbn + 1 < n → ls[sbn]? = some ((if sbn < nL then aL else aS) * e) := by
  have hq' := hq
  rw [partition_eq_rfc b l e hb he (by omega)] at hq'
  have hcov := partition_covers b l e hb he hl0
  have hN : (rfc5052 l e b).N ≠ 0 := by have := hcov.2.2.2.2.1; omega
  simp only [hN, if_false] at hq'
  injection hq' with hq'
  simp only [Prod.mk.injEq] at hq'
  obtain ⟨haL, haS, hnL, hn⟩ := hq'
  refine ⟨(List.range n).map ((rfc5052 l e b).byteLen l e), ?_, by simp, ?_, ?_⟩
  · rw [List.map_map]
    apply List.map_congr_left
    intro sbn hs
    rw [List.mem_range] at hs
    simp only [Function.comp]
    exact block_length_eq_rfc b l e sbn aL aS nL n hb he hl0 hl he16 hq hs
  · rw [← hn]; exact block_lengths_sum b l e hb he hl0
  · intro sbn hs
    rw [List.getElem?_map, List.getElem?_range (by omega)]
    simp only [Option.map_some]
    rw [only_last_block_short b l e sbn hb he hl0 (by rw [hn]; exact hs)]
    unfold Rfc5052.symbolsOf
    rw [← hnL, ← haL, ← haS]

/-- (5) **Both ends agree**, in one statement.  For `0 < L < 2^48`, `0 < E < 2^16`, `0 < B < 2^32` and an object of at
    most `2^32` blocks: the `sbn`-th block cut by the sender's slicing loop announces exactly the number of source symbols
    the receiver assumes for that block (casts included), and covers exactly the number of bytes the receiver's
    `block_length` computes (without overflow) - whether the receiver partitions with the sender's `B` (No-Code, RS: B is
    in EXT_FTI / the FDT) or with the `B'` it reconstructs from `Z = N` (RaptorQ / Raptor, as stored in a `u32`). -/
theorem sender_receiver_agree (b l e aL aS nL n sbn : Nat) (hb : 0 < b) (he : 0 < e) (hl0 : 0 < l)
    (hl : l < 2^48) (he16 : e < 2^16) (hb32 : b < 2^32) (hn32 : n ≤ 2^32)
    (hq : blockPartitioning b l e = .ok (aL, aS, nL, n)) (hs : sbn < n) (fuel : Nat) (hf : n ≤ fuel) :
    ∃ k s en, (senderBlocks (aL, aS, nL, n) l e fuel 0 0)[sbn]? = some (k, s, en) ∧
      receiverBlockSymbols (aL, aS, nL, n) sbn = k ∧
      blockLength aL aS nL l e sbn = .ok (en - s) ∧
      blockPartitioning (reconstructB32 l e n) l e = .ok (aL, aS, nL, n) := by
  have hsb := sender_blocks_eq_rfc b l e aL aS nL n hb he hl0 (by omega) hq fuel hf
  have hrx := receiver_symbols_eq_rfc b l e sbn aL aS nL n hb he hl0 (by omega) hb32 hn32 hq
  have hbl := block_length_eq_rfc b l e sbn aL aS nL n hb he hl0 hl he16 hq hs
  have hfit := raptor_B_fits_u32 b l e aL aS nL n hb he hl0 (by omega) hb32 hq
  have hrec := raptor_B_reconstruct b l e aL aS nL n hb he hl0 (by omega) hq
  refine ⟨(rfc5052 l e b).symbolsOf sbn, (rfc5052 l e b).firstSymbol sbn * e,
    min (((rfc5052 l e b).firstSymbol sbn + (rfc5052 l e b).symbolsOf sbn) * e) l, ?_, hrx, ?_, ?_⟩
  · rw [hsb, List.getElem?_map, List.getElem?_range hs]; rfl
  · rw [hbl]
    congr 1
    -- the sender's byte range is the spec's byte length: the block starts inside the object
    have hcov := partition_covers b l e hb he hl0
    unfold Rfc5052.byteLen
    have : (rfc5052 l e b).firstSymbol sbn * e ≤ l := by
      -- first·e ≤ min((first+k)·e, l) because the sender's list has end ≥ start; derive from monotonicity of min
      rcases Nat.le_total ((rfc5052 l e b).firstSymbol sbn * e) l with h | h
      · exact h
      · -- impossible: then the spec byte length would be 0 although every block holds ≥ 1 byte (sum argument is
        -- heavier); use block_length on the model: bytes = min(..) - min(..) and the sender block is non-empty
        exfalso
        have hfirst : (rfc5052 l e b).firstSymbol sbn + 1 ≤ (rfc5052 l e b).T := by
          -- first(sbn) + (N - sbn) ≤ T, from the room lemma in the (q,r) form
          have ⟨h1, h2, h3, h4, h5⟩ := spec_fields b l e hb he hl0
          have hT : 0 < divCeil l e := divCeil_pos l e he hl0
          have ⟨hN, hNT, _⟩ := nblocks_bounds (divCeil l e) b hT hb
          have ⟨hq1, _, _⟩ := quad_shape (divCeil l e) (divCeil (divCeil l e) b) hN hNT
          have hcv := coverage (divCeil l e) (divCeil (divCeil l e) b) hN
          have hr := Nat.mod_lt (divCeil l e) hN
          have hnN : n = (rfc5052 l e b).N := by
            have hq' := hq
            rw [partition_eq_rfc b l e hb he (by omega)] at hq'
            have hN0 : (rfc5052 l e b).N ≠ 0 := by omega
            simp only [hN0, if_false] at hq'
            injection hq' with hq'
            simp only [Prod.mk.injEq] at hq'
            exact hq'.2.2.2.symm
          generalize haLg : (if divCeil l e % divCeil (divCeil l e) b = 0 then divCeil l e / divCeil (divCeil l e) b
               else divCeil l e / divCeil (divCeil l e) b + 1) = aLg at h3 hcv
          have haL1 : 1 ≤ aLg := by rw [← haLg]; split <;> omega
          have hroom := firstSym_room aLg (divCeil l e / divCeil (divCeil l e) b)
            (divCeil l e % divCeil (divCeil l e) b) (divCeil (divCeil l e) b) haL1 hq1
            (divCeil (divCeil l e) b - sbn) (by omega)
          rw [firstSym_N _ _ _ _ (Nat.le_of_lt hr), hcv,
            show divCeil (divCeil l e) b - (divCeil (divCeil l e) b - sbn) = sbn by omega] at hroom
          unfold Rfc5052.firstSymbol
          rw [h1, h3, h4, h5]
          unfold firstSym at hroom
          omega
        have := sym_lt (T := (rfc5052 l e b).T) (l := l) (e := e) (s := (rfc5052 l e b).firstSymbol sbn)
          hcov.2.2.2.2.2.2.2.2 hfirst
        omega
    omega
  · rw [hfit.2]; exact hrec

/-- (8) The composition the `rcv` op of engine `part` runs against real sender → receiver sessions, as ONE statement about
    the model's own `cleanSession` (not about a driver-private re-implementation): for every scheme, `0 < B < 2^32`,
    `0 < E < 2^16`, `0 < L < 2^48` and at most `2^32` blocks, a loss-free session completes - sender and receiver agree on
    every block, also when the receiver partitions with the `B'` it rebuilt from `Z` (RaptorQ / Raptor) or takes the
    wire-borne block length (RS under-specified) - and the receiver writes one chunk per block whose lengths sum to `L`,
    every block but the last being `k·E` bytes long. -/
theorem clean_session_completes (scheme b l e aL aS nL n : Nat) (hb : 0 < b) (he : 0 < e) (hl0 : 0 < l)
    (hl : l < 2^48) (he16 : e < 2^16) (hb32 : b < 2^32) (hn32 : n ≤ 2^32)
    (hq : blockPartitioning b l e = .ok (aL, aS, nL, n)) :
    ∃ ls : List Nat, cleanSession scheme b l e = .ok (some (ls.map Except.ok)) ∧ ls.length = n ∧ ls.sum = l ∧
      ∀ sbn, sbn + 1 < n → ls[sbn]? = some ((if sbn < nL then aL else aS) * e) := by
  have hcov := partition_covers b l e hb he hl0
  have hnN : n = (rfc5052 l e b).N := by
    have hq' := hq
    rw [partition_eq_rfc b l e hb he (by omega)] at hq'
    have hN0 : (rfc5052 l e b).N ≠ 0 := by have := hcov.2.2.2.2.1; omega
    simp only [hN0, if_false] at hq'
    injection hq' with hq'
    simp only [Prod.mk.injEq] at hq'
    exact hq'.2.2.2.symm
  have hn0 : 0 < n := by rw [hnN]; exact hcov.2.2.2.2.1
  have hnl : n ≤ l + 1 := by
    have ⟨_, h2, _, _, _⟩ := spec_fields b l e hb he hl0
    have hT : 0 < divCeil l e := divCeil_pos l e he hl0
    have ⟨_, hNT, _⟩ := nblocks_bounds (divCeil l e) b hT hb
    have := divCeil_le_self l e he
    rw [hnN, h2]; omega
  obtain ⟨ls, hmap, hlen, hsum, hmid⟩ := block_lengths_model b l e aL aS nL n hb he hl0 hl he16 hq
  refine ⟨ls, ?_, hlen, hsum, hmid⟩
  have hrx : blockPartitioning (if scheme = 3 ∨ scheme = 4 then reconstructB32 l e n else b) l e
      = .ok (aL, aS, nL, n) := by
    split
    · obtain ⟨_, _, _, _, _, _, h⟩ :=
        sender_receiver_agree b l e aL aS nL n 0 hb he hl0 hl he16 hb32 hn32 hq hn0 (l + 1) hnl
      exact h
    · exact hq
  have hagree : (decide ((senderBlocks (aL, aS, nL, n) l e (l + 1) 0 0).length = n) &&
      (List.range n).all fun sbn =>
        decide (((senderBlocks (aL, aS, nL, n) l e (l + 1) 0 0).getD sbn (0, 0, 0)).1 =
          (if scheme = 2 then ((senderBlocks (aL, aS, nL, n) l e (l + 1) 0 0).getD sbn (0, 0, 0)).1
           else receiverBlockSymbols (aL, aS, nL, n) sbn))) = true := by
    rw [Bool.and_eq_true]
    constructor
    · rw [sender_blocks_eq_rfc b l e aL aS nL n hb he hl0 (by omega) hq (l + 1) hnl]
      simp
    · rw [List.all_eq_true]
      intro sbn hs
      rw [List.mem_range] at hs
      obtain ⟨k, s, en, hget, hk, _, _⟩ :=
        sender_receiver_agree b l e aL aS nL n sbn hb he hl0 hl he16 hb32 hn32 hq hs (l + 1) hnl
      rw [List.getD_eq_getElem?_getD, hget]
      simp only [Option.getD_some]
      split
      · simp
      · simp [hk]
  unfold cleanSession
  simp only [hq, hrx]
  rw [if_pos hagree, hmap]

/-- list helper for `blocks_minimal`: a list of numbers each `≤ b` sums to at most `length · b` -/
private theorem sum_le_length_mul (ks : List Nat) (b : Nat) (h : ∀ k ∈ ks, k ≤ b) : ks.sum ≤ ks.length * b := by
  induction ks with
  | nil => simp
  | cons k ks ih =>
    have h1 : k ≤ b := h k (by simp)
    have h2 := ih (fun x hx => h x (by simp [hx]))
    simp only [List.sum_cons, List.length_cons, Nat.add_mul, Nat.one_mul]
    omega

/-- (8) `N` is OPTIMAL, not merely admissible (RFC 5052 §9.1: "the smallest number of source blocks"): ANY way of
    cutting the `T` symbols of the object into blocks of at most `B` symbols — any list of block sizes, equal or not —
    uses at least `N` blocks; with `partition_covers` (the RFC quadruple IS such a cut, with `N` blocks) the block count
    both ends compute is the minimum. -/
theorem blocks_minimal (b l e : Nat) (hb : 0 < b) (he : 0 < e) (hl0 : 0 < l)
    (ks : List Nat) (hk : ∀ k ∈ ks, k ≤ b) (hsum : ks.sum = (rfc5052 l e b).T) :
    (rfc5052 l e b).N ≤ ks.length := by
  have ⟨h1, h2, _, _, _⟩ := spec_fields b l e hb he hl0
  have ⟨_, s2⟩ := divCeil_spec (divCeil l e) b hb
  have hle := sum_le_length_mul ks b hk
  rw [hsum, h1] at hle
  rw [h2]
  -- N·B < T + B and T ≤ |ks|·B: were |ks| < N we had (|ks|+1)·B ≤ N·B
  rcases Nat.lt_or_ge ks.length (divCeil (divCeil l e) b) with hlt | hge
  · exfalso
    have : (ks.length + 1) * b ≤ divCeil (divCeil l e) b * b := Nat.mul_le_mul_right b hlt
    rw [Nat.add_mul] at this; omega
  · exact hge

/-- … and the RFC cut itself is such a list: `N` block sizes `symbolsOf 0 … symbolsOf (N-1)`, none above `B`
    (so the bound of `blocks_minimal` is attained by what sender and receiver compute). -/
theorem blocks_minimal_attained (b l e : Nat) (hb : 0 < b) (he : 0 < e) (hl0 : 0 < l) :
    let p := rfc5052 l e b
    let ks := (List.range p.N).map p.symbolsOf
    ks.length = p.N ∧ ∀ k ∈ ks, k ≤ b := by
  intro p ks
  have hc := partition_covers b l e hb he hl0
  simp only at hc
  obtain ⟨_, hB, hSL, _⟩ := hc
  refine ⟨by simp [ks], ?_⟩
  intro k hk
  simp only [ks, List.mem_map, List.mem_range] at hk
  obtain ⟨i, _, rfl⟩ := hk
  unfold Rfc5052.symbolsOf
  split
  · exact hB
  · exact Nat.le_trans hSL hB

private theorem symsOf_sum (aL q r n : Nat) :
    ((List.range n).map (symsOf aL q r)).sum = firstSym aL q r n := by
  induction n with
  | zero => simp [firstSym_zero]
  | succ n ih => rw [List.range_succ, List.map_append, List.sum_append, ih, firstSym_succ]; simp

/-- … and its sizes sum to `T`: the list of `blocks_minimal_attained` meets every hypothesis of `blocks_minimal`
    with equality in the conclusion. -/
theorem blocks_minimal_attained_sum (b l e : Nat) (hb : 0 < b) (he : 0 < e) (hl0 : 0 < l) :
    ((List.range (rfc5052 l e b).N).map (rfc5052 l e b).symbolsOf).sum = (rfc5052 l e b).T := by
  have hc := partition_covers b l e hb he hl0
  simp only at hc
  obtain ⟨hcov, _, _, _, _, _, hI, _⟩ := hc
  have hfun : (rfc5052 l e b).symbolsOf =
      symsOf (rfc5052 l e b).aLarge (rfc5052 l e b).aSmall (rfc5052 l e b).I := by
    funext sbn; unfold Rfc5052.symbolsOf symsOf; rfl
  rw [hfun, symsOf_sum, firstSym_N _ _ _ _ (Nat.le_of_lt hI)]
  exact hcov

/-! ### non-vacuity: concrete instances meeting the hypotheses, with unequal blocks -/

example : blockPartitioning 3 23 4 = .ok (3, 3, 0, 2) := by rfl
/-- `blocks_minimal` is not vacuous: 34 symbols, B = 5: the cut [5,5,5,5,5,5,4] has 7 = N blocks, and no 6-block cut exists -/
example : (rfc5052 100 3 5).N = 7 ∧ ([5,5,5,5,5,5,4] : List Nat).sum = (rfc5052 100 3 5).T := by decide
example : blockPartitioning 4 23 4 = .ok (3, 3, 0, 2) := by rfl
example : blockPartitioning 5 100 3 = .ok (5, 4, 6, 7) := by rfl
example : rfc5052 100 3 5 = { T := 34, N := 7, aLarge := 5, aSmall := 4, I := 6 } := by decide
example : blockLength 5 4 6 100 3 6 = .ok 10 ∧ (rfc5052 100 3 5).byteLen 100 3 6 = 10 := ⟨by rfl, by decide⟩
example : senderBlocks (5, 4, 6, 7) 100 3 7 0 0 =
    [(5,0,15),(5,15,30),(5,30,45),(5,45,60),(5,60,75),(5,75,90),(4,90,100)] := by decide
example : receiverBlockSymbols (5, 4, 6, 7) 5 = 5 ∧ receiverBlockSymbols (5, 4, 6, 7) 6 = 4 := by decide
example : reconstructB 100 3 7 = 5 ∧ blockPartitioning 6 100 3 = .ok (6, 5, 4, 6) ∧ reconstructB 100 3 6 = 6 :=
  ⟨by decide, by rfl, by decide⟩
example : cleanSession 3 5 100 3 = .ok (some ([15, 15, 15, 15, 15, 15, 10].map Except.ok)) := by rfl
example : cleanSession 2 4 23 4 = .ok (some ([12, 11].map Except.ok)) := by rfl

end Flute.Props.C07
