import FluteModel.Lemmas.Ring
import FluteModel.Lemmas.Drain
/-
  Ring buffer (src/tools/ringbuffer.rs) = bounded byte FIFO; supports C01 / C04 (content-encoded objects).
  Only property theorems and non-vacuity examples here; helpers are in Lemmas/Ring.lean.
-/
namespace Flute.Props.Ring
open Flute Flute.Ring Flute.Spec Flute.Lemmas.Ring Flute.Drain Flute.Lemmas.Drain

/-- **The ring buffer refines the bounded FIFO.**  For every size (any `Vec` length, i.e. `< 2^63`; the ring holds
    `size - 1` bytes), every interleaving of `write` / `read` / `finish` calls, every chunk and buffer size:
    no call panics, the calls answer exactly what the FIFO of capacity `size - 1` answers (bytes accepted, bytes
    delivered, WouldBlock while empty and not finished, `Ok(0)` once finished), and the ring's content is the FIFO's
    queue afterwards. -/
theorem ring_refines_fifo (size : Nat) (hs : size < 2^63) (ops : List Op) :
    ∃ r' obs, run (new size) ops = .ok (r', obs) ∧
      (Fifo.empty (size - 1)).run (ops.map opSpec) = (abs r', obs.map obsSpec) := by
  obtain ⟨r', obs, hr, _, _, ha⟩ := run_refines ops (new size) (inv_new size hs)
  exact ⟨r', obs, hr, by rw [← abs_new]; exact ha⟩

/-- **No loss, no duplication, no reordering**: after any sequence of calls, the bytes delivered by the reads followed
    by the bytes still in the ring are exactly the bytes accepted by the writes, in order. -/
theorem ring_stream (size : Nat) (hs : size < 2^63) (ops : List Op) :
    ∃ r' obs, run (new size) ops = .ok (r', obs) ∧
      delivered (obs.map obsSpec) ++ content r' = accepted (ops.map opSpec) (obs.map obsSpec) := by
  obtain ⟨r', obs, hr, ha⟩ := ring_refines_fifo size hs ops
  refine ⟨r', obs, hr, ?_⟩
  have := fifo_stream (ops.map opSpec) (Fifo.empty (size - 1))
  rw [ha] at this
  simpa [abs, Fifo.empty] using this

/-- **Every index, slice, `copy_from_slice`, checked subtraction/addition and `debug_assert!` is in range**: no
    sequence of calls on a ring of any size panics (a zero-sized ring included, since commit 975bbd8). -/
theorem ring_no_panic (size : Nat) (hs : size < 2^63) (ops : List Op) :
    ∃ x, run (new size) ops = .ok x := by
  obtain ⟨r', obs, hr, _⟩ := ring_refines_fifo size hs ops
  exact ⟨(r', obs), hr⟩

/-- **The ring never holds more than `size - 1` bytes**, its buffer is never reallocated and both indices stay
    inside it. -/
theorem ring_never_exceeds_capacity (size : Nat) (hs : size < 2^63) (ops : List Op) :
    ∃ r' obs, run (new size) ops = .ok (r', obs) ∧ r'.buffer.length = size ∧
      (content r').length ≤ size - 1 ∧ r'.producer ≤ size ∧ r'.consumer ≤ size := by
  obtain ⟨r', obs, hr, hi, hl, _⟩ := run_refines ops (new size) (inv_new size hs)
  have hlen := content_length r' hi
  have hn : (new size).buffer.length = size := by simp [new]
  rw [hn] at hl
  refine ⟨r', obs, hr, hl, ?_, ?_, ?_⟩ <;>
  · obtain ⟨_, h | h⟩ := hi
    · first | (rw [hlen]; split <;> omega) | omega
    · first | (rw [hlen]; split <;> omega) | omega

/-- **Progress** (what a drain loop needs): in any reachable state, a write of a non-empty chunk into a ring that is
    not full accepts at least one byte, and a read with a non-empty buffer from a ring that is not empty delivers at
    least one byte. -/
theorem write_progress (r : Ring) (h : Inv r) :
    (∀ data, data ≠ [] → (content r).length < r.buffer.length - 1 →
        ∃ r' k, write r data = .ok (r', k) ∧ 1 ≤ k) ∧
    (∀ n, 1 ≤ n → content r ≠ [] →
        ∃ r' b, read r n = .ok (r', .ok b) ∧ b ≠ []) := by
  constructor
  · intro data hd hfull
    obtain ⟨r', k, hw, _, _, _, _, ha⟩ := write_refines r data h
    refine ⟨r', k, hw, ?_⟩
    have hk : k = min data.length (r.buffer.length - 1 - (content r).length) := by
      simp only [abs, Fifo.write] at ha
      exact (Prod.mk.inj ha).2.symm
    have : 0 < data.length := List.length_pos_iff.mpr hd
    omega
  · intro n hn hne
    obtain ⟨r', res, hr, _, _, _, _, ha⟩ := read_refines r n h
    have hpos : 0 < (content r).length := List.length_pos_iff.mpr hne
    have hm : ¬ (min n (content r).length = 0) := by omega
    simp only [abs, Fifo.read, hm, if_false] at ha
    cases res with
    | wouldBlock => simp [toSpec] at ha
    | ok b =>
      refine ⟨r', b, hr, ?_⟩
      simp only [toSpec] at ha
      have hb : (content r).take (min n (content r).length) = b := by
        have := (Prod.mk.inj ha).2
        injection this
      intro hnil
      rw [hnil] at hb
      have := congrArg List.length hb
      rw [List.length_take] at this
      simp only [List.length_nil] at this
      omega

/-- non-vacuity / wrap-around: size 4, write 3, read 2, write 2 (wraps), read 3 -/
example : run (new 4) [.write [1, 2, 3], .read 2, .write [4, 5], .read 8, .read 1, .finish, .read 1] =
    .ok (⟨[5, 2, 3, 4], 1, 1, true⟩,
      [.wrote 3, .readOk [1, 2], .wrote 2, .readOk [3, 4, 5], .wouldBlock, .done, .readOk []]) := by rfl


/-! ### the BlockWriter drain loops (D15) -/

/-- **`drain_terminates`.**  For EVERY decompressor satisfying the contract (`Drain.Contract`: it cannot answer
    infinitely many non-empty reads without new input, and it uses the ring only through the ring's API), every
    reachable ring of every size, every input packet, every `content_length_left`, every `buffer` size:
    * `decoder_read` returns (`Ok` or `Err`) within `mu + 1` iterations;
    * the `decode_write_pkt` loop returns within `2·(len − offset) + 2` iterations - it never hangs and never
      panics (`&pkt[offset..]` stays in range, the ring never panics);
    * so do the first-packet path (`init_decoder` + `decoder_read`) and the final flush. -/
theorem drain_terminates {σ} (D : Decomp σ) (C : Contract D) (st : BW σ) (hinv : Ring.Inv st.ring)
    (pkt : List Nat) :
    Terminated (decoderRead D (C.mu st.dec st.ring + 1) st) ∧
    (∀ offset stalled, offset ≤ pkt.length →
      Terminated (writeLoop D (fun s => C.mu s.dec s.ring + 1) (2 * (pkt.length - offset) + 2) st pkt offset stalled)) ∧
    Terminated (decodeWritePkt D (fun s => C.mu s.dec s.ring + 1) (2 * pkt.length + 2) st.dec (some st)
      st.contentLeft pkt) ∧
    Terminated (flush D (fun s => C.mu s.dec s.ring + 1) st) ∧
    (∀ (init : σ) (cl : Option Nat), pkt.length < 2^62 →
      Terminated (decodeWritePkt D (fun s => C.mu s.dec s.ring + 1) 0 init none cl pkt)) := by
  refine ⟨?_, ?_, ?_, ?_, ?_⟩
  · obtain ⟨st', h, _⟩ := decoderRead_ended D C _ st hinv (Nat.lt_succ_self _)
    exact ⟨st', h⟩
  · intro offset stalled hoff
    obtain ⟨st', h, _⟩ := writeLoop_ended D C (2 * (pkt.length - offset) + 2) st pkt offset stalled hinv hoff
      (by split <;> omega)
    exact ⟨st', h⟩
  · obtain ⟨st', h, _⟩ := writeLoop_ended D C (2 * pkt.length + 2) st pkt 0 false hinv (Nat.zero_le _)
      (by simp)
    exact ⟨st', h⟩
  · have hi : Ring.Inv (finishOp st.ring) := hinv
    obtain ⟨st', h, _⟩ := decoderRead_ended D C _ { st with ring := finishOp st.ring } hi (Nat.lt_succ_self _)
    exact ⟨st', h⟩
  · intro init cl hlen
    unfold decodeWritePkt
    have hi0 : Ring.Inv (Ring.new (pkt.length * 2)) := inv_new _ (by omega)
    obtain ⟨r1, k1, hw1, hi1, _, _, _, ha⟩ := write_refines _ pkt hi0
    simp only [hw1]
    -- the fresh ring of size 2·len takes the whole packet (`debug_assert!(result == pkt.len())`)
    have hk : k1 = pkt.length := by
      simp only [Lemmas.Ring.abs, Fifo.write] at ha
      have h2 := (Prod.mk.inj ha).2
      have hc : (content (Ring.new (pkt.length * 2))).length = 0 := by simp [content, Ring.new]
      have hl : (Ring.new (pkt.length * 2)).buffer.length = pkt.length * 2 := by simp [Ring.new]
      rw [hc, hl] at h2
      omega
    simp only [hk, ne_eq, not_true_eq_false, if_false]
    obtain ⟨st', h, _⟩ := decoderRead_ended D C _ ⟨init, r1, pkt.length, cl, []⟩ hi1 (Nat.lt_succ_self _)
    exact ⟨st', h⟩

/-- **D15, negation witness for the loops before commit 5b2a894**: in the state `stuck` (reachable: gzip object whose
    announced Content-Length has been written while trailer bytes are still to come, ring full) the old
    `decode_write_pkt` loop never ends - for every amount of fuel it is still running: `decoder_read` returned at
    once because `content_length_left == Some(0)`, so nobody drained the ring, and `write` accepted 0 bytes forever.
    This holds for EVERY decompressor (it is never called). -/
theorem drain_hangs_before_repair {σ} (D : Decomp σ) (dec : σ) (fi : BW σ → Nat) :
    Ring.Inv stuck.ring ∧
    ∀ fo, ∃ res, writeLoopV0 D fi fo ⟨dec, stuck.ring, 1, some 0, []⟩ [1] 0 = res ∧
      (match res with | .hang => True | _ => False) := by
  refine ⟨⟨by decide, Or.inr ⟨by decide, by decide⟩⟩, ?_⟩
  intro fo
  refine ⟨_, rfl, ?_⟩
  induction fo with
  | zero => simp [writeLoopV0]
  | succ fo ih =>
    have hw : Ring.write stuck.ring ([1] : List Nat) = .ok (stuck.ring, 0) := by rfl
    unfold writeLoopV0
    simp only [List.length_cons, List.length_nil, Nat.not_lt_zero, if_false, List.drop_zero, hw,
      decoderReadV0Top, if_true, Nat.add_zero]
    simpa using ih

/-- the repaired loop in the same state, with the echo decompressor: it drains the ring (the output is discarded,
    `content_length_left == Some(0)`), then the byte is accepted and the loop ends with `Ok` -/
example : (match writeLoop echo (fun _ => 5) 4 stuck [1] 0 false with
    | .done st => some (st.out, content st.ring)
    | _ => none) = some ([], []) := by rfl

end Flute.Props.Ring
