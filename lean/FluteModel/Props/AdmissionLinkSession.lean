/-
  Link of `Session.refusedFull` / `Session.refused` / `Session.blockFails` (agent e2e; coarser by design - no panics,
  no refusal reasons, no Z) to the reference admission model `FluteModel/Admission.lean`.  Separate from
  `Props/AdmissionLink.lean` because it has to follow every edit of `Session.lean`.
-/
import FluteModel.Props.AdmissionLink
import FluteModel.Session
import FluteModel.Lemmas.AdmissionSat
namespace Flute.Props.C01.Admission
open Flute Flute.Admission

def fecOf : Session.Scheme → Fec
  | .nocode => .noCode | .rs => .rs28 | .rsus => .rs28us | .raptorq => .raptorq | .raptor => .raptor

/-- what e2e's Boolean says about an outcome of the reference -/
def agrees (x : Rs (Except Refuse Oti)) (refused : Bool) : Prop :=
  match x with
  | .ok (.error _) => refused = true
  | .ok (.ok _) => refused = false
  | .error _ => False

/-- the reference's `max_transfer_length` IS e2e's min(cap, E*B*max_sbn), for all inputs: the saturating products only
    saturate above every cap (`Lemmas.AdmissionSat.satcap`) -/
theorem hm_always (sch : Session.Scheme) (e b p : Nat) (sc : Option SchemeSpecific) :
    maxTransferLength ⟨fecOf sch, 0, b, e, p, sc⟩ = .ok (Session.maxTransferLength sch e b) := by
  cases sch <;>
    simp only [maxTransferLength, fecOf, maxSourceBlocksNumber, lengthCap, Session.maxTransferLength, Session.maxSbn,
      Session.lenCap] <;>
    (congr 1) <;> exact Lemmas.AdmissionSat.satcap e b _ _ (by decide) (by decide)

/-- **`Session.refusedFull` ⇔ the reference refuses**, on the domain of e2e's model: one of its five schemes,
    scheme-specific parameters present for Raptor / RaptorQ, `(aLarge, aSmall, nL, n)` = the partition. -/
theorem session_refused_link (sch : Session.Scheme) (e b p tl : Nat) (sc : Option SchemeSpecific)
    (q : Partition.Quad) (hbp : Partition.blockPartitioning b tl e = .ok q)
    (hsc : (sch = .raptorq ∨ sch = .raptor) → sc.isSome = true) :
    agrees (fileDescNew ⟨fecOf sch, 0, b, e, p, sc⟩ none tl)
      (Session.refusedFull sch e b p tl q.1 q.2.1 q.2.2.1 q.2.2.2) := by
  have hm := hm_always sch e b p sc
  have hu := tooManyBlocks_unreachable ⟨fecOf sch, 0, b, e, p, sc⟩ none tl
  rw [fileDescNew_eq] at hu ⊢
  have h2m : fecOf sch ≠ .rs2m := by cases sch <;> simp [fecOf]
  simp only [chosen, hm, h2m, ↓reduceIte] at hu ⊢
  by_cases hL : tl > Session.maxTransferLength sch e b
  · simp [hL, agrees, Session.refusedFull, Session.refused]
  simp only [hL, ↓reduceIte] at hu ⊢
  rw [fileDescTail_eq] at hu ⊢
  cases sch <;>
    simp only [fecOf, rsChecks, raptorTail, reduceCtorEq, or_self, or_false, or_true, false_or, false_and, true_and,
      ↓reduceIte, hbp, maxBlockSymbols, Session.refusedFull, Session.refused, Session.kMax, hL, decide_false,
      Bool.false_or, Bool.or_false, beq_self_eq_true, Bool.true_and, Bool.false_and, Bool.and_false, Bool.or_self,
      Bool.and_self, forall_const] at hu hsc ⊢
  · simp [agrees]
  · by_cases hp : p = 0 <;> by_cases hf : b + p > 255 <;> by_cases hk : q.1 + p > 255 <;>
      simp [agrees, hp, hf, hk] <;> omega
  · by_cases hp : p = 0 <;> by_cases hf : b + p > 65535 <;> by_cases hk : q.1 + p > 255 <;>
      simp [agrees, hp, hf, hk] <;> omega
  · have hs : ¬ sc = none := by cases sc <;> simp_all
    by_cases hk : 56403 < q.1
    · simp [agrees, hk]
    by_cases hz : 255 < q.2.2.2
    · simp [hk, hs, hz] at hu
    · simp [agrees, hk, hs, hz]
  · have hs : ¬ sc = none := by cases sc <;> simp_all
    by_cases hk : 8192 < q.1
    · simp [agrees, hk]
    by_cases hsm : (0 < q.2.2.1 ∧ (q.1 = 2 ∨ q.1 = 3)) ∨ (q.2.2.1 < q.2.2.2 ∧ (q.2.1 = 2 ∨ q.2.1 = 3))
    · simp only [hk, hsm, ↓reduceIte, agrees]
      rcases hsm with ⟨h1, h2⟩ | ⟨h1, h2⟩ <;> rcases h2 with h2 | h2 <;> simp [h1, h2]
    by_cases hz : 65535 < q.2.2.2
    · simp [hk, hs, hz, hsm] at hu
    · simp only [hk, hsm, hs, hz, ↓reduceIte, agrees]
      simp only [not_or, not_and] at hsm
      simp [hk]
      by_cases h1 : 0 < q.2.2.1 <;> by_cases h2 : q.2.2.1 < q.2.2.2 <;> simp_all <;> omega

/-- `hm_always` at ordinary parameters, e.g. -/
example : maxTransferLength ⟨fecOf .rs, 0, 64, 1024, 2, none⟩ = .ok (Session.maxTransferLength .rs 1024 64) := rfl

/-- consequence in e2e's vocabulary: no block of an admitted RS / RaptorQ / No-Code object "fails" (`blockFails`
    models the crate: `k + p > 256`; admission is stricter, 255) -/
theorem admitted_blocks_never_fail (sch : Session.Scheme) (p aLarge k : Nat) (hk1 : 1 ≤ k) (hk2 : k ≤ aLarge)
    (hrs : (sch = .rs ∨ sch = .rsus) → 1 ≤ p ∧ aLarge + p ≤ 255)
    (hrq : sch = .raptorq → aLarge ≤ 56403) (hnot : sch ≠ .raptor) :
    Session.blockFails sch k p = false := by
  cases sch <;> simp_all [Session.blockFails, Session.kMax] <;> omega

/-- ... and since /repo 42b2a1c also none of an admitted Raptor object, given that the block size is one the
    partition uses and is not 2 or 3 (`admitted_raptor_blocks`) -/
theorem admitted_raptor_block_never_fails (p aLarge k : Nat) (hk2 : k ≤ aLarge) (hk : aLarge ≤ 8192)
    (h23 : k ≠ 2 ∧ k ≠ 3) : Session.blockFails .raptor k p = false := by
  simp [Session.blockFails, Session.kMax]; omega

end Flute.Props.C01.Admission
