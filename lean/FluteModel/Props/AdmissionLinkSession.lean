/-
  Link of `Session.refused` / `Session.blockFails` (agent e2e; coarser by design - no panics, no refusal reasons, no Z)
  to the reference admission model `FluteModel/Admission.lean`.  Separate from `Props/AdmissionLink.lean` because it has
  to follow every edit of `Session.lean`.
-/
import FluteModel.Props.AdmissionLink
import FluteModel.Session
namespace Flute.Props.C01.Admission
open Flute Flute.Admission

def fecOf : Session.Scheme → Fec
  | .nocode => .noCode | .rs => .rs28 | .rsus => .rs28us | .raptorq => .raptorq | .raptor => .raptor

/-- **`Session.refused` ⇔ the reference refuses**, on the domain of e2e's model: one of its five schemes, no
    `usize` overflow in `max_transfer_length` (`hm`: the two `usize` products of `max_transfer_length` do not overflow, then both
    models compute min(cap, E*B*max_sbn); where they overflow the real code panics - `PANIC` in the correspondence -
    and e2e's model, on unbounded naturals, has no such outcome),
    scheme-specific parameters present for Raptor / RaptorQ, `aLarge` = the partition's `a_large`. -/
theorem session_refused_link (sch : Session.Scheme) (e b p tl : Nat) (sc : Option SchemeSpecific)
    (q : Partition.Quad) (hbp : Partition.blockPartitioning b tl e = .ok q)
    (hm : maxTransferLength ⟨fecOf sch, 0, b, e, p, sc⟩ = .ok (Session.maxTransferLength sch e b))
    (hsc : (sch = .raptorq ∨ sch = .raptor) → sc.isSome = true) :
    ∃ r, fileDescNew ⟨fecOf sch, 0, b, e, p, sc⟩ none tl = .ok r ∧
      (Session.refused sch e b p tl q.1 = true ↔ ∃ why, r = .error why) := by
  have hu := tooManyBlocks_unreachable ⟨fecOf sch, 0, b, e, p, sc⟩ none tl
  rw [fileDescNew_eq] at hu ⊢
  have h2m : fecOf sch ≠ .rs2m := by cases sch <;> simp [fecOf]
  simp only [chosen, hm, h2m, ↓reduceIte] at hu ⊢
  by_cases hL : tl > Session.maxTransferLength sch e b
  · simp only [hL, ↓reduceIte]
    exact ⟨_, rfl, by simp [Session.refused, hL]⟩
  simp only [hL, ↓reduceIte] at hu ⊢
  cases sch <;>
    simp only [tailA, fecOf, reduceCtorEq, or_self, or_false, or_true, false_or, false_and, true_and, ↓reduceIte, hbp,
      maxBlockSymbols, Session.refused, Session.kMax, hL, decide_false, Bool.false_or, Bool.or_false, beq_self_eq_true,
      Bool.true_and, Bool.false_and, Bool.and_false, Bool.or_self] at hu hsc ⊢
  · exact ⟨_, rfl, by simp⟩
  · by_cases hp : p = 0
    · simp only [hp, ↓reduceIte]; exact ⟨_, rfl, by simp⟩
    · by_cases hk : q.1 + p > 256
      · simp only [hp, hk, ↓reduceIte]; exact ⟨_, rfl, by simp [hp, hk]⟩
      · simp only [hp, hk, ↓reduceIte]; exact ⟨_, rfl, by simp [hp, hk]⟩
  · by_cases hp : p = 0
    · simp only [hp, ↓reduceIte]; exact ⟨_, rfl, by simp⟩
    · by_cases hk : q.1 + p > 256
      · simp only [hp, hk, ↓reduceIte]; exact ⟨_, rfl, by simp [hp, hk]⟩
      · simp only [hp, hk, ↓reduceIte]; exact ⟨_, rfl, by simp [hp, hk]⟩
  · have hs : sc.isNone = false := by cases sc <;> simp_all
    by_cases hk : q.1 > 56403
    · simp only [hk, ↓reduceIte]; exact ⟨_, rfl, by simp [hk]⟩
    · by_cases hz : q.2.2.2 > 255
      · simp [hk, hs, hz] at hu
      · simp only [hk, hs, hz, ↓reduceIte, Bool.false_eq_true]; exact ⟨_, rfl, by simp [hk]⟩
  · have hs : sc.isNone = false := by cases sc <;> simp_all
    by_cases hk : q.1 > 8192
    · simp only [hk, ↓reduceIte]; exact ⟨_, rfl, by simp [hk]⟩
    · by_cases hz : q.2.2.2 > 65535
      · simp [hk, hs, hz] at hu
      · simp only [hk, hs, hz, ↓reduceIte, Bool.false_eq_true]; exact ⟨_, rfl, by simp [hk]⟩

/-- `hm` is met wherever nothing overflows, e.g. -/
example : maxTransferLength ⟨fecOf .rs, 0, 64, 1024, 2, none⟩ = .ok (Session.maxTransferLength .rs 1024 64) := rfl

/-- consequence in e2e's vocabulary: no block of an admitted RS / RaptorQ / No-Code object "fails" -/
theorem admitted_blocks_never_fail (sch : Session.Scheme) (p aLarge k : Nat) (hk1 : 1 ≤ k) (hk2 : k ≤ aLarge)
    (hrs : (sch = .rs ∨ sch = .rsus) → 1 ≤ p ∧ aLarge + p ≤ 256)
    (hrq : sch = .raptorq → aLarge ≤ 56403) (hnot : sch ≠ .raptor) :
    Session.blockFails sch k p = false := by
  cases sch <;> simp_all [Session.blockFails, Session.kMax] <;> omega

end Flute.Props.C01.Admission
