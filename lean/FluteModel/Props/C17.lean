import FluteModel.Recv
import FluteModel.Lemmas.RecvBounds
import FluteModel.Lemmas.RecvToy
import FluteModel.Lemmas.RecvGrowth
import FluteModel.Lemmas.RecvD16
import FluteModel.Lemmas.RecvUnbounded
/-
  C17 - receiver memory is bounded by configuration, not by traffic: the SESSION-LEVEL registries
  (`Receiver`: objects_error, fdt_current, objects_completed, objects, fdt_receivers).
  The object-level clauses (packet cache, decoded blocks) are `Flute.Props.C17.Obj` (engine `orecv`).

  Theorems over ALL histories of arbitrary parsed packets, arbitrary XML-parser answers, arbitrary
  object implementations (`I : ObjIface σ`), arbitrary times; `runT I (State.init cfg) ops = some tr`
  = no call panicked, `tr` = per call (call, state after, result, events).
-/
namespace Flute.Props.C17
open Flute Flute.Recv
variable {σ : Type}

/-- **errors_bounded.**  After every call `|objects_error| ≤ max_objects_error`. -/
theorem errors_bounded (I : ObjIface σ) (cfg : Config) (ops : List Op)
    (tr : List (Op × State σ × Res × List Ev)) (hrun : runT I (State.init cfg) ops = some tr) :
    ∀ e ∈ tr, e.2.1.errors.length ≤ cfg.maxObjectsError := by
  have := runT_inv I (fun s => s.cfg = cfg ∧ ErrInv s) (fun _ => True)
    (fun s op s' r evs hinv _ h => by
      have h1 := step_err I s s' op r evs h hinv.2
      have h2 := (step_all I (fun _ => True) s s' op r evs (fun _ _ _ => trivial) (fun _ _ _ _ _ _ => trivial)
        (fun _ _ _ _ _ _ _ _ _ => trivial) (fun _ _ _ _ => trivial) h
        ⟨fun _ _ => trivial, fun _ _ => trivial⟩).2
      exact ⟨by rw [h2]; exact hinv.1, h1⟩)
    ops (State.init cfg) tr ⟨rfl, by simp [ErrInv, State.init]⟩ (fun _ _ => trivial) hrun
  intro e he
  have h := this e he
  unfold ErrInv at h
  rw [h.1] at h
  exact h.2

/-- **fdt_current_bounded.**  After every call `fdt_current` holds at most 10 instances. -/
theorem fdt_current_bounded (I : ObjIface σ) (cfg : Config) (ops : List Op)
    (tr : List (Op × State σ × Res × List Ev)) (hrun : runT I (State.init cfg) ops = some tr) :
    ∀ e ∈ tr, e.2.1.fdtCurrent.length ≤ 10 := by
  exact runT_inv I CurInv (fun _ => True)
    (fun s op s' r evs hinv _ h => step_cur I s s' op r evs h hinv)
    ops (State.init cfg) tr (by simp [CurInv, State.init]) (fun _ _ => trivial) hrun

/-- **completed_bounded_by_fdt.**  Each time an FDT instance completes (`fdtCompleted` = the tail of
    `push_fdt_obj` once the instance `f` was found `Complete`; `files` = its `File` list), every TOI
    still in `objects_completed` afterwards is one listed by that latest instance
    (`toi.parse().unwrap_or(0)` of a `File`), so `|objects_completed| ≤` the number of files of the
    latest FDT right after each FDT completion, in every state. -/
theorem completed_bounded_by_fdt (I : ObjIface σ) (s s' : State σ) (id : Nat) (r : Res) (evs : List Ev)
    (f : FdtRecv σ) (inst : FdtAbs) (files : List FileAbs)
    (hf : alookup id s.fdtReceivers = some f) (hi : f.inst = some inst) (hfl : inst.files = some files)
    (h : fdtCompleted I s id = .ok (s', r, evs)) :
    ∀ kc ∈ s'.completed, kc.1 ∈ files.map FileAbs.toiParsed :=
  fdtCompleted_completed I s s' id r evs f inst files hf hi hfl h

/-- **cleanup_releases** (objects).  With an object time-out configured, after `cleanup` no object
    whose time-out has elapsed is left in `objects`, in any state and whatever the traffic was; in
    particular after a cleanup at which every object has timed out `nb_objects() = 0`. -/
theorem cleanup_releases_objects (I : ObjIface σ) (s s' : State σ) (now : Int) (stale : Stale)
    (evs : List Ev) (h : cleanup I s now stale = .ok (s', evs)) (ht : s.cfg.objectTimeout = true) :
    (∀ x ∈ s'.objects, stale.obj x.1 = false) ∧
    ((∀ t, stale.obj t = true) → s'.objects = []) := by
  have h1 := cleanup_objects_released I s s' now stale evs h ht
  refine ⟨h1, fun hall => ?_⟩
  cases hobj : s'.objects with
  | nil => rfl
  | cons x r =>
    have := h1 x (by rw [hobj]; simp)
    rw [hall x.1] at this
    cases this

/-- **cleanup_releases** (unfinished FDT instances; the repaired `cleanup_fdt`, D16).  After
    `cleanup` every entry of `fdt_receivers` is `Complete`, or `Receiving` and not timed out: with
    an object time-out configured, an unfinished instance whose last packet is older than the
    time-out is released (instances in state `Error`/`Expired` always are). -/
theorem cleanup_releases_unfinished_fdt (I : ObjIface σ) (s s' : State σ) (now : Int) (stale : Stale)
    (evs : List Ev) (h : cleanup I s now stale = .ok (s', evs)) :
    ∀ kf ∈ s'.fdtReceivers, kf.2.st = .complete ∨
      (kf.2.st = .receiving ∧
        ¬ (s.cfg.objectTimeout = true ∧ kf.2.obj.isSome = true ∧ stale.fdt kf.1 = true)) :=
  cleanup_fdt_released I s s' now stale evs h

/-- **cleanup_releases** (session).  With a session time-out configured the receiver reports itself
    expired once the time-out has elapsed (`MultiReceiver::cleanup` then drops it). -/
theorem session_reported_expired (s : State σ) (h : s.cfg.sessionTimeout = true) :
    isExpired s true = true := by
  simp [isExpired, h]

/-- **registries_linear_in_datagrams.**  `objects` and `fdt_receivers` are the two registries that
    traffic can grow (until the time-outs release them): after a history of `n` calls they hold at
    most `n` entries each - one datagram creates at most one object and one FDT-instance receiver. -/
theorem registries_linear_in_datagrams (I : ObjIface σ) :
    ∀ (ops : List Op) (s s' : State σ) (out : List (Res × List Ev)), run I s ops = some (s', out) →
      s'.objects.length ≤ s.objects.length + ops.length ∧
      s'.fdtReceivers.length ≤ s.fdtReceivers.length + ops.length := by
  intro ops
  induction ops with
  | nil =>
    intro s s' out h
    simp only [run, Option.some.injEq, Prod.mk.injEq] at h
    obtain ⟨rfl, _⟩ := h
    exact ⟨Nat.le_refl _, Nat.le_refl _⟩
  | cons op ops ih =>
    intro s s' out h
    unfold run at h
    split at h
    · cases h
    · rename_i s1 r ev hs
      split at h
      · cases h
      · rename_i s2 out2 hr
        simp only [Option.some.injEq, Prod.mk.injEq] at h
        obtain ⟨rfl, _⟩ := h
        have h1 := step_growth I s s1 op r ev hs
        have h2 := ih s1 s2 out2 hr
        simp only [List.length_cons]
        omega

/-- **What "bounded by configuration" amounts to for `objects`** (the bound the code really gives).
    Between cleanups nothing limits the number of objects but the number of datagrams: from ANY state,
    after a cleanup at which every object has timed out (object time-out configured) and `k` further
    calls, at most `k` objects are held.  The bound is "datagrams since the last effective cleanup",
    not a function of the configuration alone. -/
theorem objects_bounded_since_cleanup (I : ObjIface σ) (s s1 s2 : State σ) (now : Int) (stale : Stale)
    (ev : List Ev) (ops : List Op) (out : List (Res × List Ev))
    (ht : s.cfg.objectTimeout = true) (hall : ∀ t, stale.obj t = true)
    (hc : cleanup I s now stale = .ok (s1, ev)) (hr : run I s1 ops = some (s2, out)) :
    s2.objects.length ≤ ops.length := by
  have h1 := (cleanup_releases_objects I s s1 now stale ev hc ht).2 hall
  have h2 := (registries_linear_in_datagrams I ops s1 s2 out hr).1
  rw [h1] at h2
  simpa using h2

/-- **... and without an object time-out it is NOT bounded by configuration** (negation witness,
    legal configuration `object_timeout = None`): for every `n` and every configuration there is a
    history of `n` datagrams (one packet for each of `n` TOIs, no FDT) after which `nb_objects() = n`;
    `cleanup` then releases nothing (`cleanup_objects` returns at once). -/
theorem objects_unbounded_without_timeout (cfg : Config) (n : Nat) :
    ∃ s out, run Toy.iface (State.init cfg) (objOps n) = some (s, out) ∧ s.objects.length = n := by
  obtain ⟨s, out, hr, _, _, _, hlen, _⟩ := obj_run cfg n
  exact ⟨s, out, hr, hlen⟩

/-- **FDT document bytes: bounded since repair 2037586** (was finding recv-2: no bound at all).  A
    `write` of `len` bytes adds `len` bytes as long as the document stays within `MAX_FDT_SIZE`
    (16 MiB), otherwise the writer refuses: the instance goes to `Error` and holds what it held. -/
theorem fdt_bytes_accumulate (ans : FdtAns) (f : FdtRecv σ) (sbn len : Nat) :
    (f.applyWEv ans (.write sbn len)).bytes =
      (if f.bytes + len > maxFdtSize then f.bytes else f.bytes + len) := by
  simp only [FdtRecv.applyWEv]
  split <;> rfl

theorem applyWEv_bytes_le (ans : FdtAns) (f : FdtRecv σ) (e : WEv) (h : f.bytes ≤ maxFdtSize) :
    (f.applyWEv ans e).bytes ≤ maxFdtSize := by
  cases e with
  | complete =>
    simp only [FdtRecv.applyWEv]
    split
    · exact h
    · cases ans <;> exact h
  | write sbn len =>
    simp only [FdtRecv.applyWEv]
    split
    · exact h
    · rename_i hn; simp only []; omega
  | _ => exact h

theorem applyWEvs_bytes_le (ans : FdtAns) (f : FdtRecv σ) (evs : List WEv) (h : f.bytes ≤ maxFdtSize) :
    (f.applyWEvs ans evs).bytes ≤ maxFdtSize := by
  induction evs generalizing f with
  | nil => exact h
  | cons e r ih =>
    simp only [FdtRecv.applyWEvs, List.foldl_cons] at ih ⊢
    exact ih _ (applyWEv_bytes_le ans f e h)

theorem fdtPush_bytes_le (I : ObjIface σ) (f : FdtRecv σ) (p : Pkt) (now : Int) (ans : FdtAns)
    (h : f.bytes ≤ maxFdtSize) : (f.push I p now ans).bytes ≤ maxFdtSize := by
  have h0 : (f.observeSct p.sct now).bytes ≤ maxFdtSize := by
    unfold FdtRecv.observeSct
    cases p.sct with
    | none => exact h
    | some r => simp only []; split <;> exact h
  unfold FdtRecv.push
  simp only []
  cases (f.observeSct p.sct now).obj with
  | none => exact h0
  | some o =>
    simp only []
    have h1 := applyWEvs_bytes_le ans _ (I.push o p).2 h0
    split
    · exact h1
    · exact applyWEvs_bytes_le ans _ _ h1
    · exact h1
    · exact h1

/-- **fdt_bytes_bounded.**  In every state of every history, every FDT instance - under reception or
    one of the (at most 10) current ones - holds at most `MAX_FDT_SIZE` bytes of document: the bytes of
    the CURRENT instances are bounded by a constant of the code, 10 × 16 MiB (with `fdt_current_bounded`).
    (The NUMBER of instances under reception is linear in the datagrams since the last cleanup that
    found them stale: `registries_linear_in_datagrams`.) -/
theorem fdt_bytes_bounded (I : ObjIface σ) (cfg : Config) (ops : List Op)
    (tr : List (Op × State σ × Res × List Ev)) (hrun : runT I (State.init cfg) ops = some tr) :
    ∀ e ∈ tr, (∀ f ∈ e.2.1.fdtCurrent, f.bytes ≤ maxFdtSize) ∧
              (∀ kf ∈ e.2.1.fdtReceivers, kf.2.bytes ≤ maxFdtSize) := by
  have := runT_inv I (fun s => AllFdt (fun f => f.bytes ≤ maxFdtSize) s) (fun _ => True)
    (fun s op s' r evs hinv _ h =>
      (step_all I (fun f => f.bytes ≤ maxFdtSize) s s' op r evs
        (fun f v hf => by rw [(noteFti_fields f v).2.2.2.2.2.2.2.2.2.2]; exact hf)
        (fun p now ans id _ _ => by simp [FdtRecv.new, maxFdtSize])
        (fun p now ans _ _ _ _ f hf => fdtPush_bytes_le I f p now ans hf)
        (fun f f' hf hu => by rw [updateExpired_bytes hu]; exact hf)
        h hinv).1)
    ops (State.init cfg) tr (by constructor <;> (intro f hf; simp [State.init] at hf))
    (fun _ _ => trivial) hrun
  intro e he
  exact ⟨(this e he).1, (this e he).2⟩

/-- **D16, negation witness for the unrepaired tree.**  With the `cleanup_fdt` that was in the tree
    before commit 6bdd56c, every `Receiving` instance survives every cleanup, whatever time has
    passed: unfinished FDT instance ids were never released (up to 2^20 ids × 1 MiB cache each). -/
theorem d16_unrepaired_cleanup_keeps_unfinished (s s' : State σ) (now : Int)
    (h : cleanupFdtUnrepaired s now = .ok s') :
    ∀ kf ∈ s.fdtReceivers, kf.2.st = .receiving → kf ∈ s'.fdtReceivers := by
  unfold cleanupFdtUnrepaired at h
  split at h
  · cases h
  · rename_i l hl
    injection h with h; subst h
    intro kf hkf hst
    simp only []
    refine List.mem_filter.mpr ⟨updateExpiredAll_receiving now _ _ hl kf hkf hst, ?_⟩
    simp [hst]

/-- **D16, unboundedness on the unrepaired tree** (negation of `cleanup_releases` there).  For EVERY
    `n` there is a history of `n` datagrams (one packet for each of `n` FDT instance ids, none of
    which ever completes) after which `fdt_receivers` holds `n` instances, and the unrepaired
    `cleanup_fdt` still holds all `n` of them at any later time: memory was bounded by traffic
    (up to 2^20 ids), not by configuration. -/
theorem d16_unrepaired_unbounded (cfg : Config) (n : Nat) (later : Int) :
    ∃ s out, run Toy.iface (State.init cfg) (d16Ops n) = some (s, out) ∧ s.fdtReceivers.length = n ∧
      ∀ s', cleanupFdtUnrepaired s later = .ok s' → n ≤ s'.fdtReceivers.length := by
  obtain ⟨s, out, hr, hcur, hlen, hall⟩ := d16_run cfg n
  refine ⟨s, out, hr, hlen, fun s' hs' => ?_⟩
  have hkeep := d16_unrepaired_cleanup_keeps_unfinished s s' later hs'
  -- every entry survives, so the surviving list is at least as long
  unfold cleanupFdtUnrepaired at hs'
  split at hs'
  · cases hs'
  · rename_i l hl
    injection hs' with hs'; subst hs'
    simp only []
    have hl_eq : l = s.fdtReceivers := by
      -- no entry is Complete, so `update_expired_state` changes nothing
      have : ∀ (l0 l1 : List (Nat × FdtRecv Toy.Obj)), updateExpiredAll later l0 = .ok l1 →
          (∀ kf ∈ l0, kf.2.st = .receiving) → l1 = l0 := by
        intro l0
        induction l0 with
        | nil => intro l1 h _; simp [updateExpiredAll] at h; exact h
        | cons a r ih =>
          intro l1 h hrec
          obtain ⟨k, f⟩ := a
          have hf : f.updateExpired later = .ok f := by
            unfold FdtRecv.updateExpired
            rw [if_pos (by rw [(hrec (k, f) (by simp) : f.st = .receiving)]; simp)]
          unfold updateExpiredAll at h
          rw [hf] at h
          simp only [] at h
          split at h
          · cases h
          · rename_i r' hr'
            injection h with h; subst h
            rw [ih r' hr' (fun x hx => hrec x (List.mem_cons_of_mem _ hx))]
      exact this _ _ hl (fun kf hkf => (hall kf hkf).2)
    subst hl_eq
    rw [List.filter_eq_self.mpr (fun kf hkf => by simp [(hall kf hkf).2])]
    omega

/-! ### non-vacuity / witnesses on concrete histories -/

namespace Ex
def cfg : Config :=
  { maxObjectsError := 2, sessionTimeout := true, objectTimeout := true, maxCache := 1000,
    receiveOnce := true, expCheck := true }
/-- first packet of FDT instance `i` (two symbols announced, only this one ever sent) -/
def pk (i : Nat) : Pkt :=
  { toi := 0, closeObject := false, closeSession := false, fdtId := some i, sct := none,
    fti := some ⟨{ fec := 0, esl := 64, msbl := 64 }, 128⟩, pid := some (0, 0), plen := 64, dlen := 100 }
def unfinished : List Op := (List.range 12).map (fun i => Op.data (.pkt (pk i)) 0 .err)
def allStale : Stale := ⟨fun _ => true, fun _ => true⟩
def final (ops : List Op) : Option Nat :=
  (run Toy.iface (State.init cfg) ops).map (fun x => x.1.fdtReceivers.length)
end Ex

/-- 12 instance ids that never complete: 12 instances are held ... -/
example : Ex.final Ex.unfinished = some 12 := by decide
/-- ... and all of them are released by a cleanup after the time-out (repaired code) -/
example : Ex.final (Ex.unfinished ++ [Op.cleanup 1 Ex.allStale]) = some 0 := by decide
/-- ... while the unrepaired `cleanup_fdt` kept all 12 -/
example : ((run Toy.iface (State.init Ex.cfg) Ex.unfinished).bind
    (fun x => (cleanupFdtUnrepaired x.1 1).toOption)).map (fun s => s.fdtReceivers.length) = some 12 := by
  decide

end Flute.Props.C17
