import FluteModel.Props.C04
import FluteModel.Props.C04Wire
import FluteModel.Props.Ring
import FluteModel.Props.C04Multi
import FluteModel.Props.C04WireAbs
import FluteModel.Lemmas.ObjRecvPanicFree
import FluteModel.Lemmas.RecvAllObj
import FluteModel.Lemmas.RecvWhole
import FluteModel.Lemmas.DrainObjInst
import FluteModel.Lemmas.DrvOrecvDzOK
/-
  C04, THE WHOLE CALL (review batch 2: "no statement covers parse → Receiver.push → ObjectReceiver → BlockWriter → ring
  as ONE call").  Integrator: agent path/ring.  Nothing here edits an owner's model; this file composes

    bytes ──Alc.parseAlcPkt (wire)──▶ AlcPkt ──Recv.ofAlc/classify (recv)──▶ Recv.Pkt ──Recv.push (recv)──▶ registries
        ──(Full.iface P) (recv) = ObjRecv.push / attachFdt (orecv)──▶ BlockDecoder / BlockWriter / decompressor ring (orecv, ring)

  `pushDataWhole` is that composition as ONE function of the datagram bytes in which a panic or a hang ANYWHERE - parser,
  session level, or inside an ObjectReceiver (which `(Full.iface P)` records by freezing the object, `fault := true`) - is the
  result `.error`.  `push_data_total`: for EVERY byte string, every sane caller clock, every XML-parser answer and every state
  reachable from `Receiver::new` by ANY history of push_data / cleanup calls, the result is `.ok`.

  COMPONENT FACTS.  Discharged here from the owners' theorems:
    * parser total, accepted packet ⇒ `Recv.Pkt.WF`            wire `parse_total` + recv `classify_ok` (`ofAlc_wf`)
    * session level total on `AllFdt Good`, `Good` invariant     recv `step_total`, `step_good`
    * object predicate is an invariant of every call              here, `Lemmas/RecvAllObj.lean` (`step_objsAll`, `step_cfg`)
    * `decoder_read` / drain loops never hang                     orecv `push_no_hang` (from `DrainObj.decoderRead_no_hang`)
    * ObjRecv's abstract FIFO ring IS the real ring buffer        here, `dz_ring_write_is_real_ring` (from `Ring.write_refines`)
  COMPONENT LEMMAS ARE COLLECTED IN `structure Interfaces` (one field per owner lemma) and the composition is proved from them;
  `interfaces : Interfaces` then DISCHARGES every field from the owners' theorems:
    * `inv_new / push_total / attach_total`   orecv: `ObjRecv.tinv_new`, `tinv_push`, `tinv_attachFdt` (OInv = `TInv`, PktOK = `WfPkt`,
                                                FileOK = `WfFile`; Lemmas/ObjRecvPanicFree.lean) with `D`
    * `parsed_pkt_ok`                         wire: `toPkt_ofAlc_facts` (Props/C04WireAbs.lean): an EXT_FTI the parser accepts has
                                                transfer length < 2^48 and E < 2^16
  STILL A HYPOTHESIS of the closed theorems (`push_data_total_closed`), by name:
    * `AnsOK` - on the XML-PARSER ANSWER (an oracle input of recv's model): every File of a parsed FDT announces
      Transfer-Length < 2^48 and, if it carries an OTI, E < 2^16 (`ObjRecv.WfFile` of `Full.entryOf`).  The FDT schema allows a
      u64 Transfer-Length and the FDT parser does NOT reject larger values, so no parser lemma can discharge this.  Replayed on
      the real code by agent orecv (engine orecv, family `fdt-huge-tl`: Transfer-Length in {2^48, 2^63, 2^64-16, 2^64-1} x (E,B)
      in {(16,4),(1024,64)}, FDT first, then a 40-byte object): no panic, no hang, model and implementation agree line by line,
      the object ends interrupted - NOT a finding.  Not proved: the u64 arithmetic of `block_length` for L >= 2^48 (C07
      `block_length_eq_rfc` needs L < 2^48; an overflow would need L > 2^64 - E and an SBN near N-1, i.e. B ~ 2^32, E ~ 2^16, dev
      profile only).  Hence a NAMED ASSUMPTION (props.d/C04.json); removing it needs a u64-wide C07 or a range check in `attach_fdt`.
  NOT COVERED (by construction of the owners' models, stated so that it is not hidden):
    * (closed since) the object inside an `FdtReceiver` (TOI 0) is an `ObjRecv` object too (`Full.push0`, orecv's adapter
      `Full.fdtEntry0`); `hasFault` and the invariant cover it (`reachable_fdt_objects_healthy`);
    * (closed since, review batch 3) the closed theorems hold for EVERY parameter set `P` of the object model - any `Codec`
      (whatever the FEC decoders answer), any writer environment (builder answers, failing `open` / `write`, MD5 on/off), any
      decompressor meeting `DzOK P` (contract `DzContract` + state-dependent inner fuel; satisfiable for data-producing
      decompressors, see the examples); `Full.params0` is only the instance the `recv` driver runs.  What stays outside:
      the `Codec` functions are TOTAL by type, so a PANIC inside a third-party codec (review H1/H2: raptorq base.rs:137,
      decoder.rs:400, repaired in /repo by range checks) is not expressible - findings / repairs, not theorems;
    * `Full.entryOf` / `Full.fdtEntry0` hand the object `md5 := none` (stated in RecvFull.lean): the Content-MD5 comparison of a
      completed object is not part of the composed session model (totality is unaffected: `tinv_attachFdt` holds for every entry);
    * `MultiReceiver::push` on top: agent tsi's `Flute.Props.C04.Multi.multi_push_total` gives the session-level statement for any
      `ObjIface` (instantiated below); the object-fault invariant is threaded through the MultiRecv table in Props/C04MultiWhole.lean.
-/
namespace Flute.Props.C04.Whole
open Flute Flute.Recv Flute.Recv.AllObj Flute.Recv.Whole

variable {P : ObjRecv.Params}

/-- **push_data_total - the whole call.**  For EVERY byte string `d`, every caller clock in range, every admissible
    XML-parser answer (`AnsOK`), and every state reachable from `Receiver::new(cfg)` (`object_max_cache_size < 2^63`) by any history of `push_data` /
    `cleanup` calls: the composed model of `Receiver::push_data(d, now)` - parser, TSI test, session registries, FDT
    receivers, every ObjectReceiver with its BlockDecoders, BlockWriter, decompressor ring - returns `Ok` or `Err`:
    no panic, no hang, at any level; and the state it leaves is reachable again. -/
theorem push_data_total (X : Interfaces P) (tsi : Nat) (cfg : Config) (hc : cfg.maxCache < 2 ^ 63)
    (s : State (Full.Any P)) (hs : Reachable X tsi cfg s) (d : List UInt8) (now : Int) (hn : TimeSane now) (ans : FdtAns)
    (hans : AnsOK X ans) :
    ∃ s' r evs, pushDataWhole tsi s d now ans = .ok (s', r, evs) ∧ Reachable X tsi cfg s' := by
  have hw := reachable_winv X cfg hc tsi s hs
  obtain ⟨s', r, evs, h⟩ := Flute.Props.C04.push_data_total (Full.iface P) (Full.completeSound P) tsi s d now ans hw.good hn
  have hstep : step (Full.iface P) s ((BOp.data d now ans).abs tsi) = .ok (s', r, evs) := by
    rw [← push_data_bytes_is_step]; exact h
  have hn' : TimeSane ((BOp.data d now ans).abs tsi).now := by simpa [BOp.abs, Op.now] using hn
  have hr : Reachable X tsi cfg s' := Reachable.step s s' _ r evs hs hn' hans hstep
  have hw' := reachable_winv X cfg hc tsi s' hr
  refine ⟨s', r, evs, ?_, hr⟩
  unfold pushDataWhole
  rw [h]
  simp only [hasFault_false X s' hw'.objs hw'.fobjs, Bool.false_eq_true, if_false]

/-- the same for `Receiver::cleanup` -/
theorem cleanup_total (X : Interfaces P) (tsi : Nat) (cfg : Config) (hc : cfg.maxCache < 2 ^ 63)
    (s : State (Full.Any P)) (hs : Reachable X tsi cfg s) (now : Int) (hn : TimeSane now) (stale : Stale) :
    ∃ s' evs, cleanupWhole s now stale = .ok (s', evs) ∧ Reachable X tsi cfg s' := by
  have hw := reachable_winv X cfg hc tsi s hs
  obtain ⟨s', evs, h⟩ := recv_cleanup_total (Full.iface P) s now stale hw.good hn
  have hstep : step (Full.iface P) s ((BOp.cleanup now stale).abs tsi) = .ok (s', .ok, evs) := by
    simp only [BOp.abs, step, h]
  have hr : Reachable X tsi cfg s' :=
    Reachable.step s s' (BOp.cleanup now stale) .ok evs hs (by simpa [BOp.abs, Op.now] using hn) trivial hstep
  refine ⟨s', evs, ?_, hr⟩
  unfold cleanupWhole
  rw [h]
  simp only [hasFault_false X s' (reachable_winv X cfg hc tsi s' hr).objs (reachable_winv X cfg hc tsi s' hr).fobjs, Bool.false_eq_true, if_false]


/-! ### the interfaces, discharged from the owners' theorems -/

/-- every field of `Interfaces` from the owners' lemmas: orecv's `TInv` machinery (Lemmas/ObjRecvPanicFree.lean) and wire's
    `toPkt_ofAlc_facts` (Props/C04WireAbs.lean) -/
def interfaces (P : ObjRecv.Params) (D : ObjRecv.DzOK P) : Interfaces P where
  OInv := ObjRecv.TInv
  PktOK := ObjRecv.WfPkt
  FileOK := ObjRecv.WfFile
  inv_new := fun toi m hm => ObjRecv.tinv_new toi m hm
  push_total := fun _ p hT hp => ObjRecv.tinv_push P D hT p hp
  attach_total := fun st id f hT hf => by
    apply ObjRecv.tinv_attachFdt P D hT id f
    cases f with
    | none => trivial
    | some e => exact hf e rfl
  entry0_ok := fun q hq e he => by
    unfold Full.fdtEntry0 at he
    cases hf : q.fti with
    | none => rw [hf] at he; cases he
    | some x =>
      obtain ⟨o, l⟩ := x
      rw [hf] at he
      simp only [Option.map_some, Option.some.injEq] at he
      subst he
      have := hq o l hf
      exact ⟨this.1, fun o' ho' => by simp only [Option.some.injEq] at ho'; subst ho'; exact this.2⟩
  parsed_pkt_ok := fun d p h => by
    intro o l hfti
    have := (Flute.Props.C04.Wire.toPkt_ofAlc_facts d p h).2.2.2.2.2.2.2.2.2.2.2.2.2 o l hfti
    exact ⟨this.2.1, this.2.2.1⟩

/-- a sufficient, checkable form of the FDT-side hypothesis: every File of the parsed instance announces
    Transfer-Length < 2^48 and, when it carries an OTI, an encoding symbol length < 2^16 -/
theorem ansOK_of_ranges (P : ObjRecv.Params) (D : ObjRecv.DzOK P) (ans : FdtAns)
    (h : ∀ fdt u, ans = .ok fdt u → ∀ files, fdt.files = some files → ∀ x ∈ files,
      x.tlen < 2 ^ 48 ∧ ∀ o, x.oti = some o → o.esl < 2 ^ 16) : AnsOK (interfaces P D) ans := by
  intro fdt u hans toi x hg cc
  have hx : ∃ files, fdt.files = some files ∧ x ∈ files := by
    unfold FdtAbs.getFile at hg
    cases hf : fdt.files with
    | none => simp [hf] at hg
    | some fs => simp only [hf] at hg; exact ⟨fs, rfl, List.mem_of_find?_eq_some hg⟩
  obtain ⟨files, hf, hmem⟩ := hx
  obtain ⟨h1, h2⟩ := h fdt u hans files hf x hmem
  refine ⟨h1, ?_⟩
  intro o ho
  simp only [Full.entryOf, Option.map_eq_some_iff] at ho
  obtain ⟨o0, ho0, rfl⟩ := ho
  exact h2 o0 ho0

/-- **push_data_total, closed**: no component hypothesis left - only the caller's clock (`TimeSane`), the configuration range
    (`object_max_cache_size < 2^63`) and `AnsOK` on the XML-parser answers (see the file header). -/
theorem push_data_total_closed (P : ObjRecv.Params) (D : ObjRecv.DzOK P) (tsi : Nat) (cfg : Config) (hc : cfg.maxCache < 2 ^ 63)
    (s : State (Full.Any P)) (hs : Reachable (interfaces P D) tsi cfg s) (d : List UInt8) (now : Int) (hn : TimeSane now)
    (ans : FdtAns) (hans : AnsOK (interfaces P D) ans) :
    ∃ s' r evs, pushDataWhole tsi s d now ans = .ok (s', r, evs) ∧ Reachable (interfaces P D) tsi cfg s' :=
  push_data_total (interfaces P D) tsi cfg hc s hs d now hn ans hans

theorem cleanup_total_closed (P : ObjRecv.Params) (D : ObjRecv.DzOK P) (tsi : Nat) (cfg : Config) (hc : cfg.maxCache < 2 ^ 63)
    (s : State (Full.Any P)) (hs : Reachable (interfaces P D) tsi cfg s) (now : Int) (hn : TimeSane now) (stale : Stale) :
    ∃ s' evs, cleanupWhole s now stale = .ok (s', evs) ∧ Reachable (interfaces P D) tsi cfg s' :=
  cleanup_total (interfaces P D) tsi cfg hc s hs now hn stale

/-- in every reachable state, every ObjectReceiver of the registry is unfaulted and satisfies orecv's invariant `TInv`
    (partition = `block_partitioning(OTI)`, exact allocation counters, per-block facts, ranges) -/
theorem reachable_objects_healthy (P : ObjRecv.Params) (D : ObjRecv.DzOK P) (tsi : Nat) (cfg : Config) (hc : cfg.maxCache < 2 ^ 63) (s : State (Full.Any P))
    (hs : Reachable (interfaces P D) tsi cfg s) :
    ∀ toi (o : (Full.Obj P)), (toi, Sum.inr o) ∈ s.objects → o.fault = false ∧ ObjRecv.TInv o.st := by
  intro toi o hmem
  exact (reachable_winv (interfaces P D) cfg hc tsi s hs).objs (toi, .inr o) hmem

/-- ... and so is the FDT object (TOI 0, since recv made it an `ObjRecv` object: `Full.push0`) inside every FDT-instance
    receiver, under reception or current -/
theorem reachable_fdt_objects_healthy (P : ObjRecv.Params) (D : ObjRecv.DzOK P) (tsi : Nat) (cfg : Config) (hc : cfg.maxCache < 2 ^ 63) (s : State (Full.Any P))
    (hs : Reachable (interfaces P D) tsi cfg s) :
    (∀ kf ∈ s.fdtReceivers, ∀ o : (Full.Obj P), kf.2.obj = some (Sum.inr o) → o.fault = false ∧ ObjRecv.TInv o.st) ∧
    (∀ f ∈ s.fdtCurrent, ∀ o : (Full.Obj P), f.obj = some (Sum.inr o) → o.fault = false ∧ ObjRecv.TInv o.st) := by
  have hw := (reachable_winv (interfaces P D) cfg hc tsi s hs).fobjs
  exact ⟨fun kf hkf o ho => hw.2 kf hkf _ ho, fun f hf o ho => hw.1 f hf _ ho⟩

/-- non-vacuity: a history is admissible (garbage bytes) and the state it reaches is `Reachable`, for every parameter set -/
example (P : ObjRecv.Params) (D : ObjRecv.DzOK P) :
    ∃ s, Reachable (interfaces P D) 1 ⟨0, false, true, 1024, true, true⟩ s ∧ s.objects = [] := by
  refine ⟨_, Reachable.step _ _ (BOp.data [0, 0, 1] 1700000000000000 .err) .err [] Reachable.init
    (by simp [BOp.abs, Op.now, TimeSane]) (by intro fdt u h; cases h) (by rfl), rfl⟩

/-- non-vacuity of the hypothesis `D : DzOK P` (review batch 3: the earlier constant-fuel `DzOK` was unsatisfiable for any
    decompressor that produces data): (a) the `recv` driver's degenerate parameters, (b) parameters whose decompressor hands out
    every byte it is given, (c) the always-draining table decompressor `idealDz`, (c') the table decompressor `tableDz` the `orecv` driver executes,
    each for any table - (b), (c), (c') with ANY codec and writer
    environment (`Lemmas/DrainObjInst.lean`) -/
example : Nonempty (ObjRecv.DzOK Full.params0) := ⟨dzOK0⟩

example (P0 : ObjRecv.Params) (h : P0.dzRead = Flute.Lemmas.DrainObj.idRead) :
    ∃ P : ObjRecv.Params, P.dzRead = Flute.Lemmas.DrainObj.idRead ∧ P.codec = P0.codec ∧ P.env = P0.env ∧
      Nonempty (ObjRecv.DzOK P) := Flute.Lemmas.DrainObj.dzOK_identity_satisfiable P0 h

/-- (c') the decompressor the `orecv` driver EXECUTES since review batch 4 (`tableDz`: buffered reader, nothing consumed after
    the end of the compressed stream, so the ring can fill up), with orecv's `tableContract`; the driver's own parameters:
    `Flute.Drv.Orecv.drv_params_dzOK` -/
example (P0 : ObjRecv.Params) (ztab : List (FecDec.Bytes × FecDec.Bytes × Bool))
    (h : P0.dzRead = Flute.Drv.Orecv.tableDz ztab) :
    ∃ P : ObjRecv.Params, P.dzRead = Flute.Drv.Orecv.tableDz ztab ∧ P.codec = P0.codec ∧ P.env = P0.env ∧
      Nonempty (ObjRecv.DzOK P) :=
  let C := Flute.Drv.Orecv.tableContract P0 ztab h
  ⟨{ P0 with dzFuel := fun w => Flute.Lemmas.DrainObj.bwMu (C.withFuel (fun _ => 0)) w + 1 }, h, rfl, rfl,
    ⟨Flute.Lemmas.DrainObj.dzOK_of_contract C⟩⟩

/-- (c) the earlier, always-draining variant `idealDz` of that table decompressor -/
example (P0 : ObjRecv.Params) (ztab : List (FecDec.Bytes × FecDec.Bytes × Bool))
    (h : P0.dzRead = Flute.Drv.Orecv.idealDz ztab) :
    ∃ P : ObjRecv.Params, P.dzRead = Flute.Drv.Orecv.idealDz ztab ∧ P.codec = P0.codec ∧ P.env = P0.env ∧
      Nonempty (ObjRecv.DzOK P) := Flute.Lemmas.DrainObj.dzOK_ideal_satisfiable P0 ztab h

/-- the instance the `recv` driver executes (`Full.params0`: No-Code only, inflate answers `Err`, writer never fails) -/
example (tsi : Nat) (cfg : Config) (hc : cfg.maxCache < 2 ^ 63) (s : State (Full.Any Full.params0))
    (hs : Reachable (interfaces Full.params0 dzOK0) tsi cfg s) (d : List UInt8) (now : Int) (hn : TimeSane now) :
    ∃ s' r evs, pushDataWhole tsi s d now .err = .ok (s', r, evs) ∧ Reachable (interfaces Full.params0 dzOK0) tsi cfg s' :=
  push_data_total_closed Full.params0 dzOK0 tsi cfg hc s hs d now hn .err (by intro fdt u h; cases h)

/-! ### allocation, in the honest form

  What the composed model bounds per call / per reachable state, as a function f(config, datagram), and what it does NOT bound
  (each exception is a recorded finding, not an assumption):
    f₁  registries: one call adds at most ONE entry to `objects` and ONE to `fdt_receivers`; `objects_error` ≤
        `max_objects_error`, `fdt_current` ≤ 10                                        (recv `alloc_bounded`, per call)
    f₂  source-block bytes of an object: Σ allocated block sizes ≤ `max_size_allocated` + 2·2^48
        EXCEPTION D31 is exactly the `2·2^48` term: the limit is enforced from the THIRD block on, the first two blocks
        follow the announcement (each < 2^48 bytes since the transfer length is < 2^48)   (orecv `TInv.blocks_bounded`)
    f₃  packet cache of an object (before the OTI is known): < `max_size_allocated` + one datagram  (orecv `C17.Obj.cache_bounded`)
    NOT bounded by any configuration value:
        recv-1  the pre-allocated block TABLE (`blocks.len()`, up to 2·2048+1 entries, each an empty BlockDecoder) - bounded by a
                constant, not by the configuration;
        recv-2  the document bytes of an FDT instance under reception (`FdtRecv.bytes` only ever grows:
                `Flute.Props.C17.fdt_bytes_unbounded`), and what a content-encoded FDT inflates to;
        the number of entries between two cleanups is linear in the datagrams (`C17.objects_unbounded_without_timeout`);
        transient heap inside a call and an allocation ABORT (review F': not a panic, kills the process) are not notions of
        this model at all - measured by engine `recv` only. -/

/-- **alloc_bounded (whole composition).**  f₁ per call and f₂ in every reachable state, for every byte-level history. -/
theorem alloc_bounded (P : ObjRecv.Params) (D : ObjRecv.DzOK P) (tsi : Nat) (cfg : Config) (hc : cfg.maxCache < 2 ^ 63) (s : State (Full.Any P))
    (hs : Reachable (interfaces P D) tsi cfg s) :
    (∀ toi (o : (Full.Obj P)), (toi, Sum.inr o) ∈ s.objects →
        ObjRecv.wsum o.st.blocks ≤ o.st.maxSize + 2 * 2 ^ 48 ∧ o.st.maxSize < 2 ^ 63) ∧
    (∀ (b : BOp) s' r evs, step (Full.iface P) s (b.abs tsi) = .ok (s', r, evs) →
        s'.objects.length ≤ s.objects.length + 1 ∧ s'.fdtReceivers.length ≤ s.fdtReceivers.length + 1) := by
  constructor
  · intro toi o hmem
    have hT := (reachable_objects_healthy P D tsi cfg hc s hs toi o hmem).2
    exact ⟨by simpa [ObjRecv.BL] using hT.blocks_bounded, hT.max⟩
  · intro b s' r evs h
    have hg := step_growth (Full.iface P) s s' _ r evs h
    exact ⟨hg.1, hg.2.1⟩

/-! ### the ring island, connected

  `ObjRecv` models the decompressor's input buffer as an abstract FIFO (`DzSt.ring : Bytes`, `DzSt.cap`): the write step of
  its `dwLoop` accepts `min (cap - 1 - |ring|) |data|` bytes and appends them.  That IS `RingBuffer::write` on the real ring
  (FluteModel/Ring.lean, the index/wrap-around code of src/tools/ringbuffer.rs) in any state representing the same content -
  so `ring_no_panic` / `ring_refines_fifo` discharge the `Decompress::write` calls of the object model, and reads deliver the
  FIFO prefix the decompressor model drops (`ring.drop take`). -/

open Flute.Lemmas.Ring in
theorem dz_ring_write_is_real_ring (r : Flute.Ring.Ring) (hinv : Flute.Ring.Inv r) (dz : ObjRecv.DzSt)
    (hc : Flute.Ring.content r = dz.ring) (hcap : r.buffer.length = dz.cap) (data : List Nat) :
    ∃ r', Flute.Ring.write r data = .ok (r', min (dz.cap - 1 - dz.ring.length) data.length) ∧ Flute.Ring.Inv r' ∧
      Flute.Ring.content r' = dz.ring ++ data.take (min (dz.cap - 1 - dz.ring.length) data.length) ∧
      r'.buffer.length = dz.cap := by
  obtain ⟨r', k, hw, hi, hl, _, _, ha⟩ := write_refines r data hinv
  simp only [abs, Spec.Fifo.write, Prod.mk.injEq, Spec.Fifo.mk.injEq] at ha
  obtain ⟨⟨hq, _, _⟩, hk⟩ := ha
  have hk' : k = min (dz.cap - 1 - dz.ring.length) data.length := by
    rw [← hk, hc, hcap, Nat.min_comm]
  refine ⟨r', by rw [hw, hk'], hi, ?_, by rw [hl, hcap]⟩
  rw [← hq, hc, hcap, Nat.min_comm]

open Flute.Lemmas.Ring in
/-- the ring `DecompressX::new(pkt)` builds (`RingBuffer::new(2·len)`, `write(pkt)`) is ObjRecv's `{cap := 2·len, ring := pkt}`;
    and a read of `n` bytes hands the decompressor the first `min n |ring|` bytes and leaves the rest -/
theorem dz_ring_new_and_read (pkt : List Nat) (hl : pkt.length < 2 ^ 62) :
    (∃ r, Flute.Ring.write (Flute.Ring.new (2 * pkt.length)) pkt = .ok (r, pkt.length) ∧ Flute.Ring.Inv r ∧
      Flute.Ring.content r = pkt ∧ r.buffer.length = 2 * pkt.length) ∧
    (∀ (r : Flute.Ring.Ring) (n : Nat), Flute.Ring.Inv r → 0 < min n (Flute.Ring.content r).length →
      ∃ r', Flute.Ring.read r n = .ok (r', .ok ((Flute.Ring.content r).take (min n (Flute.Ring.content r).length))) ∧
        Flute.Ring.Inv r' ∧ Flute.Ring.content r' = (Flute.Ring.content r).drop (min n (Flute.Ring.content r).length)) := by
  constructor
  · have hi := inv_new (2 * pkt.length) (by omega)
    obtain ⟨r, k, hw, hir, hlr, _, _, ha⟩ := write_refines _ pkt hi
    have hc0 : Flute.Ring.content (Flute.Ring.new (2 * pkt.length)) = [] := by simp [Flute.Ring.content, Flute.Ring.new]
    have hl0 : (Flute.Ring.new (2 * pkt.length)).buffer.length = 2 * pkt.length := by simp [Flute.Ring.new]
    simp only [abs, Spec.Fifo.write, Prod.mk.injEq, Spec.Fifo.mk.injEq, hc0, hl0, List.length_nil, Nat.sub_zero,
      List.nil_append] at ha
    obtain ⟨⟨hq, _, _⟩, hk⟩ := ha
    have hk' : k = pkt.length := by omega
    refine ⟨r, by rw [hw, hk'], hir, ?_, by rw [hlr, hl0]⟩
    rw [← hq, hk, hk', List.take_length]
  · intro r n hinv hpos
    obtain ⟨r', res, hr, hi, _, _, _, ha⟩ := read_refines r n hinv
    have hm : ¬ (min n (Flute.Ring.content r).length = 0) := by omega
    simp only [abs, Spec.Fifo.read, hm, if_false, Prod.mk.injEq, Spec.Fifo.mk.injEq] at ha
    obtain ⟨⟨hq, _, _⟩, hres⟩ := ha
    cases res with
    | wouldBlock => simp [toSpec] at hres
    | ok b =>
      simp only [toSpec, Spec.FifoRead.ok.injEq] at hres
      exact ⟨r', by rw [hr, hres], hi, hq.symm⟩

/-! ### `MultiReceiver::push` on top (agent tsi) -/

/-- the byte-level call of a `MultiReceiver` whose sessions are receivers with the FULL object model: no history of calls,
    no datagram makes it panic at the demultiplexing or at the session level (tsi's `multi_push_total`, instantiated).
    The object-fault invariant of `push_data_total` is threaded through the MultiRecv session table in
    Props/C04MultiWhole.lean (`multi_push_total_whole`, agent recv: `hasFault = false` in every session of the table). -/
theorem multi_push_total_full (cfg : Config) (timeout : Nat) (b : Bool) (hist : List MultiRecv.BOp)
    (hhist : ∀ o ∈ hist, Flute.Props.C04.Multi.BOpOK o) (hlen : hist.length + 1 < 2 ^ 64) (ep : Flute.Endpoint)
    (d : List UInt8) (now : Int) (hn : TimeSane now) (ans : FdtAns) :
    let M := MultiRecv.recvMachine (Full.iface P) cfg timeout
    let s := MultiRecv.run M (MultiRecv.State.new b) (hist.map MultiRecv.BOp.abs)
    ∃ s' r, MultiRecv.pushBytes M (MultiRecv.recvEnv now ans) s ep (d.map UInt8.toNat) = .ok (s', r) ∧
      r ≠ MultiRecv.Res.panic ∧ (∀ o ∈ MultiRecv.newOuts s s', o.2.res ≠ none) :=
  Flute.Props.C04.Multi.multi_push_total (Full.iface P) (Full.completeSound P) cfg timeout b hist hhist hlen ep d now hn ans

end Flute.Props.C04.Whole
