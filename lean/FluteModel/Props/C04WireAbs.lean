import FluteModel.Lemmas.WireAbs
import FluteModel.Props.C04Wire
import FluteModel.RecvWire
import FluteModel.RecvFull
/-
  C04, interface between the parser model and the session / object models: every packet `parse_alc_pkt` accepts,
  seen through the abstraction functions of FluteModel/WireAbs.lean, satisfies the well-formedness / range facts the
  session model (`Recv.Pkt.WF`, agent recv) and the object model (`ObjRecv.Pkt`, agent orecv) assume of their input.
  Quantified over EVERY datagram `d : List UInt8`; all six schemes.
-/
namespace Flute.Props.C04.Wire
open Flute Flute.Bytes Flute.Lct Flute.Fti Flute.Alc Flute.WireAbs


/-- the FTI of an accepted packet, with its ranges -/
theorem ftiOf_range (d : List Nat) (hw : Wf d) (p : AlcPkt) (hinv : PktInv d p) (o : Oti) (tl : Nat)
    (h : ftiOf p = some (o, tl)) : FtiRange p.lct.cp o tl := by
  obtain ⟨fti, hf, ho, ht⟩ := hinv.fti_eq
  unfold ftiOf at h
  rw [ho, ht] at h
  cases fti with
  | none => simp at h
  | some x =>
    obtain ⟨o', tl'⟩ := x
    simp only [Option.map_some, Option.some.injEq, Prod.mk.injEq] at h
    obtain ⟨rfl, rfl⟩ := h
    exact getFti_range _ d hw p.lct hinv.hdr _ _ hf

/-- **parsed_pkt_wf**: for EVERY datagram, if `parse_alc_pkt` accepts it then
    (1) the session-level packet `absRecv` satisfies `Recv.Pkt.WF` (FDT instance id < 2^20, sender current time in
        [0, 2^32 s)) and `RecvPktFacts` (TOI < 2^112, FTI ranges, SBN / ESI < 2^32, payload length ≤ datagram length);
    (2) the object-level packet `absObj` satisfies `ObjPktFacts`: transfer length < 2^48 (< 2^40 RaptorQ), E < 2^16,
        B < 2^32, parity < 2^16, scheme of the OTI = scheme of the codepoint, scheme-specific ranges (m, G, Z, N, Al,
        Al | E, all non-zero where the code divides by them), payload-id slice of exactly the scheme's length, and
        header / payload id / payload are consecutive slices of the datagram (so `data[alc_header_offset..payload_offset]`
        and `data[payload_offset..]` are in range). -/
theorem parsed_pkt_wf (d : List UInt8) (p : AlcPkt) (h : parseAlcPkt (bytes d) = .ok p) :
    Recv.Pkt.WF (absRecv (bytes d) p) ∧ RecvPktFacts (bytes d) (absRecv (bytes d) p) ∧
    ObjPktFacts (bytes d) (absObj (bytes d) p) := by
  have hw : Wf (bytes d) := wf_map_toNat d
  generalize bytes d = D at h hw
  rcases parseAlcPkt_cases D with h' | ⟨p', h', hinv⟩
  · rw [h'] at h; cases h
  rw [h'] at h; cases h
  obtain ⟨hcci, htsi, htoi, hcp, _⟩ := parseLctHeader_range D hw p.lct hinv.lct_eq
  have hk := hinv.known
  have hsch := schemeOf_facts p.lct.cp hk
  -- slices
  have hoff1 : p.alcHeaderOffset ≤ p.payloadOffset := hinv.off_le
  have hoff2 : p.payloadOffset ≤ D.length := hinv.pay_le
  have hpidlen : ((D.drop p.alcHeaderOffset).take (p.payloadOffset - p.alcHeaderOffset)).length = payloadIdLen p.lct.cp := by
    rw [length_slice _ _ _ hoff1 hoff2, hinv.pay_eq, hinv.alc_eq]; omega
  refine ⟨⟨?_, ?_⟩, ⟨htoi, ?_, ?_, ?_, rfl, rfl⟩, ⟨htoi, ?_, ?_, ?_, rfl, ?_, ?_⟩⟩
  · -- FDT instance id
    intro i hi
    simp only [absRecv] at hi
    cases hfd : p.fdtInfo with
    | none => rw [hfd] at hi; cases hi
    | some x =>
      obtain ⟨v, j⟩ := x
      rw [hfd] at hi
      simp only [Option.map_some, Option.some.injEq] at hi
      subst hi
      have := hinv.fdt_eq
      rw [hfd] at this
      exact (fdtInfoOf_range D p.lct hinv.hdr v j this).2.1
  · -- sender current time
    intro t ht
    simp only [absRecv] at ht
    unfold getSenderCurrentTime at ht
    rcases getExt_cases D p.lct EXT_TIME hinv.hdr with he | he | ⟨r, he, hr⟩
    · rw [he] at ht; cases ht
    · rw [he] at ht; cases ht
    · rw [he, Out.bind_ok] at ht
      simp only [] at ht
      cases hs : parseSct r with
      | ok v =>
        rw [hs] at ht
        cases v with
        | none => cases ht
        | some n =>
          simp only [Option.some.injEq] at ht
          have := parseSct_range r (fun b hb => hw b (hr.sub b hb)) n hs
          omega
      | err => rw [hs] at ht; cases ht
      | panic w => rw [hs] at ht; cases ht
  · -- session-level FTI
    intro f hf
    simp only [absRecv] at hf
    cases hft : ftiOf p with
    | none => rw [hft] at hf; cases hf
    | some x =>
      obtain ⟨o, tl⟩ := x
      rw [hft] at hf
      simp only [Option.map_some, Option.some.injEq] at hf
      subst hf
      have hr := ftiOf_range D hw p hinv o tl hft
      exact ⟨hr.tl_lt, hr.e_lt, hr.b_lt, by show o.fecId < 256; rw [hr.fec_eq]; exact hcp⟩
  · -- inline payload id
    intro sbn esi hpid
    simp only [absRecv] at hpid
    cases hg : getFecInlinePayloadId D p with
    | ok pid =>
      rw [hg] at hpid
      simp only [Option.some.injEq, Prod.mk.injEq] at hpid
      obtain ⟨rfl, rfl⟩ := hpid
      unfold getFecInlinePayloadId getPayloadId at hg
      rw [if_neg (by simp [hk])] at hg
      split at hg
      · cases hg
      rw [slice_ok _ _ _ hoff1 hoff2, Out.bind_ok] at hg
      have := pidOfBytes_range _ _ (wf_take (wf_drop hw p.alcHeaderOffset) (p.payloadOffset - p.alcHeaderOffset)) pid hg
      exact ⟨this.1, this.2.1⟩
    | err => rw [hg] at hpid; cases hpid
    | panic w => rw [hg] at hpid; cases hpid
  · -- plen ≤ dlen
    show D.length - p.payloadOffset ≤ D.length
    omega
  · -- object-level FTI
    intro o tl hf
    simp only [absObj] at hf
    cases hft : ftiOf p with
    | none => rw [hft] at hf; cases hf
    | some x =>
      obtain ⟨o', tl'⟩ := x
      rw [hft] at hf
      simp only [Option.map_some, Option.some.injEq, Prod.mk.injEq] at hf
      obtain ⟨rfl, rfl⟩ := hf
      have hr := ftiOf_range D hw p hinv o' tl' hft
      have hss := hr.ss_ok
      obtain ⟨s0, s1, s2, s5, s6, s129, _⟩ := hsch
      refine ⟨by show schemeOf o'.fecId = schemeOf p.lct.cp; rw [hr.fec_eq], hr.tl_lt, hr.e_lt, hr.b_lt, hr.parity_lt, ?_⟩
      show match ssOf o'.ss with
        | none => _
        | some (.rs m g) => _
        | some (.rq z n al) => _
        | some (.r z n al) => _
      cases hs : o'.ss with
      | none =>
        rw [hs] at hss
        simp only [ssOf]
        rcases hss with h0 | h0 | h0
        · exact .inl (s0 h0)
        · exact .inr (.inl (s5 h0))
        · exact .inr (.inr (s129 h0))
      | rs m g => rw [hs] at hss; simp only [ssOf]; exact ⟨s2 hss.1, hss.2⟩
      | raptorq z n al => rw [hs] at hss; simp only [ssOf]; exact ⟨s6 hss.1, hss.2⟩
      | raptor z n al => rw [hs] at hss; simp only [ssOf]; exact ⟨s1 hss.1, hss.2⟩
  · -- payload id length
    show ((D.drop p.alcHeaderOffset).take (p.payloadOffset - p.alcHeaderOffset)).length =
      if schemeOf p.lct.cp = .rs28us then 8 else 4
    rw [hpidlen]
    unfold payloadIdLen
    by_cases hc : p.lct.cp = RS28US
    · rw [if_pos hc, if_pos (hsch.2.2.2.2.2.2.mpr hc)]
    · rw [if_neg hc, if_neg (fun hx => hc (hsch.2.2.2.2.2.2.mp hx))]
  · -- consecutive slices
    refine ⟨D.take p.alcHeaderOffset, ?_, ?_, ?_⟩
    · show D = _ ++ ((D.drop p.alcHeaderOffset).take (p.payloadOffset - p.alcHeaderOffset) ++ D.drop p.payloadOffset)
      have e : D.drop p.payloadOffset = (D.drop p.alcHeaderOffset).drop (p.payloadOffset - p.alcHeaderOffset) := by
        rw [List.drop_drop]; congr 1; omega
      rw [e, List.take_append_drop, List.take_append_drop]
    · rw [List.length_take]; have := hinv.hdr.ext_ge; have := hinv.hdr.ext_le_len; have := hinv.alc_eq
      have := hinv.hdr.len_le; omega
    · rw [List.length_take]; have := hinv.hdr.len_mod; have := hinv.alc_eq; have := hinv.hdr.len_le; omega
  · exact wf_take (wf_drop hw _) _
  · exact wf_drop hw _

end Flute.Props.C04.Wire

namespace Flute.Props.C04.Wire
open Flute Flute.Bytes Flute.Lct Flute.Fti Flute.Alc Flute.WireAbs

theorem beNat_eq_beVal (d : List Nat) : ObjRecv.beNat d = beVal d := by
  unfold ObjRecv.beNat
  suffices h : ∀ acc, d.foldl (fun a b => a * 256 + b) acc = acc * 256 ^ d.length + beVal d by
    simpa using h 0
  induction d with
  | nil => intro acc; simp [beVal]
  | cons b r ih =>
    intro acc
    simp only [List.foldl_cons, ih, beVal, List.length_cons, Nat.pow_succ]
    rw [Nat.add_mul, Nat.mul_assoc, Nat.mul_comm 256]
    omega

/-- **abs_payload_id_agree**: the two models of `alc::parse_payload_id` agree: what the object model computes from
    the abstracted packet and the abstracted object OTI is what the parser model computes from the datagram, for
    every accepted datagram and every OTI of a known scheme (`Err` ↦ `none`). -/
theorem abs_payload_id_agree (d : List UInt8) (p : AlcPkt) (o : Oti) (h : parseAlcPkt (bytes d) = .ok p)
    (hk : knownFec o.fecId = true) :
    ObjRecv.parsePayloadId (otiObj o) (absObj (bytes d) p) =
      .ok (match Alc.parsePayloadId (bytes d) p o with
           | .ok x => some (pidObj x)
           | _ => none) := by
  obtain ⟨fecId, inst, maxSbl, esl, parity, ss, inb⟩ := o
  simp only [] at hk
  generalize bytes d = D at h
  rcases parseAlcPkt_cases D with h' | ⟨p', h', hinv⟩
  · rw [h'] at h; cases h
  rw [h'] at h; cases h
  unfold Alc.parsePayloadId getPayloadId
  rw [slice_ok _ _ _ hinv.off_le hinv.pay_le, Out.bind_ok]
  have hpid : (absObj D p).pid = (D.drop p.alcHeaderOffset).take (p.payloadOffset - p.alcHeaderOffset) := rfl
  generalize hW : (D.drop p.alcHeaderOffset).take (p.payloadOffset - p.alcHeaderOffset) = W at hpid
  unfold ObjRecv.parsePayloadId ObjRecv.inlinePayloadId pidOfBytes rsM
  rw [hpid, beNat_eq_beVal]
  simp only [knownFec, decide_eq_true_eq] at hk
  simp only [otiObj, NOCODE, RS28, RS28US, RS2M, RAPTORQ, RAPTOR]
  rcases hk with hc | hc | hc | hc | hc | hc <;> rw [hc] <;>
    simp only [schemeOf, Nat.reduceEqDiff, if_true, if_false] <;>
    by_cases hl4 : W.length = 4 <;> by_cases hl8 : W.length = 8 <;>
    simp [hl4, hl8, pidObj, ssOf] <;> (try omega)
  all_goals (cases ss <;> simp <;> (try split) <;> (try simp_all) <;> (try omega))
  all_goals (rename_i hm; simp [Nat.not_le.mpr hm])

/-- **abs_parsed_cases**: `absParsed` (= `Receiver::push_data` up to the call of `push`) answers `reject` exactly when
    the parser returns `Err` - a parser panic cannot hide behind it (`parse_total`) - and otherwise the TSI test
    followed by the abstracted packet, which is well formed (`parsed_pkt_wf`) -/
theorem abs_parsed_cases (tsi : Nat) (d : List UInt8) :
    (parseAlcPkt (bytes d) = .err ∧ absParsed tsi (bytes d) = .reject) ∨
    ∃ p, parseAlcPkt (bytes d) = .ok p ∧
      absParsed tsi (bytes d) = (if p.lct.tsi ≠ tsi then .otherTsi else .pkt (absRecv (bytes d) p)) ∧
      Recv.Pkt.WF (absRecv (bytes d) p) := by
  rcases parseAlcPkt_cases (bytes d) with h | ⟨p, h, _⟩
  · exact .inl ⟨h, by unfold absParsed; rw [h]⟩
  · exact .inr ⟨p, h, by unfold absParsed; rw [h], (parsed_pkt_wf d p h).1⟩

/-- **toPkt_ofAlc_facts**: the object-level packet the session model (agent recv) hands to the object model (agent orecv),
    `Recv.Full.toPkt (Recv.ofAlc d p)`, for EVERY accepted datagram: its codepoint, payload-id bytes, payload and datagram
    length are those of `WireAbs.absObj` (i.e. `data[alc_header_offset..payload_offset]`, `data[payload_offset..]`,
    `data.len()`), hence the payload id has exactly the scheme's length, header / payload id / payload are consecutive
    slices of the datagram, and an FTI carries transfer length < 2^48, E < 2^16, B < 2^32 with the scheme of the codepoint.
    (Since recv added `cenc`, `parity`, `ss` to its records, `toPkt` forwards EXT_CENC and the whole OTI; edited by agent recv
    when it changed `ofAlc`/`toPkt` - owner wire to restate as `toPkt (ofAlc d p) = absObj d p`.) -/
theorem toPkt_ofAlc_facts (d : List UInt8) (p : AlcPkt) (h : parseAlcPkt (bytes d) = .ok p) :
    let q := Recv.Full.toPkt (Recv.ofAlc (bytes d) p)
    q.toi = p.lct.toi ∧ q.toi < 2^112 ∧ q.cp = schemeOf p.lct.cp ∧ q.close = p.lct.closeObject ∧
    q.pid = (absObj (bytes d) p).pid ∧ q.payload = (absObj (bytes d) p).payload ∧ q.dataLen = (bytes d).length ∧
    q.pid.length = (if q.cp = .rs28us then 8 else 4) ∧
    (∃ hdr, bytes d = hdr ++ (q.pid ++ q.payload) ∧ 4 ≤ hdr.length ∧ hdr.length % 4 = 0) ∧
    q.payload.length + q.pid.length + 4 ≤ q.dataLen ∧ Wf q.pid ∧ Wf q.payload ∧ q.cenc = p.cenc.map Recv.Full.cencOf ∧
    (∀ o tl, q.fti = some (o, tl) →
      o.scheme = q.cp ∧ tl < 2^48 ∧ o.e < 2^16 ∧ o.b < 2^32) := by
  obtain ⟨_, _, hobj⟩ := parsed_pkt_wf d p h
  have hw : Wf (bytes d) := wf_map_toNat d
  generalize bytes d = D at *
  intro q
  rcases parseAlcPkt_cases D with h' | ⟨p', h', hinv⟩
  · rw [h'] at h; cases h
  rw [h'] at h; cases h
  obtain ⟨_, _, htoi, _, h3⟩ := parseLctHeader_range D hw p.lct hinv.lct_eq
  have hk := hinv.known
  have hcpraw : ((Recv.ofAlc D p).raw.drop 3).headD 0 = p.lct.cp := by
    show (D.drop 3).headD 0 = _
    rw [List.headD_eq_head?_getD, List.head?_drop, h3]; rfl
  have hsame : Recv.Full.schemeOf p.lct.cp = schemeOf p.lct.cp := by
    simp only [knownFec, decide_eq_true_eq] at hk
    rcases hk with hc | hc | hc | hc | hc | hc <;> rw [hc] <;> rfl
  have hcp : q.cp = schemeOf p.lct.cp := by
    show Recv.Full.schemeOf (((Recv.ofAlc D p).raw.drop 3).headD 0) = _
    rw [hcpraw, hsame]
  have hpl : (if q.cp = FecDec.Scheme.rs28us then 8 else 4) = payloadIdLen p.lct.cp := by
    have := (schemeOf_facts p.lct.cp hk).2.2.2.2.2.2
    rw [hcp]; unfold payloadIdLen
    by_cases hc : p.lct.cp = RS28US
    · rw [if_pos hc, if_pos (this.mpr hc)]
    · rw [if_neg hc, if_neg (fun hx => hc (this.mp hx))]
  have hoff : (Recv.ofAlc D p).dlen - (Recv.ofAlc D p).plen = p.payloadOffset := by
    show D.length - (D.length - p.payloadOffset) = _
    have := hinv.pay_le; omega
  have hpid : q.pid = (absObj D p).pid := by
    show ((Recv.ofAlc D p).raw.drop ((Recv.ofAlc D p).dlen - (Recv.ofAlc D p).plen - (if q.cp = .rs28us then 8 else 4))).take
        (if q.cp = .rs28us then 8 else 4) = (D.drop p.alcHeaderOffset).take (p.payloadOffset - p.alcHeaderOffset)
    rw [hoff, hpl, hinv.pay_eq, hinv.alc_eq]
    have e1 : payloadIdLen p.lct.cp + p.lct.len - payloadIdLen p.lct.cp = p.lct.len := by omega
    have e2 : payloadIdLen p.lct.cp + p.lct.len - p.lct.len = payloadIdLen p.lct.cp := by omega
    rw [e1, e2]; rfl
  have hpay : q.payload = (absObj D p).payload := by
    show (Recv.ofAlc D p).raw.drop ((Recv.ofAlc D p).dlen - (Recv.ofAlc D p).plen) = D.drop p.payloadOffset
    rw [hoff]; rfl
  have hcpo : (absObj D p).cp = q.cp := hcp.symm
  obtain ⟨hdr, hsplit, hh4, hhm⟩ := hobj.split
  refine ⟨rfl, htoi, hcp, rfl, hpid, hpay, rfl, ?_, ⟨hdr, ?_, hh4, hhm⟩, ?_, ?_, ?_, rfl, ?_⟩
  · rw [hpid, hobj.pid_len, hcpo]
  · rw [hpid, hpay]; exact hsplit
  · rw [hpid, hpay]
    show _ ≤ D.length
    have := congrArg List.length hsplit
    simp only [List.length_append] at this
    omega
  · rw [hpid]; exact hobj.pid_bytes
  · rw [hpay]; exact hobj.payload_bytes
  · intro o tl hf
    have hq : q.fti = (Recv.ofAlc D p).fti.map (fun f => (Recv.Full.otiOf f.oti, f.len)) := rfl
    rw [hq] at hf
    cases hft : ftiOf p with
    | none =>
      have : (Recv.ofAlc D p).fti = none := by
        show (match p.oti, p.transferLength with | some o, some l => _ | _, _ => none) = none
        unfold ftiOf at hft
        cases ho : p.oti <;> cases htl : p.transferLength <;> simp [ho, htl] at hft ⊢
      rw [this] at hf; cases hf
    | some x =>
      obtain ⟨o', tl'⟩ := x
      have : (Recv.ofAlc D p).fti = some ⟨⟨o'.fecId, o'.esl, o'.maxSbl, o'.parity, Recv.ssRecv o'.ss⟩, tl'⟩ := by
        show (match p.oti, p.transferLength with | some o, some l => _ | _, _ => none) = _
        unfold ftiOf at hft
        cases ho : p.oti <;> cases htl : p.transferLength <;> simp [ho, htl] at hft ⊢
        obtain ⟨rfl, rfl⟩ := hft
        first | exact ⟨⟨rfl, rfl, rfl, rfl, rfl⟩, rfl⟩ | rfl | simp
      rw [this] at hf
      simp only [Option.map_some, Option.some.injEq, Prod.mk.injEq] at hf
      obtain ⟨rfl, rfl⟩ := hf
      have hr := ftiOf_range D hw p hinv o' tl' hft
      refine ⟨?_, hr.tl_lt, hr.e_lt, hr.b_lt⟩
      show Recv.Full.schemeOf o'.fecId = q.cp
      rw [hr.fec_eq, hsame, hcp]

/-- **absRecv_eq_ofAlc**: the session-level abstraction of this file IS agent recv's `Recv.ofAlc`, for every packet -/
theorem absRecv_eq_ofAlc (D : List Nat) (p : AlcPkt) : absRecv D p = Recv.ofAlc D p := by
  unfold absRecv Recv.ofAlc ftiOf otiRecv
  have hss : ∀ s, ssRecvOf s = Recv.ssRecv s := by intro s; cases s <;> rfl
  cases p.oti <;> cases p.transferLength <;> simp [hss] <;>
    (constructor <;> (split <;> first | rfl | (rename_i h1; simp_all)))

/-- **toPkt_ofAlc_eq**: for EVERY accepted datagram the object-level packet the session model hands to the object model
    is exactly `WireAbs.absObj`: `Recv.Full.toPkt (Recv.ofAlc d p) = absObj d p` - all eight fields (TOI, scheme of the
    codepoint read back from byte 3, B flag, OTI + transfer length incl. parity and scheme-specific part, EXT_CENC,
    payload-id slice, payload slice, datagram length).  Hence `parsed_pkt_wf`'s `ObjPktFacts` and
    `abs_payload_id_agree` are statements about the packet `ObjectReceiver::push` receives in the whole-call model. -/
theorem toPkt_ofAlc_eq (d : List UInt8) (p : AlcPkt) (h : parseAlcPkt (bytes d) = .ok p) :
    Recv.Full.toPkt (Recv.ofAlc (bytes d) p) = absObj (bytes d) p := by
  obtain ⟨_, _, hcp, _, hpid, hpay, hdl, _, _, _, _, _, hcenc, _⟩ := toPkt_ofAlc_facts d p h
  have hw : Wf (bytes d) := wf_map_toNat d
  generalize bytes d = D at *
  rcases parseAlcPkt_cases D with h' | ⟨p', h', hinv⟩
  · rw [h'] at h; cases h
  rw [h'] at h; cases h
  have hk := hinv.known
  have hsame : Recv.Full.schemeOf p.lct.cp = schemeOf p.lct.cp := by
    simp only [knownFec, decide_eq_true_eq] at hk
    rcases hk with hc | hc | hc | hc | hc | hc <;> rw [hc] <;> rfl
  have hcencf : Recv.Full.cencOf = cencObj := by funext c; rfl
  have hssf : ∀ s, Recv.Full.ssOf (Recv.ssRecv s) = ssOf s := by intro s; cases s <;> rfl
  -- the FTI
  have hfti : (Recv.Full.toPkt (Recv.ofAlc D p)).fti = (absObj D p).fti := by
    show (Recv.ofAlc D p).fti.map (fun f => (Recv.Full.otiOf f.oti, f.len)) = (ftiOf p).map (fun x => (otiObj x.1, x.2))
    cases hft : ftiOf p with
    | none =>
      have : (Recv.ofAlc D p).fti = none := by
        show (match p.oti, p.transferLength with | some o, some l => _ | _, _ => none) = none
        unfold ftiOf at hft
        cases ho : p.oti <;> cases htl : p.transferLength <;> simp [ho, htl] at hft ⊢
      rw [this]; rfl
    | some x =>
      obtain ⟨o, tl⟩ := x
      have hr := ftiOf_range D hw p hinv o tl hft
      have : (Recv.ofAlc D p).fti = some ⟨⟨o.fecId, o.esl, o.maxSbl, o.parity, Recv.ssRecv o.ss⟩, tl⟩ := by
        show (match p.oti, p.transferLength with | some o, some l => _ | _, _ => none) = _
        unfold ftiOf at hft
        cases ho : p.oti <;> cases htl : p.transferLength <;> simp [ho, htl] at hft ⊢
        obtain ⟨rfl, rfl⟩ := hft
        exact ⟨⟨rfl, rfl, rfl, rfl, rfl⟩, rfl⟩
      rw [this]
      simp only [Option.map_some, Option.some.injEq, Prod.mk.injEq, and_true]
      unfold Recv.Full.otiOf otiObj
      simp only [hssf, hr.fec_eq, hsame]
  -- assemble field by field
  have key : ∀ a b : ObjRecv.Pkt, a.toi = b.toi → a.cp = b.cp → a.close = b.close → a.fti = b.fti → a.cenc = b.cenc →
      a.pid = b.pid → a.payload = b.payload → a.dataLen = b.dataLen → a = b := by
    intro a b h1 h2 h3 h4 h5 h6 h7 h8
    cases a; cases b; simp only [ObjRecv.Pkt.mk.injEq]; exact ⟨h1, h2, h3, h4, h5, h6, h7, h8⟩
  refine key _ _ rfl hcp rfl hfti ?_ hpid hpay hdl
  rw [hcenc, hcencf]; rfl

end Flute.Props.C04.Wire
