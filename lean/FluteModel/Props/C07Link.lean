import FluteModel.Props.C07
import FluteModel.ObjRecv
import FluteModel.Fti
/-
  C07 — links between the partition model the C07 theorems are about and the models other properties use for the
  same Rust code (so that there are not two unrelated readings of one function).
-/
namespace Flute.Props.C07.Link
open Flute Flute.Partition

/-- The per-object receiver model (`ObjRecv.sblOf`, used by C03/C09/C17/C04) sizes a block whose payload id carries no
    source block length exactly as `Partition.receiverBlockSymbols` does on the receiver's stored quadruple
    (`as u32` casts included), so `C07.receiver_symbols_eq_rfc` / `sender_receiver_agree` speak about the receiver
    model that the `orecv` correspondence ties to objectreceiver.rs. -/
theorem objrecv_sblOf_eq (st : ObjRecv.St) (pid : ObjRecv.PayloadId) (h : pid.sbl = none) (n : Nat) :
    ObjRecv.sblOf st pid = receiverBlockSymbols (st.aLarge, st.aSmall, st.nbALarge, n) pid.sbn := by
  unfold ObjRecv.sblOf receiverBlockSymbols
  simp only [h]
  rfl

/-- … and a wire-borne source block length (RS under-specified) is used verbatim. -/
theorem objrecv_sblOf_wire (st : ObjRecv.St) (pid : ObjRecv.PayloadId) (k : Nat) (h : pid.sbl = some k) :
    ObjRecv.sblOf st pid = k := by
  unfold ObjRecv.sblOf
  simp only [h]

/-- The wire model's RaptorQ EXT_FTI parser (`Fti.getFtiRaptorQ`, tied to alcraptorq.rs by the `wire` correspondence)
    stores exactly `reconstructB32 F T Z` as maximum source block length, whenever it accepts the extension. -/
theorem fti_raptorq_maxSbl (fti : List Nat) (o : Fti.Oti) (tl : Nat) (h : Fti.getFtiRaptorQ fti = .ok (o, tl)) :
    ∃ z n al, o.ss = .raptorq z n al ∧ o.maxSbl = reconstructB32 tl o.esl z := by
  unfold Fti.getFtiRaptorQ at h
  split at h
  · cases h
  · cases h1 : Fti.fld fti 2 10 <;> simp only [h1, Out.bind] at h <;> try cases h
    cases h2 : Fti.fld fti 8 10 <;> simp only [h2, Out.bind] at h <;> try cases h
    cases h3 : Bytes.idx fti 10 <;> simp only [h3, Out.bind] at h <;> try cases h
    cases h4 : Fti.fld fti 11 13 <;> simp only [h4, Out.bind] at h <;> try cases h
    cases h5 : Bytes.idx fti 13 <;> simp only [h5, Out.bind] at h <;> try cases h
    repeat (split at h <;> try cases h)
    exact ⟨_, _, _, rfl, rfl⟩

end Flute.Props.C07.Link
