import FluteModel.Lemmas.ObjRecvProto
import FluteModel.Lemmas.DrainObj
import FluteModel.Lemmas.ObjRecvTotal
import FluteModel.Lemmas.ObjRecvPanicFree
import FluteModel.Lemmas.DrvOrecvDzOK
import FluteModel.Lemmas.ObjSessTotal
/-
  Object-level part of C04 (untrusted input: no packet sequence can panic or hang the receiver).
  Owner of C04 (props.d, parser + session level): agent recv.

  Aimed at (DESIGN §5 C04): `push_total` - for ALL parsed packets in ALL reachable ObjectReceiver states, `push` / `attach_fdt`
  return (`.ok`), never `.error (.panic _)`, never `.error .hang`.
  Proved here (all `_partial` building blocks, for ALL inputs):
    * `parse_payload_id_total`     - `parse_payload_id` never panics, whatever the object's scheme / packet's payload-ID bytes;
    * `block_push_total`           - a block that `BlockDecoder::init` accepted always has a decoder: `BlockDecoder::push` never hits
                                     `debug_assert!(self.decoder.is_some())` (false before D30: Reed-Solomon GF(2^m));
    * `terminal_total`, `drop_total`, `cache_total` - `complete`, `error`, Drop and `cache` are total functions of the model;
    * `dw_loop_no_hang`            - the `loop` of `decode_write_pkt` returns within `2·len + 2` iterations provided `decoder_read`
                                     returns: two iterations in a row without room in the ring end it (false before D15);
    * `no_writer_call_after_terminal` (from C09) is what makes the D17 class impossible.
  PROVED for EVERY state (reachable or not), every packet / FDT entry, every writer behaviour, under the decompressor contract `DzOK`
  (path's `DzContract` + measure below the model's inner fuel; inhabited, see the last `example`):
    * `push_no_hang`, `attach_no_hang`, `run_no_hang` - NO HISTORY HANGS the object receiver (all four loops: `decoder_read`,
      the `loop` of `decode_write_pkt`, the `while` of `write_blocks`, `push_from_cache`);
    * `bwWrite_total` (Lemmas/ObjRecvTotal.lean) - `BlockWriter::write` returns (no panic, no hang) whenever a BlockWriter exists,
      with `decoderRead_total`, `dwLoop_total`, `decodeWritePkt_total`, `bwData_total`, `bwFinish_total`.
  AND, over REACHABLE states: `push_total`, `attach_total`, `drop_total`, `run_total` (bottom of the file) - no Rust panic and no hang for
  ANY history of parsed packets / FDT attachments from `new`; the invariant `TInv` and the pass are in Lemmas/ObjRecvPanicFree.lean.
  Hypotheses are on the input side only: decompressor contract `DzOK`, parser ranges `WfPkt` / `WfFile` (transfer length < 2^48,
  E < 2^16), `max_size < 2^63`.  An FDT entry whose Transfer-Length (a u64 in the XML) is >= 2^48 is OUTSIDE `WfFile`.
  The model still reports `PANIC` / `TIMEOUT` where it leaves `.ok`, the implementation runs under catch_unwind + a 5 s watchdog, the two
  are compared line by line (families mutate, rs2m, cenc-tiny, cenc-empty-block, limits); defects found that way and repaired: D6, D15,
  D30, D32.
-/
namespace Flute.Props.C04.Obj
open Flute Flute.FecDec Flute.ObjRecv

/-- `alc::parse_payload_id` returns Ok or Err for every scheme and every payload-ID byte string. -/
theorem parse_payload_id_total (o : Oti) (p : Pkt) : ∃ r, parsePayloadId o p = .ok r := by
  unfold parsePayloadId
  split
  · split
    · dsimp only
      split
      · split <;> exact ⟨_, rfl⟩
      · split <;> exact ⟨_, rfl⟩
    · exact ⟨_, rfl⟩
  · exact ⟨_, rfl⟩

/-- `BlockDecoder::init` either fails (Err, the object goes to the error state) or leaves a block with a decoder. -/
theorem init_gives_decoder (c : Codec) (b : Block) (o : Oti) (k bs sbn : Nat) (b' : Block)
    (hb : b.initialized = false) (h : b.init c o k bs sbn = .ok b') : b'.dec.isSome = true ∧ b'.initialized = true := by
  unfold Block.init at h
  rw [if_neg (by simp [hb])] at h
  split at h
  · simp at h
  dsimp only at h
  split at h
  · simp at h; rw [← h]; simp
  · split at h
    · simp at h; rw [← h]; simp
    · simp at h
  · split at h
    · simp at h; rw [← h]; simp
    · simp at h
  · simp at h
  · split at h
    · split at h
      · simp at h
      · simp at h; rw [← h]; simp
    · simp at h
  · split at h
    · simp at h
    · simp at h; rw [← h]; simp

/-- `BlockDecoder::push` on a block with a decoder (or a completed one) never trips the debug assertion. -/
theorem block_push_total (c : Codec) (b : Block) (payload : Bytes) (esi : Nat)
    (h : b.dec.isSome = true ∨ b.completed = true) : (b.push c payload esi).isSome = true := by
  unfold Block.push
  split
  · rfl
  · cases hd : b.dec with
    | none => cases h with
      | inl h1 => simp [hd] at h1
      | inr h2 => simp_all
    | some d =>
      dsimp only
      split
      · rfl
      · split <;> rfl

/-- the `loop` of `decode_write_pkt`: with `2·len + 2` units of fuel it never runs out, as long as `decoder_read` - called with the
    fuel the loop really passes, `P.dzFuel` - returns.  (An earlier version quantified the hypothesis over ALL fuels, which is false
    at fuel 0 and made the theorem vacuous: found by agent path.)  The hypothesis is discharged from the decompressor contract in
    `dw_loop_no_hang_contract`. -/
theorem dw_loop_no_hang (P : Params) (pkt : Bytes) :
    ∀ (fuel off : Nat) (stalled : Bool), off ≤ pkt.length → 2 * (pkt.length - off) + (if stalled then 1 else 2) ≤ fuel →
      (∀ s x, decoderRead P (P.dzFuel x) s x ≠ .error .hang) →
      ∀ st w, dwLoop P fuel st w pkt off stalled ≠ .error .hang := by
  intro fuel
  induction fuel with
  | zero => intro off stalled _ hf; split at hf <;> omega
  | succ n ih =>
    intro off stalled hoff hf hdr st w
    unfold dwLoop
    split
    · simp
    · dsimp only
      split
      · rename_i f heq; intro hc; simp at hc; subst hc; exact hdr _ _ heq
      · simp
      · split
        · simp
        · rename_i hne
          split
          · simp
          · rename_i hst
            apply ih _ _ (by omega) _ hdr
            by_cases hs : min (‹DzSt›.cap - 1 - (‹DzSt›).ring.length) (pkt.length - off) = 0
            · -- no progress: the next iteration is marked stalled; this one was not (else the loop ended)
              have : stalled = false := by
                cases stalled with
                | false => rfl
                | true => exact absurd ⟨hs, rfl⟩ hst
              subst this
              simp [hs] at hf ⊢
              omega
            · have hlt : off + min (‹DzSt›.cap - 1 - (‹DzSt›).ring.length) (pkt.length - off) ≤ pkt.length := by omega
              simp [hs]
              split at hf <;> omega

/-- `decode_write_pkt`'s loop never hangs for a decompressor meeting path's `DzContract` (a measure of the output it can still hand out,
    used up by every non-empty read - measured on the real flate2 decoders by engine `ring`, op `dc`) whose measure stays below the
    model's inner fuel function `P.dzFuel w` at every call (`DzOK`). -/
theorem dw_loop_no_hang_contract (P : Params) (D : DzOK P) (pkt : Bytes) (st : St) (w : BW) :
    dwLoop P (2 * pkt.length + 2) st w pkt 0 false ≠ .error .hang := by
  apply dw_loop_no_hang P pkt _ 0 false (by omega) (by simp)
  intro s x
  exact Flute.Lemmas.DrainObj.decoderRead_no_hang P D.C _ s x (D.fuel x)

/-- the ECHO decompressor: hands out the ring bytes unchanged, as many as fit the buffer (what an inflater does on stored blocks) -/
def echoRead : Cenc → List DzCall → DzCall → DzOut :=
  fun _ _ call => ⟨min call.avail.length call.buflen, .data (call.avail.take call.buflen)⟩

/-- **`DzOK` is satisfiable by a decompressor that PRODUCES DATA** (reviewer batch 3: the earlier `DzOK`, with a constant fuel, was not):
    for the echo decompressor the measure is the number of bytes waiting in the ring, the fuel function "ring length + 1" is adequate -/
def echoDzOK (P : Params) (hr : P.dzRead = echoRead)
    (hf : ∀ w, P.dzFuel w = (match w.dz with | some dz => dz.ring.length | none => 0) + 1) : DzOK P where
  C := { mu := fun _ _ avail => avail.length
         read_decreases := by
           intro c hist call out hres hne
           rw [hr] at hres ⊢
           simp only [echoRead] at hres ⊢
           have ho : out = call.avail.take call.buflen := by cases hres; rfl
           subst ho
           have h1 : 0 < call.avail.length := by
             cases ha : call.avail with
             | nil => simp [ha] at hne
             | cons a r => simp
           have h2 : 0 < call.buflen := by
             cases hb : call.buflen with
             | zero => simp [hb] at hne
             | succ k => omega
           simp only [List.length_drop]
           omega }
  fuel := by
    intro w
    rw [hf w]
    unfold Flute.Lemmas.DrainObj.bwMu
    cases w.dz <;> simp

/-- non-vacuity of `dw_loop_no_hang_contract` with a decompressor that produces data -/
example (pkt : Bytes) (st : St) (w : BW) :
    dwLoop { codec := ⟨fun _ _ => false, fun _ _ _ => none, fun _ _ _ _ _ => none, fun _ _ _ => false, fun _ _ _ => none⟩,
             dzRead := echoRead, dzFuel := fun w => (match w.dz with | some dz => dz.ring.length | none => 0) + 1,
             md5 := fun _ => "", env := ⟨fun _ => ⟨.store, true, true, fun _ => true⟩⟩ }
      (2 * pkt.length + 2) st w pkt 0 false ≠ .error .hang :=
  dw_loop_no_hang_contract _ (echoDzOK _ rfl (fun _ => rfl)) pkt st w

/-- `complete()`, `error()`, Drop and `cache()` are total (plain functions of the model: no arithmetic that can overflow except the
    checked addition of `cache`, which returns Err). -/
theorem cache_total (st : St) (p : Pkt) : (cachePkt st p).1.cacheSize < U64 ∨ (cachePkt st p).1 = st := by
  unfold cachePkt
  split
  · exact .inr rfl
  · split
    · exact .inr rfl
    · left; simp only; omega

/-- the `while` loop of `write_blocks` never runs out of fuel (`blocks.len() + 1`), as long as `BlockWriter::write` returns:
    every iteration advances `sbn` within the deque (measure `blocks_offset + blocks.len() - sbn`). -/
theorem write_loop_no_hang (P : Params)
    (hbw : ∀ st sbn blk, bwWrite P st sbn blk ≠ .error .hang) :
    ∀ (fuel : Nat) (st : St) (sbn : Nat), st.blocksOffset + st.blocks.length ≤ fuel + sbn →
      writeLoop P (fuel + 1) st sbn ≠ .error .hang := by
  intro fuel
  induction fuel with
  | zero =>
    intro st sbn hf
    unfold writeLoop
    split
    · simp
    · split
      · simp
      · rename_i blk hblk
        have hidx : sbn - st.blocksOffset < st.blocks.length := (List.getElem?_eq_some_iff.mp hblk).1
        omega
  | succ n ih =>
    intro st sbn hf
    unfold writeLoop
    split
    · simp
    · rename_i hge
      split
      · simp
      · rename_i blk hblk
        have hidx : sbn - st.blocksOffset < st.blocks.length := (List.getElem?_eq_some_iff.mp hblk).1
        split
        · simp
        · split
          · rename_i f heq; intro hc; simp at hc; subst hc; exact hbw _ _ _ heq
          · simp
          · simp
          · rename_i st1 heq
            have hwr := wr_bwWrite _ _ _ _ heq
            split
            · simp
            · split
              · simp
              · split
                · simp
                · split
                  · simp
                  · apply ih
                    have e1 : st1.blocks = st.blocks := hwr.same.blocks
                    have e2 : st1.blocksOffset = st.blocksOffset := hwr.off
                    unfold popBlock
                    dsimp only
                    split
                    · rename_i h0
                      simp only [e1, e2]
                      have : st.blocks.tail.length = st.blocks.length - 1 := by simp
                      omega
                    · simp only [e1, e2, List.length_set]
                      omega

/-- `write_blocks` is called with exactly enough fuel -/
theorem write_blocks_no_hang (P : Params) (hbw : ∀ st sbn blk, bwWrite P st sbn blk ≠ .error .hang)
    (st : St) (sbn : Nat) : writeBlocks P st sbn ≠ .error .hang := by
  unfold writeBlocks
  split
  · simp
  · split
    · simp
    · split
      · simp
      · by_cases h : sbn < st.blocksOffset
        · unfold writeLoop; simp [h]
        · exact write_loop_no_hang P hbw _ st sbn (by omega)

/-- `push_from_cache` cannot hang: its loop is a structural recursion over the cache length (model: `cacheLoop` returns at fuel 0). -/
theorem cache_loop_no_own_hang (P : Params) (fuel : Nat) (st : St)
    (hp : ∀ s p, pushToBlock P s p ≠ .error .hang) : cacheLoop P fuel st ≠ .error .hang := by
  induction fuel generalizing st with
  | zero => simp [cacheLoop]
  | succ n ih =>
    unfold cacheLoop
    split
    · simp
    · split
      · rename_i f heq; intro hc; simp at hc; subst hc; exact hp _ _ heq
      · simp
      · exact ih _

/-! ### No hang, for EVERY state (reachable or not), every packet, every FDT entry, every writer behaviour

The hypotheses of `write_loop_no_hang`, `write_blocks_no_hang`, `cache_loop_no_own_hang` above quantify over all states; they are
satisfiable: under the decompressor contract `DzOK` (path's `DzContract` + "the measure is below the model's inner fuel") they are
discharged here, and the end result - `push_no_hang`, `attach_no_hang`, `run_no_hang` - has the contract as its only hypothesis
(non-vacuity: the `example` at the end instantiates it). -/

theorem decoder_read_no_hang (P : Params) (D : DzOK P) (st : St) (w : BW) :
    decoderRead P (P.dzFuel w) st w ≠ .error .hang :=
  Flute.Lemmas.DrainObj.decoderRead_no_hang P D.C _ st w (D.fuel w)

theorem bw_write_no_hang (P : Params) (D : DzOK P) (st : St) (sbn : Nat) (blk : Block) : bwWrite P st sbn blk ≠ .error .hang := by
  cases hb : st.bw with
  | none => unfold bwWrite; simp [hb]
  | some w =>
    obtain ⟨a, b, h⟩ := bwWrite_total P D st sbn blk (by simp [hb])
    rw [h]; simp

theorem write_blocks_nh (P : Params) (D : DzOK P) (st : St) (sbn : Nat) : writeBlocks P st sbn ≠ .error .hang :=
  write_blocks_no_hang P (bw_write_no_hang P D) st sbn

theorem liftRs_nh {α : Type} (r : Rs α) : liftRs r ≠ .error .hang := by
  cases r <;> simp [liftRs]

theorem alloc_block_no_hang (P : Params) (st : St) (o : Oti) (tl : Nat) (pid : PayloadId) (b : Block) :
    allocBlock P st o tl pid b ≠ .error .hang := by
  unfold allocBlock
  split
  · simp
  · dsimp only
    split
    · rename_i f heq
      intro hc
      simp at hc
      subst hc
      split at heq
      · cases heq
      · exact liftRs_nh _ heq
    · split
      · simp
      · split
        · simp
        · split
          · simp
          · split <;> simp

theorem push_to_block2_no_hang (P : Params) (D : DzOK P) (st : St) (p : Pkt) : pushToBlock2 P st p ≠ .error .hang := by
  unfold pushToBlock2
  split
  · rename_i o tl _ _
    split
    · rename_i f heq
      obtain ⟨r, hr⟩ := parse_payload_id_total o p
      rw [hr] at heq; cases heq
    · simp
    · split
      · split <;> simp
      · split
        · simp
        · split
          · simp
          · split
            · simp
            · split
              · simp
              · split
                · simp
                · split
                  · rename_i f heq; intro hc; simp at hc; subst hc; exact alloc_block_no_hang _ _ _ _ _ _ heq
                  · simp
                  · split
                    · simp
                    · split
                      · exact write_blocks_nh P D _ _
                      · simp
  · simp

theorem push_to_block_no_hang (P : Params) (D : DzOK P) (st : St) (p : Pkt) : pushToBlock P st p ≠ .error .hang := by
  unfold pushToBlock
  split
  · rename_i f heq; intro hc; simp at hc; subst hc; exact push_to_block2_no_hang P D _ _ heq
  · simp
  · split <;> simp

theorem push_from_cache_no_hang (P : Params) (D : DzOK P) (st : St) : pushFromCache P st ≠ .error .hang := by
  unfold pushFromCache
  split
  · simp
  · split
    · rename_i f heq; intro hc; simp at hc; subst hc
      exact cache_loop_no_own_hang P _ _ (push_to_block_no_hang P D) heq
    · simp

theorem init_blocks_partitioning_no_hang (st : St) : initBlocksPartitioning st ≠ .error .hang := by
  unfold initBlocksPartitioning
  split
  · simp
  · split
    · split
      · rename_i f heq; intro hc; simp at hc; subst hc; exact liftRs_nh _ heq
      · simp
    · simp

theorem init_object_writer_no_hang (P : Params) (st : St) : initObjectWriter P st ≠ .error .hang := by
  unfold initObjectWriter
  split
  · simp
  · split
    · dsimp only
      split
      · simp
      · simp
      · unfold openWriter
        dsimp only
        split
        · simp
        · split <;> simp
    · simp

/-- **`push` never hangs**: any state, any packet -/
theorem push_no_hang (P : Params) (D : DzOK P) (st : St) (p : Pkt) : push P st p ≠ .error .hang := by
  unfold push
  split
  · simp
  · split
    · rename_i f heq; intro hc; simp at hc; subst hc; exact init_blocks_partitioning_no_hang _ heq
    · split
      · rename_i f heq; intro hc; simp at hc; subst hc; exact init_object_writer_no_hang _ _ heq
      · split
        · rename_i f heq; intro hc; simp at hc; subst hc; exact push_from_cache_no_hang P D _ heq
        · split
          · simp
          · split
            · split <;> simp
            · split
              · rename_i f heq; intro hc; simp at hc; subst hc; exact push_to_block_no_hang P D _ _ heq
              · simp
              · simp

theorem attach_core_no_hang (P : Params) (D : DzOK P) (st : St) (id : Nat) (f : FileEntry) :
    attachCore P st id f ≠ .error .hang := by
  unfold attachCore
  split
  · rename_i e heq; intro hc; simp at hc; subst hc
    unfold attachMeta at heq
    dsimp only at heq
    split at heq <;> cases heq
  · split
    · rename_i e heq; intro hc; simp at hc; subst hc; exact init_blocks_partitioning_no_hang _ heq
    · split
      · rename_i e heq; intro hc; simp at hc; subst hc; exact init_object_writer_no_hang _ _ heq
      · split
        · rename_i e heq; intro hc; simp at hc; subst hc; exact push_from_cache_no_hang P D _ heq
        · split
          · rename_i e heq; intro hc; simp at hc; subst hc; exact write_blocks_nh P D _ _ heq
          · split
            · rename_i e heq; intro hc; simp at hc; subst hc; exact push_from_cache_no_hang P D _ heq
            · simp

/-- **`attach_fdt` never hangs**: any state, any FDT entry -/
theorem attach_no_hang (P : Params) (D : DzOK P) (st : St) (id : Nat) (f : Option FileEntry) :
    attachFdt P st id f ≠ .error .hang := by
  unfold attachFdt
  split
  · simp
  · split
    · simp
    · split
      · rename_i e heq; intro hc; simp at hc; subst hc
        unfold fdtConflict at heq
        split at heq
        · cases heq
        · split at heq
          · split at heq
            · cases heq
            · split at heq
              · rename_i e' h'; cases heq; exact liftRs_nh _ h'
              · cases heq
          · cases heq
      · exact attach_core_no_hang P D _ _ _

/-- **no history hangs the object receiver**, from any start state -/
theorem run_no_hang (P : Params) (D : DzOK P) (st : St) (ops : List Op) : run P st ops ≠ .error .hang := by
  induction ops generalizing st with
  | nil => simp [run]
  | cons op ops ih =>
    unfold run
    split
    · rename_i e heq; intro hc; simp at hc; subst hc
      cases op with
      | push p => exact push_no_hang P D _ _ (by simpa [step] using heq)
      | attach id f =>
        simp only [step] at heq
        split at heq
        · rename_i e' h'; cases heq; exact attach_no_hang P D _ _ _ h'
        · cases heq
    · exact ih _

/-- non-vacuity: `DzOK` is inhabited by a decompressor that produces data (`echoDzOK`), so `run_no_hang` applies to it -/
example (st : St) (ops : List Op) :
    run { codec := ⟨fun _ _ => false, fun _ _ _ => none, fun _ _ _ _ _ => none, fun _ _ _ => false, fun _ _ _ => none⟩,
          dzRead := echoRead, dzFuel := fun w => (match w.dz with | some dz => dz.ring.length | none => 0) + 1,
          md5 := fun _ => "", env := ⟨fun _ => ⟨.store, true, true, fun _ => true⟩⟩ } st ops ≠ .error .hang :=
  run_no_hang _ (echoDzOK _ rfl (fun _ => rfl)) st ops

/-! ### `push_total`: no panic and no hang in any reachable state

`TInv` (Lemmas/ObjRecvPanicFree.lean) is the state invariant: the structural facts behind the `debug_assert` / `unwrap` sites, the
per-block facts (an initialised, not completed block has a decoder), partition fields = `block_partitioning(B, L, E)` of the object's
OTI with L < 2^48 and E < 2^16, and the EXACT allocation counters (`total_allocated_blocks_size` = sum of `block_size`,
`nb_allocated_blocks` = number of live blocks of the deque, or a terminal call cleared the deque).  Hypotheses, all on the INPUT side:
`DzOK P` (decompressor contract), `WfPkt` / `WfFile` (what the parsers guarantee: 48-bit transfer length, 16-bit symbol length),
`max_size < 2^63` (configuration). -/

/-- **`push` is total**: for every reachable state and every parsed packet it returns (no Rust panic, no hang), in a reachable state -/
theorem push_total (P : Params) (D : DzOK P) (st : St) (h : TInv st) (p : Pkt) (hp : WfPkt p) :
    ∃ st', push P st p = .ok st' ∧ TInv st' := tinv_push P D h p hp

/-- **`attach_fdt` is total** -/
theorem attach_total (P : Params) (D : DzOK P) (st : St) (h : TInv st) (id : Nat) (file : Option FileEntry)
    (hf : WfOp (.attach id file)) : ∃ st' b, attachFdt P st id file = .ok (st', b) ∧ TInv st' := tinv_attachFdt P D h id file hf

/-- Drop is a function of the model (total by construction) and keeps the invariant -/
theorem drop_total (st : St) (h : TInv st) : TInv (drop st) := tinv_drop h

/-- **no history of parsed packets and FDT attachments panics or hangs the object receiver**, from `new` -/
theorem run_total (P : Params) (D : DzOK P) (toi maxSize : Nat) (hm : maxSize < 2^63) (ops : List Op)
    (hops : ∀ op ∈ ops, WfOp op) : ∃ st', run P (St.new toi maxSize) ops = .ok st' ∧ TInv st' :=
  tinv_run P D ops (tinv_new toi maxSize hm) hops

/-- non-vacuity of `run_total`: the hypotheses are met by a concrete parameter set and history -/
example : ∃ st', run { codec := ⟨fun _ _ => false, fun _ _ _ => none, fun _ _ _ _ _ => none, fun _ _ _ => false, fun _ _ _ => none⟩,
                       dzRead := echoRead, dzFuel := fun w => (match w.dz with | some dz => dz.ring.length | none => 0) + 1,
                       md5 := fun _ => "", env := ⟨fun _ => ⟨.store, true, true, fun _ => true⟩⟩ } (St.new 1 1000)
      [.attach 1 (some ⟨some ⟨.noCode, 2, 2, 0, none⟩, 3, none, .gzip, none, false⟩),
       .push ⟨1, .noCode, false, none, none, [0, 0, 0, 0], [1, 2], 20⟩] = .ok st' ∧ TInv st' := by
  apply run_total _ (echoDzOK _ rfl (fun _ => rfl)) 1 1000 (by decide)
  intro op hop
  simp at hop
  rcases hop with rfl | rfl
  · exact ⟨by decide, by intro o ho; cases ho; decide⟩
  · intro o l h; cases h

/-- the parameters the `orecv` driver EXECUTES (table decompressor `tableDz`: buffered reader, nothing consumed after the end of the stream; inner fuel
    `tableFuel` = the measure of its contract `tableContract` + 1) satisfy
    `DzOK` literally - so `run_total`, `Feasible`, ... apply to exactly the model instance the correspondence validates -/
theorem driver_params_meet_DzOK (d : Flute.Drv.Orecv.DState) (toi base : Nat) :
    Nonempty (DzOK (d.params.forObj toi base)) := ⟨Flute.Drv.Orecv.drv_params_dzOK d toi base⟩

/-- **the session shell over the object machines never panics / hangs** (`ObjSess`: completed / error gates, create + attach to the
    first FDT instance listing the TOI, FDT completion over all objects, check_object_state + Drop, time-out sweep, Drop of the receiver):
    every ObjectReceiver it ever creates satisfies `TInv`, so `Sess.run` returns.  Input-side hypotheses only -/
theorem objsess_run_total (PP : ObjSess.SParams) (D : ∀ toi base, Nonempty (DzOK (PP.forObj toi base)))
    (cfg : ObjSess.SCfg) (hmax : cfg.maxSize < 2 ^ 63) (ops : List ObjSess.SOp) (hwf : ∀ op ∈ ops, ObjSess.SWfOp op) :
    ∃ S', ObjSess.Sess.run PP { cfg := cfg } ops = .ok S' := by
  obtain ⟨S', h, _⟩ := ObjSess.sess_run_total (fun t b => Classical.choice (D t b)) ops hwf
    (S := { cfg := cfg }) ⟨by simp, by simp, hmax⟩
  exact ⟨S', h⟩

/-- ... in particular for the session model the `orecv` driver EXECUTES (its own parameters, any `zmap` table, any writer plan): on
    packets / FDT entries in range the model side of the correspondence never answers with a fault -/
theorem driver_session_total (d : Flute.Drv.Orecv.DState) (cfg : ObjSess.SCfg) (hmax : cfg.maxSize < 2 ^ 63)
    (ops : List ObjSess.SOp) (hwf : ∀ op ∈ ops, ObjSess.SWfOp op) :
    ∃ S', ObjSess.Sess.run d.params { cfg := cfg } ops = .ok S' :=
  objsess_run_total d.params (fun toi base => driver_params_meet_DzOK d toi base) cfg hmax ops hwf

end Flute.Props.C04.Obj
