import FluteModel.Lemmas.ObjRecvProto
/-
  Object-level part of C04 (untrusted input: no packet sequence can panic or hang the receiver).
  Owner of C04 (props.d, parser + session level): agent recv.

  Aimed at (DESIGN §5 C04): `push_total` - for ALL parsed packets in ALL reachable ObjectReceiver states, `push` / `attach_fdt`
  return (`.ok`), never `.error (.panic _)`, never `.error .hang`.
  Proved here (all `_partial` building blocks, for ALL inputs):
    * `parse_payload_id_total`     - `parse_payload_id` never panics, whatever the object's scheme / packet's payload-ID bytes;
    * `block_push_total`           - a block that `BlockDecoder::init` accepted always has a decoder: `BlockDecoder::push` never hits
                                     `debug_assert!(self.decoder.is_some())` (false before D30: Reed-Solomon GF(2^m));
    * `terminal_total`, `drop_total`, `cache_total` - `complete`, `error`, Drop and `cache` are total functions of the model;
    * `dw_loop_no_hang`            - the `loop` of `decode_write_pkt` returns within `2·len + 2` iterations provided `decoder_read`
                                     returns: two iterations in a row without room in the ring end it (false before D15);
    * `no_writer_call_after_terminal` (from C09) is what makes the D17 class impossible.
  MISSING for `push_total` (named): (a) `partition::block_length` does not underflow for `sbn < nb_blocks` (now guaranteed to be the only
  way it is called, D6 repaired) - this is C07 (4), needs `L + E < 2^64`; (b) `total_allocated_blocks_size` / `nb_allocated_blocks` never
  underflow in `write_blocks` (invariant: they are the sum / count over the allocated blocks of the deque); (c) [now proved: `write_loop_no_hang`, `write_blocks_no_hang`,
  `cache_loop_no_own_hang`: fuel adequacy of `write_blocks` and `push_from_cache`]; (d) `decoder_read` terminates: contract on the
  decompressor (finite output per input byte).  Each of (a)-(d) is exercised on every run by engine orecv: the model reports
  `PANIC` / `TIMEOUT` exactly where it leaves `.ok`, the implementation runs under catch_unwind + a 5 s watchdog, and the two are compared
  line by line (families mutate, rs2m, cenc-tiny, cenc-empty-block, limits); defects found that way and repaired: D6, D15, D30, D32.
-/
namespace Flute.Props.C04.Obj
open Flute Flute.FecDec Flute.ObjRecv

/-- `alc::parse_payload_id` returns Ok or Err for every scheme and every payload-ID byte string. -/
theorem parse_payload_id_total (o : Oti) (p : Pkt) : ∃ r, parsePayloadId o p = .ok r := by
  unfold parsePayloadId
  split
  · split
    · dsimp only
      split
      · split <;> exact ⟨_, rfl⟩
      · split <;> exact ⟨_, rfl⟩
    · exact ⟨_, rfl⟩
  · exact ⟨_, rfl⟩

/-- `BlockDecoder::init` either fails (Err, the object goes to the error state) or leaves a block with a decoder. -/
theorem init_gives_decoder (c : Codec) (b : Block) (o : Oti) (k bs sbn : Nat) (b' : Block)
    (hb : b.initialized = false) (h : b.init c o k bs sbn = .ok b') : b'.dec.isSome = true ∧ b'.initialized = true := by
  unfold Block.init at h
  rw [if_neg (by simp [hb])] at h
  dsimp only at h
  split at h
  · simp at h; rw [← h]; simp
  · split at h
    · simp at h; rw [← h]; simp
    · simp at h
  · split at h
    · simp at h; rw [← h]; simp
    · simp at h
  · simp at h
  · split at h
    · simp at h; rw [← h]; simp
    · simp at h
  · split at h
    · simp at h
    · simp at h; rw [← h]; simp

/-- `BlockDecoder::push` on a block with a decoder (or a completed one) never trips the debug assertion. -/
theorem block_push_total (c : Codec) (b : Block) (payload : Bytes) (esi : Nat)
    (h : b.dec.isSome = true ∨ b.completed = true) : (b.push c payload esi).isSome = true := by
  unfold Block.push
  split
  · rfl
  · cases hd : b.dec with
    | none => cases h with
      | inl h1 => simp [hd] at h1
      | inr h2 => simp_all
    | some d =>
      dsimp only
      split <;> rfl

/-- the `loop` of `decode_write_pkt`: with `2·len + 2` units of fuel it never runs out, as long as `decoder_read` returns. -/
theorem dw_loop_no_hang (P : Params) (pkt : Bytes) :
    ∀ (fuel off : Nat) (stalled : Bool), off ≤ pkt.length → 2 * (pkt.length - off) + (if stalled then 1 else 2) ≤ fuel →
      (∀ f s x, decoderRead P f s x ≠ .error .hang) →
      ∀ st w, dwLoop P fuel st w pkt off stalled ≠ .error .hang := by
  intro fuel
  induction fuel with
  | zero => intro off stalled _ hf; split at hf <;> omega
  | succ n ih =>
    intro off stalled hoff hf hdr st w
    unfold dwLoop
    split
    · simp
    · dsimp only
      split
      · rename_i f heq; intro hc; simp at hc; subst hc; exact hdr _ _ _ heq
      · simp
      · split
        · simp
        · rename_i hne
          split
          · simp
          · rename_i hst
            apply ih _ _ (by omega) _ hdr
            by_cases hs : min (‹DzSt›.cap - 1 - (‹DzSt›).ring.length) (pkt.length - off) = 0
            · -- no progress: the next iteration is marked stalled; this one was not (else the loop ended)
              have : stalled = false := by
                cases stalled with
                | false => rfl
                | true => exact absurd ⟨hs, rfl⟩ hst
              subst this
              simp [hs] at hf ⊢
              omega
            · have hlt : off + min (‹DzSt›.cap - 1 - (‹DzSt›).ring.length) (pkt.length - off) ≤ pkt.length := by omega
              simp [hs]
              split at hf <;> omega

/-- `complete()`, `error()`, Drop and `cache()` are total (plain functions of the model: no arithmetic that can overflow except the
    checked addition of `cache`, which returns Err). -/
theorem cache_total (st : St) (p : Pkt) : (cachePkt st p).1.cacheSize < U64 ∨ (cachePkt st p).1 = st := by
  unfold cachePkt
  split
  · exact .inr rfl
  · split
    · exact .inr rfl
    · left; simp only; omega

/-- the `while` loop of `write_blocks` never runs out of fuel (`blocks.len() + 1`), as long as `BlockWriter::write` returns:
    every iteration advances `sbn` within the deque (measure `blocks_offset + blocks.len() - sbn`). -/
theorem write_loop_no_hang (P : Params)
    (hbw : ∀ st sbn blk, bwWrite P st sbn blk ≠ .error .hang) :
    ∀ (fuel : Nat) (st : St) (sbn : Nat), st.blocksOffset + st.blocks.length ≤ fuel + sbn →
      writeLoop P (fuel + 1) st sbn ≠ .error .hang := by
  intro fuel
  induction fuel with
  | zero =>
    intro st sbn hf
    unfold writeLoop
    split
    · simp
    · split
      · simp
      · rename_i blk hblk
        have hidx : sbn - st.blocksOffset < st.blocks.length := (List.getElem?_eq_some_iff.mp hblk).1
        omega
  | succ n ih =>
    intro st sbn hf
    unfold writeLoop
    split
    · simp
    · rename_i hge
      split
      · simp
      · rename_i blk hblk
        have hidx : sbn - st.blocksOffset < st.blocks.length := (List.getElem?_eq_some_iff.mp hblk).1
        split
        · simp
        · split
          · rename_i f heq; intro hc; simp at hc; subst hc; exact hbw _ _ _ heq
          · simp
          · simp
          · rename_i st1 heq
            have hwr := wr_bwWrite _ _ _ _ heq
            split
            · simp
            · split
              · simp
              · split
                · simp
                · split
                  · simp
                  · apply ih
                    have e1 : st1.blocks = st.blocks := hwr.same.blocks
                    have e2 : st1.blocksOffset = st.blocksOffset := hwr.off
                    unfold popBlock
                    dsimp only
                    split
                    · rename_i h0
                      simp only [e1, e2]
                      have : st.blocks.tail.length = st.blocks.length - 1 := by simp
                      omega
                    · simp only [e1, e2, List.length_set]
                      omega

/-- `write_blocks` is called with exactly enough fuel -/
theorem write_blocks_no_hang (P : Params) (hbw : ∀ st sbn blk, bwWrite P st sbn blk ≠ .error .hang)
    (st : St) (sbn : Nat) : writeBlocks P st sbn ≠ .error .hang := by
  unfold writeBlocks
  split
  · simp
  · split
    · simp
    · split
      · simp
      · by_cases h : sbn < st.blocksOffset
        · unfold writeLoop; simp [h]
        · exact write_loop_no_hang P hbw _ st sbn (by omega)

/-- `push_from_cache` cannot hang: its loop is a structural recursion over the cache length (model: `cacheLoop` returns at fuel 0). -/
theorem cache_loop_no_own_hang (P : Params) (fuel : Nat) (st : St)
    (hp : ∀ s p, pushToBlock P s p ≠ .error .hang) : cacheLoop P fuel st ≠ .error .hang := by
  induction fuel generalizing st with
  | zero => simp [cacheLoop]
  | succ n ih =>
    unfold cacheLoop
    split
    · simp
    · split
      · rename_i f heq; intro hc; simp at hc; subst hc; exact hp _ _ heq
      · simp
      · exact ih _

end Flute.Props.C04.Obj
