import FluteModel.Lemmas.SessionBuild
import FluteModel.Lemmas.SessionCodec
import FluteModel.Lemmas.SessionBencTie
import FluteModel.Lemmas.SessionCache
/-
  C02 — loss recovery: any loss / duplication pattern (order preserved) that leaves an FDT instance
  listing the object and decodable symbols of every source block still delivers the object.

  Model: FluteModel/Session.lean (receiver seen from one object: `runObj` over the events
  `Ev.fdt lists` = "an FDT instance completes" and `Ev.pkt s` = "a packet of the object arrives").
  Only property theorems, negation witnesses and non-vacuity examples here; helpers are in
  Lemmas/Session*.lean.
-/
namespace Flute.Props.C02
open Flute Flute.Session Flute.Lemmas.Session

/-- what the object sees of an arriving packet list is exactly its own packets, in order
    (whatever the FDT layer does, whatever else is multiplexed) -/
theorem events_packets (decF : (k p : Nat) → List Nat → Bool) (rc : RxCfg) (s : SessCfg) (o : ObjCfg)
    (hto : o.toi ≠ 0) (ps : List Pkt) (st : FdtRx) :
    pktSyms (eventsFor decF rc s o st ps) = osyms o ps :=
  Lemmas.Session.events_packets decF rc s o hto ps st

/-- **C02, stream level (FullFDT sessions).**  `stream` = the packets the sender emitted (any list),
    `mults` = how often each arrives (0 = lost, >1 = duplicated; order preserved), written as
    `ps1 ++ ps2` at a point by which an FDT instance `f` has been received whole - decodable symbols of
    each of ITS blocks, counted over all copies of the instance (the FDT is FEC-protected like any
    object: `hwhole`) - and before which no close-object packet of the object arrived (`hnoclose`,
    finding D30).  If the object's packets are genuine and only its very last emitted packet carries
    the close-object flag (`OnlyLast`, sender fact), every FDT instance of the session lists the object
    (FullFDT), and what arrives holds decodable symbols of every block of the object (`hdec`: RS any k
    distinct, others the k source symbols, or whatever else the decoder accepts), then the object
    writer gets `complete` - for EVERY loss / duplication pattern, every decoder pair satisfying the
    contract, every interleaving with other objects. -/
theorem recoverable_delivers_stream (cF cO : Codec) (rc : RxCfg) (s : SessCfg) (o : ObjCfg)
    (hto : o.toi ≠ 0) (hN : o.ks.isEmpty = false) (hfit : Fits rc o)
    (hall : ∀ f, f ∈ s.fdts → f.files.contains o.toi = true)
    (f : FdtCfg) (hfind : s.fdts.find? (fun x => x.id == f.id) = some f)
    (hfN : f.ks.isEmpty = false) (hflook : f.ks.size ≤ rc.maxLook)
    (hfresh : blockDone cF.canDecode f.ks s.fdtP [] 0 = false)
    (stream : List Pkt) (mults : List Nat) (ps1 ps2 : List Pkt)
    (hrecv : applyMults stream mults = ps1 ++ ps2)
    (hgenF : ∀ p, p ∈ stream → p.toi = 0 → p.fdtId = f.id → Genuine (fdtObj s f) (toSym p) ∧ p.close = false)
    (hgenO : ∀ q, q ∈ osyms o stream → Genuine o q)
    (hlast : OnlyLast (osyms o stream))
    (hwhole : AllDec cF (fdtObj s f) (fsyms f.id ps1))
    (hnoclose : ∀ q, q ∈ osyms o ps1 → q.close = false)
    (hdec : AllDec cO o (osyms o (ps1 ++ ps2)))
    (hsome : osyms o (ps1 ++ ps2) ≠ []) :
    1 ≤ (observe cF.canDecode cO.canDecode rc s o (applyMults stream mults)).completes := by
  have hmem : ∀ p, p ∈ ps1 ++ ps2 → p ∈ stream := by
    intro p hp; rw [← hrecv] at hp; exact mem_applyMults stream mults p hp
  rw [hrecv]
  apply stream_core cF cO rc s o hto hN hfit hall f hfind hfN hflook hfresh ps1 ps2
  · intro p hp; exact hgenF p (hmem p (List.mem_append_left _ hp))
  · exact hwhole
  · exact hnoclose
  · intro q hq
    obtain ⟨p, hp, ht, rfl⟩ := mem_osyms.mp hq
    exact hgenO _ (mem_osyms.mpr ⟨p, hmem p hp, ht, rfl⟩)
  · rw [← hrecv]
    exact closeLast_of_CL _ (closeLast_applyMults o stream mults hlast)
  · exact hdec
  · exact hsome


/-- **C02 without the FullFDT hypothesis** (ObjectsBeingTransferred mode, objects added after a publish), for
    the receiver as configured.  Only the instance `f` that is received whole has to list the object (`hlist`);
    any other instances may complete before, in between and after.  `hfew`: at most 9 FDT instances complete in
    the whole reception - `countFdt`, the number the driver prints as `fdt=<n>` and the engine compares with the
    receiver's `fdt_received` callbacks - so that the listing instance is still among the 10 the receiver remembers
    (`fdt_current`) when the object's next packet arrives.  Everything else as `recoverable_delivers_real`. -/
theorem recoverable_delivers_any_mode (cF cO : Codec) (rc : RxCfg) (s : SessCfg) (o : ObjCfg)
    (hto : o.toi ≠ 0) (hN : o.ks.isEmpty = false)
    (f : FdtCfg) (hlist : f.files.contains o.toi = true) (hfind : s.fdts.find? (fun x => x.id == f.id) = some f)
    (hfN : f.ks.isEmpty = false) (hflook : f.ks.size ≤ rc.maxLook)
    (hfresh : blockDone cF.canDecode f.ks s.fdtP [] 0 = false)
    (stream : List Pkt) (mults : List Nat) (ps1 ps2 : List Pkt)
    (hfit : FitsBytes rc o (applyMults stream mults))
    (hfew : countFdt cF.canDecode rc s fdtRx0 (applyMults stream mults) ≤ 9)
    (hrecv : applyMults stream mults = ps1 ++ ps2)
    (hgenF : ∀ p, p ∈ stream → p.toi = 0 → p.fdtId = f.id → Genuine (fdtObj s f) (toSym p) ∧ p.close = false)
    (hgenO : ∀ q, q ∈ osyms o stream → Genuine o q)
    (hlast : OnlyLast (osyms o stream))
    (hwhole : AllDec cF (fdtObj s f) (fsyms f.id ps1))
    (hnoclose : ∀ q, q ∈ osyms o ps1 → q.close = false)
    (hdec : AllDec cO o (osyms o (ps1 ++ ps2)))
    (hsome : osyms o (ps1 ++ ps2) ≠ []) :
    1 ≤ (observe cF.canDecode cO.canDecode rc s o (applyMults stream mults)).completes := by
  rw [observe_unl cF.canDecode cO.canDecode rc s o hto _ hfit.2.2]
  have hmem : ∀ p, p ∈ ps1 ++ ps2 → p ∈ stream := by
    intro p hp; rw [← hrecv] at hp; exact mem_applyMults stream mults p hp
  have hfew' : fdtCount (eventsFor cF.canDecode (unl rc) s o fdtRx0 (ps1 ++ ps2)) ≤ 9 := by
    rw [eventsFor_unl, fdtCount_eventsFor cF.canDecode rc s o hto, ← hrecv]; exact hfew
  rw [hrecv]
  apply stream_core_few cF cO (unl rc) s o hto hN (fits_unl rc o _ hfit) f hlist hfind hfN hflook hfresh ps1 ps2
  · intro p hp; exact hgenF p (hmem p (List.mem_append_left _ hp))
  · exact hwhole
  · exact hnoclose
  · intro q hq
    obtain ⟨p, hp, ht, rfl⟩ := mem_osyms.mp hq
    exact hgenO _ (mem_osyms.mpr ⟨p, hmem p hp, ht, rfl⟩)
  · rw [← hrecv]
    exact closeLast_of_CL _ (closeLast_applyMults o stream mults hlast)
  · exact hdec
  · exact hsome
  · exact hfew'

/-- **C02 for the receiver as configured** (packet-cache limit = block limit = `object_max_cache_size`,
    the configuration the driver runs).  `recoverable_delivers_stream` with the resource hypothesis stated in
    bytes (`FitsBytes`): at most 4096 blocks, the bytes accounted for all blocks of the object within
    `object_max_cache_size`, and - FDT-only OTI - the datagrams of the object's packets that arrive below the
    packet-cache limit.  Beyond that bound the code does lose recoverable receptions: finding e2e-1
    (`object_larger_than_cache_before_fdt_loses`). -/
theorem recoverable_delivers_real (cF cO : Codec) (rc : RxCfg) (s : SessCfg) (o : ObjCfg)
    (hto : o.toi ≠ 0) (hN : o.ks.isEmpty = false)
    (hall : ∀ f, f ∈ s.fdts → f.files.contains o.toi = true)
    (f : FdtCfg) (hfind : s.fdts.find? (fun x => x.id == f.id) = some f)
    (hfN : f.ks.isEmpty = false) (hflook : f.ks.size ≤ rc.maxLook)
    (hfresh : blockDone cF.canDecode f.ks s.fdtP [] 0 = false)
    (stream : List Pkt) (mults : List Nat) (ps1 ps2 : List Pkt)
    (hfit : FitsBytes rc o (applyMults stream mults))
    (hrecv : applyMults stream mults = ps1 ++ ps2)
    (hgenF : ∀ p, p ∈ stream → p.toi = 0 → p.fdtId = f.id → Genuine (fdtObj s f) (toSym p) ∧ p.close = false)
    (hgenO : ∀ q, q ∈ osyms o stream → Genuine o q)
    (hlast : OnlyLast (osyms o stream))
    (hwhole : AllDec cF (fdtObj s f) (fsyms f.id ps1))
    (hnoclose : ∀ q, q ∈ osyms o ps1 → q.close = false)
    (hdec : AllDec cO o (osyms o (ps1 ++ ps2)))
    (hsome : osyms o (ps1 ++ ps2) ≠ []) :
    1 ≤ (observe cF.canDecode cO.canDecode rc s o (applyMults stream mults)).completes := by
  rw [observe_unl cF.canDecode cO.canDecode rc s o hto _ hfit.2.2]
  exact recoverable_delivers_stream cF cO (unl rc) s o hto hN (fits_unl rc o _ hfit) hall f hfind hfN hflook hfresh
    stream mults ps1 ps2 hrecv hgenF hgenO hlast hwhole hnoclose hdec hsome

/-- **C02 (receiver side, full strength over reception histories).**
    For EVERY decoder satisfying the contract `Codec`, every receiver configuration whose resource
    limits do not bind for the object (`Fits`, demanded by C17), every non-empty object and EVERY
    history `pre ++ fdt :: post` of genuine packets of the object (any sub-multiset of what was sent, in
    any multiplicity, interleaved with any completions of FDT instances):
    if an FDT instance listing the object completes (`Ev.fdt true`)
      - before any close-object packet of the object was processed (`hpre`),
      - while the object is alive, or fewer than 10 FDT instances complete between it and the
        object's next packet (`hatt`: `fdt_current` keeps the last 10 instances),
    every close-object packet is processed only once decodable symbols of every block have been
    (`CloseOK`; implied by "B only on the very last packet", see `closeOK_of_last`), and in the end
    every block has decodable symbols (`AllDec`: RS any k distinct, others the k source symbols - or
    whatever else the decoder accepts), then the object writer gets `complete`.

    Bytes: a block is handed to the writer only when `canDecode` holds for the ESIs stored for it
    (`advance`), all of them ESIs of genuine packets; by the decoder's contract the bytes written
    are the sender's (safety half: C03). -/
theorem recoverable_delivers (c : Codec) (rc : RxCfg) (o : ObjCfg)
    (hN : o.ks.isEmpty = false) (hfit : Fits rc o) (pre post : List Ev)
    (hgen : ∀ s, Ev.pkt s ∈ pre ++ Ev.fdt true :: post → Genuine o s)
    (hpre : ∀ s, Ev.pkt s ∈ pre → s.close = false)
    (hatt : (∃ s, Ev.pkt s ∈ pre) ∨
      ∃ fs rest, post = fs ++ rest ∧ (∀ e, e ∈ fs → ∃ l, e = Ev.fdt l) ∧ KeepsAge 0 fs ∧
        ∃ s rest', rest = Ev.pkt s :: rest')
    (hclose : CloseOK c o (pktSyms pre).reverse post)
    (hend : AllDec c o (pktSyms (pre ++ Ev.fdt true :: post))) :
    1 ≤ (runObj c.canDecode rc o {} (pre ++ Ev.fdt true :: post)).completes :=
  recoverable_core c rc o hN hfit pre post hgen hpre hatt hclose hend

/-- **The sender fact C02 needs** (blockencoder.rs after the D3 repair, filedesc.rs `is_last_transfer`),
    for ANY block sizes / parity / window ≥ 1 / scheme whose blocks can be encoded and any
    `max_transfer_count`: over the whole life of a non-carousel object - `m - 1` ordinary transfers and
    the last one - every packet is genuine and the close-object flag sits on the very last packet of
    the last transfer, nowhere else. -/
theorem close_flag_only_on_last_packet (s : SessCfg) (o : ObjCfg) (hw : 1 ≤ s.w) (hN : o.ks.isEmpty = false)
    (hblocks : ∀ (b k : Nat), o.ks[b]? = some k → 1 ≤ k ∧ blockFails o.scheme k o.p = false)
    (tr trLast : List Sym) (h1 : emitTransfer (objEnc s o false) = some tr) (h2 : emitTransfer (objEnc s o true) = some trLast) :
    (∀ q, q ∈ life tr trLast o.transfers → Genuine o q) ∧ OnlyLast (life tr trLast o.transfers) :=
  ⟨(life_facts s o hw hN hblocks tr trLast h1 h2).1, (life_facts s o hw hN hblocks tr trLast h1 h2).2.1⟩

/-- **C02, session level: sender model ∘ channel ∘ receiver model.**  `stream` = ANY interleaving of
    the session's sources in which the object's packets are, in order, what its block encoder emits over
    its life (`hlife`: a prefix of `life`; each object has its own encoder, the scheduler only
    interleaves) and the packets of FDT instance `f` belong to its transfer listing (`hfdtsrc`).
    `mults` = ANY loss / duplication pattern (order preserved).  Reception hypotheses only: by the end
    of `ps1` instance `f` has been received whole; no close-object packet of the object arrived before
    (D30); what arrives holds decodable symbols of every block of the object.  Then the object writer
    gets `complete`.  (FullFDT: every instance lists the object; see `recoverable_delivers` for the
    general attach condition.) -/
theorem recoverable_delivers_session (cF cO : Codec) (rc : RxCfg) (s : SessCfg) (o : ObjCfg)
    (hto : o.toi ≠ 0) (hN : o.ks.isEmpty = false) (hfit : Fits rc o) (hw : 1 ≤ s.w)
    (hblocks : ∀ (b k : Nat), o.ks[b]? = some k → 1 ≤ k ∧ blockFails o.scheme k o.p = false)
    (tr trLast : List Sym) (h1 : emitTransfer (objEnc s o false) = some tr) (h2 : emitTransfer (objEnc s o true) = some trLast)
    (hall : ∀ f, f ∈ s.fdts → f.files.contains o.toi = true)
    (f : FdtCfg) (hfind : s.fdts.find? (fun x => x.id == f.id) = some f)
    (hfN : f.ks.isEmpty = false) (hflook : f.ks.size ≤ rc.maxLook)
    (hfblocks : ∀ (b k : Nat), f.ks[b]? = some k → 1 ≤ k ∧ blockFails s.fdtScheme k s.fdtP = false)
    (hfresh : blockDone cF.canDecode f.ks s.fdtP [] 0 = false)
    (trF : List Sym) (h3 : emitTransfer (fdtEnc s f) = some trF)
    (stream : List Pkt)
    (hlife : osyms o stream <+: life tr trLast o.transfers)
    (hfdtsrc : ∀ q, q ∈ fsyms f.id stream → q ∈ trF)
    (mults : List Nat) (ps1 ps2 : List Pkt) (hrecv : applyMults stream mults = ps1 ++ ps2)
    (hwhole : AllDec cF (fdtObj s f) (fsyms f.id ps1))
    (hnoclose : ∀ q, q ∈ osyms o ps1 → q.close = false)
    (hdec : AllDec cO o (osyms o (ps1 ++ ps2)))
    (hsome : osyms o (ps1 ++ ps2) ≠ []) :
    1 ≤ (observe cF.canDecode cO.canDecode rc s o (applyMults stream mults)).completes := by
  obtain ⟨g1, g2, _⟩ := life_facts s o hw hN hblocks tr trLast h1 h2
  obtain ⟨pre, hpre⟩ := hlife
  -- the FDT's own transfer listing: genuine, never the close-object flag
  have hfEnc : EncOK (fdtEnc s f) := by
    refine ⟨hw, ?_, hfblocks⟩
    simp only [fdtEnc]
    exact size_pos_of_nonempty _ hfN
  obtain ⟨f1, _, _, _, f5⟩ := emitTransfer_facts _ hfEnc trF h3
  apply recoverable_delivers_stream cF cO rc s o hto hN hfit hall f hfind hfN hflook hfresh stream mults ps1 ps2 hrecv
  · intro p hp h0 hid
    have hq : toSym p ∈ fsyms f.id stream := by
      simp only [fsyms, List.mem_map, List.mem_filter]
      exact ⟨p, ⟨hp, by simp [h0, hid]⟩, rfl⟩
    have hq' := hfdtsrc _ hq
    exact ⟨f1 _ hq', f5 rfl _ hq'⟩
  · intro q hq
    apply g1
    rw [← hpre]; exact List.mem_append_left _ hq
  · apply onlyLast_prefix _ pre
    rw [hpre]; exact g2
  · exact hwhole
  · exact hnoclose
  · exact hdec
  · exact hsome

/-- **C02 over the model's own sender, ANY schedule.**  `srcs` = a source table in which the object
    and FDT instance `f` are fresh sources holding the listings of their block encoders (what `mkSrcs`
    builds), `sched` = ANY schedule (which source emits next - the scheduler's business, C11-C13),
    `stream` = the merged stream, `mults` = ANY loss / duplication pattern.  Only reception hypotheses are
    left: `f` received whole by the end of `ps1`, no close-object packet of the object before that (D30),
    decodable symbols of every block of the object among what arrives. -/
theorem recoverable_delivers_built (cF cO : Codec) (rc : RxCfg) (s : SessCfg) (o : ObjCfg)
    (hto : o.toi ≠ 0) (hN : o.ks.isEmpty = false) (hfit : Fits rc o) (hw : 1 ≤ s.w) (hm : 1 ≤ o.transfers)
    (hblocks : ∀ (b k : Nat), o.ks[b]? = some k → 1 ≤ k ∧ blockFails o.scheme k o.p = false)
    (tr trLast : List Sym) (h1 : emitTransfer (objEnc s o false) = some tr) (h2 : emitTransfer (objEnc s o true) = some trLast)
    (hall : ∀ f, f ∈ s.fdts → f.files.contains o.toi = true)
    (f : FdtCfg) (hfind : s.fdts.find? (fun x => x.id == f.id) = some f)
    (hfN : f.ks.isEmpty = false) (hflook : f.ks.size ≤ rc.maxLook)
    (hfblocks : ∀ (b k : Nat), f.ks[b]? = some k → 1 ≤ k ∧ blockFails s.fdtScheme k s.fdtP = false)
    (hfresh : blockDone cF.canDecode f.ks s.fdtP [] 0 = false)
    (trF : List Sym) (h3 : emitTransfer (fdtEnc s f) = some trF)
    (srcs : List Src) (sched : List Slot) (stream : List Pkt)
    (hno0 : ∀ k, k ∈ sched → k ≠ Slot.obj 0)
    (hbuild : buildStream srcs sched = some stream)
    (hsrcO : findSrc srcs (Slot.obj o.toi) =
      some { slot := Slot.obj o.toi, tr := tr, trLast := trLast, transfers := o.transfers, carousel := false, t := 0, rest := [] })
    (hsrcF : findSrc srcs (Slot.fdt f.id) =
      some { slot := Slot.fdt f.id, tr := trF, trLast := trF, transfers := 1, carousel := true, t := 0, rest := [] })
    (mults : List Nat) (ps1 ps2 : List Pkt) (hrecv : applyMults stream mults = ps1 ++ ps2)
    (hwhole : AllDec cF (fdtObj s f) (fsyms f.id ps1))
    (hnoclose : ∀ q, q ∈ osyms o ps1 → q.close = false)
    (hdec : AllDec cO o (osyms o (ps1 ++ ps2)))
    (hsome : osyms o (ps1 ++ ps2) ≠ []) :
    1 ≤ (observe cF.canDecode cO.canDecode rc s o (applyMults stream mults)).completes := by
  have hlife : osyms o stream <+: life tr trLast o.transfers := by
    obtain ⟨x', hx'⟩ := buildStream_object o hto sched srcs stream _ hbuild hsrcO rfl
    rw [remaining_fresh _ _ _ _ hm] at hx'
    exact ⟨_, hx'⟩
  have hfdtsrc : ∀ q, q ∈ fsyms f.id stream → q ∈ trF :=
    buildStream_fdt f.id sched srcs stream _ hno0 hbuild hsrcF rfl (by intro r hr; simp at hr)
  exact recoverable_delivers_session cF cO rc s o hto hN hfit hw hblocks tr trLast h1 h2 hall f hfind hfN hflook hfblocks
    hfresh trF h3 stream hlife hfdtsrc mults ps1 ps2 hrecv hwhole hnoclose hdec hsome

/-- **Phase 2: C02 as a corollary of C08 (sender, engine `benc`) and the receiver theorem.**
    The object's packets in the stream are (a prefix of) the packet trace `tr` of a complete, unforced LAST
    transfer of benc's byte-level block-encoder model (`Run`, Lemmas/BencShape.lean: ANY object bytes `c`,
    E, B, parity, window, codec accepting the blocks), projected to (SBN, ESI, B); the session-level object
    has the same partition (`ksOf`, C07).  The sender facts are NOT taken from my emission model but from
    benc's theorems (`transfer_per_block`, `esis_per_block`, `close_object_only_last`).  Then, for ANY
    loss / duplication vector meeting the reception hypotheses, the writer gets `complete`. -/
theorem recoverable_delivers_from_C08 (cF cO : Codec) (rc : RxCfg) (s : SessCfg) (o : ObjCfg)
    {P : BlockEnc.Params} {c : Fec.Bytes} {aL aS nL n : Nat} {tr : List (Bool × BlockEnc.Pkt)} {se : BlockEnc.Enc}
    (hrun : BencShape.Run P c aL aS nL n true tr se) (hle : BencPsi.SymLe P.codec)
    (hnf : ∀ x, x ∈ tr → x.1 = false) (hend : (BlockEnc.read P se false).1 = .none)
    (hks : o.ks = ksOf aL aS nL n) (hp : o.p = P.p) (hsch : o.scheme = .nocode → P.p = 0)
    (hto : o.toi ≠ 0) (hN : o.ks.isEmpty = false) (hfit : Fits rc o)
    (hall : ∀ f, f ∈ s.fdts → f.files.contains o.toi = true)
    (f : FdtCfg) (hfind : s.fdts.find? (fun x => x.id == f.id) = some f)
    (hfN : f.ks.isEmpty = false) (hflook : f.ks.size ≤ rc.maxLook)
    (hfresh : blockDone cF.canDecode f.ks s.fdtP [] 0 = false)
    (stream : List Pkt) (mults : List Nat) (ps1 ps2 : List Pkt)
    (hrecv : applyMults stream mults = ps1 ++ ps2)
    (hgenF : ∀ p, p ∈ stream → p.toi = 0 → p.fdtId = f.id → Genuine (fdtObj s f) (toSym p) ∧ p.close = false)
    (hsrc : osyms o stream <+: (BencTrace.pkts tr).map symOfB)
    (hwhole : AllDec cF (fdtObj s f) (fsyms f.id ps1))
    (hnoclose : ∀ q, q ∈ osyms o ps1 → q.close = false)
    (hdec : AllDec cO o (osyms o (ps1 ++ ps2)))
    (hsome : osyms o (ps1 ++ ps2) ≠ []) :
    1 ≤ (observe cF.canDecode cO.canDecode rc s o (applyMults stream mults)).completes := by
  obtain ⟨pre, hpre⟩ := hsrc
  have hgen := genuine_of_benc hrun hle hnf hend o hks hp hsch
  have hol := (benc_trace_facts hrun hle hnf hend).2.2
  apply recoverable_delivers_stream cF cO rc s o hto hN hfit hall f hfind hfN hflook hfresh stream mults ps1 ps2 hrecv hgenF
  · intro q hq; exact hgen q (by rw [← hpre]; exact List.mem_append_left _ hq)
  · apply onlyLast_prefix _ pre; rw [hpre]; exact hol
  · exact hwhole
  · exact hnoclose
  · exact hdec
  · exact hsome

/-- after a close-object packet only copies of it arrive (what "B only on the very last packet of the
    last transfer" means for a received sub-multiset, order preserved) -/
def CloseLast (es : List Ev) : Prop :=
  ∀ a q b, es = a ++ Ev.pkt q :: b → q.close = true → ∀ r, Ev.pkt r ∈ b → r = q

/-- the sender fact C02 needs, in the form the receiver uses it: if close-object packets are only
    followed by copies of themselves and all symbols together are decodable, then every close-object
    packet comes after decodable symbols of every block -/
theorem closeOK_of_last (c : Codec) (o : ObjCfg) : ∀ (es : List Ev) (P : List Sym),
    CloseLast es → AllDec c o (pktSyms es ++ P) → CloseOK c o P es := by
  intro es
  induction es with
  | nil => intro P _ _; trivial
  | cons e es ih =>
    intro P hl hd
    have htail : CloseLast es := by
      intro a q b hes hq r hr
      exact hl (e :: a) q b (by rw [hes]; rfl) hq r hr
    cases e with
    | fdt l => exact ih P htail hd
    | pkt s =>
      refine ⟨?_, ?_⟩
      · intro hs
        have hall : ∀ r, Ev.pkt r ∈ es → r = s := hl [] s es rfl hs
        apply allDec_mono c o _ _ _ hd
        intro q hq
        simp only [pktSyms, List.cons_append, List.mem_cons, List.mem_append] at hq
        rcases hq with rfl | hq | hq
        · exact List.mem_cons_self ..
        · rw [hall q (mem_pktSyms.mp hq)]; exact List.mem_cons_self ..
        · exact List.mem_cons_of_mem _ hq
      · apply ih (s :: P) htail
        apply allDec_mono c o _ _ _ hd
        intro q hq
        simp only [pktSyms, List.cons_append, List.mem_cons, List.mem_append] at hq ⊢
        rcases hq with rfl | hq | hq
        · exact Or.inr (Or.inl rfl)
        · exact Or.inl hq
        · exact Or.inr (Or.inr hq)

/-! ### finding D30 (`C02:fdt-after-close`): the hypothesis `hpre` cannot be dropped -/

/-- one block of 2 source symbols + 1 repair symbol (Reed-Solomon), in-band FTI / FDT-only OTI -/
def wObj (inband : Bool) : ObjCfg :=
  { toi := 1, scheme := .rs, ks := #[2], blen := #[], p := 1, inbandFti := inband, transfers := 1,
    carousel := false, noCache := false }
def wRc : RxCfg := { receiveOnce := true, maxSize := 10485760 }
/-- all three packets arrive, the FDT instance (a carousel copy) only after the close-object packet -/
def wLate : List Ev := [.pkt ⟨0, 0, false⟩, .pkt ⟨0, 1, false⟩, .pkt ⟨0, 2, true⟩, .fdt true]
/-- the same reception with the FDT instance first, and the first packet lost -/
def wGood : List Ev := [.fdt true, .pkt ⟨0, 1, false⟩, .pkt ⟨0, 2, true⟩]

/-- **Negation witness of the literal property (finding D30).**  Every symbol of the object and an
    FDT instance listing it are received, order preserved - nothing is delivered, because the
    close-object packet was processed before the FDT instance completed (in-band FTI: `Interrupted`
    on the unattached object; FDT-only: the cache is replayed LIFO, the close-object packet first).
    Replayed on the real receiver by engine e2e (class `C02:fdt-after-close`). -/
theorem fdt_after_close_loses :
    (runObj (canDecodeOf .rs) wRc (wObj true) {} wLate).completes = 0 ∧
    (runObj (canDecodeOf .rs) wRc (wObj false) {} wLate).completes = 0 ∧
    AllDec (codecOf .rs) (wObj true) (pktSyms wLate) := by
  refine ⟨by decide, by decide, ?_⟩
  intro b hb
  have : b = 0 := by simp [wObj] at hb; omega
  subst this
  exact ⟨2, by decide, by decide⟩

/-- four blocks of two No-Code symbols, 8 bytes each; datagrams of 36 bytes -/
def bigObj (inband : Bool) : ObjCfg :=
  { toi := 1, scheme := .nocode, ks := #[2, 2, 2, 2], blen := #[8, 8, 8, 8], p := 0, inbandFti := inband, transfers := 1,
    carousel := false, noCache := false, pktLen := 36, lastPktLen := 36 }
/-- `object_max_cache_size` = 16 bytes = two blocks (block limit and packet cache) -/
def smallRc : RxCfg := { receiveOnce := true, maxSize := 16, pktCap := some 16 }
/-- every packet of the object in order; the FDT instance (a carousel copy, the first copy was lost) arrives
    after the first packet of block 2; the last packet carries the close-object flag -/
def bigLate : List Ev :=
  [.pkt ⟨0, 0, false⟩, .pkt ⟨0, 1, false⟩, .pkt ⟨1, 0, false⟩, .pkt ⟨1, 1, false⟩, .pkt ⟨2, 0, false⟩, .fdt true,
   .pkt ⟨2, 1, false⟩, .pkt ⟨3, 0, false⟩, .pkt ⟨3, 1, true⟩]

/-- **Negation witness of the resource hypothesis (finding e2e-1, `C02:object-larger-than-cache-before-fdt`).**
    Every symbol of the object and an FDT instance listing it are received, order preserved, the FDT before
    the close-object packet - nothing is delivered, because the object (32 bytes) is larger than
    `object_max_cache_size` (16) and has to be held without a writer until the FDT arrives: in-band FTI the
    third block cannot be allocated, FDT-only OTI the packet cache is full; the object is dropped, re-created
    without what it held, and interrupted by its close-object packet.  With a cache that holds the object
    (`FitsBytes`) the same reception delivers it.  Replayed on the real receiver at this scale and at the
    default 10 MiB with a 21 MB object (engine e2e, generator group (f)). -/
theorem object_larger_than_cache_before_fdt_loses :
    (runObj (canDecodeOf .nocode) smallRc (bigObj true) {} bigLate).completes = 0 ∧
    (runObj (canDecodeOf .nocode) smallRc (bigObj false) {} bigLate).completes = 0 ∧
    (runObj (canDecodeOf .nocode) { smallRc with maxSize := 32 } (bigObj true) {} bigLate).completes = 1 ∧
    (runObj (canDecodeOf .nocode) { smallRc with maxSize := 32, pktCap := some 400 } (bigObj false) {} bigLate).completes = 1 := by
  decide

/-- non-vacuity of `recoverable_delivers`: a reception with a lost packet meets its hypotheses
    (and the model indeed completes the object once) -/
example : (runObj (canDecodeOf .rs) wRc (wObj true) {} wGood).completes = 1 := by decide

example : 1 ≤ (runObj (codecOf .rs).canDecode wRc (wObj true) {} ([] ++ Ev.fdt true :: [.pkt ⟨0, 1, false⟩, .pkt ⟨0, 2, true⟩])).completes := by
  apply recoverable_delivers (codecOf .rs) wRc (wObj true) (by decide) ?_ [] [.pkt ⟨0, 1, false⟩, .pkt ⟨0, 2, true⟩]
  · intro s hs
    simp at hs
    rcases hs with rfl | rfl
    · exact ⟨2, by decide, by decide⟩
    · exact ⟨2, by decide, by decide⟩
  · intro s hs; simp at hs
  · right
    exact ⟨[], _, rfl, by simp, Or.inl (by simp), _, _, rfl⟩
  · refine ⟨by simp, ?_, trivial⟩
    intro _ b hb
    have : b = 0 := by simp [wObj] at hb; omega
    subst this
    exact ⟨2, by decide, by decide⟩
  · intro b hb
    have : b = 0 := by simp [wObj] at hb; omega
    subst this
    exact ⟨2, by decide, by decide⟩
  · exact fits_of_noacct wRc (wObj true) (by simp [wObj, wRc]) rfl

/-! non-vacuity of the stream-level theorem: a 4-packet session (one FDT packet, RS block k = 2, p = 1),
    the first source symbol lost -/

def exF : FdtCfg := { id := 1, ks := #[1], files := [1] }
def exS : SessCfg := { fdtScheme := .nocode, fdtP := 0, w := 1, objs := [wObj true], fdts := [exF] }
def exStream : List Pkt :=
  [⟨0, 1, 0, 0, false⟩, ⟨1, 0, 0, 0, false⟩, ⟨1, 0, 0, 1, false⟩, ⟨1, 0, 0, 2, true⟩]

example : 1 ≤ (observe (codecOf .nocode).canDecode (codecOf .rs).canDecode wRc exS (wObj true)
    (applyMults exStream [1, 0, 1, 1])).completes := by
  apply recoverable_delivers_stream (codecOf .nocode) (codecOf .rs) wRc exS (wObj true) (by decide) (by decide)
    (fits_of_noacct _ _ (by decide) rfl) ?_ exF rfl (by decide) (by decide) (by decide) exStream [1, 0, 1, 1]
    [⟨0, 1, 0, 0, false⟩] [⟨1, 0, 0, 1, false⟩, ⟨1, 0, 0, 2, true⟩] (by decide)
  · intro p hp h0 _
    simp only [exStream, List.mem_cons, List.not_mem_nil, or_false] at hp
    rcases hp with rfl | rfl | rfl | rfl <;> first | exact ⟨⟨1, by decide, by decide⟩, rfl⟩ | (simp at h0)
  · intro q hq
    simp only [osyms, exStream, toSym, wObj] at hq
    simp at hq
    rcases hq with rfl | rfl | rfl <;> exact ⟨2, by decide, by decide⟩
  · simp [osyms, exStream, toSym, wObj, OnlyLast]
  · intro b hb
    have : b = 0 := by simp [fdtObj, exF] at hb; omega
    subst this
    exact ⟨1, by decide, by decide⟩
  · intro q hq; simp [osyms, wObj] at hq
  · intro b hb
    have : b = 0 := by simp [wObj] at hb; omega
    subst this
    exact ⟨2, by decide, by decide⟩
  · simp [osyms, wObj]
  · intro f hf
    simp only [exS, List.mem_singleton] at hf
    subst hf; decide

end Flute.Props.C02
