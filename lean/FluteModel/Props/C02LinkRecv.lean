import FluteModel.Lemmas.SessionRecv
import FluteModel.Lemmas.SessionCodec
/-
  C02 / C01 / C16 RECEIVER-SIDE LINK, SESSION LEVEL (section `Recv`; owner: agent e2e; the object-level half -
  Session.pushCore / attach versus ObjRecv - is agent orecv's Props/C02Link.lean, same namespace).

  The Session model's receiver shell - `eventsFor` / `stepFdt` / `countFdt` (which packets complete an FDT instance)
  and `stepObj` / `pushNew` / `fdtEv` / `finish` (completed registry, receive-once, restart on (SBN 0, ESI 0), the
  `fdt_current` window of 10, attach at creation and on FDT completion, `gc_object_completed`) - against agent recv's
  model `Flute.Recv` of receiver.rs / fdtreceiver.rs, which is generic in the object (`ObjIface`).  The Session
  model's own object machine (`ORx`, `pushSym`, `attach`) is plugged into `Recv` as an `ObjIface` (`sobj`), so that
  what is compared is exactly the session-level logic; definitions and proofs: Lemmas/SessionRecv.lean.

  PROVED, for EVERY packet stream (any number of objects, any number of FDT instances, FullFDT or
  ObjectsBeingTransferred, loss / duplication / reordering of whole packets, receive-once on or off, any cache size):
    * `receiver_session_agrees` - `Recv.push` over the stream never panics and makes, for the tracked TOI, exactly the
      writer calls open / complete / error / interrupted the Session model counts (`observe`), and exactly `countFdt`
      `fdt_received` callbacks;
    * `receiver_step_agrees` - the one-packet simulation with its invariant (`SInv`: the FDT layer `RelFdt`, the
      object's slice `RelObj`, quiescence of the error registry);
    * `fdt_instance_completes_iff` - an FDT instance completes in the Session model (`stepFdt` returns it) exactly
      when recv's `FdtReceiver` of that id reaches `Complete` and `fdt_received` is called.
  SIDE CONDITIONS (`PktOK`): every FDT packet of the stream carries the id of an instance of the session whose File
  list is NOT EMPTY and whose TOI strings parse back (`NameOK`; `nameOK_of_parse`), id + 1 < 2^32.
  LEFT:
    * an FDT instance WITHOUT File element: receiver.rs `gc_object_completed` skips it, `Session.fdtEv` clears the
      completed flag (known deviation of Session.lean, confirmed here by evaluation: the only disagreement found in
      2160 multi-object runs); flute's sender emits such an instance only as the very first one of an
      ObjectsBeingTransferred session;
    * expiry (`enable_expired_check`), EXT_TIME, `max_objects_error > 0`, close-session, time-outs / `cleanup`: outside
      the Session model (the theorem is for `recvCfg`: no expiry check, `max_objects_error = 0`);
    * the object is the Session model's own (`sobj`), not `ObjRecv`: agent orecv's half (Props/C02Link.lean:
      `receiver_simulation`, `session_complete_is_exact`, `counters_are_writer_calls`) is proved under `Setting.OK`,
      genuine histories (`GenEv` / `FileOK`) and the codec contract `CodecDec`, with no step hypothesis left; the
      COMPOSITION is not done: `RecvFull`'s ObjRecv-based `ObjIface` has to be related to `sobj` call by call
      (push / attach_fdt / state / cache_control; `objStep .pkt` = `pushObjR` + `finish`, `objStep .att` = `finish ∘ attach`).
-/
namespace Flute.Props.C02.Link
open Flute Flute.Session Flute.Lemmas.Session Flute.Lemmas.SessionRecv

section Recv

/-- **Session-level tie, whole stream.** -/
theorem receiver_session_agrees (cF cO : Codec) (rc : RxCfg) (s : SessCfg) (o : ObjCfg) (ht : o.toi ≠ 0)
    (hfind : s.objs.find? (fun x => x.toi == o.toi) = some o) (ps : List Pkt) (hps : ∀ p, p ∈ ps → PktOK s o p) :
    recvObserve cF.canDecode cO.canDecode rc s o.toi ps = some (sessObserve cF.canDecode cO.canDecode rc s o ps) :=
  recv_agrees_with_session cF cO rc s o ht hfind ps hps

/-- **One packet.** -/
theorem receiver_step_agrees (cF cO : Codec) (rc : RxCfg) (s : SessCfg) (o : ObjCfg) (ht : o.toi ≠ 0)
    (hfind : s.objs.find? (fun x => x.toi == o.toi) = some o)
    (S : Recv.State SObj) (F : FdtRx) (st : OState) (p : Pkt) (hI : SInv cF cO rc s o S F st) (hp : PktOK s o p) :
    ∃ S' r evs, Recv.push (sobj (envOf cF.canDecode cO.canDecode rc s)) S (toRecvPkt p) 0 (ansOf s p) = .ok (S', r, evs) ∧
      SInv cF cO rc s o S' (sessStep cF cO rc s o F st p).1 (sessStep cF cO rc s o F st p).2.1 ∧
      Acc o.toi st (sessStep cF cO rc s o F st p).2.1 evs ∧
      countFdtReceived evs = (sessStep cF cO rc s o F st p).2.2 :=
  step_sim cF cO rc s o ht hfind S F st p hI hp

/-- **An FDT instance completes in the Session model exactly when recv's `FdtReceiver` reaches `Complete`**:
    `stepFdt` returns the instance iff the `Receiver` call makes the `fdt_received` callback, after which the instance
    heads `fdt_current` in both models (`SInv.fdt`). -/
theorem fdt_instance_completes_iff (cF cO : Codec) (rc : RxCfg) (s : SessCfg) (o : ObjCfg) (ht : o.toi ≠ 0)
    (hfind : s.objs.find? (fun x => x.toi == o.toi) = some o)
    (S : Recv.State SObj) (F : FdtRx) (st : OState) (p : Pkt) (hI : SInv cF cO rc s o S F st) (hp : PktOK s o p)
    (h0 : p.toi = 0) :
    ∃ S' r evs, Recv.push (sobj (envOf cF.canDecode cO.canDecode rc s)) S (toRecvPkt p) 0 (ansOf s p) = .ok (S', r, evs) ∧
      (countFdtReceived evs = 1 ↔ (stepFdt cF.canDecode rc s F p).2.isSome = true) ∧
      (countFdtReceived evs = 0 ↔ (stepFdt cF.canDecode rc s F p).2.isSome = false) ∧
      S'.fdtCurrent.map (·.fdtId) = (stepFdt cF.canDecode rc s F p).1.current := by
  obtain ⟨S', r, evs, h1, h2, _, h4⟩ := step_sim cF cO rc s o ht hfind S F st p hI hp
  have hb : (p.toi == 0) = true := by simp [h0]
  have hstep : (sessStep cF cO rc s o F st p).2.2 = (if (stepFdt cF.canDecode rc s F p).2.isSome then 1 else 0) ∧
      (sessStep cF cO rc s o F st p).1 = (stepFdt cF.canDecode rc s F p).1 := by
    unfold sessStep
    simp only [hb, ↓reduceIte]
    rcases stepFdt cF.canDecode rc s F p with ⟨F', done⟩
    cases done <;> simp
  refine ⟨S', r, evs, h1, ?_, ?_, ?_⟩
  · rw [h4, hstep.1]; cases (stepFdt cF.canDecode rc s F p).2.isSome <;> simp
  · rw [h4, hstep.1]; cases (stepFdt cF.canDecode rc s F p).2.isSome <;> simp
  · rw [← hstep.2]; exact h2.fdt.cur

theorem find_name (t : Nat) : ∀ (l : List Nat), (∀ k, k ∈ l → toString k = toString t → k = t) →
    ((l.map (fun k => ({ toi := toString k, cc := none, tlen := 0, oti := none } : Recv.FileAbs))).find?
      (fun x => x.toi == toString t)).isSome = l.contains t := by
  intro l
  induction l with
  | nil => intro _; rfl
  | cons a r ih =>
    intro hinj
    simp only [List.map_cons, List.find?_cons, List.contains_cons]
    by_cases ha : a = t
    · subst ha; simp
    · have hs : ¬ toString a = toString t := fun he => ha (hinj a (List.mem_cons_self ..) he)
      have hb : (toString a == toString t) = false := beq_false_of_ne hs
      have hc : (t == a) = false := beq_false_of_ne (fun e => ha e.symm)
      simp only [hb, hc, Bool.false_or]
      exact ih (fun k hk => hinj k (List.mem_cons_of_mem _ hk))

theorem parsed_map : ∀ (l : List Nat), (∀ k, k ∈ l → Recv.parseUInt 128 (toString k) = some k) →
    (l.map (fun k => ({ toi := toString k, cc := none, tlen := 0, oti := none } : Recv.FileAbs))).map
      Recv.FileAbs.toiParsed = l := by
  intro l
  induction l with
  | nil => intro _; rfl
  | cons a r ih =>
    intro h
    simp only [List.map_cons, Recv.FileAbs.toiParsed, h a (List.mem_cons_self ..), Option.getD_some]
    congr 1
    exact ih (fun k hk => h k (List.mem_cons_of_mem _ hk))

/-- `NameOK` from the decimal round trip of the TOIs involved -/
theorem nameOK_of_parse (fc : FdtCfg) (t : Nat) (hne : fc.files.isEmpty = false)
    (hparse : ∀ k, k ∈ t :: fc.files → Recv.parseUInt 128 (toString k) = some k) : NameOK fc t := by
  have hinj : ∀ k, k ∈ fc.files → toString k = toString t → k = t := by
    intro k hk he
    have h1 := hparse k (List.mem_cons_of_mem _ hk)
    have h2 := hparse t (List.mem_cons_self ..)
    rw [he, h2] at h1
    exact (Option.some.inj h1).symm
  refine ⟨hne, ?_, ?_⟩
  · simp only [fdtAbsOf, hne, Bool.false_eq_true, ↓reduceIte, Recv.FdtAbs.getFile]
    exact find_name t fc.files hinj
  · rw [parsed_map fc.files (fun k hk => hparse k (List.mem_cons_of_mem _ hk))]

/-! ### non-vacuity: a session with three objects and three FDT instances (ObjectsBeingTransferred style) -/

def oA : ObjCfg :=
  { toi := 1, scheme := .rs, ks := #[2, 1], blen := #[8, 4], p := 1, inbandFti := false, transfers := 2,
    carousel := false, noCache := false, pktLen := 36, lastPktLen := 36 }
def oB : ObjCfg :=
  { toi := 2, scheme := .nocode, ks := #[2], blen := #[8], p := 0, inbandFti := true, transfers := 1,
    carousel := false, noCache := false, pktLen := 36, lastPktLen := 36 }
def f1 : FdtCfg := { id := 1, ks := #[2], files := [1, 2] }
def f2 : FdtCfg := { id := 2, ks := #[1], files := [2] }
def f3 : FdtCfg := { id := 3, ks := #[1], files := [1] }
def exS : SessCfg := { fdtScheme := .nocode, fdtP := 0, w := 2, objs := [oA, oB], fdts := [f1, f2, f3] }
def exRc : RxCfg := { receiveOnce := false, maxSize := 10485760, pktCap := some 10485760 }
def exSched : List Slot :=
  [.obj 1, .fdt 1, .fdt 1, .obj 1, .obj 1, .obj 1, .obj 2, .fdt 2, .obj 2, .obj 1, .fdt 3, .obj 1, .obj 1, .obj 1, .obj 1, .fdt 2]

/-- every hypothesis of `receiver_session_agrees` holds on the stream the model's own sender builds for this
    schedule, with a loss / duplication pattern on top (`NameOK` by `nameOK_of_parse` and evaluation) -/
example : ∃ srcs stream, mkSrcs exS = some srcs ∧ buildStream srcs exSched = some stream ∧
    (∀ p, p ∈ applyMults stream [1, 1, 1, 0, 2, 1, 1, 1, 1, 1, 1, 1, 1, 1, 1, 1] → PktOK exS oA p) ∧
    recvObserve (canDecodeOf .nocode) (canDecodeOf .rs) exRc exS 1
        (applyMults stream [1, 1, 1, 0, 2, 1, 1, 1, 1, 1, 1, 1, 1, 1, 1, 1]) =
      some (sessObserve (canDecodeOf .nocode) (canDecodeOf .rs) exRc exS oA
        (applyMults stream [1, 1, 1, 0, 2, 1, 1, 1, 1, 1, 1, 1, 1, 1, 1, 1])) := by
  refine ⟨_, _, rfl, rfl, ?_, ?_⟩
  · intro p hp h0
    have hid : p.fdtId = 1 ∨ p.fdtId = 2 ∨ p.fdtId = 3 := by
      revert p
      decide
    rcases hid with h | h | h
    · exact ⟨f1, by rw [h]; rfl, nameOK_of_parse f1 1 rfl (by decide), by rw [h]; decide⟩
    · exact ⟨f2, by rw [h]; rfl, nameOK_of_parse f2 1 rfl (by decide), by rw [h]; decide⟩
    · exact ⟨f3, by rw [h]; rfl, nameOK_of_parse f3 1 rfl (by decide), by rw [h]; decide⟩
  · exact receiver_session_agrees (codecOf .nocode) (codecOf .rs) exRc exS oA (by decide) rfl _ (by
      intro p hp h0
      have hid : p.fdtId = 1 ∨ p.fdtId = 2 ∨ p.fdtId = 3 := by
        revert p
        decide
      rcases hid with h | h | h
      · exact ⟨f1, by rw [h]; rfl, nameOK_of_parse f1 1 rfl (by decide), by rw [h]; decide⟩
      · exact ⟨f2, by rw [h]; rfl, nameOK_of_parse f2 1 rfl (by decide), by rw [h]; decide⟩
      · exact ⟨f3, by rw [h]; rfl, nameOK_of_parse f3 1 rfl (by decide), by rw [h]; decide⟩)

end Recv

end Flute.Props.C02.Link
