import FluteModel.Lemmas.BencShape
import FluteModel.Lemmas.BencTerm
import FluteModel.Lemmas.BencPsi
import FluteModel.Lemmas.BencNoPanic
import FluteModel.Lemmas.BencEmpty
import FluteModel.Lemmas.BencSession
import FluteModel.Props.C06
import FluteModel.BlockEncWire
import FluteModel.Props.AdmissionLink
import FluteModel.Lemmas.BencBridge
/-
  C08 - per-transfer symbol emission, RFC offsets, end flags.

  Setting of every theorem (`Run P c aL aS nL n closable tr s`, Lemmas/BencShape.lean): ANY object bytes `c`
  (non-empty; the empty object is treated separately below), ANY symbol size `E > 0`, block size `B > 0`,
  parity, window ≥ 1, ANY codec `P.codec` satisfying the `Codec` contract that accepts every block of the
  object (`Accepts`; after the repair of D21/D25 `add_object` refuses the Reed-Solomon configurations for
  which this fails), `(aL, aS, nL, n)` = what `block_partitioning` returned, a fresh `BlockEncoder` for the
  transfer (closable or not = `is_last_transfer`), and `tr` = ANY sequence of successful `read(force)` calls
  (any force flags = removal at any packet index), `s` the state reached.  "complete, unforced" =
  no call was forced and the next `read` returns `None`.
-/
namespace Flute.Props.C08
open Flute Flute.Fec Flute.BlockEnc Flute.BencArith Flute.BencBlocks Flute.BencInv Flute.BencTrace Flute.BencShape Flute.BencPsi
open Flute.BlockEncWire (toAlc)

variable {P : Params} {c : Bytes} {aL aS nL n : Nat} {closable : Bool} {tr : List (Bool × Pkt)} {s : Enc}

/-- master statement: in a complete unforced transfer the packets of block `k`, in emission order, are exactly
    the shards of block `k` (ESI, payload) in shard order, for every `k < N`; no packet has SBN ≥ N -/
theorem transfer_per_block (h : Run P c aL aS nL n closable tr s)
    (hnf : ∀ x, x ∈ tr → x.1 = false) (hend : (BlockEnc.read P s false).1 = .none) :
    (∀ k, k < n → ∃ b0, blockAt P c aL aS nL k = some b0 ∧ proj (pkts tr) k = b0.shards.map sview) ∧
    (∀ k, n ≤ k → proj (pkts tr) k = []) := by
  obtain ⟨s0, hnew, hr⟩ := h.reads
  have hs0 := new_state h.part hnew
  obtain ⟨hI0, hT0⟩ := inv_init h.setup closable
  rw [← hs0] at hI0 hT0
  exact complete_blocks h.setup h.accepts h.window_pos hI0 hT0 (by rw [hs0]) hr hnf hend

/-- also when the transfer is cut at ANY packet index (removal / forced stop / the caller stops reading):
    the packets of block `k` emitted so far are a prefix of the block's shard list -/
theorem prefix_per_block (h : Run P c aL aS nL n closable tr s) :
    ∀ k, k < n → ∃ b0, blockAt P c aL aS nL k = some b0 ∧ proj (pkts tr) k <+: b0.shards.map sview := by
  obtain ⟨hI, hT, _, _⟩ := h.inv
  intro k hk
  obtain ⟨b0, hb0⟩ := Option.isSome_iff_exists.mp (h.accepts k hk)
  refine ⟨b0, hb0, ?_⟩
  by_cases hfut : s.sbn ≤ k
  · rw [hT.future k hfut]; exact List.nil_prefix
  · by_cases hopen : ∃ b, b ∈ s.blocks ∧ b.sbn = k
    · obtain ⟨b, hb, hbk⟩ := hopen
      have h1 := hT.opened b hb
      have h2 := (hI.blocks_ok b hb).2.1
      rw [hbk, hb0] at h2
      simp only [Option.some.injEq] at h2
      rw [hbk] at h1
      rw [h1, h2]
      exact (List.take_prefix _ _).map sview
    · obtain ⟨b1, hb1, hp⟩ := hT.closed k (by omega) (fun b hb hbk => hopen ⟨b, hb, hbk⟩)
      rw [hb0] at hb1; cases hb1
      rw [hp]; exact List.prefix_refl _

/-- ESIs of block `k`'s packets in emission order are `0, 1, …, A_k + r - 1` with `r ≤ parity` -/
theorem esis_per_block (h : Run P c aL aS nL n closable tr s)
    (hnf : ∀ x, x ∈ tr → x.1 = false) (hend : (BlockEnc.read P s false).1 = .none) :
    ∀ k, k < n → ∃ r, r ≤ P.p ∧ (proj (pkts tr) k).map (·.1) = List.range (A aL aS nL k + r) := by
  intro k hk
  obtain ⟨b0, hb0, hp⟩ := (transfer_per_block h hnf hend).1 k hk
  rw [hp]; exact block_esis h.setup hk hb0

/-- every source symbol `(k, i)`, `k < N`, `i < A_k`, is emitted, and no (SBN, ESI) is emitted twice -/
theorem source_once (h : Run P c aL aS nL n closable tr s)
    (hnf : ∀ x, x ∈ tr → x.1 = false) (hend : (BlockEnc.read P s false).1 = .none) :
    ∀ k, k < n → ((proj (pkts tr) k).map (·.1)).Nodup ∧ ∀ i, i < A aL aS nL k → i ∈ (proj (pkts tr) k).map (·.1) := by
  intro k hk
  obtain ⟨r, _, he⟩ := esis_per_block h hnf hend k hk
  rw [he]
  exact ⟨List.nodup_range, fun i hi => List.mem_range.mpr (by omega)⟩

/-- at most `parity` repair symbols per block, all with ESI ≥ A_k (and below A_k + parity) -/
theorem repair_bounded (h : Run P c aL aS nL n closable tr s)
    (hnf : ∀ x, x ∈ tr → x.1 = false) (hend : (BlockEnc.read P s false).1 = .none) :
    ∀ k, k < n → (proj (pkts tr) k).length ≤ A aL aS nL k + P.p ∧
      ∀ x, x ∈ (proj (pkts tr) k).map (·.1) → x < A aL aS nL k + P.p := by
  intro k hk
  obtain ⟨r, hr, he⟩ := esis_per_block h hnf hend k hk
  constructor
  · have := congrArg List.length he
    simp only [List.length_map, List.length_range] at this
    omega
  · intro x hx; rw [he] at hx; have := List.mem_range.mp hx; omega

/-- symbols of a block are emitted in strictly increasing ESI order - at every point of every run -/
theorem esi_increasing_per_block (h : Run P c aL aS nL n closable tr s) :
    ∀ k, k < n → ((proj (pkts tr) k).map (·.1)).Pairwise (· < ·) := by
  intro k hk
  obtain ⟨b0, hb0, hpre⟩ := prefix_per_block h k hk
  obtain ⟨r, _, he⟩ := block_esis h.setup hk hb0
  have h1 : (proj (pkts tr) k).map (·.1) <+: List.range (A aL aS nL k + r) := by
    rw [← he]; exact hpre.map _
  exact List.Pairwise.sublist h1.sublist List.pairwise_lt_range

/-- the payload of source symbol `(k, i)` is the `E`-byte slice of the object at the RFC 5052 offset
    `(first symbol of block k + i) · E`, the object's last symbol short (`pad = false`: No-Code) or zero-padded
    to `E` (`pad = true`: Reed-Solomon, RaptorQ) -/
theorem payload_is_slice (h : Run P c aL aS nL n closable tr s) {pad : Bool} (hsl : P.codec.Slices pad)
    (hnf : ∀ x, x ∈ tr → x.1 = false) (hend : (BlockEnc.read P s false).1 = .none) :
    ∀ k i, k < n → i < A aL aS nL k →
      (proj (pkts tr) k)[i]? = some (i,
        if pad then padTo P.e ((c.drop ((cum aL aS nL k + i) * P.e)).take P.e)
        else (c.drop ((cum aL aS nL k + i) * P.e)).take P.e) := by
  intro k i hk hi
  obtain ⟨b0, hb0, hp⟩ := (transfer_per_block h hnf hend).1 k hk
  rw [hp]; exact block_payload h.setup hsl hk hi hb0

/-- … so a receiver following only the RFCs rebuilds the object from source symbols alone: the `E`-byte
    slices at symbol offsets `0 … T-1` (T = ⌈L/E⌉ = Σ A_k), concatenated, are the object -/
theorem slices_are_the_object (e : Nat) (d : Bytes) (he : 0 < e) :
    ((List.range (divCeil d.length e)).map (fun g => (d.drop (g * e)).take e)).flatten = d := by
  rw [slices_rebuild e d he]
  exact List.take_of_length_le (divCeil_mul_ge d.length e he)

/-- the symbol offsets of the blocks tile `0 … T-1`: block `k` starts at `cum k`, has `A k` symbols -/
theorem blocks_tile (h : Run P c aL aS nL n closable tr s) :
    cum aL aS nL 0 = 0 ∧ (∀ k, cum aL aS nL (k + 1) = cum aL aS nL k + A aL aS nL k) ∧
    cum aL aS nL n = divCeil c.length P.e := by
  refine ⟨cum_zero _ _ _, cum_succ _ _ _, ?_⟩
  rw [← h.len_eq]; exact h.setup.good.t_total

/-- at every point at most `window` blocks are open, and they are open in increasing SBN order -/
theorem window_bound (h : Run P c aL aS nL n closable tr s) :
    s.blocks.length ≤ max 1 P.window ∧ (s.blocks.map (·.sbn)).Pairwise (· < ·) := by
  obtain ⟨hI, _, _, _⟩ := h.inv
  exact ⟨by have := hI.win; omega, hI.sorted⟩

/-- B flag (close object), first half (used by `close_object_only_last` below).  Full statement wanted: a packet carries B only if (a) it is the last packet
    of a transfer created closable (`is_last_transfer`), (b) it is the single forced-stop packet, (c) it is the
    lone empty-object packet.  Proved here for the packet returned last in any run: B ⇒ the call was forced, or
    the transfer is closable AND every source byte has been counted as sent AND every open block is drained
    (the repaired D3 condition, "every" instead of "this").  That `srcSent ≥ L` implies no block is left to cut is
    the byte-accounting invariant of Lemmas/BencPsi.lean, used in `close_object_only_last`. -/
theorem close_object_only_last_partial {s1 s2 : Enc} {f : Bool} {p : Pkt}
    (h : Run P c aL aS nL n closable tr s1) (hstep : BlockEnc.read P s1 f = (.pkt p, s2)) (hB : p.closeObject = true) :
    f = true ∨ (closable = true ∧ P.len ≤ s2.srcSent ∧ ∀ b, b ∈ s2.blocks → b.isEmpty = true) := by
  obtain ⟨hI, hT, hcl, hstp⟩ := h.inv
  obtain ⟨h1, h2⟩ := read_spec h.setup h.accepts (tr := pkts tr) f hI hT
  by_cases hs : s1.stopped = true
  · rw [h1 hs] at hstep; cases hstep
  · have hs' : s1.stopped = false := by simpa using hs
    have := h2 hs'
    rw [hstep] at this
    obtain ⟨_, _, e⟩ := this
    rcases e.flag hB with hf | ⟨hc, hr⟩
    · exact Or.inl hf
    · right
      refine ⟨?_, hr⟩
      rw [← hcl]; cases f <;> exact hc

/-- B flag (close object), FULL for non-empty objects: a packet returned by `read(f)` carries B only if the call was
    forced (the single forced-stop packet, `forced_stop_single`) or the transfer was created closable
    (`is_last_transfer`) AND this packet is the last one of the transfer: every block of the object has been cut
    (`sbn = N`, `read_end`), every open block is drained, and for EVERY block the packets emitted so far are all of
    its shards - nothing is left to send.  (`SymLe`: the codec's source symbols have at most `E` bytes - proved for
    No-Code, Reed-Solomon, RaptorQ and for the Raptor crate's split as it is: `noCode_symLe`, `reedSolomon_symLe`,
    `raptorQ_symLe`, `raptorLegacy_symLe`.) -/
theorem close_object_only_last {s1 s2 : Enc} {f : Bool} {p : Pkt}
    (h : Run P c aL aS nL n closable tr s1) (hle : SymLe P.codec)
    (hstep : BlockEnc.read P s1 f = (.pkt p, s2)) (hB : p.closeObject = true) :
    f = true ∨ (closable = true ∧ s2.sbn = n ∧ s2.readEnd = true ∧ (∀ b, b ∈ s2.blocks → b.isEmpty = true) ∧
      ∀ k, k < n → ∃ b0, blockAt P c aL aS nL k = some b0 ∧ proj (pkts (tr ++ [(f, p)])) k = b0.shards.map sview) := by
  rcases close_object_only_last_partial h hstep hB with hf | ⟨hc, hsent, hdr⟩
  · exact Or.inl hf
  · right
    have h2 : Run P c aL aS nL n closable (tr ++ [(f, p)]) s2 := by
      obtain ⟨s0, hnew, hr⟩ := h.reads
      exact { h with reads := ⟨s0, hnew, Reads.snoc hr hstep⟩ }
    obtain ⟨hsbn, hre⟩ := all_cut_of_srcSent h2 hle hsent
    obtain ⟨hI, hT, _, _⟩ := h2.inv
    refine ⟨hc, hsbn, hre, hdr, ?_⟩
    intro k hk
    by_cases hopen : ∃ b, b ∈ s2.blocks ∧ b.sbn = k
    · obtain ⟨b, hb, hbk⟩ := hopen
      have h1 := hT.opened b hb
      have h3 := (hI.blocks_ok b hb).2.1
      have h4 : b.readIndex = b.shards.length := by
        have := hdr b hb; simpa [Block.isEmpty] using this
      rw [hbk] at h1 h3
      exact ⟨_, h3, by rw [h1, h4, List.take_length]⟩
    · exact hT.closed k (by omega) (fun b hb hbk => hopen ⟨b, hb, hbk⟩)

/-- conversely the last packet does carry B: when all source bytes are out and every open block is drained,
    a closable transfer flags the packet -/
theorem close_object_on_last {s1 s2 : Enc} {p : Pkt}
    (h : Run P c aL aS nL n true tr s1) (hstep : BlockEnc.read P s1 false = (.pkt p, s2))
    (hall : P.len ≤ s2.srcSent ∧ ∀ b, b ∈ s2.blocks → b.isEmpty = true) : p.closeObject = true := by
  obtain ⟨hI, hT, hcl, hstp⟩ := h.inv
  obtain ⟨h1, h2⟩ := read_spec h.setup h.accepts (tr := pkts tr) false hI hT
  by_cases hs : s1.stopped = true
  · rw [h1 hs] at hstep; cases hstep
  · have hs' : s1.stopped = false := by simpa using hs
    have := h2 hs'
    rw [hstep] at this
    obtain ⟨_, _, e⟩ := this
    exact e.flag_conv hall hcl

/-- forced stop (object removed): the forced call returns at most one packet, it carries B, and every later
    `read` returns `None` -/
theorem forced_stop_single {s1 s2 : Enc} {p : Pkt}
    (h : Run P c aL aS nL n closable tr s1) (hstep : BlockEnc.read P s1 true = (.pkt p, s2)) :
    p.closeObject = true ∧ ∀ f, BlockEnc.read P s2 f = (.none, s2) := by
  have h2 : Run P c aL aS nL n closable (tr ++ [(true, p)]) s2 := by
    obtain ⟨s0, hnew, hr⟩ := h.reads
    exact { h with reads := ⟨s0, hnew, Reads.snoc hr hstep⟩ }
  obtain ⟨hI2, hT2, _, hstp2⟩ := h2.inv
  have hst : s2.stopped = true := hstp2.mpr ⟨(true, p), by simp, rfl⟩
  constructor
  · -- the flag of a forced call
    unfold BlockEnc.read at hstep
    split at hstep
    · cases hstep
    · simp only [if_true] at hstep
      generalize readFuel P _ = fuel at hstep
      generalize hs' : ({ s1 with stopped := true } : Enc) = s' at hstep
      clear hs'
      induction fuel generalizing s' with
      | zero => simp [readLoop] at hstep
      | succ fuel ih =>
        unfold readLoop at hstep
        simp only at hstep
        split at hstep
        · split at hstep
          · split at hstep <;> cases hstep
            rfl
          · cases hstep
        · split at hstep
          · cases hstep
          · split at hstep
            · exact ih _ hstep
            · cases hstep; rfl
  · intro f
    exact (read_spec h2.setup h2.accepts (tr := pkts (tr ++ [(true, p)])) f hI2 hT2).1 hst

/-- `read` terminates, FULL: in every reachable state, forced or not, `BlockEncoder::read` returns a packet or `None`:
    it never spins (every `continue` removes a drained block, blocks opened in between are never drained) and never hits an
    index panic.  (Until the repair of sched-7 the `panic` outcome also stood for `debug_assert!(transfer_length == 0)`,
    blockencoder.rs:81; the invariant that excluded it - as long as nothing has been sent every block cut so far is still
    open - now shows that under these hypotheses the "nothing could be read" branch is never taken.) -/
theorem read_terminates (h : Run P c aL aS nL n closable tr s) (f : Bool) :
    (BlockEnc.read P s f).1 ≠ .hang ∧ (BlockEnc.read P s f).1 ≠ .panic := by
  obtain ⟨hI, hT, _, _⟩ := h.inv
  exact ⟨Flute.BencTerm.read_no_hang h.setup h.accepts f hI hT, Flute.BencNoPanic.run_no_panic h f⟩

/-- … and when one of the two hypotheses is dropped, since the repair of sched-7 (blockencoder.rs: the empty-object packet
    only when `transfer_length == 0`) NOTHING is sent instead of the former `debug_assert` panic (dev) / bogus empty packet
    with B for a non-empty object (release): `window = 0` at encoder level (a `Sender` clamps it to 1), -/
theorem nothing_sent_when_window_zero :
    (match Enc.new { codec := noCode, e := 2, b := 2, p := 0, window := 0, len := 5 } (.buffer [1, 2, 3, 4, 5]) true with
     | .ok s0 => (BlockEnc.read { codec := noCode, e := 2, b := 2, p := 0, window := 0, len := 5 } s0 false).1
     | .error _ => .hang) = .none := by decide

/-- a codec that refuses the first block (Raptor as it is today: a block of 2 symbols, finding `raptor-k<4`), -/
theorem nothing_sent_when_first_block_refused :
    (match Enc.new { codec := raptorLegacy (fun _ _ _ _ => []), e := 4, b := 8, p := 1, window := 1, len := 8 }
        (.buffer (List.range 8)) true with
     | .ok s0 => (BlockEnc.read { codec := raptorLegacy (fun _ _ _ _ => []), e := 4, b := 8, p := 1, window := 1, len := 8 } s0 false).1
     | .error _ => .hang) = .none := by decide

/-- **source fault before the first packet** (sched-7, repaired): for ANY non-empty object, parameters, window ≥ 1 and
    stream, if the very first `read()` of the stream fails, `BlockEncoder::read` returns `None`: no packet, in particular
    not the close-object packet of an empty object (forced or not) -/
theorem read_error_before_first_packet_sends_nothing (P : Params) (st : BlockEnc.Stream) (closable f once : Bool)
    (hl : P.len ≠ 0) (hw : 1 ≤ P.window) (s0 : Enc) (hnew : Enc.new P (.faulty st 0 once) closable = .ok s0) :
    (BlockEnc.read P s0 f).1 = .none := by
  unfold Enc.new at hnew
  simp only at hnew
  cases hp : Partition.blockPartitioning P.b P.len P.e with
  | error w => rw [hp] at hnew; cases hnew
  | ok q =>
    obtain ⟨a1, a2, a3, a4⟩ := q
    rw [hp] at hnew
    simp only [Except.ok.injEq] at hnew
    subst hnew
    obtain ⟨w, hw'⟩ : ∃ w, P.window = w + 1 := ⟨P.window - 1, by omega⟩
    have key : ∀ (b : Bool) (force : Bool) (fuel : Nat),
        (readLoop P force (fuel + 1)
          { src := .faulty st.rewind 0 once, off := 0, sbn := 0, aL := a1, aS := a2, nL := a3, nB := a4, blocks := [], idx := 0, readEnd := false, srcSent := 0, nbPkt := 0, stopped := b, closable := closable }).1 = .none := by
      intro b force fuel
      unfold readLoop readWindow
      rw [hw']
      unfold readWindowAux
      simp only [Bool.false_eq_true, if_false, List.length_nil, hw', Nat.zero_lt_succ, if_true]
      have hrb : ∀ x : Enc, x.src = .faulty st.rewind 0 once → x.blocks = [] → x.nbPkt = 0 →
          (readBlock P x).readEnd = true ∧ (readBlock P x).blocks = [] ∧ (readBlock P x).nbPkt = 0 := by
        intro x h1 h2 h3
        unfold readBlock readBlockFaulty
        rw [h1]
        simp only
        cases hwant : x.blockLength * P.e with
        | zero => simp [fillE, h2, h3]
        | succ m => simp [fillE, h2, h3]
      obtain ⟨r1, r2, r3⟩ := hrb { src := .faulty st.rewind 0 once, off := 0, sbn := 0, aL := a1, aS := a2, nL := a3, nB := a4, blocks := [], idx := 0, readEnd := false, srcSent := 0, nbPkt := 0, stopped := b, closable := closable } rfl rfl rfl
      generalize readBlock P _ = y at r1 r2 r3
      have : readWindowAux P w y = y := by
        cases w with
        | zero => rfl
        | succ m => simp [readWindowAux, r1]
      rw [this]
      simp [r2, r3, hl]
    unfold BlockEnc.read
    simp only [Bool.false_eq_true, if_false]
    cases f with
    | true => simp only [if_true]; unfold readFuel; exact key true true _
    | false => simp only [Bool.false_eq_true, if_false]; unfold readFuel; exact key false false _

/-- **source fault in mid-transfer** (sched-8, finding): the blocks read before the error are still sent, the others never;
    the transfer ends without B although it was closable (40 bytes, E = 4, B = 4, window 1, reads of 5 bytes, the 5th read
    fails: block 0 complete (4 symbols), block 1 lost) -/
theorem read_error_mid_transfer_truncates_without_close :
    (match Enc.new { codec := noCode, e := 4, b := 4, p := 0, window := 1, len := 40 }
        (.faulty { bytes := List.range 40, pos := 0, sched := List.replicate 64 5 } 5 false) true with
     | .ok s0 => (runAll { codec := noCode, e := 4, b := 4, p := 0, window := 1, len := 40 } 32 s0).map
                   (fun p => (p.sbn, p.esi, p.closeObject))
     | .error _ => []) = [(0, 0, false), (0, 1, false), (0, 2, false), (0, 3, false)] := by decide

/-- while a codec refusing a LATER block ends the transfer silently before that block (11 bytes, E = 1, B = 4: blocks of
    4, 4, 3 symbols; the third is refused: 10 packets of blocks 0 and 1 only, then `None`) -/
theorem truncated_when_later_block_refused :
    (match Enc.new { codec := raptorLegacy (fun _ _ _ _ => []), e := 1, b := 4, p := 1, window := 1, len := 11 }
        (.buffer (List.range 11)) true with
     | .ok s0 => (runAll { codec := raptorLegacy (fun _ _ _ _ => []), e := 1, b := 4, p := 1, window := 1, len := 11 } 32 s0).map
                   (fun p => p.sbn)
     | .error _ => []) = [0, 0, 0, 0, 0, 1, 1, 1, 1, 1] := by decide

/-! ### the empty object -/

/-- clause (c): an empty object (`L = 0`; `N = 0`, so "every source symbol once" is vacuous) is represented by ONE
    packet - SBN 0, ESI 0, empty payload, B set whatever `closabled_object` is (so in every transfer) - and every
    later `read` returns `None`; for a buffer source when the codec yields no shard for the empty buffer (`Quiet`:
    No-Code, Reed-Solomon - `noCode_quiet`, `reedSolomon_quiet`), for a stream source whatever the codec.
    Forced or not. -/
theorem empty_object_lone_packet (P : Params) (hnl : P.legacy = false) (hl : P.len = 0) (hw : 1 ≤ P.window)
    (closable f : Bool) :
    (Flute.BencEmpty.Quiet P → ∃ s0 s2, Enc.new P (.buffer []) closable = .ok s0 ∧
        BlockEnc.read P s0 f = (.pkt emptyPkt, s2) ∧ ∀ f', (BlockEnc.read P s2 f').1 = .none) ∧
    (∀ st : BlockEnc.Stream, st.bytes = [] → ∃ s0 s2, Enc.new P (.stream st) closable = .ok s0 ∧
        BlockEnc.read P s0 f = (.pkt emptyPkt, s2) ∧ ∀ f', (BlockEnc.read P s2 f').1 = .none) ∧
    emptyPkt.closeObject = true ∧ emptyPkt.payload = [] ∧ (alcFlags emptyPkt).1 = false :=
  ⟨fun hq => Flute.BencEmpty.empty_buffer P hl hw hq closable f,
   fun st hb => Flute.BencEmpty.empty_stream P hnl hl hw st hb closable f, rfl, rfl, rfl⟩

/-- … but NOT for RaptorQ / Raptor from a buffer (finding `empty-object-fec-buffer-vs-stream`): the empty block's
    `parity` repair symbols are sent instead (B on the last one of a closable transfer) -/
theorem empty_object_raptorq_repair_packets :
    (match Enc.new { codec := raptorQ (fun _ _ _ _ => []), e := 4, b := 3, p := 2, window := 2, len := 0 } (.buffer []) true with
     | .ok s0 => (runAll { codec := raptorQ (fun _ _ _ _ => []), e := 4, b := 3, p := 2, window := 2, len := 0 } 8 s0).map
                   (fun p => (p.sbn, p.esi, p.isSource, p.closeObject))
     | .error _ => []) = [(0, 0, false, false), (0, 1, false, true)] := by decide

/-! ### the glue `SenderSession` / `FileDesc` (lemmas for C12) -/

/-- `closabled_object` of a transfer = `FileDesc::is_last_transfer`: no carousel and this is transfer number
    `max_transfer_count` (counting from 1) -/
theorem is_last_transfer_iff (x : Session) :
    x.isLastTransfer = true ↔ x.carousel = false ∧ x.maxtc = x.count + 1 := by
  unfold Session.isLastTransfer
  cases x.carousel <;> simp

/-- a finished transfer is followed by another one iff the object is still in the FDT and
    (`transfer_count < max_transfer_count` or carousel) -/
theorem is_expired_iff (x : Session) :
    x.isExpired = true ↔ x.maxtc ≤ x.count ∧ x.carousel = false := by
  unfold Session.isExpired
  by_cases h : x.maxtc > x.count
  · simp [h]; omega
  · simp [h]; cases x.carousel <;> simp <;> omega

/-- the glue, one call: for ALL sessions over a non-empty buffer object (`SGood`: any `max_transfer_count`, carousel or not),
    whatever `read` returns the session stays good (its encoder is a genuine run of an encoder created with
    `closabled_object = is_last_transfer`, so every block-encoder theorem above applies to it), and a packet carrying B while
    the object is still in the FDT is the last packet of the LAST transfer. -/
theorem session_close_object_only_last_transfer {x x' : Session} {p : Pkt}
    (hg : Flute.BencSession.SGood c aL aS nL n x) (h : x.read = (.pkt p, x')) :
    Flute.BencSession.SGood c aL aS nL n x' ∧
    (p.closeObject = true → x'.added = true →
      (x'.carousel = false ∧ x'.maxtc = x'.count + 1) ∧
      ∃ e', x'.enc = some e' ∧ e'.sbn = n ∧ e'.readEnd = true ∧ ∀ b, b ∈ e'.blocks → b.isEmpty = true) := by
  obtain ⟨h1, h2, _⟩ := Flute.BencSession.runLoop_spec 4 x hg _ x' h
  refine ⟨h1, fun hB ha => ?_⟩
  obtain ⟨h3, e', h4, h5, h6, _, h7⟩ := h2 p rfl hB ha
  exact ⟨(is_last_transfer_iff x').mp h3, e', h4, h5, h6, h7⟩

/-- **whole histories.**  From a freshly added non-empty buffer object (`sgood_init`: no encoder yet; any
    `max_transfer_count`, carousel or not, immediate stop allowed or not), after ANY history `ops1` of `Sender::read`
    (returning packets or `None`, ending transfers, starting new ones), `remove_object` and clock advances, if the next
    `read` returns a packet with B then
    (a) if the object is still in the FDT: this is the last packet of the LAST transfer (`¬carousel`,
        `transfer_count + 1 = max_transfer_count`, nothing left to cut, window drained) - otherwise the object had been
        removed (forced-stop packet, or last packet of the transfer a removed object was allowed to finish);
    (b) in every case it is FINAL: whatever the application does afterwards (any history `ops2`), every `read` returns
        `None` - no further packet of the object, no further transfer.
    (Stream sources: `stream_eq_buffer` (C20) gives the same packets call by call at encoder level.) -/
theorem session_history_close_object (ops1 ops2 : List Flute.BencSession.Op) {x0 x2 : Session} {p : Pkt}
    (hg : Flute.BencSession.SGood c aL aS nL n x0)
    (h : (Flute.BencSession.srun ops1 x0).2.read = (.pkt p, x2)) (hB : p.closeObject = true) :
    (x2.added = true → (x2.carousel = false ∧ x2.maxtc = x2.count + 1) ∧
      ∃ e', x2.enc = some e' ∧ e'.sbn = n ∧ e'.readEnd = true ∧ ∀ b, b ∈ e'.blocks → b.isEmpty = true) ∧
    ∀ o, o ∈ (Flute.BencSession.srun ops2 x2).1 → o = .none := by
  have hg1 := Flute.BencSession.run_good ops1 x0 hg
  obtain ⟨_, h2, h3⟩ := Flute.BencSession.runLoop_spec 4 _ hg1 _ x2 h
  refine ⟨fun ha => ?_, Flute.BencSession.nothing_after_finished ops2 x2 (h3 p rfl hB)⟩
  obtain ⟨h4, e', h5, h6, h7, _, h8⟩ := h2 p rfl hB ha
  exact ⟨(is_last_transfer_iff x2).mp h4, e', h5, h6, h7, h8⟩

/-- … and every history keeps the invariant, starting from the freshly added object -/
theorem session_history_good (ops : List Flute.BencSession.Op) (x0 : Session) (hsrc : x0.src = .buffer c)
    (hnl : x0.P.legacy = false) (he : 0 < x0.P.e) (hb : 0 < x0.P.b) (hlen : x0.P.len = c.length) (hl : 0 < c.length)
    (hw : 1 ≤ x0.P.window) (hq : Partition.blockPartitioning x0.P.b x0.P.len x0.P.e = .ok (aL, aS, nL, n))
    (hA : Accepts x0.P c aL aS nL n) (hle : SymLe x0.P.codec) (henc : x0.enc = none) :
    Flute.BencSession.SGood c aL aS nL n (Flute.BencSession.srun ops x0).2 :=
  Flute.BencSession.run_good ops x0 (Flute.BencSession.sgood_init x0 hsrc hnl he hb hlen hl hw hq hA hle henc)

/-- content encoding: the object `c` all theorems above slice is the TRANSFER-ENCODED object: `ObjectDesc::create_*`
    (`objectSource`, the function the driver runs) hands the encoder `compress cenc content` for a buffer / RAM-cached
    file when `cenc ≠ null` (the whole content is encoded before any slicing; `compress` = flate2's output, an explicit
    parameter about which nothing is assumed), the content itself when `cenc = null`; a stream is handed over as it is and
    refused with a content encoding.  (Definition-level: it states how the model is parameterised; that the real
    sender's payloads slice flute's `compress_buffer` output, and that they inflate to the content, is checked on every
    cenc case of the correspondence.) -/
theorem cenc_applied_before_slicing (compress : Nat → Bytes → Bytes) (cenc : Nat) (content : Bytes) (st : BlockEnc.Stream) :
    objectSource compress cenc (.buffer content) = some (.buffer (if cenc = 0 then content else compress cenc content)) ∧
    (cenc ≠ 0 → objectSource compress cenc (.stream st) = none) ∧
    objectSource compress 0 (.stream st) = some (.stream st) := by
  refine ⟨rfl, fun h => ?_, rfl⟩
  simp [objectSource, h]

/-- `Accepts` is not a free hypothesis for the Reed-Solomon schemes (FEC ID 5, 129): it follows from what the repaired
    `add_object` checks (parity ≥ 1, `a_large + parity ≤ 256`); for Raptor from "no block of 2 or 3 symbols" -/
theorem accepts_discharged (hS : Setup P c aL aS nL n) :
    (∀ rep, P.codec = reedSolomon rep → 1 ≤ P.p → aL + P.p ≤ 256 → Accepts P c aL aS nL n) ∧
    (∀ rep, P.codec = raptorLegacy rep → (∀ k, k < n → A aL aS nL k ≠ 2 ∧ A aL aS nL k ≠ 3) → Accepts P c aL aS nL n) ∧
    ((∀ e k p, P.codec.accepts e k p = true) → Accepts P c aL aS nL n) :=
  ⟨fun rep => rs_accepts rep hS, fun rep => raptor_accepts rep hS, accepts_of_total hS⟩

/-- **admission ⇒ `Accepts`** (the driver's admission IS agent toi's `Admission.accepts`, the reference model tied to the real
    `add_object` by engine `toi`): an object ADMITTED by `FileDesc::new` (`Admission.fileDescNew … = ok (ok _)`) whose OTI is
    Reed-Solomon (FEC ID 5 or 129), No-Code, RaptorQ or Raptor, sent with the parameters of that OTI and the matching codec, has every
    block accepted by the codec - `Accepts` is discharged by admission (via AdmissionLink `admitted_block_limits`); likewise for
    Raptor (FEC ID 1) since /repo 42b2a1c (`admitted_raptor_blocks`: a partition using a block of 2 or 3 symbols is refused;
    `a_large ≤ 8192`). -/
theorem admitted_accepts (hS : Setup P c aL aS nL n) (dflt o o' : Flute.Admission.Oti)
    (hadm : Flute.Admission.fileDescNew dflt (some o) P.len = .ok (.ok o'))
    (hb : P.b = o.maxSbl) (he : P.e = o.esl) (hp : P.p = o.parity)
    (hq : Partition.blockPartitioning P.b P.len P.e = .ok (aL, aS, nL, n)) :
    (∀ rep, (o.fec = .rs28 ∨ o.fec = .rs28us) → P.codec = reedSolomon rep → Accepts P c aL aS nL n) ∧
    (o.fec = .noCode → P.codec = noCode → Accepts P c aL aS nL n) ∧
    (∀ rep, o.fec = .raptorq → P.codec = raptorQ rep → Accepts P c aL aS nL n) ∧
    (∀ rep, o.fec = .raptor → P.codec = raptorLegacy rep →
       Accepts P c aL aS nL n ∧ aL ≤ 8192 ∧ ∀ k, k < n → A aL aS nL k ≠ 2 ∧ A aL aS nL k ≠ 3) := by
  have hq' : Partition.blockPartitioning (Flute.Props.C01.Admission.chosen dflt (some o)).maxSbl P.len
      (Flute.Props.C01.Admission.chosen dflt (some o)).esl = .ok (aL, aS, nL, n) := by
    show Partition.blockPartitioning o.maxSbl P.len o.esl = _
    rw [← hb, ← he]; exact hq
  obtain ⟨l1, l2⟩ := Flute.Props.C01.Admission.admitted_block_limits dflt (some o) P.len o' hadm _ hq'
  refine ⟨?_, ?_, ?_, ?_⟩
  · intro rep hf hc
    obtain ⟨q1, q2⟩ := l1 hf
    have q2' : aL + o.parity ≤ 255 := q2.1
    exact rs_accepts rep hS hc (by rw [hp]; exact q1) (by rw [hp]; omega)
  · intro _ hc; exact accepts_of_total hS (by rw [hc]; intro _ _ _; rfl)
  · intro rep _ hc; exact accepts_of_total hS (by rw [hc]; intro _ _ _; rfl)
  · intro rep hf hc
    obtain ⟨q1, _⟩ := l2 (Or.inr hf)
    -- since /repo 42b2a1c admission refuses a Raptor partition that uses a block of 2 or 3 symbols
    obtain ⟨r1, r2⟩ := Flute.Props.C01.Admission.admitted_raptor_blocks dflt (some o) P.len o' hadm hf _ hq'
    simp only at r1 r2
    have hk : ∀ k, k < n → A aL aS nL k ≠ 2 ∧ A aL aS nL k ≠ 3 := by
      intro k hk
      unfold A
      split
      · exact r1 (by omega)
      · exact r2 (by omega)
    refine ⟨raptor_accepts rep hS hc hk, ?_, hk⟩
    have : Flute.Admission.maxBlockSymbols (Flute.Props.C01.Admission.chosen dflt (some o)).fec = 8192 := by
      show Flute.Admission.maxBlockSymbols o.fec = 8192
      rw [hf]; rfl
    rw [this] at q1; exact q1

/-- bridge to C07: the blocks the encoder cuts are, block for block, `Partition.senderBlocks` (the object of C07's sender
    theorems): same number of symbols `A k`, same byte range `[off k, off (k+1))` -/
theorem sender_slicing_is_senderBlocks (hS : Setup P c aL aS nL n) (hA : Accepts P c aL aS nL n) :
    Partition.senderBlocks (aL, aS, nL, n) P.len P.e n 0 0 =
      (List.range n).map (fun k => (A aL aS nL k, off P aL aS nL k, off P aL aS nL (k + 1))) ∧
    ∀ s : Enc, Inv P c aL aS nL n s → s.readEnd = false →
      ∃ b0, readBlockBuffer P s c = some { s with blocks := s.blocks ++ [b0], sbn := s.sbn + 1, readEnd := decide (s.sbn + 1 = n), off := off P aL aS nL (s.sbn + 1) } ∧
        b0.sbn = s.sbn ∧ b0.nbSource = A aL aS nL s.sbn ∧
        Block.new P s.sbn ((c.drop (off P aL aS nL s.sbn)).take (off P aL aS nL (s.sbn + 1) - off P aL aS nL s.sbn)) = some b0 :=
  Flute.BencBridge.sender_slicing_eq_senderBlocks hS hA

/-- whole-session run on a concrete object (3 symbols in 2 blocks, RS parity 1, window 2, `max_transfer_count = 3`, no
    carousel): three identical transfers, B only on the last packet of the third -/
theorem session_b_only_in_last_transfer :
    (sessionFlags 40
      { P := { codec := reedSolomon (fun _ _ _ _ => []), e := 2, b := 2, p := 1, window := 2, len := 5 },
        src := .buffer [1, 2, 3, 4, 5], maxtc := 3, carousel := false, allowStop := false }) =
      [false, false, false, false, false, false, false, false, false, false, false, false, false, false, true] := by decide

/-- A / B flags ON THE WIRE, about agent wire's model of the real builders (`Alc.newAlcPkt`, `Alc.newAlcPktCloseSession`,
    `Alc.parseAlcPkt`; C06 `alc_pkt_roundtrip`, `close_session_roundtrip`):
    (1) for EVERY block-encoder packet `p` of an object (TOI ≠ 0) the datagram `new_alc_pkt` builds exists and parses back
    with close-session A = 0 and close-object B = `p.closeObject` (so every B statement above is a statement about the B
    bit of the datagram), payload = `p.payload`; the driver's projection `alcFlags p` is exactly these two parsed bits;
    (2) the datagram `new_alc_pkt_close_session` builds parses back with A = 1, B = 0 and `closeSessionFlags` is exactly
    these two bits.  `SenderSession::run` builds every datagram `Sender::read` returns with `new_alc_pkt` (sendersession.rs:88),
    `Sender::read_close_session` with `new_alc_pkt_close_session` (sender.rs:386).
    (Hypotheses `FtiOk` / `PidOk` = C06's per-scheme EXT_FTI / payload-ID round trips for this OTI and (SBN, ESI).) -/
theorem close_session_only_explicit (p : Pkt) (oti : Flute.Fti.Oti) (cci tsi toi tlen cenc nowUs : Nat) (inbandCenc : Bool)
    (wfti : List Nat) (nfti : Nat) (o' : Flute.Fti.Oti) (wpid : List Nat) (pid : Flute.Fti.PayloadId)
    (hk : Flute.Fti.knownFec oti.fecId = true) (hcci : cci < 2^128) (htsi : tsi < 2^48) (htoi : toi < 2^112) (htoi0 : toi ≠ 0)
    (hcenc : cenc ≤ 3)
    (hfti : oti.inbandFti = true → Flute.Alc.FtiOk oti tlen wfti nfti o') (hn : nfti ≤ 4)
    (hpid : Flute.Alc.PidOk oti p.sbn p.esi p.sbl wpid pid) :
    (∃ d q, Flute.Alc.newAlcPkt oti cci tsi (toAlc p toi tlen cenc inbandCenc) false nowUs = .ok d ∧
        Flute.Alc.parseAlcPkt d = .ok q ∧ q.lct.closeSession = false ∧ q.lct.closeObject = p.closeObject ∧
        alcFlags p = (q.lct.closeSession, q.lct.closeObject) ∧ q.lct.toi = toi ∧ d.drop q.payloadOffset = p.payload) ∧
    (∃ d q, Flute.Alc.newAlcPktCloseSession cci tsi = .ok d ∧ Flute.Alc.parseAlcPkt d = .ok q ∧
        q.lct.closeSession = true ∧ q.lct.closeObject = false ∧ closeSessionFlags = (q.lct.closeSession, q.lct.closeObject)) := by
  constructor
  · obtain ⟨d, q, h1, h2, _, _, h5, _, h7, h8, _, _, _, _, _, _, h15, _⟩ :=
      Flute.Props.C06.alc_pkt_roundtrip oti cci tsi (toAlc p toi tlen cenc inbandCenc) false nowUs 0 wfti nfti o' wpid pid
        hk hcci htsi htoi (fun h => absurd h htoi0) hcenc (fun h => by cases h)
        (fun h => by
          rcases h with h | h
          · exact absurd h htoi0
          · exact hfti h) hn hpid
    refine ⟨d, q, h1, h2, h8, h7, ?_, h5, h15⟩
    show (false, p.closeObject) = _
    rw [h8]; rw [h7]; rfl
  · obtain ⟨d, q, _, h1, _, _, _, _, _, _, _, _, h2, h3, h4, _⟩ := Flute.Props.C06.close_session_roundtrip cci tsi hcci htsi
    refine ⟨d, q, h1, h2, h3, h4, ?_⟩
    show (true, false) = _
    rw [h3, h4]

/-! ### the empty object, and non-vacuity -/

def d3P' : Params :=
  { codec := reedSolomon (fun _ _ _ _ => []), e := 4, b := 3, p := 2, window := 2, len := 20 }

def tinyP : Params := { codec := noCode, e := 2, b := 2, p := 0, window := 2, len := 5 }
def tinyObj : Bytes := [1, 2, 3, 4, 5]

/-- non-vacuity: a concrete complete unforced transfer (5 bytes, E = 2, B = 2: blocks of 2 and 1 symbols,
    interleaved) satisfies every hypothesis used above -/
example : ∃ tr s, Run tinyP tinyObj 2 1 1 2 true tr s ∧ (∀ x, x ∈ tr → x.1 = false) ∧
    (BlockEnc.read tinyP s false).1 = .none ∧ (pkts tr).map (fun p => (p.sbn, p.esi, p.payload, p.closeObject)) =
      [(0, 0, [1, 2], false), (1, 0, [5], false), (0, 1, [3, 4], true)] := by
  obtain ⟨s0, h0⟩ : ∃ s0, Enc.new tinyP (.buffer tinyObj) true = .ok s0 := ⟨_, rfl⟩
  refine ⟨(runPairs tinyP 10 s0).1, (runPairs tinyP 10 s0).2, ?_, runPairs_unforced tinyP 10 s0, ?_, ?_⟩
  · refine ⟨rfl, by decide, by decide, rfl, by decide, by decide, rfl, ?_, ⟨s0, h0, reads_runPairs tinyP 10 s0⟩⟩
    exact accepts_of_total ⟨rfl, by decide, rfl, by decide,
      good_of_partition 2 5 2 2 1 1 2 (by decide) (by decide) (by decide) rfl⟩ (fun _ _ _ => rfl)
  · cases h0; rfl
  · cases h0; rfl

/-- non-vacuity with Reed-Solomon, several blocks, parity 2 (`rs_accepts` discharges `Accepts`): 20 bytes, E = 4, B = 3,
    window 2 - the D3 configuration - a complete unforced run of 9 packets -/
example : ∃ tr s, Run (d3P' ) (List.range 20) 3 2 1 2 true tr s ∧ (∀ x, x ∈ tr → x.1 = false) ∧
    (BlockEnc.read d3P' s false).1 = .none ∧ tr.length = 9 := by
  obtain ⟨s0, h0⟩ : ∃ s0, Enc.new d3P' (.buffer (List.range 20)) true = .ok s0 := ⟨_, rfl⟩
  have hS : Setup d3P' (List.range 20) 3 2 1 2 := ⟨rfl, by decide, rfl, by decide,
      good_of_partition 3 20 4 3 2 1 2 (by decide) (by decide) (by decide) rfl⟩
  refine ⟨(runPairs d3P' 16 s0).1, (runPairs d3P' 16 s0).2, ?_, runPairs_unforced d3P' 16 s0, ?_, ?_⟩
  · exact ⟨rfl, by decide, by decide, rfl, by decide, by decide, rfl,
      rs_accepts _ hS rfl (by decide) (by decide), ⟨s0, h0, reads_runPairs d3P' 16 s0⟩⟩
  · cases h0; rfl
  · cases h0; rfl

/-! ### D3: negation witness on the model of the code BEFORE the repair, and the same input after it -/

def d3P (legacy : Bool) : Params :=
  { codec := reedSolomon (fun _ _ _ _ => []), e := 4, b := 3, p := 2, window := 2, len := 20, legacy := legacy }

def d3Flags (legacy : Bool) : List (Nat × Nat × Bool) :=
  match Enc.new (d3P legacy) (.buffer (List.range 20)) true with
  | .ok s0 => (runAll (d3P legacy) 32 s0).map (fun p => (p.sbn, p.esi, p.closeObject))
  | .error _ => []

/-- before the repair: 5 symbols, B = 3, parity 2, window 2 (blocks of 3 and 2 symbols interleaved): B is set on
    packets 8 AND 9 of 9 - on (1,3), the last symbol of block 1, while block 0 still holds its repair symbol (0,4) -/
theorem d3_legacy_flag_before_last :
    d3Flags true = [(0,0,false), (1,0,false), (0,1,false), (1,1,false), (0,2,false), (1,2,false), (0,3,false),
                    (1,3,true), (0,4,true)] := by decide

/-- after the repair: B on the last packet only -/
theorem d3_repaired_flag_last_only :
    d3Flags false = [(0,0,false), (1,0,false), (0,1,false), (1,1,false), (0,2,false), (1,2,false), (0,3,false),
                     (1,3,false), (0,4,true)] := by decide

end Flute.Props.C08
