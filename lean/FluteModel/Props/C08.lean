import FluteModel.Lemmas.BencShape
import FluteModel.Lemmas.BencTerm
import FluteModel.Lemmas.BencPsi
import FluteModel.Lemmas.BencNoPanic
import FluteModel.Lemmas.BencEmpty
import FluteModel.Lemmas.BencSession
/-
  C08 - per-transfer symbol emission, RFC offsets, end flags.

  Setting of every theorem (`Run P c aL aS nL n closable tr s`, Lemmas/BencShape.lean): ANY object bytes `c`
  (non-empty; the empty object is treated separately below), ANY symbol size `E > 0`, block size `B > 0`,
  parity, window ≥ 1, ANY codec `P.codec` satisfying the `Codec` contract that accepts every block of the
  object (`Accepts`; after the repair of D21/D25 `add_object` refuses the Reed-Solomon configurations for
  which this fails), `(aL, aS, nL, n)` = what `block_partitioning` returned, a fresh `BlockEncoder` for the
  transfer (closable or not = `is_last_transfer`), and `tr` = ANY sequence of successful `read(force)` calls
  (any force flags = removal at any packet index), `s` the state reached.  "complete, unforced" =
  no call was forced and the next `read` returns `None`.
-/
namespace Flute.Props.C08
open Flute Flute.Fec Flute.BlockEnc Flute.BencArith Flute.BencBlocks Flute.BencInv Flute.BencTrace Flute.BencShape Flute.BencPsi

variable {P : Params} {c : Bytes} {aL aS nL n : Nat} {closable : Bool} {tr : List (Bool × Pkt)} {s : Enc}

/-- master statement: in a complete unforced transfer the packets of block `k`, in emission order, are exactly
    the shards of block `k` (ESI, payload) in shard order, for every `k < N`; no packet has SBN ≥ N -/
theorem transfer_per_block (h : Run P c aL aS nL n closable tr s)
    (hnf : ∀ x, x ∈ tr → x.1 = false) (hend : (BlockEnc.read P s false).1 = .none) :
    (∀ k, k < n → ∃ b0, blockAt P c aL aS nL k = some b0 ∧ proj (pkts tr) k = b0.shards.map sview) ∧
    (∀ k, n ≤ k → proj (pkts tr) k = []) := by
  obtain ⟨s0, hnew, hr⟩ := h.reads
  have hs0 := new_state h.part hnew
  obtain ⟨hI0, hT0⟩ := inv_init h.setup closable
  rw [← hs0] at hI0 hT0
  exact complete_blocks h.setup h.accepts h.window_pos hI0 hT0 (by rw [hs0]) hr hnf hend

/-- also when the transfer is cut at ANY packet index (removal / forced stop / the caller stops reading):
    the packets of block `k` emitted so far are a prefix of the block's shard list -/
theorem prefix_per_block (h : Run P c aL aS nL n closable tr s) :
    ∀ k, k < n → ∃ b0, blockAt P c aL aS nL k = some b0 ∧ proj (pkts tr) k <+: b0.shards.map sview := by
  obtain ⟨hI, hT, _, _⟩ := h.inv
  intro k hk
  obtain ⟨b0, hb0⟩ := Option.isSome_iff_exists.mp (h.accepts k hk)
  refine ⟨b0, hb0, ?_⟩
  by_cases hfut : s.sbn ≤ k
  · rw [hT.future k hfut]; exact List.nil_prefix
  · by_cases hopen : ∃ b, b ∈ s.blocks ∧ b.sbn = k
    · obtain ⟨b, hb, hbk⟩ := hopen
      have h1 := hT.opened b hb
      have h2 := (hI.blocks_ok b hb).2.1
      rw [hbk, hb0] at h2
      simp only [Option.some.injEq] at h2
      rw [hbk] at h1
      rw [h1, h2]
      exact (List.take_prefix _ _).map sview
    · obtain ⟨b1, hb1, hp⟩ := hT.closed k (by omega) (fun b hb hbk => hopen ⟨b, hb, hbk⟩)
      rw [hb0] at hb1; cases hb1
      rw [hp]; exact List.prefix_refl _

/-- ESIs of block `k`'s packets in emission order are `0, 1, …, A_k + r - 1` with `r ≤ parity` -/
theorem esis_per_block (h : Run P c aL aS nL n closable tr s)
    (hnf : ∀ x, x ∈ tr → x.1 = false) (hend : (BlockEnc.read P s false).1 = .none) :
    ∀ k, k < n → ∃ r, r ≤ P.p ∧ (proj (pkts tr) k).map (·.1) = List.range (A aL aS nL k + r) := by
  intro k hk
  obtain ⟨b0, hb0, hp⟩ := (transfer_per_block h hnf hend).1 k hk
  rw [hp]; exact block_esis h.setup hk hb0

/-- every source symbol `(k, i)`, `k < N`, `i < A_k`, is emitted, and no (SBN, ESI) is emitted twice -/
theorem source_once (h : Run P c aL aS nL n closable tr s)
    (hnf : ∀ x, x ∈ tr → x.1 = false) (hend : (BlockEnc.read P s false).1 = .none) :
    ∀ k, k < n → ((proj (pkts tr) k).map (·.1)).Nodup ∧ ∀ i, i < A aL aS nL k → i ∈ (proj (pkts tr) k).map (·.1) := by
  intro k hk
  obtain ⟨r, _, he⟩ := esis_per_block h hnf hend k hk
  rw [he]
  exact ⟨List.nodup_range, fun i hi => List.mem_range.mpr (by omega)⟩

/-- at most `parity` repair symbols per block, all with ESI ≥ A_k (and below A_k + parity) -/
theorem repair_bounded (h : Run P c aL aS nL n closable tr s)
    (hnf : ∀ x, x ∈ tr → x.1 = false) (hend : (BlockEnc.read P s false).1 = .none) :
    ∀ k, k < n → (proj (pkts tr) k).length ≤ A aL aS nL k + P.p ∧
      ∀ x, x ∈ (proj (pkts tr) k).map (·.1) → x < A aL aS nL k + P.p := by
  intro k hk
  obtain ⟨r, hr, he⟩ := esis_per_block h hnf hend k hk
  constructor
  · have := congrArg List.length he
    simp only [List.length_map, List.length_range] at this
    omega
  · intro x hx; rw [he] at hx; have := List.mem_range.mp hx; omega

/-- symbols of a block are emitted in strictly increasing ESI order - at every point of every run -/
theorem esi_increasing_per_block (h : Run P c aL aS nL n closable tr s) :
    ∀ k, k < n → ((proj (pkts tr) k).map (·.1)).Pairwise (· < ·) := by
  intro k hk
  obtain ⟨b0, hb0, hpre⟩ := prefix_per_block h k hk
  obtain ⟨r, _, he⟩ := block_esis h.setup hk hb0
  have h1 : (proj (pkts tr) k).map (·.1) <+: List.range (A aL aS nL k + r) := by
    rw [← he]; exact hpre.map _
  exact List.Pairwise.sublist h1.sublist List.pairwise_lt_range

/-- the payload of source symbol `(k, i)` is the `E`-byte slice of the object at the RFC 5052 offset
    `(first symbol of block k + i) · E`, the object's last symbol short (`pad = false`: No-Code) or zero-padded
    to `E` (`pad = true`: Reed-Solomon, RaptorQ) -/
theorem payload_is_slice (h : Run P c aL aS nL n closable tr s) {pad : Bool} (hsl : P.codec.Slices pad)
    (hnf : ∀ x, x ∈ tr → x.1 = false) (hend : (BlockEnc.read P s false).1 = .none) :
    ∀ k i, k < n → i < A aL aS nL k →
      (proj (pkts tr) k)[i]? = some (i,
        if pad then padTo P.e ((c.drop ((cum aL aS nL k + i) * P.e)).take P.e)
        else (c.drop ((cum aL aS nL k + i) * P.e)).take P.e) := by
  intro k i hk hi
  obtain ⟨b0, hb0, hp⟩ := (transfer_per_block h hnf hend).1 k hk
  rw [hp]; exact block_payload h.setup hsl hk hi hb0

/-- … so a receiver following only the RFCs rebuilds the object from source symbols alone: the `E`-byte
    slices at symbol offsets `0 … T-1` (T = ⌈L/E⌉ = Σ A_k), concatenated, are the object -/
theorem slices_are_the_object (e : Nat) (d : Bytes) (he : 0 < e) :
    ((List.range (divCeil d.length e)).map (fun g => (d.drop (g * e)).take e)).flatten = d := by
  rw [slices_rebuild e d he]
  exact List.take_of_length_le (divCeil_mul_ge d.length e he)

/-- the symbol offsets of the blocks tile `0 … T-1`: block `k` starts at `cum k`, has `A k` symbols -/
theorem blocks_tile (h : Run P c aL aS nL n closable tr s) :
    cum aL aS nL 0 = 0 ∧ (∀ k, cum aL aS nL (k + 1) = cum aL aS nL k + A aL aS nL k) ∧
    cum aL aS nL n = divCeil c.length P.e := by
  refine ⟨cum_zero _ _ _, cum_succ _ _ _, ?_⟩
  rw [← h.len_eq]; exact h.setup.good.t_total

/-- at every point at most `window` blocks are open, and they are open in increasing SBN order -/
theorem window_bound (h : Run P c aL aS nL n closable tr s) :
    s.blocks.length ≤ max 1 P.window ∧ (s.blocks.map (·.sbn)).Pairwise (· < ·) := by
  obtain ⟨hI, _, _, _⟩ := h.inv
  exact ⟨by have := hI.win; omega, hI.sorted⟩

/-- B flag (close object), first half (used by `close_object_only_last` below).  Full statement wanted: a packet carries B only if (a) it is the last packet
    of a transfer created closable (`is_last_transfer`), (b) it is the single forced-stop packet, (c) it is the
    lone empty-object packet.  Proved here for the packet returned last in any run: B ⇒ the call was forced, or
    the transfer is closable AND every source byte has been counted as sent AND every open block is drained
    (the repaired D3 condition, "every" instead of "this").  That `srcSent ≥ L` implies no block is left to cut is
    the byte-accounting invariant of Lemmas/BencPsi.lean, used in `close_object_only_last`. -/
theorem close_object_only_last_partial {s1 s2 : Enc} {f : Bool} {p : Pkt}
    (h : Run P c aL aS nL n closable tr s1) (hstep : BlockEnc.read P s1 f = (.pkt p, s2)) (hB : p.closeObject = true) :
    f = true ∨ (closable = true ∧ P.len ≤ s2.srcSent ∧ ∀ b, b ∈ s2.blocks → b.isEmpty = true) := by
  obtain ⟨hI, hT, hcl, hstp⟩ := h.inv
  obtain ⟨h1, h2⟩ := read_spec h.setup h.accepts (tr := pkts tr) f hI hT
  by_cases hs : s1.stopped = true
  · rw [h1 hs] at hstep; cases hstep
  · have hs' : s1.stopped = false := by simpa using hs
    have := h2 hs'
    rw [hstep] at this
    obtain ⟨_, _, e⟩ := this
    rcases e.flag hB with hf | ⟨hc, hr⟩
    · exact Or.inl hf
    · right
      refine ⟨?_, hr⟩
      rw [← hcl]; cases f <;> exact hc

/-- B flag (close object), FULL for non-empty objects: a packet returned by `read(f)` carries B only if the call was
    forced (the single forced-stop packet, `forced_stop_single`) or the transfer was created closable
    (`is_last_transfer`) AND this packet is the last one of the transfer: every block of the object has been cut
    (`sbn = N`, `read_end`), every open block is drained, and for EVERY block the packets emitted so far are all of
    its shards - nothing is left to send.  (`SymLe`: the codec's source symbols have at most `E` bytes - proved for
    No-Code, Reed-Solomon, RaptorQ and for the Raptor crate's split as it is: `noCode_symLe`, `reedSolomon_symLe`,
    `raptorQ_symLe`, `raptorLegacy_symLe`.) -/
theorem close_object_only_last {s1 s2 : Enc} {f : Bool} {p : Pkt}
    (h : Run P c aL aS nL n closable tr s1) (hle : SymLe P.codec)
    (hstep : BlockEnc.read P s1 f = (.pkt p, s2)) (hB : p.closeObject = true) :
    f = true ∨ (closable = true ∧ s2.sbn = n ∧ s2.readEnd = true ∧ (∀ b, b ∈ s2.blocks → b.isEmpty = true) ∧
      ∀ k, k < n → ∃ b0, blockAt P c aL aS nL k = some b0 ∧ proj (pkts (tr ++ [(f, p)])) k = b0.shards.map sview) := by
  rcases close_object_only_last_partial h hstep hB with hf | ⟨hc, hsent, hdr⟩
  · exact Or.inl hf
  · right
    have h2 : Run P c aL aS nL n closable (tr ++ [(f, p)]) s2 := by
      obtain ⟨s0, hnew, hr⟩ := h.reads
      exact { h with reads := ⟨s0, hnew, Reads.snoc hr hstep⟩ }
    obtain ⟨hsbn, hre⟩ := all_cut_of_srcSent h2 hle hsent
    obtain ⟨hI, hT, _, _⟩ := h2.inv
    refine ⟨hc, hsbn, hre, hdr, ?_⟩
    intro k hk
    by_cases hopen : ∃ b, b ∈ s2.blocks ∧ b.sbn = k
    · obtain ⟨b, hb, hbk⟩ := hopen
      have h1 := hT.opened b hb
      have h3 := (hI.blocks_ok b hb).2.1
      have h4 : b.readIndex = b.shards.length := by
        have := hdr b hb; simpa [Block.isEmpty] using this
      rw [hbk] at h1 h3
      exact ⟨_, h3, by rw [h1, h4, List.take_length]⟩
    · exact hT.closed k (by omega) (fun b hb hbk => hopen ⟨b, hb, hbk⟩)

/-- conversely the last packet does carry B: when all source bytes are out and every open block is drained,
    a closable transfer flags the packet -/
theorem close_object_on_last {s1 s2 : Enc} {p : Pkt}
    (h : Run P c aL aS nL n true tr s1) (hstep : BlockEnc.read P s1 false = (.pkt p, s2))
    (hall : P.len ≤ s2.srcSent ∧ ∀ b, b ∈ s2.blocks → b.isEmpty = true) : p.closeObject = true := by
  obtain ⟨hI, hT, hcl, hstp⟩ := h.inv
  obtain ⟨h1, h2⟩ := read_spec h.setup h.accepts (tr := pkts tr) false hI hT
  by_cases hs : s1.stopped = true
  · rw [h1 hs] at hstep; cases hstep
  · have hs' : s1.stopped = false := by simpa using hs
    have := h2 hs'
    rw [hstep] at this
    obtain ⟨_, _, e⟩ := this
    exact e.flag_conv hall hcl

/-- forced stop (object removed): the forced call returns at most one packet, it carries B, and every later
    `read` returns `None` -/
theorem forced_stop_single {s1 s2 : Enc} {p : Pkt}
    (h : Run P c aL aS nL n closable tr s1) (hstep : BlockEnc.read P s1 true = (.pkt p, s2)) :
    p.closeObject = true ∧ ∀ f, BlockEnc.read P s2 f = (.none, s2) := by
  have h2 : Run P c aL aS nL n closable (tr ++ [(true, p)]) s2 := by
    obtain ⟨s0, hnew, hr⟩ := h.reads
    exact { h with reads := ⟨s0, hnew, Reads.snoc hr hstep⟩ }
  obtain ⟨hI2, hT2, _, hstp2⟩ := h2.inv
  have hst : s2.stopped = true := hstp2.mpr ⟨(true, p), by simp, rfl⟩
  constructor
  · -- the flag of a forced call
    unfold BlockEnc.read at hstep
    split at hstep
    · cases hstep
    · simp only [if_true] at hstep
      generalize readFuel P _ = fuel at hstep
      generalize hs' : ({ s1 with stopped := true } : Enc) = s' at hstep
      clear hs'
      induction fuel generalizing s' with
      | zero => simp [readLoop] at hstep
      | succ fuel ih =>
        unfold readLoop at hstep
        simp only at hstep
        split at hstep
        · split at hstep
          · split at hstep <;> cases hstep
            rfl
          · cases hstep
        · split at hstep
          · cases hstep
          · split at hstep
            · exact ih _ hstep
            · cases hstep; rfl
  · intro f
    exact (read_spec h2.setup h2.accepts (tr := pkts (tr ++ [(true, p)])) f hI2 hT2).1 hst

/-- `read` terminates, FULL: in every reachable state, forced or not, `BlockEncoder::read` returns a packet or `None`:
    it never spins (every `continue` removes a drained block, blocks opened in between are never drained) and it never
    reaches `debug_assert!(transfer_length == 0)` (blockencoder.rs:81): as long as nothing has been sent every block
    cut so far is still open, so with `window ≥ 1` and every block accepted the window is not empty. -/
theorem read_terminates (h : Run P c aL aS nL n closable tr s) (f : Bool) :
    (BlockEnc.read P s f).1 ≠ .hang ∧ (BlockEnc.read P s f).1 ≠ .panic := by
  obtain ⟨hI, hT, _, _⟩ := h.inv
  exact ⟨Flute.BencTerm.read_no_hang h.setup h.accepts f hI hT, Flute.BencNoPanic.run_no_panic h f⟩

/-- … and exactly the two dropped hypotheses make the `debug_assert` reachable:
    `interleave_blocks = 0` (no block is ever opened), -/
theorem panic_reachable_window_zero :
    (match Enc.new { codec := noCode, e := 2, b := 2, p := 0, window := 0, len := 5 } (.buffer [1, 2, 3, 4, 5]) true with
     | .ok s0 => (BlockEnc.read { codec := noCode, e := 2, b := 2, p := 0, window := 0, len := 5 } s0 false).1
     | .error _ => .none) = .panic := by decide

/-- a codec that refuses the first block (Raptor as it is today: a block of 2 symbols, finding `raptor-k<4`;
    Reed-Solomon with 0 parity before the repair of D21), -/
theorem panic_reachable_block_refused :
    (match Enc.new { codec := raptorLegacy (fun _ _ _ _ => []), e := 4, b := 8, p := 1, window := 1, len := 8 }
        (.buffer (List.range 8)) true with
     | .ok s0 => (BlockEnc.read { codec := raptorLegacy (fun _ _ _ _ => []), e := 4, b := 8, p := 1, window := 1, len := 8 } s0 false).1
     | .error _ => .none) = .panic := by decide

/-- while a codec refusing a LATER block ends the transfer silently before that block (11 bytes, E = 1, B = 4: blocks of
    4, 4, 3 symbols; the third is refused: 10 packets of blocks 0 and 1 only, then `None`) -/
theorem truncated_when_later_block_refused :
    (match Enc.new { codec := raptorLegacy (fun _ _ _ _ => []), e := 1, b := 4, p := 1, window := 1, len := 11 }
        (.buffer (List.range 11)) true with
     | .ok s0 => (runAll { codec := raptorLegacy (fun _ _ _ _ => []), e := 1, b := 4, p := 1, window := 1, len := 11 } 32 s0).map
                   (fun p => p.sbn)
     | .error _ => []) = [0, 0, 0, 0, 0, 1, 1, 1, 1, 1] := by decide

/-! ### the empty object -/

/-- clause (c): an empty object (`L = 0`; `N = 0`, so "every source symbol once" is vacuous) is represented by ONE
    packet - SBN 0, ESI 0, empty payload, B set whatever `closabled_object` is (so in every transfer) - and every
    later `read` returns `None`; for a buffer source when the codec yields no shard for the empty buffer (`Quiet`:
    No-Code, Reed-Solomon - `noCode_quiet`, `reedSolomon_quiet`), for a stream source whatever the codec.
    Forced or not. -/
theorem empty_object_lone_packet (P : Params) (hnl : P.legacy = false) (hl : P.len = 0) (hw : 1 ≤ P.window)
    (closable f : Bool) :
    (Flute.BencEmpty.Quiet P → ∃ s0 s2, Enc.new P (.buffer []) closable = .ok s0 ∧
        BlockEnc.read P s0 f = (.pkt emptyPkt, s2) ∧ ∀ f', (BlockEnc.read P s2 f').1 = .none) ∧
    (∀ st : BlockEnc.Stream, st.bytes = [] → ∃ s0 s2, Enc.new P (.stream st) closable = .ok s0 ∧
        BlockEnc.read P s0 f = (.pkt emptyPkt, s2) ∧ ∀ f', (BlockEnc.read P s2 f').1 = .none) ∧
    emptyPkt.closeObject = true ∧ emptyPkt.payload = [] ∧ (alcFlags emptyPkt).1 = false :=
  ⟨fun hq => Flute.BencEmpty.empty_buffer P hl hw hq closable f,
   fun st hb => Flute.BencEmpty.empty_stream P hnl hl hw st hb closable f, rfl, rfl, rfl⟩

/-- … but NOT for RaptorQ / Raptor from a buffer (finding `empty-object-fec-buffer-vs-stream`): the empty block's
    `parity` repair symbols are sent instead (B on the last one of a closable transfer) -/
theorem empty_object_raptorq_repair_packets :
    (match Enc.new { codec := raptorQ (fun _ _ _ _ => []), e := 4, b := 3, p := 2, window := 2, len := 0 } (.buffer []) true with
     | .ok s0 => (runAll { codec := raptorQ (fun _ _ _ _ => []), e := 4, b := 3, p := 2, window := 2, len := 0 } 8 s0).map
                   (fun p => (p.sbn, p.esi, p.isSource, p.closeObject))
     | .error _ => []) = [(0, 0, false, false), (0, 1, false, true)] := by decide

/-! ### the glue `SenderSession` / `FileDesc` (lemmas for C12) -/

/-- `closabled_object` of a transfer = `FileDesc::is_last_transfer`: no carousel and this is transfer number
    `max_transfer_count` (counting from 1) -/
theorem is_last_transfer_iff (x : Session) :
    x.isLastTransfer = true ↔ x.carousel = false ∧ x.maxtc = x.count + 1 := by
  unfold Session.isLastTransfer
  cases x.carousel <;> simp

/-- a finished transfer is followed by another one iff the object is still in the FDT and
    (`transfer_count < max_transfer_count` or carousel) -/
theorem is_expired_iff (x : Session) :
    x.isExpired = true ↔ x.maxtc ≤ x.count ∧ x.carousel = false := by
  unfold Session.isExpired
  by_cases h : x.maxtc > x.count
  · simp [h]; omega
  · simp [h]; cases x.carousel <;> simp <;> omega

/-- the glue, for ALL sessions over a non-empty buffer object (`SGood`: any `max_transfer_count`, carousel or not, any
    transfer / removal history so far): a packet returned by the session's `read` keeps the session good (its encoder is a
    genuine run of an encoder created with `closabled_object = is_last_transfer`, so every block-encoder theorem above
    applies to it), and if it carries B while the object is still in the FDT (not removed) then this is the LAST transfer
    (no carousel, `transfer_count + 1 = max_transfer_count`) and its last packet (nothing left to cut, window drained). -/
theorem session_close_object_only_last_transfer {x x' : Session} {p : Pkt}
    (hg : Flute.BencSession.SGood c aL aS nL n x) (h : x.read = (.pkt p, x')) :
    Flute.BencSession.SGood c aL aS nL n x' ∧
    (p.closeObject = true → x'.added = true →
      (x'.carousel = false ∧ x'.maxtc = x'.count + 1) ∧
      ∃ e', x'.enc = some e' ∧ e'.sbn = n ∧ e'.readEnd = true ∧ ∀ b, b ∈ e'.blocks → b.isEmpty = true) := by
  obtain ⟨h1, h2⟩ := Flute.BencSession.runLoop_spec 4 x hg p x' h
  refine ⟨h1, fun hB ha => ?_⟩
  obtain ⟨h3, h4⟩ := h2 hB ha
  exact ⟨(is_last_transfer_iff x').mp h3, h4⟩

/-- whole-session run on a concrete object (3 symbols in 2 blocks, RS parity 1, window 2, `max_transfer_count = 3`, no
    carousel): three identical transfers, B only on the last packet of the third -/
theorem session_b_only_in_last_transfer :
    (sessionFlags 40
      { P := { codec := reedSolomon (fun _ _ _ _ => []), e := 2, b := 2, p := 1, window := 2, len := 5 },
        src := .buffer [1, 2, 3, 4, 5], maxtc := 3, carousel := false, allowStop := false }) =
      [false, false, false, false, false, false, false, false, false, false, false, false, false, false, true] := by decide

/-- A flag (close session): never set by the packet builder used by `read` (`new_alc_pkt`), always set by the
    explicit close-session packet (`new_alc_pkt_close_session`) -/
theorem close_session_only_explicit : (∀ p : Pkt, (alcFlags p).1 = false) ∧ closeSessionFlags.1 = true :=
  ⟨fun _ => rfl, rfl⟩

/-! ### the empty object, and non-vacuity -/

def tinyP : Params := { codec := noCode, e := 2, b := 2, p := 0, window := 2, len := 5 }
def tinyObj : Bytes := [1, 2, 3, 4, 5]

/-- non-vacuity: a concrete complete unforced transfer (5 bytes, E = 2, B = 2: blocks of 2 and 1 symbols,
    interleaved) satisfies every hypothesis used above -/
example : ∃ tr s, Run tinyP tinyObj 2 1 1 2 true tr s ∧ (∀ x, x ∈ tr → x.1 = false) ∧
    (BlockEnc.read tinyP s false).1 = .none ∧ (pkts tr).map (fun p => (p.sbn, p.esi, p.payload, p.closeObject)) =
      [(0, 0, [1, 2], false), (1, 0, [5], false), (0, 1, [3, 4], true)] := by
  obtain ⟨s0, h0⟩ : ∃ s0, Enc.new tinyP (.buffer tinyObj) true = .ok s0 := ⟨_, rfl⟩
  refine ⟨(runPairs tinyP 10 s0).1, (runPairs tinyP 10 s0).2, ?_, runPairs_unforced tinyP 10 s0, ?_, ?_⟩
  · refine ⟨rfl, by decide, by decide, rfl, by decide, by decide, rfl, ?_, ⟨s0, h0, reads_runPairs tinyP 10 s0⟩⟩
    exact accepts_of_total ⟨rfl, by decide, rfl, by decide,
      good_of_partition 2 5 2 2 1 1 2 (by decide) (by decide) (by decide) rfl⟩ (fun _ _ _ => rfl)
  · cases h0; rfl
  · cases h0; rfl

/-! ### D3: negation witness on the model of the code BEFORE the repair, and the same input after it -/

def d3P (legacy : Bool) : Params :=
  { codec := reedSolomon (fun _ _ _ _ => []), e := 4, b := 3, p := 2, window := 2, len := 20, legacy := legacy }

def d3Flags (legacy : Bool) : List (Nat × Nat × Bool) :=
  match Enc.new (d3P legacy) (.buffer (List.range 20)) true with
  | .ok s0 => (runAll (d3P legacy) 32 s0).map (fun p => (p.sbn, p.esi, p.closeObject))
  | .error _ => []

/-- before the repair: 5 symbols, B = 3, parity 2, window 2 (blocks of 3 and 2 symbols interleaved): B is set on
    packets 8 AND 9 of 9 - on (1,3), the last symbol of block 1, while block 0 still holds its repair symbol (0,4) -/
theorem d3_legacy_flag_before_last :
    d3Flags true = [(0,0,false), (1,0,false), (0,1,false), (1,1,false), (0,2,false), (1,2,false), (0,3,false),
                    (1,3,true), (0,4,true)] := by decide

/-- after the repair: B on the last packet only -/
theorem d3_repaired_flag_last_only :
    d3Flags false = [(0,0,false), (1,0,false), (0,1,false), (1,1,false), (0,2,false), (1,2,false), (0,3,false),
                     (1,3,false), (0,4,true)] := by decide

end Flute.Props.C08
