/-
  C15 - TOI allocation: non-zero, within the configured width, unique while live, wire-exact,
  reusable only after release; for every TOI width, every initial value (incl. the random default:
  `cfg = none`, `rnd` arbitrary) and every history of operations.

  Model: `FluteModel/Toi.lean` (allocator + who holds a handle), `FluteModel/ToiWire.lean` (TOI field
  of the LCT header).  All theorems are about the code after the repair of D5 (ToiMax112 masked);
  `d5_*` below state what was wrong before.  The last clause of C15 (`Toi`, `Sender` are Send + Sync)
  is checked by rustc when `harness/engines/toi` compiles; there is no theorem for it.
-/
import FluteModel.Lemmas.Toi
import FluteModel.Lemmas.ToiSys
import FluteModel.Lemmas.ToiWire
import FluteModel.Lemmas.ToiLct
import Std.Data.String.ToNat
namespace Flute.Props.C15
open Flute Flute.Toi

/-- **Invariant** after every history: the next candidate is non-zero, inside the width and not
    reserved; 0 is never reserved; every reserved value is inside the width; no duplicates; and the
    reserved set is exactly the multiset of TOIs held by live handles and live objects. -/
theorem invariant (w : Width) (cfg : Option Nat) (rnd : Nat) (ops : List Op) (s : Sys) (evs : List Ev)
    (h : Reaches w cfg rnd ops s evs) :
    s.alloc.next ≠ 0 ∧ s.alloc.next < 2 ^ w.bits ∧ s.alloc.next ∉ s.alloc.reserved ∧
      0 ∉ s.alloc.reserved ∧ (∀ r ∈ s.alloc.reserved, r < 2 ^ w.bits) ∧ s.alloc.reserved.Nodup ∧
      List.Perm s.live s.alloc.reserved := by
  obtain ⟨hi, hw, _, _⟩ := reaches_good h
  have a := hi.alloc
  have h1 := a.next_lt
  have h2 := a.res_lt
  rw [hw] at h1 h2
  exact ⟨a.next_ne, h1, a.next_free, a.zero_free, h2, a.nodup, hi.perm⟩

/-- No history makes the allocator panic: the `assert!` of `allocate`, the `debug_assert!` of
    `release` and the checked `toi + 1` never fire. -/
theorem no_panic (w : Width) (cfg : Option Nat) (rnd : Nat) (ops : List Op) (e : String) :
    (Sys.init w (initValue cfg rnd)).exec ops ≠ .panic e :=
  (exec_good ops _ (init_inv w (initValue cfg rnd))).no_panic e

/-- **allocate_fresh** - a TOI returned by `Sender::allocate_toi` after any history is non-zero, fits
    the configured width, and differs from every TOI that is live (reserved handle or live object). -/
theorem allocate_fresh (w : Width) (cfg : Option Nat) (rnd : Nat) (ops : List Op) (s : Sys) (evs : List Ev)
    (hr : Reaches w cfg rnd ops s evs) (h v : Nat) (s' : Sys) (evs' : List Ev)
    (hs : s.step (.alloc h) = .ok (s', .toi v, evs')) :
    v ≠ 0 ∧ v < 2 ^ w.bits ∧ v ∉ s.live := by
  obtain ⟨hi, hw, _, _⟩ := reaches_good hr
  obtain ⟨_, _, hf, _, hrange⟩ := (step_good hi (.alloc h)).ok _ _ _ hs
  rw [alloc_events hs] at hf hrange
  simp only [EvsFresh] at hf
  have := hrange v (by simp)
  rw [hw] at this
  exact ⟨hf.2.1, this, hf.1⟩

/-- the same for the TOI allocated implicitly by `add_object` (object without TOI) -/
theorem add_object_fresh (w : Width) (cfg : Option Nat) (rnd : Nat) (ops : List Op) (s : Sys) (evs : List Ev)
    (hr : Reaches w cfg rnd ops s evs) (k v : Nat) (b car : Bool) (s' : Sys) (evs' : List Ev)
    (hs : s.step (.add k b car) = .ok (s', .toi v, evs')) :
    v ≠ 0 ∧ v < 2 ^ w.bits ∧ v ∉ s.live := by
  obtain ⟨hi, hw, _, _⟩ := reaches_good hr
  obtain ⟨_, _, hf, _, hrange⟩ := (step_good hi (.add k b car)).ok _ _ _ hs
  rw [add_events hs] at hf hrange
  simp only [EvsFresh] at hf
  have := hrange v (by simp)
  rw [hw] at this
  exact ⟨hf.2.1, this, hf.1⟩

/-- every allocation anywhere in any history (also the one of a refused `add_object`) is non-zero
    and inside the width -/
theorem allocated_in_range (w : Width) (cfg : Option Nat) (rnd : Nat) (ops : List Op) (s : Sys)
    (evs : List Ev) (hr : Reaches w cfg rnd ops s evs) (v : Nat) (hv : Ev.allocated v ∈ evs) :
    v ≠ 0 ∧ v < 2 ^ w.bits := by
  obtain ⟨_, _, hf, hrange⟩ := reaches_good hr
  refine ⟨?_, hrange v hv⟩
  obtain ⟨pre, post, rfl⟩ := List.append_of_mem hv
  rw [evsFresh_append] at hf
  exact hf.2.2.1

/-- **live_unique** - after any history no two live holders (reserved handles, objects whose
    FileDesc is alive) share a TOI, no live TOI is 0, and all fit the width. -/
theorem live_unique (w : Width) (cfg : Option Nat) (rnd : Nat) (ops : List Op) (s : Sys) (evs : List Ev)
    (hr : Reaches w cfg rnd ops s evs) :
    s.live.Nodup ∧ 0 ∉ s.live ∧ ∀ v ∈ s.live, v < 2 ^ w.bits := by
  obtain ⟨hi, hw, _, _⟩ := reaches_good hr
  have h2 := hi.alloc.res_lt
  rw [hw] at h2
  exact ⟨hi.nodup, fun h => hi.alloc.zero_free (hi.perm.mem_iff.1 h),
    fun v hv => h2 v (hi.perm.mem_iff.1 hv)⟩

/-- **reuse_only_after_release** - if a value is allocated twice in a history, it was released
    (handle dropped / object's FileDesc dropped) in between. -/
theorem reuse_only_after_release (w : Width) (cfg : Option Nat) (rnd : Nat) (ops : List Op) (s : Sys)
    (pre mid post : List Ev) (v : Nat)
    (hr : Reaches w cfg rnd ops s (pre ++ Ev.allocated v :: (mid ++ Ev.allocated v :: post))) :
    Ev.released v ∈ mid :=
  release_between [] pre mid post v (reaches_good hr).2.2.1

/-- **allocate_terminates** - `allocate_toi` (and the implicit allocation of `add_object`) returns
    whenever at least one non-zero value of the width stays free after this allocation, i.e.
    `|live| < 2^w - 2`. -/
theorem allocate_terminates (w : Width) (cfg : Option Nat) (rnd : Nat) (ops : List Op) (s : Sys) (evs : List Ev)
    (hr : Reaches w cfg rnd ops s evs) (hfree : s.live.length + 2 < 2 ^ w.bits) (h k : Nat) (b car : Bool) :
    s.step (.alloc h) ≠ .hang ∧ s.step (.add k b car) ≠ .hang := by
  obtain ⟨hi, hw, _, _⟩ := reaches_good hr
  have hlen : s.alloc.reserved.length + 2 < s.alloc.w.modulus := by
    rw [← hi.perm.length_eq, hw]; exact hfree
  obtain ⟨v, a, ha⟩ := allocate_returns hi.alloc hlen
  have h4 := (allocate_ok hi.alloc ha).2.2.2
  have hp2 : List.Perm (v :: s.live) a.reserved := by
    rw [(allocate_ok hi.alloc ha).2.1]; exact List.Perm.cons v hi.perm
  obtain ⟨a2, hrel, _⟩ := releaseToi_ok (s := { s with alloc := a }) (L := s.live) h4 hp2
  constructor
  · simp only [Sys.step]
    split
    · intro h; cases h
    · rw [ha]; intro h; cases h
  · simp only [Sys.step]
    split
    · intro h; cases h
    · rw [ha]
      cases b with
      | true => simp
      | false => simp only [Bool.false_eq_true, ↓reduceIte, hrel]; intro h; cases h

/-- **D19 (finding)** - the bound of `allocate_terminates` is sharp: in every reachable state in
    which exactly one non-zero value of the width is still free (`|live| = 2^w - 2`), the call that
    takes it never returns: the skip loop `loop { … }` of `allocate` finds no free candidate. -/
theorem allocate_hangs_on_last_free (w : Width) (cfg : Option Nat) (rnd : Nat) (ops : List Op) (s : Sys)
    (evs : List Ev) (hr : Reaches w cfg rnd ops s evs) (hfull : s.live.length + 2 = 2 ^ w.bits)
    (h : Nat) (hname : s.handles.find? h = none) :
    s.step (.alloc h) = .hang := by
  obtain ⟨hi, hw, _, _⟩ := reaches_good hr
  have hlen : s.alloc.reserved.length + 2 = s.alloc.w.modulus := by
    rw [← hi.perm.length_eq, hw]; exact hfull
  simp only [Sys.step, hname, allocate_hangs hi.alloc hlen]

/-- **allocate_ok_iff** - the three theorems above in one: after any history `allocate_toi` returns a
    TOI **iff** at least one non-zero value of the width stays free after this allocation
    (`h` = a fresh name for the new handle, harness bookkeeping). -/
theorem allocate_ok_iff (w : Width) (cfg : Option Nat) (rnd : Nat) (ops : List Op) (s : Sys) (evs : List Ev)
    (hr : Reaches w cfg rnd ops s evs) (h : Nat) (hname : s.handles.find? h = none) :
    (∃ v s' e, s.step (.alloc h) = .ok (s', .toi v, e)) ↔ s.live.length + 2 < 2 ^ w.bits := by
  obtain ⟨hi, hw, _, _⟩ := reaches_good hr
  have a := hi.alloc
  have hle : s.live.length + 2 ≤ 2 ^ w.bits := by
    have := nodup_length_le s.alloc.w.modulus (s.alloc.next :: s.alloc.reserved)
      (List.nodup_cons.2 ⟨a.next_free, a.nodup⟩) (by
        intro x hx
        simp only [List.mem_cons] at hx
        rcases hx with rfl | hx
        · have := a.next_ne; have := a.next_lt; omega
        · have := a.res_lt x hx
          have : x ≠ 0 := fun e => a.zero_free (e ▸ hx)
          omega)
    have hm := s.alloc.w.modulus_ge
    rw [hi.perm.length_eq]
    simp only [List.length_cons] at this
    rw [hw] at this hm
    show s.alloc.reserved.length + 2 ≤ w.modulus
    omega
  constructor
  · intro ⟨v, s', e, hs⟩
    refine Classical.byContradiction fun hn => ?_
    have hfull : s.live.length + 2 = 2 ^ w.bits := by omega
    rw [allocate_hangs_on_last_free w cfg rnd ops s evs hr hfull h hname] at hs
    cases hs
  · intro hfree
    have hlen : s.alloc.reserved.length + 2 < s.alloc.w.modulus := by
      rw [← hi.perm.length_eq, hw]; exact hfree
    obtain ⟨v, a', ha⟩ := allocate_returns hi.alloc hlen
    have hs : s.step (.alloc h) =
        .ok ({ s with alloc := a', handles := (h, v) :: s.handles }, .toi v, [.allocated v]) := by
      simp only [Sys.step, hname, ha]
    exact ⟨v, _, _, hs⟩

/-! ### wire -/

/-- **wire_exact** (header level) - for every TOI below 2^112 and every TSI (the H flag is shared
    with the TSI), the TOI field written by `push_lct_header` has `4·O + 2·H` bytes and
    `parse_lct_header` reads back exactly the TOI. -/
theorem wire_exact (toi tsi : Nat) (h : toi < 2 ^ 112) :
    ToiWire.decode (ToiWire.encode toi tsi) = toi ∧
      (ToiWire.encode toi tsi).bytes.length = 4 * (ToiWire.encode toi tsi).o + 2 * (ToiWire.encode toi tsi).h :=
  ToiWire.roundtrip_full toi tsi h

/-- **wire_exact** (allocated TOIs) - every live TOI of every reachable state, whatever the width
    and the start value, is read back from the LCT header exactly (it is `< 2^w ≤ 2^112`). -/
theorem wire_exact_live (w : Width) (cfg : Option Nat) (rnd : Nat) (ops : List Op) (s : Sys) (evs : List Ev)
    (hr : Reaches w cfg rnd ops s evs) (v : Nat) (hv : v ∈ s.live) (tsi : Nat) :
    ToiWire.decode (ToiWire.encode v tsi) = v :=
  (wire_exact v tsi (Nat.lt_of_lt_of_le ((live_unique w cfg rnd ops s evs hr).2.2 v hv)
    w.modulus_le)).1

/-- … and so is every TOI at the moment it is allocated -/
theorem wire_exact_allocated (w : Width) (cfg : Option Nat) (rnd : Nat) (ops : List Op) (s : Sys)
    (evs : List Ev) (hr : Reaches w cfg rnd ops s evs) (v : Nat) (hv : Ev.allocated v ∈ evs) (tsi : Nat) :
    ToiWire.decode (ToiWire.encode v tsi) = v :=
  (wire_exact v tsi (Nat.lt_of_lt_of_le (allocated_in_range w cfg rnd ops s evs hr v hv).2
    w.modulus_le)).1

/-- **Link to the C06 model** (`FluteModel/Lct.lean`, the whole `push_lct_header` / `parse_lct_header`):
    for every PSI, CCI, codepoint, close flags, TSI < 2^48 and TOI < 2^112, in the header the C06 model
    builds (a) byte 1 carries the O and H flags of the C15 field model, (b) the header ends with the
    C15 model's field bytes, and (c) the C06 parser, whatever follows the header, returns that TOI,
    which is also what the C15 `decode` returns, and the field sits right before `header_ext_offset`.
    So `ToiWire.encode/decode` is the TOI part of `Lct.pushLctHeader/parseLctHeader`, not a second opinion. -/
theorem toiwire_is_lct_toi_field (psi cci tsi toi cp : Nat) (co cs : Bool) (rest : List Nat)
    (hpsi : psi < 4) (hcp : cp < 256) (hcci : cci < 2 ^ 128) (htsi : tsi < 2 ^ 48) (htoi : toi < 2 ^ 112) :
    let hdr := Lct.pushLctHeader psi cci tsi toi cp co cs
    let f := ToiWire.encode toi tsi
    (∃ b, hdr[1]? = some b ∧ b / 32 % 4 = f.o ∧ b / 16 % 2 = f.h) ∧
    hdr.drop (hdr.length - f.bytes.length) = f.bytes ∧
    (∃ p, Lct.parseLctHeader (hdr ++ rest) = .ok p ∧ p.toi = toi ∧ p.toi = ToiWire.decode f ∧
        p.headerExtOffset = hdr.length ∧
        hdr.drop (p.headerExtOffset - (4 * f.o + 2 * f.h)) = f.bytes) :=
  ToiWire.encode_is_lct_toi_field psi cci tsi toi cp co cs rest hpsi hcp hcci htsi htoi

/-- **wire_exact, composed with the C06 header model**: every TOI that is live after any history, for
    any width and start value, put into a packet header by the C06 model of `push_lct_header` (any PSI,
    CCI, codepoint, flags, TSI < 2^48, followed by anything), is returned by the C06 model of
    `parse_lct_header`. -/
theorem wire_exact_lct (w : Width) (cfg : Option Nat) (rnd : Nat) (ops : List Op) (s : Sys) (evs : List Ev)
    (hr : Reaches w cfg rnd ops s evs) (v : Nat) (hv : v ∈ s.live)
    (psi cci tsi cp : Nat) (co cs : Bool) (rest : List Nat)
    (hpsi : psi < 4) (hcp : cp < 256) (hcci : cci < 2 ^ 128) (htsi : tsi < 2 ^ 48) :
    ∃ p, Lct.parseLctHeader (Lct.pushLctHeader psi cci tsi v cp co cs ++ rest) = .ok p ∧ p.toi = v := by
  have hv112 : v < 2 ^ 112 :=
    Nat.lt_of_lt_of_le ((live_unique w cfg rnd ops s evs hr).2.2 v hv) w.modulus_le
  obtain ⟨_, _, p, hp, ht, _⟩ :=
    ToiWire.encode_is_lct_toi_field psi cci tsi v cp co cs rest hpsi hcp hcci htsi hv112
  exact ⟨p, hp, ht⟩

/-- The bound 2^112 of `wire_exact` is sharp: a 113-bit TOI is truncated (`nb_bytes_128 = 16`,
    `O = (16 >> 2) & 3 = 0`), which is why the allocator has to mask to 112 bits. -/
theorem wire_truncates_above_112 :
    ToiWire.decode (ToiWire.encode (2 ^ 112 + 5) 1) = 5 ∧
      ToiWire.decode (ToiWire.encode (2 ^ 112 + 5) 65536) = 0 := by
  constructor <;> decide

/-- the FDT lists only TOIs of live objects (the `TOI` attribute is `FileDesc.toi`, the value of the
    handle stored in the object; its decimal rendering is validated by the correspondence run) -/
theorem fdt_entries_are_object_tois (s : Sys) (v : Nat) (hv : v ∈ s.fdtTois) : v ∈ s.objs.tois := by
  unfold Sys.fdtTois at hv
  split at hv
  · split at hv
    · exact hv
    · exact Tab.del_subset _ _ _ hv
  · exact hv

/-- the `TOI="…"` attribute is the decimal rendering of the TOI (`self.toi.to_string()`); decimal
    rendering loses nothing: reading it back gives the TOI (Lean's `Nat.repr`/`String.toNat?` stand for
    Rust's `u128::to_string`/`str::parse`; that the real XML carries this string is checked by the run) -/
theorem fdt_attribute_decimal_exact (v : Nat) : (toString v).toNat? = some v :=
  Nat.toNat?_repr v

/-! ### D5 (repaired): what the unmasked `ToiMax112` did -/

/-- before the repair a start value above 2^112 (e.g. the random default) was kept as it is … -/
theorem d5_unmasked_exceeds_width : toMaxLengthUnmasked112 (2 ^ 112 + 5) .w112 = 2 ^ 112 + 5 := by
  decide

/-- … so the TOI on the wire differed from the allocated TOI (negation of wire-exactness) … -/
theorem d5_unmasked_not_wire_exact :
    ToiWire.decode (ToiWire.encode (toMaxLengthUnmasked112 (2 ^ 112 + 5) .w112) 1)
      ≠ toMaxLengthUnmasked112 (2 ^ 112 + 5) .w112 := by
  decide

/-- … while the repaired function keeps every value inside the width, for all six widths -/
theorem d5_masked (v : Nat) (w : Width) : toMaxLength v w < 2 ^ w.bits ∧ toMaxLength v w < 2 ^ 112 := by
  have h1 := w.modulus_ge
  have h2 : v % w.modulus < w.modulus := Nat.mod_lt _ (by omega)
  exact ⟨h2, Nat.lt_of_lt_of_le h2 w.modulus_le⟩

/-! ### finding toi-1 (repaired): a handle of another sender -/

/-- Before the repair `add_object` accepted an object carrying a `Toi` of ANOTHER sender without
    looking at it (`Sys.addForeignUnchecked`: the object is live, this allocator knows nothing).
    Witness, default configuration of both senders (start 1): the next `add_object` without TOI returns
    the same TOI 1 - two live objects share a TOI, uniqueness is false.  (Replayed on the real
    pre-repair code: dev profile `debug_assert!` fdt.rs, release profile two objects with TOI 1.) -/
theorem foreign_unchecked_breaks_uniqueness :
    ∃ s' evs, ((Sys.init .w112 (initValue (some 1) 0)).addForeignUnchecked 7 1).step (.add 8 true false)
        = .ok (s', .toi 1, evs) ∧ s'.live = [1, 1] ∧ ¬ s'.live.Nodup :=
  ⟨_, _, rfl, rfl, by decide⟩

/-- Since the repair such an `add_object` is refused before anything is allocated (`Op.addEarlyErr`,
    also: unknown priority queue, FDT complete): the state is unchanged, in particular no TOI is
    consumed - and every theorem above quantifies over histories that contain such calls. -/
theorem add_refused_early_changes_nothing (s : Sys) (k : Nat) :
    s.step (.addEarlyErr k) = .ok (s, .err, []) := rfl

/-! ### D19: the excluded case is reachable -/

/-- For every width there is a history (2^w − 2 calls of `allocate_toi`, all handles kept) after
    which the next `allocate_toi` never returns. -/
theorem exhaustion_reachable (w : Width) :
    ∃ ops s evs h, Reaches w (some 1) 0 ops s evs ∧ s.live.length + 2 = 2 ^ w.bits ∧
      s.step (.alloc h) = .hang := by
  have hm := w.modulus_ge
  obtain ⟨s, evs, he, _, _, hl, hn⟩ := exec_allocs (w.modulus - 2) 0 (Sys.init w (initValue (some 1) 0))
    (init_inv w _) (by intro j _; rfl) (by simp [Sys.init, Sys.live, Tab.tois, new]; omega)
  have hlen : s.live.length + 2 = 2 ^ w.bits := by
    rw [hl]; simp only [Sys.init, Sys.live, Tab.tois, List.map_nil, List.append_nil, List.length_nil]
    show 0 + (w.modulus - 2) + 2 = w.modulus
    omega
  exact ⟨_, s, evs, w.modulus - 2, he, hlen,
    allocate_hangs_on_last_free w (some 1) 0 _ s evs he hlen _ (hn _ (by omega))⟩

/-! ### non-vacuity: concrete histories -/

/-- 16 bit, start at max−1: wrap-around skips 0; a removed object keeps its TOI until its transfer
    is over; a dropped handle's TOI is the only one that may come back -/
example : ∃ s evs, Reaches .w16 (some 65534) 0
      [.alloc 1, .alloc 2, .alloc 3, .add 7 true false, .drop 2, .start 7, .remove 7, .add 8 false false, .drain] s evs ∧
    evs = [.allocated 65534, .allocated 65535, .allocated 1, .allocated 2, .released 65535,
           .allocated 3, .released 3, .released 2] ∧
    s.live = [1, 65534] ∧ s.alloc.next = 4 :=
  ⟨_, _, rfl, rfl, rfl, rfl⟩

/-- a carousel object survives its transfers: its TOI stays live (and is skipped) until it is removed -/
example : ∃ s evs, Reaches .w16 (some 65535) 0
      [.add 1 true true, .start 1, .drain, .alloc 2, .start 1, .drain, .addEarlyErr 9, .remove 1] s evs ∧
    evs = [.allocated 65535, .allocated 1, .released 65535] ∧ s.live = [1] ∧ s.alloc.next = 2 :=
  ⟨_, _, rfl, rfl, rfl, rfl⟩

/-- start value 0 → 1; a start value above the width is masked (2^16 + 7 → 7); the random default
    (`none`) with a 128-bit draw is masked to the width -/
example : (Sys.init .w16 (initValue (some 0) 0)).alloc.next = 1 ∧
    (Sys.init .w16 (initValue (some (2 ^ 16 + 7)) 0)).alloc.next = 7 ∧
    (Sys.init .w16 (initValue (some (2 ^ 16)) 0)).alloc.next = 1 ∧
    (Sys.init .w112 (initValue none (2 ^ 128 - 1))).alloc.next = 2 ^ 112 - 1 := by decide

/-- 112 bit from the last value: wraps to 1 (before the repair: 2^112, 2^112+1, …) -/
example : ∃ s evs, Reaches .w112 none (2 ^ 128 - 1) [.alloc 1, .alloc 2] s evs ∧
    evs = [.allocated (2 ^ 112 - 1), .allocated 1] :=
  ⟨_, _, rfl, rfl⟩

/-- `reuse_only_after_release` is not vacuous: traces that allocate a value again after its release
    satisfy the freshness discipline (an actual re-allocation needs a full turn of the circle, 2^16 − 1
    allocations at least; the correspondence run does it on the real code and the compiled model) -/
example : EvsFresh [] ([] ++ Ev.allocated 5 :: ([Ev.released 5] ++ Ev.allocated 5 :: [])) := by
  simp [EvsFresh]

/-- the skip loop is exercised: with 2 (just taken), 3 and 1 live, the allocator returns 2 and moves on to 4 -/
example : (match allocate { reserved := [3, 1], next := 2, w := .w16 } with
    | .ok (v, s) => v == 2 && s.next == 4 && s.reserved == [2, 3, 1]
    | _ => false) = true := by decide

/-- the wire theorem's hypothesis is met by every width's largest value -/
example : ToiWire.encode (2 ^ 112 - 1) 1 =
    { o := 3, h := 1, bytes := List.replicate 14 255 } := by decide

end Flute.Props.C15
