/-
  Link of `FdtAbs` (agent fdtabs: `maxTransferLength`, `rsRefused`, `effectiveOti`, `setZ`, `add`) to the reference
  admission model `FluteModel/Admission.lean`.  Separate from `Props/AdmissionLink.lean` because it has to follow every
  edit of `FdtAbs.lean`.
-/
import FluteModel.Props.AdmissionLink
import FluteModel.FdtAbs
import FluteModel.Lemmas.XmlTok
namespace Flute.Props.C01.Admission
open Flute Flute.Admission

def toFScheme : SchemeSpecific → FdtAbs.Scheme
  | .reedSolomon m g => .rs2m m g
  | .raptorq z n al => .raptorq z n al
  | .raptor z n al => .raptor z n al

/-- the same OTI in `FdtAbs`' representation (encoding id as a number) -/
def toF (o : Oti) : FdtAbs.Oti :=
  { enc := o.fec.id, inst := o.inst, maxSbl := o.maxSbl, esl := o.esl, parity := o.parity,
    scheme := o.scheme.map toFScheme }

private theorem relRs_refl {α : Type} (x : Rs α) : relRs (fun a b => a = b) x x := by
  cases x <;> simp [relRs]

private theorem satMul64_link (a b : Nat) : FdtAbs.satMul64 a b = satMul64 a b := rfl

/-- `FdtAbs.maxTransferLength` = the reference's (saturating products, same caps; both `todo!()` for RS GF(2^m)) -/
theorem maxTransferLength_link (o : Oti) :
    relRs (fun a b => a = b) (maxTransferLength o) (FdtAbs.maxTransferLength (toF o)) := by
  obtain ⟨fec, inst, maxSbl, esl, parity, scheme⟩ := o
  cases fec <;>
    simp only [maxTransferLength, FdtAbs.maxTransferLength, toF, Fec.id, maxSourceBlocksNumber, lengthCap,
      Nat.reduceEqDiff, ↓reduceIte, reduceCtorEq, satMul64_link, relRs] <;>
    first
    | trivial
    | exact ite_congr rfl (fun _ => rfl) (fun _ => rfl)

/-- `FileDesc::new`'s answer in `FdtAbs.effectiveOti`'s encoding: `none` = `Err` -/
def outF : Except Refuse Oti → Option FdtAbs.Oti
  | .error _ => none
  | .ok o => some (toF o)

theorem setZ_link (o : Oti) (nb : Nat) : toF (setZ o nb) = FdtAbs.setZ (toF o) (max nb 1) := by
  obtain ⟨fec, inst, maxSbl, esl, parity, scheme⟩ := o
  cases fec <;> cases scheme with
  | none => simp [setZ, FdtAbs.setZ, toF, Fec.id]
  | some sc => cases sc <;> simp [setZ, FdtAbs.setZ, toF, Fec.id, toFScheme]

/-- `FdtAbs.effectiveOti` after the transfer-length check -/
def tailF (o : FdtAbs.Oti) (L : Nat) : Rs (Option FdtAbs.Oti) :=
  match FdtAbs.rsRefused o L with
  | .error w => .error w
  | .ok true => .ok none
  | .ok false =>
  if o.enc = 6 ∨ o.enc = 1 then
    match Partition.blockPartitioning o.maxSbl L o.esl with
    | .error w => .error w
    | .ok q =>
      if q.1 > FdtAbs.kMax o.enc then .ok none
      else if FdtAbs.raptorSmallBlock o.enc q then .ok none
      else if o.scheme.isNone then .ok none
      else if (o.enc = 6 ∧ q.2.2.2 > 255) ∨ (o.enc = 1 ∧ q.2.2.2 > 65535) then .ok none
      else .ok (some (FdtAbs.setZ o (max q.2.2.2 1)))
  else .ok (some o)

private theorem setZ_link_raptor (inst maxSbl esl parity : Nat) (scheme : Option SchemeSpecific) (nb : Nat) :
    FdtAbs.setZ { enc := 1, inst := inst, maxSbl := maxSbl, esl := esl, parity := parity,
                  scheme := Option.map toFScheme scheme } (max nb 1) =
      toF (setZ ⟨.raptor, inst, maxSbl, esl, parity, scheme⟩ nb) :=
  (setZ_link ⟨.raptor, inst, maxSbl, esl, parity, scheme⟩ nb).symm

private theorem setZ_link_raptorq (inst maxSbl esl parity : Nat) (scheme : Option SchemeSpecific) (nb : Nat) :
    FdtAbs.setZ { enc := 6, inst := inst, maxSbl := maxSbl, esl := esl, parity := parity,
                  scheme := Option.map toFScheme scheme } (max nb 1) =
      toF (setZ ⟨.raptorq, inst, maxSbl, esl, parity, scheme⟩ nb) :=
  (setZ_link ⟨.raptorq, inst, maxSbl, esl, parity, scheme⟩ nb).symm

private theorem tail_link (oti : Oti) (L : Nat) :
    toOpt (tailF (toF oti) L) = (toOpt (fileDescTail oti L)).map outF := by
  obtain ⟨fec, inst, maxSbl, esl, parity, scheme⟩ := oti
  rw [fileDescTail_eq]
  cases fec <;>
    simp only [tailF, rsChecks, raptorTail, FdtAbs.rsRefused, FdtAbs.raptorSmallBlock, toF, Fec.id, FdtAbs.kMax,
      maxBlockSymbols, reduceCtorEq, or_self, false_or, or_false, or_true, false_and, true_and, ↓reduceIte,
      Nat.reduceEqDiff, decide_false, decide_true, Bool.false_and, Bool.true_and, Bool.false_eq_true]
  case rs28 =>
    by_cases hp : parity = 0
    · simp [hp, toOpt, outF]
    by_cases hf : maxSbl + parity > 255
    · simp [hp, hf, toOpt, outF]
    cases Partition.blockPartitioning maxSbl L esl with
    | error w => simp [hp, hf, toOpt, outF]
    | ok q => by_cases hk : q.1 + parity > 255 <;> simp [hp, hf, hk, toOpt, outF, toF, Fec.id]
  case rs28us =>
    by_cases hp : parity = 0
    · simp [hp, toOpt, outF]
    by_cases hf : maxSbl + parity > 65535
    · simp [hp, hf, toOpt, outF]
    cases Partition.blockPartitioning maxSbl L esl with
    | error w => simp [hp, hf, toOpt, outF]
    | ok q => by_cases hk : q.1 + parity > 255 <;> simp [hp, hf, hk, toOpt, outF, toF, Fec.id]
  all_goals
    cases Partition.blockPartitioning maxSbl L esl with
    | error w =>
      (try simp only [apply_ite toOpt, apply_ite (Option.map outF)])
      (repeat' split) <;> simp_all [toOpt, outF, toF, Fec.id]
    | ok q =>
      (try simp only [setZ_link_raptor, setZ_link_raptorq])
      (try simp only [apply_ite toOpt, apply_ite (Option.map outF)])
      (repeat' split) <;> simp_all [toOpt, outF, toF, Fec.id] <;> omega

/-- **`FdtAbs.effectiveOti` = `Admission.fileDescNew`** for every default OTI, override, transfer length:
    same panics (none is left on this path), `Err` where the reference refuses (whatever the reason), and the
    same effective OTI (Z included) where it accepts. -/
theorem effectiveOti_link (dflt : Oti) (ovr : Option Oti) (a : FdtAbs.ObjAttrs) (ha : a.oti = ovr.map toF) :
    toOpt (FdtAbs.effectiveOti (toF dflt) a) =
      (toOpt (fileDescNew dflt ovr a.transferLength)).map outF := by
  have hget : a.oti.getD (toF dflt) = toF (chosen dflt ovr) := by
    rw [ha]; cases ovr <;> rfl
  rw [fileDescNew_eq]
  unfold FdtAbs.effectiveOti
  simp only [hget]
  generalize chosen dflt ovr = oti
  have henc : (toF oti).enc = 2 ↔ oti.fec = .rs2m := by
    obtain ⟨fec, inst, maxSbl, esl, parity, scheme⟩ := oti
    cases fec <;> simp [toF, Fec.id]
  by_cases h2m : oti.fec = .rs2m
  · simp [henc.2 h2m, h2m, toOpt, outF]
  have h2m' : ¬ (toF oti).enc = 2 := fun h => h2m (henc.1 h)
  simp only [h2m, h2m', ↓reduceIte]
  have hm := maxTransferLength_link oti
  cases h1 : maxTransferLength oti with
  | error w =>
    rw [h1] at hm
    cases h2 : FdtAbs.maxTransferLength (toF oti) with
    | error w2 => simp [toOpt]
    | ok v => rw [h2] at hm; simp [relRs] at hm
  | ok mtl =>
    rw [h1] at hm
    cases h2 : FdtAbs.maxTransferLength (toF oti) with
    | error w2 => rw [h2] at hm; simp [relRs] at hm
    | ok v =>
      rw [h2] at hm
      simp only [relRs] at hm
      subst hm
      simp only []
      by_cases hL : a.transferLength > mtl
      · simp [hL, toOpt, outF]
      · simp only [hL, ↓reduceIte]
        exact tail_link oti a.transferLength

/-- the object `FdtAbs` describes, in the reference's terms (`cp` = the code points of a string token) -/
def objOf (cp : String → List Nat) (a : FdtAbs.ObjAttrs) (ovr : Option Oti) : Obj :=
  { transferLength := a.transferLength, oti := ovr, location := cp a.location, contentType := cp a.contentType,
    md5 := a.md5.map cp, etag := a.etag.map cp, groups := a.groups.map (fun gs => gs.map cp), toi := .none }

theorem attrsXmlOk_link (ok : String → Bool) (cp : String → List Nat) (hx : ∀ str, ok str = isXmlStr (cp str))
    (a : FdtAbs.ObjAttrs) (ovr : Option Oti) : FdtAbs.attrsXmlOk ok a = metaOk (objOf cp a ovr) := by
  have hok : ok = fun x => isXmlStr (cp x) := funext hx
  unfold FdtAbs.attrsXmlOk metaOk objOf
  cases a.md5 <;> cases a.etag <;> cases a.groups <;>
    simp [hok, Option.all, List.all_map, Function.comp_def]

/-- **`FdtAbs.add` agrees with the reference** on its domain (existing priority queue, object without TOI
    handle; `xmlOk` = `is_xml_str` on the token's code points): it panics iff the reference panics, answers
    `err` iff the reference refuses - and then lists nothing new -, and where the reference accepts the new
    file carries the reference's OTI.  It takes a TOI exactly when the reference says one is consumed. -/
theorem fdtabs_add_link (s : FdtAbs.State) (a : FdtAbs.ObjAttrs) (cp : String → List Nat)
    (hx : ∀ str, s.cfg.xmlOk str = isXmlStr (cp str))
    (dflt : Oti) (hd : s.cfg.oti = toF dflt) (ovr : Option Oti) (ha : a.oti = ovr.map toF)
    (prio : Nat) (queues : List Nat) (hq : prio ∈ queues) :
    let cfg : Cfg := { queues := queues, complete := decide (s.complete = some true), oti := dflt }
    let obj := objOf cp a ovr
    (match accepts cfg prio obj with
     | .error _ => (FdtAbs.add s a).2 = .panic
     | .ok (.error _) => (FdtAbs.add s a).2 = .err ∧ (FdtAbs.add s a).1.files = s.files
     | .ok (.ok adm) => (FdtAbs.add s a).2 = .ok s.nextToi ∧
         (FdtAbs.add s a).1.files = s.files ++ [(⟨s.nextToi, a, toF adm.oti, false, 0⟩ : FdtAbs.FileDesc)]) ∧
    ((FdtAbs.add s a).1.nextToi ≠ s.nextToi → consumesToi cfg prio obj = true) ∧
    (consumesToi cfg prio obj = false → (FdtAbs.add s a).1.nextToi = s.nextToi) := by
  intro cfg obj
  have hxml := attrsXmlOk_link s.cfg.xmlOk cp hx a ovr
  have hlink := effectiveOti_link dflt ovr a ha
  rw [← hd] at hlink
  unfold FdtAbs.add consumesToi accepts
  simp only [cfg, hq, not_true_eq_false, ↓reduceIte, decide_eq_true_eq]
  by_cases hc : s.complete = some true
  · simp [hc]
  by_cases hm : metaOk obj = false
  · have : FdtAbs.attrsXmlOk s.cfg.xmlOk a = false := by rw [hxml]; exact hm
    simp [hc, hm, this, Refuse.afterAllocation]
  have hm' : FdtAbs.attrsXmlOk s.cfg.xmlOk a = true := by
    rw [hxml]; cases h : metaOk obj <;> simp_all
  have hobj : obj.toi = .none := rfl
  have hobj2 : obj.oti = ovr := rfl
  have hobj3 : obj.transferLength = a.transferLength := rfl
  simp only [hc, hm, hm', hobj, hobj2, hobj3, reduceCtorEq, or_self, ↓reduceIte, Bool.true_eq_false, decide_true,
    Bool.true_and]
  cases h1 : fileDescNew dflt ovr a.transferLength with
  | error w =>
    rw [h1] at hlink
    cases h2 : FdtAbs.effectiveOti s.cfg.oti a with
    | error w2 => simp
    | ok v => rw [h2] at hlink; simp [toOpt] at hlink
  | ok r =>
    rw [h1] at hlink
    cases h2 : FdtAbs.effectiveOti s.cfg.oti a with
    | error w2 => rw [h2] at hlink; simp [toOpt] at hlink
    | ok v =>
      rw [h2] at hlink
      simp only [toOpt, Option.map_some, Option.some.injEq] at hlink
      subst hlink
      cases r with
      | error why =>
        have hlate := fileDescNew_refusal_late dflt ovr a.transferLength why h1
        simp [outF, hlate]
      | ok o => simp [outF]

/-- **refused ⇒ never listed** (C01 "refused when it is added, never transmitted corrupted", FDT half): if
    the reference refuses the object, `FdtAbs.add` leaves `files` untouched; by `Props.C10.fdt_lists_exactly`
    (every instance lists exactly the tracked added-not-removed-not-finished objects) and
    `publication_lists_exactly` no FDT instance ever mentions it. -/
theorem refused_never_listed (s : FdtAbs.State) (a : FdtAbs.ObjAttrs) (h : (FdtAbs.add s a).2 = .err) :
    (FdtAbs.add s a).1.files = s.files := by
  unfold FdtAbs.add at h ⊢
  split
  · rfl
  · rename_i hne
    simp only [hne, ↓reduceIte] at h
    split <;> simp_all

/-- **C01, "refused when it is added, never transmitted corrupted" - one statement.**  If the reference
    refuses (`accepts = Err`), then in the allocator model nothing stays live for the object
    (`toi_link`: `addEarlyErr` changes nothing, `add k false` releases what it allocated - `Props.C15`
    `reuse_only_after_release` / `invariant` hold over such histories), in the FDT model nothing is listed
    (`fdtabs_add_link`: `files` unchanged, hence by `Props.C10.fdt_lists_exactly` /
    `publication_lists_exactly` no instance mentions it), and the scheduler / block encoder models are
    only ever given objects of `files` (`Props.C12.only_fdt_when_empty_ever`: no object packet without an
    added object).  The refusal reasons are exactly these ten, `tooManyBlocks` being unreachable. -/
theorem refused_object_leaves_no_trace (s : FdtAbs.State) (a : FdtAbs.ObjAttrs) (cp : String → List Nat)
    (hx : ∀ str, s.cfg.xmlOk str = isXmlStr (cp str))
    (dflt : Oti) (hd : s.cfg.oti = toF dflt) (ovr : Option Oti) (ha : a.oti = ovr.map toF)
    (prio : Nat) (queues : List Nat) (hq : prio ∈ queues) (r : Refuse)
    (hr : accepts { queues := queues, complete := decide (s.complete = some true), oti := dflt } prio
            (objOf cp a ovr) = .ok (.error r)) :
    (FdtAbs.add s a).2 = .err ∧ (FdtAbs.add s a).1.files = s.files ∧ r ≠ .tooManyBlocks := by
  have h := (fdtabs_add_link s a cp hx dflt hd ovr ha prio queues hq).1
  simp only [hr] at h
  refine ⟨h.1, h.2, ?_⟩
  intro e
  subst e
  unfold accepts at hr
  simp only [hq, not_true_eq_false, ↓reduceIte] at hr
  (repeat' split at hr) <;> (try cases hr)
  rename_i h1
  exact tooManyBlocks_unreachable _ _ _ h1

/-! ### `hx` discharged for the `fdtabs` driver: it instantiates `cfg.xmlOk` with the byte scan `XmlTok.xmlOkTok`, whose
      code points are `XmlTok.cpTok` (UTF-8 decoding of the hex token) -/

/-- `fdtabs_add_link` for the states the driver runs (no string hypothesis left) -/
theorem fdtabs_add_link_driver (s : FdtAbs.State) (a : FdtAbs.ObjAttrs) (hs : s.cfg.xmlOk = XmlTok.xmlOkTok)
    (dflt : Oti) (hd : s.cfg.oti = toF dflt) (ovr : Option Oti) (ha : a.oti = ovr.map toF)
    (prio : Nat) (queues : List Nat) (hq : prio ∈ queues) :
    let cfg : Cfg := { queues := queues, complete := decide (s.complete = some true), oti := dflt }
    let obj := objOf XmlTok.cpTok a ovr
    (match accepts cfg prio obj with
     | .error _ => (FdtAbs.add s a).2 = .panic
     | .ok (.error _) => (FdtAbs.add s a).2 = .err ∧ (FdtAbs.add s a).1.files = s.files
     | .ok (.ok adm) => (FdtAbs.add s a).2 = .ok s.nextToi ∧
         (FdtAbs.add s a).1.files = s.files ++ [(⟨s.nextToi, a, toF adm.oti, false, 0⟩ : FdtAbs.FileDesc)]) ∧
    ((FdtAbs.add s a).1.nextToi ≠ s.nextToi → consumesToi cfg prio obj = true) ∧
    (consumesToi cfg prio obj = false → (FdtAbs.add s a).1.nextToi = s.nextToi) :=
  fdtabs_add_link s a XmlTok.cpTok (fun str => by rw [hs]; exact Lemmas.XmlTok.xmlOkTok_eq str) dflt hd ovr ha prio queues hq

/-- `refused_object_leaves_no_trace` for the states the driver runs -/
theorem refused_object_leaves_no_trace_driver (s : FdtAbs.State) (a : FdtAbs.ObjAttrs)
    (hs : s.cfg.xmlOk = XmlTok.xmlOkTok)
    (dflt : Oti) (hd : s.cfg.oti = toF dflt) (ovr : Option Oti) (ha : a.oti = ovr.map toF)
    (prio : Nat) (queues : List Nat) (hq : prio ∈ queues) (r : Refuse)
    (hr : accepts { queues := queues, complete := decide (s.complete = some true), oti := dflt } prio
            (objOf XmlTok.cpTok a ovr) = .ok (.error r)) :
    (FdtAbs.add s a).2 = .err ∧ (FdtAbs.add s a).1.files = s.files ∧ r ≠ .tooManyBlocks :=
  refused_object_leaves_no_trace s a XmlTok.cpTok (fun str => by rw [hs]; exact Lemmas.XmlTok.xmlOkTok_eq str)
    dflt hd ovr ha prio queues hq r hr

end Flute.Props.C01.Admission
