import FluteModel.Lemmas.BencSessionBridge
import FluteModel.Props.C08
/-
  Link between the sender side of the end-to-end session model (`Flute.Session.emitTransfer`, on which C01 / C02 / C16
  are proved) and the block-encoder model `Flute.BlockEnc` that the `benc` correspondence ties to blockencoder.rs.
-/
namespace Flute.Props.C01.Link
open Flute Flute.Fec Flute.BlockEnc Flute.BencArith Flute.BencBlocks Flute.BencInv Flute.BencTrace Flute.BencShape
open Flute.BencPsi Flute.BencSessionBridge
open Flute.Session (Sym Scheme)

variable {P : Params} {c : Bytes} {aL aS nL n : Nat}

/-- **`Session.emitTransfer` is the BlockEnc transfer.**  For ALL non-empty object bytes `c`, `E, B > 0`, partition
    `(aL, aS, nL, n) = block_partitioning(B, L, E)`, parity, window ≥ 1, closable flag, and e2e encoder parameters `e`
    linked to them (`Link`: `ks[k] = A k` for `k < n`, same parity / window / closable, the codec has the scheme's shard
    count, no block "fails" - instances `link_nocode`, `link_rs` (FEC 5 and 129, from the repaired `add_object` checks),
    `link_raptorq`, `link_raptor` (no block of 2 or 3 symbols)), with a codec whose source symbols have at most `E` bytes
    and cover the block (`SymLe`, `SrcCover`: proved for No-Code, Reed-Solomon, RaptorQ):
    `emitTransfer e = some T` and `T` is the `(SBN, ESI, B)` projection of the packet list of the complete unforced
    BlockEnc transfer of `c` - as the executable `runAll` and as a C08 `Run`, so every C08 theorem is a statement about
    `T`.  In particular e2e counts source SYMBOLS for the B decision where the code counts source BYTES: the two agree
    (`flag_agree`). -/
theorem emitTransfer_is_blockenc_transfer (hS : Setup P c aL aS nL n) (hb : 0 < P.b) (hA : Accepts P c aL aS nL n)
    (hcov : SrcCover P.codec) (hle : SymLe P.codec) (hw : 1 ≤ P.window) {closable : Bool} {e : Flute.Session.Enc}
    (hL : Link P aL aS nL n closable e)
    (hq : Partition.blockPartitioning P.b P.len P.e = .ok (aL, aS, nL, n)) :
    ∃ T s0, Flute.Session.emitTransfer e = some T ∧ Enc.new P (.buffer c) closable = .ok s0 ∧
      (∀ G, T.length < G → (runAll P G s0).map sym = T) ∧
      ∃ tr s, Run P c aL aS nL n closable tr s ∧ (∀ x, x ∈ tr → x.1 = false) ∧
        (BlockEnc.read P s false).1 = .none ∧ (pkts tr).map sym = T :=
  emitTransfer_eq_blockenc hS hb hA hcov hle hw hL hq

/-- corollary of C08 `esis_per_block` (the emission fact e2e's receiver theorems use): in `T = emitTransfer e` the symbols
    of block `k` appear in ESI order `0, 1, …, A k + r - 1`, `r ≤ parity` - every source symbol once, in order, then at
    most `parity` repair symbols; no symbol with SBN ≥ N -/
theorem emitTransfer_esis (hS : Setup P c aL aS nL n) (hb : 0 < P.b) (hA : Accepts P c aL aS nL n)
    (hcov : SrcCover P.codec) (hle : SymLe P.codec) (hw : 1 ≤ P.window) {closable : Bool} {e : Flute.Session.Enc}
    (hL : Link P aL aS nL n closable e)
    (hq : Partition.blockPartitioning P.b P.len P.e = .ok (aL, aS, nL, n)) :
    ∃ T, Flute.Session.emitTransfer e = some T ∧
      (∀ k, k < n → ∃ r, r ≤ P.p ∧ ((T.filter (fun x => x.sbn == k)).map (·.esi)) = List.range (A aL aS nL k + r)) ∧
      (∀ x, x ∈ T → x.sbn < n) := by
  obtain ⟨T, s0, h1, _, _, tr, s, hrun, hnf, hend, hT⟩ := emitTransfer_eq_blockenc hS hb hA hcov hle hw hL hq
  have hproj : ∀ k, (T.filter (fun x => x.sbn == k)).map (·.esi) = (proj (pkts tr) k).map (·.1) := by
    intro k
    rw [← hT]
    unfold proj
    generalize pkts tr = l
    induction l with
    | nil => rfl
    | cons a t ih =>
      simp only [List.map_cons, List.filter_cons]
      by_cases hk : a.sbn = k
      · simp [sym, hk, pview] at ih ⊢; exact ih
      · simp [sym, hk] at ih ⊢; exact ih
  refine ⟨T, h1, ?_, ?_⟩
  · intro k hk
    obtain ⟨r, hr, he⟩ := Flute.Props.C08.esis_per_block hrun hnf hend k hk
    exact ⟨r, hr, by rw [hproj k, he]⟩
  · intro x hx
    by_cases hlt : x.sbn < n
    · exact hlt
    · exfalso
      have h2 := (Flute.Props.C08.transfer_per_block hrun hnf hend).2 x.sbn (by omega)
      have h3 : (T.filter (fun y => y.sbn == x.sbn)).map (·.esi) = [] := by rw [hproj, h2]; rfl
      have h4 : x ∈ T.filter (fun y => y.sbn == x.sbn) := by simp [hx]
      have h5 := List.map_eq_nil_iff.mp h3
      rw [h5] at h4; cases h4

/-- the panic side: under the link (every block can be encoded, window ≥ 1) neither model reports the
    `debug_assert` (blockencoder.rs:81): `senderPanics e = false` and the BlockEnc `read` never returns `panic` -/
theorem no_panic_agree (hS : Setup P c aL aS nL n) (hw : 1 ≤ P.window) {closable : Bool} {e : Flute.Session.Enc}
    (hL : Link P aL aS nL n closable e) {tr : List (Bool × Pkt)} {s : Enc} (hrun : Run P c aL aS nL n closable tr s) (f : Bool) :
    Flute.Session.senderPanics e = false ∧ (BlockEnc.read P s f).1 ≠ .panic := by
  refine ⟨?_, (Flute.Props.C08.read_terminates hrun f).2⟩
  unfold Flute.Session.senderPanics
  rw [hL.ks_get 0 hS.good.n_pos]
  simp only [hL.noFail 0 hS.good.n_pos, Bool.false_or, hL.w]
  rw [beq_eq_false_iff_ne]; omega

/-- … and with window 0 e2e's `senderPanics` flag is raised exactly where BlockEnc sends NOTHING (since the repair of
    sched-7: `None` at the first `read`; before: the `debug_assert` panic) - for every non-empty object -/
theorem window_zero_agree (P : Params) (e : Flute.Session.Enc) (k : Nat) (s0 : Enc) (closable : Bool) (src : Source)
    (hw : P.window = 0) (hl : P.len ≠ 0) (hew : e.w = 0) (hk : e.ks[0]? = some k)
    (hnew : Enc.new P src closable = .ok s0) :
    Flute.Session.senderPanics e = true ∧ (BlockEnc.read P s0 false).1 = .none := by
  constructor
  · unfold Flute.Session.senderPanics; rw [hk]; simp [hew]
  · unfold Enc.new at hnew
    simp only at hnew
    cases hp : Partition.blockPartitioning P.b P.len P.e with
    | error w => rw [hp] at hnew; cases hnew
    | ok q =>
      obtain ⟨a1, a2, a3, a4⟩ := q
      rw [hp] at hnew
      simp only [Except.ok.injEq] at hnew
      subst hnew
      unfold BlockEnc.read readFuel
      simp only [Bool.false_eq_true, if_false, List.length_nil, hw]
      unfold readLoop readWindow
      simp [hw, readWindowAux, hl]

/-! ### the empty object and the refused first block: the two models agree on the instances the drivers run -/

def e0 (sch : Scheme) (p : Nat) (stream : Bool) : Flute.Session.Enc :=
  { scheme := sch, ks := #[], p := p, w := 2, closable := true, streamSrc := stream }

def run0 (cd : Codec) (p : Nat) (src : Source) : Option (List Sym) :=
  match Enc.new { codec := cd, e := 4, b := 3, p := p, window := 2, len := 0 } src true with
  | .ok s0 => some ((runAll { codec := cd, e := 4, b := 3, p := p, window := 2, len := 0 } 8 s0).map sym)
  | .error _ => none

/-- empty object, every scheme, buffer and stream source: same listing in both models - the lone B packet, except the
    `parity` repair packets of the empty block for RaptorQ / Raptor from a buffer (finding) -/
theorem empty_object_agree :
    Flute.Session.emitTransfer (e0 .nocode 0 false) = run0 noCode 0 (.buffer []) ∧
    Flute.Session.emitTransfer (e0 .rs 2 false) = run0 (reedSolomon fun _ _ _ _ => []) 2 (.buffer []) ∧
    Flute.Session.emitTransfer (e0 .raptorq 2 false) = run0 (raptorQ fun _ _ _ _ => []) 2 (.buffer []) ∧
    Flute.Session.emitTransfer (e0 .raptor 2 false) = run0 (raptorLegacy fun _ _ _ _ => []) 2 (.buffer []) ∧
    Flute.Session.emitTransfer (e0 .raptorq 0 false) = run0 (raptorQ fun _ _ _ _ => []) 0 (.buffer []) ∧
    Flute.Session.emitTransfer (e0 .raptorq 2 true) = run0 (raptorQ fun _ _ _ _ => []) 2 (.stream { bytes := [], pos := 0, sched := [] }) ∧
    Flute.Session.emitTransfer (e0 .nocode 0 true) = run0 noCode 0 (.stream { bytes := [], pos := 0, sched := [] }) := by
  decide

/-- first block refused (Raptor, 2 symbols): e2e flags `senderPanics`, BlockEnc's first `read` returns `None` (nothing sent) -/
theorem refused_first_block_agree :
    Flute.Session.senderPanics { scheme := .raptor, ks := #[2], p := 1, w := 1, closable := true } = true ∧
    (match Enc.new { codec := raptorLegacy (fun _ _ _ _ => []), e := 4, b := 8, p := 1, window := 1, len := 8 } (.buffer (List.range 8)) true with
     | .ok s0 => (BlockEnc.read { codec := raptorLegacy (fun _ _ _ _ => []), e := 4, b := 8, p := 1, window := 1, len := 8 } s0 false).1
     | .error _ => .hang) = .none := by decide

end Flute.Props.C01.Link
