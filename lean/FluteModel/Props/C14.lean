import FluteModel.Lemmas.SchedCount
import FluteModel.Lemmas.SchedTick
/-
  C14 - Timing.  Time is `Nat` nanoseconds supplied by the caller with every `read` / `publish`.  The pacing tick
  (`packet_transmission_tick`; since /repo 9d73d78 the exact integer quotient `target / n`) is looked up by `Sched.read`
  in a table it is given and carried by the `Start` event: the theorems up to `pacing_lower_bound_floor` hold for EVERY
  table; `start_tick_is_tickOf` / `pacing_lower_bound_model` are about the histories the driver executes (`Sched.runM`,
  FluteModel/SchedM.lean: every read uses the table of the model's own `tickOf`) and state the bound for the model's
  own tick, without a hypothesis on it.  Every configuration, FDT table and operation history with ARBITRARY instants
  (monotonicity of the clock is not needed for these statements).
-/
namespace Flute.Props.C14
open Flute.Sched Flute.Spec.Timing Flute.Spec.Lifecycle

/-- every event of every history passes the timing checks of every object (see `Spec.Timing.TM.check`) -/
theorem timing_checked (cfg : Cfg) (tbl : List Nat) (ops : List Op) (toi : Nat) :
    TChecked toi (trace cfg tbl ops) :=
  (time_run cfg tbl ops).checked toi

/-- No transfer of an object starts before the transfer start time in effect (`add_object`'s, or the one set by
    an applied `trigger_transfer_at`); the `Start` event reports exactly that start time.  Arbitrary instants. -/
theorem not_before_start_time (cfg : Cfg) (tbl : List Nat) (ops : List Op) (toi : Nat)
    (post pre : List Ev) (now : Nat) (st tick : Option Nat)
    (hs : trace cfg tbl ops = post ++ Ev.start now toi st tick :: pre) :
    st = (TM.run toi pre).cfgStart ∧ ∀ x, st = some x → x ≤ now := by
  have hc := tchecked_at post _ pre (hs ▸ timing_checked cfg tbl ops toi)
  obtain ⟨h1, h2, _⟩ := hc rfl
  exact ⟨h1, fun x hx => h2 x (by rw [← h1]; exact hx)⟩

/-- ... and no PACKET either, on a clock that never goes backwards (`MonoFrom 0 ops`: the instants passed to
    `read` / `publish` are non-decreasing): every packet of an object is preceded in the trace by the Start entry of
    its transfer, that Start is not later than the packet, and it was not earlier than the start time `st` in effect. -/
theorem no_packet_before_start_time (cfg : Cfg) (tbl : List Nat) (ops : List Op) (hm : MonoFrom 0 ops) (toi : Nat)
    (post pre : List Ev) (now prio idx : Nat) (b : Bool)
    (hs : trace cfg tbl ops = post ++ Ev.pkt now prio toi idx b :: pre) :
    ∃ tstart st tk, Ev.start tstart toi st tk ∈ pre ∧ tstart ≤ now ∧ ∀ x, st = some x → x ≤ now := by
  have hlc : Checked toi (trace cfg tbl ops) := (life_run cfg tbl ops).2.checked toi
  have hact : (LM.run toi pre).active = true := (checked_at post _ pre (hs ▸ hlc) rfl).1
  have htc : TChecked toi pre := by
    have h := timing_checked cfg tbl ops toi
    rw [hs] at h
    clear hs hact
    induction post with
    | nil => exact h.1
    | cons x r ih => exact ih h.1
  obtain ⟨st, tk, hmem, hle⟩ := tStart_is_start toi pre htc hact
  have hsorted := trace_sorted cfg tbl ops hm
  rw [hs] at hsorted
  have hall := sorted_at post _ pre hsorted now rfl
  have h1 : (TM.run toi pre).tStart ≤ now := hall _ hmem _ rfl
  exact ⟨_, st, tk, hmem, h1, fun x hx => Nat.le_trans (hle x hx) h1⟩

/-- Carousel gap, general (burst) form: a transfer that follows a completed round - `max_transfer_count`
    transfers done in the current round - starts MORE than `delay` after the previous transfer ended, resp. MORE
    than `interval` after the previous one started (unless `trigger_transfer_at` reset the references). -/
theorem carousel_gap (cfg : Cfg) (tbl : List Nat) (ops : List Op) (toi : Nat)
    (post pre : List Ev) (now : Nat) (st tick : Option Nat)
    (hs : trace cfg tbl ops = post ++ Ev.start now toi st tick :: pre)
    (hround : maxCountOf (TM.run toi pre) ≤ (TM.run toi pre).count) :
    GapOk (TM.run toi pre) now := by
  have hc := tchecked_at post _ pre (hs ▸ timing_checked cfg tbl ops toi)
  exact (hc rfl).2.2.1 (by omega)

/-- The property verbatim for `max_transfer_count ≤ 1`: EVERY transfer that starts after a previous one ended
    keeps the gap (delay after the previous end / interval after the previous start). -/
theorem carousel_gap_m1 (cfg : Cfg) (tbl : List Nat) (ops : List Op) (toi : Nat)
    (post pre : List Ev) (now : Nat) (st tick : Option Nat)
    (hs : trace cfg tbl ops = post ++ Ev.start now toi st tick :: pre)
    (hm : maxCountOf (TM.run toi pre) ≤ 1) (le ls : Nat)
    (hle : (TM.run toi pre).lastEnd = some le) (hls : (TM.run toi pre).lastStart = some ls) :
    (∀ d, carouselOf (TM.run toi pre) = some (.delay d) → now - le > d) ∧
    (∀ d, carouselOf (TM.run toi pre) = some (.interval d) → now - ls > d) := by
  have hc := tchecked_at post _ pre (hs ▸ timing_checked cfg tbl ops toi)
  obtain ⟨_, _, h3, h4⟩ := hc rfl
  have h1 : 1 ≤ (TM.run toi pre).count := h4 (by rw [hle]; rfl)
  have hg := h3 (by omega)
  unfold GapOk at hg
  rw [hle, hls] at hg
  constructor
  · intro d hd; rw [hd] at hg; exact hg
  · intro d hd; rw [hd] at hg; exact hg

/-- Pacing lower bound: with a tick the i-th packet of a transfer never leaves before `start + i * tick`. -/
theorem pacing_lower_bound (cfg : Cfg) (tbl : List Nat) (ops : List Op) (toi : Nat)
    (post pre : List Ev) (now prio idx : Nat) (b : Bool)
    (hs : trace cfg tbl ops = post ++ Ev.pkt now prio toi idx b :: pre) (tk : Nat)
    (ht : (TM.run toi pre).tick = some tk) :
    (TM.run toi pre).tStart + idx * tk ≤ now := by
  have hc := tchecked_at post _ pre (hs ▸ timing_checked cfg tbl ops toi)
  exact hc rfl tk ht

/-- Never early, on the value `read` RETURNS (no ghost log in the hypothesis): if, after any history, `read(now)`
    returns packet `i` of object `t`, then the trace before that call (`past`) contains the Start of the current
    transfer, and with the tick `tk` the sender computed for it `start + i * tk ≤ now`. -/
theorem read_pkt_never_early (cfg : Cfg) (tbl : List Nat) (ops : List Op) (now : Nat)
    (ticks : List (Nat × Nat)) (p t i : Nat) (b : Bool)
    (hr : (read (run (init cfg tbl) ops) now ticks).2 = Out.pkt p t i b) :
    ∃ past, (read (run (init cfg tbl) ops) now ticks).1.log = Ev.pkt now p t i b :: past ∧
      ∀ tk, (TM.run t past).tick = some tk → (TM.run t past).tStart + i * tk ≤ now := by
  have h1 := read_out_log (run (init cfg tbl) ops) now ticks
  rw [hr] at h1
  obtain ⟨new, e, _⟩ := h1
  have e2 : trace cfg tbl (ops ++ [.read now ticks]) = (read (run (init cfg tbl) ops) now ticks).1.log := by
    unfold trace run; rw [List.foldl_append]; rfl
  refine ⟨_, e, ?_⟩
  intro tk ht
  exact pacing_lower_bound cfg tbl (ops ++ [.read now ticks]) t [] _ now p i b (by rw [e2, e]; rfl) tk ht

/-- ... in terms of the target: if the tick is the rounded quotient `target / n` (|rounding| ≤ 1 ns per packet,
    asserted per case by the harness), packet i is not earlier than `start + i * target / n` minus i ns. -/
theorem pacing_lower_bound_target (cfg : Cfg) (tbl : List Nat) (ops : List Op) (toi : Nat)
    (post pre : List Ev) (now prio idx : Nat) (b : Bool)
    (hs : trace cfg tbl ops = post ++ Ev.pkt now prio toi idx b :: pre) (tk target n : Nat)
    (ht : (TM.run toi pre).tick = some tk) (hr : target ≤ (tk + 1) * n) :
    idx * target ≤ (now - (TM.run toi pre).tStart + idx) * n := by
  have h := pacing_lower_bound cfg tbl ops toi post pre now prio idx b hs tk ht
  have h1 : idx * tk ≤ now - (TM.run toi pre).tStart := by omega
  calc idx * target ≤ idx * ((tk + 1) * n) := Nat.mul_le_mul_left _ hr
    _ = (idx * tk + idx) * n := by rw [← Nat.mul_assoc, Nat.mul_add, Nat.mul_one]
    _ ≤ (now - (TM.run toi pre).tStart + idx) * n := Nat.mul_le_mul_right _ (by omega)

/-- the rounding of the tick is a lemma (it was a hypothesis checked by the harness while the tick came from
    `Duration::div_f64`): `tick = target / n` (floor) is within one nanosecond per packet of the real quotient -/
theorem tick_floor_round (target n : Nat) (hn : 0 < n) :
    (target / n) * n ≤ target ∧ target ≤ (target / n + 1) * n := by
  constructor
  · exact Nat.div_mul_le_self target n
  · have h1 := Nat.div_add_mod target n
    have h2 := Nat.mod_lt target hn
    rw [Nat.add_mul, Nat.one_mul, Nat.mul_comm]
    omega

/-- Pacing lower bound in terms of the TARGET, for every target: when the Start event of the transfer carries the
    tick the (repaired, sched-4) code and the model's driver compute - `Sched.tickOf`: `target / n`, exact integer
    division of the nanoseconds - packet `idx` does not leave before `start + idx * target / n` minus `idx` ns of
    integer rounding: `idx * target ≤ (now - start + idx) * n`.  (`target` = the target duration, or the time left to
    the deadline at the transfer start; `n` = number of source packets, `> 0` for a paced object.) -/
theorem pacing_lower_bound_floor (cfg : Cfg) (tbl : List Nat) (ops : List Op) (toi : Nat)
    (post pre : List Ev) (now prio idx : Nat) (b : Bool)
    (hs : trace cfg tbl ops = post ++ Ev.pkt now prio toi idx b :: pre) (target n : Nat) (hn : 0 < n)
    (ht : (TM.run toi pre).tick = some (target / n)) :
    idx * target ≤ (now - (TM.run toi pre).tStart + idx) * n :=
  pacing_lower_bound_target cfg tbl ops toi post pre now prio idx b hs (target / n) target n ht
    (tick_floor_round target n hn).2

/-- the pacing tick in the monitor's state is the tick of the latest `StartTransfer` event of the object -/
theorem tm_tick_from_start (toi : Nat) : ∀ (l : List Ev) (tk : Nat), (TM.run toi l).tick = some tk →
    ∃ st, Ev.start (TM.run toi l).tStart toi st (some tk) ∈ l := by
  intro l
  induction l with
  | nil => intro tk h; simp [TM.run] at h
  | cons e l ih =>
    intro tk h
    have keep : (TM.run toi (e :: l)).tick = (TM.run toi l).tick → (TM.run toi (e :: l)).tStart = (TM.run toi l).tStart →
        ∃ st, Ev.start (TM.run toi (e :: l)).tStart toi st (some tk) ∈ e :: l := by
      intro h1 h2
      rw [h1] at h
      obtain ⟨st, hm⟩ := ih tk h
      exact ⟨st, by rw [h2]; exact List.mem_cons_of_mem _ hm⟩
    cases e with
    | start n t st tick =>
      by_cases ht : t = toi
      · subst ht
        have h1 : (TM.run t (Ev.start n t st tick :: l)).tick = tick := by simp [TM.run, TM.step]
        have h2 : (TM.run t (Ev.start n t st tick :: l)).tStart = n := by simp [TM.run, TM.step]
        rw [h1] at h
        exact ⟨st, by rw [h2, h]; exact List.mem_cons_self ..⟩
      · exact keep (by simp [TM.run, TM.step, ht]) (by simp [TM.run, TM.step, ht])
    | opAdd t a ok => exact keep (by simp only [TM.run, TM.step]; split <;> rfl) (by simp only [TM.run, TM.step]; split <;> rfl)
    | opTrigger t ts ap => exact keep (by simp only [TM.run, TM.step]; split <;> rfl) (by simp only [TM.run, TM.step]; split <;> rfl)
    | pkt a b t c d => exact keep (by simp only [TM.run, TM.step]; split <;> rfl) (by simp only [TM.run, TM.step]; split <;> rfl)
    | stop n t => exact keep (by simp only [TM.run, TM.step]; split <;> rfl) (by simp only [TM.run, TM.step]; split <;> rfl)
    | opRemove t ok => exact keep rfl rfl
    | opPublish n => exact keep rfl rfl
    | opRead n => exact keep rfl rfl
    | pub n k fs => exact keep rfl rfl
    | fdtStart n k => exact keep rfl rfl
    | fdtStop n k => exact keep rfl rfl
    | fdt n k i j => exact keep rfl rfl
    | idle n => exact keep rfl rfl

/-- **Pacing lower bound for the MODEL'S OWN tick** (no hypothesis on the tick).  In every history whose reads use the
    tick the model computes itself (`Sched.runM`, FluteModel/SchedM.lean - what the driver executes and the real sender is
    compared with): when packet `idx` of a paced transfer of `toi` leaves at `now`, the transfer's `StartTransfer`
    (at `tStart`) was appended by a `read(tStart)` of the history, the object `f` was in the sender at that call, the
    tick is `tickOf f tStart` (`Lemmas/SchedTick.lean: start_tick_is_tickOf`), the packet is not earlier than
    `tStart + idx * tickOf f tStart`, and in terms of the TARGET - a duration `d`, or the time `T - tStart` left to a
    deadline `T` - `idx * target ≤ (now - tStart + idx) * n`: never before `tStart + idx * target / n` minus `idx` ns of
    integer rounding (`n = f.nSym > 0` packets). -/
theorem pacing_lower_bound_model (cfg : Cfg) (tbl : List Nat) (ops : List Op) (toi : Nat)
    (post pre : List Ev) (now prio idx : Nat) (b : Bool)
    (hs : (runM (init cfg tbl) ops).log = post ++ Ev.pkt now prio toi idx b :: pre) (tk : Nat)
    (ht : (TM.run toi pre).tick = some tk) :
    ∃ opsPre x opsPost f, ops = opsPre ++ Op.read (TM.run toi pre).tStart x :: opsPost ∧
      getF (runM (init cfg tbl) opsPre).objs toi = some f ∧ 0 < f.nSym ∧
      tk = tickOf f (TM.run toi pre).tStart ∧ (TM.run toi pre).tStart + idx * tk ≤ now ∧
      (∀ d, f.target = some (.dur d) → idx * d ≤ (now - (TM.run toi pre).tStart + idx) * f.nSym) ∧
      (∀ T, f.target = some (.time T) →
        idx * (T - (TM.run toi pre).tStart) ≤ (now - (TM.run toi pre).tStart + idx) * f.nSym) := by
  have hrun := runM_eq_run ops (init cfg tbl)
  have hs' : trace cfg tbl (retick (init cfg tbl) ops) = post ++ Ev.pkt now prio toi idx b :: pre := by
    unfold trace; rw [← hrun]; exact hs
  have hlb := pacing_lower_bound cfg tbl _ toi post pre now prio idx b hs' tk ht
  obtain ⟨st, hm⟩ := tm_tick_from_start toi pre tk ht
  have hmem : Ev.start (TM.run toi pre).tStart toi st (some tk) ∈ (runM (init cfg tbl) ops).log := by
    rw [hs]; exact List.mem_append_right _ (List.mem_cons_of_mem _ hm)
  rcases start_tick_is_tickOf ops (init cfg tbl) hmem with h0 | ⟨opsPre, x, opsPost, f, e1, e2, e3⟩
  · simp [init] at h0
  · have hw : wantsTick f = true := by
      cases hw : wantsTick f with
      | true => rfl
      | false => unfold startTick at e3; rw [hw] at e3; simp at e3
    have htk : tk = tickOf f (TM.run toi pre).tStart := by
      unfold startTick at e3; rw [hw] at e3; simpa using e3
    have hn : 0 < f.nSym := by
      unfold wantsTick at hw
      split at hw
      · simpa [Nat.pos_iff_ne_zero] using hw
      · simpa [Nat.pos_iff_ne_zero] using hw
      · cases hw
    refine ⟨opsPre, x, opsPost, f, e1, e2, hn, htk, hlb, ?_, ?_⟩
    · intro d hd
      have : tk = d / f.nSym := by rw [htk]; unfold tickOf; rw [hd]
      exact pacing_lower_bound_target cfg tbl _ toi post pre now prio idx b hs' tk d f.nSym ht
        (by rw [this]; exact (tick_floor_round d f.nSym hn).2)
    · intro T hT
      have : tk = (T - (TM.run toi pre).tStart) / f.nSym := by rw [htk]; unfold tickOf; rw [hT]
      exact pacing_lower_bound_target cfg tbl _ toi post pre now prio idx b hs' tk _ f.nSym ht
        (by rw [this]; exact (tick_floor_round _ f.nSym hn).2)

/-- ... and the tick of `Sched.tickOf` is that quotient -/
theorem tickOf_is_floor (f : FileDesc) (now d : Nat) (h : f.target = some (.dur d)) : tickOf f now = d / f.nSym := by
  unfold tickOf; rw [h]

/-- Pacing progress: a due packet is not held back.  After every operation history, if a slot of queue `q` holds a
    transfer whose pacing gate is open at `now` (`next_transfer_timestamp ≤ now`, or not paced) and which still
    has packets, the FIRST `read(now)` returns a packet - an FDT packet, or an object packet of priority `≤ q.prio`
    (of `q` itself or of a queue before it; a same-priority peer of a multiplexed queue may go first, the slots
    being served round robin) - never `None` and never a lower-priority packet. -/
theorem pacing_progress (cfg : Cfg) (tbl : List Nat) (ops : List Op) (pre post : List QSess) (q : QSess)
    (j : Nat) (c : Cur) (f : FileDesc) (now : Nat) (ticks : List (Nat × Nat))
    (hsorted : (cfg.queues.map (fun x => x.1)).Pairwise (fun a b => a < b))
    (hsess : (run (init cfg tbl) ops).sessions = pre ++ q :: post)
    (hjs : q.slots[j]? = some (some c)) (hf : getF (run (init cfg tbl) ops).objs c.key = some f)
    (hdue : ∀ ts, f.info.nextTs = some ts → ts ≤ now) (hs : c.enc.stopped = false) (hlt : c.enc.sent < f.nPk) :
    (read (run (init cfg tbl) ops) now ticks).2 ≠ Out.none ∧
    ∀ p t i b, (read (run (init cfg tbl) ops) now ticks).2 = Out.pkt p t i b → p ≤ q.prio := by
  have hg : gateBlocked f now = false := by
    unfold gateBlocked
    cases hn : f.info.nextTs with
    | none => rfl
    | some ts => have := hdue ts hn; simp; omega
  obtain ⟨h1, h2⟩ := read_due cfg tbl ops pre post q j c f now ticks hsess hjs hf hg hs hlt
  exact ⟨h1, fun p t i b e => prio_le_of_sorted cfg tbl ops pre post q hsorted hsess p (h2 p t i b e)⟩

/-- Pacing progress, naming the packet: after every operation history, let slot `j` of queue `q` hold a transfer `c`
    whose pacing gate is open at `now` and which still has packets.  Then `read(now)` returns
    (1) an FDT packet (C11: FDT first), or (2) an object packet of a queue polled before `q` (higher priority), or
    (3) a packet of `q`: `c`'s own packet, or - multiplexed queue - the packet of a peer slot polled before `j`
    (`Props.C13.round_robin_partial`: the index then moves strictly closer).  It never returns `None`.
    And an object packet it returns carries the NEXT index of its transfer: `i` = number of packets of that transfer
    already in the trace (`(LM.run t past).sent`). -/
theorem pacing_progress_named (cfg : Cfg) (tbl : List Nat) (ops : List Op) (pre post : List QSess) (q : QSess)
    (j : Nat) (c : Cur) (f : FileDesc) (now : Nat) (ticks : List (Nat × Nat))
    (hsess : (run (init cfg tbl) ops).sessions = pre ++ q :: post)
    (hjs : q.slots[j]? = some (some c)) (hf : getF (run (init cfg tbl) ops).objs c.key = some f)
    (hdue : ∀ ts, f.info.nextTs = some ts → ts ≤ now) (hs : c.enc.stopped = false) (hlt : c.enc.sent < f.nPk) :
    (∃ k id i, (read (run (init cfg tbl) ops) now ticks).2 = Out.fdt k id i) ∨
    (∃ p t i b, (read (run (init cfg tbl) ops) now ticks).2 = Out.pkt p t i b ∧
      (p ∈ pre.map (fun x => x.prio) ∨ (p = q.prio ∧ (t = c.key ∨ q.slots.length ≠ 1))) ∧
      ∃ past, (read (run (init cfg tbl) ops) now ticks).1.log = Ev.pkt now p t i b :: past ∧
        i = (LM.run t past).sent) := by
  have hg : gateBlocked f now = false := by
    unfold gateBlocked
    cases hn : f.info.nextTs with
    | none => rfl
    | some ts => have := hdue ts hn; simp; omega
  have hne := (read_due cfg tbl ops pre post q j c f now ticks hsess hjs hf hg hs hlt).1
  have hrr := read_rr cfg tbl ops pre post q j c f now ticks hsess hjs hf hg hs hlt
  have hnh := read_no_hang (run (init cfg tbl) ops) now ticks
  have hidx : q.index < q.slots.length := run_idx cfg tbl ops q (by rw [hsess]; simp)
  have hj : j < q.slots.length := by
    rcases Nat.lt_or_ge j q.slots.length with h | h
    · exact h
    · rw [List.getElem?_eq_none h] at hjs; cases hjs
  cases hout : (read (run (init cfg tbl) ops) now ticks).2 with
  | none => exact absurd hout hne
  | hang => exact absurd hout hnh
  | fdt k id i => exact Or.inl ⟨k, id, i, rfl⟩
  | pkt p t i b =>
    right
    refine ⟨p, t, i, b, rfl, ?_, ?_⟩
    · rcases hrr p t i b hout with h | ⟨h1, h2⟩
      · exact Or.inl h
      · refine Or.inr ⟨h1, ?_⟩
        rcases h2 with h3 | ⟨_, pre', q', _, _, _, _, e5, _⟩
        · exact Or.inl h3
        · right
          intro hn1
          rw [hn1] at e5 hidx hj
          unfold rrDist at e5
          split at e5 <;> split at e5 <;> omega
    · have h1 := read_out_log (run (init cfg tbl) ops) now ticks
      rw [hout] at h1
      obtain ⟨new, e, _⟩ := h1
      have e2 : trace cfg tbl (ops ++ [.read now ticks]) = (read (run (init cfg tbl) ops) now ticks).1.log := by
        unfold trace run; rw [List.foldl_append]; rfl
      have hc := Flute.Sched.life_run cfg tbl (ops ++ [.read now ticks])
      have hchk := hc.2.checked t
      have e3 : (run (init cfg tbl) (ops ++ [.read now ticks])).log = Ev.pkt now p t i b :: (new ++ (run (init cfg tbl) ops).log) := by
        have : (run (init cfg tbl) (ops ++ [.read now ticks])).log = trace cfg tbl (ops ++ [.read now ticks]) := rfl
        rw [this, e2, e]
      rw [e3] at hchk
      exact ⟨_, e, (hchk.2 rfl).2.1⟩

/-- Degenerate inputs do not stall a poll: for any configuration and history (incl. empty objects with a target
    duration / deadline - repaired defect D4: not paced -, deadlines in the past, zero delays / intervals /
    durations, `fdt_duration = 0`) the `loop` of `SenderSession::run` never exhausts its fuel: `read` returns.
    A deadline in the past gives tick 0, which never blocks (`pacing_lower_bound` degenerates to `start ≤ now`); a
    zero delay needs the clock to advance by 1 ns (`now - end > 0`).  (That REPEATED reads reach `None` is C12's
    `read_terminates`.)
    NO-CRASH: `State.panic` is assigned by no transition of the model (times and counters are unbounded `Nat`), so a
    statement `panic = none` would be vacuous and is not made; what can be proved about the arithmetic is
    `no_counter_overflow` below.
    The crashes the scheduler path had were found by review / replay and the correspondence run and repaired in the
    Rust code: `div_f64(0)` for an empty paced object (D4), `fdtid + 1` at `fdt_start_id = u32::MAX`,
    `interleave_blocks = 0`, `(ntp >> 32) + fdt_duration` for `fdt_duration` near `Duration::MAX`, and
    `now + Expires(d)` for an unrepresentable sum (inside `Sender::read` in ObjectsBeingTransferred mode).  What is
    left on that path: `transfer_count + 1` / `+= 1` in `u32` (needs 2^32 transfers of one object),
    `Duration::div_f64(n)` with `n ≥ 1` (result ≤ target), `SystemTime::checked_add` in `TransferInfo::tick` (no
    panic; on overflow - a tick of ~2^63 s - the due time is not advanced, outside the stated domain).  Every PANIC of
    the real code is an observation of the engine (oracle `C14:degenerate-panic`; families `degen-*`, `huge-*`). -/
theorem degenerate_safe (cfg : Cfg) (tbl : List Nat) (ops : List Op) :
    ∀ now ticks, (read (run (init cfg tbl) ops) now ticks).2 ≠ Out.hang :=
  fun now ticks => read_no_hang _ now ticks

/-- No-crash, the part that IS a theorem: the integer arithmetic of the scheduler path that can overflow is the
    transfer bookkeeping - `transfer_count += 1` (u32, `TransferInfo::done`), `transfer_count + 1` (u32,
    `FileDesc::is_last_transfer`) and `total_nb_transfer += 1` (u64).  After every operation history, for every
    object and every FDT instance, `transfer_count ≤ total_nb_transfer ≤ number of trace entries` (every completed
    transfer appended its Stop event; every API call appends at least one entry).  Hence in a history with fewer
    than 2^32 - 1 trace entries none of these additions overflows.
    The other partial operations of that path are total in the Rust code by construction and have no counterpart
    in the model (the FDT content is abstract): `saturating_add` for the FDT Expires (repair sched-5),
    `checked_add` + saturation for `CacheControl::Expires` (sched-6), `wrapping_add` + mask for the FDT instance id
    (sched-1), `checked_add` in `TransferInfo::tick`, `duration_since(..).unwrap_or_default()`, `div_f64(n)` with
    `n ≥ 1` (D4). -/
theorem no_counter_overflow (cfg : Cfg) (tbl : List Nat) (ops : List Op)
    (hlen : (trace cfg tbl ops).length < 2 ^ 32 - 1) :
    (∀ f ∈ (run (init cfg tbl) ops).objs, f.info.count + 1 < 2 ^ 32 ∧ f.info.total + 1 < 2 ^ 64) ∧
    (∀ f ∈ (run (init cfg tbl) ops).fdts, f.info.count + 1 < 2 ^ 32 ∧ f.info.total + 1 < 2 ^ 64) := by
  have h := count_run cfg tbl ops
  have hl : (run (init cfg tbl) ops).log.length < 2 ^ 32 - 1 := hlen
  constructor
  · intro f hf
    obtain ⟨h1, h2⟩ := h.1 f hf
    constructor <;> omega
  · intro f hf
    obtain ⟨h1, h2⟩ := h.2 f hf
    constructor <;> omega

/-! F14 (finding, documented behaviour): with `max_transfer_count = 2` and a carousel delay the literal clause
    fails - the second transfer of a burst starts at the very instant the first one ended. -/
def cfg1 : Cfg := { mode := .full, fdtCarousel := .delay 1000, fdtDuration := 3600000000000, fdtStartId := 1, queues := [(0, 1)] }
def car2 : AddArgs := { prio := 0, nSym := 1, maxCount := 2, carousel := some (.delay 100), start := none, target := none, allowStop := false }
def histF14 : List Op := [.add car2, .publish 5, .read 5 [], .read 5 [], .read 5 []]

theorem carousel_gap_literal_fails_m2 :
    trace cfg1 [1] histF14 =
      [Ev.pkt 5 0 1 0 false, Ev.start 5 1 none none, Ev.stop 5 1, Ev.opRead 5] ++
        (trace cfg1 [1] histF14).drop 4 ∧
    (TM.run 1 ((trace cfg1 [1] histF14).drop 2)).lastEnd = some 5 := by decide

/-! non-vacuity: an empty object with a target duration is transferred (1 packet carrying B) -/
def empty : AddArgs := { prio := 0, nSym := 0, maxCount := 1, carousel := none, start := none, target := some (.dur 30), allowStop := false }
example : Ev.pkt 5 0 1 0 true ∈ trace cfg1 [1] [.add empty, .publish 5, .read 5 [], .read 5 []] := by decide

def paced : AddArgs := { prio := 0, nSym := 3, maxCount := 1, carousel := some (.delay 100), start := some 7, target := some (.dur 30), allowStop := false }
def histP : List Op :=
  [.add paced, .publish 5, .read 5 [(1, 10)], .read 6 [(1, 10)], .read 7 [(1, 10)], .read 8 [(1, 10)], .read 17 [(1, 10)],
   .read 27 [(1, 10)], .read 40 [(1, 10)], .read 140 [(1, 10)], .read 141 [(1, 10)]]

example : Ev.start 7 1 (some 7) (some 10) ∈ trace cfg1 [1] histP := by decide
/-- non-vacuity of `pacing_lower_bound_model`: the same history run with the model's own ticks (`runM`: the tables
    written in the operations are ignored) starts the transfer with tick `30 / 3 = 10` and sends packet 2 at 27 -/
example : Ev.start 7 1 (some 7) (some 10) ∈ (runM (init cfg1 [1]) (histP.map fun op => match op with | .read n _ => .read n [] | o => o)).log ∧
    Ev.pkt 27 0 1 2 false ∈ (runM (init cfg1 [1]) (histP.map fun op => match op with | .read n _ => .read n [] | o => o)).log := by
  decide
example : Ev.pkt 17 0 1 1 false ∈ trace cfg1 [1] histP ∧ Ev.pkt 27 0 1 2 false ∈ trace cfg1 [1] histP := by decide
example : Ev.start 141 1 (some 7) (some 10) ∈ trace cfg1 [1] histP ∧ Ev.idle 140 ∈ trace cfg1 [1] histP ∧ Ev.stop 40 1 ∈ trace cfg1 [1] histP := by decide

example : MonoFrom 0 histP := by
  simp [histP, MonoFrom]

end Flute.Props.C14
