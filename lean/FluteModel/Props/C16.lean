import FluteModel.Lemmas.SessionLife
import FluteModel.Lemmas.SessionCodec
import FluteModel.Lemmas.SessionCache
import FluteModel.Lemmas.SessionCycle
import FluteModel.Lemmas.SessionCarousel
import FluteModel.Lemmas.SessionMk
/-
  C16 — carousel late join: a receiver that starts listening at any packet boundary delivers every
  carouselled object within two further full cycles.

  Model: FluteModel/Session.lean; the late joiner is a fresh receiver (`{}`) fed a suffix of the
  stream.  Seen from one object: `runObj` over `Ev.fdt lists` / `Ev.pkt s`.
-/
namespace Flute.Props.C16
open Flute Flute.Session Flute.Lemmas.Session

/-- **C16 (receiver side, every join point).**  `a ++ fdt :: b ++ c2` is everything a receiver that
    joined at an arbitrary packet boundary sees of one carouselled, non-empty object until the end of
    the second full cycle after the join: whatever is left of the running cycle and the first full cycle
    (`a ++ fdt :: b`: it contains a whole transfer of the FDT, so an instance listing the object
    completes in it - `Ev.fdt true`; packets of the object that arrived before are cached (FDT-only OTI)
    or decoded without writer (in-band FTI) and are attached now), then the second full cycle `c2`,
    which contains a whole transfer of the object, i.e. decodable symbols of every block.  Carousel
    packets carry no close-object flag (`is_last_transfer` is false).  If the object is not alive when
    the FDT instance completes, fewer than 10 FDT instances complete before its next packet
    (`fdt_current` keeps 10).  Then the object writer gets `complete` - for every decoder satisfying
    the contract, every join point, whatever is interleaved. -/
theorem late_join_two_cycles_nonempty (c : Codec) (rc : RxCfg) (o : ObjCfg)
    (hN : o.ks.isEmpty = false) (hfit : Fits rc o) (a b c2 : List Ev)
    (hgen : ∀ s, Ev.pkt s ∈ a ++ Ev.fdt true :: (b ++ c2) → Genuine o s)
    (hcar : ∀ s, Ev.pkt s ∈ a ++ Ev.fdt true :: (b ++ c2) → s.close = false)
    (hatt : (∃ s, Ev.pkt s ∈ a) ∨
      ∃ fs rest, b ++ c2 = fs ++ rest ∧ (∀ e, e ∈ fs → ∃ l, e = Ev.fdt l) ∧ KeepsAge 0 fs ∧
        ∃ s rest', rest = Ev.pkt s :: rest')
    (hcycle : AllDec c o (pktSyms c2)) :
    1 ≤ (runObj c.canDecode rc o {} (a ++ Ev.fdt true :: (b ++ c2))).completes := by
  apply recoverable_core c rc o hN hfit a (b ++ c2) hgen
    (fun s hs => hcar s (List.mem_append_left _ hs)) hatt
  · exact closeOK_of_noclose c o _ _ (fun s hs => hcar s (List.mem_append_right _ (List.mem_cons_of_mem _ hs)))
  · apply allDec_mono c o _ _ _ hcycle
    intro q hq
    rw [mem_pktSyms] at hq ⊢
    simp [hq]

/-- **C16 (receiver side), every join point, EVERY object - empty ones included** (D14 repaired, /repo
    7ec1ac7).  As `late_join_two_cycles_nonempty`; for an EMPTY object (no block; its lone packet per cycle
    carries the close-object flag) nothing is asked of the packets: the first packet of the object
    after the completion of an FDT instance listing it delivers it, whatever arrived before. -/
theorem late_join_two_cycles (c : Codec) (rc : RxCfg) (o : ObjCfg) (hfit : Fits rc o) (a b c2 : List Ev)
    (hgen : o.ks.isEmpty = false → ∀ s, Ev.pkt s ∈ a ++ Ev.fdt true :: (b ++ c2) → Genuine o s)
    (hcar : o.ks.isEmpty = false → ∀ s, Ev.pkt s ∈ a ++ Ev.fdt true :: (b ++ c2) → s.close = false)
    (hatt : (o.ks.isEmpty = false ∧ ∃ s, Ev.pkt s ∈ a) ∨
      ∃ fs rest, b ++ c2 = fs ++ rest ∧ (∀ e, e ∈ fs → ∃ l, e = Ev.fdt l) ∧ KeepsAge 0 fs ∧
        ∃ s rest', rest = Ev.pkt s :: rest')
    (hcycle : AllDec c o (pktSyms c2)) :
    1 ≤ (runObj c.canDecode rc o {} (a ++ Ev.fdt true :: (b ++ c2))).completes := by
  by_cases hN : o.ks.isEmpty = false
  · apply late_join_two_cycles_nonempty c rc o hN hfit a b c2 (hgen hN) (hcar hN) ?_ hcycle
    rcases hatt with ⟨_, h⟩ | h
    · exact Or.inl h
    · exact Or.inr h
  · have hE : o.ks.isEmpty = true := by simpa using hN
    rcases hatt with ⟨h, _⟩ | ⟨fs, rest, h1, h2, h3, s, rest', h4⟩
    · exact absurd h hN
    · rw [h1, h4]
      exact empty_delivered c rc o hE a fs rest' s h2 h3

/-- **C16, stream level (FullFDT carousel), every join offset.**  `stream` = what the sender emits,
    `j` = the join offset (ANY), `n` = how much the late joiner is fed, written `ps1 ++ ps2` at the end of
    the first full cycle after the join: `ps1` contains a whole transfer of an FDT instance `f` (hence
    decodable symbols of each of its blocks: `hwhole`), `ps2` - the second full cycle - a whole transfer of
    the object (hence decodable symbols of each block: `hcycle`).  Carousel packets carry no close-object
    flag (`hcar`; the lone packet of an EMPTY object does - finding D14 - hence `hN`).  Then the object
    writer gets `complete`. -/
theorem late_join_two_cycles_stream_nonempty (cF cO : Codec) (rc : RxCfg) (s : SessCfg) (o : ObjCfg)
    (hto : o.toi ≠ 0) (hN : o.ks.isEmpty = false) (hfit : Fits rc o)
    (hall : ∀ f, f ∈ s.fdts → f.files.contains o.toi = true)
    (f : FdtCfg) (hfind : s.fdts.find? (fun x => x.id == f.id) = some f)
    (hfN : f.ks.isEmpty = false) (hflook : f.ks.size ≤ rc.maxLook)
    (hfresh : blockDone cF.canDecode f.ks s.fdtP [] 0 = false)
    (stream : List Pkt) (j n : Nat) (ps1 ps2 : List Pkt)
    (hjoin : (stream.drop j).take n = ps1 ++ ps2)
    (hgenF : ∀ p, p ∈ stream → p.toi = 0 → p.fdtId = f.id → Genuine (fdtObj s f) (toSym p) ∧ p.close = false)
    (hgenO : ∀ q, q ∈ osyms o stream → Genuine o q)
    (hcar : ∀ q, q ∈ osyms o stream → q.close = false)
    (hwhole : AllDec cF (fdtObj s f) (fsyms f.id ps1))
    (hcycle : AllDec cO o (osyms o ps2))
    (hsome : osyms o ps2 ≠ []) :
    1 ≤ (observe cF.canDecode cO.canDecode rc s o ((stream.drop j).take n)).completes := by
  have hmem : ∀ p, p ∈ ps1 ++ ps2 → p ∈ stream := by
    intro p hp; rw [← hjoin] at hp
    exact List.mem_of_mem_drop (List.mem_of_mem_take hp)
  have hnc : ∀ q, q ∈ osyms o (ps1 ++ ps2) → q.close = false := by
    intro q hq
    obtain ⟨p, hp, ht, rfl⟩ := mem_osyms.mp hq
    exact hcar _ (mem_osyms.mpr ⟨p, hmem p hp, ht, rfl⟩)
  rw [hjoin]
  apply stream_core cF cO rc s o hto hN hfit hall f hfind hfN hflook hfresh ps1 ps2
  · intro p hp; exact hgenF p (hmem p (List.mem_append_left _ hp))
  · exact hwhole
  · intro q hq; exact hnc q (by rw [osyms_append]; exact List.mem_append_left _ hq)
  · intro q hq
    obtain ⟨p, hp, ht, rfl⟩ := mem_osyms.mp hq
    exact hgenO _ (mem_osyms.mpr ⟨p, hmem p hp, ht, rfl⟩)
  · intro a q b hab hq
    have : q ∈ osyms o (ps1 ++ ps2) := by rw [hab]; simp
    rw [hnc q this] at hq; exact absurd hq (by simp)
  · apply allDec_mono cO o _ _ _ hcycle
    intro q hq; rw [osyms_append]; exact List.mem_append_right _ hq
  · rw [osyms_append]
    intro h
    exact hsome (List.append_eq_nil_iff.mp h).2

/-- **C16, stream level, EVERY object (empty ones included), every join offset.** -/
theorem late_join_two_cycles_stream (cF cO : Codec) (rc : RxCfg) (s : SessCfg) (o : ObjCfg)
    (hto : o.toi ≠ 0) (hfit : Fits rc o)
    (hall : ∀ f, f ∈ s.fdts → f.files.contains o.toi = true)
    (f : FdtCfg) (hfind : s.fdts.find? (fun x => x.id == f.id) = some f)
    (hfN : f.ks.isEmpty = false) (hflook : f.ks.size ≤ rc.maxLook)
    (hfresh : blockDone cF.canDecode f.ks s.fdtP [] 0 = false)
    (stream : List Pkt) (j n : Nat) (ps1 ps2 : List Pkt)
    (hjoin : (stream.drop j).take n = ps1 ++ ps2)
    (hgenF : ∀ p, p ∈ stream → p.toi = 0 → p.fdtId = f.id → Genuine (fdtObj s f) (toSym p) ∧ p.close = false)
    (hgenO : o.ks.isEmpty = false → ∀ q, q ∈ osyms o stream → Genuine o q)
    (hcar : o.ks.isEmpty = false → ∀ q, q ∈ osyms o stream → q.close = false)
    (hwhole : AllDec cF (fdtObj s f) (fsyms f.id ps1))
    (hcycle : AllDec cO o (osyms o ps2))
    (hsome : osyms o ps2 ≠ []) :
    1 ≤ (observe cF.canDecode cO.canDecode rc s o ((stream.drop j).take n)).completes := by
  by_cases hN : o.ks.isEmpty = false
  · exact late_join_two_cycles_stream_nonempty cF cO rc s o hto hN hfit hall f hfind hfN hflook hfresh stream j n ps1 ps2
      hjoin hgenF (hgenO hN) (hcar hN) hwhole hcycle hsome
  · have hE : o.ks.isEmpty = true := by simpa using hN
    have hmem : ∀ p, p ∈ ps1 ++ ps2 → p ∈ stream := by
      intro p hp; rw [← hjoin] at hp
      exact List.mem_of_mem_drop (List.mem_of_mem_take hp)
    rw [hjoin]
    exact stream_core_empty cF cO rc s o hto hE hall f hfind hfN hflook hfresh ps1 ps2
      (fun p hp => hgenF p (hmem p (List.mem_append_left _ hp))) hwhole hsome

/-- **C16 for the receiver as configured** (packet-cache limit = block limit = `object_max_cache_size`):
    `late_join_two_cycles_stream` with the resource hypothesis in bytes (`FitsBytes`).  A late joiner that
    misses a symbol of block 0 must hold every later block until block 0 comes again, so the bytes accounted
    for ALL blocks have to fit `object_max_cache_size`; a larger object can be lost for ever (finding e2e-2,
    `object_larger_than_cache_never_delivered`). -/
theorem late_join_two_cycles_real (cF cO : Codec) (rc : RxCfg) (s : SessCfg) (o : ObjCfg)
    (hto : o.toi ≠ 0)
    (hall : ∀ f, f ∈ s.fdts → f.files.contains o.toi = true)
    (f : FdtCfg) (hfind : s.fdts.find? (fun x => x.id == f.id) = some f)
    (hfN : f.ks.isEmpty = false) (hflook : f.ks.size ≤ rc.maxLook)
    (hfresh : blockDone cF.canDecode f.ks s.fdtP [] 0 = false)
    (stream : List Pkt) (j n : Nat) (ps1 ps2 : List Pkt)
    (hfit : FitsBytes rc o ((stream.drop j).take n))
    (hjoin : (stream.drop j).take n = ps1 ++ ps2)
    (hgenF : ∀ p, p ∈ stream → p.toi = 0 → p.fdtId = f.id → Genuine (fdtObj s f) (toSym p) ∧ p.close = false)
    (hgenO : o.ks.isEmpty = false → ∀ q, q ∈ osyms o stream → Genuine o q)
    (hcar : o.ks.isEmpty = false → ∀ q, q ∈ osyms o stream → q.close = false)
    (hwhole : AllDec cF (fdtObj s f) (fsyms f.id ps1))
    (hcycle : AllDec cO o (osyms o ps2))
    (hsome : osyms o ps2 ≠ []) :
    1 ≤ (observe cF.canDecode cO.canDecode rc s o ((stream.drop j).take n)).completes := by
  rw [observe_unl cF.canDecode cO.canDecode rc s o hto _ hfit.2.2]
  exact late_join_two_cycles_stream cF cO (unl rc) s o hto (fits_unl rc o _ hfit) hall f hfind hfN hflook hfresh
    stream j n ps1 ps2 hjoin hgenF hgenO hcar hwhole hcycle hsome

/-- **C16, session level: sender model ∘ suffix ∘ receiver model.**  The carouselled object's packets in
    the stream all belong to the transfer listing `tr` its block encoder emits when `is_last_transfer`
    is false (`hsrc`); by `emitTransfer_facts` they are genuine and none carries the close-object flag -
    for ANY block sizes, parity, window, scheme with encodable blocks.  Everything else as in
    `late_join_two_cycles_stream`: ANY join offset `j`. -/
theorem late_join_two_cycles_session (cF cO : Codec) (rc : RxCfg) (s : SessCfg) (o : ObjCfg)
    (hto : o.toi ≠ 0) (hN : o.ks.isEmpty = false) (hfit : Fits rc o) (hw : 1 ≤ s.w)
    (hblocks : ∀ (b k : Nat), o.ks[b]? = some k → 1 ≤ k ∧ blockFails o.scheme k o.p = false)
    (tr : List Sym) (h1 : emitTransfer (objEnc s o false) = some tr)
    (hall : ∀ f, f ∈ s.fdts → f.files.contains o.toi = true)
    (f : FdtCfg) (hfind : s.fdts.find? (fun x => x.id == f.id) = some f)
    (hfN : f.ks.isEmpty = false) (hflook : f.ks.size ≤ rc.maxLook)
    (hfresh : blockDone cF.canDecode f.ks s.fdtP [] 0 = false)
    (stream : List Pkt) (j n : Nat) (ps1 ps2 : List Pkt)
    (hjoin : (stream.drop j).take n = ps1 ++ ps2)
    (hgenF : ∀ p, p ∈ stream → p.toi = 0 → p.fdtId = f.id → Genuine (fdtObj s f) (toSym p) ∧ p.close = false)
    (hsrc : ∀ q, q ∈ osyms o stream → q ∈ tr)
    (hwhole : AllDec cF (fdtObj s f) (fsyms f.id ps1))
    (hcycle : AllDec cO o (osyms o ps2))
    (hsome : osyms o ps2 ≠ []) :
    1 ≤ (observe cF.canDecode cO.canDecode rc s o ((stream.drop j).take n)).completes := by
  obtain ⟨a1, _, _, _, a5⟩ := emitTransfer_facts _ (encOK_obj s o false hw hN hblocks) tr h1
  exact late_join_two_cycles_stream_nonempty cF cO rc s o hto hN hfit hall f hfind hfN hflook hfresh stream j n ps1 ps2 hjoin hgenF
    (fun q hq => a1 q (hsrc q hq)) (fun q hq => a5 rfl q (hsrc q hq)) hwhole hcycle hsome

/-- **C16 without the FullFDT hypothesis** (ObjectsBeingTransferred mode: an FDT instance lists only the objects
    in transfer), non-empty objects, receiver as configured.  Only the instance `f` received whole in the first
    cycle has to list the object; `hfew`: at most 9 FDT instances complete between the join and the deadline
    (`countFdt` = the `fdt=<n>` observable; the receiver remembers 10 instances). -/
theorem late_join_two_cycles_any_mode (cF cO : Codec) (rc : RxCfg) (s : SessCfg) (o : ObjCfg)
    (hto : o.toi ≠ 0) (hN : o.ks.isEmpty = false)
    (f : FdtCfg) (hlist : f.files.contains o.toi = true) (hfind : s.fdts.find? (fun x => x.id == f.id) = some f)
    (hfN : f.ks.isEmpty = false) (hflook : f.ks.size ≤ rc.maxLook)
    (hfresh : blockDone cF.canDecode f.ks s.fdtP [] 0 = false)
    (stream : List Pkt) (j n : Nat) (ps1 ps2 : List Pkt)
    (hfit : FitsBytes rc o ((stream.drop j).take n))
    (hfew : countFdt cF.canDecode rc s fdtRx0 ((stream.drop j).take n) ≤ 9)
    (hjoin : (stream.drop j).take n = ps1 ++ ps2)
    (hgenF : ∀ p, p ∈ stream → p.toi = 0 → p.fdtId = f.id → Genuine (fdtObj s f) (toSym p) ∧ p.close = false)
    (hgenO : ∀ q, q ∈ osyms o stream → Genuine o q)
    (hcar : ∀ q, q ∈ osyms o stream → q.close = false)
    (hwhole : AllDec cF (fdtObj s f) (fsyms f.id ps1))
    (hcycle : AllDec cO o (osyms o ps2))
    (hsome : osyms o ps2 ≠ []) :
    1 ≤ (observe cF.canDecode cO.canDecode rc s o ((stream.drop j).take n)).completes := by
  rw [observe_unl cF.canDecode cO.canDecode rc s o hto _ hfit.2.2]
  have hmem : ∀ p, p ∈ ps1 ++ ps2 → p ∈ stream := by
    intro p hp; rw [← hjoin] at hp
    exact List.mem_of_mem_drop (List.mem_of_mem_take hp)
  have hnc : ∀ q, q ∈ osyms o (ps1 ++ ps2) → q.close = false := by
    intro q hq
    obtain ⟨p, hp, ht, rfl⟩ := mem_osyms.mp hq
    exact hcar _ (mem_osyms.mpr ⟨p, hmem p hp, ht, rfl⟩)
  have hfew' : fdtCount (eventsFor cF.canDecode (unl rc) s o fdtRx0 (ps1 ++ ps2)) ≤ 9 := by
    rw [eventsFor_unl, fdtCount_eventsFor cF.canDecode rc s o hto, ← hjoin]; exact hfew
  rw [hjoin]
  apply stream_core_few cF cO (unl rc) s o hto hN (fits_unl rc o _ hfit) f hlist hfind hfN hflook hfresh ps1 ps2
  · intro p hp; exact hgenF p (hmem p (List.mem_append_left _ hp))
  · exact hwhole
  · intro q hq; exact hnc q (by rw [osyms_append]; exact List.mem_append_left _ hq)
  · intro q hq
    obtain ⟨p, hp, ht, rfl⟩ := mem_osyms.mp hq
    exact hgenO _ (mem_osyms.mpr ⟨p, hmem p hp, ht, rfl⟩)
  · intro a q b hab hq
    have : q ∈ osyms o (ps1 ++ ps2) := by rw [hab]; simp
    rw [hnc q this] at hq; exact absurd hq (by simp)
  · apply allDec_mono cO o _ _ _ hcycle
    intro q hq; rw [osyms_append]; exact List.mem_append_right _ hq
  · rw [osyms_append]
    intro h
    exact hsome (List.append_eq_nil_iff.mp h).2
  · exact hfew'

/-! ### the property as stated: two further full cycles -/

/-- **C16: a receiver that joins at ANY packet boundary has every carouselled object within two further
    full cycles.**  `cycleEnd tois stream i` (Session.lean; the function the model driver and the engine use
    as the deadline) is the end of the first full cycle from position `i`: the shortest prefix of
    `stream.drop i` holding, for the FDT (TOI 0) and every carouselled object (`tois`), one complete transfer
    begun at or after `i`.  For EVERY join offset `j`: if the first full cycle from `j` ends at `d1` and the
    next one at `d2`, the receiver fed `stream[j .. d2)` has completed the object.

    What is asked of the stream is its carousel shape only: between two consecutive (0,0) packets of the
    object lies one transfer listing `tr` of the model's block encoder (`hsegO`; every other packet of the
    object belongs to `tr` too: `hsrc`), and between two consecutive (0,0) FDT packets lies the transfer
    listing of ONE FDT instance of the session (`hsegF`, `hsrcF`) - proved of the model's own merged stream for
    every schedule in `Lemmas/SessionCarousel.lean` (`carousel_segsOK`).  FullFDT (every instance lists the
    object), any decoders meeting the contract, any block structure / parity / interleave window, in-band or
    FDT-only OTI, the resource bound in bytes (`FitsBytes`; finding e2e-2 beyond it). -/
theorem late_join_within_two_cycles (cF cO : Codec) (rc : RxCfg) (s : SessCfg) (o : ObjCfg)
    (hto : o.toi ≠ 0) (hN : o.ks.isEmpty = false) (hw : 1 ≤ s.w)
    (hblocks : ∀ (b k : Nat), o.ks[b]? = some k → 1 ≤ k ∧ blockFails o.scheme k o.p = false)
    (tr : List Sym) (h1 : emitTransfer (objEnc s o false) = some tr)
    (hall : ∀ f, f ∈ s.fdts → f.files.contains o.toi = true)
    (hfd : ∀ f, f ∈ s.fdts → s.fdts.find? (fun x => x.id == f.id) = some f ∧ f.ks.isEmpty = false ∧
      f.ks.size ≤ rc.maxLook ∧ blockDone cF.canDecode f.ks s.fdtP [] 0 = false ∧
      ∀ (b k : Nat), f.ks[b]? = some k → 1 ≤ k ∧ blockFails s.fdtScheme k s.fdtP = false)
    (stream : List Pkt) (tois : List Nat) (h0 : 0 ∈ tois) (ho : o.toi ∈ tois)
    (j d1 d2 : Nat) (hc1 : cycleEnd tois stream j = some d1) (hc2 : cycleEnd tois stream d1 = some d2)
    (hfit : FitsBytes rc o ((stream.drop j).take (d2 - j)))
    (hsegO : SegsOK (fun p => p.toi == o.toi) (fun L => L.map toSym = tr) stream)
    (hsrc : ∀ q, q ∈ osyms o stream → q ∈ tr)
    (hsegF : SegsOK (fun p => p.toi == 0)
      (fun L => ∃ f, f ∈ s.fdts ∧ (∀ p, p ∈ L → p.fdtId = f.id) ∧ emitTransfer (fdtEnc s f) = some (L.map toSym)) stream)
    (hsrcF : ∀ f, f ∈ s.fdts → ∃ T, emitTransfer (fdtEnc s f) = some T ∧
      ∀ p, p ∈ stream → p.toi = 0 → p.fdtId = f.id → toSym p ∈ T) :
    1 ≤ (observe cF.canDecode cO.canDecode rc s o ((stream.drop j).take (d2 - j))).completes := by
  obtain ⟨hj1, hs1⟩ := cycleEnd_spec tois stream j d1 hc1
  obtain ⟨hj2, hs2⟩ := cycleEnd_spec tois stream d1 d2 hc2
  have hjoin := drop_take_split stream j d1 d2 hj1 hj2
  -- the FDT instance received whole in the first cycle
  obtain ⟨A, p0, M, p1, R, hps, hp0, hst0, hp1, hst1, hM, hin⟩ := hs1 0 h0
  have hstream : stream = (stream.take j ++ A) ++ p0 :: (M ++ p1 :: R) := by
    rw [List.append_assoc, ← hps, List.take_append_drop]
  obtain ⟨f, hf, hid, hemit⟩ := hsegF _ p0 M p1 R hstream (by simp [hp0]) hst0 (by simp [hp1]) hst1
    (by intro q hq hq2; exact hM q hq (by simpa using hq2))
  obtain ⟨hfind, hfN, hflook, hfresh, hfblocks⟩ := hfd f hf
  obtain ⟨_, hdecF⟩ := fdt_emit_facts cF s f hw hfN hfblocks _ hemit
  have hwhole : AllDec cF (fdtObj s f) (fsyms f.id ((stream.drop j).take (d1 - j))) := by
    apply allDec_mono cF _ _ _ _ hdecF
    intro q hq
    obtain ⟨p, hp, rfl⟩ := List.mem_map.mp hq
    have hp' := hin p hp
    have ht : p.toi = 0 := by simpa using (List.mem_filter.mp hp).2
    unfold fsyms
    exact List.mem_map.mpr ⟨p, List.mem_filter.mpr ⟨hp', by simp [ht, hid p hp]⟩, rfl⟩
  -- one whole transfer of the object in the second cycle
  obtain ⟨A2, q0, M2, q1, R2, hps2, hq0, hst2, hq1, hst3, hM2, hin2⟩ := hs2 o.toi ho
  have hstream2 : stream = (stream.take d1 ++ A2) ++ q0 :: (M2 ++ q1 :: R2) := by
    rw [List.append_assoc, ← hps2, List.take_append_drop]
  have htr := hsegO _ q0 M2 q1 R2 hstream2 (by simp [hq0]) hst2 (by simp [hq1]) hst3
    (by intro q hq hq2; exact hM2 q hq (by simpa using hq2))
  have hTok := transferOK_of_emit cO s o false hw hN hblocks tr h1
  have hsub : ∀ q, q ∈ tr → q ∈ osyms o ((stream.drop d1).take (d2 - d1)) := by
    intro q hq
    rw [← htr] at hq
    obtain ⟨p, hp, rfl⟩ := List.mem_map.mp hq
    have ht : p.toi = o.toi := by simpa using (List.mem_filter.mp hp).2
    exact mem_osyms.mpr ⟨p, hin2 p hp, ht, rfl⟩
  have hcycle : AllDec cO o (osyms o ((stream.drop d1).take (d2 - d1))) := allDec_mono cO _ _ _ hsub hTok.dec
  have hsome : osyms o ((stream.drop d1).take (d2 - d1)) ≠ [] := by
    obtain ⟨x, rest, hT, _⟩ := hTok.first
    have := hsub x (by rw [hT]; exact List.mem_cons_self ..)
    intro hnil; rw [hnil] at this; simp at this
  obtain ⟨a1, _, _, _, a5⟩ := emitTransfer_facts _ (encOK_obj s o false hw hN hblocks) tr h1
  -- the packets of the FDT instance are genuine
  obtain ⟨T, hT, hTm⟩ := hsrcF f hf
  obtain ⟨hgF, _⟩ := fdt_emit_facts cF s f hw hfN hfblocks T hT
  exact late_join_two_cycles_real cF cO rc s o hto hall f hfind hfN hflook hfresh stream j (d2 - j) _ _ hfit hjoin
    (fun p hp ht hi => hgF _ (hTm p hp ht hi))
    (fun _ q hq => a1 q (hsrc q hq)) (fun _ q hq => a5 rfl q (hsrc q hq)) hwhole hcycle hsome

/-- a transfer listing of the model's block encoder begins with its (0,0) packet and holds no other -/
theorem emit_oneStart (e : Enc) (he : EncOK e) (T : List Sym) (h : emitTransfer e = some T) : OneStart T := by
  obtain ⟨_, _, _, ⟨c, T', hT, hT'⟩, _⟩ := emitTransfer_facts e he T h
  refine ⟨_, T', hT, rfl, ?_⟩
  intro q hq
  have := hT' q hq
  unfold isStartS
  cases h1 : (q.sbn == 0) <;> cases h2 : (q.esi == 0) <;> simp_all

/-- **C16 on the model's own merged stream, for EVERY schedule.**  `stream = buildStream srcs sched`: the
    scheduler's interleaving `sched` is arbitrary (it is read off the implementation by the driver); the
    object is a carousel source, the session publishes ONE FDT instance `f` (FullFDT, a single `publish`).
    The carousel shape asked by `late_join_within_two_cycles` is then a theorem (`carousel_segsOK`): for every
    join offset `j`, if two further full cycles `d1`, `d2` exist in the stream, the receiver fed
    `stream[j .. d2)` has the object. -/
theorem late_join_within_two_cycles_built (cF cO : Codec) (rc : RxCfg) (s : SessCfg) (o : ObjCfg)
    (hto : o.toi ≠ 0) (hN : o.ks.isEmpty = false) (hw : 1 ≤ s.w)
    (hblocks : ∀ (b k : Nat), o.ks[b]? = some k → 1 ≤ k ∧ blockFails o.scheme k o.p = false)
    (tr trF : List Sym) (h1 : emitTransfer (objEnc s o false) = some tr)
    (f : FdtCfg) (hfs : s.fdts = [f]) (hlists : f.files.contains o.toi = true)
    (hfN : f.ks.isEmpty = false) (hflook : f.ks.size ≤ rc.maxLook)
    (hfresh : blockDone cF.canDecode f.ks s.fdtP [] 0 = false)
    (hfblocks : ∀ (b k : Nat), f.ks[b]? = some k → 1 ≤ k ∧ blockFails s.fdtScheme k s.fdtP = false)
    (h2 : emitTransfer (fdtEnc s f) = some trF)
    (sched : List Slot) (srcs : List Src) (stream : List Pkt)
    (hb : buildStream srcs sched = some stream)
    (hno0 : ∀ k, k ∈ sched → k ≠ Slot.obj 0)
    (hone : ∀ id, Slot.fdt id ∈ sched → id = f.id)
    (xo : Src) (hxo : findSrc srcs (Slot.obj o.toi) = some xo) (hco : xo.carousel = true) (htro : xo.tr = tr) (hro : xo.rest = [])
    (xf : Src) (hxf : findSrc srcs (Slot.fdt f.id) = some xf) (hcf : xf.carousel = true) (htrf : xf.tr = trF) (hrf : xf.rest = [])
    (tois : List Nat) (h0 : 0 ∈ tois) (ho : o.toi ∈ tois)
    (j d1 d2 : Nat) (hc1 : cycleEnd tois stream j = some d1) (hc2 : cycleEnd tois stream d1 = some d2)
    (hfit : FitsBytes rc o ((stream.drop j).take (d2 - j))) :
    1 ≤ (observe cF.canDecode cO.canDecode rc s o ((stream.drop j).take (d2 - j))).completes := by
  have hselO : ∀ sy, (fun p : Pkt => p.toi == o.toi) (mkPkt (Slot.obj o.toi) sy) = true := by
    intro sy; simp [mkPkt]
  have hothO : ∀ k', k' ∈ sched → k' ≠ Slot.obj o.toi → ∀ sy, (fun p : Pkt => p.toi == o.toi) (mkPkt k' sy) = false := by
    intro k' _ hk' sy
    cases k' with
    | fdt id => simp only [mkPkt]; exact beq_false_of_ne (fun h => hto h.symm)
    | obj t => simp only [mkPkt]; exact beq_false_of_ne (fun h => hk' (by rw [h]))
  have hselF : ∀ sy, (fun p : Pkt => p.toi == 0) (mkPkt (Slot.fdt f.id) sy) = true := by
    intro sy; simp [mkPkt]
  have hothF : ∀ k', k' ∈ sched → k' ≠ Slot.fdt f.id → ∀ sy, (fun p : Pkt => p.toi == 0) (mkPkt k' sy) = false := by
    intro k' hk hk' sy
    cases k' with
    | fdt id => exact absurd (by rw [hone id hk]) hk'
    | obj t => simp only [mkPkt]; exact beq_false_of_ne (fun h => hno0 _ hk (by rw [h]))
  have hokO := encOK_obj s o false hw hN hblocks
  have hneF : f.ks.size ≠ 0 := by
    intro h0
    have := Array.isEmpty_iff_size_eq_zero.mpr h0
    rw [this] at hfN; exact absurd hfN (by simp)
  have hokF : EncOK (fdtEnc s f) := ⟨hw, by simp only [fdtEnc]; omega, hfblocks⟩
  have hfmem : ∀ g, g ∈ s.fdts → g = f := by intro g hg; rw [hfs] at hg; simpa using hg
  -- every TOI-0 packet of the stream belongs to instance f
  have hid : ∀ p, p ∈ stream → p.toi = 0 → p.fdtId = f.id := by
    intro p hp ht
    obtain ⟨k, sy, hk, rfl⟩ := buildStream_mem sched srcs stream hb p hp
    cases k with
    | fdt id => simp only [mkPkt]; exact hone id hk
    | obj t => simp only [mkPkt] at ht; exact absurd (by rw [ht]) (hno0 _ hk)
  have hsegF0 := carousel_segsOK (Slot.fdt f.id) (fun p : Pkt => p.toi == 0) hselF trF (emit_oneStart _ hokF trF h2) sched srcs stream hothF hb
    xf hxf hcf htrf hrf
  refine late_join_within_two_cycles cF cO rc s o hto hN hw hblocks tr h1 ?_ ?_ stream tois h0 ho j d1 d2 hc1 hc2 hfit
    (carousel_segsOK (Slot.obj o.toi) (fun p : Pkt => p.toi == o.toi) hselO tr (emit_oneStart _ hokO tr h1) sched srcs stream hothO hb xo hxo hco htro hro)
    ?_ ?_ ?_
  · intro g hg; rw [hfmem g hg]; exact hlists
  · intro g hg
    rw [hfmem g hg]
    exact ⟨by rw [hfs]; simp, hfN, hflook, hfresh, hfblocks⟩
  · intro q hq
    exact carousel_mem (Slot.obj o.toi) (fun p : Pkt => p.toi == o.toi) hselO tr sched srcs stream hothO hb xo hxo hco htro hro q hq
  · intro A p0 M p1 R hst a1 a2 a3 a4 a5
    refine ⟨f, by rw [hfs]; simp, ?_, ?_⟩
    · intro p hp
      obtain ⟨hpm, hps⟩ := List.mem_filter.mp hp
      have : p ∈ stream := by
        rw [hst]
        rcases List.mem_cons.mp hpm with rfl | hpm
        · simp
        · simp [hpm]
      exact hid p this (by simpa using hps)
    · rw [hsegF0 A p0 M p1 R hst a1 a2 a3 a4 a5]; exact h2
  · intro g hg
    rw [hfmem g hg]
    refine ⟨trF, h2, ?_⟩
    intro p hp ht _
    apply carousel_mem (Slot.fdt f.id) (fun p : Pkt => p.toi == 0) hselF trF sched srcs stream hothF hb xf hxf hcf htrf hrf
    exact List.mem_map.mpr ⟨p, List.mem_filter.mpr ⟨hp, by simp [ht]⟩, rfl⟩

/-- **C16 on exactly what the model driver runs**: `srcs = mkSrcs s` (one source per accepted object and per FDT
    instance, listings from the model's block encoder), `stream = buildStream srcs sched` for the schedule
    `sched` read off the implementation (ANY list of slots), deadline `cycleEnd ∘ cycleEnd`.  A carouselled
    object `o` of a session that publishes one FDT instance listing it is completed by a receiver joining at
    ANY offset `j` - whenever two further full cycles exist in the stream. -/
theorem late_join_within_two_cycles_mk (cF cO : Codec) (rc : RxCfg) (s : SessCfg) (o : ObjCfg)
    (hmem : o ∈ s.objs) (huniq : ∀ o', o' ∈ s.objs → o'.toi = o.toi → o' = o) (hcar : o.carousel = true)
    (hto : o.toi ≠ 0) (hN : o.ks.isEmpty = false) (hw : 1 ≤ s.w)
    (hblocks : ∀ (b k : Nat), o.ks[b]? = some k → 1 ≤ k ∧ blockFails o.scheme k o.p = false)
    (f : FdtCfg) (hfs : s.fdts = [f]) (hlists : f.files.contains o.toi = true)
    (hfN : f.ks.isEmpty = false) (hflook : f.ks.size ≤ rc.maxLook)
    (hfresh : blockDone cF.canDecode f.ks s.fdtP [] 0 = false)
    (hfblocks : ∀ (b k : Nat), f.ks[b]? = some k → 1 ≤ k ∧ blockFails s.fdtScheme k s.fdtP = false)
    (sched : List Slot) (srcs : List Src) (stream : List Pkt)
    (hmk : mkSrcs s = some srcs) (hb : buildStream srcs sched = some stream)
    (hno0 : ∀ k, k ∈ sched → k ≠ Slot.obj 0)
    (hone : ∀ id, Slot.fdt id ∈ sched → id = f.id)
    (tois : List Nat) (h0 : 0 ∈ tois) (ho : o.toi ∈ tois)
    (j d1 d2 : Nat) (hc1 : cycleEnd tois stream j = some d1) (hc2 : cycleEnd tois stream d1 = some d2)
    (hfit : FitsBytes rc o ((stream.drop j).take (d2 - j))) :
    1 ≤ (observe cF.canDecode cO.canDecode rc s o ((stream.drop j).take (d2 - j))).completes := by
  obtain ⟨tr, trLast, h1, _, hxo⟩ := mkSrcs_obj s srcs hmk o hmem huniq
  obtain ⟨trF, h2, hxf⟩ := mkSrcs_fdt s srcs hmk f (by rw [hfs]; simp)
    (by intro f' hf' _; rw [hfs] at hf'; simpa using hf')
  exact late_join_within_two_cycles_built cF cO rc s o hto hN hw hblocks tr trF h1 f hfs hlists hfN hflook hfresh hfblocks h2
    sched srcs stream hb hno0 hone _ hxo hcar rfl rfl _ hxf rfl rfl rfl tois h0 ho j d1 d2 hc1 hc2 hfit

/-! ### non-vacuity of the session-level theorem: a concrete carousel session -/

/-- one No-Code object of two blocks (2 + 1 symbols), FDT-only OTI, carouselled -/
def exObj : ObjCfg :=
  { toi := 1, scheme := .nocode, ks := #[2, 1], blen := #[8, 4], p := 0, inbandFti := false, transfers := 1,
    carousel := true, noCache := false, pktLen := 36, lastPktLen := 36 }
def exFdt : FdtCfg := { id := 1, ks := #[2], files := [1] }
def exSess : SessCfg := { fdtScheme := .nocode, fdtP := 0, w := 2, objs := [exObj], fdts := [exFdt] }
def exRc : RxCfg := { receiveOnce := true, maxSize := 10485760, pktCap := some 10485760 }
/-- the scheduler's interleaving: FDT (2 packets) and object (3 packets) alternate, four cycles -/
def exSched : List Slot :=
  let c : List Slot := [.fdt 1, .fdt 1, .obj 1, .obj 1, .obj 1]
  c ++ c ++ c ++ c

/-- every hypothesis of `late_join_within_two_cycles_mk` holds on this session for the join offset 3 (in the
    middle of the object, after the FDT instance): the first full cycle from 3 ends at 10, the next at 15 - and
    the model indeed completes the object there (cross-check by evaluation) -/
example : ∃ srcs stream, mkSrcs exSess = some srcs ∧ buildStream srcs exSched = some stream ∧
    cycleEnd [0, 1] stream 3 = some 10 ∧ cycleEnd [0, 1] stream 10 = some 15 ∧
    (observe (canDecodeOf .nocode) (canDecodeOf .nocode) exRc exSess exObj ((stream.drop 3).take (15 - 3))).completes = 1 := by
  refine ⟨_, _, rfl, rfl, ?_, ?_, ?_⟩ <;> decide

example (srcs : List Src) (stream : List Pkt) (hmk : mkSrcs exSess = some srcs) (hb : buildStream srcs exSched = some stream)
    (hc1 : cycleEnd [0, 1] stream 3 = some 10) (hc2 : cycleEnd [0, 1] stream 10 = some 15) :
    1 ≤ (observe (canDecodeOf .nocode) (canDecodeOf .nocode) exRc exSess exObj ((stream.drop 3).take (15 - 3))).completes := by
  have hfit : FitsBytes exRc exObj ((stream.drop 3).take (15 - 3)) := by
    refine ⟨by decide, by decide, Or.inr ?_⟩
    intro cap hcap
    simp only [exRc, Option.some.injEq] at hcap
    subst hcap
    -- at most 12 packets of at most 36 bytes
    have hlen : ((stream.drop 3).take (15 - 3)).length ≤ 12 := by simp [List.length_take]; omega
    have hb : ∀ (l : List Sym), cacheSum exObj l ≤ 36 * l.length := by
      intro l
      induction l with
      | nil => simp [cacheSum]
      | cons a t ih =>
        have : pktBytes exObj a ≤ 36 := by unfold pktBytes; split <;> decide
        simp only [cacheSum, List.length_cons]; omega
    have h2 : (osyms exObj ((stream.drop 3).take (15 - 3))).length ≤ 12 := by
      unfold osyms
      rw [List.length_map]
      exact Nat.le_trans (List.length_filter_le _ _) hlen
    have := hb (osyms exObj ((stream.drop 3).take (15 - 3)))
    omega
  exact late_join_within_two_cycles_mk (codecOf .nocode) (codecOf .nocode) exRc exSess exObj (by simp [exSess])
    (by intro o' ho' _; simpa [exSess] using ho') rfl (by decide) (by decide) (by decide)
    (by intro b k hk; exact ⟨by
          have : b < 2 := by
            have := (Array.getElem?_eq_some_iff.mp hk).1
            simpa [exObj] using this
          have hb : b = 0 ∨ b = 1 := by omega
          rcases hb with rfl | rfl <;> simp [exObj] at hk <;> omega, rfl⟩)
    exFdt rfl (by decide) (by decide) (by decide) (by decide)
    (by intro b k hk; exact ⟨by
          have : b < 1 := by
            have := (Array.getElem?_eq_some_iff.mp hk).1
            simpa [exFdt] using this
          have hb : b = 0 := by omega
          subst hb; simp [exFdt] at hk; omega, rfl⟩)
    exSched srcs stream hmk hb (by decide) (by intro id h; simp [exSched] at h; simp [exFdt, h]) [0, 1] (by simp) (by simp [exObj]) 3 10 15 hc1 hc2 hfit

/-! ### finding e2e-2: an object larger than the cache, joined late -/

/-- four blocks of two No-Code symbols, 8 bytes each (carouselled: no close-object flag) -/
def bigObj : ObjCfg :=
  { toi := 1, scheme := .nocode, ks := #[2, 2, 2, 2], blen := #[8, 8, 8, 8], p := 0, inbandFti := true, transfers := 1,
    carousel := true, noCache := false, pktLen := 36, lastPktLen := 36 }
/-- `object_max_cache_size` = 16 bytes = two blocks -/
def smallRc : RxCfg := { receiveOnce := true, maxSize := 16, pktCap := some 16 }
def cyc : List Ev :=
  [.pkt ⟨0, 0, false⟩, .pkt ⟨0, 1, false⟩, .pkt ⟨1, 0, false⟩, .pkt ⟨1, 1, false⟩,
   .pkt ⟨2, 0, false⟩, .pkt ⟨2, 1, false⟩, .pkt ⟨3, 0, false⟩, .pkt ⟨3, 1, false⟩]
/-- joined right after the first packet of the object: the rest of that cycle, then five full cycles, an FDT
    instance listing the object before each of them -/
def lateBig : List Ev :=
  .fdt true :: cyc.drop 1 ++ (.fdt true :: cyc) ++ (.fdt true :: cyc) ++ (.fdt true :: cyc) ++ (.fdt true :: cyc) ++ (.fdt true :: cyc)

set_option maxRecDepth 16384 in
/-- **Negation witness of the resource hypothesis (finding e2e-2, `C16:object-larger-than-cache`).**  The object
    (32 bytes, 4 blocks) is twice the cache (16 bytes, 2 blocks): block 0 is incomplete after the join, blocks
    0 and 1 are held, the first packet of block 2 trips the block-allocation limit - the object is dropped and
    re-created from the next packet; two blocks later the limit trips again, on the first packet of block 0 of
    the next cycle: the receiver is phase-locked and the object is NOT delivered after five further full
    cycles (nor ever).  The receiver that joined one packet earlier gets it in the first cycle, and with a
    cache that holds the object (`FitsBytes`) the late joiner gets it in the first full cycle.  Replayed on the
    real receiver at this scale (engine e2e) and at the default 10 MiB with a 21 MB object (reviewer). -/
theorem object_larger_than_cache_never_delivered :
    (runObj (canDecodeOf .nocode) smallRc bigObj {} lateBig).completes = 0 ∧
    0 < (runObj (canDecodeOf .nocode) smallRc bigObj {} lateBig).errors ∧
    (runObj (canDecodeOf .nocode) smallRc bigObj {} (.fdt true :: cyc)).completes = 1 ∧
    (runObj (canDecodeOf .nocode) { smallRc with maxSize := 32 } bigObj {} (.fdt true :: cyc.drop 1 ++ (.fdt true :: cyc))).completes = 1 := by
  refine ⟨by decide, by decide, by decide, by decide⟩

/-! ### D14 (repaired): the empty object -/

def rcOn : RxCfg := { receiveOnce := true, maxSize := 10485760 }

/-- an empty object with in-band FTI: its lone packet per cycle carries FTI and the close-object flag -/
def empty : ObjCfg :=
  { toi := 1, scheme := .nocode, ks := #[], blen := #[], p := 0, inbandFti := true, transfers := 1,
    carousel := true, noCache := false }

/-- the history that was never delivered before the repair of D14 (joined between the FDT and the
    object: the lone packet first) is now delivered by the first packet after the FDT instance -/
theorem empty_object_delivered_after_repair :
    (runObj (canDecodeOf .nocode) rcOn empty {}
      [.pkt ⟨0, 0, true⟩, .fdt true, .pkt ⟨0, 0, true⟩, .fdt true, .pkt ⟨0, 0, true⟩]).completes = 1 ∧
    (runObj (canDecodeOf .nocode) rcOn empty {} [.pkt ⟨0, 0, true⟩, .fdt true]).completes = 0 := by
  decide

/-- non-vacuity: a join in the middle of the object (FDT-only OTI: the packet is cached), one block of
    two symbols -/
example : 1 ≤ (runObj (codecOf .nocode).canDecode rcOn
      { toi := 1, scheme := .nocode, ks := #[2], blen := #[], p := 0, inbandFti := false, transfers := 1, carousel := true, noCache := false }
      {} ([.pkt ⟨0, 1, false⟩] ++ Ev.fdt true :: ([] ++ [.pkt ⟨0, 0, false⟩, .pkt ⟨0, 1, false⟩]))).completes := by
  apply late_join_two_cycles_nonempty (codecOf .nocode) rcOn _ (by decide) (fits_of_noacct _ _ (by decide) rfl)
  · intro s hs
    simp at hs
    rcases hs with rfl | rfl | rfl <;> exact ⟨2, by decide, by decide⟩
  · intro s hs
    simp at hs
    rcases hs with rfl | rfl | rfl <;> rfl
  · left; exact ⟨_, List.mem_cons_self ..⟩
  · intro b hb
    have : b = 0 := by simp at hb; omega
    subst this
    exact ⟨2, by decide, by decide⟩

end Flute.Props.C16
