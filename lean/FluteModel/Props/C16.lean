import FluteModel.Lemmas.SessionLife
import FluteModel.Lemmas.SessionCodec
/-
  C16 — carousel late join: a receiver that starts listening at any packet boundary delivers every
  carouselled object within two further full cycles.

  Model: FluteModel/Session.lean; the late joiner is a fresh receiver (`{}`) fed a suffix of the
  stream.  Seen from one object: `runObj` over `Ev.fdt lists` / `Ev.pkt s`.
-/
namespace Flute.Props.C16
open Flute Flute.Session Flute.Lemmas.Session

/-- **C16 (receiver side, every join point).**  `a ++ fdt :: b ++ c2` is everything a receiver that
    joined at an arbitrary packet boundary sees of one carouselled, non-empty object until the end of
    the second full cycle after the join: whatever is left of the running cycle and the first full cycle
    (`a ++ fdt :: b`: it contains a whole transfer of the FDT, so an instance listing the object
    completes in it - `Ev.fdt true`; packets of the object that arrived before are cached (FDT-only OTI)
    or decoded without writer (in-band FTI) and are attached now), then the second full cycle `c2`,
    which contains a whole transfer of the object, i.e. decodable symbols of every block.  Carousel
    packets carry no close-object flag (`is_last_transfer` is false).  If the object is not alive when
    the FDT instance completes, fewer than 10 FDT instances complete before its next packet
    (`fdt_current` keeps 10).  Then the object writer gets `complete` - for every decoder satisfying
    the contract, every join point, whatever is interleaved. -/
theorem late_join_two_cycles_nonempty (c : Codec) (rc : RxCfg) (o : ObjCfg)
    (hN : o.ks.isEmpty = false) (hfit : Fits rc o) (a b c2 : List Ev)
    (hgen : ∀ s, Ev.pkt s ∈ a ++ Ev.fdt true :: (b ++ c2) → Genuine o s)
    (hcar : ∀ s, Ev.pkt s ∈ a ++ Ev.fdt true :: (b ++ c2) → s.close = false)
    (hatt : (∃ s, Ev.pkt s ∈ a) ∨
      ∃ fs rest, b ++ c2 = fs ++ rest ∧ (∀ e, e ∈ fs → ∃ l, e = Ev.fdt l) ∧ KeepsAge 0 fs ∧
        ∃ s rest', rest = Ev.pkt s :: rest')
    (hcycle : AllDec c o (pktSyms c2)) :
    1 ≤ (runObj c.canDecode rc o {} (a ++ Ev.fdt true :: (b ++ c2))).completes := by
  apply recoverable_core c rc o hN hfit a (b ++ c2) hgen
    (fun s hs => hcar s (List.mem_append_left _ hs)) hatt
  · exact closeOK_of_noclose c o _ _ (fun s hs => hcar s (List.mem_append_right _ (List.mem_cons_of_mem _ hs)))
  · apply allDec_mono c o _ _ _ hcycle
    intro q hq
    rw [mem_pktSyms] at hq ⊢
    simp [hq]

/-- **C16 (receiver side), every join point, EVERY object - empty ones included** (D14 repaired, /repo
    7ec1ac7).  As `late_join_two_cycles_nonempty`; for an EMPTY object (no block; its lone packet per cycle
    carries the close-object flag) nothing is asked of the packets: the first packet of the object
    after the completion of an FDT instance listing it delivers it, whatever arrived before. -/
theorem late_join_two_cycles (c : Codec) (rc : RxCfg) (o : ObjCfg) (hfit : Fits rc o) (a b c2 : List Ev)
    (hgen : o.ks.isEmpty = false → ∀ s, Ev.pkt s ∈ a ++ Ev.fdt true :: (b ++ c2) → Genuine o s)
    (hcar : o.ks.isEmpty = false → ∀ s, Ev.pkt s ∈ a ++ Ev.fdt true :: (b ++ c2) → s.close = false)
    (hatt : (o.ks.isEmpty = false ∧ ∃ s, Ev.pkt s ∈ a) ∨
      ∃ fs rest, b ++ c2 = fs ++ rest ∧ (∀ e, e ∈ fs → ∃ l, e = Ev.fdt l) ∧ KeepsAge 0 fs ∧
        ∃ s rest', rest = Ev.pkt s :: rest')
    (hcycle : AllDec c o (pktSyms c2)) :
    1 ≤ (runObj c.canDecode rc o {} (a ++ Ev.fdt true :: (b ++ c2))).completes := by
  by_cases hN : o.ks.isEmpty = false
  · apply late_join_two_cycles_nonempty c rc o hN hfit a b c2 (hgen hN) (hcar hN) ?_ hcycle
    rcases hatt with ⟨_, h⟩ | h
    · exact Or.inl h
    · exact Or.inr h
  · have hE : o.ks.isEmpty = true := by simpa using hN
    rcases hatt with ⟨h, _⟩ | ⟨fs, rest, h1, h2, h3, s, rest', h4⟩
    · exact absurd h hN
    · rw [h1, h4]
      exact empty_delivered c rc o hE a fs rest' s h2 h3

/-- **C16, stream level (FullFDT carousel), every join offset.**  `stream` = what the sender emits,
    `j` = the join offset (ANY), `n` = how much the late joiner is fed, written `ps1 ++ ps2` at the end of
    the first full cycle after the join: `ps1` contains a whole transfer of an FDT instance `f` (hence
    decodable symbols of each of its blocks: `hwhole`), `ps2` - the second full cycle - a whole transfer of
    the object (hence decodable symbols of each block: `hcycle`).  Carousel packets carry no close-object
    flag (`hcar`; the lone packet of an EMPTY object does - finding D14 - hence `hN`).  Then the object
    writer gets `complete`. -/
theorem late_join_two_cycles_stream_nonempty (cF cO : Codec) (rc : RxCfg) (s : SessCfg) (o : ObjCfg)
    (hto : o.toi ≠ 0) (hN : o.ks.isEmpty = false) (hfit : Fits rc o)
    (hall : ∀ f, f ∈ s.fdts → f.files.contains o.toi = true)
    (f : FdtCfg) (hfind : s.fdts.find? (fun x => x.id == f.id) = some f)
    (hfN : f.ks.isEmpty = false) (hflook : f.ks.size ≤ rc.maxLook)
    (hfresh : blockDone cF.canDecode f.ks s.fdtP [] 0 = false)
    (stream : List Pkt) (j n : Nat) (ps1 ps2 : List Pkt)
    (hjoin : (stream.drop j).take n = ps1 ++ ps2)
    (hgenF : ∀ p, p ∈ stream → p.toi = 0 → p.fdtId = f.id → Genuine (fdtObj s f) (toSym p) ∧ p.close = false)
    (hgenO : ∀ q, q ∈ osyms o stream → Genuine o q)
    (hcar : ∀ q, q ∈ osyms o stream → q.close = false)
    (hwhole : AllDec cF (fdtObj s f) (fsyms f.id ps1))
    (hcycle : AllDec cO o (osyms o ps2))
    (hsome : osyms o ps2 ≠ []) :
    1 ≤ (observe cF.canDecode cO.canDecode rc s o ((stream.drop j).take n)).completes := by
  have hmem : ∀ p, p ∈ ps1 ++ ps2 → p ∈ stream := by
    intro p hp; rw [← hjoin] at hp
    exact List.mem_of_mem_drop (List.mem_of_mem_take hp)
  have hnc : ∀ q, q ∈ osyms o (ps1 ++ ps2) → q.close = false := by
    intro q hq
    obtain ⟨p, hp, ht, rfl⟩ := mem_osyms.mp hq
    exact hcar _ (mem_osyms.mpr ⟨p, hmem p hp, ht, rfl⟩)
  rw [hjoin]
  apply stream_core cF cO rc s o hto hN hfit hall f hfind hfN hflook hfresh ps1 ps2
  · intro p hp; exact hgenF p (hmem p (List.mem_append_left _ hp))
  · exact hwhole
  · intro q hq; exact hnc q (by rw [osyms_append]; exact List.mem_append_left _ hq)
  · intro q hq
    obtain ⟨p, hp, ht, rfl⟩ := mem_osyms.mp hq
    exact hgenO _ (mem_osyms.mpr ⟨p, hmem p hp, ht, rfl⟩)
  · intro a q b hab hq
    have : q ∈ osyms o (ps1 ++ ps2) := by rw [hab]; simp
    rw [hnc q this] at hq; exact absurd hq (by simp)
  · apply allDec_mono cO o _ _ _ hcycle
    intro q hq; rw [osyms_append]; exact List.mem_append_right _ hq
  · rw [osyms_append]
    intro h
    exact hsome (List.append_eq_nil_iff.mp h).2

/-- **C16, stream level, EVERY object (empty ones included), every join offset.** -/
theorem late_join_two_cycles_stream (cF cO : Codec) (rc : RxCfg) (s : SessCfg) (o : ObjCfg)
    (hto : o.toi ≠ 0) (hfit : Fits rc o)
    (hall : ∀ f, f ∈ s.fdts → f.files.contains o.toi = true)
    (f : FdtCfg) (hfind : s.fdts.find? (fun x => x.id == f.id) = some f)
    (hfN : f.ks.isEmpty = false) (hflook : f.ks.size ≤ rc.maxLook)
    (hfresh : blockDone cF.canDecode f.ks s.fdtP [] 0 = false)
    (stream : List Pkt) (j n : Nat) (ps1 ps2 : List Pkt)
    (hjoin : (stream.drop j).take n = ps1 ++ ps2)
    (hgenF : ∀ p, p ∈ stream → p.toi = 0 → p.fdtId = f.id → Genuine (fdtObj s f) (toSym p) ∧ p.close = false)
    (hgenO : o.ks.isEmpty = false → ∀ q, q ∈ osyms o stream → Genuine o q)
    (hcar : o.ks.isEmpty = false → ∀ q, q ∈ osyms o stream → q.close = false)
    (hwhole : AllDec cF (fdtObj s f) (fsyms f.id ps1))
    (hcycle : AllDec cO o (osyms o ps2))
    (hsome : osyms o ps2 ≠ []) :
    1 ≤ (observe cF.canDecode cO.canDecode rc s o ((stream.drop j).take n)).completes := by
  by_cases hN : o.ks.isEmpty = false
  · exact late_join_two_cycles_stream_nonempty cF cO rc s o hto hN hfit hall f hfind hfN hflook hfresh stream j n ps1 ps2
      hjoin hgenF (hgenO hN) (hcar hN) hwhole hcycle hsome
  · have hE : o.ks.isEmpty = true := by simpa using hN
    have hmem : ∀ p, p ∈ ps1 ++ ps2 → p ∈ stream := by
      intro p hp; rw [← hjoin] at hp
      exact List.mem_of_mem_drop (List.mem_of_mem_take hp)
    rw [hjoin]
    exact stream_core_empty cF cO rc s o hto hE hall f hfind hfN hflook hfresh ps1 ps2
      (fun p hp => hgenF p (hmem p (List.mem_append_left _ hp))) hwhole hsome

/-- **C16, session level: sender model ∘ suffix ∘ receiver model.**  The carouselled object's packets in
    the stream all belong to the transfer listing `tr` its block encoder emits when `is_last_transfer`
    is false (`hsrc`); by `emitTransfer_facts` they are genuine and none carries the close-object flag -
    for ANY block sizes, parity, window, scheme with encodable blocks.  Everything else as in
    `late_join_two_cycles_stream`: ANY join offset `j`. -/
theorem late_join_two_cycles_session (cF cO : Codec) (rc : RxCfg) (s : SessCfg) (o : ObjCfg)
    (hto : o.toi ≠ 0) (hN : o.ks.isEmpty = false) (hfit : Fits rc o) (hw : 1 ≤ s.w)
    (hblocks : ∀ (b k : Nat), o.ks[b]? = some k → 1 ≤ k ∧ blockFails o.scheme k o.p = false)
    (tr : List Sym) (h1 : emitTransfer (objEnc s o false) = some tr)
    (hall : ∀ f, f ∈ s.fdts → f.files.contains o.toi = true)
    (f : FdtCfg) (hfind : s.fdts.find? (fun x => x.id == f.id) = some f)
    (hfN : f.ks.isEmpty = false) (hflook : f.ks.size ≤ rc.maxLook)
    (hfresh : blockDone cF.canDecode f.ks s.fdtP [] 0 = false)
    (stream : List Pkt) (j n : Nat) (ps1 ps2 : List Pkt)
    (hjoin : (stream.drop j).take n = ps1 ++ ps2)
    (hgenF : ∀ p, p ∈ stream → p.toi = 0 → p.fdtId = f.id → Genuine (fdtObj s f) (toSym p) ∧ p.close = false)
    (hsrc : ∀ q, q ∈ osyms o stream → q ∈ tr)
    (hwhole : AllDec cF (fdtObj s f) (fsyms f.id ps1))
    (hcycle : AllDec cO o (osyms o ps2))
    (hsome : osyms o ps2 ≠ []) :
    1 ≤ (observe cF.canDecode cO.canDecode rc s o ((stream.drop j).take n)).completes := by
  obtain ⟨a1, _, _, _, a5⟩ := emitTransfer_facts _ (encOK_obj s o false hw hN hblocks) tr h1
  exact late_join_two_cycles_stream_nonempty cF cO rc s o hto hN hfit hall f hfind hfN hflook hfresh stream j n ps1 ps2 hjoin hgenF
    (fun q hq => a1 q (hsrc q hq)) (fun q hq => a5 rfl q (hsrc q hq)) hwhole hcycle hsome

/-! ### D14 (repaired): the empty object -/

def rcOn : RxCfg := { receiveOnce := true, maxSize := 10485760 }

/-- an empty object with in-band FTI: its lone packet per cycle carries FTI and the close-object flag -/
def empty : ObjCfg :=
  { toi := 1, scheme := .nocode, ks := #[], blen := #[], p := 0, inbandFti := true, transfers := 1,
    carousel := true, noCache := false }

/-- the history that was never delivered before the repair of D14 (joined between the FDT and the
    object: the lone packet first) is now delivered by the first packet after the FDT instance -/
theorem empty_object_delivered_after_repair :
    (runObj (canDecodeOf .nocode) rcOn empty {}
      [.pkt ⟨0, 0, true⟩, .fdt true, .pkt ⟨0, 0, true⟩, .fdt true, .pkt ⟨0, 0, true⟩]).completes = 1 ∧
    (runObj (canDecodeOf .nocode) rcOn empty {} [.pkt ⟨0, 0, true⟩, .fdt true]).completes = 0 := by
  decide

/-- non-vacuity: a join in the middle of the object (FDT-only OTI: the packet is cached), one block of
    two symbols -/
example : 1 ≤ (runObj (codecOf .nocode).canDecode rcOn
      { toi := 1, scheme := .nocode, ks := #[2], blen := #[], p := 0, inbandFti := false, transfers := 1, carousel := true, noCache := false }
      {} ([.pkt ⟨0, 1, false⟩] ++ Ev.fdt true :: ([] ++ [.pkt ⟨0, 0, false⟩, .pkt ⟨0, 1, false⟩]))).completes := by
  apply late_join_two_cycles_nonempty (codecOf .nocode) rcOn _ (by decide) (fits_of_noacct _ _ (by decide) rfl)
  · intro s hs
    simp at hs
    rcases hs with rfl | rfl | rfl <;> exact ⟨2, by decide, by decide⟩
  · intro s hs
    simp at hs
    rcases hs with rfl | rfl | rfl <;> rfl
  · left; exact ⟨_, List.mem_cons_self ..⟩
  · intro b hb
    have : b = 0 := by simp at hb; omega
    subst this
    exact ⟨2, by decide, by decide⟩

end Flute.Props.C16
