import FluteModel.Lemmas.SpecLct
import FluteModel.Lemmas.Ntp
import FluteModel.Props.C04Wire   -- parser totality (C04, wire part) is built and checked together with C06
/-
  C06  ALC/LCT wire format: round trips, and equality with an independent RFC implementation
  (`FluteModel/Spec/*.lean`: encoder + decoder written from the RFC diagrams as `(width, value)` bit fields).

  All theorems quantify over the whole field ranges (no size bound other than the field widths).
  They are about the model of the tree AFTER the `fix:` commits for D7 (HEL ≥ 64), D13 (SCT rounding),
  D23 (Raptor EXT_FTI layout); the model is tied to the tree by the `wire` correspondence engine.
-/
namespace Flute.Props.C06
open Flute Flute.Bytes Flute.Lct Flute.Spec Flute.Ntp

/-! ## LCT header (RFC 5651 §5.1) -/

/-- **lct_build_eq_spec**: for every CCI < 2^128, TSI < 2^48, TOI < 2^112, codepoint, PSI and flags, the
    bytes `push_lct_header` emits are exactly the RFC 5651 layout of those values for a LEGAL choice of
    the width flags C/S/O/H (every value fits its field, HDR_LEN correct) -/
theorem lct_build_eq_spec (psi cci tsi toi cp : Nat) (co cs : Bool)
    (hpsi : psi < 4) (hcp : cp < 256) (hcci : cci < 2^128) (htsi : tsi < 2^48) (htoi : toi < 2^112) :
    (specOfBuild psi cci tsi toi cp co cs).Valid ∧
    pushLctHeader psi cci tsi toi cp co cs = (specOfBuild psi cci tsi toi cp co cs).encode := by
  obtain ⟨hc, hcv⟩ := cOf_spec cci hcci
  obtain ⟨hs, ho, hh, htv, hov⟩ := soh_spec tsi toi htsi htoi
  have hb1 : b2n co < 2 := by unfold b2n; split <;> omega
  have hb2 : b2n cs < 2 := by unfold b2n; split <;> omega
  have hvalid : (specOfBuild psi cci tsi toi cp co cs).Valid := by
    unfold specOfBuild
    rw [widthFlags_eq]
    refine ⟨rfl, hc, hpsi, hs, ho, hh, hb2, hb1, hcp, ?_, ?_, ?_, ?_, ?_⟩
    · simp only [LctFields.cciBits]
      have : 32 * (cOf (nbBytes128 cci 0) + 1) = 8 * ((cOf (nbBytes128 cci 0) + 1) * 4) := by omega
      rw [this, Nat.pow_mul]; exact hcv
    · simp only [LctFields.tsiBits]
      have : 32 * sOf (nbBytes64 tsi 2) + 16 * hOf (nbBytes64 tsi 2) (nbBytes128 toi 2) =
          8 * (sOf (nbBytes64 tsi 2) * 4 + hOf (nbBytes64 tsi 2) (nbBytes128 toi 2) * 2) := by omega
      rw [this, Nat.pow_mul]; exact htv
    · simp only [LctFields.toiBits]
      have : 32 * oOf (nbBytes128 toi 2) + 16 * hOf (nbBytes64 tsi 2) (nbBytes128 toi 2) =
          8 * (oOf (nbBytes128 toi 2) * 4 + hOf (nbBytes64 tsi 2) (nbBytes128 toi 2) * 2) := by omega
      rw [this, Nat.pow_mul]; exact hov
    · simp only [LctFields.hdrLen, extsWords]; omega
    · intro e he; simp at he
  refine ⟨hvalid, ?_⟩
  rw [pushLctHeader_layout psi cci tsi toi cp co cs hpsi hcp hcci htsi htoi]
  unfold LctFields.encode
  rw [LctFields.encode_diagram _ hvalid]
  simp only [specOfBuild, widthFlags_eq, encodeExts, List.append_nil, LctFields.hdrLen, extsWords]
  simp only [Nat.one_mul, Nat.zero_mul, Nat.add_zero]
  have : 2 + oOf (nbBytes128 toi 2) + sOf (nbBytes64 tsi 2) + hOf (nbBytes64 tsi 2) (nbBytes128 toi 2) +
      cOf (nbBytes128 cci 0) = 1 + (cOf (nbBytes128 cci 0) + 1) +
      (sOf (nbBytes64 tsi 2) + oOf (nbBytes128 toi 2) + hOf (nbBytes64 tsi 2) (nbBytes128 toi 2)) := by omega
  rw [this]

/-- **lct_roundtrip**: whatever follows the header (extensions, payload id, payload), flute's parser
    returns exactly the values given to the builder, with `len` = the header length = `HDR_LEN * 4` -/
theorem lct_roundtrip (psi cci tsi toi cp : Nat) (co cs : Bool) (rest : List Nat)
    (hpsi : psi < 4) (hcp : cp < 256) (hcci : cci < 2^128) (htsi : tsi < 2^48) (htoi : toi < 2^112) :
    let hdr := pushLctHeader psi cci tsi toi cp co cs
    hdr[2]? = some (hdr.length / 4) ∧ hdr.length % 4 = 0 ∧
    parseLctHeader (hdr ++ rest) =
      .ok { len := hdr.length, cci := cci, tsi := tsi, toi := toi, cp := cp,
            closeObject := co, closeSession := cs, headerExtOffset := hdr.length } := by
  obtain ⟨hc, hcv⟩ := cOf_spec cci hcci
  obtain ⟨hs, ho, hh, htv, hov⟩ := soh_spec tsi toi htsi htoi
  have hb1 : b2n co < 2 := by unfold b2n; split <;> omega
  have hb2 : b2n cs < 2 := by unfold b2n; split <;> omega
  intro hdr
  have hl := pushLctHeader_layout psi cci tsi toi cp co cs hpsi hcp hcci htsi htoi
  simp only [] at hl
  generalize hcg : cOf (nbBytes128 cci 0) = c at *
  generalize hsg : sOf (nbBytes64 tsi 2) = s at *
  generalize hog : oOf (nbBytes128 toi 2) = o at *
  generalize hhg : hOf (nbBytes64 tsi 2) (nbBytes128 toi 2) = h at *
  have hlen : hdr.length = 4 + (c + 1) * 4 + (s * 4 + h * 2) + (o * 4 + h * 2) := by
    show (pushLctHeader psi cci tsi toi cp co cs).length = _
    rw [hl]; simp only [List.length_append, List.length_cons, List.length_nil, length_beBytes]; omega
  refine ⟨?_, ?_, ?_⟩
  · show (pushLctHeader psi cci tsi toi cp co cs)[2]? = _
    rw [hlen, hl]
    simp only [List.cons_append, List.getElem?_cons_succ, List.getElem?_cons_zero]
    congr 1; omega
  · omega
  · show parseLctHeader (pushLctHeader psi cci tsi toi cp co cs ++ rest) = _
    rw [hlen, hl]
    have := parse_layout 1 c psi s o h 0 (b2n cs) (b2n co) (2 + o + s + h + c) cp cci tsi toi rest
      (.inl rfl) hc hpsi hs ho hh (by omega) hb2 hb1 hcv htv hov (by omega) (by omega)
    simp only [List.append_assoc] at this ⊢
    rw [show 1 * 16 + c * 4 + psi = 16 + c * 4 + psi by omega,
        show s * 128 + o * 32 + h * 16 + 0 * 4 + b2n cs * 2 + b2n co = s * 128 + o * 32 + h * 16 + b2n cs * 2 + b2n co by omega] at this
    rw [this]
    congr 2
    · omega
    · cases co <;> rfl
    · cases cs <;> rfl

/-- **lct_parse_eq_spec**: flute's parser on ANY header a conforming RFC 5651 sender may emit - any legal
    width choice (minimal or not), any extensions (known or unknown, `1 ≤ HEL ≤ 255`), anything after
    the header - returns the spec's values -/
theorem lct_parse_eq_spec (f : LctFields) (hv : f.Valid) (payload : List Nat) :
    parseLctHeader (f.encode ++ payload) = .ok (parsedOf f) := by
  have hv' := hv
  obtain ⟨h1, hc, hpsi, hs, ho, hh, ha, hb, hcp, hcci, htsi, htoi, hhl, hexts⟩ := hv'
  unfold LctFields.encode
  rw [LctFields.encode_diagram f hv, h1]
  have hle := length_encodeExts f.exts hexts
  have hcci' : f.cci < 256 ^ ((f.c + 1) * 4) := by
    have : f.cciBits = 8 * ((f.c + 1) * 4) := by unfold LctFields.cciBits; omega
    rw [this, Nat.pow_mul] at hcci; exact hcci
  have htsi' : f.tsi < 256 ^ (f.s * 4 + f.h * 2) := by
    have : f.tsiBits = 8 * (f.s * 4 + f.h * 2) := by unfold LctFields.tsiBits; omega
    rw [this, Nat.pow_mul] at htsi; exact htsi
  have htoi' : f.toi < 256 ^ (f.o * 4 + f.h * 2) := by
    have : f.toiBits = 8 * (f.o * 4 + f.h * 2) := by unfold LctFields.toiBits; omega
    rw [this, Nat.pow_mul] at htoi; exact htoi
  have := parse_layout 1 f.c f.psi f.s f.o f.h 0 f.a f.b f.hdrLen f.cp f.cci f.tsi f.toi (encodeExts f.exts ++ payload)
    (.inl rfl) hc hpsi hs ho hh (by omega) ha hb hcci' htsi' htoi'
    (by unfold LctFields.hdrLen; omega)
    (by simp only [List.length_append, hle]; unfold LctFields.hdrLen; omega)
  simp only [List.append_assoc] at this ⊢
  rw [this]
  unfold parsedOf
  congr 2
  · omega
  · apply decide_eq_decide.mpr; omega
  · apply decide_eq_decide.mpr; omega
  · omega

/-- **ext_walk_eq_spec**: on every valid RFC header - any list of well-formed extensions, known or unknown
    HET, every `1 ≤ HEL ≤ 255` - `get_ext` returns, for EVERY extension type asked for, exactly the first
    extension of that type the spec's receiver finds (its octets), skipping all others; `Ok(None)` iff
    there is none.  (False before the repair of D7 for HEL ≥ 64.) -/
theorem ext_walk_eq_spec (f : LctFields) (hv : f.Valid) (payload : List Nat) (het : Nat) :
    getExt (f.encode ++ payload) (parsedOf f) het = .ok ((findExt f.exts het).map Ext.encode) := by
  have hexts := hv.2.2.2.2.2.2.2.2.2.2.2.2.2
  have hle := length_encodeExts f.exts hexts
  unfold getExt LctFields.encode
  have hfixed : (Spec.encode f.diagram).length = 4 * (1 + (f.c + 1) + (f.s + f.o + f.h)) := by
    rw [LctFields.encode_diagram f hv]
    simp only [List.length_append, List.length_cons, List.length_nil, length_beBytes]; omega
  have hs : slice (Spec.encode f.diagram ++ encodeExts f.exts ++ payload) (parsedOf f).headerExtOffset (parsedOf f).len =
      .ok (encodeExts f.exts) := by
    rw [List.append_assoc]
    apply slice_mid
    · rw [hfixed]; rfl
    · rw [hfixed, hle]; unfold parsedOf LctFields.hdrLen; simp only []; omega
  rw [hs, Out.bind_ok]
  exact getExtLoop_encodeExts f.exts hexts het _ (Nat.le_refl _)

/-! ## NTP timestamps / sender current time (EXT_TIME SCT-High, SCT-Low) -/

/-- **ntp_roundtrip** (exact): for every instant `us` (microseconds since the UNIX epoch) from 1970 to the end
    of NTP era 0 (2036-02-07), `ntp_to_system_time (system_time_to_ntp us) = us`, to the microsecond.
    (False before the repair of D13: floor ∘ floor lost 1 µs unless 15625 divides the microseconds.) -/
theorem ntp_roundtrip (us : Nat) (h : us / 1000000 + 2208988800 < 2^32) :
    ∃ ntp, systemTimeToNtp us = .ok ntp ∧ ntp < 2^64 ∧ ntpToSystemTime ntp = .ok us := by
  simp only [Nat.reducePow] at h ⊢
  have hm : us % 1000000 < 1000000 := Nat.mod_lt _ (by decide)
  obtain ⟨hf1, hf2, _⟩ := frac_ceil_floor _ hm
  refine ⟨_, systemTimeToNtp_eq us h, (ntp_split _ _ h hf1).2.2, ?_⟩
  rw [ntpToSystemTime_eq _ _ h hf1, hf2]
  congr 1
  have := Nat.div_add_mod us 1000000
  omega

/-- **ntp_eq_spec**: the timestamp flute emits is a correct NTP rendering of the instant: its seconds field
    is the NTP second (UNIX second + the 1900→1970 offset computed from the calendar), its 32-bit fraction lies
    inside the microsecond `[us, us+1)`, and independent receivers that truncate OR round the fraction to
    microseconds both read exactly `us` -/
theorem ntp_eq_spec (us : Nat) (h : us / 1000000 + 2208988800 < 2^32) :
    ∃ ntp, systemTimeToNtp us = .ok ntp ∧
      NtpDenotes (ntp / 2^32) (ntp % 2^32) us ∧
      ntpToMicrosFloor (ntp / 2^32) (ntp % 2^32) = us ∧
      ntpToMicrosRound (ntp / 2^32) (ntp % 2^32) = us := by
  simp only [Nat.reducePow] at h ⊢
  have hm : us % 1000000 < 1000000 := Nat.mod_lt _ (by decide)
  obtain ⟨hf1, hf2, hf3, hf4, hf5⟩ := frac_ceil_floor _ hm
  obtain ⟨e1, e2, _⟩ := ntp_split _ _ h hf1
  have hoff : ntpUnixOffset = 2208988800 := by decide
  have hus := Nat.div_add_mod us 1000000
  refine ⟨_, systemTimeToNtp_eq us h, ?_, ?_, ?_⟩
  · rw [e1, e2]
    unfold NtpDenotes
    rw [hoff]
    exact ⟨rfl, hf1, hf4, hf5⟩
  · rw [e1, e2]; unfold ntpToMicrosFloor
    simp only [Nat.reducePow, hoff, Nat.add_sub_cancel, hf2]; omega
  · rw [e1, e2]; unfold ntpToMicrosRound
    simp only [Nat.reducePow, hoff, Nat.add_sub_cancel, hf3]; omega

/-- non-vacuity / witness of what D13 was: 1 µs after the epoch, and the last microsecond of NTP era 0 -/
example : (systemTimeToNtp 1).toOption.map ntpToSystemTime = some (.ok 1) := by decide
example : (2085978495999999 : Nat) / 1000000 + 2208988800 < 2^32 := by decide

end Flute.Props.C06
