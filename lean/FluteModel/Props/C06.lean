import FluteModel.Lemmas.SpecLct
import FluteModel.Lemmas.Ntp
import FluteModel.Lemmas.Codec
import FluteModel.Lemmas.Packet
import FluteModel.Lemmas.SpecRound
import FluteModel.Legacy
import FluteModel.Props.C04Wire   -- parser totality (C04, wire part) is built and checked together with C06
/-
  C06  ALC/LCT wire format: round trips, and equality with an independent RFC implementation
  (`FluteModel/Spec/*.lean`: encoder + decoder written from the RFC diagrams as `(width, value)` bit fields).

  All theorems quantify over the whole field ranges (no size bound other than the field widths).
  They are about the model of the tree AFTER the `fix:` commits for D7 (HEL ≥ 64), D13 (SCT rounding),
  D35 (Raptor EXT_FTI layout), D36 (RS GF(2^m) ESI mask), wire-1 (FDT id mask); the model is tied to the tree by the `wire` correspondence engine.
-/
namespace Flute.Props.C06
open Flute Flute.Bytes Flute.Lct Flute.Fti Flute.Alc Flute.Spec Flute.Ntp

/-! ## LCT header (RFC 5651 §5.1) -/

/-- **lct_build_eq_spec**: for every CCI < 2^128, TSI < 2^48, TOI < 2^112, codepoint, PSI and flags, the
    bytes `push_lct_header` emits are exactly the RFC 5651 layout of those values for a LEGAL choice of
    the width flags C/S/O/H (every value fits its field, HDR_LEN correct) -/
theorem lct_build_eq_spec (psi cci tsi toi cp : Nat) (co cs : Bool)
    (hpsi : psi < 4) (hcp : cp < 256) (hcci : cci < 2^128) (htsi : tsi < 2^48) (htoi : toi < 2^112) :
    (specOfBuild psi cci tsi toi cp co cs).Valid ∧
    pushLctHeader psi cci tsi toi cp co cs = (specOfBuild psi cci tsi toi cp co cs).encode :=
  pushLctHeader_eq_spec psi cci tsi toi cp co cs hpsi hcp hcci htsi htoi

/-- **lct_roundtrip**: whatever follows the header (extensions, payload id, payload), flute's parser
    returns exactly the values given to the builder, with `len` = the header length = `HDR_LEN * 4` -/
theorem lct_roundtrip (psi cci tsi toi cp : Nat) (co cs : Bool) (rest : List Nat)
    (hpsi : psi < 4) (hcp : cp < 256) (hcci : cci < 2^128) (htsi : tsi < 2^48) (htoi : toi < 2^112) :
    let hdr := pushLctHeader psi cci tsi toi cp co cs
    hdr[2]? = some (hdr.length / 4) ∧ hdr.length % 4 = 0 ∧
    parseLctHeader (hdr ++ rest) =
      .ok { len := hdr.length, cci := cci, tsi := tsi, toi := toi, cp := cp,
            closeObject := co, closeSession := cs, headerExtOffset := hdr.length } := by
  obtain ⟨hc, hcv⟩ := cOf_spec cci hcci
  obtain ⟨hs, ho, hh, htv, hov⟩ := soh_spec tsi toi htsi htoi
  have hb1 : b2n co < 2 := by unfold b2n; split <;> omega
  have hb2 : b2n cs < 2 := by unfold b2n; split <;> omega
  intro hdr
  have hl := pushLctHeader_layout psi cci tsi toi cp co cs hpsi hcp hcci htsi htoi
  simp only [] at hl
  generalize hcg : cOf (nbBytes128 cci 0) = c at *
  generalize hsg : sOf (nbBytes64 tsi 2) = s at *
  generalize hog : oOf (nbBytes128 toi 2) = o at *
  generalize hhg : hOf (nbBytes64 tsi 2) (nbBytes128 toi 2) = h at *
  have hlen : hdr.length = 4 + (c + 1) * 4 + (s * 4 + h * 2) + (o * 4 + h * 2) := by
    show (pushLctHeader psi cci tsi toi cp co cs).length = _
    rw [hl]; simp only [List.length_append, List.length_cons, List.length_nil, length_beBytes]; omega
  refine ⟨?_, ?_, ?_⟩
  · show (pushLctHeader psi cci tsi toi cp co cs)[2]? = _
    rw [hlen, hl]
    simp only [List.cons_append, List.getElem?_cons_succ, List.getElem?_cons_zero]
    congr 1; omega
  · omega
  · show parseLctHeader (pushLctHeader psi cci tsi toi cp co cs ++ rest) = _
    rw [hlen, hl]
    have := parse_layout 1 c psi s o h 0 (b2n cs) (b2n co) (2 + o + s + h + c) cp cci tsi toi rest
      (.inl rfl) hc hpsi hs ho hh (by omega) hb2 hb1 hcv htv hov (by omega) (by omega)
    simp only [List.append_assoc] at this ⊢
    rw [show 1 * 16 + c * 4 + psi = 16 + c * 4 + psi by omega,
        show s * 128 + o * 32 + h * 16 + 0 * 4 + b2n cs * 2 + b2n co = s * 128 + o * 32 + h * 16 + b2n cs * 2 + b2n co by omega] at this
    rw [this]
    congr 2
    · omega
    · cases co <;> rfl
    · cases cs <;> rfl

/-- **lct_parse_eq_spec**: flute's parser on ANY header a conforming RFC 5651 sender may emit - any legal
    width choice (minimal or not), any extensions (known or unknown, `1 ≤ HEL ≤ 255`), anything after
    the header - returns the spec's values -/
theorem lct_parse_eq_spec (f : LctFields) (hv : f.Valid) (payload : List Nat) :
    parseLctHeader (f.encode ++ payload) = .ok (parsedOf f) :=
  parseLctHeader_encode f hv payload

/-- **ext_walk_eq_spec**: on every valid RFC header - any list of well-formed extensions, known or unknown
    HET, every `1 ≤ HEL ≤ 255` - `get_ext` returns, for EVERY extension type asked for, exactly the first
    extension of that type the spec's receiver finds (its octets), skipping all others; `Ok(None)` iff
    there is none.  (False before the repair of D7 for HEL ≥ 64.) -/
theorem ext_walk_eq_spec (f : LctFields) (hv : f.Valid) (payload : List Nat) (het : Nat) :
    getExt (f.encode ++ payload) (parsedOf f) het = .ok ((findExt f.exts het).map Ext.encode) :=
  getExt_encode f hv payload het

/-- non-vacuity of `lct_parse_eq_spec` / `ext_walk_eq_spec`: a valid header with NON-minimal widths, an unknown
    extension with HEL = 64, an unknown fixed-length extension, then EXT_CENC -/
example : sampleHeader.Valid := by
  refine ⟨rfl, by decide, by decide, by decide, by decide, by decide, by decide, by decide, by decide, by decide,
    by decide, by decide, by decide, ?_⟩
  intro e he
  simp only [sampleHeader, List.mem_cons, List.not_mem_nil, or_false] at he
  rcases he with rfl | rfl | rfl
  · refine ⟨fun b hb => ?_, ?_⟩
    · rw [List.eq_of_mem_replicate hb]; decide
    · simp only [show (65:Nat) < 128 from by decide, if_true, List.length_replicate]; decide
  · exact ⟨by decide, by decide⟩
  · exact ⟨by decide, by decide⟩

example : getExt (sampleHeader.encode ++ [0, 1, 0, 2]) (parsedOf sampleHeader) 193 = .ok (some [193, 2, 0, 0]) := by
  rw [ext_walk_eq_spec sampleHeader (by
    refine ⟨rfl, by decide, by decide, by decide, by decide, by decide, by decide, by decide, by decide, by decide,
      by decide, by decide, by decide, ?_⟩
    intro e he
    simp only [sampleHeader, List.mem_cons, List.not_mem_nil, or_false] at he
    rcases he with rfl | rfl | rfl
    · refine ⟨fun b hb => ?_, ?_⟩
      · rw [List.eq_of_mem_replicate hb]; decide
      · simp only [show (65:Nat) < 128 from by decide, if_true, List.length_replicate]; decide
    · exact ⟨by decide, by decide⟩
    · exact ⟨by decide, by decide⟩)]
  decide

/-- D7 witness (pre-repair code): ANY extension area that starts with an unknown variable-length extension of
    64 words (`HET = 65, HEL = 64`, RFC-valid: HEL may be up to 255) made the legacy walk reject the packet,
    whatever extension was asked for - `(64 << 2) as u8 = 0`.  The repaired code finds the extensions behind it
    (`ext_walk_eq_spec`, non-vacuity example `sampleHeader`). -/
theorem legacy_ext_walk_hel64_rejected (fuel : Nat) (rest : List Nat) (ext : Nat) (h : 2 ≤ rest.length) :
    Legacy.getExtLoop (fuel + 1) (65 :: 64 :: rest) ext = .err := by
  unfold Legacy.getExtLoop
  rw [if_pos (by simp only [List.length_cons]; omega)]
  simp [idx]

/-! ## NTP timestamps / sender current time (EXT_TIME SCT-High, SCT-Low) -/

/-- **ntp_roundtrip** (exact): for every instant `us` (microseconds since the UNIX epoch) from 1970 to the end
    of NTP era 0 (2036-02-07), `ntp_to_system_time (system_time_to_ntp us) = us`, to the microsecond.
    (False before the repair of D13: floor ∘ floor lost 1 µs unless 15625 divides the microseconds.) -/
theorem ntp_roundtrip (us : Nat) (h : us / 1000000 + 2208988800 < 2^32) :
    ∃ ntp, systemTimeToNtp us = .ok ntp ∧ ntp < 2^64 ∧ ntpToSystemTime ntp = .ok us := by
  simp only [Nat.reducePow] at h ⊢
  have hm : us % 1000000 < 1000000 := Nat.mod_lt _ (by decide)
  obtain ⟨hf1, hf2, _⟩ := frac_ceil_floor _ hm
  refine ⟨_, systemTimeToNtp_eq us h, (ntp_split _ _ h hf1).2.2, ?_⟩
  rw [ntpToSystemTime_eq _ _ h hf1, hf2]
  congr 1
  have := Nat.div_add_mod us 1000000
  omega

/-- **ntp_eq_spec**: the timestamp flute emits is a correct NTP rendering of the instant: its seconds field
    is the NTP second (UNIX second + the 1900→1970 offset computed from the calendar), its 32-bit fraction lies
    inside the microsecond `[us, us+1)`, and independent receivers that truncate OR round the fraction to
    microseconds both read exactly `us` -/
theorem ntp_eq_spec (us : Nat) (h : us / 1000000 + 2208988800 < 2^32) :
    ∃ ntp, systemTimeToNtp us = .ok ntp ∧
      NtpDenotes (ntp / 2^32) (ntp % 2^32) us ∧
      ntpToMicrosFloor (ntp / 2^32) (ntp % 2^32) = us ∧
      ntpToMicrosRound (ntp / 2^32) (ntp % 2^32) = us := by
  simp only [Nat.reducePow] at h ⊢
  have hm : us % 1000000 < 1000000 := Nat.mod_lt _ (by decide)
  obtain ⟨hf1, hf2, hf3, hf4, hf5⟩ := frac_ceil_floor _ hm
  obtain ⟨e1, e2, _⟩ := ntp_split _ _ h hf1
  have hoff : ntpUnixOffset = 2208988800 := by decide
  have hus := Nat.div_add_mod us 1000000
  refine ⟨_, systemTimeToNtp_eq us h, ?_, ?_, ?_⟩
  · rw [e1, e2]
    unfold NtpDenotes
    rw [hoff]
    exact ⟨rfl, hf1, hf4, hf5⟩
  · rw [e1, e2]; unfold ntpToMicrosFloor
    simp only [Nat.reducePow, hoff, Nat.add_sub_cancel, hf2]; omega
  · rw [e1, e2]; unfold ntpToMicrosRound
    simp only [Nat.reducePow, hoff, Nat.add_sub_cancel, hf3]; omega

/-- non-vacuity / witness of what D13 was: 1 µs after the epoch, and the last microsecond of NTP era 0 -/
example : (systemTimeToNtp 1).toOption.map ntpToSystemTime = some (.ok 1) := by decide
example : (2085978495999999 : Nat) / 1000000 + 2208988800 < 2^32 := by decide

/-- D13 witness (pre-repair code): one microsecond after the epoch came back as 0 -/
theorem legacy_ntp_roundtrip_false : ntpToSystemTime (Legacy.systemTimeToNtp 1) = .ok 0 := by decide


/-! ## EXT_FDT, EXT_CENC, EXT_TIME -/

/-- EXT_FDT (RFC 6726 §3.4.1): ∀ version < 16, FDT instance id < 2^20, the extension `push_fdt` appends is the
    RFC layout -/
theorem ext_fdt_eq_spec (data : List Nat) (version id : Nat) (hv : version < 16) :
    pushFdt data version id = extendInc data (Spec.encode (extFdtDiagram version (id % 2^20))) 1 := by
  have hid : id % 2^20 < 2^20 := Nat.mod_lt _ (by decide)
  unfold pushFdt
  rewrite [fdt_word version _ hv hid]
  generalize id % 2^20 = id at hid
  spec_bytes
  rw [Nat.add_assoc]

/-- ... and `parse_ext_fdt` reads any RFC-laid-out EXT_FDT back to `(version, instance id)` -/
theorem ext_fdt_parse_spec (version id : Nat) (hv : version < 16) (hid : id < 2^20) :
    parseExtFdt (Spec.encode (extFdtDiagram version id)) = .ok (some (version, id)) := by
  spec_bytes
  unfold parseExtFdt
  rewrite [length_beBytes, if_neg (by omega), beVal_beBytes]
  simp only [Nat.reducePow] at hid ⊢
  simp only [Out.ok.injEq, Option.some.injEq, Prod.mk.injEq]
  constructor <;> omega

/-- EXT_CENC (RFC 6726 §3.4.3) -/
theorem ext_cenc_eq_spec (data : List Nat) (cenc : Nat) :
    pushCenc data cenc = extendInc data (Spec.encode (extCencDiagram cenc)) 1 := by
  unfold pushCenc
  spec_bytes

theorem ext_cenc_parse_spec (cenc : Nat) (h : cenc ≤ 3) :
    parseCenc (Spec.encode (extCencDiagram cenc)) = .ok cenc := by
  spec_bytes
  unfold parseCenc
  rewrite [length_beBytes, if_neg (by omega), idx_beBytes _ _ _ (by omega), Out.bind_ok]
  simp only [Nat.reduceSub, Nat.reducePow]
  have : (193 * 16777216 + cenc * 65536) / 65536 % 256 = cenc := by omega
  rewrite [this, if_pos h]
  rfl

/-! ## EXT_FTI per FEC scheme (HET = 64)

  `fti_<scheme>_eq_spec`: the bytes `add_fti` emits are the RFC layout of the OTI values (whole field ranges).
  `fti_<scheme>_parse_spec`: `get_fti` on the RFC layout of ANY in-range values returns those values.
  `fti_<scheme>_roundtrip`: `get_fti ∘ add_fti` returns the sender's values. -/

/-- No-Code (FEC id 0), RFC 5445: ∀ L < 2^48, E < 2^16, B < 2^32 -/
theorem fti_nocode_eq_spec (oti : Oti) (L : Nat) (hL : L < 2^48) (hE : oti.esl < 2^16) (hB : oti.maxSbl < 2^32) :
    addFtiNoCode oti L = .ok (Spec.encode (ftiNoCode L oti.esl oti.maxSbl), 4) := by
  unfold addFtiNoCode
  spec_bytes
  simp only [Nat.reducePow] at hL hE hB ⊢
  refine congrArg (fun x => Except.ok (x, 4)) ?_
  bytes_eq

theorem fti_nocode_parse_spec (L E B : Nat) (hL : L < 2^48) (hE : E < 2^16) (hB : B < 2^32) :
    getFtiNoCode (Spec.encode (ftiNoCode L E B)) = .ok (otiOf 0 0 B E 0 .none, L) := by
  spec_bytes
  unfold getFtiNoCode otiOf
  parse_bebytes
  simp only [Nat.reducePow] at hL hE hB
  rewrite [if_neg (by omega)]
  fields_eq

/-- Reed-Solomon GF(2^8) (FEC id 5), RFC 5510 §5: ∀ L < 2^48, E < 2^16, B + parity ≤ 255 -/
theorem fti_rs28_eq_spec (oti : Oti) (L : Nat) (hL : L < 2^48) (hE : oti.esl < 2^16)
    (hN : oti.parity + oti.maxSbl < 256) :
    addFtiRs28 oti L = .ok (Spec.encode (ftiRs28 L oti.esl oti.maxSbl (oti.parity + oti.maxSbl)), 3) := by
  unfold addFtiRs28 u32add
  simp only [Nat.reducePow] at hL hE ⊢
  rewrite [if_pos (by omega)]
  simp only []
  rewrite [Nat.mod_eq_of_lt hL, Nat.mod_eq_of_lt hN, Nat.mod_eq_of_lt (show oti.maxSbl < 256 by omega)]
  spec_bytes
  refine congrArg (fun x => Except.ok (x, 3)) ?_
  bytes_eq

theorem fti_rs28_parse_spec (L E B maxN : Nat) (hL : L < 2^48) (hE : E < 2^16) (hB : B < 256) (hN : maxN < 256) :
    getFtiRs28 (Spec.encode (ftiRs28 L E B maxN)) = .ok (otiOf 5 0 B E (maxN - B) .none, L) := by
  spec_bytes
  unfold getFtiRs28 otiOf
  parse_bebytes
  simp only [Nat.reducePow] at hL hE
  rewrite [if_neg (by omega)]
  fields_eq

/-- Small Block Systematic, under-specified (FEC id 129), RFC 5445 §5 -/
theorem fti_rs28us_eq_spec (oti : Oti) (L : Nat) (hL : L < 2^48) (hI : oti.inst < 2^16) (hE : oti.esl < 2^16)
    (hN : oti.parity + oti.maxSbl < 2^16) :
    addFtiRs28Us oti L =
      .ok (Spec.encode (ftiSmallBlock L oti.inst oti.esl oti.maxSbl (oti.parity + oti.maxSbl)), 4) := by
  unfold addFtiRs28Us u32add
  simp only [Nat.reducePow] at hL hI hE hN ⊢
  rewrite [if_pos (by omega)]
  spec_bytes
  refine congrArg (fun x => Except.ok (x, 4)) ?_
  bytes_eq

theorem fti_rs28us_parse_spec (L inst E B maxN : Nat) (hL : L < 2^48) (hI : inst < 2^16) (hE : E < 2^16)
    (hB : B < 2^16) (hN : maxN < 2^16) :
    getFtiRs28Us (Spec.encode (ftiSmallBlock L inst E B maxN)) = .ok (otiOf 129 inst B E (maxN - B) .none, L) := by
  spec_bytes
  unfold getFtiRs28Us otiOf
  parse_bebytes
  simp only [Nat.reducePow] at hL hI hE hB hN
  rewrite [if_neg (by omega)]
  fields_eq

/-- Reed-Solomon GF(2^m) (FEC id 2), RFC 5510 §4 -/
theorem fti_rs2m_eq_spec (oti : Oti) (L m g : Nat) (hss : oti.ss = .rs m g) (hL : L < 2^48) (hm : m < 256) (hg : g < 256)
    (hE : oti.esl < 2^16) (hN : oti.parity + oti.maxSbl < 2^16) :
    addFtiRs2m oti L =
      .ok (Spec.encode (ftiRs2m L m g oti.esl oti.maxSbl (oti.parity + oti.maxSbl)), 4) := by
  unfold addFtiRs2m u32add
  rewrite [hss]
  simp only [Nat.reducePow] at hL hE hN ⊢
  rewrite [if_pos (by omega)]
  spec_bytes
  refine congrArg (fun x => Except.ok (x, 4)) ?_
  bytes_eq

theorem fti_rs2m_parse_spec (L m g E B maxN : Nat) (hL : L < 2^48) (hm : m < 256) (hg : g < 256) (hE : E < 2^16)
    (hB : B < 2^16) (hN : maxN < 2^16) :
    getFtiRs2m (Spec.encode (ftiRs2m L m g E B maxN)) =
      .ok (otiOf 2 0 B E (maxN - B) (.rs (if m = 0 then 8 else m) (if g = 0 then 1 else g)), L) := by
  spec_bytes
  unfold getFtiRs2m otiOf
  parse_bebytes
  simp only [Nat.reducePow] at hL hE hB hN
  rewrite [if_neg (by omega)]
  have em : (64 * 1329227995784915872903807060280344576 + (4 * 5192296858534827628530496329220096 +
      (L * 18446744073709551616 + (m * 72057594037927936 + (g * 281474976710656 +
      (E * 4294967296 + (B * 65536 + maxN))))))) / 72057594037927936 % 256 = m := by omega
  have eg : (64 * 1329227995784915872903807060280344576 + (4 * 5192296858534827628530496329220096 +
      (L * 18446744073709551616 + (m * 72057594037927936 + (g * 281474976710656 +
      (E * 4294967296 + (B * 65536 + maxN))))))) / 281474976710656 % 256 = g := by omega
  rewrite [em, eg]
  fields_eq

/-- RaptorQ (FEC id 6), RFC 6330 §3.3.2-3.3.3: ∀ F < 2^40, T < 2^16, Z < 2^8, N < 2^16, Al < 2^8 -/
theorem fti_raptorq_eq_spec (oti : Oti) (F z n al : Nat) (hss : oti.ss = .raptorq z n al) (hF : F < 2^40)
    (hT : oti.esl < 2^16) (hz : z < 2^8) (hn : n < 2^16) (hal : al < 2^8) :
    addFtiRaptorQ oti F = .ok (Spec.encode (ftiRaptorQ F oti.esl z n al), 4) := by
  unfold addFtiRaptorQ
  rewrite [hss]
  simp only [Nat.reducePow] at hF hT hz hn hal ⊢
  rewrite [Nat.mod_eq_of_lt (show F * 16777216 < 18446744073709551616 by omega), Nat.mod_eq_of_lt hT]
  spec_bytes
  refine congrArg (fun x => Except.ok (x, 4)) ?_
  bytes_eq

theorem fti_raptorq_parse_spec (F T Z N Al : Nat) (hF : F < 2^40) (hT : T < 2^16) (hZ : Z < 2^8) (hN : N < 2^16)
    (hAl : Al < 2^8) :
    getFtiRaptorQ (Spec.encode (ftiRaptorQ F T Z N Al)) = raptorCheck 6 (.raptorq Z N Al) F T Z Al := by
  spec_bytes
  simp only [Nat.reducePow] at hF hT hZ hN hAl
  apply getFtiRaptorQ_core <;> simp only [Nat.reducePow] <;> omega

/-- Raptor (FEC id 1), RFC 5053 §3.2.2-3.2.3: ∀ F < 2^48, T < 2^16, Z < 2^16, N < 2^8, Al < 2^8
    (false before the repair of D35: flute used the RaptorQ layout) -/
theorem fti_raptor_eq_spec (oti : Oti) (F z n al : Nat) (hss : oti.ss = .raptor z n al) (hF : F < 2^48)
    (hT : oti.esl < 2^16) (hz : z < 2^16) (hn : n < 2^8) (hal : al < 2^8) :
    addFtiRaptor oti F = .ok (Spec.encode (ftiRaptor F oti.esl z n al), 4) := by
  unfold addFtiRaptor
  rewrite [hss]
  simp only [Nat.reducePow] at hF hT hz hn hal ⊢
  rewrite [Nat.mod_eq_of_lt (show F * 65536 < 18446744073709551616 by omega)]
  spec_bytes
  refine congrArg (fun x => Except.ok (x, 4)) ?_
  bytes_eq

theorem fti_raptor_parse_spec (F T Z N Al : Nat) (hF : F < 2^48) (hT : T < 2^16) (hZ : Z < 2^16) (hN : N < 2^8)
    (hAl : Al < 2^8) :
    getFtiRaptor (Spec.encode (ftiRaptor F T Z N Al)) = raptorCheck 1 (.raptor Z N Al) F T Z Al := by
  spec_bytes
  simp only [Nat.reducePow] at hF hT hZ hN hAl
  apply getFtiRaptor_core <;> simp only [Nat.reducePow] <;> omega

/-! ## FEC payload id per scheme -/

/-- **payload_id_eq_spec**: over each scheme's whole SBN / ESI range the bytes `add_fec_payload_id` emits are
    the RFC layout (No-Code 16+16, RS GF(2^8) 24+8, Small Block Systematic 32+16+16, RS GF(2^m) (32-m)+m,
    RaptorQ 8+24, Raptor 16+16) -/
theorem payload_id_nocode_eq_spec (oti : Oti) (sbn esi sbl : Nat) (h : oti.fecId = 0) (h1 : sbn < 2^16) (h2 : esi < 2^16) :
    addPayloadId oti sbn esi sbl = .ok (Spec.encode (fpidNoCode sbn esi)) := by
  unfold addPayloadId
  simp only [h, NOCODE, if_true, Nat.reducePow] at h1 h2 ⊢
  rewrite [Nat.mod_eq_of_lt h1, Nat.mod_eq_of_lt h2]
  spec_bytes

theorem payload_id_rs28_eq_spec (oti : Oti) (sbn esi sbl : Nat) (h : oti.fecId = 5) (h1 : sbn < 2^24) (h2 : esi < 2^8) :
    addPayloadId oti sbn esi sbl = .ok (Spec.encode (fpidRs28 sbn esi)) := by
  unfold addPayloadId
  simp only [h, NOCODE, RS28, Nat.reduceEqDiff, if_true, if_false, Nat.reducePow] at h1 h2 ⊢
  rewrite [Nat.mod_eq_of_lt h1, Nat.mod_eq_of_lt h2]
  spec_bytes

theorem payload_id_rs28us_eq_spec (oti : Oti) (sbn esi sbl : Nat) (h : oti.fecId = 129) (h1 : sbn < 2^32)
    (h2 : esi < 2^16) (h3 : sbl < 2^16) :
    addPayloadId oti sbn esi sbl = .ok (Spec.encode (fpidSmallBlock sbn sbl esi)) := by
  unfold addPayloadId
  simp only [h, NOCODE, RS28, RS28US, Nat.reduceEqDiff, if_true, if_false, Nat.reducePow] at h1 h2 h3 ⊢
  spec_bytes
  refine congrArg Except.ok ?_
  bytes_eq

theorem payload_id_raptorq_eq_spec (oti : Oti) (sbn esi sbl : Nat) (h : oti.fecId = 6) (h1 : sbn < 2^8) (h2 : esi < 2^24) :
    addPayloadId oti sbn esi sbl = .ok (Spec.encode (fpidRaptorQ sbn esi)) := by
  unfold addPayloadId
  simp only [h, NOCODE, RS28, RS28US, RS2M, RAPTORQ, Nat.reduceEqDiff, if_true, if_false, Nat.reducePow] at h1 h2 ⊢
  rewrite [Nat.mod_eq_of_lt h1, Nat.mod_eq_of_lt h2]
  spec_bytes

theorem payload_id_raptor_eq_spec (oti : Oti) (sbn esi sbl : Nat) (h : oti.fecId = 1) (h1 : sbn < 2^16) (h2 : esi < 2^16) :
    addPayloadId oti sbn esi sbl = .ok (Spec.encode (fpidRaptor sbn esi)) := by
  unfold addPayloadId
  simp only [h, NOCODE, RS28, RS28US, RS2M, RAPTORQ, RAPTOR, Nat.reduceEqDiff, if_true, if_false, Nat.reducePow] at h1 h2 ⊢
  rewrite [Nat.mod_eq_of_lt h1, Nat.mod_eq_of_lt h2]
  spec_bytes

/-- RS GF(2^m): ∀ 1 ≤ m ≤ 31 (flute refuses m ≥ 32), SBN < 2^(32-m), ESI < 2^m
    (false before the repair of D36 for ESI ≥ 256 or m < 8) -/
theorem payload_id_rs2m_eq_spec (oti : Oti) (m g sbn esi sbl : Nat) (h : oti.fecId = 2) (hss : oti.ss = .rs m g)
    (hm : m < 32) (h1 : sbn < 2^(32 - m)) (h2 : esi < 2^m) :
    addPayloadId oti sbn esi sbl = .ok (Spec.encode (fpidRs2m m sbn esi)) := by
  unfold addPayloadId rsM
  simp only [h, hss, NOCODE, RS28, RS28US, RS2M, Nat.reduceEqDiff, if_true, if_false]
  rewrite [if_neg (by omega), encode_fpidRs2m m sbn esi (by omega), Nat.mod_eq_of_lt h2]
  have : sbn * 2 ^ m < 2 ^ 32 := by
    have e : (2:Nat) ^ 32 = 2 ^ (32 - m) * 2 ^ m := by rw [← Nat.pow_add]; congr 1; omega
    rw [e]; exact Nat.mul_lt_mul_of_lt_of_le h1 (Nat.le_refl _) (Nat.pow_pos (by decide))
  rw [Nat.mod_eq_of_lt this]


/-- **payload_id_parse_spec**: `parse_payload_id` on a datagram whose payload-id window holds the RFC layout of
    any in-range (SBN, ESI[, source block length]) returns those values, whatever precedes and follows -/
theorem payload_id_nocode_parse_spec (oti : Oti) (pre post : List Nat) (sbn esi : Nat) (h : oti.fecId = 0)
    (h1 : sbn < 2^16) (h2 : esi < 2^16) :
    getPayloadId oti (pre ++ (Spec.encode (fpidNoCode sbn esi) ++ post)) pre.length (pre.length + 4) =
      .ok { sbn := sbn, esi := esi, sbl := none } := by
  spec_bytes
  have := getPayloadId_window oti pre (beBytes 4 (sbn * 65536 + esi)) post
  rewrite [length_beBytes] at this
  rewrite [this, pidOfBytes_beBytes4 oti _ (by rw [h]; decide)]
  simp only [h, NOCODE, if_true, Nat.reducePow] at h1 h2 ⊢
  fields_eq

theorem payload_id_rs28_parse_spec (oti : Oti) (pre post : List Nat) (sbn esi : Nat) (h : oti.fecId = 5)
    (h1 : sbn < 2^24) (h2 : esi < 2^8) :
    getPayloadId oti (pre ++ (Spec.encode (fpidRs28 sbn esi) ++ post)) pre.length (pre.length + 4) =
      .ok { sbn := sbn, esi := esi, sbl := none } := by
  spec_bytes
  have := getPayloadId_window oti pre (beBytes 4 (sbn * 256 + esi)) post
  rewrite [length_beBytes] at this
  rewrite [this, pidOfBytes_beBytes4 oti _ (by rw [h]; decide)]
  simp only [h, NOCODE, RS28, Nat.reduceEqDiff, if_true, if_false, Nat.reducePow] at h1 h2 ⊢
  fields_eq

theorem payload_id_rs28us_parse_spec (oti : Oti) (pre post : List Nat) (sbn sbl esi : Nat) (h : oti.fecId = 129)
    (h1 : sbn < 2^32) (h2 : esi < 2^16) (h3 : sbl < 2^16) :
    getPayloadId oti (pre ++ (Spec.encode (fpidSmallBlock sbn sbl esi) ++ post)) pre.length (pre.length + 8) =
      .ok { sbn := sbn, esi := esi, sbl := some sbl } := by
  spec_bytes
  have := getPayloadId_window oti pre (beBytes 8 (sbn * 4294967296 + (sbl * 65536 + esi))) post
  rewrite [length_beBytes] at this
  rewrite [this, pidOfBytes_beBytes8 oti _ (by rw [h]; rfl)]
  simp only [Nat.reducePow] at h1 h2 h3 ⊢
  fields_eq

theorem payload_id_raptorq_parse_spec (oti : Oti) (pre post : List Nat) (sbn esi : Nat) (h : oti.fecId = 6)
    (h1 : sbn < 2^8) (h2 : esi < 2^24) :
    getPayloadId oti (pre ++ (Spec.encode (fpidRaptorQ sbn esi) ++ post)) pre.length (pre.length + 4) =
      .ok { sbn := sbn, esi := esi, sbl := none } := by
  spec_bytes
  have := getPayloadId_window oti pre (beBytes 4 (sbn * 16777216 + esi)) post
  rewrite [length_beBytes] at this
  rewrite [this, pidOfBytes_beBytes4 oti _ (by rw [h]; decide)]
  simp only [h, NOCODE, RS28, RS2M, RAPTORQ, Nat.reduceEqDiff, if_true, if_false, Nat.reducePow] at h1 h2 ⊢
  fields_eq

theorem payload_id_raptor_parse_spec (oti : Oti) (pre post : List Nat) (sbn esi : Nat) (h : oti.fecId = 1)
    (h1 : sbn < 2^16) (h2 : esi < 2^16) :
    getPayloadId oti (pre ++ (Spec.encode (fpidRaptor sbn esi) ++ post)) pre.length (pre.length + 4) =
      .ok { sbn := sbn, esi := esi, sbl := none } := by
  spec_bytes
  have := getPayloadId_window oti pre (beBytes 4 (sbn * 65536 + esi)) post
  rewrite [length_beBytes] at this
  rewrite [this, pidOfBytes_beBytes4 oti _ (by rw [h]; decide)]
  simp only [h, NOCODE, RS28, RS2M, RAPTORQ, RAPTOR, Nat.reduceEqDiff, if_true, if_false, Nat.reducePow] at h1 h2 ⊢
  fields_eq

theorem payload_id_rs2m_parse_spec (oti : Oti) (pre post : List Nat) (m g sbn esi : Nat) (h : oti.fecId = 2)
    (hss : oti.ss = .rs m g) (hm : m < 32) (h1 : sbn < 2^(32 - m)) (h2 : esi < 2^m) :
    getPayloadId oti (pre ++ (Spec.encode (fpidRs2m m sbn esi) ++ post)) pre.length (pre.length + 4) =
      .ok { sbn := sbn, esi := esi, sbl := none } := by
  rewrite [encode_fpidRs2m m sbn esi (by omega)]
  have := getPayloadId_window oti pre (beBytes 4 (sbn * 2 ^ m + esi)) post
  rewrite [length_beBytes] at this
  rewrite [this, pidOfBytes_beBytes4 oti _ (by rw [h]; decide)]
  have hlt : sbn * 2 ^ m + esi < 2 ^ 32 := by
    have e : (2:Nat) ^ 32 = 2 ^ (32 - m) * 2 ^ m := by rw [← Nat.pow_add]; congr 1; omega
    have : (sbn + 1) * 2 ^ m ≤ 2 ^ (32 - m) * 2 ^ m := Nat.mul_le_mul_right _ h1
    rw [e]; rw [Nat.add_mul] at this; omega
  have hr : rsM oti = m := by unfold rsM; rw [hss]
  simp only [h, hr, NOCODE, RS28, RS2M, Nat.reduceEqDiff, if_true, if_false]
  rewrite [if_neg (by omega), Nat.mod_eq_of_lt hlt]
  have e1 : (sbn * 2 ^ m + esi) / 2 ^ m = sbn := by
    rw [Nat.add_comm, Nat.add_mul_div_right _ _ (Nat.pow_pos (by decide)), Nat.div_eq_of_lt h2, Nat.zero_add]
  have e2 : (sbn * 2 ^ m + esi) % 2 ^ m = esi := by
    rw [Nat.add_comm, Nat.add_mul_mod_self_right, Nat.mod_eq_of_lt h2]
  rw [e1, e2]

/-- EXT_TIME with SCT-High + SCT-Low (RFC 5651 §5.2.2): ∀ instants of NTP era 0, the extension `push_sct` appends is
    the RFC layout (HET 2, HEL 3, Use = SCT-High|SCT-Low) of the 64-bit NTP timestamp of the instant -/
theorem ext_time_eq_spec (data : List Nat) (us : Nat) (h : us / 1000000 + 2208988800 < 2^32) :
    ∃ ntp, systemTimeToNtp us = .ok ntp ∧ ntp < 2^64 ∧
      pushSct data us = extendInc data (Spec.encode (extTimeSctDiagram (ntp / 2^32) (ntp % 2^32))) 3 := by
  simp only [Nat.reducePow] at h ⊢
  have hm : us % 1000000 < 1000000 := Nat.mod_lt _ (by decide)
  obtain ⟨hf1, _⟩ := frac_ceil_floor _ hm
  exact ⟨_, systemTimeToNtp_eq us h, (ntp_split _ _ h hf1).2.2,
    pushSct_eq data us _ (systemTimeToNtp_eq us h) (ntp_split _ _ h hf1).2.2⟩

/-- `parse_sct` on the RFC layout of ANY NTP timestamp = `ntp_to_system_time` of that timestamp -/
theorem ext_time_parse_spec (secs frac : Nat) (h1 : secs < 2^32) (h2 : frac < 2^32) :
    parseSct (Spec.encode (extTimeSctDiagram secs frac)) =
      (ntpToSystemTime (secs * 2^32 + frac)).bind fun t => .ok (some t) := by
  spec_bytes
  simp only [Nat.reducePow] at h1 h2
  apply parseSct_core
  · simp only [Nat.reducePow]; omega
  · simp only [Nat.reducePow]; omega
  · simp only [Nat.reducePow]; omega

/-- **sender current time round trip**: the EXT_TIME flute builds for an instant `us` of NTP era 0 is parsed back
    by flute to exactly `us` (to the microsecond; false before the repair of D13) -/
theorem ext_time_roundtrip (us : Nat) (h : us / 1000000 + 2208988800 < 2^32) :
    ∃ ntp, systemTimeToNtp us = .ok ntp ∧
      parseSct (Spec.encode (extTimeSctDiagram (ntp / 2^32) (ntp % 2^32))) = .ok (some us) := by
  obtain ⟨ntp, h1, h2, h3⟩ := ntp_roundtrip us h
  refine ⟨ntp, h1, ?_⟩
  simp only [Nat.reducePow] at h2
  rewrite [ext_time_parse_spec _ _ (by simp only [Nat.reducePow]; omega) (by simp only [Nat.reducePow]; omega)]
  simp only [Nat.reducePow]
  rewrite [Nat.div_add_mod' ntp 4294967296, h3]
  rfl
/-! ## per-scheme round trips (`get_fti ∘ add_fti`, `get_fec_payload_id ∘ add_fec_payload_id`) -/

theorem fti_nocode_roundtrip (oti : Oti) (L : Nat) (hf : oti.fecId = 0) (hL : L < 2^48) (hE : oti.esl < 2^16)
    (hB : oti.maxSbl < 2^32) :
    FtiOk oti L (Spec.encode (ftiNoCode L oti.esl oti.maxSbl)) 4 (otiOf 0 0 oti.maxSbl oti.esl 0 .none) := by
  refine ⟨?_, ?_, by omega, ?_⟩
  · unfold addFti; rw [if_pos (by rw [hf]; rfl)]; exact fti_nocode_eq_spec oti L hL hE hB
  · spec_bytes
    simp only [Nat.reducePow] at hL hE hB
    exact extBytes_beBytes 4 _ 64 (by omega) (by omega) (by omega) (by simp only [Nat.reduceMul, Nat.reduceSub, Nat.reducePow]; omega)
      (by simp only [Nat.reduceMul, Nat.reduceSub, Nat.reducePow]; omega)
  · unfold getFtiBytes; rw [if_pos (by rw [hf]; rfl)]; exact fti_nocode_parse_spec L _ _ hL hE hB

theorem fti_rs28_roundtrip (oti : Oti) (L : Nat) (hf : oti.fecId = 5) (hL : L < 2^48) (hE : oti.esl < 2^16) (hN : oti.parity + oti.maxSbl < 256) :
    FtiOk oti L (Spec.encode (ftiRs28 L oti.esl oti.maxSbl (oti.parity + oti.maxSbl))) 3 (otiOf 5 0 oti.maxSbl oti.esl oti.parity .none) := by
  refine ⟨?_, ?_, by omega, ?_⟩
  · unfold addFti; simp only [hf, NOCODE, RS28, RS28US, RS2M, RAPTORQ, RAPTOR, Nat.reduceEqDiff, if_true, if_false]
    exact fti_rs28_eq_spec oti L hL hE hN
  · spec_bytes
    simp only [Nat.reducePow] at hL hE
    exact extBytes_beBytes 3 _ 64 (by omega) (by omega) (by omega) (by simp only [Nat.reduceMul, Nat.reduceSub, Nat.reducePow]; omega)
      (by simp only [Nat.reduceMul, Nat.reduceSub, Nat.reducePow]; omega)
  · unfold getFtiBytes; simp only [hf, NOCODE, RS28, RS28US, RS2M, RAPTORQ, RAPTOR, Nat.reduceEqDiff, if_true, if_false]
    rw [fti_rs28_parse_spec L _ _ _ hL hE (by omega) hN]; congr 3; omega

theorem fti_rs28us_roundtrip (oti : Oti) (L : Nat) (hf : oti.fecId = 129) (hL : L < 2^48) (hI : oti.inst < 2^16) (hE : oti.esl < 2^16) (hN : oti.parity + oti.maxSbl < 2^16) :
    FtiOk oti L (Spec.encode (ftiSmallBlock L oti.inst oti.esl oti.maxSbl (oti.parity + oti.maxSbl))) 4 (otiOf 129 oti.inst oti.maxSbl oti.esl oti.parity .none) := by
  refine ⟨?_, ?_, by omega, ?_⟩
  · unfold addFti; simp only [hf, NOCODE, RS28, RS28US, RS2M, RAPTORQ, RAPTOR, Nat.reduceEqDiff, if_true, if_false]
    exact fti_rs28us_eq_spec oti L hL hI hE hN
  · spec_bytes
    simp only [Nat.reducePow] at hL hI hE hN
    exact extBytes_beBytes 4 _ 64 (by omega) (by omega) (by omega) (by simp only [Nat.reduceMul, Nat.reduceSub, Nat.reducePow]; omega)
      (by simp only [Nat.reduceMul, Nat.reduceSub, Nat.reducePow]; omega)
  · unfold getFtiBytes; simp only [hf, NOCODE, RS28, RS28US, RS2M, RAPTORQ, RAPTOR, Nat.reduceEqDiff, if_true, if_false]
    rw [fti_rs28us_parse_spec L _ _ _ _ hL hI hE (by omega) hN]; congr 3; omega

theorem fti_rs2m_roundtrip (oti : Oti) (L : Nat) (m g : Nat) (hf : oti.fecId = 2) (hss : oti.ss = .rs m g) (hL : L < 2^48) (hm : m < 256) (hg : g < 256) (hE : oti.esl < 2^16) (hN : oti.parity + oti.maxSbl < 2^16) :
    FtiOk oti L (Spec.encode (ftiRs2m L m g oti.esl oti.maxSbl (oti.parity + oti.maxSbl))) 4 (otiOf 2 0 oti.maxSbl oti.esl oti.parity (.rs (if m = 0 then 8 else m) (if g = 0 then 1 else g))) := by
  refine ⟨?_, ?_, by omega, ?_⟩
  · unfold addFti; simp only [hf, NOCODE, RS28, RS28US, RS2M, RAPTORQ, RAPTOR, Nat.reduceEqDiff, if_true, if_false]
    exact fti_rs2m_eq_spec oti L m g hss hL hm hg hE hN
  · spec_bytes
    simp only [Nat.reducePow] at hL hE hN
    exact extBytes_beBytes 4 _ 64 (by omega) (by omega) (by omega) (by simp only [Nat.reduceMul, Nat.reduceSub, Nat.reducePow]; omega)
      (by simp only [Nat.reduceMul, Nat.reduceSub, Nat.reducePow]; omega)
  · unfold getFtiBytes; simp only [hf, NOCODE, RS28, RS28US, RS2M, RAPTORQ, RAPTOR, Nat.reduceEqDiff, if_true, if_false]
    rw [fti_rs2m_parse_spec L m g _ _ _ hL hm hg hE (by omega) hN]; congr 3; omega

theorem fti_raptorq_roundtrip (oti : Oti) (L : Nat) (z n al : Nat) (hf : oti.fecId = 6) (hss : oti.ss = .raptorq z n al) (hL : L < 2^40) (hT : oti.esl < 2^16) (hz : z < 2^8) (hn : n < 2^16) (hal : al < 2^8)
    (hT0 : oti.esl ≠ 0) (hz0 : z ≠ 0) (hal0 : al ≠ 0) (hdiv : oti.esl % al = 0) :
    FtiOk oti L (Spec.encode (ftiRaptorQ L oti.esl z n al)) 4 (otiOf 6 0 (divCeil (divCeil L z) oti.esl % 2^32) oti.esl 0 (.raptorq z n al)) := by
  refine ⟨?_, ?_, by omega, ?_⟩
  · unfold addFti; simp only [hf, NOCODE, RS28, RS28US, RS2M, RAPTORQ, RAPTOR, Nat.reduceEqDiff, if_true, if_false]
    exact fti_raptorq_eq_spec oti L z n al hss hL hT hz hn hal
  · spec_bytes
    simp only [Nat.reducePow] at hL hT hz hn hal
    exact extBytes_beBytes 4 _ 64 (by omega) (by omega) (by omega) (by simp only [Nat.reduceMul, Nat.reduceSub, Nat.reducePow]; omega)
      (by simp only [Nat.reduceMul, Nat.reduceSub, Nat.reducePow]; omega)
  · unfold getFtiBytes; simp only [hf, NOCODE, RS28, RS28US, RS2M, RAPTORQ, RAPTOR, Nat.reduceEqDiff, if_true, if_false]
    rw [fti_raptorq_parse_spec L _ z n al hL hT hz hn hal]; unfold raptorCheck; rw [if_neg hT0, if_neg hz0, if_neg hal0, if_neg (by omega)]

theorem fti_raptor_roundtrip (oti : Oti) (L : Nat) (z n al : Nat) (hf : oti.fecId = 1) (hss : oti.ss = .raptor z n al) (hL : L < 2^48) (hT : oti.esl < 2^16) (hz : z < 2^16) (hn : n < 2^8) (hal : al < 2^8)
    (hT0 : oti.esl ≠ 0) (hz0 : z ≠ 0) (hal0 : al ≠ 0) (hdiv : oti.esl % al = 0) :
    FtiOk oti L (Spec.encode (ftiRaptor L oti.esl z n al)) 4 (otiOf 1 0 (divCeil (divCeil L z) oti.esl % 2^32) oti.esl 0 (.raptor z n al)) := by
  refine ⟨?_, ?_, by omega, ?_⟩
  · unfold addFti; simp only [hf, NOCODE, RS28, RS28US, RS2M, RAPTORQ, RAPTOR, Nat.reduceEqDiff, if_true, if_false]
    exact fti_raptor_eq_spec oti L z n al hss hL hT hz hn hal
  · spec_bytes
    simp only [Nat.reducePow] at hL hT hz hn hal
    exact extBytes_beBytes 4 _ 64 (by omega) (by omega) (by omega) (by simp only [Nat.reduceMul, Nat.reduceSub, Nat.reducePow]; omega)
      (by simp only [Nat.reduceMul, Nat.reduceSub, Nat.reducePow]; omega)
  · unfold getFtiBytes; simp only [hf, NOCODE, RS28, RS28US, RS2M, RAPTORQ, RAPTOR, Nat.reduceEqDiff, if_true, if_false]
    rw [fti_raptor_parse_spec L _ z n al hL hT hz hn hal]; unfold raptorCheck; rw [if_neg hT0, if_neg hz0, if_neg hal0, if_neg (by omega)]

theorem payload_id_nocode_roundtrip (oti : Oti) (sbn esi sbl : Nat) (hf : oti.fecId = 0) (h1 : sbn < 2^16) (h2 : esi < 2^16) :
    PidOk oti sbn esi sbl (Spec.encode (fpidNoCode sbn esi)) { sbn := sbn, esi := esi, sbl := none } := by
  have hl : (Spec.encode (fpidNoCode sbn esi)).length = 4 := by spec_bytes; rw [length_beBytes]
  refine pidOk_of oti sbn esi sbl _ _ (payload_id_nocode_eq_spec oti sbn esi sbl hf h1 h2) (by rw [hl, hf]; rfl) ?_
  rw [hl]; exact payload_id_nocode_parse_spec oti [] [] sbn esi hf h1 h2

theorem payload_id_rs28_roundtrip (oti : Oti) (sbn esi sbl : Nat) (hf : oti.fecId = 5) (h1 : sbn < 2^24) (h2 : esi < 2^8) :
    PidOk oti sbn esi sbl (Spec.encode (fpidRs28 sbn esi)) { sbn := sbn, esi := esi, sbl := none } := by
  have hl : (Spec.encode (fpidRs28 sbn esi)).length = 4 := by spec_bytes; rw [length_beBytes]
  refine pidOk_of oti sbn esi sbl _ _ (payload_id_rs28_eq_spec oti sbn esi sbl hf h1 h2) (by rw [hl, hf]; rfl) ?_
  rw [hl]; exact payload_id_rs28_parse_spec oti [] [] sbn esi hf h1 h2

theorem payload_id_rs28us_roundtrip (oti : Oti) (sbn esi sbl : Nat) (hf : oti.fecId = 129) (h1 : sbn < 2^32)
    (h2 : esi < 2^16) (h3 : sbl < 2^16) :
    PidOk oti sbn esi sbl (Spec.encode (fpidSmallBlock sbn sbl esi)) { sbn := sbn, esi := esi, sbl := some sbl } := by
  have hl : (Spec.encode (fpidSmallBlock sbn sbl esi)).length = 8 := by spec_bytes; rw [length_beBytes]
  refine pidOk_of oti sbn esi sbl _ _ (payload_id_rs28us_eq_spec oti sbn esi sbl hf h1 h2 h3) (by rw [hl, hf]; rfl) ?_
  rw [hl]; exact payload_id_rs28us_parse_spec oti [] [] sbn sbl esi hf h1 h2 h3

theorem payload_id_raptorq_roundtrip (oti : Oti) (sbn esi sbl : Nat) (hf : oti.fecId = 6) (h1 : sbn < 2^8) (h2 : esi < 2^24) :
    PidOk oti sbn esi sbl (Spec.encode (fpidRaptorQ sbn esi)) { sbn := sbn, esi := esi, sbl := none } := by
  have hl : (Spec.encode (fpidRaptorQ sbn esi)).length = 4 := by spec_bytes; rw [length_beBytes]
  refine pidOk_of oti sbn esi sbl _ _ (payload_id_raptorq_eq_spec oti sbn esi sbl hf h1 h2) (by rw [hl, hf]; rfl) ?_
  rw [hl]; exact payload_id_raptorq_parse_spec oti [] [] sbn esi hf h1 h2

theorem payload_id_raptor_roundtrip (oti : Oti) (sbn esi sbl : Nat) (hf : oti.fecId = 1) (h1 : sbn < 2^16) (h2 : esi < 2^16) :
    PidOk oti sbn esi sbl (Spec.encode (fpidRaptor sbn esi)) { sbn := sbn, esi := esi, sbl := none } := by
  have hl : (Spec.encode (fpidRaptor sbn esi)).length = 4 := by spec_bytes; rw [length_beBytes]
  refine pidOk_of oti sbn esi sbl _ _ (payload_id_raptor_eq_spec oti sbn esi sbl hf h1 h2) (by rw [hl, hf]; rfl) ?_
  rw [hl]; exact payload_id_raptor_parse_spec oti [] [] sbn esi hf h1 h2

theorem payload_id_rs2m_roundtrip (oti : Oti) (m g sbn esi sbl : Nat) (hf : oti.fecId = 2) (hss : oti.ss = .rs m g)
    (hm : m < 32) (h1 : sbn < 2^(32 - m)) (h2 : esi < 2^m) :
    PidOk oti sbn esi sbl (Spec.encode (fpidRs2m m sbn esi)) { sbn := sbn, esi := esi, sbl := none } := by
  have hl : (Spec.encode (fpidRs2m m sbn esi)).length = 4 := by
    rw [encode_fpidRs2m m sbn esi (by omega), length_beBytes]
  refine pidOk_of oti sbn esi sbl _ _ (payload_id_rs2m_eq_spec oti m g sbn esi sbl hf hss hm h1 h2) (by rw [hl, hf]; rfl) ?_
  rw [hl]; exact payload_id_rs2m_parse_spec oti [] [] m g sbn esi hf hss hm h1 h2


/-! ## whole-packet composition -/

/-- **alc_pkt_roundtrip**: `parse_alc_pkt (new_alc_pkt x) = Ok x`, all fields, for every packet flute can build.
    For every OTI of a known scheme whose EXT_FTI and payload id round-trip (`FtiOk` / `PidOk`: established over the
    whole field ranges of each scheme by `fti_<scheme>_roundtrip` / `payload_id_<scheme>_roundtrip`), every
    CCI < 2^128, TSI < 2^48, TOI < 2^112, A/B flag, profile, FDT instance id < 2^20 (TOI 0), content encoding,
    instant of NTP era 0, payload:
    the builder does not panic, the parser accepts the datagram, and returns the LCT values, codepoint and flags,
    EXT_FDT version + instance id iff TOI = 0, EXT_CENC iff flute's condition, OTI + transfer length iff FTI is sent,
    `get_sender_current_time` returns the instant to the microsecond iff enabled, `parse_payload_id` returns
    SBN / ESI / source block length, the payload is exactly the tail after `data_payload_offset`, and
    `len = data_alc_header_offset`, `data_payload_offset = len + payload-id length`.
    This is the chaining through `inc_hdr_len`, `header_ext_offset`, `data_alc_header_offset` and
    `data_payload_offset`: the proof goes through the RFC layout (`pktHeader`), i.e. the datagram is also what an
    independent RFC implementation expects. -/
theorem alc_pkt_roundtrip (oti : Oti) (cci tsi : Nat) (pkt : Pkt) (rfc3926 : Bool) (nowUs id : Nat)
    (wfti : List Nat) (nfti : Nat) (o' : Oti) (wpid : List Nat) (pid : PayloadId)
    (hk : knownFec oti.fecId = true) (hcci : cci < 2^128) (htsi : tsi < 2^48) (htoi : pkt.toi < 2^112)
    (hfdt : pkt.toi = 0 → pkt.fdtId = some id)
    (hcenc : pkt.cenc ≤ 3)
    (hnow : pkt.senderCurrentTime = true → nowUs / 1000000 + 2208988800 < 2^32)
    (hfti : (pkt.toi = 0 ∨ oti.inbandFti = true) → FtiOk oti pkt.transferLength wfti nfti o') (hn : nfti ≤ 4)
    (hpid : PidOk oti pkt.sbn pkt.esi pkt.sourceBlockLength wpid pid) :
    ∃ d p, newAlcPkt oti cci tsi pkt rfc3926 nowUs = .ok d ∧ parseAlcPkt d = .ok p ∧
      p.lct.cci = cci ∧ p.lct.tsi = tsi ∧ p.lct.toi = pkt.toi ∧ p.lct.cp = oti.fecId ∧
      p.lct.closeObject = pkt.closeObject ∧ p.lct.closeSession = false ∧
      p.fdtInfo = (if pkt.toi = 0 then some (if rfc3926 = true then 1 else 2, id % 2^20) else none) ∧
      p.cenc = (if (pkt.toi = 0 ∧ pkt.cenc ≠ 0) ∨ pkt.inbandCenc = true then some pkt.cenc else none) ∧
      p.oti = (if pkt.toi = 0 ∨ oti.inbandFti = true then some o' else none) ∧
      p.transferLength = (if pkt.toi = 0 ∨ oti.inbandFti = true then some pkt.transferLength else none) ∧
      getSenderCurrentTime d p = .ok (if pkt.senderCurrentTime = true then some nowUs else none) ∧
      parsePayloadId d p oti = .ok pid ∧
      d.drop p.payloadOffset = pkt.payload ∧
      p.lct.len = p.alcHeaderOffset ∧ p.payloadOffset = p.lct.len + payloadIdLen oti.fecId ∧
      p.payloadOffset + pkt.payload.length = d.length := by
  have hcp : oti.fecId < 256 := by
    simp only [knownFec, decide_eq_true_eq] at hk; omega
  -- the NTP timestamp of the instant (irrelevant when no EXT_TIME is sent)
  obtain ⟨ntp, hntp1, hntp2, hntp3⟩ : ∃ ntp, (pkt.senderCurrentTime = true → systemTimeToNtp nowUs = .ok ntp) ∧ ntp < 2^64 ∧
      (pkt.senderCurrentTime = true → ntpToSystemTime ntp = .ok nowUs) := by
    by_cases h : pkt.senderCurrentTime = true
    · obtain ⟨ntp, a, b, c⟩ := ntp_roundtrip nowUs (hnow h)
      exact ⟨ntp, fun _ => a, b, fun _ => c⟩
    · exact ⟨0, fun h' => absurd h' h, by decide, fun h' => absurd h' h⟩
  obtain ⟨hv, hbuild⟩ := newAlcPkt_layout oti cci tsi pkt rfc3926 nowUs ntp id wfti nfti o' wpid hcp hcci htsi htoi hfdt
    (by omega) hntp1 hfti hn hpid.build
  have hparse := parseAlcPkt_pktHeader oti cci tsi pkt rfc3926 ntp id wfti nfti o' wpid hv hk hcenc
    hfti hpid.len
  have hsct := getSenderCurrentTime_pktHeader oti cci tsi pkt rfc3926 ntp id wfti nfti o' (wpid ++ pkt.payload) hv
    hcenc hfti hntp2
  obtain ⟨hp1, hp2, hp3⟩ := parsePayloadId_pktHeader oti cci tsi pkt rfc3926 ntp id wfti o' oti wpid pkt.payload hv hpid.len
  refine ⟨_, _, hbuild, hparse, rfl, rfl, rfl, rfl, rfl, rfl, rfl, rfl, rfl, rfl, ?_, ?_, hp2, rfl, ?_, hp3⟩
  · rw [hsct]
    by_cases h : pkt.senderCurrentTime = true
    · rw [if_pos h, if_pos h, hntp3 h]; rfl
    · rw [if_neg h, if_neg h]
  · rw [hp1]; exact hpid.parse
  · show payloadIdLen oti.fecId + _ = _ + payloadIdLen oti.fecId
    exact Nat.add_comm _ _

/-- **close_session_roundtrip**: the packet `new_alc_pkt_close_session(cci, tsi)` builds (A flag, TOI 0, No-Code
    EXT_FTI with all-zero values, zero payload id, no payload) is the RFC layout of those values and is parsed back
    by flute with `close_session = true`, the given CCI / TSI, TOI 0, no EXT_FDT, no EXT_CENC -/
theorem close_session_roundtrip (cci tsi : Nat) (hcci : cci < 2^128) (htsi : tsi < 2^48) :
    ∃ d p f, newAlcPktCloseSession cci tsi = .ok d ∧ LctFields.Valid f ∧ d = f.encode ++ [0, 0, 0, 0] ∧
      f.a = 1 ∧ f.b = 0 ∧ f.cci = cci ∧ f.tsi = tsi ∧ f.toi = 0 ∧ f.cp = 0 ∧
      parseAlcPkt d = .ok p ∧
      p.lct.closeSession = true ∧ p.lct.closeObject = false ∧ p.lct.cci = cci ∧ p.lct.tsi = tsi ∧ p.lct.toi = 0 ∧
      p.lct.cp = 0 ∧ p.fdtInfo = none ∧ p.cenc = none ∧
      p.oti = some (otiOf 0 0 0 0 0 .none) ∧ p.transferLength = some 0 ∧
      p.payloadOffset = d.length := by
  let oti : Oti := { fecId := NOCODE, inst := 0, maxSbl := 0, esl := 0, parity := 0, ss := .none, inbandFti := true }
  have hfti := fti_nocode_roundtrip oti 0 rfl (by decide) (by decide) (by decide)
  generalize hw : Spec.encode (ftiNoCode 0 oti.esl oti.maxSbl) = w at hfti
  obtain ⟨hv0, hb0⟩ := pushLctHeader_eq_spec 0 cci tsi 0 0 false true (by omega) (by omega) hcci htsi (by decide)
  have hl0 := specOfBuild_hdrLen_le 0 cci tsi 0 0 false true hcci htsi (by decide)
  generalize hf0 : specOfBuild 0 cci tsi 0 0 false true = f0 at hv0 hb0 hl0
  have hex0 : f0.exts = [] := by rw [← hf0]; rfl
  obtain ⟨hs, hv1⟩ := extendInc_encode f0 hv0 w 64 4 hfti.ext (by omega)
  obtain ⟨_, hee, _, _⟩ := extOfBytes_spec hfti.ext
  generalize hf1 : f0.addExt (extOfBytes w) = f1 at hs hv1
  have hE : f1.exts = [extOfBytes w] := by rw [← hf1]; simp [LctFields.addExt, hex0]
  have hbuild : newAlcPktCloseSession cci tsi = .ok (f1.encode ++ [0, 0, 0, 0]) := by
    unfold newAlcPktCloseSession
    simp only []
    have : addFti { fecId := 0, inst := 0, maxSbl := 0, esl := 0, parity := 0, ss := .none, inbandFti := true } 0 =
        .ok (w, 4) := hfti.build
    rw [show (NOCODE : Nat) = 0 from rfl]
    rw [hb0, this]
    simp only []
    rw [hs]
    rfl
  have hfind : ∀ t, (findExt f1.exts t).map Ext.encode = if t = 64 then some w else none := by
    intro t
    have hh := (extOfBytes_spec hfti.ext).2.2.1
    rw [hE]; unfold findExt
    by_cases h : t = 64
    · subst h; simp [hh, hee]
    · have : ¬ (extOfBytes w).het = t := by rw [hh]; omega
      simp [this, h]
  have g64 := getExt_encode f1 hv1 [0, 0, 0, 0] 64
  have g193 := getExt_encode f1 hv1 [0, 0, 0, 0] 193
  have g192 := getExt_encode f1 hv1 [0, 0, 0, 0] 192
  rw [hfind] at g64 g193 g192
  simp only [if_true, show ¬ (193 = 64) by decide, show ¬ (192 = 64) by decide, if_false] at g64 g193 g192
  have hcp : (parsedOf f1).cp = 0 := by rw [← hf1, ← hf0]; rfl
  have htoi : (parsedOf f1).toi = 0 := by rw [← hf1, ← hf0]; rfl
  have hparse : parseAlcPkt (f1.encode ++ [0, 0, 0, 0]) =
      .ok { lct := parsedOf f1, oti := some (otiOf 0 0 0 0 0 .none), transferLength := some 0, cenc := none,
            fdtInfo := none, alcHeaderOffset := (parsedOf f1).len, payloadOffset := 4 + (parsedOf f1).len } := by
    unfold parseAlcPkt
    rw [parseLctHeader_encode f1 hv1 _, Out.bind_ok, hcp]
    rw [if_neg (by decide)]
    simp only []
    rw [if_neg (by
      rw [List.length_append, length_encode f1 hv1]
      show ¬ (payloadIdLen 0 + 4 * f1.hdrLen > 4 * f1.hdrLen + 4)
      have : payloadIdLen 0 = 4 := rfl
      omega)]
    unfold getFti
    rw [show EXT_FTI = 64 from rfl, g64, Out.bind_ok]
    simp only []
    rw [show getFtiBytes 0 w = .ok (otiOf 0 0 0 0 0 .none, 0) from hfti.parse, Out.bind_ok, Out.bind_ok,
      show EXT_CENC = 193 from rfl, g193, Out.bind_ok]
    unfold fdtInfoOf
    rw [htoi, if_pos rfl, show EXT_FDT = 192 from rfl, g192]
    rfl
  refine ⟨_, _, f1, hbuild, hv1, rfl, ?_, ?_, ?_, ?_, ?_, ?_, hparse, ?_, ?_, ?_, ?_, ?_, ?_, rfl, rfl, rfl, rfl, ?_⟩
  all_goals first
    | (rw [← hf1, ← hf0]; rfl)
    | skip
  show 4 + (parsedOf f1).len = (f1.encode ++ [0, 0, 0, 0]).length
  rw [List.length_append, length_encode f1 hv1]; show 4 + 4 * f1.hdrLen = _; simp only [List.length_cons, List.length_nil]; omega

/-! ## the independent RFC implementation is itself consistent (`Spec.decode ∘ Spec.encode = id`) -/

/-- **spec_lct_roundtrip**: the spec's LCT decoder on the spec encoding of any valid header (any legal widths, any
    extension list; `hel = 0` on fixed-length extensions, where the field does not exist), followed by any
    octets, returns the header and its length -/
theorem spec_lct_roundtrip (f : LctFields) (hv : f.Valid) (hc : ∀ e ∈ f.exts, e.Canon) (payload : List Nat)
    (hp : Wf payload) : decodeLct (f.encode ++ payload) = some (f, 4 * f.hdrLen) :=
  decodeLct_encode f hv hc payload hp

/-- the extension list on its own -/
theorem spec_exts_roundtrip (exts : List Ext) (hv : ∀ e ∈ exts, e.Valid) (hc : ∀ e ∈ exts, e.Canon) :
    decodeExts (encodeExts exts).length (encodeExts exts) = some exts :=
  decodeExts_encodeExts exts hv hc _ (Nat.le_refl _)

/-- EXT_FDT / EXT_CENC / EXT_TIME layouts -/
theorem spec_ext_roundtrip (v id c secs frac : Nat) (hv : v < 2^4) (hid : id < 2^20) (hc : c < 2^8) (h1 : secs < 2^32)
    (h2 : frac < 2^32) :
    decodeExtFdt (Spec.encode (extFdtDiagram v id)) = some (v, id) ∧
    decodeExtCenc (Spec.encode (extCencDiagram c)) = some c ∧
    decodeExtTimeSct (Spec.encode (extTimeSctDiagram secs frac)) = some (secs, frac) :=
  ⟨decodeExtFdt_encode v id hv hid, decodeExtCenc_encode c hc, decodeExtTimeSct_encode secs frac h1 h2⟩

/-- every EXT_FTI layout, over the whole field ranges -/
theorem spec_fti_roundtrip (L inst E B maxN m G Z N Al : Nat) :
    (L < 2^48 → E < 2^16 → B < 2^32 → decodeFti 0 (Spec.encode (ftiNoCode L E B)) = some [L, E, B]) ∧
    (L < 2^48 → inst < 2^16 → E < 2^16 → B < 2^16 → maxN < 2^16 →
      decodeFti 129 (Spec.encode (ftiSmallBlock L inst E B maxN)) = some [L, inst, E, B, maxN]) ∧
    (L < 2^48 → E < 2^16 → B < 2^8 → maxN < 2^8 → decodeFti 5 (Spec.encode (ftiRs28 L E B maxN)) = some [L, E, B, maxN]) ∧
    (L < 2^48 → m < 2^8 → G < 2^8 → E < 2^16 → B < 2^16 → maxN < 2^16 →
      decodeFti 2 (Spec.encode (ftiRs2m L m G E B maxN)) = some [L, m, G, E, B, maxN]) ∧
    (L < 2^40 → E < 2^16 → Z < 2^8 → N < 2^16 → Al < 2^8 →
      decodeFti 6 (Spec.encode (ftiRaptorQ L E Z N Al)) = some [L, E, Z, N, Al]) ∧
    (L < 2^48 → E < 2^16 → Z < 2^16 → N < 2^8 → Al < 2^8 →
      decodeFti 1 (Spec.encode (ftiRaptor L E Z N Al)) = some [L, E, Z, N, Al]) :=
  ⟨decodeFti_nocode L E B, decodeFti_smallblock L inst E B maxN, decodeFti_rs28 L E B maxN,
   decodeFti_rs2m L m G E B maxN, decodeFti_raptorq L E Z N Al, decodeFti_raptor L E Z N Al⟩

/-- every FEC payload id layout, over each scheme's SBN / ESI range -/
theorem spec_fpid_roundtrip (sbn esi sbl m : Nat) :
    (sbn < 2^16 → esi < 2^16 → decodeFpid 0 8 (Spec.encode (fpidNoCode sbn esi)) = some (sbn, esi, none)) ∧
    (sbn < 2^16 → esi < 2^16 → decodeFpid 1 8 (Spec.encode (fpidRaptor sbn esi)) = some (sbn, esi, none)) ∧
    (sbn < 2^24 → esi < 2^8 → decodeFpid 5 8 (Spec.encode (fpidRs28 sbn esi)) = some (sbn, esi, none)) ∧
    (sbn < 2^8 → esi < 2^24 → decodeFpid 6 8 (Spec.encode (fpidRaptorQ sbn esi)) = some (sbn, esi, none)) ∧
    (sbn < 2^32 → sbl < 2^16 → esi < 2^16 →
      decodeFpid 129 8 (Spec.encode (fpidSmallBlock sbn sbl esi)) = some (sbn, esi, some sbl)) ∧
    (m ≤ 32 → sbn < 2^(32 - m) → esi < 2^m → decodeFpid 2 m (Spec.encode (fpidRs2m m sbn esi)) = some (sbn, esi, none)) :=
  ⟨decodeFpid_nocode sbn esi, decodeFpid_raptor sbn esi, decodeFpid_rs28 sbn esi, decodeFpid_raptorq sbn esi,
   decodeFpid_smallblock sbn sbl esi, decodeFpid_rs2m m sbn esi⟩


/-! ## both directions at packet level, through the independent implementation -/

/-- **parse_spec_packet** (converse direction, whole packet): for EVERY datagram an independent RFC implementation
    may emit - any valid header `f` (any legal widths, any extension list with unknown / long extensions), a known
    codepoint, at least a payload id after the header - `parse_alc_pkt` returns: the spec's LCT values, the OTI and
    transfer length flute's per-scheme decoder reads from the FIRST EXT_FTI the spec's receiver finds (none if there
    is none), the content encoding of the first EXT_CENC (none if absent or not 0..3), the EXT_FDT (version, id) of
    the first EXT_FDT when TOI = 0, and the offsets `len = 4·HDR_LEN`, `payload = len + payload-id length`.
    Together with `fti_<scheme>_parse_spec`, `ext_fdt_parse_spec`, `ext_cenc_parse_spec`, `payload_id_<scheme>_parse_spec`
    (RFC diagram ↦ values) this is `flute_parse (Spec.encode P) = P`. -/
theorem parse_spec_packet (f : LctFields) (hv : f.Valid) (rest : List Nat) (hk : knownFec f.cp = true)
    (hlen : payloadIdLen f.cp ≤ rest.length) :
    parseAlcPkt (f.encode ++ rest) =
      ((match findExt f.exts 64 with
        | none => (.ok none : Out (Option (Oti × Nat)))
        | some e => (getFtiBytes f.cp e.encode).bind fun v => .ok (some v)).bind fun fti =>
       (cencOf ((findExt f.exts 193).map Ext.encode)).bind fun cenc =>
       (if f.toi = 0 then
          (match findExt f.exts 192 with
           | some e => parseExtFdt e.encode
           | none => .ok none)
        else .ok none).bind fun fdtInfo =>
       .ok { lct := parsedOf f, oti := fti.map (fun (p : Oti × Nat) => p.1), transferLength := fti.map (fun (p : Oti × Nat) => p.2), cenc := cenc,
             fdtInfo := fdtInfo, alcHeaderOffset := 4 * f.hdrLen, payloadOffset := payloadIdLen f.cp + 4 * f.hdrLen }) := by
  have g64 := getExt_encode f hv rest 64
  have g193 := getExt_encode f hv rest 193
  have g192 := getExt_encode f hv rest 192
  have hcp : (parsedOf f).cp = f.cp := rfl
  have htoi : (parsedOf f).toi = f.toi := rfl
  have hl : (parsedOf f).len = 4 * f.hdrLen := rfl
  unfold parseAlcPkt
  rw [parseLctHeader_encode f hv rest, Out.bind_ok, hcp, if_neg (by simp [hk])]
  simp only []
  rw [if_neg (by rw [hl, List.length_append, length_encode f hv]; omega)]
  unfold getFti fdtInfoOf
  rw [show EXT_FTI = 64 from rfl, show EXT_CENC = 193 from rfl, show EXT_FDT = 192 from rfl, g64, g193, htoi, hl,
    Out.bind_ok]
  congr 1
  · cases findExt f.exts 64 <;> rfl
  · funext fti
    rw [Out.bind_ok]
    congr 1
    funext cenc
    congr 1
    by_cases h : f.toi = 0
    · rw [if_pos h, if_pos h, g192, Out.bind_ok]
      cases findExt f.exts 192 <;> rfl
    · rw [if_neg h, if_neg h]

/-- **alc_pkt_spec_decode** ("an independent implementation of those RFCs decodes identical values", forward
    direction, whole packet): for every packet flute builds (same quantification as `alc_pkt_roundtrip`, payload
    made of bytes) the INDEPENDENT decoder `Spec.decodeLct` accepts the datagram and reads: version 1, the sender's
    CCI / TSI / TOI / codepoint / A = 0 / B flag, and a list of extensions in which its extension search finds
    - EXT_FDT iff TOI = 0, which `Spec.decodeExtFdt` reads as (FLUTE version of the profile, id mod 2^20),
    - EXT_CENC iff flute's condition, read by `Spec.decodeExtCenc` as the sender's content encoding,
    - EXT_TIME iff enabled, read by `Spec.decodeExtTimeSct` as an NTP timestamp that a truncating receiver converts
      to exactly the sender's microsecond,
    - EXT_FTI iff sent, whose octets are `wfti` (per scheme the RFC diagram of the OTI values, which
      `spec_fti_roundtrip` inverts),
    then the payload id octets `wpid` (per scheme the RFC diagram, inverted by `spec_fpid_roundtrip`) at the header
    length, then exactly the payload. -/
theorem alc_pkt_spec_decode (oti : Oti) (cci tsi : Nat) (pkt : Pkt) (rfc3926 : Bool) (nowUs id : Nat)
    (wfti : List Nat) (nfti : Nat) (o' : Oti) (wpid : List Nat) (pid : PayloadId)
    (hk : knownFec oti.fecId = true) (hcci : cci < 2^128) (htsi : tsi < 2^48) (htoi : pkt.toi < 2^112)
    (hfdt : pkt.toi = 0 → pkt.fdtId = some id) (hcenc : pkt.cenc ≤ 3)
    (hnow : pkt.senderCurrentTime = true → nowUs / 1000000 + 2208988800 < 2^32)
    (hfti : (pkt.toi = 0 ∨ oti.inbandFti = true) → FtiOk oti pkt.transferLength wfti nfti o') (hn : nfti ≤ 4)
    (hpid : PidOk oti pkt.sbn pkt.esi pkt.sourceBlockLength wpid pid) (hwp : Wf wpid) (hpay : Wf pkt.payload) :
    ∃ d f, newAlcPkt oti cci tsi pkt rfc3926 nowUs = .ok d ∧ decodeLct d = some (f, 4 * f.hdrLen) ∧
      f.v = 1 ∧ f.psi = 0 ∧ f.cci = cci ∧ f.tsi = tsi ∧ f.toi = pkt.toi ∧ f.cp = oti.fecId ∧ f.a = 0 ∧
      f.b = b2n pkt.closeObject ∧
      ((findExt f.exts 192).bind fun e => decodeExtFdt e.encode) =
        (if pkt.toi = 0 then some (if rfc3926 = true then 1 else 2, id % 2^20) else none) ∧
      ((findExt f.exts 193).bind fun e => decodeExtCenc e.encode) =
        (if (pkt.toi = 0 ∧ pkt.cenc ≠ 0) ∨ pkt.inbandCenc = true then some pkt.cenc else none) ∧
      (((findExt f.exts 2).bind fun e => decodeExtTimeSct e.encode).map fun (t : Nat × Nat) => ntpToMicrosFloor t.1 t.2) =
        (if pkt.senderCurrentTime = true then some nowUs else none) ∧
      (findExt f.exts 64).map Ext.encode = (if pkt.toi = 0 ∨ oti.inbandFti = true then some wfti else none) ∧
      octetsAt d (4 * f.hdrLen) wpid.length = wpid ∧ d.drop (4 * f.hdrLen + wpid.length) = pkt.payload := by
  have hcp : oti.fecId < 256 := by simp only [knownFec, decide_eq_true_eq] at hk; omega
  obtain ⟨ntp, hntp1, hntp2, hntp3⟩ : ∃ ntp, (pkt.senderCurrentTime = true → systemTimeToNtp nowUs = .ok ntp) ∧ ntp < 2^64 ∧
      (pkt.senderCurrentTime = true → ntpToMicrosFloor (ntp / 2^32) (ntp % 2^32) = nowUs) := by
    by_cases h : pkt.senderCurrentTime = true
    · obtain ⟨ntp, a, _, b, _⟩ := ntp_eq_spec nowUs (hnow h)
      obtain ⟨ntp', a', c', _⟩ := ntp_roundtrip nowUs (hnow h)
      have : ntp = ntp' := by rw [a] at a'; cases a'; rfl
      subst this
      exact ⟨ntp, fun _ => a, c', fun _ => b⟩
    · exact ⟨0, fun h' => absurd h' h, by decide, fun h' => absurd h' h⟩
  obtain ⟨hv, hbuild⟩ := newAlcPkt_layout oti cci tsi pkt rfc3926 nowUs ntp id wfti nfti o' wpid hcp hcci htsi htoi hfdt
    (by omega) hntp1 hfti hn hpid.build
  have hver : (if rfc3926 = true then 1 else 2 : Nat) < 16 := by split <;> omega
  obtain ⟨x192, x193, x2, x64⟩ := findExt_pkt (pkt.toi = 0) ((pkt.toi = 0 ∧ pkt.cenc ≠ 0) ∨ pkt.inbandCenc = true)
    (pkt.senderCurrentTime = true) (pkt.toi = 0 ∨ oti.inbandFti = true)
    (fdtBytes (if rfc3926 then 1 else 2) id) (cencBytes pkt.cenc) (sctBytes ntp) wfti 1 1 3 nfti
    (fun _ => fdtBytes_ext _ _ hver) (fun _ => cencBytes_ext _ (by omega)) (fun _ => sctBytes_ext _)
    (fun h => (hfti h).ext)
  have hdec := decodeLct_encode _ hv (pktHeader_canon oti cci tsi pkt rfc3926 ntp id wfti) (wpid ++ pkt.payload)
    (wf_append hwp hpay)
  have hl := length_encode _ hv
  generalize hf : pktHeader oti cci tsi pkt rfc3926 ntp id wfti = f at hv hbuild hdec hl
  have hE : f.exts = [] ++ optExt (pkt.toi = 0) (fdtBytes (if rfc3926 then 1 else 2) id)
      ++ optExt ((pkt.toi = 0 ∧ pkt.cenc ≠ 0) ∨ pkt.inbandCenc = true) (cencBytes pkt.cenc)
      ++ optExt (pkt.senderCurrentTime = true) (sctBytes ntp)
      ++ optExt (pkt.toi = 0 ∨ oti.inbandFti = true) wfti := by rw [← hf]; rfl
  rw [← hE] at x192 x193 x2 x64
  -- `findExt … |>.bind (dec ∘ encode)` from `findExt … |>.map encode`
  have bindmap : ∀ {β} (o : Option Ext) (g : List Nat → Option β), (o.bind fun e => g e.encode) = (o.map Ext.encode).bind g := by
    intro β o g; cases o <;> rfl
  refine ⟨_, f, hbuild, hdec, ?_, ?_, ?_, ?_, ?_, ?_, ?_, ?_, ?_, ?_, ?_, x64, ?_, ?_⟩
  · rw [← hf]; rfl
  · rw [← hf]; rfl
  · rw [← hf]; rfl
  · rw [← hf]; rfl
  · rw [← hf]; rfl
  · rw [← hf]; rfl
  · rw [← hf]; rfl
  · rw [← hf]; rfl
  · rw [bindmap, x192]
    by_cases h : pkt.toi = 0
    · simp only [if_pos h, Option.bind_some]
      rw [fdtBytes_eq_spec _ _ hver]
      exact decodeExtFdt_encode _ _ hver (Nat.mod_lt _ (by decide))
    · simp only [if_neg h, Option.bind_none]
  · rw [bindmap, x193]
    by_cases h : (pkt.toi = 0 ∧ pkt.cenc ≠ 0) ∨ pkt.inbandCenc = true
    · simp only [if_pos h, Option.bind_some]
      rw [cencBytes_eq_spec]
      exact decodeExtCenc_encode _ (by simp only [Nat.reducePow]; omega)
    · simp only [if_neg h, Option.bind_none]
  · rw [bindmap, x2]
    by_cases h : pkt.senderCurrentTime = true
    · simp only [if_pos h, Option.bind_some]
      rw [sctBytes_eq_spec ntp hntp2]
      simp only [Nat.reducePow] at hntp2 ⊢
      rw [decodeExtTimeSct_encode _ _ (by simp only [Nat.reducePow]; omega) (by simp only [Nat.reducePow]; omega)]
      simp only [Option.map_some]
      have := hntp3 h
      simp only [Nat.reducePow] at this
      rw [this]
    · simp only [if_neg h, Option.bind_none, Option.map_none]
  · unfold octetsAt
    rw [← hl, List.drop_left, List.take_left]
  · rw [← hl, ← List.length_append, ← List.append_assoc, List.drop_left]


/-! ## receiver leniency the RFC asks for: reserved bits, version 2, every EXT_TIME Use combination -/

/-- **lct_parse_ignores_version2_reserved**: RFC 5651 receivers MUST ignore the reserved bits, and flute also accepts
    version 2 in the V field: take ANY valid RFC header `f` (as in `lct_parse_eq_spec`), overwrite its V field by
    `v ∈ {1, 2}` and its two reserved bits by any `res < 4` (i.e. replace the first two octets accordingly): flute's parser
    returns the same values, and the extension walk the same extensions. -/
theorem lct_parse_ignores_version2_reserved (f : LctFields) (hv : f.Valid) (payload : List Nat) (v res het : Nat)
    (hv2 : v = 1 ∨ v = 2) (hres : res < 4) :
    let d := [v * 16 + f.c * 4 + f.psi, f.s * 128 + f.o * 32 + f.h * 16 + res * 4 + f.a * 2 + f.b]
              ++ (f.encode ++ payload).drop 2
    parseLctHeader d = .ok (parsedOf f) ∧
    getExt d (parsedOf f) het = .ok ((findExt f.exts het).map Ext.encode) := by
  intro d
  have hv' := hv
  obtain ⟨h1, hc, hpsi, hs, ho, hh, ha, hb, hcp, hcci, htsi, htoi, hhl, hexts⟩ := hv'
  have hle := length_encodeExts f.exts hexts
  have hcci' : f.cci < 256 ^ ((f.c + 1) * 4) := by
    have : f.cciBits = 8 * ((f.c + 1) * 4) := by unfold LctFields.cciBits; omega
    rw [this, Nat.pow_mul] at hcci; exact hcci
  have htsi' : f.tsi < 256 ^ (f.s * 4 + f.h * 2) := by
    have : f.tsiBits = 8 * (f.s * 4 + f.h * 2) := by unfold LctFields.tsiBits; omega
    rw [this, Nat.pow_mul] at htsi; exact htsi
  have htoi' : f.toi < 256 ^ (f.o * 4 + f.h * 2) := by
    have : f.toiBits = 8 * (f.o * 4 + f.h * 2) := by unfold LctFields.toiBits; omega
    rw [this, Nat.pow_mul] at htoi; exact htoi
  have hd : d = [v * 16 + f.c * 4 + f.psi, f.s * 128 + f.o * 32 + f.h * 16 + res * 4 + f.a * 2 + f.b, f.hdrLen, f.cp]
      ++ (beBytes ((f.c + 1) * 4) f.cci ++ (beBytes (f.s * 4 + f.h * 2) f.tsi ++ (beBytes (f.o * 4 + f.h * 2) f.toi
      ++ (encodeExts f.exts ++ payload)))) := by
    show _ ++ (f.encode ++ payload).drop 2 = _
    unfold LctFields.encode
    rw [LctFields.encode_diagram f hv]
    simp only [List.append_assoc, List.cons_append, List.nil_append, List.drop_succ_cons, List.drop_zero]
  have hparse := parse_layout v f.c f.psi f.s f.o f.h res f.a f.b f.hdrLen f.cp f.cci f.tsi f.toi (encodeExts f.exts ++ payload)
    hv2 hc hpsi hs ho hh hres ha hb hcci' htsi' htoi'
    (by unfold LctFields.hdrLen; omega)
    (by simp only [List.length_append, hle]; unfold LctFields.hdrLen; omega)
  have hpo : parseLctHeader d = .ok (parsedOf f) := by
    rw [hd, hparse]
    unfold parsedOf
    congr 2
    · omega
    · apply decide_eq_decide.mpr; omega
    · apply decide_eq_decide.mpr; omega
    · omega
  refine ⟨hpo, ?_⟩
  -- the extension area is untouched
  unfold getExt
  have hs : slice d (parsedOf f).headerExtOffset (parsedOf f).len = .ok (encodeExts f.exts) := by
    rw [hd]
    have e : ([v * 16 + f.c * 4 + f.psi, f.s * 128 + f.o * 32 + f.h * 16 + res * 4 + f.a * 2 + f.b, f.hdrLen, f.cp] ++
        (beBytes ((f.c + 1) * 4) f.cci ++ (beBytes (f.s * 4 + f.h * 2) f.tsi ++ (beBytes (f.o * 4 + f.h * 2) f.toi ++
        (encodeExts f.exts ++ payload))))) =
        ([v * 16 + f.c * 4 + f.psi, f.s * 128 + f.o * 32 + f.h * 16 + res * 4 + f.a * 2 + f.b, f.hdrLen, f.cp] ++
        beBytes ((f.c + 1) * 4) f.cci ++ beBytes (f.s * 4 + f.h * 2) f.tsi ++ beBytes (f.o * 4 + f.h * 2) f.toi) ++
        (encodeExts f.exts ++ payload) := by simp only [List.append_assoc]
    rw [e]
    apply slice_mid
    · simp only [List.length_append, List.length_cons, List.length_nil, length_beBytes]; unfold parsedOf; simp only []; omega
    · simp only [List.length_append, List.length_cons, List.length_nil, length_beBytes, hle]
      unfold parsedOf LctFields.hdrLen; simp only []; omega
  rw [hs, Out.bind_ok]
  exact getExtLoop_encodeExts f.exts hexts het _ (Nat.le_refl _)

/-- **ext_time_parse_spec_general**: `parse_sct` on the RFC 5651 §5.2.2 layout of EXT_TIME in EVERY legal Use
    combination (SCT-High / SCT-Low / ERT / SLC each present or not, any reserved and PI-specific bits, the time values
    in RFC order): no sender current time when SCT-High is absent; otherwise `ntp_to_system_time` of SCT-High as seconds
    and SCT-Low (0 when absent) as fraction - ERT and SLC are skipped -/
theorem ext_time_parse_spec_general (hi lo ert slc resv pi : Nat) (vals : List Nat) (hhi : hi < 2) (hlo : lo < 2)
    (hert : ert < 2) (hslc : slc < 2) (hresv : resv < 16) (hpi : pi < 256) (hn : vals.length = hi + lo + ert + slc)
    (hv : ∀ v ∈ vals, v < 2^32) :
    parseSct (Spec.encode (extTimeDiagram hi lo ert slc resv pi vals)) =
      if hi = 0 then .ok none else
      (ntpToSystemTime (vals.headD 0 * 2^32 + (if lo = 1 then (vals.drop 1).headD 0 else 0))).bind fun t => .ok (some t) := by
  unfold extTimeDiagram
  rw [encode_append _ _ (by simp [width]) (by rw [width_vals]; omega) (fieldsOk_vals vals hv), encode_vals vals hv]
  have hw := time_first_word vals.length hi lo ert slc resv pi (by omega) hhi hlo hert hslc hresv hpi
  rw [hw]
  exact parseSct_general hi lo ert slc resv pi vals hhi hlo hert hslc hresv hn hv

end Flute.Props.C06
