import FluteModel.Lemmas.SchedRRMulti
/-
  C13 - Scheduling: FIFO admission, multiplex bound (strict priority and round robin: see below).
  Interleave window (`open blocks ≤ interleave_blocks`, opened in increasing SBN) is a property of one
  `BlockEncoder` and is proved with C08 (`BlockEnc.window_bound`); this engine only checks it on the wire.
-/
namespace Flute.Props.C13
open Flute.Sched

/-- FIFO admission: `get_next_file_transfer` starts the FIRST object of the waiting queue that is eligible for
    this priority queue at `now` - everything ahead of it in the waiting queue is not eligible
    (other queue, unpublished, before its start time, carousel gap not elapsed).  Holds in every state. -/
theorem fifo_admission (s : State) (prio now : Nat) (ticks : List (Nat × Nat)) (s' : State) (t : Nat)
    (h : getNextFile s prio now ticks = (s', some t)) :
    ∃ pre post, s.queue = pre ++ t :: post ∧
      (∀ u ∈ pre, ∀ f, getF s.objs u = some f → shouldTransferNow f prio s.cfg.mode now = false) ∧
      ∃ f, getF s.objs t = some f ∧ shouldTransferNow f prio s.cfg.mode now = true := by
  unfold getNextFile at h
  split at h
  · simp at h
  · rename_i t' hf
    simp only [Prod.mk.injEq, Option.some.injEq] at h
    obtain ⟨_, rfl⟩ := h
    exact findNext_spec s prio now s.queue t' hf

/-- FIFO over whole histories (first transfers): after every operation history, when `get_next_file_transfer`
    starts object `b` for its first transfer while an object `a` that was ADDED EARLIER (`a < b`: the n-th
    `add_object` of a history carries TOI n) is still waiting and has not completed a transfer either, then `a` was
    not eligible at that moment (other queue, unpublished, before its start time, ...).  So within a queue first
    transfers start in the order of addition; repeated transfers are requeued at the tail (`fifo_requeue_at_tail`),
    behind later additions.  (`fresh s t`: `t`'s total transfer counter is 0.) -/
theorem fifo_over_histories (cfg : Cfg) (tbl : List Nat) (ops : List Op) (prio now : Nat) (ticks : List (Nat × Nat))
    (s' : State) (a b : Nat)
    (h : getNextFile (run (init cfg tbl) ops) prio now ticks = (s', some b))
    (ha : a ∈ (run (init cfg tbl) ops).queue) (hab : a < b)
    (hfa : fresh (run (init cfg tbl) ops) a = true) (hfb : fresh (run (init cfg tbl) ops) b = true) :
    ∀ f, getF (run (init cfg tbl) ops).objs a = some f →
      shouldTransferNow f prio (run (init cfg tbl) ops).cfg.mode now = false := by
  have hs := sortedq_run cfg tbl ops
  generalize run (init cfg tbl) ops = s at *
  obtain ⟨pre, post, e, hpre, _⟩ := fifo_admission s prio now ticks s' b h
  rw [e] at ha hs
  rcases List.mem_append.mp ha with hm | hm
  · exact hpre a hm
  · rcases List.mem_cons.mp hm with hm | hm
    · omega
    · exfalso
      rw [List.pairwise_append] at hs
      have := (List.pairwise_cons.mp hs.2.1).1 a hm hfb hfa
      omega

/-- the waiting queue is in insertion order: `add_object` appends at the tail -/
theorem fifo_add_at_tail (s : State) (a : AddArgs) (s' : State) (toi : Nat)
    (h : addObject s a = (s', some toi)) : s'.queue = s.queue ++ [toi] := by
  unfold addObject at h
  simp only [] at h
  split at h
  · simp at h
  · split at h
    · simp at h
    · simp only [Prod.mk.injEq, Option.some.injEq] at h
      obtain ⟨rfl, rfl⟩ := h
      rfl

/-- ... a finished transfer that is to be repeated is requeued at the tail -/
theorem fifo_requeue_at_tail (s : State) (t now : Nat) :
    (transferDoneFile s t now).queue = s.queue ∨ (transferDoneFile s t now).queue = s.queue ++ [t] := by
  rw [transferDoneFile_eq]
  split
  · left; rfl
  · split
    · split
      · right; rfl
      · left; rfl
    · left; rfl

/-- ... and removal / admission never reorder it -/
theorem fifo_remove_keeps_order (s : State) (t : Nat) : (removeObject s t).1.queue.Sublist s.queue := by
  unfold removeObject
  split
  · exact List.Sublist.refl _
  · exact List.filter_sublist

theorem fifo_start_keeps_order (s : State) (t now tk : Nat) :
    (autoPublish (fileStartStep s t now tk) now).queue.Sublist s.queue := by
  have : (autoPublish (fileStartStep s t now tk) now).queue = s.queue.erase t := by
    unfold autoPublish; split
    · exact publishTry_elim (P := fun x => x.queue = s.queue.erase t) _ now rfl rfl
    · rfl
  rw [this]; exact List.erase_sublist

/-- Multiplex bound: after every operation history the number of objects in transfer in priority queue `p`
    is at most the number of slots configured for `p` (`max(1, multiplex_files)`; summed if the configuration
    list mentions `p` several times - a `BTreeMap` mentions it once). -/
theorem multiplex_bound (cfg : Cfg) (tbl : List Nat) (ops : List Op) (p : Nat) :
    ((run (init cfg tbl) ops).objs.filter (fun f => f.prio == p && f.info.transferring)).length ≤
      ((cfg.queues.filter (fun q => q.1 == p)).map (fun q => slotsOf q.2)).sum := by
  exact multiplex_bound_aux cfg tbl ops p

/-- the objects in transfer are exactly the contents of the busy slots, pairwise distinct -/
theorem slots_hold_distinct_transferring (cfg : Cfg) (tbl : List Nat) (ops : List Op) :
    let s := run (init cfg tbl) ops
    ((heldOf s).map (fun pc => pc.2.key)).Nodup ∧
    (∀ pc ∈ heldOf s, ∃ f, getF s.objs pc.2.key = some f ∧ f.info.transferring = true ∧ f.prio = pc.1) ∧
    (∀ f ∈ s.objs, f.info.transferring = true → ∃ pc ∈ heldOf s, pc.2.key = f.key) :=
  let h := wf_run cfg tbl ops
  ⟨h.heldNodup, h.heldObj, h.transHeld⟩

/-- Strict priority for transfers in progress, after every operation history: if a slot of priority queue `q`
    holds a transfer whose next packet is due at `now` (pacing gate open, encoder neither drained nor stopped),
    then `read(now)` returns an FDT packet or a packet of `q` or of a queue visited before `q` - never `None` and
    never a packet of a queue after `q`.  With the configuration sorted by priority (`BTreeMap`): of priority
    `≤ q.prio`.  (One half of `strict_priority`; the other half is `strict_priority_waiting`.) -/
theorem strict_priority_in_progress (cfg : Cfg) (tbl : List Nat) (ops : List Op) (pre post : List QSess) (q : QSess)
    (j : Nat) (c : Cur) (f : FileDesc) (now : Nat) (ticks : List (Nat × Nat))
    (hsorted : (cfg.queues.map (fun x => x.1)).Pairwise (fun a b => a < b))
    (hsess : (run (init cfg tbl) ops).sessions = pre ++ q :: post)
    (hjs : q.slots[j]? = some (some c)) (hf : getF (run (init cfg tbl) ops).objs c.key = some f)
    (hg : gateBlocked f now = false) (hs : c.enc.stopped = false) (hlt : c.enc.sent < f.nPk) :
    (read (run (init cfg tbl) ops) now ticks).2 ≠ Out.none ∧
    ∀ p t i b, (read (run (init cfg tbl) ops) now ticks).2 = Out.pkt p t i b → p ≤ q.prio := by
  obtain ⟨h1, h2⟩ := read_due cfg tbl ops pre post q j c f now ticks hsess hjs hf hg hs hlt
  exact ⟨h1, fun p t i b e => prio_le_of_sorted cfg tbl ops pre post q hsorted hsess p (h2 p t i b e)⟩

/-- Strict priority for WAITING objects, after every operation history: if priority queue `q` has a free slot and
    `get_next_file_transfer(q.prio)` would start an object now (`findNext`: the first object of the waiting queue
    that `should_transfer_now` accepts - right priority, published (FullFDT), start time reached, not in transfer,
    count / carousel gap satisfied), then `read(now)` returns an FDT packet (e.g. the automatic publication of
    ObjectsBeingTransferred mode) or an object packet of priority `≤ q.prio` - never `None`, never a packet of a
    lower-priority queue.  The FDT session and the queues polled before `q` cannot take the object away: they only
    touch objects of their own priority, and a publication only makes more objects eligible. -/
theorem strict_priority_waiting (cfg : Cfg) (tbl : List Nat) (ops : List Op) (pre post : List QSess) (q : QSess)
    (j t : Nat) (now : Nat) (ticks : List (Nat × Nat))
    (hsorted : (cfg.queues.map (fun x => x.1)).Pairwise (fun a b => a < b))
    (hsess : (run (init cfg tbl) ops).sessions = pre ++ q :: post)
    (hfree : q.slots[j]? = some none)
    (hfind : findNext (run (init cfg tbl) ops) q.prio now (run (init cfg tbl) ops).queue = some t) :
    (read (run (init cfg tbl) ops) now ticks).2 ≠ Out.none ∧
    ∀ p t i b, (read (run (init cfg tbl) ops) now ticks).2 = Out.pkt p t i b → p ≤ q.prio := by
  obtain ⟨h1, h2⟩ := read_wait cfg tbl ops pre post q j t now ticks hsorted hsess hfree hfind
    (fun u _ g hg _ hw => stale_run cfg tbl ops g (getF_mem hg) hw)
  exact ⟨h1, fun p t i b e => prio_le_of_sorted cfg tbl ops pre post q hsorted hsess p (h2 p t i b e)⟩

/-- `q` has something READY at `now`: a transfer in one of its slots whose next packet is due, or a free slot and a
    waiting object that `get_next_file_transfer` would start -/
def Ready (s : State) (q : QSess) (now : Nat) : Prop :=
  (∃ (j : Nat) (c : Cur) (f : FileDesc), q.slots[j]? = some (some c) ∧ getF s.objs c.key = some f ∧ gateBlocked f now = false ∧
    c.enc.stopped = false ∧ c.enc.sent < f.nPk) ∨
  (∃ (j t : Nat), q.slots[j]? = some none ∧ findNext s q.prio now s.queue = some t)

/-- STRICT PRIORITY: after every operation history, while priority queue `q` has something ready (`Ready`: not
    waiting for its start time, a carousel delay, a pacing tick, a publication - and not behind the multiplex bound),
    `read` never returns `None` and never a packet of a queue of lower priority (`p ≤ q.prio`, smaller number =
    higher priority; FDT packets come first, C11).
    The literal clause of the property is stronger in one point and FALSE there: an eligible object that waits only
    because every slot of its queue is occupied by pacing transfers is "ready" in the property's words but not
    `Ready` - lower-priority packets do go out then (finding F23, class `C13:hol-blocked-behind-paced-slot`). -/
theorem strict_priority (cfg : Cfg) (tbl : List Nat) (ops : List Op) (pre post : List QSess) (q : QSess)
    (now : Nat) (ticks : List (Nat × Nat))
    (hsorted : (cfg.queues.map (fun x => x.1)).Pairwise (fun a b => a < b))
    (hsess : (run (init cfg tbl) ops).sessions = pre ++ q :: post)
    (hready : Ready (run (init cfg tbl) ops) q now) :
    (read (run (init cfg tbl) ops) now ticks).2 ≠ Out.none ∧
    ∀ p t i b, (read (run (init cfg tbl) ops) now ticks).2 = Out.pkt p t i b → p ≤ q.prio := by
  rcases hready with ⟨j, c, f, h1, h2, h3, h4, h5⟩ | ⟨j, t, h1, h2⟩
  · exact strict_priority_in_progress cfg tbl ops pre post q j c f now ticks hsorted hsess h1 h2 h3 h4 h5
  · exact strict_priority_waiting cfg tbl ops pre post q j t now ticks hsorted hsess h1 h2

/-- Work conservation (contrapositive of `strict_priority`, the liveness-flavoured reading): after every operation
    history, `read(now)` returns `None` ONLY IF no priority queue has anything ready at `now` - every transfer in a
    slot is held back (pacing gate closed, stopped, or drained), and a waiting object that `should_transfer_now`
    accepts exists only for queues all of whose slots are occupied.  Together with C12 `read_terminates` (reads at one
    instant reach `None`): polling at an instant until `None` sends everything that can be sent at that instant. -/
theorem idle_only_when_nothing_ready (cfg : Cfg) (tbl : List Nat) (ops : List Op) (pre post : List QSess) (q : QSess)
    (now : Nat) (ticks : List (Nat × Nat))
    (hsorted : (cfg.queues.map (fun x => x.1)).Pairwise (fun a b => a < b))
    (hsess : (run (init cfg tbl) ops).sessions = pre ++ q :: post)
    (hnone : (read (run (init cfg tbl) ops) now ticks).2 = Out.none) :
    ¬ Ready (run (init cfg tbl) ops) q now :=
  fun hr => (strict_priority cfg tbl ops pre post q now ticks hsorted hsess hr).1 hnone

/-- Round robin inside one priority queue, for one call of `read_priority_queue` (`readQueue`, the function `read`
    runs on every queue, with `steps = number of slots`): let slot `j` hold a transfer `c` in progress whose next
    packet is due at `now` (pacing gate open, encoder neither drained nor stopped; the other slots hold other
    objects).  If the call returns an object packet then EITHER it is `c`'s packet, OR it is the packet of a slot
    polled before `j` and afterwards (1) the round-robin index is strictly closer to `j` (cyclic distance `rrDist`),
    (2) slot `j` still holds `c` with the same encoder state and (3) `c`'s object is untouched (same `TransferInfo`,
    so it is still due at `now`).  Iterating: a due slot is served after at most `n - 1` packets of its peers, and a
    slot never emits twice while a due peer waits - the slots alternate.
    (Queue-level mechanism; `round_robin_partial` is the same statement on `Sender::read`.) -/
theorem round_robin_queue (s : State) (q : QSess) (j : Nat) (c : Cur) (f : FileDesc) (now : Nat)
    (ticks : List (Nat × Nat)) (hidx : q.index < q.slots.length)
    (hjs : q.slots[j]? = some (some c)) (hf : getF s.objs c.key = some f) (htr : f.info.transferring = true)
    (hoth : ∀ i c0, i ≠ j → q.slots[i]? = some (some c0) → c0.key ≠ c.key)
    (hg : gateBlocked f now = false) (hs : c.enc.stopped = false) (hlt : c.enc.sent < f.nPk)
    (p t i : Nat) (b : Bool) (hout : (readQueue q.slots.length s q now ticks).2.2 = Out.pkt p t i b) :
    t = c.key ∨
    (t ≠ c.key ∧
     rrDist (readQueue q.slots.length s q now ticks).2.1.index j q.slots.length < rrDist q.index j q.slots.length ∧
     (readQueue q.slots.length s q now ticks).2.1.slots[j]? = some (some c) ∧
     ∃ f', getF (readQueue q.slots.length s q now ticks).1.objs c.key = some f' ∧ f'.info = f.info ∧ f'.nSym = f.nSym) := by
  have hj : j < q.slots.length := by
    rcases Nat.lt_or_ge j q.slots.length with h | h
    · exact h
    · rw [List.getElem?_eq_none h] at hjs; cases hjs
  have hkept : Kept c.key f (c.key ∈ s.files) s := ⟨⟨f, hf, rfl, rfl, rfl⟩, Iff.rfl⟩
  rcases readQueue_rr htr c j q.slots.length rfl now hg hs hlt hj q.slots.length s q ticks hkept rfl hidx hjs hoth
      (rrDist_lt _ _ _ hidx hj) p t i b hout with h | ⟨h1, h2, h3, h4⟩
  · exact Or.inl h
  · obtain ⟨f', e1, e2, e3, _⟩ := h4.obj
    exact Or.inr ⟨h1, h2, h3, f', e1, e2, e3⟩

/-- Round robin on `Sender::read`, after every operation history: let slot `j` of priority queue `q` hold a transfer
    `c` whose next packet is due at `now`.  If `read(now)` returns an object packet, then it is (1) a packet of a
    queue polled before `q` (higher priority), or (2) `c`'s packet, or (3) the packet of a peer slot of `q` polled
    before `j` - and then, in the state AFTER the call, `q` (same position in the session list) has its round-robin
    index strictly closer to `j` (cyclic distance `rrDist`), slot `j` still holds `c` with the same encoder state, and
    `c`'s object is untouched (same `TransferInfo`: still due at `now` and at any later instant).  As the distance is
    `< n` and strictly decreases with every packet of `q` that is not `c`'s, the due slot is served after at most
    `n - 1` packets of its peers, and no slot emits twice while a due peer waits: the slots alternate.
    PARTIAL: one `read` step; the iteration over consecutive `read`s (an induction on `rrDist`, valid as long as no
    other operation - remove, trigger - touches the object in between) is not stated as a multi-call theorem; the
    trace-level clause is checked by the engine's oracle `C13:round-robin`. -/
theorem round_robin_partial (cfg : Cfg) (tbl : List Nat) (ops : List Op) (pre post : List QSess) (q : QSess)
    (j : Nat) (c : Cur) (f : FileDesc) (now : Nat) (ticks : List (Nat × Nat))
    (hsess : (run (init cfg tbl) ops).sessions = pre ++ q :: post)
    (hjs : q.slots[j]? = some (some c)) (hf : getF (run (init cfg tbl) ops).objs c.key = some f)
    (hg : gateBlocked f now = false) (hs : c.enc.stopped = false) (hlt : c.enc.sent < f.nPk)
    (p t i : Nat) (b : Bool) (hout : (read (run (init cfg tbl) ops) now ticks).2 = Out.pkt p t i b) :
    p ∈ pre.map (fun x => x.prio) ∨
    (p = q.prio ∧
      (t = c.key ∨
       (t ≠ c.key ∧ ∃ pre' q', (read (run (init cfg tbl) ops) now ticks).1.sessions = pre' ++ q' :: post ∧
          pre'.length = pre.length ∧ q'.prio = q.prio ∧ q'.slots.length = q.slots.length ∧
          rrDist q'.index j q.slots.length < rrDist q.index j q.slots.length ∧
          q'.slots[j]? = some (some c) ∧
          ∃ f', getF (read (run (init cfg tbl) ops) now ticks).1.objs c.key = some f' ∧ f'.info = f.info ∧
            f'.nSym = f.nSym))) :=
  read_rr cfg tbl ops pre post q j c f now ticks hsess hjs hf hg hs hlt p t i b hout

/-- Round robin over CONSECUTIVE CALLS: after every operation history, let slot `j` of priority queue `q` hold a
    transfer `c` whose packet is due at `now`.  If the next `k` calls of `read(now)` (any tick inputs) all return
    object packets of `q`'s priority that are NOT `c`'s, then `k ≤ rrDist q.index j n ≤ n - 1`
    (`AllOut P s now tks`: the outputs of the consecutive reads `tks` from `s` all satisfy `P`).  So between two
    consecutive packets of one slot, a due peer slot of the queue is never passed over twice: in a run of packets of
    the queue the due slot is served after at most `n - 1` peer packets - each peer at most once, since a peer that
    has emitted becomes the farthest slot.
    Scope: runs of calls that return packets of this queue.  A call that returns an FDT packet or a packet of a
    higher-priority queue in between is not covered by this statement (it does not poll `q`, or polls it with an
    FDT pending and leaves the index where it was - checked by the oracle `C13:round-robin` only). -/
theorem round_robin_over_calls (cfg : Cfg) (tbl : List Nat) (ops : List Op) (pre post : List QSess) (q : QSess)
    (j : Nat) (c : Cur) (f : FileDesc) (now : Nat) (tks : List (List (Nat × Nat)))
    (hsorted : (cfg.queues.map (fun x => x.1)).Pairwise (fun a b => a < b))
    (hsess : (run (init cfg tbl) ops).sessions = pre ++ q :: post)
    (hjs : q.slots[j]? = some (some c)) (hf : getF (run (init cfg tbl) ops).objs c.key = some f)
    (hg : gateBlocked f now = false) (hs : c.enc.stopped = false) (hlt : c.enc.sent < f.nPk)
    (hall : AllOut (fun o => ∃ t i b, o = Out.pkt q.prio t i b ∧ t ≠ c.key) (run (init cfg tbl) ops) now tks) :
    tks.length ≤ rrDist q.index j q.slots.length ∧ rrDist q.index j q.slots.length < q.slots.length := by
  have hj : j < q.slots.length := by
    rcases Nat.lt_or_ge j q.slots.length with h | h
    · exact h
    · rw [List.getElem?_eq_none h] at hjs; cases hjs
  have hidx : q.index < q.slots.length := run_idx cfg tbl ops q (by rw [hsess]; simp)
  exact ⟨rr_multi cfg tbl hsorted now post j c q.prio q.slots.length tks ops pre q f hsess rfl rfl hjs hf hg hs hlt hall,
    rrDist_lt _ _ _ hidx hj⟩

/-! non-vacuity: two objects multiplexed in one queue with 2 slots, a third one waiting -/
def cfg2 : Cfg := { mode := .full, fdtCarousel := .delay 1000, fdtDuration := 3600000000000, fdtStartId := 1, queues := [(0, 2)] }
def obj (n : Nat) : AddArgs := { prio := 0, nSym := n, maxCount := 1, carousel := none, start := none, target := none, allowStop := false }
def hist : List Op := [.add (obj 3), .add (obj 3), .add (obj 3), .publish 5, .read 5 [], .read 5 [], .read 5 []]

example : ((run (init cfg2 [1]) hist).objs.filter (fun f => f.prio == 0 && f.info.transferring)).length = 2 := by decide
example : (run (init cfg2 [1]) hist).queue = [3] := by decide

/-- non-vacuity of `strict_priority_in_progress`: queue 0 holds a transfer with packets left, its gate is open -/
example : ∃ q c f, (run (init cfg2 [1]) hist).sessions = [] ++ q :: [] ∧ q.slots[0]? = some (some c) ∧
    getF (run (init cfg2 [1]) hist).objs c.key = some f ∧ gateBlocked f 5 = false ∧ c.enc.stopped = false ∧
    c.enc.sent < f.nPk := by
  refine ⟨_, _, _, rfl, rfl, rfl, ?_, ?_, ?_⟩ <;> decide

/-- non-vacuity of `strict_priority_waiting`: three objects added and published, nothing started yet: the queue has
    free slots and `findNext` names the first object -/
example : ∃ q, (run (init cfg2 [1]) [.add (obj 3), .add (obj 3), .add (obj 3), .publish 5]).sessions = [] ++ q :: [] ∧
    q.slots[0]? = some none ∧
    findNext (run (init cfg2 [1]) [.add (obj 3), .add (obj 3), .add (obj 3), .publish 5]) q.prio 5
      (run (init cfg2 [1]) [.add (obj 3), .add (obj 3), .add (obj 3), .publish 5]).queue = some 1 := by
  refine ⟨_, rfl, ?_, ?_⟩ <;> decide

/-- non-vacuity of `round_robin_queue` / `round_robin_partial`, second alternative: slot 1 (TOI 2) is due, the index points at slot 0
    (TOI 1, also due): the call returns TOI 1's packet and moves the index onto slot 1 -/
example : ∃ q, (run (init cfg2 [1]) hist).sessions = [q] ∧ q.index = 0 ∧
    (q.slots.map (fun c => c.map (fun c => c.key))) = [some 1, some 2] ∧
    (∃ b, (readQueue q.slots.length (run (init cfg2 [1]) hist) q 5 []).2.2 = Out.pkt 0 1 1 b) ∧
    (readQueue q.slots.length (run (init cfg2 [1]) hist) q 5 []).2.1.index = 1 := by
  refine ⟨_, rfl, ?_, ?_, ⟨false, ?_⟩, ?_⟩ <;> decide

/-- non-vacuity of `fifo_over_histories`: object 1 (start time 100) is passed over at instant 5 by object 2 -/
def objLate : AddArgs := { prio := 0, nSym := 3, maxCount := 1, carousel := none, start := some 100, target := none, allowStop := false }
example : (getNextFile (run (init cfg2 [1]) [.add objLate, .add (obj 3), .publish 5]) 0 5 []).2 = some 2 ∧
    1 ∈ (run (init cfg2 [1]) [.add objLate, .add (obj 3), .publish 5]).queue ∧
    fresh (run (init cfg2 [1]) [.add objLate, .add (obj 3), .publish 5]) 1 = true ∧
    fresh (run (init cfg2 [1]) [.add objLate, .add (obj 3), .publish 5]) 2 = true := by decide

/-- non-vacuity of `round_robin_over_calls`: from the state of `hist`, slot 1 (TOI 2) is due and ONE call returns the
    peer's (TOI 1) packet (`rrDist 0 1 2 = 1`); the second call returns TOI 2's -/
example : AllOut (fun o => ∃ t i b, o = Out.pkt 0 t i b ∧ t ≠ 2) (run (init cfg2 [1]) hist) 5 [[]] ∧
    (∃ i b, (read (read (run (init cfg2 [1]) hist) 5 []).1 5 []).2 = Out.pkt 0 2 i b) := by
  refine ⟨⟨⟨1, 1, false, by decide, by decide⟩, trivial⟩, ⟨1, false, by decide⟩⟩

end Flute.Props.C13
