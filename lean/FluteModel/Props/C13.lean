import FluteModel.Lemmas.SchedPrio
/-
  C13 - Scheduling: FIFO admission, multiplex bound (strict priority and round robin: see below).
  Interleave window (`open blocks ≤ interleave_blocks`, opened in increasing SBN) is a property of one
  `BlockEncoder` and is proved with C08 (`BlockEnc.window_bound`); this engine only checks it on the wire.
-/
namespace Flute.Props.C13
open Flute.Sched

/-- FIFO admission: `get_next_file_transfer` starts the FIRST object of the waiting queue that is eligible for
    this priority queue at `now` - everything ahead of it in the waiting queue is not eligible
    (other queue, unpublished, before its start time, carousel gap not elapsed).  Holds in every state. -/
theorem fifo_admission (s : State) (prio now : Nat) (ticks : List (Nat × Nat)) (s' : State) (t : Nat)
    (h : getNextFile s prio now ticks = (s', some t)) :
    ∃ pre post, s.queue = pre ++ t :: post ∧
      (∀ u ∈ pre, ∀ f, getF s.objs u = some f → shouldTransferNow f prio s.cfg.mode now = false) ∧
      ∃ f, getF s.objs t = some f ∧ shouldTransferNow f prio s.cfg.mode now = true := by
  unfold getNextFile at h
  split at h
  · simp at h
  · rename_i t' hf
    simp only [Prod.mk.injEq, Option.some.injEq] at h
    obtain ⟨_, rfl⟩ := h
    exact findNext_spec s prio now s.queue t' hf

/-- the waiting queue is in insertion order: `add_object` appends at the tail -/
theorem fifo_add_at_tail (s : State) (a : AddArgs) (s' : State) (toi : Nat)
    (h : addObject s a = (s', some toi)) : s'.queue = s.queue ++ [toi] := by
  unfold addObject at h
  simp only [] at h
  split at h
  · simp at h
  · split at h
    · simp at h
    · simp only [Prod.mk.injEq, Option.some.injEq] at h
      obtain ⟨rfl, rfl⟩ := h
      rfl

/-- ... a finished transfer that is to be repeated is requeued at the tail -/
theorem fifo_requeue_at_tail (s : State) (t now : Nat) :
    (transferDoneFile s t now).queue = s.queue ∨ (transferDoneFile s t now).queue = s.queue ++ [t] := by
  rw [transferDoneFile_eq]
  split
  · left; rfl
  · split
    · split
      · right; rfl
      · left; rfl
    · left; rfl

/-- ... and removal / admission never reorder it -/
theorem fifo_remove_keeps_order (s : State) (t : Nat) : (removeObject s t).1.queue.Sublist s.queue := by
  unfold removeObject
  split
  · exact List.Sublist.refl _
  · exact List.filter_sublist

theorem fifo_start_keeps_order (s : State) (t now tk : Nat) :
    (autoPublish (fileStartStep s t now tk) now).queue.Sublist s.queue := by
  have : (autoPublish (fileStartStep s t now tk) now).queue = s.queue.erase t := by
    unfold autoPublish; split
    · exact publishTry_elim (P := fun x => x.queue = s.queue.erase t) _ now rfl rfl
    · rfl
  rw [this]; exact List.erase_sublist

/-- Multiplex bound: after every operation history the number of objects in transfer in priority queue `p`
    is at most the number of slots configured for `p` (`max(1, multiplex_files)`; summed if the configuration
    list mentions `p` several times - a `BTreeMap` mentions it once). -/
theorem multiplex_bound (cfg : Cfg) (tbl : List Nat) (ops : List Op) (p : Nat) :
    ((run (init cfg tbl) ops).objs.filter (fun f => f.prio == p && f.info.transferring)).length ≤
      ((cfg.queues.filter (fun q => q.1 == p)).map (fun q => slotsOf q.2)).sum := by
  exact multiplex_bound_aux cfg tbl ops p

/-- the objects in transfer are exactly the contents of the busy slots, pairwise distinct -/
theorem slots_hold_distinct_transferring (cfg : Cfg) (tbl : List Nat) (ops : List Op) :
    let s := run (init cfg tbl) ops
    ((heldOf s).map (fun pc => pc.2.key)).Nodup ∧
    (∀ pc ∈ heldOf s, ∃ f, getF s.objs pc.2.key = some f ∧ f.info.transferring = true ∧ f.prio = pc.1) ∧
    (∀ f ∈ s.objs, f.info.transferring = true → ∃ pc ∈ heldOf s, pc.2.key = f.key) :=
  let h := wf_run cfg tbl ops
  ⟨h.heldNodup, h.heldObj, h.transHeld⟩

/-- Strict priority for transfers in progress, after every operation history: if a slot of priority queue `q`
    holds a transfer whose next packet is due at `now` (pacing gate open, encoder neither drained nor stopped),
    then `read(now)` returns an FDT packet or a packet of `q` or of a queue visited before `q` - never `None` and
    never a packet of a queue after `q`.  With the configuration sorted by priority (`BTreeMap`): of priority
    `≤ q.prio`.
    PARTIAL with respect to the property clause: "ready" objects that are still WAITING (eligible by
    `should_transfer_now`, a slot of their queue free) are not covered by this theorem (only by the engine's
    oracle `C13:strict-priority`); the literal clause is moreover false for objects waiting behind the multiplex
    bound (finding F23). -/
theorem strict_priority_partial (cfg : Cfg) (tbl : List Nat) (ops : List Op) (pre post : List QSess) (q : QSess)
    (j : Nat) (c : Cur) (f : FileDesc) (now : Nat) (ticks : List (Nat × Nat))
    (hsorted : (cfg.queues.map (fun x => x.1)).Pairwise (fun a b => a < b))
    (hsess : (run (init cfg tbl) ops).sessions = pre ++ q :: post)
    (hjs : q.slots[j]? = some (some c)) (hf : getF (run (init cfg tbl) ops).objs c.key = some f)
    (hg : gateBlocked f now = false) (hs : c.enc.stopped = false) (hlt : c.enc.sent < f.nPk) :
    (read (run (init cfg tbl) ops) now ticks).2 ≠ Out.none ∧
    ∀ p t i b, (read (run (init cfg tbl) ops) now ticks).2 = Out.pkt p t i b → p ≤ q.prio := by
  obtain ⟨h1, h2⟩ := read_due cfg tbl ops pre post q j c f now ticks hsess hjs hf hg hs hlt
  exact ⟨h1, fun p t i b e => prio_le_of_sorted cfg tbl ops pre post q hsorted hsess p (h2 p t i b e)⟩

/-- Round robin, the mechanism: `read_priority_queue` polls the slots cyclically starting at `index`, the slot that
    returned a packet is followed by `index := its successor`, and a slot with a due packet that lies between is
    never skipped (`Lemmas/SchedPrio.readQueue_due`: with `rrDist index j n < steps` the due slot `j` is reached
    unless an earlier slot of the same queue returned a packet).  Stated here for the index only.
    PARTIAL: the trace-level clause ("between two consecutive packets of one slot every other slot with a due
    packet emitted one") is checked by the engine's oracle `C13:round-robin`, not proved. -/
theorem round_robin_partial (k : Nat) (s : State) (q : QSess) (now : Nat) (ticks : List (Nat × Nat))
    (h : q.index < q.slots.length) :
    (readQueue k s q now ticks).2.1.index < (readQueue k s q now ticks).2.1.slots.length ∧
    ((readQueue k s q now ticks).2.1.prio, (readQueue k s q now ticks).2.1.slots.length) = (q.prio, q.slots.length) :=
  ⟨readQueue_idx k s q now ticks h, readQueue_shape k s q now ticks⟩

/-! non-vacuity: two objects multiplexed in one queue with 2 slots, a third one waiting -/
def cfg2 : Cfg := { mode := .full, fdtCarousel := .delay 1000, fdtDuration := 3600000000000, fdtStartId := 1, queues := [(0, 2)] }
def obj (n : Nat) : AddArgs := { prio := 0, nSym := n, maxCount := 1, carousel := none, start := none, target := none, allowStop := false }
def hist : List Op := [.add (obj 3), .add (obj 3), .add (obj 3), .publish 5, .read 5 [], .read 5 [], .read 5 []]

example : ((run (init cfg2 [1]) hist).objs.filter (fun f => f.prio == 0 && f.info.transferring)).length = 2 := by decide
example : (run (init cfg2 [1]) hist).queue = [3] := by decide

/-- non-vacuity of `strict_priority_partial`: queue 0 holds a transfer with packets left, its gate is open -/
example : ∃ q c f, (run (init cfg2 [1]) hist).sessions = [] ++ q :: [] ∧ q.slots[0]? = some (some c) ∧
    getF (run (init cfg2 [1]) hist).objs c.key = some f ∧ gateBlocked f 5 = false ∧ c.enc.stopped = false ∧
    c.enc.sent < f.nPk := by
  refine ⟨_, _, _, rfl, rfl, rfl, ?_, ?_, ?_⟩ <;> decide

end Flute.Props.C13
