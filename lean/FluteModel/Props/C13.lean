import FluteModel.Lemmas.SchedShape
/-
  C13 - Scheduling: FIFO admission, multiplex bound (strict priority and round robin: see below).
  Interleave window (`open blocks ≤ interleave_blocks`, opened in increasing SBN) is a property of one
  `BlockEncoder` and is proved with C08 (`BlockEnc.window_bound`); this engine only checks it on the wire.
-/
namespace Flute.Props.C13
open Flute.Sched

/-- FIFO admission: `get_next_file_transfer` starts the FIRST object of the waiting queue that is eligible for
    this priority queue at `now` - everything ahead of it in the waiting queue is not eligible
    (other queue, unpublished, before its start time, carousel gap not elapsed).  Holds in every state. -/
theorem fifo_admission (s : State) (prio now : Nat) (ticks : List (Nat × Nat)) (s' : State) (t : Nat)
    (h : getNextFile s prio now ticks = (s', some t)) :
    ∃ pre post, s.queue = pre ++ t :: post ∧
      (∀ u ∈ pre, ∀ f, getF s.objs u = some f → shouldTransferNow f prio s.cfg.mode now = false) ∧
      ∃ f, getF s.objs t = some f ∧ shouldTransferNow f prio s.cfg.mode now = true := by
  unfold getNextFile at h
  split at h
  · simp at h
  · rename_i t' hf
    simp only [Prod.mk.injEq, Option.some.injEq] at h
    obtain ⟨_, rfl⟩ := h
    exact findNext_spec s prio now s.queue t' hf

/-- the waiting queue is in insertion order: `add_object` appends at the tail -/
theorem fifo_add_at_tail (s : State) (a : AddArgs) (s' : State) (toi : Nat)
    (h : addObject s a = (s', some toi)) : s'.queue = s.queue ++ [toi] := by
  unfold addObject at h
  simp only [] at h
  split at h
  · simp at h
  · split at h
    · simp at h
    · simp only [Prod.mk.injEq, Option.some.injEq] at h
      obtain ⟨rfl, rfl⟩ := h
      rfl

/-- ... a finished transfer that is to be repeated is requeued at the tail -/
theorem fifo_requeue_at_tail (s : State) (t now : Nat) :
    (transferDoneFile s t now).queue = s.queue ∨ (transferDoneFile s t now).queue = s.queue ++ [t] := by
  rw [transferDoneFile_eq]
  split
  · left; rfl
  · split
    · split
      · right; rfl
      · left; rfl
    · left; rfl

/-- ... and removal / admission never reorder it -/
theorem fifo_remove_keeps_order (s : State) (t : Nat) : (removeObject s t).1.queue.Sublist s.queue := by
  unfold removeObject
  split
  · exact List.Sublist.refl _
  · exact List.filter_sublist

theorem fifo_start_keeps_order (s : State) (t now tk : Nat) :
    (autoPublish (fileStartStep s t now tk) now).queue.Sublist s.queue := by
  have : (autoPublish (fileStartStep s t now tk) now).queue = s.queue.erase t := by
    unfold autoPublish; split <;> rfl
  rw [this]; exact List.erase_sublist

/-- Multiplex bound: after every operation history the number of objects in transfer in priority queue `p`
    is at most the number of slots configured for `p` (`max(1, multiplex_files)`; summed if the configuration
    list mentions `p` several times - a `BTreeMap` mentions it once). -/
theorem multiplex_bound (cfg : Cfg) (tbl : List Nat) (ops : List Op) (p : Nat) :
    ((run (init cfg tbl) ops).objs.filter (fun f => f.prio == p && f.info.transferring)).length ≤
      ((cfg.queues.filter (fun q => q.1 == p)).map (fun q => slotsOf q.2)).sum := by
  exact multiplex_bound_aux cfg tbl ops p

/-- the objects in transfer are exactly the contents of the busy slots, pairwise distinct -/
theorem slots_hold_distinct_transferring (cfg : Cfg) (tbl : List Nat) (ops : List Op) :
    let s := run (init cfg tbl) ops
    ((heldOf s).map (fun pc => pc.2.key)).Nodup ∧
    (∀ pc ∈ heldOf s, ∃ f, getF s.objs pc.2.key = some f ∧ f.info.transferring = true ∧ f.prio = pc.1) ∧
    (∀ f ∈ s.objs, f.info.transferring = true → ∃ pc ∈ heldOf s, pc.2.key = f.key) :=
  let h := wf_run cfg tbl ops
  ⟨h.heldNodup, h.heldObj, h.transHeld⟩

/-! non-vacuity: two objects multiplexed in one queue with 2 slots, a third one waiting -/
def cfg2 : Cfg := { mode := .full, fdtCarousel := .delay 1000, fdtDuration := 3600000000000, fdtStartId := 1, queues := [(0, 2)] }
def obj (n : Nat) : AddArgs := { prio := 0, nSym := n, maxCount := 1, carousel := none, start := none, target := none, allowStop := false }
def hist : List Op := [.add (obj 3), .add (obj 3), .add (obj 3), .publish 5, .read 5 [], .read 5 [], .read 5 []]

example : ((run (init cfg2 [1]) hist).objs.filter (fun f => f.prio == 0 && f.info.transferring)).length = 2 := by decide
example : (run (init cfg2 [1]) hist).queue = [3] := by decide

end Flute.Props.C13
