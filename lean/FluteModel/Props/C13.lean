import FluteModel.Lemmas.SchedRRAll
import FluteModel.Lemmas.SchedBencLog
import FluteModel.Lemmas.SchedBencLen
/-
  C13 - Scheduling: FIFO admission, multiplex bound (strict priority and round robin: see below).
  Interleave window (`open blocks ≤ interleave_blocks`, opened in increasing SBN) is a property of one
  `BlockEncoder`: this model abstracts a transfer to a packet count.  The ABSTRACTION is stated and proved in
  `Lemmas/SchedBenc.lean` (function `absEnc` from benc's `BlockEnc.Enc`, contract `enc_contract`, both directions
  over a whole transfer) and the clause is concluded at the end of this file (`interleave_window`,
  `interleave_window_file_slot`, `transfer_abstraction_contract`) by citing `Props.C08.window_bound`; the engine
  checks it on the wire (`windowprobe-*`).
-/
namespace Flute.Props.C13
open Flute.Sched

/-- FIFO admission: `get_next_file_transfer` starts the FIRST object of the waiting queue that is eligible for
    this priority queue at `now` - everything ahead of it in the waiting queue is not eligible
    (other queue, unpublished, before its start time, carousel gap not elapsed).  Holds in every state. -/
theorem fifo_admission (s : State) (prio now : Nat) (ticks : List (Nat × Nat)) (s' : State) (t : Nat)
    (h : getNextFile s prio now ticks = (s', some t)) :
    ∃ pre post, s.queue = pre ++ t :: post ∧
      (∀ u ∈ pre, ∀ f, getF s.objs u = some f → shouldTransferNow f prio s.cfg.mode now = false) ∧
      ∃ f, getF s.objs t = some f ∧ shouldTransferNow f prio s.cfg.mode now = true := by
  unfold getNextFile at h
  split at h
  · simp at h
  · rename_i t' hf
    simp only [Prod.mk.injEq, Option.some.injEq] at h
    obtain ⟨_, rfl⟩ := h
    exact findNext_spec s prio now s.queue t' hf

/-- FIFO over whole histories (first transfers): after every operation history, when `get_next_file_transfer`
    starts object `b` for its first transfer while an object `a` that was ADDED EARLIER (`a < b`: the n-th
    `add_object` of a history carries TOI n) is still waiting and has not completed a transfer either, then `a` was
    not eligible at that moment (other queue, unpublished, before its start time, ...).  So within a queue first
    transfers start in the order of addition; repeated transfers are requeued at the tail (`fifo_requeue_at_tail`),
    behind later additions.  (`fresh s t`: `t`'s total transfer counter is 0.) -/
theorem fifo_over_histories (cfg : Cfg) (tbl : List Nat) (ops : List Op) (prio now : Nat) (ticks : List (Nat × Nat))
    (s' : State) (a b : Nat)
    (h : getNextFile (run (init cfg tbl) ops) prio now ticks = (s', some b))
    (ha : a ∈ (run (init cfg tbl) ops).queue) (hab : a < b)
    (hfa : fresh (run (init cfg tbl) ops) a = true) (hfb : fresh (run (init cfg tbl) ops) b = true) :
    ∀ f, getF (run (init cfg tbl) ops).objs a = some f →
      shouldTransferNow f prio (run (init cfg tbl) ops).cfg.mode now = false := by
  have hs := sortedq_run cfg tbl ops
  generalize run (init cfg tbl) ops = s at *
  obtain ⟨pre, post, e, hpre, _⟩ := fifo_admission s prio now ticks s' b h
  rw [e] at ha hs
  rcases List.mem_append.mp ha with hm | hm
  · exact hpre a hm
  · rcases List.mem_cons.mp hm with hm | hm
    · omega
    · exfalso
      rw [List.pairwise_append] at hs
      have := (List.pairwise_cons.mp hs.2.1).1 a hm hfb hfa
      omega

/-- FIFO including requeue, over whole histories: the relative order of waiting objects is never permuted.
    `Ahead a b queue`: `a` is waiting and `b` is not ahead of it (`b` is behind `a`, or not waiting at all).  If this
    holds after a history `ops`, then after ANY continuation `ops'` during which no transfer of `a` starts and `a`
    is not removed (no `StartTransfer a` / successful `remove a` among the trace entries appended by `ops'`:
    `badEv`), `a` is still waiting and still ahead of `b` - objects only leave the waiting queue or are appended at
    its tail (`add_object`, requeue after a transfer: `fifo_add_at_tail`, `fifo_requeue_at_tail`).  With
    `fifo_admission` (the first eligible object of the queue is started): within a priority queue transfers start in
    the order in which the objects were (last) enqueued - additions and repeated transfers alike; an object is
    passed over only while it is not eligible. -/
theorem fifo_order_stable (cfg : Cfg) (tbl : List Nat) (ops ops' : List Op) (a b : Nat)
    (h0 : Ahead a b (run (init cfg tbl) ops).queue)
    (hclean : ((trace cfg tbl (ops ++ ops')).take
      ((trace cfg tbl (ops ++ ops')).length - (trace cfg tbl ops).length)).any (badEv a) = false) :
    Ahead a b (run (init cfg tbl) (ops ++ ops')).queue :=
  order_stable cfg tbl ops ops' a b h0 hclean

/-- the waiting queue is in insertion order: `add_object` appends at the tail -/
theorem fifo_add_at_tail (s : State) (a : AddArgs) (s' : State) (toi : Nat)
    (h : addObject s a = (s', some toi)) : s'.queue = s.queue ++ [toi] := by
  unfold addObject at h
  simp only [] at h
  split at h
  · simp at h
  · split at h
    · simp at h
    · simp only [Prod.mk.injEq, Option.some.injEq] at h
      obtain ⟨rfl, rfl⟩ := h
      rfl

/-- ... a finished transfer that is to be repeated is requeued at the tail -/
theorem fifo_requeue_at_tail (s : State) (t now : Nat) :
    (transferDoneFile s t now).queue = s.queue ∨ (transferDoneFile s t now).queue = s.queue ++ [t] := by
  rw [transferDoneFile_eq]
  split
  · left; rfl
  · split
    · split
      · right; rfl
      · left; rfl
    · left; rfl

/-- ... and removal / admission never reorder it -/
theorem fifo_remove_keeps_order (s : State) (t : Nat) : (removeObject s t).1.queue.Sublist s.queue := by
  unfold removeObject
  split
  · exact List.Sublist.refl _
  · exact List.filter_sublist

theorem fifo_start_keeps_order (s : State) (t now tk : Nat) :
    (autoPublish (fileStartStep s t now tk) now).queue.Sublist s.queue := by
  have : (autoPublish (fileStartStep s t now tk) now).queue = s.queue.erase t := by
    unfold autoPublish; split
    · exact publishTry_elim (P := fun x => x.queue = s.queue.erase t) _ now rfl rfl
    · rfl
  rw [this]; exact List.erase_sublist

/-- Multiplex bound: after every operation history the number of objects in transfer in priority queue `p`
    is at most the number of slots configured for `p` (`max(1, multiplex_files)`; summed if the configuration
    list mentions `p` several times - a `BTreeMap` mentions it once). -/
theorem multiplex_bound (cfg : Cfg) (tbl : List Nat) (ops : List Op) (p : Nat) :
    ((run (init cfg tbl) ops).objs.filter (fun f => f.prio == p && f.info.transferring)).length ≤
      ((cfg.queues.filter (fun q => q.1 == p)).map (fun q => slotsOf q.2)).sum := by
  exact multiplex_bound_aux cfg tbl ops p

/-- the objects in transfer are exactly the contents of the busy slots, pairwise distinct -/
theorem slots_hold_distinct_transferring (cfg : Cfg) (tbl : List Nat) (ops : List Op) :
    let s := run (init cfg tbl) ops
    ((heldOf s).map (fun pc => pc.2.key)).Nodup ∧
    (∀ pc ∈ heldOf s, ∃ f, getF s.objs pc.2.key = some f ∧ f.info.transferring = true ∧ f.prio = pc.1) ∧
    (∀ f ∈ s.objs, f.info.transferring = true → ∃ pc ∈ heldOf s, pc.2.key = f.key) :=
  let h := wf_run cfg tbl ops
  ⟨h.heldNodup, h.heldObj, h.transHeld⟩

/-- Strict priority for transfers in progress, after every operation history: if a slot of priority queue `q`
    holds a transfer whose next packet is due at `now` (pacing gate open, encoder neither drained nor stopped),
    then `read(now)` returns an FDT packet or a packet of `q` or of a queue visited before `q` - never `None` and
    never a packet of a queue after `q`.  With the configuration sorted by priority (`BTreeMap`): of priority
    `≤ q.prio`.  (One half of `strict_priority`; the other half is `strict_priority_waiting`.) -/
theorem strict_priority_in_progress (cfg : Cfg) (tbl : List Nat) (ops : List Op) (pre post : List QSess) (q : QSess)
    (j : Nat) (c : Cur) (f : FileDesc) (now : Nat) (ticks : List (Nat × Nat))
    (hsorted : (cfg.queues.map (fun x => x.1)).Pairwise (fun a b => a < b))
    (hsess : (run (init cfg tbl) ops).sessions = pre ++ q :: post)
    (hjs : q.slots[j]? = some (some c)) (hf : getF (run (init cfg tbl) ops).objs c.key = some f)
    (hg : gateBlocked f now = false) (hs : c.enc.stopped = false) (hlt : c.enc.sent < f.nPk) :
    (read (run (init cfg tbl) ops) now ticks).2 ≠ Out.none ∧
    ∀ p t i b, (read (run (init cfg tbl) ops) now ticks).2 = Out.pkt p t i b → p ≤ q.prio := by
  obtain ⟨h1, h2⟩ := read_due cfg tbl ops pre post q j c f now ticks hsess hjs hf hg hs hlt
  exact ⟨h1, fun p t i b e => prio_le_of_sorted cfg tbl ops pre post q hsorted hsess p (h2 p t i b e)⟩

/-- Strict priority for WAITING objects, after every operation history: if priority queue `q` has an AVAILABLE slot
    (`Avail`: empty, or holding a finished transfer - stopped or all packets sent, pacing gate open - which the poll
    releases before it calls `get_next`) and `get_next_file_transfer(q.prio)` would start an object now (`findNext`: the first object of the waiting queue
    that `should_transfer_now` accepts - right priority, published (FullFDT), start time reached, not in transfer,
    count / carousel gap satisfied), then `read(now)` returns an FDT packet (e.g. the automatic publication of
    ObjectsBeingTransferred mode) or an object packet of priority `≤ q.prio` - never `None`, never a packet of a
    lower-priority queue.  The FDT session and the queues polled before `q` cannot take the object away: they only
    touch objects of their own priority, and a publication only makes more objects eligible. -/
theorem strict_priority_waiting (cfg : Cfg) (tbl : List Nat) (ops : List Op) (pre post : List QSess) (q : QSess)
    (j t : Nat) (now : Nat) (ticks : List (Nat × Nat))
    (hsorted : (cfg.queues.map (fun x => x.1)).Pairwise (fun a b => a < b))
    (hsess : (run (init cfg tbl) ops).sessions = pre ++ q :: post)
    (curj : Option Cur) (hfree : q.slots[j]? = some curj) (hav : Avail (run (init cfg tbl) ops) now curj)
    (hfind : findNext (run (init cfg tbl) ops) q.prio now (run (init cfg tbl) ops).queue = some t)
    (hnf : QueueFaultFree (run (init cfg tbl) ops) q.prio) :
    (read (run (init cfg tbl) ops) now ticks).2 ≠ Out.none ∧
    ∀ p t i b, (read (run (init cfg tbl) ops) now ticks).2 = Out.pkt p t i b → p ≤ q.prio := by
  obtain ⟨h1, h2⟩ := read_wait cfg tbl ops pre post q j t now ticks hsorted hsess curj hfree hav hfind
    (fun u _ g hg _ hw => stale_run cfg tbl ops g (getF_mem hg) hw)
    hnf
  exact ⟨h1, fun p t i b e => prio_le_of_sorted cfg tbl ops pre post q hsorted hsess p (h2 p t i b e)⟩

/-- the fault hypothesis of `strict_priority_waiting` / `strict_priority` / `idle_only_when_nothing_ready` is LOCAL: only
    the objects waiting for a slot of queue `q` must have buffer sources (`QueueFaultFree`); a faulty stream object in
    another queue, or one already in transfer, does not remove the theorems.  A history that only adds buffer-sourced
    objects (`NoFaultOps`) satisfies it for every queue. -/
theorem queueFaultFree_of_noFaultOps (cfg : Cfg) (tbl : List Nat) (ops : List Op) (hnf : NoFaultOps ops) (P : Nat) :
    QueueFaultFree (run (init cfg tbl) ops) P :=
  fun u _ g hg _ => faultfree_run cfg tbl ops hnf u g hg

/-- `q` has something READY at `now`: a transfer in one of its slots whose next packet is due, or an available slot
    (empty, or holding a finished transfer with an open gate) and a waiting object that `get_next_file_transfer`
    would start -/
def Ready (s : State) (q : QSess) (now : Nat) : Prop :=
  (∃ (j : Nat) (c : Cur) (f : FileDesc), q.slots[j]? = some (some c) ∧ getF s.objs c.key = some f ∧ gateBlocked f now = false ∧
    c.enc.stopped = false ∧ c.enc.sent < f.nPk) ∨
  (∃ (j t : Nat) (curj : Option Cur), q.slots[j]? = some curj ∧ Avail s now curj ∧
    findNext s q.prio now s.queue = some t)

/-- STRICT PRIORITY: after every operation history, while priority queue `q` has something ready (`Ready`: not
    waiting for its start time, a carousel delay, a pacing tick, a publication - and not behind the multiplex bound),
    `read` never returns `None` and never a packet of a queue of lower priority (`p ≤ q.prio`, smaller number =
    higher priority; FDT packets come first, C11).
    The literal clause of the property is stronger in one point and FALSE there: an eligible object that waits only
    because every slot of its queue is occupied by PACING transfers (gate closed; a finished occupant counts as
    available) is "ready" in the property's words but not
    `Ready` - lower-priority packets do go out then (finding F23, class `C13:hol-blocked-behind-paced-slot`). -/
theorem strict_priority (cfg : Cfg) (tbl : List Nat) (ops : List Op) (pre post : List QSess) (q : QSess)
    (now : Nat) (ticks : List (Nat × Nat))
    (hsorted : (cfg.queues.map (fun x => x.1)).Pairwise (fun a b => a < b))
    (hsess : (run (init cfg tbl) ops).sessions = pre ++ q :: post)
    (hready : Ready (run (init cfg tbl) ops) q now) (hnf : QueueFaultFree (run (init cfg tbl) ops) q.prio) :
    (read (run (init cfg tbl) ops) now ticks).2 ≠ Out.none ∧
    ∀ p t i b, (read (run (init cfg tbl) ops) now ticks).2 = Out.pkt p t i b → p ≤ q.prio := by
  rcases hready with ⟨j, c, f, h1, h2, h3, h4, h5⟩ | ⟨j, t, curj, h1, h2, h3⟩
  · exact strict_priority_in_progress cfg tbl ops pre post q j c f now ticks hsorted hsess h1 h2 h3 h4 h5
  · exact strict_priority_waiting cfg tbl ops pre post q j t now ticks hsorted hsess curj h1 h2 h3 hnf

/-- Work conservation (contrapositive of `strict_priority`, the liveness-flavoured reading): after every operation
    history, `read(now)` returns `None` ONLY IF no priority queue has anything ready at `now` - every transfer in a
    slot is held back (pacing gate closed, stopped, or drained), and a waiting object that `should_transfer_now`
    accepts exists only for queues all of whose slots are occupied.  Together with C12 `read_terminates` (reads at one
    instant reach `None`): polling at an instant until `None` sends everything that can be sent at that instant. -/
theorem idle_only_when_nothing_ready (cfg : Cfg) (tbl : List Nat) (ops : List Op) (pre post : List QSess) (q : QSess)
    (now : Nat) (ticks : List (Nat × Nat))
    (hsorted : (cfg.queues.map (fun x => x.1)).Pairwise (fun a b => a < b))
    (hsess : (run (init cfg tbl) ops).sessions = pre ++ q :: post)
    (hnone : (read (run (init cfg tbl) ops) now ticks).2 = Out.none)
    (hnf : QueueFaultFree (run (init cfg tbl) ops) q.prio) :
    ¬ Ready (run (init cfg tbl) ops) q now :=
  fun hr => (strict_priority cfg tbl ops pre post q now ticks hsorted hsess hr hnf).1 hnone

/-- Round robin inside one priority queue, for one call of `read_priority_queue` (`readQueue`, the function `read`
    runs on every queue, with `steps = number of slots`): let slot `j` hold a transfer `c` in progress whose next
    packet is due at `now` (pacing gate open, encoder neither drained nor stopped; the other slots hold other
    objects).  If the call returns an object packet then EITHER it is `c`'s packet, OR it is the packet of a slot
    polled before `j` and afterwards (1) the round-robin index is strictly closer to `j` (cyclic distance `rrDist`),
    (2) slot `j` still holds `c` with the same encoder state and (3) `c`'s object is untouched (same `TransferInfo`,
    so it is still due at `now`).  Iterating: a due slot is served after at most `n - 1` packets of its peers, and a
    slot never emits twice while a due peer waits - the slots alternate.
    (Queue-level mechanism; `round_robin_partial` is the same statement on `Sender::read`.) -/
theorem round_robin_queue (s : State) (q : QSess) (j : Nat) (c : Cur) (f : FileDesc) (now : Nat)
    (ticks : List (Nat × Nat)) (hidx : q.index < q.slots.length)
    (hjs : q.slots[j]? = some (some c)) (hf : getF s.objs c.key = some f) (htr : f.info.transferring = true)
    (hoth : ∀ i c0, i ≠ j → q.slots[i]? = some (some c0) → c0.key ≠ c.key)
    (hg : gateBlocked f now = false) (hs : c.enc.stopped = false) (hlt : c.enc.sent < f.nPk)
    (p t i : Nat) (b : Bool) (hout : (readQueue q.slots.length s q now ticks).2.2 = Out.pkt p t i b) :
    t = c.key ∨
    (t ≠ c.key ∧
     rrDist (readQueue q.slots.length s q now ticks).2.1.index j q.slots.length < rrDist q.index j q.slots.length ∧
     (readQueue q.slots.length s q now ticks).2.1.slots[j]? = some (some c) ∧
     ∃ f', getF (readQueue q.slots.length s q now ticks).1.objs c.key = some f' ∧ f'.info = f.info ∧ f'.nSym = f.nSym) := by
  have hj : j < q.slots.length := by
    rcases Nat.lt_or_ge j q.slots.length with h | h
    · exact h
    · rw [List.getElem?_eq_none h] at hjs; cases hjs
  have hkept : Kept c.key f (c.key ∈ s.files) s := ⟨⟨f, hf, rfl, rfl, rfl⟩, Iff.rfl⟩
  rcases readQueue_rr htr c j q.slots.length rfl now hg hs hlt hj q.slots.length s q ticks hkept rfl hidx hjs hoth
      (rrDist_lt _ _ _ hidx hj) p t i b hout with h | ⟨h1, h2, h3, h4⟩
  · exact Or.inl h
  · obtain ⟨f', e1, e2, e3, _⟩ := h4.obj
    exact Or.inr ⟨h1, h2, h3, f', e1, e2, e3⟩

/-- Round robin on `Sender::read`, after every operation history: let slot `j` of priority queue `q` hold a transfer
    `c` whose next packet is due at `now`.  If `read(now)` returns an object packet, then it is (1) a packet of a
    queue polled before `q` (higher priority), or (2) `c`'s packet, or (3) the packet of a peer slot of `q` polled
    before `j` - and then, in the state AFTER the call, `q` (same position in the session list) has its round-robin
    index strictly closer to `j` (cyclic distance `rrDist`), slot `j` still holds `c` with the same encoder state, and
    `c`'s object is untouched (same `TransferInfo`: still due at `now` and at any later instant).  As the distance is
    `< n` and strictly decreases with every packet of `q` that is not `c`'s, the due slot is served after at most
    `n - 1` packets of its peers, and no slot emits twice while a due peer waits: the slots alternate.
    PARTIAL: one `read` step; the iteration over consecutive `read`s (an induction on `rrDist`, valid as long as no
    other operation - remove, trigger - touches the object in between) is not stated as a multi-call theorem; the
    trace-level clause is checked by the engine's oracle `C13:round-robin`. -/
theorem round_robin_partial (cfg : Cfg) (tbl : List Nat) (ops : List Op) (pre post : List QSess) (q : QSess)
    (j : Nat) (c : Cur) (f : FileDesc) (now : Nat) (ticks : List (Nat × Nat))
    (hsess : (run (init cfg tbl) ops).sessions = pre ++ q :: post)
    (hjs : q.slots[j]? = some (some c)) (hf : getF (run (init cfg tbl) ops).objs c.key = some f)
    (hg : gateBlocked f now = false) (hs : c.enc.stopped = false) (hlt : c.enc.sent < f.nPk)
    (p t i : Nat) (b : Bool) (hout : (read (run (init cfg tbl) ops) now ticks).2 = Out.pkt p t i b) :
    p ∈ pre.map (fun x => x.prio) ∨
    (p = q.prio ∧
      (t = c.key ∨
       (t ≠ c.key ∧ ∃ pre' q', (read (run (init cfg tbl) ops) now ticks).1.sessions = pre' ++ q' :: post ∧
          pre'.length = pre.length ∧ q'.prio = q.prio ∧ q'.slots.length = q.slots.length ∧
          rrDist q'.index j q.slots.length < rrDist q.index j q.slots.length ∧
          q'.slots[j]? = some (some c) ∧
          ∃ f', getF (read (run (init cfg tbl) ops) now ticks).1.objs c.key = some f' ∧ f'.info = f.info ∧
            f'.nSym = f.nSym))) :=
  read_rr cfg tbl ops pre post q j c f now ticks hsess hjs hf hg hs hlt p t i b hout

/-- Round robin over CONSECUTIVE CALLS: after every operation history, let slot `j` of priority queue `q` hold a
    transfer `c` whose packet is due at `now`.  Consider ANY sequence of further calls `read(now)` (any tick inputs)
    none of which returns `c`'s packet (`AllOut`).  Then the number of calls among them that return a packet of a
    PEER of `c` (same priority queue, other object: `peerCount`) is at most `rrDist q.index j n ≤ n - 1` - whatever
    the other calls return: FDT packets and packets of higher-priority queues in between do not move the queue's
    round-robin index (a poll that finds an FDT pending goes once around the slots and leaves the index where it
    was), and the due transfer stays untouched.  So between two consecutive packets of one slot every due peer slot
    is served, and no peer is served twice while a due slot waits (a peer that has emitted is the farthest slot).
    (All calls at one instant `now`; "exactly once each" for several simultaneously due peers follows by applying
    the statement to each of them.) -/
theorem round_robin_over_calls (cfg : Cfg) (tbl : List Nat) (ops : List Op) (pre post : List QSess) (q : QSess)
    (j : Nat) (c : Cur) (f : FileDesc) (now : Nat) (tks : List (List (Nat × Nat)))
    (hsorted : (cfg.queues.map (fun x => x.1)).Pairwise (fun a b => a < b))
    (hsess : (run (init cfg tbl) ops).sessions = pre ++ q :: post)
    (hjs : q.slots[j]? = some (some c)) (hf : getF (run (init cfg tbl) ops).objs c.key = some f)
    (hg : gateBlocked f now = false) (hs : c.enc.stopped = false) (hlt : c.enc.sent < f.nPk)
    (hall : AllOut (fun o => ∀ i b, o ≠ Out.pkt q.prio c.key i b) (run (init cfg tbl) ops) now tks) :
    peerCount q.prio c.key now (run (init cfg tbl) ops) tks ≤ rrDist q.index j q.slots.length ∧
    rrDist q.index j q.slots.length < q.slots.length := by
  have hj : j < q.slots.length := by
    rcases Nat.lt_or_ge j q.slots.length with h | h
    · exact h
    · rw [List.getElem?_eq_none h] at hjs; cases hjs
  have hidx : q.index < q.slots.length := run_idx cfg tbl ops q (by rw [hsess]; simp)
  exact ⟨rr_all cfg tbl hsorted now j c q.prio q.slots.length tks ops pre post q f hsess rfl rfl hjs hf hg hs hlt hall,
    rrDist_lt _ _ _ hidx hj⟩

/-! non-vacuity: two objects multiplexed in one queue with 2 slots, a third one waiting -/
def cfg2 : Cfg := { mode := .full, fdtCarousel := .delay 1000, fdtDuration := 3600000000000, fdtStartId := 1, queues := [(0, 2)] }
def obj (n : Nat) : AddArgs := { prio := 0, nSym := n, maxCount := 1, carousel := none, start := none, target := none, allowStop := false }
def hist : List Op := [.add (obj 3), .add (obj 3), .add (obj 3), .publish 5, .read 5 [], .read 5 [], .read 5 []]

example : ((run (init cfg2 [1]) hist).objs.filter (fun f => f.prio == 0 && f.info.transferring)).length = 2 := by decide
example : (run (init cfg2 [1]) hist).queue = [3] := by decide

/-- non-vacuity of `strict_priority_in_progress`: queue 0 holds a transfer with packets left, its gate is open -/
example : ∃ q c f, (run (init cfg2 [1]) hist).sessions = [] ++ q :: [] ∧ q.slots[0]? = some (some c) ∧
    getF (run (init cfg2 [1]) hist).objs c.key = some f ∧ gateBlocked f 5 = false ∧ c.enc.stopped = false ∧
    c.enc.sent < f.nPk := by
  refine ⟨_, _, _, rfl, rfl, rfl, ?_, ?_, ?_⟩ <;> decide

/-- non-vacuity of `strict_priority_waiting`: three objects added and published, nothing started yet: the queue has
    free slots and `findNext` names the first object -/
example : ∃ q, (run (init cfg2 [1]) [.add (obj 3), .add (obj 3), .add (obj 3), .publish 5]).sessions = [] ++ q :: [] ∧
    q.slots[0]? = some none ∧
    findNext (run (init cfg2 [1]) [.add (obj 3), .add (obj 3), .add (obj 3), .publish 5]) q.prio 5
      (run (init cfg2 [1]) [.add (obj 3), .add (obj 3), .add (obj 3), .publish 5]).queue = some 1 := by
  refine ⟨_, rfl, ?_, ?_⟩ <;> decide

/-- non-vacuity of `round_robin_queue` / `round_robin_partial`, second alternative: slot 1 (TOI 2) is due, the index points at slot 0
    (TOI 1, also due): the call returns TOI 1's packet and moves the index onto slot 1 -/
example : ∃ q, (run (init cfg2 [1]) hist).sessions = [q] ∧ q.index = 0 ∧
    (q.slots.map (fun c => c.map (fun c => c.key))) = [some 1, some 2] ∧
    (∃ b, (readQueue q.slots.length (run (init cfg2 [1]) hist) q 5 []).2.2 = Out.pkt 0 1 1 b) ∧
    (readQueue q.slots.length (run (init cfg2 [1]) hist) q 5 []).2.1.index = 1 := by
  refine ⟨_, rfl, ?_, ?_, ⟨false, ?_⟩, ?_⟩ <;> decide

/-- non-vacuity of `fifo_over_histories`: object 1 (start time 100) is passed over at instant 5 by object 2 -/
def objLate : AddArgs := { prio := 0, nSym := 3, maxCount := 1, carousel := none, start := some 100, target := none, allowStop := false }
example : (getNextFile (run (init cfg2 [1]) [.add objLate, .add (obj 3), .publish 5]) 0 5 []).2 = some 2 ∧
    1 ∈ (run (init cfg2 [1]) [.add objLate, .add (obj 3), .publish 5]).queue ∧
    fresh (run (init cfg2 [1]) [.add objLate, .add (obj 3), .publish 5]) 1 = true ∧
    fresh (run (init cfg2 [1]) [.add objLate, .add (obj 3), .publish 5]) 2 = true := by decide

/-- non-vacuity of `round_robin_over_calls`: from the state of `hist`, slot 1 (TOI 2) is due; the first call returns
    the peer's (TOI 1) packet - `peerCount` = 1 = `rrDist 0 1 2` - and the second call returns TOI 2's -/
example : AllOut (fun o => ∀ i b, o ≠ Out.pkt 0 2 i b) (run (init cfg2 [1]) hist) 5 [[]] ∧
    peerCount 0 2 5 (run (init cfg2 [1]) hist) [[]] = 1 ∧
    (∃ i b, (read (read (run (init cfg2 [1]) hist) 5 []).1 5 []).2 = Out.pkt 0 2 i b) := by
  refine ⟨⟨?_, trivial⟩, by decide, ⟨1, false, by decide⟩⟩
  have : (read (run (init cfg2 [1]) hist) 5 []).2 = Out.pkt 0 1 1 false := by decide
  intro i b e
  rw [this] at e
  cases e

/-- non-vacuity of `fifo_order_stable`: in `hist` objects 1 and 2 transfer while object 3 waits; a fourth object
    added afterwards is behind 3 and stays behind it over further reads -/
example : Ahead 3 4 (run (init cfg2 [1]) (hist ++ [.add (obj 3)])).queue ∧
    ((trace cfg2 [1] ((hist ++ [.add (obj 3)]) ++ [.read 5 [], .read 5 []])).take
      ((trace cfg2 [1] ((hist ++ [.add (obj 3)]) ++ [.read 5 [], .read 5 []])).length -
        (trace cfg2 [1] (hist ++ [.add (obj 3)])).length)).any (badEv 3) = false := by
  refine ⟨⟨[], [4], by decide, by decide⟩, by decide⟩

/-! ### interleave window: the abstraction `BlockEnc` → `Sched`, and the clause by citation of C08 -/

section Interleave
open Flute.BlockEnc Flute.BencTrace Flute.BencShape Flute.BencInv Flute.BencBlocks Flute.SchedBenc

/-- **the transfer abstraction of this model is sound** (contract, FEC No-Code = the objects this engine sends; for the
    other codecs `SchedBenc.enc_contract` + `complete_of_link`).  For every non-empty buffer object `c`, symbol size,
    block size, window ≥ 1 (`Run … [] s0`: a fresh `BlockEncoder`, closable or not) there is a packet count `N ≥ 1` - the
    `nSym` this model takes as input - such that in EVERY state `e` the encoder reaches through successful reads with
    any force flags, `BlockEncoder::read(force)` seen through `absEnc` / `absRes` is exactly `Sched.encRead N`: a packet
    iff fewer than `N` were returned and the encoder is not stopped; its index = packets returned so far; B iff forced
    or (closable and packet number `N`); a forced call raises `stopped` (so at most one more packet, with B); the real
    `read` neither panics nor spins. -/
theorem transfer_abstraction_contract {P : Params} {c : Flute.Fec.Bytes} {aL aS nL n : Nat} {closable : Bool} {s0 : BlockEnc.Enc}
    (h0 : Run P c aL aS nL n closable [] s0) (hc : P.codec = Flute.Fec.noCode) :
    ∃ N, 1 ≤ N ∧ ∀ (tr : List (Bool × Pkt)) (e : BlockEnc.Enc), Reads P s0 tr e → ∀ force,
      absRes e (BlockEnc.read P e force) = some (Sched.encRead N (absEnc e) force) :=
  enc_contract_nocode h0 hc

/-- **interleave window, per transfer, on the abstract encoder's replay** (`absReplay`: iterated `Sched.encRead` - NOT yet a
    statement about `Sched.read`; the statements about traces and states of `Sched.read` histories are
    `interleave_window_every_packet` and `interleave_window_composed` below, built from this one).  C13: "within an object
    at most `interleave_blocks` source blocks are open at once, opened in increasing block number", for every packet
    sequence the abstract encoder can emit for one transfer.  Whatever force
    flags `fs` the scheduler issues (removal at any packet index) - if its abstract encoder `Sched.encRead N` answers each
    call with a packet (`absReplay`: indices and B flags `out`, final abstract state `a`), then these packets ARE the
    packets of a genuine `BlockEncoder` run `tr` with the same flags (`Run`, benc's byte-level model): same indices
    `0 … |tr|-1`, same B flags, `absEnc e = a`; and in the state `e` it has reached (every prefix of `fs` is such a
    replay too, `SchedBenc.absReplay_prefix`: so at every point of the transfer) by `Props.C08.window_bound` at most
    `interleave_blocks` blocks are open, in increasing SBN, all of them cut already; on the wire no packet of a block
    not yet cut, and the blocks with some but not all of their packets sent are open blocks - at most
    `interleave_blocks` of them. -/
theorem interleave_window {P : Params} {c : Flute.Fec.Bytes} {aL aS nL n : Nat} {closable : Bool} {s0 : BlockEnc.Enc}
    (h0 : Run P c aL aS nL n closable [] s0) (hc : P.codec = Flute.Fec.noCode) :
    ∃ N, 1 ≤ N ∧ ∀ (fs : List Bool) (out : List (Nat × Bool)) (a : Sched.Enc),
      absReplay N fs { sent := 0, stopped := false, closable := closable } = some (out, a) →
      ∃ tr e, Run P c aL aS nL n closable tr e ∧ tr.map (·.1) = fs ∧ absEnc e = a ∧
        out.map (·.1) = List.range tr.length ∧ out.map (·.2) = (pkts tr).map (·.closeObject) ∧
        e.blocks.length ≤ P.window ∧ (e.blocks.map (·.sbn)).Pairwise (· < ·) ∧
        (∀ b, b ∈ e.blocks → b.sbn < e.sbn) ∧
        (∀ k, e.sbn ≤ k → proj (pkts tr) k = []) ∧
        (∀ ks : List Nat, ks.Nodup → (∀ k, k ∈ ks → PartiallySent P c aL aS nL (pkts tr) k) → ks.length ≤ P.window) := by
  obtain ⟨trC, hC, hlast⟩ := complete_nocode h0 hc
  have hle : Flute.BencPsi.SymLe P.codec := by rw [hc]; exact Flute.BencPsi.noCode_symLe
  refine ⟨trC.length, List.length_pos_iff.mpr (complete_ne_nil h0 hC), ?_⟩
  intro fs out a h
  obtain ⟨tr, e, hrun, g1, g2, g3, g4⟩ := replay_realised h0 hle hC hlast fs out a h
  obtain ⟨w1, w2, w3, w4, _, w6⟩ := interleave_window_run hrun
  exact ⟨tr, e, hrun, g1, g2, g3, g4, w1, w2, w3, w4, w6⟩

/-- … and over the whole life of a file slot (benc's `BlockEnc.Session`: transfer count, `closable = is_last_transfer`,
    carousel, requeue / expiry, forced stop after `remove_object`; any codec accepting the object): after ANY history of
    `Sender::read`, `remove_object` and clock advances the encoder in the slot is a genuine run, so the window clause holds
    at every point of every transfer of every history.  (`SchedBenc.glue_decisions` / `glue_start` / `glue_release`: the
    slot takes the same last-transfer / expiry / forced-stop decisions as this model's `FileDesc`.) -/
theorem interleave_window_file_slot {c : Flute.Fec.Bytes} {aL aS nL n : Nat} (ops : List Flute.BencSession.Op) {x0 : BlockEnc.Session}
    (hg : Flute.BencSession.SGood c aL aS nL n x0) {e : BlockEnc.Enc}
    (he : (Flute.BencSession.srun ops x0).2.enc = some e) :
    e.blocks.length ≤ (Flute.BencSession.srun ops x0).2.P.window ∧ (e.blocks.map (·.sbn)).Pairwise (· < ·) ∧
    (∀ b, b ∈ e.blocks → b.sbn < e.sbn) := by
  obtain ⟨tr, hrun⟩ := session_encoder_is_run ops hg he
  obtain ⟨w1, w2, w3, _⟩ := interleave_window_run hrun
  exact ⟨w1, w2, w3⟩

/-- non-vacuity: benc's 5-byte object (E = 2, B = 2, window 2: blocks of 2, 1 symbols) - three unforced calls
    on the abstract encoder with N = 3 give indices 0, 1, 2 and B on the last one only -/
example : absReplay 3 [false, false, false] { sent := 0, stopped := false, closable := true } =
    some ([(0, false), (1, false), (2, true)], { sent := 3, stopped := false, closable := true }) := by decide

/-- non-vacuity of the hypotheses of `interleave_window` / `transfer_abstraction_contract`: benc's 5-byte object is a
    fresh No-Code `Run` -/
example : ∃ s0, Run Flute.Props.C08.tinyP Flute.Props.C08.tinyObj 2 1 1 2 true [] s0 ∧
    Flute.Props.C08.tinyP.codec = Flute.Fec.noCode := by
  obtain ⟨s0, h0⟩ : ∃ s0, Enc.new Flute.Props.C08.tinyP (.buffer Flute.Props.C08.tinyObj) true = .ok s0 := ⟨_, rfl⟩
  refine ⟨s0, ⟨rfl, by decide, by decide, rfl, by decide, by decide, rfl, ?_, ⟨s0, h0, Reads.nil _⟩⟩, rfl⟩
  exact Flute.BencShape.accepts_of_total ⟨rfl, by decide, rfl, by decide,
    Flute.BencArith.good_of_partition 2 5 2 2 1 1 2 (by decide) (by decide) (by decide) rfl⟩ (fun _ _ _ => rfl)

/-- **interleave window for the composed model** (scheduler model × benc's block-encoder model), at every reachable
    state of every operation history: every busy object slot of the scheduler whose object has a byte-level
    description with `f.nSym` packets per transfer (`SchedBenc.Describes`) holds - unless it is the never-started attempt
    of a faulty source, which sends nothing - the abstraction `absEnc e` of a GENUINE `BlockEncoder` run `e` with
    `cur.enc.sent` packets returned and `closable = cur.enc.closable`; in that run's state at most `interleave_blocks`
    source blocks are open, in increasing block number (`Props.C08.window_bound`), every open block has been cut, no
    packet of a block not yet cut is on the wire and at most `interleave_blocks` blocks are partially sent.
    (Scheduler side: `Sched.slot_replay_run`, an invariant of `Sched.step` through the frame of `Lemmas/SchedFrame.lean` -
    a `Cur.enc` is only ever a replay of `encRead f.nSym` from a fresh encoder; encoder side: `SchedBenc.replay_realised`,
    the converse half of the transfer contract.) -/
theorem interleave_window_composed (cfg : Cfg) (tbl : List Nat) (ops : List Op) {pc : Nat × Cur}
    (hpc : pc ∈ heldOf (run (init cfg tbl) ops)) {f : FileDesc}
    (hf : getF (run (init cfg tbl) ops).objs pc.2.key = some f)
    {P : Params} {c : Flute.Fec.Bytes} {aL aS nL n : Nat} (hd : Describes P c aL aS nL n f.nSym) :
    (pc.2.enc.sent = 0 ∧ pc.2.enc.stopped = true) ∨
    ∃ tr e, Run P c aL aS nL n pc.2.enc.closable tr e ∧ absEnc e = pc.2.enc ∧ tr.length = pc.2.enc.sent ∧
      e.blocks.length ≤ P.window ∧ (e.blocks.map (·.sbn)).Pairwise (· < ·) ∧
      (∀ b, b ∈ e.blocks → b.sbn < e.sbn) ∧
      (∀ k, e.sbn ≤ k → proj (pkts tr) k = []) ∧
      (∀ ks : List Nat, ks.Nodup → (∀ k, k ∈ ks → PartiallySent P c aL aS nL (pkts tr) k) → ks.length ≤ P.window) :=
  slot_is_run cfg tbl ops hpc hf hd

/-- **interleave window, for every object packet of every trace.**  Every object packet event `pkt now prio t idx b` in
    the trace of ANY operation history of this model belongs to an object `f`, and for every byte-level description of
    that object with `f.nSym` packets per transfer it is a packet a genuine `BlockEncoder` run RETURNS: a run `tr` of
    `idx` successful reads, a call `read(force)` returning `p` with `p.closeObject = b`, and in the encoder state after
    it the window clause (`Props.C08.window_bound`): at most `interleave_blocks` blocks open, in increasing block number,
    all cut already, no packet of a block not yet cut, at most `interleave_blocks` blocks partially sent.
    (`Sched.log_replay_run`: invariant of `Sched.step` over the log, `Lemmas/SchedBencLog.lean`.) -/
theorem interleave_window_every_packet (cfg : Cfg) (tbl : List Nat) (ops : List Op) {now prio t idx : Nat} {b : Bool}
    (hm : Ev.pkt now prio t idx b ∈ (run (init cfg tbl) ops).log) :
    ∃ f, getF (run (init cfg tbl) ops).objs t = some f ∧
      ∀ {P : Params} {c : Flute.Fec.Bytes} {aL aS nL n : Nat}, Describes P c aL aS nL n f.nSym →
        ∃ (cl : Bool) (tr : List (Bool × Pkt)) (e : BlockEnc.Enc) (force : Bool) (p : Pkt) (e' : BlockEnc.Enc),
          Run P c aL aS nL n cl tr e ∧ tr.length = idx ∧ BlockEnc.read P e force = (.pkt p, e') ∧ p.closeObject = b ∧
          Run P c aL aS nL n cl (tr ++ [(force, p)]) e' ∧
          e'.blocks.length ≤ P.window ∧ (e'.blocks.map (·.sbn)).Pairwise (· < ·) ∧
          (∀ bk, bk ∈ e'.blocks → bk.sbn < e'.sbn) ∧
          (∀ k, e'.sbn ≤ k → proj (pkts (tr ++ [(force, p)])) k = []) ∧
          (∀ ks : List Nat, ks.Nodup →
            (∀ k, k ∈ ks → PartiallySent P c aL aS nL (pkts (tr ++ [(force, p)])) k) → ks.length ≤ P.window) :=
  pkt_event_is_real cfg tbl ops hm

/-- the hypothesis `Describes` of `interleave_window_composed` is discharged for EVERY FEC No-Code object (the objects
    this engine sends): from a fresh encoder of a non-empty buffer object there is one packet count `N ≥ 1` - the same
    whether the encoder is created closable or not (`SchedBenc.complete_closable`: `closable` only changes the B flag) -
    with `Describes … N`; an object added to the scheduler model with `nSym = N` is thereby covered -/
theorem nocode_object_described {P : Params} {c : Flute.Fec.Bytes} {aL aS nL n : Nat} {cl0 : Bool} {s0 : BlockEnc.Enc}
    (h0 : Run P c aL aS nL n cl0 [] s0) (hc : P.codec = Flute.Fec.noCode) :
    ∃ N, 1 ≤ N ∧ Describes P c aL aS nL n N :=
  describes_nocode h0 hc

/-- … with the RIGHT count: for every non-empty FEC No-Code buffer object without repair symbols (`parity = 0`, as the
    sender configures No-Code) `Describes` holds with `N = ⌈len / E⌉` - the `nSym` this model is given for such an object
    (the engine derives it from the length the same way).  So for an object added with `nSym = ⌈len / E⌉` the two main
    statements `interleave_window_every_packet` / `interleave_window_composed` apply without a free `N`.
    (`Lemmas/SchedBencLen.lean`: the complete transfer has exactly the object's source symbols.) -/
theorem nocode_object_described_divCeil {P : Params} {c : Flute.Fec.Bytes} {aL aS nL n : Nat} {cl0 : Bool}
    {s0 : BlockEnc.Enc} (h0 : Run P c aL aS nL n cl0 [] s0) (hc : P.codec = Flute.Fec.noCode) (hp : P.p = 0) :
    Describes P c aL aS nL n (Flute.divCeil c.length P.e) :=
  describes_nocode_divCeil h0 hc hp

/-- non-vacuity of `Describes`: benc's 5-byte No-Code object (E = 2, B = 2, window 2) has 3 packets per transfer,
    closable or not, and the closable listing ends with B -/
example : Describes Flute.Props.C08.tinyP Flute.Props.C08.tinyObj 2 1 1 2 3 := by
  refine ⟨Flute.BencPsi.noCode_symLe, fun cl => ?_⟩
  obtain ⟨s0, h0⟩ : ∃ s0, Enc.new Flute.Props.C08.tinyP (.buffer Flute.Props.C08.tinyObj) cl = .ok s0 := ⟨_, rfl⟩
  have hrun : Run Flute.Props.C08.tinyP Flute.Props.C08.tinyObj 2 1 1 2 cl [] s0 :=
    ⟨rfl, by decide, by decide, rfl, by decide, by decide, rfl,
      Flute.BencShape.accepts_of_total ⟨rfl, by decide, rfl, by decide,
        Flute.BencArith.good_of_partition 2 5 2 2 1 1 2 (by decide) (by decide) (by decide) rfl⟩ (fun _ _ _ => rfl),
      ⟨s0, h0, Reads.nil _⟩⟩
  refine ⟨s0, (runPairs Flute.Props.C08.tinyP 10 s0).1, hrun,
    ⟨⟨s0, (runPairs Flute.Props.C08.tinyP 10 s0).2, h0, reads_runPairs _ 10 s0, ?_⟩, runPairs_unforced _ 10 s0⟩, ?_, ?_⟩
  · cases h0; cases cl <;> rfl
  · intro hcl x hx
    subst hcl
    have hl : ((runPairs Flute.Props.C08.tinyP 10 s0).1.getLast?.map (fun x => x.2.closeObject)) = some true := by
      cases h0; rfl
    rw [hx] at hl
    simpa using hl
  · cases h0; cases cl <;> rfl

/-- non-vacuity of `interleave_window_every_packet`: the trace of `hist` has object packet events -/
example : Ev.pkt 5 0 2 0 false ∈ (run (init cfg2 [1]) hist).log := by decide

/-- non-vacuity of `interleave_window_composed`: in the history `hist` two slots are busy (TOIs 1 and 2) -/
example : (heldOf (run (init cfg2 [1]) hist)).map (fun pc => pc.2.key) = [1, 2] := by decide

end Interleave

end Flute.Props.C13
