import FluteModel.Recv
import FluteModel.Lemmas.RecvRun
/-
  C19 - FDT expiry: delivery only through an FDT instance unexpired on the sender's clock.

  All theorems are about the model `FluteModel/Recv.lean` of `Receiver` / `FdtReceiver`, for EVERY
  object implementation `I : ObjIface σ`, every configuration, every history of calls
  (`Op.data` = `push_data` of an arbitrary parsed packet with an arbitrary XML-parser answer,
  `Op.cleanup` = `cleanup`), every receiver time.  `runT I s ops = some tr` says that no call of the
  history panicked; `tr` lists for each call the state after it, its result and its events.
  The ghost event `Ev.attach toi id` = "`attach_fdt(id, ..)` on the object of `toi` returned true";
  an object gets a writer only after that (`ObjIface.Law`, see `expired_only_is_silent`).
-/
namespace Flute.Props.C19
open Flute Flute.Recv
variable {σ : Type}

/-- **delivery_only_if_unexpired.**  Whenever an object is attached to an FDT instance (the only way
    it can get a writer), that instance `f` is in `fdt_current`, is `Complete`, and - if its expiry
    check is enabled - carries a valid `Expires` with `get_server_time_f(now) ≤ Expires_f` at the
    receiver time `now` of that very call. -/
theorem delivery_only_if_unexpired (I : ObjIface σ) (s : State σ) (ops : List Op)
    (tr : List (Op × State σ × Res × List Ev)) (hrun : runT I s ops = some tr) :
    ∀ e ∈ tr, ∀ toi id, Ev.attach toi id ∈ e.2.2.2 →
      ∃ f ∈ e.2.1.fdtCurrent, f.fdtId = id ∧ f.st = .complete ∧
        (f.check = true → ∃ exp t, f.expires = some exp ∧ f.serverTime e.1.now = .ok t ∧ t ≤ exp) := by
  have := runT_ind I (fun _ => True) (fun _ _ _ _ => True)
    (fun op s' _ evs => AttachSound op.now s' evs)
    (fun s op s' r evs _ h _ => ⟨trivial, step_attach I s s' op r evs h⟩)
    ops s tr trivial hrun (fun _ _ => trivial)
  intro e he toi id hm
  obtain ⟨f, hf, hid, hu⟩ := this e he toi id hm
  exact ⟨f, hf, hid, hu.1, hu.2⟩

/-- the expiry check of every instance is the configured one -/
theorem check_flag_is_config (I : ObjIface σ) (cfg : Config) (ops : List Op)
    (tr : List (Op × State σ × Res × List Ev)) (hrun : runT I (State.init cfg) ops = some tr) :
    ∀ e ∈ tr, ∀ f ∈ e.2.1.fdtCurrent, f.check = cfg.expCheck := by
  have := runT_inv I (fun s => s.cfg = cfg ∧ AllFdt (fun f => f.check = cfg.expCheck) s) (fun _ => True)
    (fun s op s' r evs hinv _ h => by
      have := step_all I (fun f => f.check = cfg.expCheck) s s' op r evs
        (fun p now ans id _ _ => by rw [hinv.1]; rfl)
        (fun p now ans _ _ _ _ f hf => by rw [(push_fields I f p now ans).2.2.1]; exact hf)
        (fun f f' hf hu => by rw [(updateExpired_fields hu).2.2.1]; exact hf)
        h hinv.2
      exact ⟨by rw [this.2]; exact hinv.1, this.1⟩)
    ops (State.init cfg) tr ⟨rfl, by constructor <;> (intro f hf; simp [State.init] at hf)⟩
    (fun _ _ => trivial) hrun
  intro e he f hf
  exact (this e he).2.1 f hf

/-- **expired_only_is_silent.**  Let the object implementation satisfy `ObjIface.Law` (writer calls
    only after a successful `attach_fdt`; `attach_fdt` succeeds only for an instance listing the
    object's TOI).  If, at every call of the history, every instance of `fdt_current` that lists
    `toi` is expired (or not `Complete`) at that call's time - i.e. no usable instance lists `toi` -
    then no call ever attaches `toi` and no writer call at all is made for it: no `new_object_writer`,
    no `open`, no `write`, no `complete`, no `error`, no `interrupted`. -/
theorem expired_only_is_silent (I : ObjIface σ) (L : I.Law) (cfg : Config) (ops : List Op)
    (tr : List (Op × State σ × Res × List Ev)) (hrun : runT I (State.init cfg) ops = some tr)
    (toi : Nat)
    (hexp : ∀ e ∈ tr, ∀ f ∈ e.2.1.fdtCurrent, f.Usable e.1.now →
      ∀ inst, f.inst = some inst → inst.getFile toi = none) :
    ∀ e ∈ tr, (∀ w, Ev.w toi w ∉ e.2.2.2) ∧ (∀ id, Ev.attach toi id ∉ e.2.2.2) := by
  have := runT_ind I (fun s => InvT L toi s.objects)
    (fun op s' _ _ => Hexp toi op.now s'.fdtCurrent)
    (fun _ _ _ evs => Silent toi evs ∧ ∀ i, Ev.attach toi i ∉ evs)
    (fun s op s' r evs hinv h hx => by
      have := step_quiet L toi s s' op r evs h hinv hx
      exact ⟨this.1, this.2⟩)
    ops (State.init cfg) tr (by intro k o hm; simp [State.init] at hm) hrun hexp
  exact this

/-- **check_disabled_ignores** (instance level): with the check disabled `update_expired_state`
    never changes anything, whatever `Expires` and the clocks say. -/
theorem check_disabled_update_noop (f : FdtRecv σ) (now : Int) (h : f.check = false) :
    f.updateExpired now = .ok f := by
  unfold FdtRecv.updateExpired
  split
  · rfl
  · simp [h]

/-- **check_disabled_ignores** (receiver level): with `enable_fdt_expiration_check = false` no FDT
    instance is ever in state `Expired`, in any reachable state, whatever the history, the `Expires`
    values, the SCT values and the clocks are; attaching then only needs a `Complete` instance
    (`delivery_only_if_unexpired` with `f.check = false`). -/
theorem check_disabled_ignores (I : ObjIface σ) (cfg : Config) (hc : cfg.expCheck = false)
    (ops : List Op) (tr : List (Op × State σ × Res × List Ev))
    (hrun : runT I (State.init cfg) ops = some tr) :
    ∀ e ∈ tr, (∀ f ∈ e.2.1.fdtCurrent, f.check = false ∧ f.st ≠ .expired) ∧
              (∀ kf ∈ e.2.1.fdtReceivers, kf.2.check = false ∧ kf.2.st ≠ .expired) := by
  have := runT_inv I (fun s => s.cfg = cfg ∧ AllFdt (fun f => f.check = false ∧ f.st ≠ .expired) s)
    (fun _ => True)
    (fun s op s' r evs hinv _ h => by
      have := step_all I (fun f => f.check = false ∧ f.st ≠ .expired) s s' op r evs
        (fun p now ans id _ _ => by rw [hinv.1, hc]; simp [FdtRecv.new])
        (fun p now ans _ _ _ _ f hf => by
          have := push_fields I f p now ans
          exact ⟨by rw [this.2.2.1]; exact hf.1, this.2.2.2.2 hf.2⟩)
        (fun f f' hf hu => by
          rw [check_disabled_update_noop f _ hf.1] at hu
          injection hu with hu; subst hu; exact hf)
        h hinv.2
      exact ⟨by rw [this.2]; exact hinv.1, this.1⟩)
    ops (State.init cfg) tr ⟨rfl, by constructor <;> (intro f hf; simp [State.init] at hf)⟩
    (fun _ _ => trivial) hrun
  intro e he
  exact (this e he).2

/-- **no_sct_uses_own_clock** (instance level): without an observed EXT_TIME the estimate of the
    sender clock is the receiver's own clock, so the instance is expired exactly when
    `now > Expires` (or `Expires` is unusable). -/
theorem no_sct_server_time (f : FdtRecv σ) (now : Int) (h : f.offset = none) :
    f.serverTime now = .ok now ∧
    f.isExpired now = .ok (match f.expires with | none => true | some e => decide (now > e)) := by
  unfold FdtRecv.isExpired FdtRecv.serverTime
  rw [h]
  cases f.expires <;> simp

/-- **no_sct_uses_own_clock** (receiver level): in a history none of whose packets carries a
    sender-current-time, no instance ever holds a clock offset - every expiry decision of the whole
    run is taken on the receiver's own, uncorrected clock. -/
theorem no_sct_uses_own_clock (I : ObjIface σ) (cfg : Config) (ops : List Op)
    (tr : List (Op × State σ × Res × List Ev)) (hrun : runT I (State.init cfg) ops = some tr)
    (hno : ∀ op ∈ ops, ∀ p now ans, op = Op.data (.pkt p) now ans → p.sct = none) :
    ∀ e ∈ tr, (∀ f ∈ e.2.1.fdtCurrent, f.offset = none ∧ ∀ now, f.serverTime now = .ok now) ∧
              (∀ kf ∈ e.2.1.fdtReceivers, kf.2.offset = none) := by
  have := runT_inv I (fun s => AllFdt (fun f => f.offset = none) s)
    (fun op => ∀ p now ans, op = Op.data (.pkt p) now ans → p.sct = none)
    (fun s op s' r evs hinv hG h => by
      exact (step_all I (fun f => f.offset = none) s s' op r evs
        (fun p now ans id _ _ => by simp [FdtRecv.new])
        (fun p now ans hop _ _ _ f hf => by
          rw [(push_fields I f p now ans).1, hG p now ans hop]
          simpa [FdtRecv.observeSct] using hf)
        (fun f f' hf hu => by rw [(updateExpired_fields hu).2.2.2.2.1]; exact hf)
        h hinv).1)
    ops (State.init cfg) tr (by constructor <;> (intro f hf; simp [State.init] at hf))
    hno hrun
  intro e he
  refine ⟨fun f hf => ⟨(this e he).1 f hf, fun now => (no_sct_server_time f now ((this e he).1 f hf)).1⟩,
    (this e he).2⟩

end Flute.Props.C19
