import FluteModel.Recv
import FluteModel.Lemmas.RecvRun
import FluteModel.Lemmas.RecvSkewState
import FluteModel.Lemmas.RecvStrip
import FluteModel.Lemmas.RecvKey
import FluteModel.Lemmas.RecvToy
import FluteModel.RecvMini
import FluteModel.Lemmas.RecvMiniLaw
import FluteModel.Lemmas.RecvFullLaw
/-
  C19 - FDT expiry: delivery only through an FDT instance unexpired on the sender's clock.

  All theorems are about the model `FluteModel/Recv.lean` of `Receiver` / `FdtReceiver`, for EVERY
  object implementation `I : ObjIface σ`, every configuration, every history of calls
  (`Op.data` = `push_data` of an arbitrary parsed packet with an arbitrary XML-parser answer,
  `Op.cleanup` = `cleanup`), every receiver time.  `runT I s ops = some tr` says that no call of the
  history panicked; `tr` lists for each call the state after it, its result and its events.
  The ghost event `Ev.attach toi id` = "`attach_fdt(id, ..)` on the object of `toi` returned true";
  an object gets a writer only after that (`ObjIface.Law`, see `expired_only_is_silent`).
-/
namespace Flute.Props.C19
open Flute Flute.Recv
variable {σ : Type}

/-- **delivery_only_if_unexpired.**  Whenever an object is attached to an FDT instance (the only way
    it can get a writer), that instance `f` is in `fdt_current`, is `Complete`, and - if its expiry
    check is enabled - carries a valid `Expires` with `get_server_time_f(now) ≤ Expires_f` at the
    receiver time `now` of that very call. -/
theorem delivery_only_if_unexpired (I : ObjIface σ) (s : State σ) (ops : List Op)
    (tr : List (Op × State σ × Res × List Ev)) (hrun : runT I s ops = some tr) :
    ∀ e ∈ tr, ∀ toi id, Ev.attach toi id ∈ e.2.2.2 →
      ∃ f ∈ e.2.1.fdtCurrent, f.fdtId = id ∧ f.st = .complete ∧
        (f.check = true → ∃ exp t, f.expires = some exp ∧ f.serverTime e.1.now = .ok t ∧ t ≤ exp) := by
  have := runT_ind I (fun _ => True) (fun _ _ _ _ => True)
    (fun op s' _ evs => AttachSound op.now s' evs)
    (fun s op s' r evs _ h _ => ⟨trivial, step_attach I s s' op r evs h⟩)
    ops s tr trivial hrun (fun _ _ => trivial)
  intro e he toi id hm
  obtain ⟨f, hf, hid, hu⟩ := this e he toi id hm
  exact ⟨f, hf, hid, hu.1, hu.2⟩

/-- the expiry check of every instance is the configured one -/
theorem check_flag_is_config (I : ObjIface σ) (cfg : Config) (ops : List Op)
    (tr : List (Op × State σ × Res × List Ev)) (hrun : runT I (State.init cfg) ops = some tr) :
    ∀ e ∈ tr, ∀ f ∈ e.2.1.fdtCurrent, f.check = cfg.expCheck := by
  have := runT_inv I (fun s => s.cfg = cfg ∧ AllFdt (fun f => f.check = cfg.expCheck) s) (fun _ => True)
    (fun s op s' r evs hinv _ h => by
      have := step_all I (fun f => f.check = cfg.expCheck) s s' op r evs
        (fun f v hf => by rw [(noteFti_fields f v).2.2.2.2.2.2.2.2.1]; exact hf)
        (fun p now ans id _ _ => by rw [hinv.1]; rfl)
        (fun p now ans _ _ _ _ f hf => by rw [(push_fields I f p now ans).2.2.1]; exact hf)
        (fun f f' hf hu => by rw [(updateExpired_fields hu).2.2.1]; exact hf)
        h hinv.2
      exact ⟨by rw [this.2]; exact hinv.1, this.1⟩)
    ops (State.init cfg) tr ⟨rfl, by constructor <;> (intro f hf; simp [State.init] at hf)⟩
    (fun _ _ => trivial) hrun
  intro e he f hf
  exact (this e he).2.1 f hf

/-- **expired_only_is_silent.**  Let the object implementation satisfy `ObjIface.Law` (writer calls
    only after a successful `attach_fdt`; `attach_fdt` succeeds only for an instance listing the
    object's TOI).  If, at every call of the history, every instance of `fdt_current` that lists
    `toi` is expired (or not `Complete`) at that call's time - i.e. no usable instance lists `toi` -
    then no call ever attaches `toi` and no writer call at all is made for it: no `new_object_writer`,
    no `open`, no `write`, no `complete`, no `error`, no `interrupted`. -/
theorem expired_only_is_silent (I : ObjIface σ) (L : I.Law) (cfg : Config) (ops : List Op)
    (tr : List (Op × State σ × Res × List Ev)) (hrun : runT I (State.init cfg) ops = some tr)
    (toi : Nat)
    (hexp : ∀ e ∈ tr, ∀ f ∈ e.2.1.fdtCurrent, f.Usable e.1.now →
      ∀ inst, f.inst = some inst → inst.getFile toi = none) :
    ∀ e ∈ tr, (∀ w, Ev.w toi w ∉ e.2.2.2) ∧ (∀ id, Ev.attach toi id ∉ e.2.2.2) := by
  have := runT_ind I (fun s => InvT L toi s.objects)
    (fun op s' _ _ => Hexp toi op.now s'.fdtCurrent)
    (fun _ _ _ evs => Silent toi evs ∧ ∀ i, Ev.attach toi i ∉ evs)
    (fun s op s' r evs hinv h hx => by
      have := step_quiet L toi s s' op r evs h hinv hx
      exact ⟨this.1, this.2⟩)
    ops (State.init cfg) tr (by intro k o hm; simp [State.init] at hm) hrun hexp
  exact this

/-- **check_disabled_ignores** (instance level): with the check disabled `update_expired_state`
    never changes anything, whatever `Expires` and the clocks say. -/
theorem check_disabled_update_noop (f : FdtRecv σ) (now : Int) (h : f.check = false) :
    f.updateExpired now = .ok f := by
  unfold FdtRecv.updateExpired
  split
  · rfl
  · simp [h]

/-- **check_disabled_ignores** (receiver level): with `enable_fdt_expiration_check = false` no FDT
    instance is ever in state `Expired`, in any reachable state, whatever the history, the `Expires`
    values, the SCT values and the clocks are; attaching then only needs a `Complete` instance
    (`delivery_only_if_unexpired` with `f.check = false`). -/
theorem check_disabled_ignores (I : ObjIface σ) (cfg : Config) (hc : cfg.expCheck = false)
    (ops : List Op) (tr : List (Op × State σ × Res × List Ev))
    (hrun : runT I (State.init cfg) ops = some tr) :
    ∀ e ∈ tr, (∀ f ∈ e.2.1.fdtCurrent, f.check = false ∧ f.st ≠ .expired) ∧
              (∀ kf ∈ e.2.1.fdtReceivers, kf.2.check = false ∧ kf.2.st ≠ .expired) := by
  have := runT_inv I (fun s => s.cfg = cfg ∧ AllFdt (fun f => f.check = false ∧ f.st ≠ .expired) s)
    (fun _ => True)
    (fun s op s' r evs hinv _ h => by
      have := step_all I (fun f => f.check = false ∧ f.st ≠ .expired) s s' op r evs
        (fun f v hf => by
          have hn := noteFti_fields f v
          exact ⟨by rw [hn.2.2.2.2.2.2.2.2.1]; exact hf.1, by rw [hn.2.2.1]; exact hf.2⟩)
        (fun p now ans id _ _ => by rw [hinv.1, hc]; simp [FdtRecv.new])
        (fun p now ans _ _ _ _ f hf => by
          have := push_fields I f p now ans
          exact ⟨by rw [this.2.2.1]; exact hf.1, this.2.2.2.2 hf.2⟩)
        (fun f f' hf hu => by
          rw [check_disabled_update_noop f _ hf.1] at hu
          injection hu with hu; subst hu; exact hf)
        h hinv.2
      exact ⟨by rw [this.2]; exact hinv.1, this.1⟩)
    ops (State.init cfg) tr ⟨rfl, by constructor <;> (intro f hf; simp [State.init] at hf)⟩
    (fun _ _ => trivial) hrun
  intro e he
  exact (this e he).2

/-- **check_disabled_ignores** (full strength: the clocks play no role at all).  With
    `enable_fdt_expiration_check = false`, two histories that consist of the same datagrams, the same
    parser answers and the same cleanups, but carry ARBITRARY, unrelated receiver times, panic at the
    same call or not at all and produce exactly the same per-call results, attach decisions and writer
    calls - whatever the `Expires` values, the EXT_TIME values and either clock are. -/
theorem check_disabled_clock_independent (I : ObjIface σ) (cfg : Config) (hc : cfg.expCheck = false)
    (ops ops' : List Op) (h : RetimedL ops ops') :
    (run I (State.init cfg) ops).map (·.2) = (run I (State.init cfg) ops').map (·.2) :=
  run_strip I ops ops' h (State.init cfg) (State.init cfg) rfl hc hc
    (by constructor <;> (intro f hf; simp [State.init] at hf))
    (by constructor <;> (intro f hf; simp [State.init] at hf))

/-- **no_sct_uses_own_clock** (instance level): without an observed EXT_TIME the estimate of the
    sender clock is the receiver's own clock, so the instance is expired exactly when
    `now > Expires` (or `Expires` is unusable). -/
theorem no_sct_server_time (f : FdtRecv σ) (now : Int) (h : f.offset = none) :
    f.serverTime now = .ok now ∧
    f.isExpired now = .ok (match f.expires with | none => true | some e => decide (now > e)) := by
  unfold FdtRecv.isExpired FdtRecv.serverTime
  rw [h]
  cases f.expires <;> simp

/-- **no_sct_uses_own_clock** (receiver level): in a history none of whose packets carries a
    sender-current-time, no instance ever holds a clock offset - every expiry decision of the whole
    run is taken on the receiver's own, uncorrected clock. -/
theorem no_sct_uses_own_clock (I : ObjIface σ) (cfg : Config) (ops : List Op)
    (tr : List (Op × State σ × Res × List Ev)) (hrun : runT I (State.init cfg) ops = some tr)
    (hno : ∀ op ∈ ops, ∀ p now ans, op = Op.data (.pkt p) now ans → p.sct = none) :
    ∀ e ∈ tr, (∀ f ∈ e.2.1.fdtCurrent, f.offset = none ∧ ∀ now, f.serverTime now = .ok now) ∧
              (∀ kf ∈ e.2.1.fdtReceivers, kf.2.offset = none) := by
  have := runT_inv I (fun s => AllFdt (fun f => f.offset = none) s)
    (fun op => ∀ p now ans, op = Op.data (.pkt p) now ans → p.sct = none)
    (fun s op s' r evs hinv hG h => by
      exact (step_all I (fun f => f.offset = none) s s' op r evs
        (fun f v hf => by rw [(noteFti_fields f v).2.2.2.2.2.2.1]; exact hf)
        (fun p now ans id _ _ => by simp [FdtRecv.new])
        (fun p now ans hop _ _ _ f hf => by
          rw [(push_fields I f p now ans).1, hG p now ans hop]
          simpa [FdtRecv.observeSct] using hf)
        (fun f f' hf hu => by rw [(updateExpired_fields hu).2.2.2.2.1]; exact hf)
        h hinv).1)
    ops (State.init cfg) tr (by constructor <;> (intro f hf; simp [State.init] at hf))
    hno hrun
  intro e he
  refine ⟨fun f hf => ⟨(this e he).1 f hf, fun now => (no_sct_server_time f now ((this e he).1 f hf)).1⟩,
    (this e he).2⟩


/-- **no_sct_uses_own_clock, per instance.**  Whatever the other instances of the session carry: if
    no packet of FDT instance id `i` (TOI 0, EXT_FDT id `i`) carries a sender-current-time, then in
    every reachable state every instance receiver with id `i` - in `fdt_receivers` or `fdt_current` -
    holds no clock offset, so each of its expiry decisions is taken on the receiver's own clock. -/
theorem no_sct_uses_own_clock_per_instance (I : ObjIface σ) (cfg : Config) (ops : List Op) (i : Nat)
    (tr : List (Op × State σ × Res × List Ev)) (hrun : runT I (State.init cfg) ops = some tr)
    (hno : ∀ op ∈ ops, ∀ p now ans, op = Op.data (.pkt p) now ans → p.toi = 0 → p.fdtId = some i →
      p.sct = none) :
    ∀ e ∈ tr, (∀ f ∈ e.2.1.fdtCurrent, f.fdtId = i → f.offset = none ∧ ∀ now, f.serverTime now = .ok now) ∧
              (∀ kf ∈ e.2.1.fdtReceivers, kf.2.fdtId = i → kf.2.offset = none) := by
  have := runT_inv I (fun s => AllFdt (fun f => f.fdtId = i → f.offset = none) s ∧ KeyInv s)
    (fun op => ∀ p now ans, op = Op.data (.pkt p) now ans → p.toi = 0 → p.fdtId = some i → p.sct = none)
    (fun s op s' r evs hinv hG h => by
      have := step_allK I (fun f => f.fdtId = i → f.offset = none) s s' op r evs
        (fun f v hf hi => by
          have hn := noteFti_fields f v
          rw [hn.2.2.2.2.2.2.1]; exact hf (by rw [← hn.1]; exact hi))
        (fun p now ans id _ _ _ => by simp [FdtRecv.new])
        (fun p now ans hop htoi id hid f hfid hf hpi => by
          have hp := push_fields I f p now ans
          rw [hp.2.2.2.1] at hpi
          have hidi : id = i := by rw [← hfid, hpi]
          subst hidi
          rw [hp.1, hG p now ans hop htoi hid]
          simpa [FdtRecv.observeSct] using hf hpi)
        (fun f f' hf hu hfi => by
          have hfl := updateExpired_fields hu
          rw [hfl.2.2.2.2.1]; exact hf (by rw [← hfl.1]; exact hfi))
        h hinv.1 hinv.2
      exact ⟨this.1.1, this.2⟩)
    ops (State.init cfg) tr
    ⟨by constructor <;> (intro f hf; simp [State.init] at hf), by intro kf hkf; simp [State.init] at hkf⟩
    hno hrun
  intro e he
  refine ⟨fun f hf hfi => ⟨(this e he).1.1 f hf hfi, fun now => (no_sct_server_time f now ((this e he).1.1 f hf hfi)).1⟩,
    fun kf hkf hfi => (this e he).1.2 kf hkf hfi⟩

/-- **writer_call_needs_attach** (what the driver prints vs the ghost event).  The driver prints the
    writer calls (`new`, `open`, `write`, `complete`, `error`, `interrupted`); the ghost `attach`
    events are shown through the probe (instance id of every live object) and through the
    `ExpiresAtHint` of `new`.  For an object implementation satisfying `ObjIface.Law`: in a history
    (hence in every prefix of a history) without an attach event for `toi` no writer call for `toi`
    is ever made - every printed writer call of a TOI is preceded by an `attach` of that TOI, to
    which `delivery_only_if_unexpired` applies. -/
theorem writer_call_needs_attach (I : ObjIface σ) (L : I.Law) (cfg : Config) (ops : List Op)
    (tr : List (Op × State σ × Res × List Ev)) (hrun : runT I (State.init cfg) ops = some tr)
    (toi : Nat) (hna : ∀ e ∈ tr, ∀ id, Ev.attach toi id ∉ e.2.2.2) :
    ∀ e ∈ tr, ∀ w, Ev.w toi w ∉ e.2.2.2 := by
  have := runT_ind I (fun s => InvT L toi s.objects)
    (fun _ _ _ evs => ∀ i, Ev.attach toi i ∉ evs)
    (fun _ _ _ evs => Silent toi evs)
    (fun s op s' r evs hinv h hx => step_silent L toi s s' op r evs h hinv hx)
    ops (State.init cfg) tr (by intro k o hm; simp [State.init] at hm) hrun hna
  exact this

/-- **skew cancels** (instance level, both the "late" and the "early" branch of
    `FdtReceiver::push`): after an EXT_TIME `sct` was observed at receiver time `now₀ + δ`, the
    estimate of the sender clock at receiver time `now + δ` is `sct + (now − now₀)` - the skew δ of
    the receiver clock has cancelled, whatever its sign and size (all clocks within
    1970 … 1970 + 2^62 µs, `sct` a 32-bit NTP second count). -/
theorem server_time_cancels_skew (f : FdtRecv σ) (sct now₀ now δ : Int)
    (hs : 0 ≤ sct ∧ sct < 4294967296000000)
    (h0 : TimeSane (now₀ + δ)) (h1 : TimeSane (now + δ)) :
    (f.observeSct (some sct) (now₀ + δ)).serverTime (now + δ) = .ok (sct + (now - now₀)) := by
  have hso := signedOffset_observe f sct (now₀ + δ)
  unfold TimeSane at h0 h1
  rw [serverTime_of_signed _ (now + δ) _ hso (by unfold offB; omega) (by unfold offB; omega) h1]
  congr 1; omega

/-- **skew_invariant.**  Take any history in which every packet of an FDT instance carries a
    sender-current-time (a 32-bit NTP second count) and run it twice: with the receiver times as
    given, and with every receiver time shifted by δ (any sign, any size; both clocks within
    1970 … 1970 + 2^62 µs).  Then either both runs panic at the same call or both complete with
    exactly the same per-call results and events - every `attach_fdt` decision (ghost `attach`
    events) and every writer call, in the same order - and the final states are equal except that
    every stored clock offset is shifted by δ (`shiftS`). -/
theorem skew_invariant (I : ObjIface σ) (cfg : Config) (δ : Int) (ops : List Op)
    (hops : ∀ op ∈ ops, SkewHyp δ op) :
    run I (State.init cfg) (ops.map (shiftOp δ)) =
      (match run I (State.init cfg) ops with
       | some (s', out) => some (shiftS δ s', out)
       | none => none) := by
  have := run_shift δ I ops (State.init cfg) hops
    (by constructor <;> (intro f hf; simp [State.init] at hf))
  exact this

/-- corollary: the observable outcome (results, attach decisions, writer calls) is the same -/
theorem skew_invariant_outputs (I : ObjIface σ) (cfg : Config) (δ : Int) (ops : List Op)
    (hops : ∀ op ∈ ops, SkewHyp δ op) :
    (run I (State.init cfg) (ops.map (shiftOp δ))).map (·.2) = (run I (State.init cfg) ops).map (·.2) := by
  rw [skew_invariant I cfg δ ops hops]
  cases run I (State.init cfg) ops with
  | none => rfl
  | some x => obtain ⟨s', out⟩ := x; rfl

/-! ### non-vacuity: concrete histories (the `Mini` object of the executable driver) -/

namespace Ex
def cfg : Config :=
  { maxObjectsError := 0, sessionTimeout := false, objectTimeout := true, maxCache := 1000,
    receiveOnce := true, expCheck := true }
/-- Expires = NTP 3999999999 = 1791011199 s after 1970 -/
def fdt : FdtAbs :=
  { expires := "3999999999", files := some [{ toi := "5", cc := none, tlen := 4, oti := some { fec := 0, esl := 4, msbl := 8 } }] }
/-- the FDT packet: instance 1, SCT = 1791011000 s -/
def pF : Pkt :=
  { toi := 0, closeObject := false, closeSession := false, fdtId := some 1, sct := some 1791011000000000,
    fti := some ⟨{ fec := 0, esl := 16, msbl := 64 }, 10⟩, pid := some (0, 0), plen := 10, dlen := 50 }
def pO : Pkt :=
  { toi := 5, closeObject := false, closeSession := false, fdtId := none, sct := none, fti := none,
    pid := some (0, 0), plen := 4, dlen := 20 }
/-- receiver clock one year ahead of the sender; the object arrives 100 s after the FDT
    (99 s before expiry on the sender's clock) -/
def skew : Int := 31536000000000
def opsEarly : List Op :=
  [.data (.pkt pF) (1791011000000000 + skew) (.ok fdt true), .data (.pkt pO) (1791011100000000 + skew) .err]
/-- the object arrives 300 s after the FDT (101 s after expiry on the sender's clock) -/
def opsLate : List Op :=
  [.data (.pkt pF) (1791011000000000 + skew) (.ok fdt true), .data (.pkt pO) (1791011300000000 + skew) .err]
def evs (ops : List Op) := (runT Mini.iface (State.init cfg) ops).map (fun tr => tr.map (·.2.2.2))
end Ex

/-- delivered through the unexpired instance although the receiver clock is a year ahead
    (`delivery_only_if_unexpired` has an attach event to talk about) -/
example : Ex.evs Ex.opsEarly =
    some [[Ev.fdtReceived 1],
          [Ev.w 5 (.new (.expiresAtHint 1791011199000000)), Ev.w 5 .opened, Ev.attach 5 1,
           Ev.w 5 (.write 0 4), Ev.w 5 .complete]] := by decide

/-- announced only by an instance expired on the sender's clock: silent -/
example : Ex.evs Ex.opsLate = some [[Ev.fdtReceived 1], []] := by decide

/-- the hypotheses of `skew_invariant` are met by that history (δ = minus one year) -/
example : ∀ op ∈ [Op.data (.pkt Ex.pF) (1791011000000000 + Ex.skew) (.ok Ex.fdt true)], SkewHyp (-Ex.skew) op := by
  intro op hop
  simp only [List.mem_singleton] at hop
  subst hop
  refine ⟨by simp only [TimeSane, Op.now, Ex.skew]; omega, by simp only [TimeSane, Op.now, Ex.skew]; omega, ?_⟩
  intro p now ans h htoi id hid
  injection h with h1 h2 h3
  injection h1 with h1
  subst h1
  exact ⟨1791011000000000, rfl, by omega, by omega⟩

/-- the contract `ObjIface.Law` of `expired_only_is_silent` is satisfiable -/
example : Toy.iface.Law := Toy.law

/-- ... and it is satisfied by the object `Mini` of the executable driver - the very model that is
    compared with the real receiver on every run (proved in `Lemmas/RecvMiniLaw.lean`) -/
example : Mini.iface.Law := Mini.law

/-- ... and by the FULL object model `ObjRecv` of agent orecv, plugged into the receiver through the
    adapter `RecvFull.lean` (the driver runs this instantiation next to `Mini` on every op) -/
example (P : ObjRecv.Params) : (Full.iface P).Law := Full.law P

/-- `expired_only_is_silent` for the receiver model instantiated with the full object model
    `ObjRecv`, for EVERY parameter set `P` of it (any codec, decompressor, writer environment), without
    any contract hypothesis: writer ⇒ attach ⇒ unexpired instance is closed for the real object model -/
theorem expired_only_is_silent_full_object_model (P : ObjRecv.Params) (cfg : Config) (ops : List Op)
    (tr : List (Op × State (Full.Any P) × Res × List Ev))
    (hrun : runT (Full.iface P) (State.init cfg) ops = some tr) (toi : Nat)
    (hexp : ∀ e ∈ tr, ∀ f ∈ e.2.1.fdtCurrent, f.Usable e.1.now →
      ∀ inst, f.inst = some inst → inst.getFile toi = none) :
    ∀ e ∈ tr, (∀ w, Ev.w toi w ∉ e.2.2.2) ∧ (∀ id, Ev.attach toi id ∉ e.2.2.2) :=
  expired_only_is_silent (Full.iface P) (Full.law P) cfg ops tr hrun toi hexp

/-- `writer_call_needs_attach` for the full object model -/
theorem writer_call_needs_attach_full_object_model (P : ObjRecv.Params) (cfg : Config) (ops : List Op)
    (tr : List (Op × State (Full.Any P) × Res × List Ev))
    (hrun : runT (Full.iface P) (State.init cfg) ops = some tr)
    (toi : Nat) (hna : ∀ e ∈ tr, ∀ id, Ev.attach toi id ∉ e.2.2.2) :
    ∀ e ∈ tr, ∀ w, Ev.w toi w ∉ e.2.2.2 :=
  writer_call_needs_attach (Full.iface P) (Full.law P) cfg ops tr hrun toi hna

/-- `expired_only_is_silent` for the validated executable model, without any contract hypothesis -/
theorem expired_only_is_silent_driver_model (cfg : Config) (ops : List Op)
    (tr : List (Op × State Mini.Obj × Res × List Ev))
    (hrun : runT Mini.iface (State.init cfg) ops = some tr) (toi : Nat)
    (hexp : ∀ e ∈ tr, ∀ f ∈ e.2.1.fdtCurrent, f.Usable e.1.now →
      ∀ inst, f.inst = some inst → inst.getFile toi = none) :
    ∀ e ∈ tr, (∀ w, Ev.w toi w ∉ e.2.2.2) ∧ (∀ id, Ev.attach toi id ∉ e.2.2.2) :=
  expired_only_is_silent Mini.iface Mini.law cfg ops tr hrun toi hexp

end Flute.Props.C19
