import FluteModel.Lemmas.BencStream
/-
  C20 - object sources interchangeable.

  `Stream = {bytes, pos, sched}`: `read(buf)` returns `min(buf.len, max(1, sched head), remaining)` bytes (any
  positive short read, 0 only at the end), one schedule entry per call, exhausted schedule = full reads.
  All statements are for ALL bytes, ALL positions and ALL schedules.
-/
namespace Flute.Props.C20
open Flute Flute.Fec Flute.BlockEnc Flute.BencShape Flute.BencStream

/-- the repaired fill loop of `read_block_stream` delivers exactly the next `min(want, remaining)` bytes of the
    stream and advances the position by as much - whatever the read schedule (1 byte at a time, random short
    reads, BufReader-like, …) -/
theorem fill_reads_all (st : Stream) (want : Nat) :
    (fill want st want []).1 = (st.bytes.drop st.pos).take want ∧
    (fill want st want []).2.pos = st.pos + min want (st.bytes.length - st.pos) ∧
    (fill want st want []).2.bytes = st.bytes := by
  have := fill_spec want st want [] (Nat.le_refl _)
  simpa using this

/-- one block: cutting the next block from a stream positioned at the buffer source's offset yields the same
    `Block` (same shards, same source block length), the same new offset, and leaves the stream positioned at
    the buffer source's new offset - for every schedule.  (The only difference is that the buffer source sets
    `read_end` eagerly when the object ends, the stream source on its next `read() == 0`; the B-flag decision
    does not look at `read_end`.) -/
theorem stream_block_eq_buffer_block (P : Params) (s : Enc) (st : Stream) (hnl : P.legacy = false)
    (hpos : st.pos = s.off) (hlt : s.off < st.bytes.length) (hk : 0 < s.blockLength * P.e) :
    ∃ st', readBlockStream P s st =
        (match readBlockBuffer P s st.bytes with
         | some sb => some { sb with src := .stream st', readEnd := s.readEnd }
         | none => none) ∧
      st'.bytes = st.bytes ∧ st'.pos = min (s.off + s.blockLength * P.e) st.bytes.length :=
  readBlockStream_eq_buffer P s st hnl hpos hlt hk

/- FULL STATEMENT WANTED (`stream_eq_buffer`): for all bytes, OTI, schedules, the packet list of a transfer from
   the stream = the packet list from the buffer.  What is proved: the block-cutting step above (for every
   schedule) and that a transfer starts from position 0 (below).  What is missing for the full statement is the
   simulation argument through `readLoop` ("the scheduling part of the encoder reads only blocks / idx /
   counters, never the source"); it is validated instead: every quick run compares ≥ 700 chunked / Cursor /
   File / BufReader<File> transfers pairwise with the buffer transfer and with this model (stream mode). -/

/-- every transfer re-reads the source from its start: the encoder a transfer starts with does not depend on
    where the previous transfer left the stream -/
theorem each_transfer_rereads (P : Params) (st : Stream) (pos' : Nat) (closable : Bool) :
    Enc.new P (.stream st) closable = Enc.new P (.stream { st with pos := pos' }) closable ∧
    ∀ s0, Enc.new P (.stream st) closable = .ok s0 →
      ∃ st0, s0.src = .stream st0 ∧ st0.pos = 0 ∧ st0.bytes = st.bytes ∧ s0.off = 0 ∧ s0.sbn = 0 ∧ s0.blocks = [] := by
  constructor
  · simp [Enc.new, Stream.rewind]
  · intro s0 h
    unfold Enc.new at h
    simp only at h
    cases hq : Partition.blockPartitioning P.b P.len P.e with
    | error w => rw [hq] at h; cases h
    | ok q =>
      obtain ⟨aL, aS, nL, nB⟩ := q
      rw [hq] at h
      simp only [Except.ok.injEq] at h
      subst h
      exact ⟨st.rewind, rfl, rfl, rfl, rfl, rfl, rfl⟩

/-- the transfer length of a stream source is its length by `seek(End)`, wherever it is positioned -/
theorem length_by_seek_end (st : Stream) (pos' : Nat) (sched' : List Nat) :
    (Source.stream { st with pos := pos', sched := sched' }).len = st.bytes.length ∧
    (Source.stream st).len = (Source.buffer st.bytes).len := ⟨rfl, rfl⟩

/-! ### D8: negation witness on the model of the code BEFORE the repair, and the same input after it -/

def d8Bytes : Bytes := List.range 40
def d8P (legacy : Bool) : Params := { codec := noCode, e := 4, b := 4, p := 0, window := 1, len := 40, legacy := legacy }
def d8Stream : Source := .stream { bytes := d8Bytes, pos := 0, sched := List.replicate 64 5 }

def d8Run (legacy : Bool) (src : Source) : List (Nat × Nat × Bytes × Bool) :=
  match Enc.new (d8P legacy) src true with
  | .ok s0 => (runAll (d8P legacy) 64 s0).map (fun p => (p.sbn, p.esi, p.payload, p.closeObject))
  | .error _ => []

/-- before the repair (one `read()` per block): 40 bytes, E = 4, B = 4, reads of 5 bytes → 8 blocks of two
    symbols (4 + 1 bytes) instead of 4 + 3 + 3 symbols: the packets differ from the buffer source's -/
theorem d8_legacy_stream_ne_buffer :
    d8Run true d8Stream ≠ d8Run true (.buffer d8Bytes) ∧ (d8Run true d8Stream).length = 16 ∧
    (d8Run true (.buffer d8Bytes)).length = 10 := by decide

/-- after the repair the same input gives the buffer's packets -/
theorem d8_repaired_stream_eq_buffer :
    d8Run false d8Stream = d8Run false (.buffer d8Bytes) ∧ (d8Run false d8Stream).length = 10 := by decide

end Flute.Props.C20
