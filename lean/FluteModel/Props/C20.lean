import FluteModel.Lemmas.BencStream
import FluteModel.Lemmas.BencSim
import FluteModel.Lemmas.BencEmpty
import FluteModel.Lemmas.BencSessionSim
/-
  C20 - object sources interchangeable.

  `Stream = {bytes, pos, sched}`: `read(buf)` returns `min(buf.len, max(1, sched head), remaining)` bytes (any
  positive short read, 0 only at the end), one schedule entry per call, exhausted schedule = full reads.
  All statements are for ALL bytes, ALL positions and ALL schedules.
  A schedule entry 0 is read as 1: the model cannot express a `read()` that returns `Ok(0)` before the end of the
  stream.  Justification: `std::io::Read::read` documents `Ok(0)` for a non-empty buffer as "this reader has reached its
  end of file"; `read_block_stream` (like `read_exact`, `read_to_end`, `BufReader`) relies on that contract and treats
  `Ok(0)` as EOF (`Ok(0) => break`), so a source that violates the contract gets a short block exactly as a source that
  really ended would.  "Whatever sizes its reads return" is therefore "any POSITIVE size"; read errors
  (`Err(Interrupted)` is retried, any other `Err` ends the transfer) are outside the model - recorded in props.d/C20.json.
-/
namespace Flute.Props.C20
open Flute Flute.Fec Flute.BlockEnc Flute.BencArith Flute.BencBlocks Flute.BencInv Flute.BencTrace Flute.BencShape Flute.BencStream Flute.BencSim

/-- the repaired fill loop of `read_block_stream` delivers exactly the next `min(want, remaining)` bytes of the
    stream and advances the position by as much - whatever the read schedule (1 byte at a time, random short
    reads, BufReader-like, …) -/
theorem fill_reads_all (st : Stream) (want : Nat) :
    (fill want st want []).1 = (st.bytes.drop st.pos).take want ∧
    (fill want st want []).2.pos = st.pos + min want (st.bytes.length - st.pos) ∧
    (fill want st want []).2.bytes = st.bytes := by
  have := fill_spec want st want [] (Nat.le_refl _)
  simpa using this

/-- one block: cutting the next block from a stream positioned at the buffer source's offset yields the same
    `Block` (same shards, same source block length), the same new offset, and leaves the stream positioned at
    the buffer source's new offset - for every schedule.  (The only difference is that the buffer source sets
    `read_end` eagerly when the object ends, the stream source on its next `read() == 0`; the B-flag decision
    does not look at `read_end`.) -/
theorem stream_block_eq_buffer_block (P : Params) (s : Enc) (st : Stream) (hnl : P.legacy = false)
    (hpos : st.pos = s.off) (hlt : s.off < st.bytes.length) (hk : 0 < s.blockLength * P.e) :
    ∃ st', readBlockStream P s st =
        (match readBlockBuffer P s st.bytes with
         | some sb => some { sb with src := .stream st', readEnd := s.readEnd }
         | none => none) ∧
      st'.bytes = st.bytes ∧ st'.pos = min (s.off + s.blockLength * P.e) st.bytes.length :=
  readBlockStream_eq_buffer P s st hnl hpos hlt hk

/-- **stream = buffer, whole packet list.**  For ALL object bytes, OTI, window sizes, for a stream holding the same
    bytes at ANY position with ANY read schedule, and for ANY sequence of `read(force)` calls (so also removal at
    any packet index):  (1) every run of the buffer encoder is a run of the stream encoder with the same packets and
    the same next result for either force flag (in particular `None` at the same call) - and (2) conversely;
    (3) the executable packet list of a whole transfer is the same. -/
theorem stream_eq_buffer {P : Params} {c : Bytes} {aL aS nL n : Nat} (h : Cfg P c aL aS nL n)
    {closable : Bool} {st : BlockEnc.Stream} {sb0 ss0 : Enc} (hst : st.bytes = c)
    (h1 : Enc.new P (.buffer c) closable = .ok sb0) (h2 : Enc.new P (.stream st) closable = .ok ss0) :
    (∀ tr sb, Reads P sb0 tr sb → ∃ ss, Reads P ss0 tr ss ∧ ∀ f, (BlockEnc.read P sb f).1 = (BlockEnc.read P ss f).1) ∧
    (∀ tr ss, Reads P ss0 tr ss → ∃ sb, Reads P sb0 tr sb ∧ ∀ f, (BlockEnc.read P sb f).1 = (BlockEnc.read P ss f).1) ∧
    (∀ fuel, runAll P fuel ss0 = runAll P fuel sb0) := by
  have hS := h.setup
  have hsim := sim_init hst h1 h2
  have hs0 := new_state h.part h1
  obtain ⟨hI0, hT0⟩ := inv_init hS closable
  rw [← hs0] at hI0 hT0
  have hst0 : sb0.stopped = false := by rw [hs0]
  refine ⟨?_, ?_, ?_⟩
  · intro tr sb hr
    obtain ⟨ss, hrs, hs⟩ := sim_reads_bs hS h.accepts hsim hI0 hT0 hst0 hr
    obtain ⟨hI, hT, _, _⟩ := reach hS h.accepts hI0 hT0 hst0 hr
    exact ⟨ss, hrs, fun f => (sim_read hS h.accepts (tr := pkts tr) f hs hI hT).1⟩
  · intro tr ss hr
    obtain ⟨sb, hrb, hs⟩ := sim_reads_sb hS h.accepts hsim hI0 hT0 hst0 hr
    obtain ⟨hI, hT, _, _⟩ := reach hS h.accepts hI0 hT0 hst0 hrb
    exact ⟨sb, hrb, fun f => (sim_read hS h.accepts (tr := pkts tr) f hs hI hT).1⟩
  · intro fuel
    rw [runAll_eq_runPairs, runAll_eq_runPairs, (sim_runPairs hS h.accepts fuel sb0 ss0 [] hsim hI0 hT0).1]

/-- **n transfers = n identical copies.**  `k` consecutive transfers of a stream source (each transfer finds the stream
    wherever the previous one left it, with whatever is left of the read schedule) emit `k` times the packet list of
    ONE transfer from the buffer - and so do `k` transfers of the buffer source.  (Same `closable` flag for all `k`; in
    a Sender the last of `max_transfer_count` transfers differs from the others only by that flag, i.e. by B on its
    final packet - `close_object_only_last`.) -/
theorem each_transfer_rereads_n {P : Params} {c : Bytes} {aL aS nL n : Nat} (h : Cfg P c aL aS nL n)
    {closable : Bool} {sb0 : Enc} (h1 : Enc.new P (.buffer c) closable = .ok sb0) (fuel k : Nat)
    (st : BlockEnc.Stream) (hst : st.bytes = c) :
    nTransfers P closable fuel k (.stream st) = List.replicate k (runAll P fuel sb0) ∧
    nTransfers P closable fuel k (.buffer c) = List.replicate k (runAll P fuel sb0) := by
  rw [runAll_eq_runPairs]
  exact ⟨nTransfers_stream h.setup h.accepts h.part h1 fuel k st hst,
         nTransfers_buffer h.setup h.accepts h.part h1 fuel k⟩

/-- **source independence on the function the driver runs** (`Session.runLoop` / `Session.read`, C08's glue model of
    `SenderSession::run` + `FileDesc` + `Fdt::transfer_done`): for a freshly added non-empty object, ANY history of
    `Sender::read`, `remove_object` and clock advances returns exactly the same results (packets incl. payload, B flag,
    source block length; `None`s) whether the bytes are supplied in a buffer or as a stream holding the same bytes at ANY
    position with ANY read schedule.  This covers every repeated transfer with its real per-transfer `closabled_object`
    (`is_last_transfer`), carousel rounds, forced stops, the source being handed from transfer to transfer in whatever
    state the previous one left it (`release`: `src := e'.src`): "every repeated transfer re-reads the source from its
    start" for all transfer counts.  (`nTransfers` / `each_transfer_rereads_n` below is the special case of unforced
    transfers with one fixed flag.) -/
theorem session_source_independent {c : Bytes} {aL aS nL n : Nat} (ops : List Flute.BencSession.Op) (x0 : Session)
    (st : BlockEnc.Stream) (hst : st.bytes = c) (hsrc : x0.src = .buffer c)
    (hnl : x0.P.legacy = false) (he : 0 < x0.P.e) (hb : 0 < x0.P.b) (hlen : x0.P.len = c.length) (hl : 0 < c.length)
    (hw : 1 ≤ x0.P.window) (hq : Partition.blockPartitioning x0.P.b x0.P.len x0.P.e = .ok (aL, aS, nL, n))
    (hA : Accepts x0.P c aL aS nL n) (hle : Flute.BencPsi.SymLe x0.P.codec) (henc : x0.enc = none) :
    (Flute.BencSession.srun ops x0).1 = (Flute.BencSession.srun ops { x0 with src := .stream st }).1 := by
  have hg := Flute.BencSession.sgood_init x0 hsrc hnl he hb hlen hl hw hq hA hle henc
  refine Flute.BencSessionSim.ssim_run ops x0 _ ?_ hg
  exact ⟨rfl, hsrc, ⟨st, rfl, hst⟩, rfl, rfl, rfl, rfl, rfl, rfl, rfl, rfl, rfl, Or.inl ⟨henc, henc⟩⟩

/-- **transient source fault, then the next transfer** (class of seeded C20-5): a read that fails once with a hard error
    (TimedOut, WouldBlock, …) in mid-transfer ends the cutting of THAT transfer (`read_end`; the blocks already read are
    still sent) and leaves an ORDINARY stream behind: every later transfer starts with `BlockEncoder::new`, which rewinds
    it wherever the faulty transfer stopped, so `stream_eq_buffer` / `each_transfer_rereads_n` / `session_source_independent`
    apply to it - the later transfers are whole and carry the buffer source's packets.  (`Err(Interrupted)` is retried by
    `read_block_stream` and does not exist in the model: a source with EINTRs IS the plain stream; classes C08-5 / C07-6.)
    Both are compared with the real Sender on fault-injecting streams at every read index (engine families `fault-*`,
    `fault-shape-*`, transfers 2 and 3 read after the fault). -/
theorem transient_fault_leaves_plain_stream (P : Params) (s : Enc) (st : BlockEnc.Stream) (k : Nat)
    (h : fillE (s.blockLength * P.e) st k (s.blockLength * P.e) [] = none) :
    readBlockFaulty P s st k true = some { s with src := .stream st, readEnd := true } ∧
    ∀ closable, Enc.new P (.stream st) closable = Enc.new P (.stream { st with pos := 0 }) closable := by
  constructor
  · unfold readBlockFaulty; simp [h]
  · intro closable; simp [Enc.new, Stream.rewind]

/-- the empty object: buffer and stream both send the lone empty packet, then `None` - when the codec yields no shard for
    the empty buffer (`Quiet`: No-Code, Reed-Solomon).  Forced or not, any schedule, any position. -/
theorem stream_eq_buffer_empty (P : Params) (hnl : P.legacy = false) (hl : P.len = 0) (hw : 1 ≤ P.window)
    (hq : Flute.BencEmpty.Quiet P) (closable f : Bool) (st : BlockEnc.Stream) (hst : st.bytes = []) :
    ∃ sb0 ss0 sb2 ss2, Enc.new P (.buffer []) closable = .ok sb0 ∧ Enc.new P (.stream st) closable = .ok ss0 ∧
      BlockEnc.read P sb0 f = (.pkt emptyPkt, sb2) ∧ BlockEnc.read P ss0 f = (.pkt emptyPkt, ss2) ∧
      (∀ f', (BlockEnc.read P sb2 f').1 = .none) ∧ (∀ f', (BlockEnc.read P ss2 f').1 = .none) := by
  obtain ⟨sb0, sb2, h1, h2, h3⟩ := Flute.BencEmpty.empty_buffer P hl hw hq closable f
  obtain ⟨ss0, ss2, g1, g2, g3⟩ := Flute.BencEmpty.empty_stream P hnl hl hw st hst closable f
  exact ⟨sb0, ss0, sb2, ss2, h1, g1, h2, g2, h3, g3⟩

/-- … and NOT for RaptorQ / Raptor (finding `empty-object-fec-buffer-vs-stream`): negation witness on the model of the
    current code - the buffer source sends the empty block's 2 repair symbols, the stream source the lone packet -/
theorem empty_object_raptorq_stream_ne_buffer :
    (match Enc.new { codec := raptorQ (fun _ _ _ _ => []), e := 4, b := 3, p := 2, window := 2, len := 0 } (.buffer []) true,
           Enc.new { codec := raptorQ (fun _ _ _ _ => []), e := 4, b := 3, p := 2, window := 2, len := 0 }
             (.stream { bytes := [], pos := 0, sched := [] }) true with
     | .ok a, .ok b =>
        ((runAll { codec := raptorQ (fun _ _ _ _ => []), e := 4, b := 3, p := 2, window := 2, len := 0 } 8 a).length,
         (runAll { codec := raptorQ (fun _ _ _ _ => []), e := 4, b := 3, p := 2, window := 2, len := 0 } 8 b).length)
     | _, _ => (0, 0)) = (2, 1) := by decide

/-- every transfer re-reads the source from its start: the encoder a transfer starts with does not depend on
    where the previous transfer left the stream -/
theorem each_transfer_rereads (P : Params) (st : Stream) (pos' : Nat) (closable : Bool) :
    Enc.new P (.stream st) closable = Enc.new P (.stream { st with pos := pos' }) closable ∧
    ∀ s0, Enc.new P (.stream st) closable = .ok s0 →
      ∃ st0, s0.src = .stream st0 ∧ st0.pos = 0 ∧ st0.bytes = st.bytes ∧ s0.off = 0 ∧ s0.sbn = 0 ∧ s0.blocks = [] := by
  constructor
  · simp [Enc.new, Stream.rewind]
  · intro s0 h
    unfold Enc.new at h
    simp only at h
    cases hq : Partition.blockPartitioning P.b P.len P.e with
    | error w => rw [hq] at h; cases h
    | ok q =>
      obtain ⟨aL, aS, nL, nB⟩ := q
      rw [hq] at h
      simp only [Except.ok.injEq] at h
      subst h
      exact ⟨st.rewind, rfl, rfl, rfl, rfl, rfl, rfl⟩

/-- the transfer length of a stream source is its length by `seek(End)`, wherever it is positioned -/
theorem length_by_seek_end (st : Stream) (pos' : Nat) (sched' : List Nat) :
    (Source.stream { st with pos := pos', sched := sched' }).len = st.bytes.length ∧
    (Source.stream st).len = (Source.buffer st.bytes).len := ⟨rfl, rfl⟩

/-! ### D8: negation witness on the model of the code BEFORE the repair, and the same input after it -/

def d8Bytes : Bytes := List.range 40
def d8P (legacy : Bool) : Params := { codec := noCode, e := 4, b := 4, p := 0, window := 1, len := 40, legacy := legacy }
def d8Stream : Source := .stream { bytes := d8Bytes, pos := 0, sched := List.replicate 64 5 }

def d8Run (legacy : Bool) (src : Source) : List (Nat × Nat × Bytes × Bool) :=
  match Enc.new (d8P legacy) src true with
  | .ok s0 => (runAll (d8P legacy) 64 s0).map (fun p => (p.sbn, p.esi, p.payload, p.closeObject))
  | .error _ => []

/-- before the repair (one `read()` per block): 40 bytes, E = 4, B = 4, reads of 5 bytes → 8 blocks of two
    symbols (4 + 1 bytes) instead of 4 + 3 + 3 symbols: the packets differ from the buffer source's -/
theorem d8_legacy_stream_ne_buffer :
    d8Run true d8Stream ≠ d8Run true (.buffer d8Bytes) ∧ (d8Run true d8Stream).length = 16 ∧
    (d8Run true (.buffer d8Bytes)).length = 10 := by decide

/-- after the repair the same input gives the buffer's packets -/
theorem d8_repaired_stream_eq_buffer :
    d8Run false d8Stream = d8Run false (.buffer d8Bytes) ∧ (d8Run false d8Stream).length = 10 := by decide

/-- non-vacuity of `Cfg`: 5 bytes, E = 2, B = 2, No-Code, window 2 -/
example : Cfg { codec := noCode, e := 2, b := 2, p := 0, window := 2, len := 5 } [1, 2, 3, 4, 5] 2 1 1 2 :=
  ⟨rfl, by decide, by decide, rfl, by decide, rfl,
   accepts_of_total ⟨rfl, by decide, rfl, by decide,
      good_of_partition 2 5 2 2 1 1 2 (by decide) (by decide) (by decide) rfl⟩ (fun _ _ _ => rfl)⟩

end Flute.Props.C20
