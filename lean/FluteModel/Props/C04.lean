import FluteModel.Recv
import FluteModel.Lemmas.RecvTotal
import FluteModel.Lemmas.RecvToy
import FluteModel.Lemmas.RecvGrowth
import FluteModel.Lemmas.RecvMiniLaw
import FluteModel.Lemmas.RecvFullLaw
/-
  C04 - untrusted input, SESSION-LEVEL receiver (`Receiver::push_data` / `push` / `cleanup`):
  no parsed packet, no XML-parser answer, no history can make a receiver call panic; a datagram the
  parser rejects leaves the receiver untouched.

  Division of labour: totality of the datagram PARSER is `Flute.Props.C04.Wire` (engine `wire`),
  totality and allocation bounds of the per-object machine are `Flute.Props.C04.Obj` (engine
  `orecv`).  Here the object machine is a parameter `I : ObjIface σ` (total Lean functions); the one
  thing the receiver needs of it is `ObjIface.CompleteSound`: when `push` made the writer's
  `complete` call the object is `Completed` when `push` returns (otherwise `fdt_meta().unwrap()` in
  `push_fdt_obj` would panic).  "Bounded time": every function of the model is a total, structurally
  recursive Lean function; the only loop with a data-dependent bound, `gc_object_error`, is shown to
  reach its exit condition (`gc_error_loop_terminates`).
  Hypotheses on the CALLER's clock (`TimeSane`: 1970 ≤ now < 1970 + 2^62 µs) are needed because
  `SystemTime ± Duration` panics in std outside the i64-second range; the packet-side quantities
  are bounded by the parser (`Pkt.WF`: 20-bit FDT instance id, 32-bit NTP seconds).
-/
namespace Flute.Props.C04
open Flute Flute.Recv
variable {σ : Type}

/-- every state reachable from a fresh receiver satisfies the invariant `Good` of the totality proof -/
theorem reachable_states_good (I : ObjIface σ) (hI : I.CompleteSound) (cfg : Config) (ops : List Op)
    (tr : List (Op × State σ × Res × List Ev)) (hops : ∀ op ∈ ops, OpOK op)
    (hrun : runT I (State.init cfg) ops = some tr) : ∀ e ∈ tr, AllFdt Good e.2.1 :=
  runT_inv I (AllFdt Good) OpOK
    (fun s op s' r evs hinv hop h => step_good I hI s s' op r evs hop h hinv)
    ops (State.init cfg) tr (by constructor <;> (intro f hf; simp [State.init] at hf)) hops hrun

/-- **recv_push_total.**  In ANY state satisfying the reachable-state invariant, for ANY parsed
    packet (field ranges of the parser), ANY XML-parser answer (an arbitrary abstract FDT or an
    error) and any sane receiver time, `Receiver::push` returns `Ok` or `Err`: it does not panic. -/
theorem recv_push_total (I : ObjIface σ) (hI : I.CompleteSound) (s : State σ) (p : Pkt) (now : Int)
    (ans : FdtAns) (hs : AllFdt Good s) (hp : p.WF) (hn : TimeSane now) :
    ∃ s' r evs, push I s p now ans = .ok (s', r, evs) := by
  obtain ⟨x, hx⟩ := step_total I hI s (.data (.pkt p) now ans)
    ⟨hn, fun q hq => by injection hq with hq; subst hq; exact hp⟩ hs
  obtain ⟨s', r, evs⟩ := x
  exact ⟨s', r, evs, hx⟩

/-- `cleanup` does not panic either -/
theorem recv_cleanup_total (I : ObjIface σ) (s : State σ) (now : Int) (stale : Stale)
    (hs : AllFdt Good s) (hn : TimeSane now) : ∃ s' evs, cleanup I s now stale = .ok (s', evs) := by
  obtain ⟨x, hx⟩ := cleanup_total I s now stale hn hs
  obtain ⟨s', evs⟩ := x
  exact ⟨s', evs, hx⟩

/-- **recv_history_total.**  From a fresh receiver NO history of datagrams (rejected, foreign TSI,
    or any parsed packet with any parser answer) and cleanups makes any call panic. -/
theorem recv_history_total (I : ObjIface σ) (hI : I.CompleteSound) (cfg : Config) (ops : List Op)
    (hops : ∀ op ∈ ops, OpOK op) : ∃ s' out, run I (State.init cfg) ops = some (s', out) := by
  obtain ⟨x, hx⟩ := run_total I hI ops (State.init cfg) hops
    (by constructor <;> (intro f hf; simp [State.init] at hf))
  obtain ⟨s', out⟩ := x
  exact ⟨s', out, hx⟩

/-- **parse_reject_preserves_state.**  A datagram rejected by the parser leaves the receiver state
    untouched (`push_data` returns the parser's `Err`, no event). -/
theorem parse_reject_preserves_state (I : ObjIface σ) (s : State σ) (now : Int) (ans : FdtAns) :
    pushData I s .reject now ans = .ok (s, .err, []) := rfl

/-- a datagram of another TSI is ignored as well -/
theorem other_tsi_preserves_state (I : ObjIface σ) (s : State σ) (now : Int) (ans : FdtAns) :
    pushData I s .otherTsi now ans = .ok (s, .ok, []) := rfl

/-- **later_valid_session_delivered_partial.**  After ANY sequence of datagrams that were rejected
    by the parser or carried a foreign TSI, the receiver is in exactly the state it was in before:
    whatever is pushed afterwards (in particular a valid session) is processed exactly as if the
    malformed datagrams had never arrived - same final state, same results, same events.
    Full statement (not proved here): the same for malformed datagrams that the parser ACCEPTS;
    that needs the object-level refinement theorem R (a packet accepted for a foreign TOI /
    instance id does not disturb the delivery of a later session on fresh TOIs and instance ids) and
    is validated by the correspondence (`malformed-*`, `xml-*`, `fuzz-*` cases, each followed by a
    fresh valid session that must be delivered). -/
theorem later_valid_session_delivered_partial (I : ObjIface σ) (s : State σ) (junk ops : List Op)
    (hj : ∀ op ∈ junk, Ignored op) :
    ∃ jout, jout.length = junk.length ∧ (∀ o ∈ jout, o.2 = []) ∧
      run I s (junk ++ ops) =
        (match run I s ops with
         | some (s', out) => some (s', jout ++ out)
         | none => none) := by
  induction junk with
  | nil =>
    refine ⟨[], rfl, by simp, ?_⟩
    simp only [List.nil_append]
    cases run I s ops with
    | none => rfl
    | some x => obtain ⟨a, b⟩ := x; rfl
  | cons j js ih =>
    obtain ⟨jout, hlen, hev, hrun⟩ := ih (fun o ho => hj o (List.mem_cons_of_mem _ ho))
    have hjI := hj j (by simp)
    cases j with
    | cleanup now stale => exact absurd hjI (by simp [Ignored])
    | data d now ans =>
      cases d with
      | pkt p => exact absurd hjI (by simp [Ignored])
      | reject =>
        refine ⟨(Res.err, []) :: jout, by simp [hlen], ?_, ?_⟩
        · intro o ho
          rcases List.mem_cons.mp ho with ho | ho
          · subst ho; rfl
          · exact hev o ho
        · simp only [List.cons_append, run, step, pushData]
          rw [hrun]
          cases run I s ops with
          | none => rfl
          | some x => obtain ⟨a, b⟩ := x; rfl
      | otherTsi =>
        refine ⟨(Res.ok, []) :: jout, by simp [hlen], ?_, ?_⟩
        · intro o ho
          rcases List.mem_cons.mp ho with ho | ho
          · subst ho; rfl
          · exact hev o ho
        · simp only [List.cons_append, run, step, pushData]
          rw [hrun]
          cases run I s ops with
          | none => rfl
          | some x => obtain ⟨a, b⟩ := x; rfl

/-- **gc_error_loop_terminates.**  The `while objects_error.len() > max_objects_error` loop of
    `gc_object_error`, run for as many iterations as the list is long (the model's fuel), has reached
    its exit condition: it cannot spin. -/
theorem gc_error_loop_terminates (I : ObjIface σ) (s : State σ) :
    (gcObjectError I s.errors.length s).1.errors.length ≤ s.cfg.maxObjectsError :=
  (gcObjectError_bound I s.errors.length s (by omega)).1

/-- **registries_grow_by_one** (session-level part of `alloc_bounded`).  Whatever a datagram
    contains, one `push_data` adds at most ONE entry to `objects` and at most ONE to `fdt_receivers`
    (`fdt_current` ≤ 10 and `objects_error` ≤ max are C17); `cleanup` adds none.  No packet can
    blow up the session-level registries; what an entry may allocate is the object-level bound
    (`Flute.Props.C04.Obj`, known finding D31 for the first source block). -/
theorem registries_grow_by_one (I : ObjIface σ) (s s' : State σ) (op : Op) (r : Res) (evs : List Ev)
    (h : step I s op = .ok (s', r, evs)) :
    s'.objects.length ≤ s.objects.length + 1 ∧ s'.fdtReceivers.length ≤ s.fdtReceivers.length + 1 ∧
    (∀ now stale, op = .cleanup now stale →
      s'.objects.length ≤ s.objects.length ∧ s'.fdtReceivers.length ≤ s.fdtReceivers.length) :=
  step_growth I s s' op r evs h

/-- `recv_history_total` for the validated executable model (`Mini` object of the driver): its
    `CompleteSound` contract is a theorem (`Lemmas/RecvMiniLaw.lean`), so no hypothesis on the
    object is left. -/
theorem recv_history_total_driver_model (cfg : Config) (ops : List Op) (hops : ∀ op ∈ ops, OpOK op) :
    ∃ s' out, run Mini.iface (State.init cfg) ops = some (s', out) :=
  recv_history_total Mini.iface Mini.completeSound cfg ops hops

/-- `recv_history_total` for the receiver instantiated with the FULL object model `ObjRecv`
    (adapter `RecvFull.lean`; `CompleteSound` from agent orecv's `push_complete_state`).  A fault of
    `ObjRecv` itself (its `panic`/`hang` outcomes, object level: `Flute.Props.C04.Obj`) freezes that
    object in the adapter; what is proved here is that the SESSION level never panics around it. -/
theorem recv_history_total_full_object_model (cfg : Config) (ops : List Op) (hops : ∀ op ∈ ops, OpOK op) :
    ∃ s' out, run Full.iface (State.init cfg) ops = some (s', out) :=
  recv_history_total Full.iface Full.completeSound cfg ops hops

/-! ### non-vacuity, and why the clock hypothesis is there -/

/-- the object contract is satisfiable (the `Toy` object never calls `complete`) -/
example : Toy.iface.CompleteSound := by
  intro o p h
  simp only [Toy.iface] at h
  split at h <;> simp at h

/-- an ordinary object packet -/
def exPkt : Pkt :=
  { toi := 7, closeObject := false, closeSession := false, fdtId := none, sct := none, fti := none,
    pid := some (0, 0), plen := 4, dlen := 24 }

/-- `OpOK` is met by ordinary calls -/
example : OpOK (Op.data (.pkt exPkt) 1790000000000000 .err) := by
  refine ⟨by unfold TimeSane; omega, ?_⟩
  intro p hp
  injection hp with hp; subst hp
  exact And.intro (fun i h => by simp [exPkt] at h) (fun t h => by simp [exPkt] at h)

/-- without the hypothesis on the caller's clock `get_server_time` does overflow (std panics on
    `SystemTime + Duration` beyond the i64-second range): an instance that observed an SCT one µs
    ahead of the receiver, asked at the very end of the representable range -/
example : ({ fdtId := 1, obj := (none : Option Toy.Obj), st := .complete, expires := some 0, inst := none,
             utf8 := true, offset := some 1, late := false, check := true, hasMeta := true, bytes := 0, fti := none } : FdtRecv Toy.Obj).serverTime
            (9223372036854775808 * 1000000 - 1) =
          .error "overflow when adding duration to instant" := by
  simp [FdtRecv.serverTime, sysAdd, sysLimit]

end Flute.Props.C04
